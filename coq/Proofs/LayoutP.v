(* C05: every codec buildCodec returns for (schema, Go type) stores, at each
   position, exactly as many bytes as the Go type at that position occupies. *)
From Coq Require Import List ZArith Lia Bool.
Require Import Avro.Model.Base Avro.Model.Prim Avro.Model.Schema Avro.Model.GoType
               Avro.Model.Blocks Avro.Model.Time Avro.Model.Spec Avro.Model.Codec Avro.Model.Layout.
Require Import Avro.Proofs.CodecInd.
Import ListNotations.
Open Scope Z_scope.

Lemma sizeof_underlying t : sizeof (underlying t) = sizeof t.
Proof. induction t; try reflexivity. cbn [underlying sizeof]. exact IHt. Qed.

Lemma underlying_idem t : underlying (underlying t) = underlying t.
Proof. induction t; try reflexivity. cbn [underlying]. exact IHt. Qed.

(* a registry is sane when the library's wrapper builders are registered for the wrapper types only *)
Definition reg_sane (reg : registry) : Prop :=
  forall t0 w, reg_lookup reg t0 = Some (BWrap w) -> t0 = TWrap w.

Lemma reg_std_sane : reg_sane reg_std.
Proof. intros t0 w H. destruct t0; try discriminate H; cbn in H; injection H as <-; reflexivity. Qed.

Lemma reg_set_sane reg id k : reg_sane reg -> reg_sane (reg_set reg id (BCustom k)).
Proof.
  intros Hr t0 w H. destruct t0; try discriminate H; cbn in H.
  - apply (Hr (TWrap w0)). exact H.
  - destruct (id0 =? id); [discriminate|]. apply (Hr (TNamed id0 t0)). exact H.
Qed.

Lemma build_prim_fits s t0 om c : build_prim s (Some (underlying t0)) om = Some c -> fits c t0.
Proof.
  unfold build_prim. intros H.
  assert (Hsz := sizeof_underlying t0).
  destruct s; try discriminate.
  - injection H as <-. exact I.
  - destruct (underlying t0); try discriminate. injection H as <-. cbn. rewrite <- Hsz. reflexivity.
  - destruct (underlying t0) as [| [] | | | | | | | | | | | | | | | |]; try discriminate; injection H as <-; cbn; rewrite <- Hsz; reflexivity.
  - destruct (underlying t0) as [| [] | | | | | | | | | | | | | | | |]; try discriminate; injection H as <-; cbn; rewrite <- Hsz; reflexivity.
  - destruct (underlying t0); try discriminate. injection H as <-. cbn. rewrite <- Hsz. reflexivity.
  - destruct (underlying t0); try discriminate; injection H as <-; cbn; rewrite <- Hsz; reflexivity.
  - destruct (underlying t0); try discriminate. destruct (is_u8 g); try discriminate. injection H as <-. cbn. rewrite <- Hsz. reflexivity.
  - destruct (underlying t0); try discriminate. injection H as <-. cbn. rewrite <- Hsz. reflexivity.
  - destruct (size <? 0); try discriminate. destruct (underlying t0) eqn:Eu; try discriminate.
    destruct (is_u8 g && (n =? size)) eqn:Eg; try discriminate. injection H as <-. cbn [fits store_width].
    rewrite <- Hsz. cbn [sizeof]. apply andb_prop in Eg as [Eg1 Eg2]. apply Z.eqb_eq in Eg2. subst n.
    unfold is_u8 in Eg1. assert (sizeof g = 1).
    { rewrite <- sizeof_underlying. destruct (underlying g) as [| [] | | | | | | | | | | | | | | | |]; try discriminate; reflexivity. }
    lia.
Qed.

Fixpoint ptr_n (k : nat) (t : gtype) {struct k} : gtype := match k with O => t | S k' => TPtr (ptr_n k' t) end.

Lemma peel_ptr_n : forall t kk t0, peel t = (kk, t0) -> t = ptr_n kk t0.
Proof.
  induction t; intros kk t0 H; cbn [peel] in H; try (injection H as <- <-; reflexivity).
  destruct (peel t) as [k' t1] eqn:E. injection H as <- <-. cbn [ptr_n]. f_equal. apply IHt. reflexivity.
Qed.

Lemma ptr_n_shift k t : ptr_n k (TPtr t) = TPtr (ptr_n k t).
Proof. induction k as [|k IH]; [reflexivity|]. cbn [ptr_n]. rewrite IH. reflexivity. Qed.

Lemma wrap_ptrs_fits : forall k c z t0, fits c t0 -> fits (wrap_ptrs k c z) (ptr_n k t0).
Proof.
  induction k as [|k IH]; intros c z t0 H; [exact H|].
  cbn [wrap_ptrs ptr_n]. rewrite <- ptr_n_shift. apply IH. cbn [fits underlying]. exact H.
Qed.

Definition bld_fits (bld : schema -> option gtype -> bool -> option codec) (s : schema) : Prop :=
  forall t om c, bld s (Some t) om = Some c -> fits c t.

Lemma find_field_nth name : forall gfs j gf, find_field name gfs = Some (j, gf) -> nth_error gfs j = Some gf.
Proof.
  unfold find_field. intros gfs.
  assert (Hgen : forall (l pre : list gfield) (found : option (nat * gfield)) (j : nat) (gf : gfield),
     (forall j0 gf0, found = Some (j0, gf0) -> nth_error (pre ++ l) j0 = Some gf0) ->
     (fix go (l : list gfield) (i : nat) (found : option (nat * gfield)) {struct l} :=
        match l with
        | [] => found
        | f :: r => let n := name_for_field f in
                    if negb (bytes_eqb n dash) && bytes_eqb n name then go r (S i) (Some (i, f)) else go r (S i) found
        end) l (length pre) found = Some (j, gf) -> nth_error (pre ++ l) j = Some gf).
  { induction l as [|f r IH]; intros pre found j gf Hf H.
    - apply Hf. exact H.
    - replace (pre ++ f :: r) with ((pre ++ [f]) ++ r) by (rewrite <- app_assoc; reflexivity).
      cbv zeta in H.
      destruct (negb (bytes_eqb (name_for_field f) dash) && bytes_eqb (name_for_field f) name) eqn:E; rewrite ?E in H.
      + apply (IH (pre ++ [f]) (Some (length pre, f))).
        * intros j0 gf0 E0. injection E0 as <- <-. rewrite <- app_assoc. rewrite nth_error_app2 by lia. rewrite Nat.sub_diag. reflexivity.
        * rewrite app_length. cbn [length]. rewrite Nat.add_1_r. exact H.
      + apply (IH (pre ++ [f]) found).
        * intros j0 gf0 E0. rewrite <- app_assoc. apply Hf. exact E0.
        * rewrite app_length. cbn [length]. rewrite Nat.add_1_r. exact H. }
  intros j gf H. apply (Hgen gfs [] None j gf); [discriminate|exact H].
Qed.

Fixpoint fits_fields (gfs : list gfield) (l : list (codec * option nat)) {struct l} : Prop :=
  match l with
  | [] => True
  | (fc, Some j) :: l' => match nth_error gfs j with Some gf => fits fc (gf_type gf) | None => False end /\ fits_fields gfs l'
  | (_, None) :: l' => fits_fields gfs l'
  end.

Lemma fits_record_eq fs t n p gfs : underlying t = TStruct n p gfs -> fits (CRecord fs) t = fits_fields gfs fs.
Proof.
  intros Hu. cbn [fits]. rewrite Hu. induction fs as [|[fc [j|]] l IH]; [reflexivity| |]; cbn [fits_fields]; rewrite <- IH; reflexivity.
Qed.

Lemma build_fields_fits bld gfs : forall fields fs,
  Forall (fun p => bld_fits bld (snd p)) fields ->
  build_fields bld (Some gfs) fields = Some fs -> fits_fields gfs fs.
Proof.
  induction fields as [|[n s] l IH]; intros fs HF H.
  - cbn in H. injection H as <-. exact I.
  - inversion HF as [|? ? Hs Hl]; subst. cbn [snd] in Hs. cbn [build_fields] in H.
    destruct (find_field n gfs) as [[j gf]|] eqn:Ef.
    + destruct (bld s (Some (gf_type gf)) (omit_empty gf)) as [c|] eqn:Ec; try discriminate.
      destruct (build_fields bld (Some gfs) l) as [r|] eqn:Er; try discriminate.
      injection H as <-. cbn [fits_fields option_map fst]. rewrite (find_field_nth _ _ _ _ Ef). split; [eapply Hs; eauto|apply IH; auto].
    + destruct (bld s None false) as [c|] eqn:Ec; try discriminate.
      destruct (build_fields bld (Some gfs) l) as [r|] eqn:Er; try discriminate.
      injection H as <-. cbn [fits_fields option_map]. apply IH; auto.
Qed.

Definition sub_ok (bld : schema -> option gtype -> bool -> option codec) (s : schema) : Prop :=
  match s with
  | SArray it => bld_fits bld it
  | SMap vs => bld_fits bld vs
  | SRecord fields => Forall (fun p => bld_fits bld (snd p)) fields
  | _ => True
  end.

Lemma disp_fits bld s t0 om c : sub_ok bld s -> disp bld s (Some t0) om = Some c -> fits c t0.
Proof.
  intros IH H. unfold disp in H. cbn [option_map] in H.
  destruct s; try discriminate; try (apply build_prim_fits in H; exact H).
  - (* record *)
    destruct (underlying t0) eqn:Eu; cbn [struct_fields] in H; try discriminate.
    destruct (build_fields bld (Some fields0) fields) as [fs|] eqn:Ef; try discriminate.
    injection H as <-. rewrite (fits_record_eq _ _ _ _ _ Eu). eapply build_fields_fits; eauto.
  - destruct (underlying t0) eqn:Eu; try discriminate.
    destruct (bld s (Some g) false) as [ic|] eqn:Ei; try discriminate. injection H as <-. cbn [fits]. rewrite Eu. eapply IH; eauto.
  - destruct (underlying t0) eqn:Eu; try discriminate. destruct (underlying g1); try discriminate.
    destruct (bld s (Some g2) false) as [vc|] eqn:Ei; try discriminate. injection H as <-. cbn [fits]. rewrite Eu. eapply IH; eauto.
Qed.

Lemma wrap_builder_fits w s inner c : apply_builder (BWrap w) s inner = Some c -> fits c (TWrap w).
Proof.
  unfold apply_builder. destruct w; destruct s; try discriminate; try (intros H; injection H as <-; reflexivity).
  destruct date; try discriminate. intros H; injection H as <-; reflexivity.
Qed.

Lemma build_base_fits reg bld s t0 om c : reg_sane reg -> sub_ok bld s ->
  build_base reg bld s t0 om = Some c -> fits c t0.
Proof.
  intros Hreg IH H. unfold build_base in H. destruct (reg_lookup reg t0) as [[w|k]|] eqn:El.
  - rewrite (Hreg _ _ El). eapply wrap_builder_fits; eauto.
  - unfold apply_builder in H. destruct (disp bld s (Some t0) om) as [ci|] eqn:Ed; try discriminate.
    injection H as <-. cbn [fits]. eapply disp_fits; eauto.
  - eapply disp_fits; eauto.
Qed.

Lemma fits_union_list t : forall cs, fits (CUnion cs) t <-> Forall (fun c => fits c t) cs.
Proof.
  cbn [fits]. induction cs as [|x l IH]; [split; [constructor|exact (fun _ => I)]|].
  split; [intros [H1 H2]; constructor; [exact H1|apply IH; exact H2]|intros H; inversion H; subst; split; [assumption|apply IH; assumption]].
Qed.

Theorem build_fits reg : reg_sane reg -> forall s t om c, build reg s (Some t) om = Some c -> fits c t.
Proof.
  intros Hreg. induction s using schema_ind'; intros t om c Hb.
  all: try (cbn [build] in Hb;
            destruct (peel t) as [k t0] eqn:Ep; rewrite (peel_ptr_n _ _ _ Ep); destruct k;
            [ eapply build_base_fits; [exact Hreg| |exact Hb]; cbn [sub_ok]; auto
            | destruct (build_base reg (fun s' t' om' => build reg s' t' om') _ t0 false) as [c0|] eqn:Eb; try discriminate;
              injection Hb as <-; refine (wrap_ptrs_fits (S k) c0 (zero_of t0) t0 _); eapply build_base_fits; [exact Hreg| |exact Eb]; cbn [sub_ok]; auto ]; fail).
  - injection Hb as <-. exact I.
  - (* union *)
    assert (Hgen : forall c', option_map CUnion (build_list (fun x => build reg x (Some t) om) brs) = Some c' -> fits c' t).
    { intros c' Hc. destruct (build_list (fun x => build reg x (Some t) om) brs) as [cs|] eqn:El; try discriminate.
      injection Hc as <-. apply fits_union_list. clear Hb.
      revert cs El. induction brs as [|x l IHl]; intros cs El.
      - cbn in El. injection El as <-. constructor.
      - inversion H as [|? ? Hx Hl]; subst. cbn [build_list] in El.
        destruct (build reg x (Some t) om) as [cx|] eqn:Ex; try discriminate.
        destruct (build_list (fun x0 => build reg x0 (Some t) om) l) as [r|] eqn:Er; try discriminate.
        injection El as <-. constructor; [eapply Hx; eauto|apply IHl; auto]. }
    assert (Hone : forall x nn c', In x brs -> union_one (build reg x (Some t) om) nn = Some c' -> fits c' t).
    { intros x nn c' Hin Hu. rewrite Forall_forall in H. specialize (H x Hin).
      destruct (build reg x (Some t) om) as [ci|] eqn:Ex; try discriminate.
      pose proof (H _ _ _ Ex) as Hf. destruct ci; cbn [union_one] in Hu; injection Hu as <-; cbn [fits]; exact Hf. }
    cbn [build] in Hb.
    destruct brs as [|x1 [|x2 [|x3 l]]]; try (apply Hgen; exact Hb).
    + destruct x1; try (apply Hgen; exact Hb).
    + destruct x1.
      * assert (Hb' : union_one (build reg x2 (Some t) om) 1 = Some c) by (destruct x2; exact Hb).
        eapply (Hone x2); [right; left; reflexivity|exact Hb'].
      * destruct x2; try (apply Hgen; exact Hb). eapply (Hone SBool); [left; reflexivity|exact Hb].
      * destruct x2; try (apply Hgen; exact Hb). eapply (Hone (SInt date)); [left; reflexivity|exact Hb].
      * destruct x2; try (apply Hgen; exact Hb). eapply (Hone (SLong lt)); [left; reflexivity|exact Hb].
      * destruct x2; try (apply Hgen; exact Hb). eapply (Hone SFloat); [left; reflexivity|exact Hb].
      * destruct x2; try (apply Hgen; exact Hb). eapply (Hone SDouble); [left; reflexivity|exact Hb].
      * destruct x2; try (apply Hgen; exact Hb). eapply (Hone SBytes); [left; reflexivity|exact Hb].
      * destruct x2; try (apply Hgen; exact Hb). eapply (Hone SString); [left; reflexivity|exact Hb].
      * destruct x2; try (apply Hgen; exact Hb). eapply (Hone (SFixed size)); [left; reflexivity|exact Hb].
      * destruct x2; try (apply Hgen; exact Hb). eapply (Hone (SEnum nsyms)); [left; reflexivity|exact Hb].
      * destruct x2; try (apply Hgen; exact Hb). eapply (Hone (SRecord fields)); [left; reflexivity|exact Hb].
      * destruct x2; try (apply Hgen; exact Hb). eapply (Hone (SArray x1)); [left; reflexivity|exact Hb].
      * destruct x2; try (apply Hgen; exact Hb). eapply (Hone (SMap x1)); [left; reflexivity|exact Hb].
      * destruct x2; try (apply Hgen; exact Hb). eapply (Hone (SUnion branches)); [left; reflexivity|exact Hb].
      * destruct x2; try (apply Hgen; exact Hb). eapply (Hone SBad); [left; reflexivity|exact Hb].
    + destruct x1; try (apply Hgen; exact Hb); destruct x2; apply Hgen; exact Hb.
Qed.
