(* Proofs for C14: schema JSON parsing / serialisation (Model/Json.v). *)
From Coq Require Import List ZArith Bool Lia String Permutation.
Require Import Avro.Model.Base Avro.Model.Schema Avro.Model.Json.
Import ListNotations.
Open Scope Z_scope.

(* ---- byte strings, membership, duplicate freedom ------------------------------ *)

Lemma bytes_eqb_eq (a c : bytes) : bytes_eqb a c = true <-> a = c.
Proof.
  unfold bytes_eqb. revert c. induction a as [|x a IH]; intros [|y c]; cbn [list_eqb]; split; intros H;
    try reflexivity; try discriminate.
  - apply andb_true_iff in H. destruct H as [H1 H2]. apply Z.eqb_eq in H1. apply IH in H2. subst. reflexivity.
  - inversion H; subst. apply andb_true_iff. split; [apply Z.eqb_refl|apply IH; reflexivity].
Qed.

Lemma bytes_eqb_refl (a : bytes) : bytes_eqb a a = true.
Proof. apply bytes_eqb_eq. reflexivity. Qed.

Lemma bytes_eqb_neq (a c : bytes) : bytes_eqb a c = false <-> a <> c.
Proof.
  split.
  - intros H E. apply bytes_eqb_eq in E. congruence.
  - intros H. destruct (bytes_eqb a c) eqn:E; [apply bytes_eqb_eq in E; contradiction|reflexivity].
Qed.

Lemma bytes_eqb_sym (a c : bytes) : bytes_eqb a c = bytes_eqb c a.
Proof.
  destruct (bytes_eqb a c) eqn:E.
  - apply bytes_eqb_eq in E. subst. symmetry. apply bytes_eqb_refl.
  - symmetry. apply bytes_eqb_neq. apply bytes_eqb_neq in E. congruence.
Qed.

Lemma memb_In k l : memb k l = true <-> In k l.
Proof.
  unfold memb. rewrite existsb_exists. split.
  - intros [x [Hx E]]. apply bytes_eqb_eq in E. subst. exact Hx.
  - intros H. exists k. split; [exact H|apply bytes_eqb_refl].
Qed.

Lemma nodupb_NoDup l : nodupb l = true <-> NoDup l.
Proof.
  induction l as [|k r IH]; cbn [nodupb].
  - split; [constructor|reflexivity].
  - rewrite andb_true_iff, negb_true_iff, IH. split.
    + intros [H1 H2]. constructor; [|exact H2]. intros Hin. apply memb_In in Hin. congruence.
    + intros H. inversion H; subst. split; [|assumption].
      destruct (memb k r) eqn:E; [apply memb_In in E; contradiction|reflexivity].
Qed.

Lemma nodupb_perm l l' : Permutation l l' -> nodupb l = nodupb l'.
Proof.
  intros Hp. destruct (nodupb l) eqn:E.
  - symmetry. apply nodupb_NoDup. apply nodupb_NoDup in E. eapply Permutation_NoDup; eauto.
  - destruct (nodupb l') eqn:E'; [|reflexivity].
    apply nodupb_NoDup in E'. apply Permutation_sym in Hp.
    assert (H : nodupb l = true) by (apply nodupb_NoDup; eapply Permutation_NoDup; eauto). congruence.
Qed.

(* ---- induction principles ---------------------------------------------------------- *)

Section JsonInd.
  Variable P : json -> Prop.
  Hypothesis HNull : P JNull.
  Hypothesis HBool : forall v, P (JBool v).
  Hypothesis HNum : forall t i, P (JNum t i).
  Hypothesis HStr : forall s, P (JStr s).
  Hypothesis HArr : forall l, Forall P l -> P (JArr l).
  Hypothesis HObj : forall ms, Forall (fun kv => P (snd kv)) ms -> P (JObj ms).

  Fixpoint json_ind' (j : json) : P j :=
    match j with
    | JNull => HNull | JBool v => HBool v | JNum t i => HNum t i | JStr s => HStr s
    | JArr l =>
        HArr l ((fix go (l : list json) : Forall P l :=
                   match l with
                   | [] => Forall_nil _
                   | x :: r => Forall_cons x (json_ind' x) (go r)
                   end) l)
    | JObj ms =>
        HObj ms ((fix go (l : list (bytes * json)) : Forall (fun kv => P (snd kv)) l :=
                    match l with
                    | [] => Forall_nil _
                    | kv :: r => Forall_cons kv (json_ind' (snd kv)) (go r)
                    end) ms)
    end.
End JsonInd.

Section GsInd.
  Variable P : gschema -> Prop.
  Variable Q : gobject -> Prop.
  Hypothesis HNone : forall ty un, Forall P un -> P (GS ty None un).
  Hypothesis HSome : forall ty o un, Q o -> Forall P un -> P (GS ty (Some o) un).
  Hypothesis HGO : forall lt name ns fields items values size syms,
    Forall (fun p => P (snd p)) fields -> P items -> P values ->
    Q (GO lt name ns fields items values size syms).

  Fixpoint gs_ind' (s : gschema) : P s :=
    match s with
    | GS ty obj un =>
        let Hun := (fix go (l : list gschema) : Forall P l :=
                      match l with
                      | [] => Forall_nil _
                      | x :: r => Forall_cons x (gs_ind' x) (go r)
                      end) un in
        match obj with
        | Some o => HSome ty o un (go_ind' o) Hun
        | None => HNone ty un Hun
        end
    end
  with go_ind' (o : gobject) : Q o :=
    match o with
    | GO lt name ns fields items values size syms =>
        HGO lt name ns fields items values size syms
            ((fix go (l : list (ident * gschema)) : Forall (fun p => P (snd p)) l :=
                match l with
                | [] => Forall_nil _
                | p :: r => Forall_cons p (gs_ind' (snd p)) (go r)
                end) fields)
            (gs_ind' items) (gs_ind' values)
    end.
End GsInd.

(* ---- the inner fixes as list functions ------------------------------------------- *)

Lemma json_nodup_arr l : json_nodup (JArr l) = forallb json_nodup l.
Proof. cbn [json_nodup]. induction l as [|x r IH]; cbn [forallb]; [reflexivity|rewrite IH; reflexivity]. Qed.

Lemma json_nodup_obj ms :
  json_nodup (JObj ms) = nodupb (map fst ms) && forallb (fun kv => json_nodup (snd kv)) ms.
Proof.
  cbn [json_nodup]. f_equal.
  induction ms as [|[k v] r IH]; cbn [forallb snd]; [reflexivity|rewrite IH; reflexivity].
Qed.

Lemma marshal_union ty un :
  marshal (GS ty None un) = match un with [] => JStr ty | _ => JArr (map marshal un) end.
Proof.
  destruct un as [|u us]; [reflexivity|].
  cbn [marshal]. f_equal. generalize (u :: us). intros l.
  induction l as [|x r IH]; cbn [map]; [reflexivity|rewrite IH; reflexivity].
Qed.

Definition marshal_fields (fields : list (ident * gschema)) : list json :=
  map (fun p => marshal_field (fst p) (marshal (snd p))) fields.

Lemma marshal_obj_eq ty lt name ns fields items values size syms :
  marshal_obj ty (GO lt name ns fields items values size syms) =
  [ (b "type", Some (JStr ty)); (b "logicalType", ostr lt); (b "name", ostr name); (b "namespace", ostr ns);
    (b "fields", if is ty "record" then Some (JArr (marshal_fields fields)) else None);
    (b "symbols", if is ty "enum" then Some (JArr (map JStr syms)) else None);
    (b "items", if is ty "array" then Some (marshal items) else None);
    (b "values", if is ty "map" then Some (marshal values) else None);
    (b "size", if is ty "fixed" then Some (JNum (dec_of_Z size) (Some size)) else None) ].
Proof.
  cbn [marshal_obj]. do 4 f_equal. f_equal; [|reflexivity].
  f_equal. destruct (is ty "record"); [|reflexivity]. do 2 f_equal.
  unfold marshal_fields. induction fields as [|[n t] r IH]; cbn [map fst snd]; [reflexivity|rewrite IH; reflexivity].
Qed.

Lemma gs_wf_union ty un :
  gs_wf (GS ty None un) = match un with [] => true | _ => is ty "union" && forallb gs_wf un end.
Proof.
  destruct un as [|u us]; [reflexivity|].
  cbn [gs_wf]. f_equal. generalize (u :: us). intros l.
  induction l as [|x r IH]; cbn [forallb]; [reflexivity|rewrite IH; reflexivity].
Qed.

Lemma go_wf_eq ty lt name ns fields items values size syms :
  go_wf ty (GO lt name ns fields items values size syms) =
  (if is ty "record" then forallb (fun p => gs_wf (snd p)) fields else true) &&
  (if is ty "array" then gs_wf items else true) &&
  (if is ty "map" then gs_wf values else true) &&
  (if is ty "fixed" then int_ok size else true).
Proof.
  cbn [go_wf]. do 3 f_equal. destruct (is ty "record"); [|reflexivity].
  induction fields as [|[n t] r IH]; cbn [forallb snd]; [reflexivity|rewrite IH; reflexivity].
Qed.

Lemma gs_normal_union ty un :
  gs_normal (GS ty None un) = match un with [] => true | _ => is ty "union" && forallb gs_normal un end.
Proof.
  destruct un as [|u us]; [reflexivity|].
  cbn [gs_normal]. f_equal. generalize (u :: us). intros l.
  induction l as [|x r IH]; cbn [forallb]; [reflexivity|rewrite IH; reflexivity].
Qed.

Lemma go_normal_eq ty lt name ns fields items values size syms :
  go_normal ty (GO lt name ns fields items values size syms) =
  (if is ty "record" then forallb (fun p => gs_normal (snd p)) fields else is_nil fields) &&
  (if is ty "array" then gs_normal items else gs_is_zero items) &&
  (if is ty "map" then gs_normal values else gs_is_zero values) &&
  (if is ty "fixed" then int_ok size else size =? 0) &&
  (if is ty "enum" then true else is_nil syms).
Proof.
  cbn [go_normal]. do 4 f_equal. destruct (is ty "record"); [|reflexivity].
  induction fields as [|[n t] r IH]; cbn [forallb snd]; [reflexivity|rewrite IH; reflexivity].
Qed.

Definition meaning_fields (fields : list (ident * gschema)) : list (ident * gschema) :=
  map (fun p => (fst p, gs_meaning (snd p))) fields.

Lemma gs_meaning_union ty un : gs_meaning (GS ty None un) = GS ty None (map gs_meaning un).
Proof.
  cbn [gs_meaning]. f_equal. induction un as [|x r IH]; cbn [map]; [reflexivity|rewrite IH; reflexivity].
Qed.

Lemma go_meaning_eq ty lt name ns fields items values size syms :
  go_meaning ty (GO lt name ns fields items values size syms) =
  GO lt name ns (if is ty "record" then meaning_fields fields else [])
     (if is ty "array" then gs_meaning items else gs_zero)
     (if is ty "map" then gs_meaning values else gs_zero)
     (if is ty "fixed" then size else 0)
     (if is ty "enum" then syms else []).
Proof.
  cbn [go_meaning]. f_equal. destruct (is ty "record"); [|reflexivity].
  unfold meaning_fields. induction fields as [|[n t] r IH]; cbn [map fst snd]; [reflexivity|rewrite IH; reflexivity].
Qed.

Lemma unmarshal_arr l :
  unmarshal (JArr l) = option_map (fun u => GS (b "union") None u) (dec_list unmarshal l).
Proof. reflexivity. Qed.

Lemma unmarshal_obj ms : unmarshal (JObj ms) = dec_object unmarshal ms.
Proof. reflexivity. Qed.
