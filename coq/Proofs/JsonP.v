(* Proofs for C14: schema JSON parsing / serialisation (Model/Json.v). *)
From Coq Require Import List ZArith Bool Lia String Permutation.
Require Import Avro.Model.Base Avro.Model.Schema Avro.Model.Json.
Import ListNotations.
Open Scope Z_scope.

(* ---- byte strings, membership, duplicate freedom ------------------------------ *)

Lemma bytes_eqb_eq (a c : bytes) : bytes_eqb a c = true <-> a = c.
Proof.
  unfold bytes_eqb. revert c. induction a as [|x a IH]; intros [|y c]; cbn [list_eqb]; split; intros H;
    try reflexivity; try discriminate.
  - apply andb_true_iff in H. destruct H as [H1 H2]. apply Z.eqb_eq in H1. apply IH in H2. subst. reflexivity.
  - inversion H; subst. apply andb_true_iff. split; [apply Z.eqb_refl|apply IH; reflexivity].
Qed.

Lemma bytes_eqb_refl (a : bytes) : bytes_eqb a a = true.
Proof. apply bytes_eqb_eq. reflexivity. Qed.

Lemma bytes_eqb_neq (a c : bytes) : bytes_eqb a c = false <-> a <> c.
Proof.
  split.
  - intros H E. apply bytes_eqb_eq in E. congruence.
  - intros H. destruct (bytes_eqb a c) eqn:E; [apply bytes_eqb_eq in E; contradiction|reflexivity].
Qed.

Lemma bytes_eqb_sym (a c : bytes) : bytes_eqb a c = bytes_eqb c a.
Proof.
  destruct (bytes_eqb a c) eqn:E.
  - apply bytes_eqb_eq in E. subst. symmetry. apply bytes_eqb_refl.
  - symmetry. apply bytes_eqb_neq. apply bytes_eqb_neq in E. congruence.
Qed.

Lemma memb_In k l : memb k l = true <-> In k l.
Proof.
  unfold memb. rewrite existsb_exists. split.
  - intros [x [Hx E]]. apply bytes_eqb_eq in E. subst. exact Hx.
  - intros H. exists k. split; [exact H|apply bytes_eqb_refl].
Qed.

Lemma nodupb_NoDup l : nodupb l = true <-> NoDup l.
Proof.
  induction l as [|k r IH]; cbn [nodupb].
  - split; [constructor|reflexivity].
  - rewrite andb_true_iff, negb_true_iff, IH. split.
    + intros [H1 H2]. constructor; [|exact H2]. intros Hin. apply memb_In in Hin. congruence.
    + intros H. inversion H; subst. split; [|assumption].
      destruct (memb k r) eqn:E; [apply memb_In in E; contradiction|reflexivity].
Qed.

Lemma nodupb_perm l l' : Permutation l l' -> nodupb l = nodupb l'.
Proof.
  intros Hp. destruct (nodupb l) eqn:E.
  - symmetry. apply nodupb_NoDup. apply nodupb_NoDup in E. eapply Permutation_NoDup; eauto.
  - destruct (nodupb l') eqn:E'; [|reflexivity].
    apply nodupb_NoDup in E'. apply Permutation_sym in Hp.
    assert (H : nodupb l = true) by (apply nodupb_NoDup; eapply Permutation_NoDup; eauto). congruence.
Qed.

(* ---- induction principles ---------------------------------------------------------- *)

Section JsonInd.
  Variable P : json -> Prop.
  Hypothesis HNull : P JNull.
  Hypothesis HBool : forall v, P (JBool v).
  Hypothesis HNum : forall t i, P (JNum t i).
  Hypothesis HStr : forall s, P (JStr s).
  Hypothesis HArr : forall l, Forall P l -> P (JArr l).
  Hypothesis HObj : forall ms, Forall (fun kv => P (snd kv)) ms -> P (JObj ms).

  Fixpoint json_ind' (j : json) : P j :=
    match j with
    | JNull => HNull | JBool v => HBool v | JNum t i => HNum t i | JStr s => HStr s
    | JArr l =>
        HArr l ((fix go (l : list json) : Forall P l :=
                   match l with
                   | [] => Forall_nil _
                   | x :: r => Forall_cons x (json_ind' x) (go r)
                   end) l)
    | JObj ms =>
        HObj ms ((fix go (l : list (bytes * json)) : Forall (fun kv => P (snd kv)) l :=
                    match l with
                    | [] => Forall_nil _
                    | kv :: r => Forall_cons kv (json_ind' (snd kv)) (go r)
                    end) ms)
    end.
End JsonInd.

Section GsInd.
  Variable P : gschema -> Prop.
  Variable Q : gobject -> Prop.
  Hypothesis HNone : forall ty un, Forall P un -> P (GS ty None un).
  Hypothesis HSome : forall ty o un, Q o -> Forall P un -> P (GS ty (Some o) un).
  Hypothesis HGO : forall lt name ns fields items values size syms,
    Forall (fun p => P (snd p)) fields -> P items -> P values ->
    Q (GO lt name ns fields items values size syms).

  Fixpoint gs_ind' (s : gschema) : P s :=
    match s with
    | GS ty obj un =>
        let Hun := (fix go (l : list gschema) : Forall P l :=
                      match l with
                      | [] => Forall_nil _
                      | x :: r => Forall_cons x (gs_ind' x) (go r)
                      end) un in
        match obj with
        | Some o => HSome ty o un (go_ind' o) Hun
        | None => HNone ty un Hun
        end
    end
  with go_ind' (o : gobject) : Q o :=
    match o with
    | GO lt name ns fields items values size syms =>
        HGO lt name ns fields items values size syms
            ((fix go (l : list (ident * gschema)) : Forall (fun p => P (snd p)) l :=
                match l with
                | [] => Forall_nil _
                | p :: r => Forall_cons p (gs_ind' (snd p)) (go r)
                end) fields)
            (gs_ind' items) (gs_ind' values)
    end.
End GsInd.

(* ---- the inner fixes as list functions ------------------------------------------- *)

Lemma json_nodup_arr l : json_nodup (JArr l) = forallb json_nodup l.
Proof. cbn [json_nodup]. induction l as [|x r IH]; cbn [forallb]; [reflexivity|rewrite IH; reflexivity]. Qed.

Lemma json_nodup_obj ms :
  json_nodup (JObj ms) = nodupb (map fst ms) && forallb (fun kv => json_nodup (snd kv)) ms.
Proof.
  cbn [json_nodup]. f_equal.
  induction ms as [|[k v] r IH]; cbn [forallb snd]; [reflexivity|rewrite IH; reflexivity].
Qed.

Lemma marshal_union ty un :
  marshal (GS ty None un) = match un with [] => JStr ty | _ => JArr (map marshal un) end.
Proof.
  destruct un as [|u us]; reflexivity.
Qed.

Definition marshal_fields (fields : list (ident * gschema)) : list json :=
  map (fun p => marshal_field (fst p) (marshal (snd p))) fields.

Lemma marshal_fields_fix fields :
  (fix go (l : list (ident * gschema)) {struct l} : list json :=
     match l with [] => [] | (n, t) :: r => marshal_field n (marshal t) :: go r end) fields
  = marshal_fields fields.
Proof.
  unfold marshal_fields. induction fields as [|[n t] r IH]; [reflexivity|].
  cbn [map fst snd]. rewrite <- IH. reflexivity.
Qed.

Lemma marshal_obj_eq ty lt name ns fields items values size syms :
  marshal_obj ty (GO lt name ns fields items values size syms) =
  [ (b "type", Some (JStr ty)); (b "logicalType", ostr lt); (b "name", ostr name); (b "namespace", ostr ns);
    (b "fields", if is ty "record" then Some (JArr (marshal_fields fields)) else None);
    (b "symbols", if is ty "enum" then Some (JArr (map JStr syms)) else None);
    (b "items", if is ty "array" then Some (marshal items) else None);
    (b "values", if is ty "map" then Some (marshal values) else None);
    (b "size", if is ty "fixed" then Some (JNum (dec_of_Z size) (Some size)) else None) ].
Proof.
  cbn [marshal_obj]. rewrite marshal_fields_fix. reflexivity.
Qed.

Lemma gs_wf_union ty un :
  gs_wf (GS ty None un) = match un with [] => true | _ => is ty "union" && forallb gs_wf un end.
Proof.
  destruct un as [|u us]; reflexivity.
Qed.

Lemma wf_fields_fix fields :
  (fix go (l : list (ident * gschema)) {struct l} : bool :=
     match l with [] => true | (_, t) :: r => gs_wf t && go r end) fields
  = forallb (fun p => gs_wf (snd p)) fields.
Proof.
  induction fields as [|[n t] r IH]; [reflexivity|]. cbn [forallb snd]. rewrite <- IH. reflexivity.
Qed.

Lemma go_wf_eq ty lt name ns fields items values size syms :
  go_wf ty (GO lt name ns fields items values size syms) =
  (if is ty "record" then forallb (fun p => gs_wf (snd p)) fields else true) &&
  (if is ty "array" then gs_wf items else true) &&
  (if is ty "map" then gs_wf values else true) &&
  (if is ty "fixed" then int_ok size else true).
Proof.
  cbn [go_wf]. rewrite wf_fields_fix. reflexivity.
Qed.

Lemma gs_normal_union ty un :
  gs_normal (GS ty None un) = match un with [] => true | _ => is ty "union" && forallb gs_normal un end.
Proof.
  destruct un as [|u us]; reflexivity.
Qed.

Lemma normal_fields_fix fields :
  (fix go (l : list (ident * gschema)) {struct l} : bool :=
     match l with [] => true | (_, t) :: r => gs_normal t && go r end) fields
  = forallb (fun p => gs_normal (snd p)) fields.
Proof.
  induction fields as [|[n t] r IH]; [reflexivity|]. cbn [forallb snd]. rewrite <- IH. reflexivity.
Qed.

Lemma go_normal_eq ty lt name ns fields items values size syms :
  go_normal ty (GO lt name ns fields items values size syms) =
  (if is ty "record" then forallb (fun p => gs_normal (snd p)) fields else is_nil fields) &&
  (if is ty "array" then gs_normal items else gs_is_zero items) &&
  (if is ty "map" then gs_normal values else gs_is_zero values) &&
  (if is ty "fixed" then int_ok size else size =? 0) &&
  (if is ty "enum" then true else is_nil syms).
Proof.
  cbn [go_normal]. rewrite normal_fields_fix. reflexivity.
Qed.

Definition meaning_fields (fields : list (ident * gschema)) : list (ident * gschema) :=
  map (fun p => (fst p, gs_meaning (snd p))) fields.

Lemma gs_meaning_union ty un : gs_meaning (GS ty None un) = GS ty None (map gs_meaning un).
Proof.
  reflexivity.
Qed.

Lemma meaning_fields_fix fields :
  (fix go (l : list (ident * gschema)) {struct l} : list (ident * gschema) :=
     match l with [] => [] | (n, t) :: r => (n, gs_meaning t) :: go r end) fields
  = meaning_fields fields.
Proof.
  unfold meaning_fields. induction fields as [|[n t] r IH]; [reflexivity|].
  cbn [map fst snd]. rewrite <- IH. reflexivity.
Qed.

Lemma go_meaning_eq ty lt name ns fields items values size syms :
  go_meaning ty (GO lt name ns fields items values size syms) =
  GO lt name ns (if is ty "record" then meaning_fields fields else [])
     (if is ty "array" then gs_meaning items else gs_zero)
     (if is ty "map" then gs_meaning values else gs_zero)
     (if is ty "fixed" then size else 0)
     (if is ty "enum" then syms else []).
Proof.
  cbn [go_meaning]. rewrite meaning_fields_fix. reflexivity.
Qed.

Lemma unmarshal_arr l :
  unmarshal (JArr l) = option_map (fun u => GS (b "union") None u) (dec_list unmarshal l).
Proof. reflexivity. Qed.

Lemma unmarshal_obj ms : unmarshal (JObj ms) = dec_object unmarshal ms.
Proof. reflexivity. Qed.

(* ---- generic facts on dec_list, lookups, dec_struct ------------------------------- *)

Lemma dec_list_ext {A} (f g : json -> option A) l :
  Forall (fun x => f x = g x) l -> dec_list f l = dec_list g l.
Proof.
  induction 1 as [|x r Hx _ IH]; [reflexivity|]. cbn [dec_list]. rewrite Hx. fold (dec_list f r) (dec_list g r).
  rewrite IH. reflexivity.
Qed.

Lemma dec_list_Forall2 {A} (f : json -> option A) l out :
  dec_list f l = Some out <-> Forall2 (fun x a => f x = Some a) l out.
Proof.
  revert out. induction l as [|x r IH]; intros out; cbn [dec_list].
  - split; intros H; [inversion H; constructor|inversion H; reflexivity].
  - fold (dec_list f r). split.
    + intros H. destruct (f x) as [a|] eqn:Ea; [|discriminate].
      destruct (dec_list f r) as [l'|] eqn:El; [|discriminate]. inversion H; subst.
      constructor; [exact Ea|apply IH; reflexivity].
    + intros H. inversion H as [|x0 a l0 l' Ha Hr]; subst. rewrite Ha.
      apply IH in Hr. rewrite Hr. reflexivity.
Qed.

Lemma dec_list_rel {A} (f g : json -> option A) l l' :
  Forall2 (fun x y => f x = g y) l l' -> dec_list f l = dec_list g l'.
Proof.
  induction 1 as [|x y r r' Hxy _ IH]; [reflexivity|]. cbn [dec_list].
  fold (dec_list f r) (dec_list g r'). rewrite Hxy, IH. reflexivity.
Qed.

Lemma dec_list_none {A} (f : json -> option A) l x :
  In x l -> f x = None -> dec_list f l = None.
Proof.
  induction l as [|y r IH]; intros Hin Hx; [contradiction|]. cbn [dec_list]. fold (dec_list f r).
  destruct Hin as [->|Hin]; [rewrite Hx; reflexivity|].
  rewrite (IH Hin Hx). destruct (f y); reflexivity.
Qed.

Lemma dec_list_map {A} (f : json -> option A) {B} (g : B -> json) (h : B -> A) l :
  Forall (fun x => f (g x) = Some (h x)) l -> dec_list f (map g l) = Some (map h l).
Proof.
  induction 1 as [|x r Hx _ IH]; [reflexivity|]. cbn [map dec_list]. fold (dec_list f (map g r)).
  rewrite Hx, IH. reflexivity.
Qed.

Lemma jlookup_In k ms v : jlookup k ms = Some v -> In (k, v) ms.
Proof.
  induction ms as [|[k' v'] r IH]; cbn [jlookup]; [discriminate|].
  destruct (bytes_eqb k k') eqn:E.
  - intros H. inversion H; subst. apply bytes_eqb_eq in E. subst. left. reflexivity.
  - intros H. right. apply IH. exact H.
Qed.

Lemma jlookup_notin k ms : ~ In k (map fst ms) -> jlookup k ms = None.
Proof.
  induction ms as [|[k' v'] r IH]; cbn [jlookup map fst]; [reflexivity|]. intros H.
  destruct (bytes_eqb k k') eqn:E.
  - apply bytes_eqb_eq in E. subst. exfalso. apply H. left. reflexivity.
  - apply IH. intros Hin. apply H. right. exact Hin.
Qed.

Lemma jlookup_In_nodup k v ms : NoDup (map fst ms) -> In (k, v) ms -> jlookup k ms = Some v.
Proof.
  induction ms as [|[k' v'] r IH]; cbn [jlookup map fst]; intros Hnd Hin; [contradiction|].
  inversion Hnd as [|? ? Hnotin Hnd']; subst. destruct Hin as [Heq|Hin].
  - inversion Heq; subst. rewrite bytes_eqb_refl. reflexivity.
  - destruct (bytes_eqb k k') eqn:E.
    + apply bytes_eqb_eq in E. subst. exfalso. apply Hnotin. apply in_map_iff. exists (k', v). split; [reflexivity|exact Hin].
    + apply IH; assumption.
Qed.

Lemma jlookup_perm k ms ms' :
  Permutation ms ms' -> NoDup (map fst ms) -> jlookup k ms = jlookup k ms'.
Proof.
  intros Hp Hnd.
  assert (Hnd' : NoDup (map fst ms')) by (eapply Permutation_NoDup; [apply Permutation_map; exact Hp|exact Hnd]).
  destruct (jlookup k ms) as [v|] eqn:E.
  - symmetry. apply jlookup_In_nodup; [exact Hnd'|]. eapply Permutation_in; [exact Hp|]. apply jlookup_In. exact E.
  - destruct (jlookup k ms') as [v|] eqn:E'; [|reflexivity].
    apply jlookup_In in E'. apply Permutation_sym in Hp. pose proof (Permutation_in _ Hp E') as Hin.
    rewrite (jlookup_In_nodup _ _ _ Hnd Hin) in E. discriminate.
Qed.

(* a member is acceptable: a known one decodes, an unknown one has no duplicate names inside *)
Definition member_ok (tbl : bytes -> option kind) (dk : kind -> json -> option aval) (kv : bytes * json) : bool :=
  match tbl (fst kv) with
  | None => json_nodup (snd kv)
  | Some kd => match dk kd (snd kv) with Some _ => true | None => false end
  end.

(* the value stored for the field named k *)
Definition attr_val (tbl : bytes -> option kind) (dk : kind -> json -> option aval)
  (ms : list (bytes * json)) (k : bytes) : option aval :=
  match tbl k with
  | None => None
  | Some kd => match jlookup k ms with Some v => dk kd v | None => None end
  end.

Lemma dec_struct_cons tbl dk k v r :
  dec_struct tbl dk ((k, v) :: r) =
  match tbl k with
  | None => if json_nodup v then dec_struct tbl dk r else None
  | Some kd => match dk kd v, dec_struct tbl dk r with
               | Some a, Some l => Some ((k, a) :: l)
               | _, _ => None
               end
  end.
Proof. reflexivity. Qed.

Lemma dec_struct_ok tbl dk ms :
  forallb (member_ok tbl dk) ms = match dec_struct tbl dk ms with Some _ => true | None => false end.
Proof.
  induction ms as [|[k v] r IH]; [reflexivity|].
  rewrite dec_struct_cons. cbn [forallb]. unfold member_ok at 1. cbn [fst snd]. rewrite IH.
  destruct (tbl k) as [kd|].
  - destruct (dk kd v); [|reflexivity]. destruct (dec_struct tbl dk r); reflexivity.
  - destruct (json_nodup v); reflexivity.
Qed.

Lemma dec_struct_alookup tbl dk ms l :
  dec_struct tbl dk ms = Some l -> forall k, alookup k l = attr_val tbl dk ms k.
Proof.
  revert l. induction ms as [|[k0 v0] r IH]; intros l H k.
  - inversion H; subst. unfold attr_val. cbn [alookup jlookup]. destruct (tbl k); reflexivity.
  - rewrite dec_struct_cons in H. unfold attr_val. cbn [jlookup].
    destruct (tbl k0) as [kd0|] eqn:T0.
    + destruct (dk kd0 v0) as [a0|] eqn:D0; [|discriminate].
      destruct (dec_struct tbl dk r) as [l'|] eqn:R; [|discriminate]. inversion H; subst.
      cbn [alookup]. destruct (bytes_eqb k k0) eqn:E.
      * apply bytes_eqb_eq in E. subst. rewrite T0. symmetry. exact D0.
      * rewrite (IH l' eq_refl k). reflexivity.
    + destruct (json_nodup v0); [|discriminate].
      rewrite (IH l H k). unfold attr_val. destruct (bytes_eqb k k0) eqn:E; [|reflexivity].
      apply bytes_eqb_eq in E. subst. rewrite T0. reflexivity.
Qed.

(* dec_struct depends on the member values only through dk and json_nodup *)
Lemma dec_struct_rel tbl dk dk' ms ms' :
  Forall2 (fun a c => fst a = fst c /\ (forall kd, dk kd (snd a) = dk' kd (snd c)) /\
                      json_nodup (snd a) = json_nodup (snd c)) ms ms' ->
  dec_struct tbl dk ms = dec_struct tbl dk' ms'.
Proof.
  induction 1 as [|[k v] [k' v'] r r' [Hk [Hd Hn]] _ IH]; [reflexivity|].
  cbn [fst snd] in *. subst k'. rewrite !dec_struct_cons, IH, Hn.
  destruct (tbl k) as [kd|]; [rewrite Hd|]; reflexivity.
Qed.

Lemma forallb_perm {A} (f : A -> bool) l l' : Permutation l l' -> forallb f l = forallb f l'.
Proof.
  induction 1 as [|x l l' _ IH|x y l|l l' l'' _ IH1 _ IH2]; cbn [forallb].
  - reflexivity.
  - rewrite IH. reflexivity.
  - rewrite !andb_assoc, (andb_comm (f y)). reflexivity.
  - congruence.
Qed.

(* ---- the decoded object as a function of the member looked up by name ---------------- *)

Definition gstr (look : bytes -> option aval) (k : string) : bytes :=
  match look (b k) with Some (AStr s) => s | _ => [] end.
Definition gsch (look : bytes -> option aval) (k : string) : gschema :=
  match look (b k) with Some (ASch s) => s | _ => gs_zero end.
Definition gfields (look : bytes -> option aval) (k : string) : list (ident * gschema) :=
  match look (b k) with Some (AFields s) => s | _ => [] end.
Definition gint (look : bytes -> option aval) (k : string) : Z :=
  match look (b k) with Some (AInt z) => z | _ => 0 end.
Definition gsyms (look : bytes -> option aval) (k : string) : list ident :=
  match look (b k) with Some (ASyms s) => s | _ => [] end.

Definition build_obj (look : bytes -> option aval) : gschema :=
  GS (gstr look "type")
     (Some (GO (gstr look "logicalType") (gstr look "name") (gstr look "namespace")
               (gfields look "fields") (gsch look "items") (gsch look "values")
               (gint look "size") (gsyms look "symbols")))
     [].

Lemma build_obj_ext look look' : (forall k, look k = look' k) -> build_obj look = build_obj look'.
Proof.
  intros H. unfold build_obj, gstr, gsch, gfields, gint, gsyms. rewrite !H. reflexivity.
Qed.

Lemma dec_object_view un ms :
  dec_object un ms =
  if nodupb (map fst ms) && forallb (member_ok obj_attr (dk_obj un)) ms
  then Some (build_obj (attr_val obj_attr (dk_obj un) ms)) else None.
Proof.
  unfold dec_object. destruct (nodupb (map fst ms)); [|reflexivity]. cbn [andb].
  rewrite dec_struct_ok. destruct (dec_struct obj_attr (dk_obj un) ms) as [l|] eqn:E; [|reflexivity].
  f_equal. change (build_obj (fun k => alookup k l) = build_obj (attr_val obj_attr (dk_obj un) ms)).
  apply build_obj_ext. intros k. apply dec_struct_alookup. exact E.
Qed.

Lemma dec_field_view un ms :
  dec_field un (JObj ms) =
  if nodupb (map fst ms) && forallb (member_ok field_attr (dk_field un)) ms
  then Some (gstr (attr_val field_attr (dk_field un) ms) "name",
             gsch (attr_val field_attr (dk_field un) ms) "type") else None.
Proof.
  cbn [dec_field]. destruct (nodupb (map fst ms)); [|reflexivity]. cbn [andb].
  rewrite dec_struct_ok. destruct (dec_struct field_attr (dk_field un) ms) as [l|] eqn:E; [|reflexivity].
  unfold get_str, get_sch, gstr, gsch. rewrite !(dec_struct_alookup _ _ _ _ E). reflexivity.
Qed.

(* ---- (2) independence of member order ---------------------------------------------------- *)

(* everything any decoder of the model can observe of a value *)
Definition all_dec (j : json) :=
  (unmarshal j, json_nodup j, dec_field unmarshal j, dec_string j, dec_int j,
   dec_slice (dec_field unmarshal) j, dec_slice dec_string j).

Lemma all_dec_dk_obj j j' : all_dec j = all_dec j' -> forall kd, dk_obj unmarshal kd j = dk_obj unmarshal kd j'.
Proof.
  unfold all_dec. intros H kd. inversion H as [[H1 H2 H3 H4 H5 H6 H7]].
  destruct kd; cbn [dk_obj]; congruence.
Qed.

Lemma all_dec_dk_field j j' : all_dec j = all_dec j' -> forall kd, dk_field unmarshal kd j = dk_field unmarshal kd j'.
Proof.
  unfold all_dec. intros H kd. inversion H as [[H1 H2 H3 H4 H5 H6 H7]].
  destruct kd; cbn [dk_field]; congruence.
Qed.

Lemma all_dec_nodup j j' : all_dec j = all_dec j' -> json_nodup j = json_nodup j'.
Proof. unfold all_dec. intros H. inversion H. reflexivity. Qed.

Lemma Forall_Forall2_combine {A B} (P : A -> Prop) (R S : A -> B -> Prop) l l' :
  Forall P l -> Forall2 R l l' -> (forall x y, P x -> R x y -> S x y) -> Forall2 S l l'.
Proof.
  intros HP HR Himp. induction HR as [|x y r r' Hxy _ IH]; [constructor|].
  inversion HP; subst. constructor; [apply Himp; assumption|apply IH; assumption].
Qed.

Lemma Forall2_imp {A B} (R S : A -> B -> Prop) l l' :
  (forall x y, R x y -> S x y) -> Forall2 R l l' -> Forall2 S l l'.
Proof. intros H. induction 1; constructor; auto. Qed.

Lemma forallb_rel {A B} (f : A -> bool) (g : B -> bool) l l' :
  Forall2 (fun x y => f x = g y) l l' -> forallb f l = forallb g l'.
Proof. induction 1 as [|x y r r' Hxy _ IH]; [reflexivity|]. cbn [forallb]. rewrite Hxy, IH. reflexivity. Qed.

Lemma Forall2_fst_map {A B C} (R : B -> C -> Prop) (l : list (A * B)) (l' : list (A * C)) :
  Forall2 (fun a c => fst a = fst c /\ R (snd a) (snd c)) l l' -> map fst l = map fst l'.
Proof. induction 1 as [|x y r r' [Hxy _] _ IH]; [reflexivity|]. cbn [map]. rewrite Hxy, IH. reflexivity. Qed.

Lemma attr_val_perm tbl dk ms ms' k :
  Permutation ms ms' -> NoDup (map fst ms) -> attr_val tbl dk ms k = attr_val tbl dk ms' k.
Proof. intros Hp Hnd. unfold attr_val. rewrite (jlookup_perm k ms ms' Hp Hnd). reflexivity. Qed.

Lemma all_dec_obj_pointwise ms ms1 :
  Forall2 (fun a c => fst a = fst c /\ all_dec (snd a) = all_dec (snd c)) ms ms1 ->
  all_dec (JObj ms) = all_dec (JObj ms1).
Proof.
  intros F2. pose proof (Forall2_fst_map (fun x y => all_dec x = all_dec y) _ _ F2) as Hk.
  assert (Hobj : dec_object unmarshal ms = dec_object unmarshal ms1).
  { unfold dec_object. rewrite Hk. destruct (nodupb (map fst ms1)); [|reflexivity].
    rewrite (dec_struct_rel obj_attr (dk_obj unmarshal) (dk_obj unmarshal) ms ms1); [reflexivity|].
    eapply Forall2_imp; [|exact F2]. intros a c [H1 H2]. split; [exact H1|].
    split; [apply all_dec_dk_obj; exact H2|apply all_dec_nodup; exact H2]. }
  assert (Hfld : dec_field unmarshal (JObj ms) = dec_field unmarshal (JObj ms1)).
  { cbn [dec_field]. rewrite Hk. destruct (nodupb (map fst ms1)); [|reflexivity].
    rewrite (dec_struct_rel field_attr (dk_field unmarshal) (dk_field unmarshal) ms ms1); [reflexivity|].
    eapply Forall2_imp; [|exact F2]. intros a c [H1 H2]. split; [exact H1|].
    split; [apply all_dec_dk_field; exact H2|apply all_dec_nodup; exact H2]. }
  assert (Hnd : json_nodup (JObj ms) = json_nodup (JObj ms1)).
  { rewrite !json_nodup_obj, Hk. f_equal. apply forallb_rel.
    eapply Forall2_imp; [|exact F2]. intros a c [_ H2]. apply all_dec_nodup. exact H2. }
  unfold all_dec. rewrite !unmarshal_obj, Hobj, Hfld, Hnd. reflexivity.
Qed.

Lemma all_dec_obj_perm ms ms' : Permutation ms ms' -> all_dec (JObj ms) = all_dec (JObj ms').
Proof.
  intros Hp.
  pose proof (nodupb_perm _ _ (Permutation_map fst Hp)) as Hk.
  assert (Hobj : dec_object unmarshal ms = dec_object unmarshal ms').
  { rewrite !dec_object_view, <- Hk, <- (forallb_perm _ _ _ Hp).
    destruct (nodupb (map fst ms)) eqn:N; [|reflexivity]. cbn [andb].
    destruct (forallb _ ms); [|reflexivity]. f_equal. apply build_obj_ext. intros k.
    apply attr_val_perm; [exact Hp|apply nodupb_NoDup; exact N]. }
  assert (Hfld : dec_field unmarshal (JObj ms) = dec_field unmarshal (JObj ms')).
  { rewrite !dec_field_view, <- Hk, <- (forallb_perm _ _ _ Hp).
    destruct (nodupb (map fst ms)) eqn:N; [|reflexivity]. cbn [andb].
    destruct (forallb _ ms); [|reflexivity].
    unfold gstr, gsch. rewrite !(attr_val_perm _ _ ms ms' _ Hp (proj1 (nodupb_NoDup _) N)). reflexivity. }
  assert (Hnd : json_nodup (JObj ms) = json_nodup (JObj ms')).
  { rewrite !json_nodup_obj, Hk, (forallb_perm _ _ _ Hp). reflexivity. }
  unfold all_dec. rewrite !unmarshal_obj, Hobj, Hfld, Hnd. reflexivity.
Qed.

Lemma json_perm_all_dec j : forall j', json_perm j j' -> all_dec j = all_dec j'.
Proof.
  induction j as [| v | t i | s | l IH | ms IH] using json_ind'; intros j' Hp; inversion Hp; subst; try reflexivity.
  - (* arrays *)
    match goal with H : Forall2 json_perm l _ |- _ => rename H into F2 end.
    assert (F : Forall2 (fun x y => all_dec x = all_dec y) l l').
    { eapply Forall_Forall2_combine; [exact IH|exact F2|]. intros x y HP HR. apply HP. exact HR. }
    unfold all_dec. rewrite !unmarshal_arr, !json_nodup_arr. cbn [dec_field dec_string dec_int dec_slice].
    rewrite (dec_list_rel unmarshal unmarshal l l'), (forallb_rel json_nodup json_nodup l l'),
            (dec_list_rel (dec_field unmarshal) (dec_field unmarshal) l l'),
            (dec_list_rel dec_string dec_string l l'); [reflexivity| | | |];
      (eapply Forall2_imp; [|exact F]); unfold all_dec; intros x y H; inversion H; reflexivity.
  - (* objects: values first, then the order *)
    match goal with H : Forall2 _ ms ?m1, H' : Permutation ?m1 _ |- _ => rename H into F2; rename H' into Hperm end.
    etransitivity; [|apply all_dec_obj_perm; exact Hperm].
    apply all_dec_obj_pointwise.
    eapply Forall_Forall2_combine; [exact IH|exact F2|].
    intros a c HP [H1 H2]. split; [exact H1|apply HP; exact H2].
Qed.

Theorem unmarshal_key_order j j' : json_perm j j' -> unmarshal j = unmarshal j'.
Proof. intros H. apply json_perm_all_dec in H. unfold all_dec in H. inversion H. reflexivity. Qed.

(* ---- (3) unknown members are ignored ------------------------------------------------------ *)

Definition known (tbl : bytes -> option kind) (k : bytes) : bool :=
  match tbl k with Some _ => true | None => false end.

Lemma strip_members_keys tbl sv ms :
  map fst (strip_members tbl sv ms) = filter (known tbl) (map fst ms).
Proof.
  induction ms as [|[k v] r IH]; [reflexivity|]. cbn [strip_members map fst filter]. unfold known at 1.
  fold (strip_members tbl sv r). destruct (tbl k); cbn [map fst]; rewrite IH; reflexivity.
Qed.

Lemma nodupb_filter f l : nodupb l = true -> nodupb (filter f l) = true.
Proof. intros H. apply nodupb_NoDup. apply NoDup_filter. apply nodupb_NoDup. exact H. Qed.

Lemma dec_struct_strip tbl dk sv ms :
  Forall (fun kv => match tbl (fst kv) with
                    | None => json_nodup (snd kv) = true
                    | Some kd => dk kd (sv kd (snd kv)) = dk kd (snd kv)
                    end) ms ->
  dec_struct tbl dk (strip_members tbl sv ms) = dec_struct tbl dk ms.
Proof.
  induction 1 as [|[k v] r Hkv _ IH]; [reflexivity|]. cbn [fst snd] in Hkv.
  rewrite dec_struct_cons. cbn [strip_members]. fold (strip_members tbl sv r).
  destruct (tbl k) as [kd|] eqn:T.
  - rewrite dec_struct_cons, T, Hkv, IH. reflexivity.
  - rewrite Hkv, IH. reflexivity.
Qed.

Lemma dec_list_map_in {A} (f : json -> option A) (g : json -> json) l :
  dec_list f (map g l) = dec_list (fun x => f (g x)) l.
Proof.
  induction l as [|x r IH]; [reflexivity|]. cbn [map dec_list].
  fold (dec_list f (map g r)) (dec_list (fun x => f (g x)) r). rewrite IH. reflexivity.
Qed.

Definition strip_ok (j : json) : Prop :=
  json_nodup j = true ->
  unmarshal (strip j) = unmarshal j /\
  dec_field unmarshal (strip_field strip j) = dec_field unmarshal j /\
  forall kd, dk_obj unmarshal kd (strip_val strip kd j) = dk_obj unmarshal kd j.

Lemma strip_ok_all j : strip_ok j.
Proof.
  induction j as [| v | t i | s | l IH | ms IH] using json_ind'; unfold strip_ok; intros Hnd;
    try (split; [reflexivity|split; [reflexivity|intros kd; destruct kd; reflexivity]]).
  - (* arrays *)
    rewrite json_nodup_arr in Hnd. rewrite forallb_forall in Hnd.
    assert (Hs : Forall (fun x => unmarshal (strip x) = unmarshal x) l).
    { apply Forall_forall. intros x Hx. rewrite Forall_forall in IH. apply (IH x Hx). apply Hnd. exact Hx. }
    assert (Hf : Forall (fun x => dec_field unmarshal (strip_field strip x) = dec_field unmarshal x) l).
    { apply Forall_forall. intros x Hx. rewrite Forall_forall in IH. apply (IH x Hx). apply Hnd. exact Hx. }
    assert (H1 : unmarshal (strip (JArr l)) = unmarshal (JArr l)).
    { change (strip (JArr l)) with (JArr (map strip l)). rewrite !unmarshal_arr, dec_list_map_in.
      rewrite (dec_list_ext _ unmarshal l Hs). reflexivity. }
    split; [exact H1|]. split; [reflexivity|]. intros kd. destruct kd; try reflexivity.
    + cbn [strip_val dk_obj]. rewrite H1. reflexivity.
    + cbn [strip_val dk_obj dec_slice]. rewrite dec_list_map_in.
      rewrite (dec_list_ext _ (dec_field unmarshal) l Hf). reflexivity.
  - (* objects *)
    rewrite json_nodup_obj in Hnd. apply andb_true_iff in Hnd. destruct Hnd as [Hk Hv].
    rewrite forallb_forall in Hv. rewrite Forall_forall in IH.
    assert (H1 : unmarshal (strip (JObj ms)) = unmarshal (JObj ms)).
    { change (strip (JObj ms)) with (JObj (strip_members obj_attr (strip_val strip) ms)).
      rewrite !unmarshal_obj. unfold dec_object.
      rewrite strip_members_keys, (nodupb_filter _ _ Hk), Hk, dec_struct_strip; [reflexivity|].
      apply Forall_forall. intros [k v] Hin. cbn [fst snd].
      destruct (obj_attr k) as [kd|]; [|apply (Hv _ Hin)].
      apply (IH _ Hin). apply (Hv _ Hin). }
    split; [exact H1|]. split.
    + cbn [strip_field dec_field].
      rewrite strip_members_keys, (nodupb_filter _ _ Hk), Hk, dec_struct_strip; [reflexivity|].
      apply Forall_forall. intros [k v] Hin. cbn [fst snd].
      destruct (field_attr k) as [kd|]; [|apply (Hv _ Hin)].
      destruct kd; try reflexivity.
      pose proof (proj1 (IH _ Hin (Hv _ Hin))) as E. cbn [snd] in E.
      cbn [dk_field]. cbv beta iota. rewrite E. reflexivity.
    + intros kd. destruct kd; try reflexivity. cbn [strip_val dk_obj]. rewrite H1. reflexivity.
Qed.

Theorem unmarshal_strip j : json_nodup j = true -> unmarshal (strip j) = unmarshal j.
Proof. intros H. apply (strip_ok_all j H). Qed.

(* a single insertion, at the top of a schema object or of a record field *)
Lemma strip_members_insert tbl sv ms1 k v ms2 :
  tbl k = None -> strip_members tbl sv (ms1 ++ (k, v) :: ms2) = strip_members tbl sv (ms1 ++ ms2).
Proof.
  intros T. induction ms1 as [|[k1 v1] r IH]; cbn [app strip_members].
  - rewrite T. reflexivity.
  - fold (strip_members tbl sv (r ++ (k, v) :: ms2)) (strip_members tbl sv (r ++ ms2)). rewrite IH. reflexivity.
Qed.

Theorem unmarshal_insert_unknown ms1 k v ms2 :
  obj_attr k = None -> json_nodup (JObj (ms1 ++ (k, v) :: ms2)) = true ->
  unmarshal (JObj (ms1 ++ (k, v) :: ms2)) = unmarshal (JObj (ms1 ++ ms2)).
Proof.
  intros T Hnd.
  assert (Hnd' : json_nodup (JObj (ms1 ++ ms2)) = true).
  { rewrite json_nodup_obj in *. apply andb_true_iff in Hnd. destruct Hnd as [Hk Hv].
    apply andb_true_iff. split.
    - apply nodupb_NoDup. apply nodupb_NoDup in Hk. rewrite map_app in *. cbn [map fst] in Hk.
      eapply NoDup_remove_1. exact Hk.
    - rewrite forallb_app in *. cbn [forallb] in Hv. apply andb_true_iff in Hv. destruct Hv as [Ha Hb].
      apply andb_true_iff in Hb. destruct Hb as [_ Hb]. rewrite Ha, Hb. reflexivity. }
  rewrite <- (unmarshal_strip _ Hnd), <- (unmarshal_strip _ Hnd').
  change (strip (JObj (ms1 ++ (k, v) :: ms2))) with (JObj (strip_members obj_attr (strip_val strip) (ms1 ++ (k, v) :: ms2))).
  rewrite strip_members_insert by exact T. reflexivity.
Qed.

(* ---- (1) parse (print s) ---------------------------------------------------------------------- *)

Fixpoint olookup (k : bytes) (kvs : list (bytes * option json)) {struct kvs} : option json :=
  match kvs with
  | [] => None
  | (k', ov) :: r => if bytes_eqb k k' then ov else olookup k r
  end.

Lemma present_keys_sub kvs k : In k (map fst (present kvs)) -> In k (map fst kvs).
Proof.
  induction kvs as [|[k' [v|]] r IH]; cbn [present map fst]; intros H; [contradiction| |].
  - destruct H as [H|H]; [left; exact H|right; apply IH; exact H].
  - right. apply IH. exact H.
Qed.

Lemma present_nodup kvs : NoDup (map fst kvs) -> NoDup (map fst (present kvs)).
Proof.
  induction kvs as [|[k' [v|]] r IH]; cbn [present map fst]; intros H; [constructor| |];
    inversion H as [|? ? Hn Hr]; subst.
  - constructor; [|apply IH; exact Hr]. intros Hin. apply Hn. apply present_keys_sub. exact Hin.
  - apply IH. exact Hr.
Qed.

Lemma jlookup_present kvs k : NoDup (map fst kvs) -> jlookup k (present kvs) = olookup k kvs.
Proof.
  induction kvs as [|[k' [v|]] r IH]; cbn [present map fst olookup jlookup]; intros H; [reflexivity| |];
    inversion H as [|? ? Hn Hr]; subst.
  - destruct (bytes_eqb k k'); [reflexivity|apply IH; exact Hr].
  - destruct (bytes_eqb k k') eqn:E; [|apply IH; exact Hr].
    apply bytes_eqb_eq in E. subst. apply jlookup_notin. intros Hin. apply Hn. apply present_keys_sub. exact Hin.
Qed.

Lemma forallb_present (f : bytes * json -> bool) kvs :
  forallb f (present kvs) =
  forallb (fun kv => match snd kv with Some v => f (fst kv, v) | None => true end) kvs.
Proof.
  induction kvs as [|[k' [v|]] r IH]; cbn [present forallb fst snd]; [reflexivity| |]; rewrite IH; reflexivity.
Qed.

Lemma olookup9 x1 x2 x3 x4 x5 x6 x7 x8 x9 :
  let l := [ (b "type", x1); (b "logicalType", x2); (b "name", x3); (b "namespace", x4); (b "fields", x5);
             (b "symbols", x6); (b "items", x7); (b "values", x8); (b "size", x9) ] in
  olookup (b "type") l = x1 /\ olookup (b "logicalType") l = x2 /\ olookup (b "name") l = x3 /\
  olookup (b "namespace") l = x4 /\ olookup (b "fields") l = x5 /\ olookup (b "symbols") l = x6 /\
  olookup (b "items") l = x7 /\ olookup (b "values") l = x8 /\ olookup (b "size") l = x9.
Proof. repeat split; reflexivity. Qed.

Lemma nine_keys_nodup ty o : NoDup (map fst (marshal_obj ty o)).
Proof.
  destruct o. rewrite marshal_obj_eq. cbn [map fst]. apply nodupb_NoDup. vm_compute. reflexivity.
Qed.

Lemma obj_attr_names :
  obj_attr (b "type") = Some KStr /\ obj_attr (b "logicalType") = Some KStr /\ obj_attr (b "name") = Some KStr /\
  obj_attr (b "namespace") = Some KStr /\ obj_attr (b "fields") = Some KFields /\ obj_attr (b "symbols") = Some KSyms /\
  obj_attr (b "items") = Some KSch /\ obj_attr (b "values") = Some KSch /\ obj_attr (b "size") = Some KInt.
Proof. repeat split; reflexivity. Qed.

Lemma field_attr_names : field_attr (b "name") = Some KStr /\ field_attr (b "type") = Some KSch.
Proof. split; reflexivity. Qed.

Lemma json_empty_marshal t : json_empty (marshal t) = true -> t = GS [] None [].
Proof.
  destruct t as [ty [o|] un].
  - destruct o. cbn [marshal]. rewrite marshal_obj_eq. cbn [present json_empty]. discriminate.
  - rewrite marshal_union. destruct un as [|u us]; cbn [json_empty map].
    + destruct ty; [reflexivity|discriminate].
    + discriminate.
Qed.

Lemma dec_string_ostr s :
  match ostr s with Some v => dec_string v | None => Some [] end = Some s.
Proof. destruct s; reflexivity. Qed.

Lemma dec_field_marshal n t :
  unmarshal (marshal t) = Some (gs_meaning t) ->
  dec_field unmarshal (marshal_field n (marshal t)) = Some (n, gs_meaning t).
Proof.
  intros H. unfold marshal_field. rewrite dec_field_view.
  set (kvs := [(b "name", ostr n); (b "type", if json_empty (marshal t) then None else Some (marshal t))]).
  assert (Hnd : NoDup (map fst kvs)) by (apply nodupb_NoDup; vm_compute; reflexivity).
  rewrite (proj2 (nodupb_NoDup _) (present_nodup _ Hnd)). cbn [andb].
  destruct field_attr_names as [An At].
  assert (Hok : forallb (member_ok field_attr (dk_field unmarshal)) (present kvs) = true).
  { rewrite forallb_present. subst kvs. cbn [forallb fst snd]. rewrite !andb_true_iff. repeat split.
    - destruct n; [reflexivity|]. cbn [ostr]. unfold member_ok. cbn [fst snd]. rewrite An. reflexivity.
    - destruct (json_empty (marshal t)); [reflexivity|]. unfold member_ok. cbn [fst snd]. rewrite At.
      cbn [dk_field]. rewrite H. reflexivity. }
  rewrite Hok. f_equal. unfold gstr, gsch, attr_val. rewrite An, At, !(jlookup_present _ _ Hnd).
  subst kvs.
  change (olookup (b "name") [(b "name", ostr n); (b "type", if json_empty (marshal t) then None else Some (marshal t))])
    with (ostr n).
  change (olookup (b "type") [(b "name", ostr n); (b "type", if json_empty (marshal t) then None else Some (marshal t))])
    with (if json_empty (marshal t) then None else Some (marshal t)).
  f_equal.
  - destruct n; reflexivity.
  - destruct (json_empty (marshal t)) eqn:E.
    + apply json_empty_marshal in E. subst t. reflexivity.
    + cbn [dk_field]. rewrite H. reflexivity.
Qed.

Definition rt_ok (s : gschema) : Prop := gs_wf s = true -> unmarshal (marshal s) = Some (gs_meaning s).
Definition rt_obj_ok (o : gobject) : Prop :=
  forall ty, go_wf ty o = true ->
  dec_object unmarshal (present (marshal_obj ty o)) = Some (GS ty (Some (go_meaning ty o)) []).

Lemma rt_fields fields :
  Forall (fun p => rt_ok (snd p)) fields -> forallb (fun p => gs_wf (snd p)) fields = true ->
  dec_list (dec_field unmarshal) (marshal_fields fields) = Some (meaning_fields fields).
Proof.
  intros IH Hwf. unfold marshal_fields, meaning_fields. apply dec_list_map.
  rewrite forallb_forall in Hwf. rewrite Forall_forall in *. intros [n t] Hin. cbn [fst snd].
  apply dec_field_marshal. apply (IH _ Hin). apply (Hwf _ Hin).
Qed.

Lemma rt_syms syms : dec_list dec_string (map JStr syms) = Some syms.
Proof.
  rewrite <- (map_id syms) at 2. apply dec_list_map. apply Forall_forall. intros x _. reflexivity.
Qed.

Lemma rt_object lt name ns fields items values size syms :
  Forall (fun p => rt_ok (snd p)) fields -> rt_ok items -> rt_ok values ->
  rt_obj_ok (GO lt name ns fields items values size syms).
Proof.
  intros IHf IHi IHv ty Hwf. rewrite go_wf_eq in Hwf.
  apply andb_true_iff in Hwf. destruct Hwf as [Hwf Hsize].
  apply andb_true_iff in Hwf. destruct Hwf as [Hwf Hvals].
  apply andb_true_iff in Hwf. destruct Hwf as [Hflds Hitems].
  rewrite dec_object_view.
  pose proof (nine_keys_nodup ty (GO lt name ns fields items values size syms)) as Hnd.
  rewrite (proj2 (nodupb_NoDup _) (present_nodup _ Hnd)). cbn [andb].
  destruct obj_attr_names as [A1 [A2 [A3 [A4 [A5 [A6 [A7 [A8 A9]]]]]]]].
  (* the decoded value of each of the five type-specific members *)
  assert (Dflds : is ty "record" = true ->
            dec_list (dec_field unmarshal) (marshal_fields fields) = Some (meaning_fields fields)).
  { intros E. rewrite E in Hflds. apply rt_fields; assumption. }
  assert (Ditems : is ty "array" = true -> unmarshal (marshal items) = Some (gs_meaning items)).
  { intros E. rewrite E in Hitems. apply IHi. exact Hitems. }
  assert (Dvals : is ty "map" = true -> unmarshal (marshal values) = Some (gs_meaning values)).
  { intros E. rewrite E in Hvals. apply IHv. exact Hvals. }
  assert (Dsize : is ty "fixed" = true -> int_ok size = true).
  { intros E. rewrite E in Hsize. exact Hsize. }
  assert (Hok : forallb (member_ok obj_attr (dk_obj unmarshal))
                  (present (marshal_obj ty (GO lt name ns fields items values size syms))) = true).
  { rewrite forallb_present, marshal_obj_eq. cbn [forallb fst snd]. rewrite !andb_true_iff.
    repeat split. (* the member "type" is closed by conversion *)
    - destruct lt; [reflexivity|]. cbn [ostr]. unfold member_ok. cbn [fst snd]. rewrite A2. reflexivity.
    - destruct name; [reflexivity|]. cbn [ostr]. unfold member_ok. cbn [fst snd]. rewrite A3. reflexivity.
    - destruct ns; [reflexivity|]. cbn [ostr]. unfold member_ok. cbn [fst snd]. rewrite A4. reflexivity.
    - destruct (is ty "record"); [|reflexivity]. unfold member_ok. cbn [fst snd]. rewrite A5.
      cbn [dk_obj dec_slice]. rewrite (Dflds eq_refl). reflexivity.
    - destruct (is ty "enum"); [|reflexivity]. unfold member_ok. cbn [fst snd]. rewrite A6.
      cbn [dk_obj dec_slice]. rewrite rt_syms. reflexivity.
    - destruct (is ty "array"); [|reflexivity]. unfold member_ok. cbn [fst snd]. rewrite A7.
      cbn [dk_obj]. rewrite (Ditems eq_refl). reflexivity.
    - destruct (is ty "map"); [|reflexivity]. unfold member_ok. cbn [fst snd]. rewrite A8.
      cbn [dk_obj]. rewrite (Dvals eq_refl). reflexivity.
    - destruct (is ty "fixed"); [|reflexivity]. unfold member_ok. cbn [fst snd]. rewrite A9.
      cbn [dk_obj dec_int]. rewrite (Dsize eq_refl). reflexivity. }
  rewrite Hok. f_equal. rewrite go_meaning_eq.
  unfold build_obj, gstr, gsch, gfields, gint, gsyms, attr_val.
  rewrite A1, A2, A3, A4, A5, A6, A7, A8, A9, !(jlookup_present _ _ Hnd), marshal_obj_eq.
  match goal with |- context [olookup _ ?l] =>
    match l with
    | [ (_, ?x1); (_, ?x2); (_, ?x3); (_, ?x4); (_, ?x5); (_, ?x6); (_, ?x7); (_, ?x8); (_, ?x9) ] =>
      destruct (olookup9 x1 x2 x3 x4 x5 x6 x7 x8 x9) as [O1 [O2 [O3 [O4 [O5 [O6 [O7 [O8 O9]]]]]]]]
    end
  end.
  cbv zeta in O1, O2, O3, O4, O5, O6, O7, O8, O9.
  rewrite O1, O2, O3, O4, O5, O6, O7, O8, O9.
  f_equal. f_equal. f_equal.
  - destruct lt; reflexivity.
  - destruct name; reflexivity.
  - destruct ns; reflexivity.
  - destruct (is ty "record") eqn:E; [|reflexivity]. cbn [dk_obj dec_slice]. rewrite (Dflds eq_refl). reflexivity.
  - destruct (is ty "array") eqn:E; [|reflexivity]. cbn [dk_obj]. rewrite (Ditems eq_refl). reflexivity.
  - destruct (is ty "map") eqn:E; [|reflexivity]. cbn [dk_obj]. rewrite (Dvals eq_refl). reflexivity.
  - destruct (is ty "fixed") eqn:E; [|reflexivity]. cbn [dk_obj dec_int]. rewrite (Dsize eq_refl). reflexivity.
  - destruct (is ty "enum") eqn:E; [|reflexivity]. cbn [dk_obj dec_slice]. rewrite rt_syms. reflexivity.
Qed.

Theorem unmarshal_marshal s : gs_wf s = true -> unmarshal (marshal s) = Some (gs_meaning s).
Proof.
  change (rt_ok s). apply (gs_ind' rt_ok rt_obj_ok).
  - (* Object == nil *)
    intros ty un IH Hwf. rewrite gs_wf_union in Hwf. rewrite marshal_union, gs_meaning_union.
    destruct un as [|u us]; [reflexivity|].
    apply andb_true_iff in Hwf. destruct Hwf as [Hty Hwf]. apply bytes_eqb_eq in Hty. subst ty.
    rewrite unmarshal_arr.
    rewrite (dec_list_map unmarshal marshal gs_meaning (u :: us)); [reflexivity|].
    rewrite forallb_forall in Hwf. rewrite Forall_forall in *. intros x Hx. apply (IH x Hx). apply Hwf. exact Hx.
  - (* Object != nil *)
    intros ty o un IHo _ Hwf. cbn [gs_wf] in Hwf. apply andb_true_iff in Hwf. destruct Hwf as [Hun Hwf].
    destruct un; [|discriminate]. cbn [marshal]. rewrite unmarshal_obj. rewrite (IHo ty Hwf). reflexivity.
  - exact rt_object.
Qed.

(* ---- well formed, meaning, normal --------------------------------------------------------------- *)

Lemma map_fix_id {A} (f : A -> A) l : Forall (fun x => f x = x) l -> map f l = l.
Proof. induction 1 as [|x r Hx _ IH]; [reflexivity|]. cbn [map]. rewrite Hx, IH. reflexivity. Qed.

Lemma forallb_map {A B} (f : B -> bool) (g : A -> B) l : forallb f (map g l) = forallb (fun x => f (g x)) l.
Proof. induction l as [|x r IH]; [reflexivity|]. cbn [map forallb]. rewrite IH. reflexivity. Qed.

Lemma forallb_imp {A} (f g : A -> bool) l :
  Forall (fun x => f x = true -> g x = true) l -> forallb f l = true -> forallb g l = true.
Proof.
  induction 1 as [|x r Hx _ IH]; [reflexivity|]. cbn [forallb]. rewrite !andb_true_iff.
  intros [H1 H2]. split; [apply Hx; exact H1|apply IH; exact H2].
Qed.

Lemma gs_is_zero_eq s : gs_is_zero s = true -> s = gs_zero.
Proof. destruct s as [[|c ty] [o|] [|u us]]; cbn [gs_is_zero]; try discriminate. reflexivity. Qed.

Lemma is_nil_eq {A} (l : list A) : is_nil l = true -> l = [].
Proof. destruct l; [reflexivity|discriminate]. Qed.

Lemma gs_normal_wf_fix s : gs_normal s = true -> gs_wf s = true /\ gs_meaning s = s.
Proof.
  apply (gs_ind' (fun s => gs_normal s = true -> gs_wf s = true /\ gs_meaning s = s)
                 (fun o => forall ty, go_normal ty o = true -> go_wf ty o = true /\ go_meaning ty o = o)).
  - intros ty un IH H. rewrite gs_normal_union in H. rewrite gs_wf_union, gs_meaning_union.
    destruct un as [|u us]; [split; reflexivity|].
    apply andb_true_iff in H. destruct H as [Hty Hn]. rewrite Hty. cbn [andb].
    rewrite forallb_forall in Hn. rewrite Forall_forall in IH. split.
    + apply forallb_forall. intros x Hx. apply (IH x Hx). apply Hn. exact Hx.
    + f_equal. apply map_fix_id. apply Forall_forall. intros x Hx. apply (IH x Hx). apply Hn. exact Hx.
  - intros ty o un IHo _ H. cbn [gs_normal] in H. apply andb_true_iff in H. destruct H as [Hun Hn].
    apply is_nil_eq in Hun. subst un. destruct (IHo ty Hn) as [H1 H2]. cbn [gs_wf gs_meaning is_nil andb].
    rewrite H1, H2. split; reflexivity.
  - intros lt name ns fields items values size syms IHf IHi IHv ty H.
    rewrite go_normal_eq in H. rewrite go_wf_eq, go_meaning_eq.
    apply andb_true_iff in H. destruct H as [H Hsy].
    apply andb_true_iff in H. destruct H as [H Hsz].
    apply andb_true_iff in H. destruct H as [H Hv].
    apply andb_true_iff in H. destruct H as [Hf Hi].
    rewrite Forall_forall in IHf.
    assert (Ef : (if is ty "record" then meaning_fields fields else []) = fields /\
                 (if is ty "record" then forallb (fun p => gs_wf (snd p)) fields else true) = true).
    { destruct (is ty "record").
      - rewrite forallb_forall in Hf. split.
        + unfold meaning_fields. apply map_fix_id. apply Forall_forall. intros [n t] Hin.
          pose proof (proj2 (IHf _ Hin (Hf _ Hin))) as E. cbn [fst snd] in *. rewrite E. reflexivity.
        + apply forallb_forall. intros p Hin. apply (IHf _ Hin (Hf _ Hin)).
      - apply is_nil_eq in Hf. subst. split; reflexivity. }
    assert (Ei : (if is ty "array" then gs_meaning items else gs_zero) = items /\
                 (if is ty "array" then gs_wf items else true) = true).
    { destruct (is ty "array"); [destruct (IHi Hi); split; assumption|].
      apply gs_is_zero_eq in Hi. subst. split; reflexivity. }
    assert (Ev : (if is ty "map" then gs_meaning values else gs_zero) = values /\
                 (if is ty "map" then gs_wf values else true) = true).
    { destruct (is ty "map"); [destruct (IHv Hv); split; assumption|].
      apply gs_is_zero_eq in Hv. subst. split; reflexivity. }
    assert (Es : (if is ty "fixed" then size else 0) = size /\ (if is ty "fixed" then int_ok size else true) = true).
    { destruct (is ty "fixed"); [split; [reflexivity|exact Hsz]|]. apply Z.eqb_eq in Hsz. subst. split; reflexivity. }
    assert (Ey : (if is ty "enum" then syms else []) = syms).
    { destruct (is ty "enum"); [reflexivity|]. apply is_nil_eq in Hsy. subst. reflexivity. }
    destruct Ef as [Ef1 Ef2], Ei as [Ei1 Ei2], Ev as [Ev1 Ev2], Es as [Es1 Es2].
    rewrite Ef1, Ef2, Ei1, Ei2, Ev1, Ev2, Es1, Es2, Ey. split; reflexivity.
Qed.

Lemma gs_wf_meaning_normal s : gs_wf s = true -> gs_normal (gs_meaning s) = true.
Proof.
  apply (gs_ind' (fun s => gs_wf s = true -> gs_normal (gs_meaning s) = true)
                 (fun o => forall ty, go_wf ty o = true -> go_normal ty (go_meaning ty o) = true)).
  - intros ty un IH H. rewrite gs_wf_union in H. rewrite gs_meaning_union, gs_normal_union.
    destruct un as [|u us]; [reflexivity|]. cbn [map].
    apply andb_true_iff in H. destruct H as [Hty Hw]. rewrite Hty. cbn [andb].
    change (gs_meaning u :: map gs_meaning us) with (map gs_meaning (u :: us)). rewrite forallb_map.
    rewrite forallb_forall in Hw. rewrite Forall_forall in IH.
    apply forallb_forall. intros x Hx. apply (IH x Hx). apply Hw. exact Hx.
  - intros ty o un IHo _ H. cbn [gs_wf] in H. apply andb_true_iff in H. destruct H as [Hun Hw].
    cbn [gs_meaning gs_normal]. rewrite Hun, (IHo ty Hw). reflexivity.
  - intros lt name ns fields items values size syms IHf IHi IHv ty H.
    rewrite go_wf_eq in H. rewrite go_meaning_eq, go_normal_eq.
    apply andb_true_iff in H. destruct H as [H Hsz].
    apply andb_true_iff in H. destruct H as [H Hv].
    apply andb_true_iff in H. destruct H as [Hf Hi].
    rewrite !andb_true_iff. repeat split.
    + destruct (is ty "record"); [|reflexivity]. unfold meaning_fields. rewrite forallb_map. cbn [snd].
      rewrite forallb_forall in Hf. rewrite Forall_forall in IHf.
      apply forallb_forall. intros p Hin. apply (IHf _ Hin (Hf _ Hin)).
    + destruct (is ty "array"); [apply IHi; exact Hi|reflexivity].
    + destruct (is ty "map"); [apply IHv; exact Hv|reflexivity].
    + destruct (is ty "fixed"); [exact Hsz|reflexivity].
    + destruct (is ty "enum"); reflexivity.
Qed.

Lemma gs_meaning_idem s : gs_meaning (gs_meaning s) = gs_meaning s.
Proof.
  apply (gs_ind' (fun s => gs_meaning (gs_meaning s) = gs_meaning s)
                 (fun o => forall ty, go_meaning ty (go_meaning ty o) = go_meaning ty o)).
  - intros ty un IH. rewrite !gs_meaning_union, map_map. f_equal.
    apply map_ext_in. rewrite Forall_forall in IH. exact IH.
  - intros ty o un IHo _. cbn [gs_meaning]. rewrite IHo. reflexivity.
  - intros lt name ns fields items values size syms IHf IHi IHv ty.
    rewrite !go_meaning_eq. f_equal.
    + destruct (is ty "record"); [|reflexivity]. unfold meaning_fields. rewrite map_map. cbn [fst snd].
      apply map_ext_in. rewrite Forall_forall in IHf. intros p Hin. rewrite (IHf _ Hin). reflexivity.
    + destruct (is ty "array"); [exact IHi|reflexivity].
    + destruct (is ty "map"); [exact IHv|reflexivity].
    + destruct (is ty "fixed"); reflexivity.
    + destruct (is ty "enum"); reflexivity.
Qed.

(* ---- every parsed value is well formed ------------------------------------------------------- *)

Definition parsed_wf (j : json) : Prop :=
  (forall s, unmarshal j = Some s -> gs_wf s = true) /\
  (forall f, dec_field unmarshal j = Some f -> gs_wf (snd f) = true) /\
  (forall l, dec_slice (dec_field unmarshal) j = Some l -> forallb (fun p => gs_wf (snd p)) l = true).

Lemma dec_list_forallb {A} (f : json -> option A) (g : A -> bool) l out :
  Forall (fun x => forall a, f x = Some a -> g a = true) l ->
  dec_list f l = Some out -> forallb g out = true.
Proof.
  intros HF H. apply dec_list_Forall2 in H. induction H as [|x a r out' Hxa _ IH]; [reflexivity|].
  inversion HF; subst. cbn [forallb]. rewrite (H1 a Hxa), IH; [reflexivity|assumption].
Qed.

Lemma gsch_obj_wf ms k :
  Forall (fun kv => parsed_wf (snd kv)) ms ->
  gs_wf (gsch (attr_val obj_attr (dk_obj unmarshal) ms) k) = true.
Proof.
  intros IH. unfold gsch, attr_val. destruct (obj_attr (b k)) as [kd|]; [|reflexivity].
  destruct (jlookup (b k) ms) as [v|] eqn:J; [|reflexivity].
  apply jlookup_In in J. rewrite Forall_forall in IH. pose proof (IH _ J) as [H1 _]. cbn [snd] in H1.
  destruct kd; cbn [dk_obj].
  - destruct (dec_string v); reflexivity.
  - destruct (unmarshal v) as [s|]; [|reflexivity]. cbn [option_map]. apply H1. reflexivity.
  - destruct (dec_slice (dec_field unmarshal) v); reflexivity.
  - destruct (dec_int v); reflexivity.
  - destruct (dec_slice dec_string v); reflexivity.
Qed.

Lemma gfields_obj_wf ms k :
  Forall (fun kv => parsed_wf (snd kv)) ms ->
  forallb (fun p => gs_wf (snd p)) (gfields (attr_val obj_attr (dk_obj unmarshal) ms) k) = true.
Proof.
  intros IH. unfold gfields, attr_val. destruct (obj_attr (b k)) as [kd|]; [|reflexivity].
  destruct (jlookup (b k) ms) as [v|] eqn:J; [|reflexivity].
  apply jlookup_In in J. rewrite Forall_forall in IH. pose proof (IH _ J) as [_ [_ H3]]. cbn [snd] in H3.
  destruct kd; cbn [dk_obj].
  - destruct (dec_string v); reflexivity.
  - destruct (unmarshal v); reflexivity.
  - destruct (dec_slice (dec_field unmarshal) v) as [l|]; [|reflexivity]. cbn [option_map]. apply H3. reflexivity.
  - destruct (dec_int v); reflexivity.
  - destruct (dec_slice dec_string v); reflexivity.
Qed.

Lemma dec_int_ok v z : dec_int v = Some z -> int_ok z = true.
Proof.
  destruct v as [| | t [i|] | | |]; cbn [dec_int]; try discriminate.
  - intros H. inversion H. reflexivity.
  - destruct (int_ok i) eqn:E; [|discriminate]. intros H. inversion H; subst. exact E.
Qed.

Lemma gint_obj_ok ms k : int_ok (gint (attr_val obj_attr (dk_obj unmarshal) ms) k) = true.
Proof.
  unfold gint, attr_val. destruct (obj_attr (b k)) as [kd|]; [|reflexivity].
  destruct (jlookup (b k) ms) as [v|]; [|reflexivity].
  destruct kd; cbn [dk_obj].
  - destruct (dec_string v); reflexivity.
  - destruct (unmarshal v); reflexivity.
  - destruct (dec_slice (dec_field unmarshal) v); reflexivity.
  - destruct (dec_int v) as [z|] eqn:E; [|reflexivity]. cbn [option_map]. apply (dec_int_ok _ _ E).
  - destruct (dec_slice dec_string v); reflexivity.
Qed.

Lemma parsed_wf_all j : parsed_wf j.
Proof.
  induction j as [| v | t i | s | l IH | ms IH] using json_ind'; unfold parsed_wf.
  - repeat split; try discriminate.
    + intros f H. inversion H. reflexivity.
    + intros l H. inversion H. reflexivity.
  - repeat split; discriminate.
  - repeat split; discriminate.
  - repeat split; try discriminate. intros s0 H. inversion H. reflexivity.
  - repeat split; try discriminate.
    + intros s H. rewrite unmarshal_arr in H. destruct (dec_list unmarshal l) as [us|] eqn:E; [|discriminate].
      inversion H; subst. rewrite gs_wf_union. destruct us as [|u us]; [reflexivity|].
      unfold is. rewrite bytes_eqb_refl. cbn [andb].
      eapply dec_list_forallb; [|exact E]. eapply Forall_impl; [|exact IH]. intros x [H1 _]. exact H1.
    + intros out H. cbn [dec_slice] in H. eapply dec_list_forallb; [|exact H].
      eapply Forall_impl; [|exact IH]. intros x [_ [H2 _]]. exact H2.
  - repeat split; try discriminate.
    + intros s H. rewrite unmarshal_obj, dec_object_view in H.
      destruct (nodupb (map fst ms) && forallb (member_ok obj_attr (dk_obj unmarshal)) ms); [|discriminate].
      inversion H; subst. unfold build_obj. cbn [gs_wf is_nil andb]. rewrite go_wf_eq.
      rewrite (gfields_obj_wf ms "fields" IH), (gsch_obj_wf ms "items" IH), (gsch_obj_wf ms "values" IH),
              (gint_obj_ok ms "size").
      destruct (is _ "record"), (is _ "array"), (is _ "map"), (is _ "fixed"); reflexivity.
    + intros f H. rewrite dec_field_view in H.
      destruct (nodupb (map fst ms) && forallb (member_ok field_attr (dk_field unmarshal)) ms); [|discriminate].
      inversion H; subst. cbn [snd]. unfold gsch, attr_val.
      destruct (field_attr (b "type")) as [kd|]; [|reflexivity].
      destruct (jlookup (b "type") ms) as [v|] eqn:J; [|reflexivity].
      apply jlookup_In in J. rewrite Forall_forall in IH. pose proof (IH _ J) as [H1 _]. cbn [snd] in H1.
      destruct kd; cbn [dk_field]; try reflexivity.
      * destruct (dec_string v); reflexivity.
      * destruct (unmarshal v) as [s|]; [|reflexivity]. cbn [option_map]. apply H1. reflexivity.
Qed.

Theorem unmarshal_wf j s : unmarshal j = Some s -> gs_wf s = true.
Proof. apply (parsed_wf_all j). Qed.

(* ---- (5) duplicate member names anywhere are rejected; Marshal never writes one ----------- *)

Definition dup_rejected (j : json) : Prop :=
  json_nodup j = false ->
  unmarshal j = None /\ dec_field unmarshal j = None /\ forall kd, dk_obj unmarshal kd j = None.

Lemma forallb_false {A} (f : A -> bool) l : forallb f l = false -> exists x, In x l /\ f x = false.
Proof.
  induction l as [|x r IH]; cbn [forallb]; [discriminate|]. intros H.
  destruct (f x) eqn:E.
  - destruct (IH H) as [y [Hy Ey]]. exists y. split; [right; exact Hy|exact Ey].
  - exists x. split; [left; reflexivity|exact E].
Qed.

Lemma forallb_false_in {A} (f : A -> bool) l x : In x l -> f x = false -> forallb f l = false.
Proof.
  intros Hin Hx. destruct (forallb f l) eqn:E; [|reflexivity].
  rewrite forallb_forall in E. rewrite (E x Hin) in Hx. discriminate.
Qed.

Lemma option_map_none {A B} (f : A -> B) o : option_map f o = None -> o = None.
Proof. destruct o; [discriminate|reflexivity]. Qed.

Lemma dup_rejected_all j : dup_rejected j.
Proof.
  induction j as [| v | t i | s | l IH | ms IH] using json_ind'; unfold dup_rejected; intros Hnd;
    try discriminate.
  - rewrite json_nodup_arr in Hnd. destruct (forallb_false _ _ Hnd) as [x [Hx Ex]].
    rewrite Forall_forall in IH. destruct (IH x Hx Ex) as [H1 [H2 H3]].
    assert (U : unmarshal (JArr l) = None).
    { rewrite unmarshal_arr, (dec_list_none unmarshal l x Hx H1). reflexivity. }
    split; [exact U|]. split; [reflexivity|]. intros kd. destruct kd; cbn [dk_obj dec_string dec_int dec_slice]; try reflexivity.
    + rewrite U. reflexivity.
    + rewrite (dec_list_none (dec_field unmarshal) l x Hx H2). reflexivity.
    + pose proof (H3 KStr) as Hs. cbn [dk_obj] in Hs. apply option_map_none in Hs.
      rewrite (dec_list_none dec_string l x Hx Hs). reflexivity.
  - rewrite json_nodup_obj in Hnd.
    assert (U : unmarshal (JObj ms) = None /\ dec_field unmarshal (JObj ms) = None).
    { rewrite unmarshal_obj, dec_object_view, dec_field_view.
      destruct (nodupb (map fst ms)); [|split; reflexivity]. cbn [andb] in *.
      destruct (forallb_false _ _ Hnd) as [[k v] [Hin Ex]]. cbn [snd] in Ex.
      rewrite Forall_forall in IH. destruct (IH _ Hin Ex) as [H1 [H2 H3]]. cbn [snd] in *.
      rewrite (forallb_false_in (member_ok obj_attr (dk_obj unmarshal)) ms (k, v) Hin),
              (forallb_false_in (member_ok field_attr (dk_field unmarshal)) ms (k, v) Hin); [split; reflexivity| |].
      - unfold member_ok. cbn [fst snd]. destruct (field_attr k) as [kd|]; [|exact Ex].
        destruct kd; cbn [dk_field]; try reflexivity.
        + pose proof (H3 KStr) as Hs. cbn [dk_obj] in Hs. rewrite Hs. reflexivity.
        + rewrite H1. reflexivity.
      - unfold member_ok. cbn [fst snd]. destruct (obj_attr k) as [kd|]; [|exact Ex]. rewrite (H3 kd). reflexivity. }
    destruct U as [U1 U2]. split; [exact U1|]. split; [exact U2|].
    intros kd. destruct kd; cbn [dk_obj dec_string dec_int dec_slice]; try reflexivity. rewrite U1. reflexivity.
Qed.

Theorem unmarshal_rejects_duplicates j : json_nodup j = false -> unmarshal j = None.
Proof. intros H. apply (dup_rejected_all j H). Qed.

Lemma marshal_nodup s : json_nodup (marshal s) = true.
Proof.
  apply (gs_ind' (fun s => json_nodup (marshal s) = true)
                 (fun o => forall ty, json_nodup (JObj (present (marshal_obj ty o))) = true)).
  - intros ty un IH. rewrite marshal_union. destruct un as [|u us]; [reflexivity|].
    rewrite json_nodup_arr, forallb_map. apply forallb_forall. rewrite Forall_forall in IH. exact IH.
  - intros ty o un IHo _. cbn [marshal]. apply IHo.
  - intros lt name ns fields items values size syms IHf IHi IHv ty.
    rewrite json_nodup_obj.
    rewrite (proj2 (nodupb_NoDup _) (present_nodup _ (nine_keys_nodup ty _))). cbn [andb].
    rewrite (forallb_present (fun kv => json_nodup (snd kv))), marshal_obj_eq. cbn [forallb fst snd].
    rewrite !andb_true_iff. repeat split.
    + destruct lt; reflexivity.
    + destruct name; reflexivity.
    + destruct ns; reflexivity.
    + destruct (is ty "record"); [|reflexivity]. rewrite json_nodup_arr. unfold marshal_fields. rewrite forallb_map.
      apply forallb_forall. rewrite Forall_forall in IHf. intros [n t] Hin. cbn [fst snd].
      unfold marshal_field. rewrite json_nodup_obj.
      assert (Hnd : NoDup (map fst [(b "name", ostr n); (b "type", if json_empty (marshal t) then None else Some (marshal t))]))
        by (apply nodupb_NoDup; vm_compute; reflexivity).
      rewrite (proj2 (nodupb_NoDup _) (present_nodup _ Hnd)). cbn [andb].
      rewrite (forallb_present (fun kv => json_nodup (snd kv))). cbn [forallb fst snd].
      rewrite !andb_true_iff. repeat split.
      * destruct n; reflexivity.
      * destruct (json_empty (marshal t)); [reflexivity|]. apply (IHf _ Hin).
    + destruct (is ty "enum"); [|reflexivity]. rewrite json_nodup_arr, forallb_map.
      apply forallb_forall. intros x _. reflexivity.
    + destruct (is ty "array"); [exact IHi|reflexivity].
    + destruct (is ty "map"); [exact IHv|reflexivity].
    + destruct (is ty "fixed"); reflexivity.
Qed.

(* ---- (4) structure: every attribute of the result is the decoded member of that name ------- *)

Definition field_of (ms : list (bytes * json)) (k : string) {A} (dec : json -> option A) (dflt x : A) : Prop :=
  match jlookup (b k) ms with Some v => dec v = Some x | None => x = dflt end.

Lemma member_ok_found tbl dk ms k v kd :
  forallb (member_ok tbl dk) ms = true -> jlookup k ms = Some v -> tbl k = Some kd -> exists a, dk kd v = Some a.
Proof.
  intros Hok J T. apply jlookup_In in J. rewrite forallb_forall in Hok. pose proof (Hok _ J) as H.
  unfold member_ok in H. cbn [fst snd] in H. rewrite T in H. destruct (dk kd v) as [a|]; [exists a; reflexivity|discriminate].
Qed.

Section ObjStructure.
  Variable ms : list (bytes * json).
  Hypothesis Hok : forallb (member_ok obj_attr (dk_obj unmarshal)) ms = true.
  Let look := attr_val obj_attr (dk_obj unmarshal) ms.

  Lemma attr_str k : obj_attr (b k) = Some KStr -> field_of ms k dec_string [] (gstr look k).
  Proof.
    intros T. unfold field_of, gstr, look, attr_val. rewrite T. destruct (jlookup (b k) ms) as [v|] eqn:J; [|reflexivity].
    destruct (member_ok_found _ _ _ _ _ _ Hok J T) as [a Ha]. cbn [dk_obj] in *.
    destruct (dec_string v); [reflexivity|discriminate].
  Qed.

  Lemma attr_sch k : obj_attr (b k) = Some KSch -> field_of ms k unmarshal gs_zero (gsch look k).
  Proof.
    intros T. unfold field_of, gsch, look, attr_val. rewrite T. destruct (jlookup (b k) ms) as [v|] eqn:J; [|reflexivity].
    destruct (member_ok_found _ _ _ _ _ _ Hok J T) as [a Ha]. cbn [dk_obj] in *.
    destruct (unmarshal v); [reflexivity|discriminate].
  Qed.

  Lemma attr_fields k : obj_attr (b k) = Some KFields ->
    field_of ms k (dec_slice (dec_field unmarshal)) [] (gfields look k).
  Proof.
    intros T. unfold field_of, gfields, look, attr_val. rewrite T. destruct (jlookup (b k) ms) as [v|] eqn:J; [|reflexivity].
    destruct (member_ok_found _ _ _ _ _ _ Hok J T) as [a Ha]. cbn [dk_obj] in *.
    destruct (dec_slice (dec_field unmarshal) v); [reflexivity|discriminate].
  Qed.

  Lemma attr_int k : obj_attr (b k) = Some KInt -> field_of ms k dec_int 0 (gint look k).
  Proof.
    intros T. unfold field_of, gint, look, attr_val. rewrite T. destruct (jlookup (b k) ms) as [v|] eqn:J; [|reflexivity].
    destruct (member_ok_found _ _ _ _ _ _ Hok J T) as [a Ha]. cbn [dk_obj] in *.
    destruct (dec_int v); [reflexivity|discriminate].
  Qed.

  Lemma attr_syms k : obj_attr (b k) = Some KSyms -> field_of ms k (dec_slice dec_string) [] (gsyms look k).
  Proof.
    intros T. unfold field_of, gsyms, look, attr_val. rewrite T. destruct (jlookup (b k) ms) as [v|] eqn:J; [|reflexivity].
    destruct (member_ok_found _ _ _ _ _ _ Hok J T) as [a Ha]. cbn [dk_obj] in *.
    destruct (dec_slice dec_string v); [reflexivity|discriminate].
  Qed.
End ObjStructure.

Theorem unmarshal_object_structure ms s :
  unmarshal (JObj ms) = Some s ->
  exists ty lt name ns fields items values size syms,
    s = GS ty (Some (GO lt name ns fields items values size syms)) [] /\
    field_of ms "type" dec_string [] ty /\
    field_of ms "logicalType" dec_string [] lt /\
    field_of ms "name" dec_string [] name /\
    field_of ms "namespace" dec_string [] ns /\
    field_of ms "fields" (dec_slice (dec_field unmarshal)) [] fields /\
    field_of ms "items" unmarshal gs_zero items /\
    field_of ms "values" unmarshal gs_zero values /\
    field_of ms "size" dec_int 0 size /\
    field_of ms "symbols" (dec_slice dec_string) [] syms.
Proof.
  rewrite unmarshal_obj, dec_object_view. intros H.
  destruct (nodupb (map fst ms)); [|discriminate]. cbn [andb] in H.
  destruct (forallb (member_ok obj_attr (dk_obj unmarshal)) ms) eqn:Hok; [|discriminate].
  inversion H; subst. unfold build_obj.
  destruct obj_attr_names as [A1 [A2 [A3 [A4 [A5 [A6 [A7 [A8 A9]]]]]]]].
  do 9 eexists. split; [reflexivity|].
  repeat split.
  - apply (attr_str ms Hok "type" A1).
  - apply (attr_str ms Hok "logicalType" A2).
  - apply (attr_str ms Hok "name" A3).
  - apply (attr_str ms Hok "namespace" A4).
  - apply (attr_fields ms Hok "fields" A5).
  - apply (attr_sch ms Hok "items" A7).
  - apply (attr_sch ms Hok "values" A8).
  - apply (attr_int ms Hok "size" A9).
  - apply (attr_syms ms Hok "symbols" A6).
Qed.

Theorem dec_field_structure fms n t :
  dec_field unmarshal (JObj fms) = Some (n, t) ->
  field_of fms "name" dec_string [] n /\ field_of fms "type" unmarshal gs_zero t.
Proof.
  rewrite dec_field_view. intros H.
  destruct (nodupb (map fst fms)); [|discriminate]. cbn [andb] in H.
  destruct (forallb (member_ok field_attr (dk_field unmarshal)) fms) eqn:Hok; [|discriminate].
  inversion H; subst. destruct field_attr_names as [An At]. split.
  - unfold field_of, gstr, attr_val. rewrite An. destruct (jlookup (b "name") fms) as [v|] eqn:J; [|reflexivity].
    destruct (member_ok_found _ _ _ _ _ _ Hok J An) as [a Ha]. cbn [dk_field] in *.
    destruct (dec_string v); [reflexivity|discriminate].
  - unfold field_of, gsch, attr_val. rewrite At. destruct (jlookup (b "type") fms) as [v|] eqn:J; [|reflexivity].
    destruct (member_ok_found _ _ _ _ _ _ Hok J At) as [a Ha]. cbn [dk_field] in *.
    destruct (unmarshal v); [reflexivity|discriminate].
Qed.

(* a slice attribute keeps length and order *)
Theorem dec_slice_order {A} (f : json -> option A) l out :
  dec_slice f (JArr l) = Some out <-> Forall2 (fun x a => f x = Some a) l out.
Proof. cbn [dec_slice]. apply dec_list_Forall2. Qed.

Theorem unmarshal_union_structure l s :
  unmarshal (JArr l) = Some s <->
  exists us, s = GS (b "union") None us /\ Forall2 (fun x u => unmarshal x = Some u) l us.
Proof.
  rewrite unmarshal_arr. split.
  - destruct (dec_list unmarshal l) as [us|] eqn:E; [|discriminate]. intros H. inversion H; subst.
    exists us. split; [reflexivity|]. apply dec_list_Forall2. exact E.
  - intros [us [-> H]]. apply dec_list_Forall2 in H. rewrite H. reflexivity.
Qed.

(* ---- (5) malformed trees ------------------------------------------------------------------------- *)

Theorem unmarshal_member_error ms k v kd :
  In (k, v) ms -> obj_attr k = Some kd -> dk_obj unmarshal kd v = None -> unmarshal (JObj ms) = None.
Proof.
  intros Hin T D. rewrite unmarshal_obj, dec_object_view.
  rewrite (forallb_false_in (member_ok obj_attr (dk_obj unmarshal)) ms (k, v) Hin).
  - rewrite andb_false_r. reflexivity.
  - unfold member_ok. cbn [fst snd]. rewrite T, D. reflexivity.
Qed.

Theorem dec_field_member_error fms k v kd :
  In (k, v) fms -> field_attr k = Some kd -> dk_field unmarshal kd v = None -> dec_field unmarshal (JObj fms) = None.
Proof.
  intros Hin T D. rewrite dec_field_view.
  rewrite (forallb_false_in (member_ok field_attr (dk_field unmarshal)) fms (k, v) Hin).
  - rewrite andb_false_r. reflexivity.
  - unfold member_ok. cbn [fst snd]. rewrite T, D. reflexivity.
Qed.

Theorem unmarshal_branch_error l x : In x l -> unmarshal x = None -> unmarshal (JArr l) = None.
Proof. intros Hin H. rewrite unmarshal_arr, (dec_list_none unmarshal l x Hin H). reflexivity. Qed.

Theorem unmarshal_duplicate_member ms : nodupb (map fst ms) = false -> unmarshal (JObj ms) = None.
Proof. intros H. rewrite unmarshal_obj. unfold dec_object. rewrite H. reflexivity. Qed.

(* ---- corollaries used by Props/C14.v ------------------------------------------------------------ *)

Lemma json_perm_refl j : json_perm j j.
Proof.
  induction j as [| v | t i | s | l IH | ms IH] using json_ind'; try constructor.
  - induction IH; constructor; assumption.
  - apply (JP_obj ms ms ms); [|apply Permutation_refl].
    induction IH as [|[k v] r Hkv _ IHr]; constructor; [split; [reflexivity|exact Hkv]|exact IHr].
Qed.

Theorem parse_print s :
  wf_gschema s -> unmarshal (marshal s) = Some (gs_meaning s) /\ gschema_equiv s (gs_meaning s).
Proof.
  intros H. split; [apply unmarshal_marshal; exact H|]. unfold gschema_equiv. symmetry. apply gs_meaning_idem.
Qed.

Theorem parse_print_exact s : gs_normal s = true -> unmarshal (marshal s) = Some s.
Proof.
  intros H. destruct (gs_normal_wf_fix s H) as [Hwf Hfix]. rewrite (unmarshal_marshal s Hwf), Hfix. reflexivity.
Qed.

Theorem reparse_stable j s :
  unmarshal j = Some s ->
  unmarshal (marshal s) = Some (gs_meaning s) /\ gs_normal (gs_meaning s) = true /\
  unmarshal (marshal (gs_meaning s)) = Some (gs_meaning s).
Proof.
  intros H. pose proof (unmarshal_wf j s H) as Hwf. split; [apply unmarshal_marshal; exact Hwf|].
  pose proof (gs_wf_meaning_normal s Hwf) as Hn. split; [exact Hn|apply parse_print_exact; exact Hn].
Qed.

Theorem strip_determines j j' :
  json_nodup j = true -> json_nodup j' = true -> strip j = strip j' -> unmarshal j = unmarshal j'.
Proof. intros H H' E. rewrite <- (unmarshal_strip j H), <- (unmarshal_strip j' H'), E. reflexivity. Qed.

Theorem marshal_valid s :
  json_nodup (marshal s) = true /\
  (json_text_ok (marshal s) = true -> marshal_impl s = Some (marshal s)) /\
  (json_text_ok (marshal s) = false -> marshal_impl s = None).
Proof.
  split; [apply marshal_nodup|]. unfold marshal_impl. split; intros H; rewrite H; reflexivity.
Qed.

(* the kinds each attribute accepts *)
Theorem kind_errors :
  (forall v, dec_string v = None <-> match v with JStr _ | JNull => False | _ => True end) /\
  (forall v, dec_int v = None <->
     match v with JNull => False | JNum _ (Some z) => int_ok z = false | _ => True end) /\
  (forall A (f : json -> option A) v, match v with JArr _ | JNull => False | _ => True end -> dec_slice f v = None) /\
  (forall v, match v with JStr _ | JArr _ | JObj _ => False | _ => True end -> unmarshal v = None) /\
  (forall v, match v with JObj _ | JNull => False | _ => True end -> dec_field unmarshal v = None).
Proof.
  repeat split.
  - destruct v; cbn [dec_string]; intros H; try exact I; discriminate.
  - destruct v; cbn [dec_string]; intros H; try reflexivity; contradiction.
  - destruct v as [| | t [z|] | | |]; cbn [dec_int]; intros H; try exact I; try discriminate.
    destruct (int_ok z); [discriminate|reflexivity].
  - destruct v as [| | t [z|] | | |]; cbn [dec_int]; intros H; try reflexivity; try contradiction.
    rewrite H. reflexivity.
  - intros A f v H. destruct v; cbn [dec_slice]; try reflexivity; contradiction.
  - intros v H. destruct v; try reflexivity; contradiction.
  - intros v H. destruct v; try reflexivity; contradiction.
Qed.
