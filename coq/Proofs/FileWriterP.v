(* The FileWriter used directly by an application with its own record encoder, one
   FileWriter serving several files whose calls are interleaved in any order (a sharding
   exporter, a mirror): every file that received one header followed by blocks is a valid
   container - ReadFile recovers schema, codec name and sync marker and delivers exactly the
   records of its blocks - because every block is closed by the marker every header carries. *)
From Coq Require Import List ZArith Lia Bool.
Require Import Avro.Model.Base Avro.Model.Prim Avro.Model.Container Avro.Model.Writer.
Require Import Avro.Proofs.ContainerP Avro.Proofs.FileP.
Import ListNotations.
Open Scope Z_scope.

Section FileWriterP.
  Variable compress : bytes -> bytes.
  Variable decompress : bytes -> option bytes.
  Hypothesis Hdc : forall x, decompress (compress x) = Some x.
  Variable schema_json codec_name sync : bytes.
  Hypothesis Hsj : len schema_json < two63.
  Hypothesis Hcn : len codec_name < two63.
  Hypothesis Hsync : len sync = 16.
  Variable read_record : bytes -> out unit.

  Notation written := (fw_written compress schema_json codec_name sync).
  Notation emit := (fw_emit compress schema_json codec_name sync).

  (* calls for other writers, and AppendHeader, leave writer w alone *)
  Lemma written_filter ops w : written ops w = written (filter (fw_for w) ops) w.
  Proof.
    unfold fw_written. induction ops as [|op ops IH]; [reflexivity|]. cbn [map concat filter].
    destruct op as [w'|buf|w' n data]; cbn [fw_for fw_emit].
    - destruct (Nat.eqb w w') eqn:E; cbn [map concat fw_emit]; rewrite ?E, IH; reflexivity.
    - exact IH.
    - destruct (Nat.eqb w w') eqn:E; cbn [map concat fw_emit]; rewrite ?E, IH; reflexivity.
  Qed.

  (* a block handed to WriteBlock: its row count and bytes, which decode to that many records *)
  Definition fw_block_ok (p : Z * bytes) : Prop :=
    0 <= fst p < two63 /\ len (compress (snd p)) < two63 /\ recs_ok read_record (Z.to_nat (fst p)) (snd p).

  Definition vb_of_block (p : Z * bytes) : vblock :=
    {| vb_count := Z.to_nat (fst p); vb_raw := compress (snd p); vb_payload := snd p |}.

  Lemma blocks_ok : forall bl idx, Forall fw_block_ok bl ->
    vbs_ok decompress read_record (fun _ => None) idx (map vb_of_block bl).
  Proof.
    induction bl as [|p bl IH]; intros idx H; cbn [map vbs_ok]; [exact I|].
    inversion H as [|? ? (Hc & Hl & Hr) H']; subst. split; [|apply IH; exact H'].
    unfold vb_ok, vb_of_block. cbn [vb_raw vb_payload vb_count].
    refine (conj (Hdc _) (conj Hr (conj _ (conj _ Hl)))).
    - intros i _. reflexivity.
    - rewrite Z2Nat.id by lia. lia.
  Qed.

  Lemma blocks_bytes : forall bl w, Forall fw_block_ok bl ->
    written (map (fun p => FwBlock w (fst p) (snd p)) bl) w = concat (map (vb_bytes sync) (map vb_of_block bl)).
  Proof.
    unfold fw_written. induction bl as [|p bl IH]; intros w H; [reflexivity|].
    inversion H as [|? ? (Hc & _) H']; subst. cbn [map concat fw_emit]. rewrite Nat.eqb_refl.
    f_equal; [|apply IH; exact H'].
    unfold vb_bytes, vb_of_block. cbn [vb_count vb_raw]. rewrite Z2Nat.id by lia.
    symmetry. apply blk_is_block_bytes.
  Qed.

  (* One FileWriter, any interleaving of calls for any number of writers.  If the calls that
     concern writer w are one WriteHeader followed by WriteBlock calls with well-formed blocks,
     what w holds is a valid container file. *)
  Theorem filewriter_any_interleaving : forall ops w bl fuel,
    filter (fw_for w) ops = FwHeader w :: map (fun p => FwBlock w (fst p) (snd p)) bl ->
    Forall fw_block_ok bl -> (length bl < fuel)%nat ->
    exists body,
      read_header (written ops w) = Some ({| h_meta := written_meta schema_json codec_name; h_sync := sync |}, body) /\
      read_blocks decompress read_record (fun _ => None) fuel sync 0 body
        = (total (map vb_of_block bl), FOk).
  Proof.
    intros ops w bl fuel Hf Hbl Hfuel. rewrite written_filter, Hf.
    exists (concat (map (vb_bytes sync) (map vb_of_block bl))). split.
    - unfold fw_written. cbn [map concat fw_emit]. rewrite Nat.eqb_refl.
      fold (fw_written compress schema_json codec_name sync (map (fun p => FwBlock w (fst p) (snd p)) bl) w).
      rewrite blocks_bytes by exact Hbl. apply read_header_written; assumption.
    - rewrite (read_blocks_valid decompress read_record (fun _ => None) sync Hsync (map vb_of_block bl) fuel 0).
      + reflexivity.
      + apply blocks_ok. exact Hbl.
      + rewrite map_length. exact Hfuel.
  Qed.

  (* AppendHeader keeps what the buffer held and appends the same header WriteHeader writes *)
  Lemma append_header_is_header buf w :
    fw_append schema_json codec_name sync buf = buf ++ written [FwHeader w] w.
  Proof. unfold fw_append, fw_written. cbn [map concat fw_emit]. rewrite Nat.eqb_refl, app_nil_r. reflexivity. Qed.
End FileWriterP.
