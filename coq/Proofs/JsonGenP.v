(* C14: the schemas produced by schema generation (Model/SchemaGen.v) are in normal form,
   hence come back from Marshal / SchemaFromString exactly. *)
From Coq Require Import List ZArith Bool Lia String.
Require Import Avro.Model.Base Avro.Model.Schema Avro.Model.GoType Avro.Model.Codec Avro.Model.SchemaGen Avro.Model.Json.
Require Import Avro.Proofs.JsonP.
Import ListNotations.
Open Scope Z_scope.

Section GtypeInd.
  Variable P : gtype -> Prop.
  Hypothesis HBool : P TBool.
  Hypothesis HInt : forall k, P (TInt k).
  Hypothesis HF32 : P TFloat32.
  Hypothesis HF64 : P TFloat64.
  Hypothesis HComplex : P TComplex.
  Hypothesis HString : P TString.
  Hypothesis HSlice : forall e, P e -> P (TSlice e).
  Hypothesis HArray : forall n e, P e -> P (TArray n e).
  Hypothesis HMap : forall k e, P k -> P e -> P (TMap k e).
  Hypothesis HPtr : forall e, P e -> P (TPtr e).
  Hypothesis HStruct : forall name pkg fields, Forall (fun f => P (gf_type f)) fields -> P (TStruct name pkg fields).
  Hypothesis HWrap : forall w, P (TWrap w).
  Hypothesis HNamed : forall id u, P u -> P (TNamed id u).
  Hypothesis HSelf : forall k, P (TSelf k).
  Hypothesis HIface : P TIface.
  Hypothesis HChan : P TChan.
  Hypothesis HFunc : P TFunc.
  Hypothesis HUnsafe : P TUnsafePtr.

  Fixpoint gtype_ind' (t : gtype) : P t :=
    match t with
    | TBool => HBool | TInt k => HInt k | TFloat32 => HF32 | TFloat64 => HF64 | TComplex => HComplex
    | TString => HString
    | TSlice e => HSlice e (gtype_ind' e)
    | TArray n e => HArray n e (gtype_ind' e)
    | TMap k e => HMap k e (gtype_ind' k) (gtype_ind' e)
    | TPtr e => HPtr e (gtype_ind' e)
    | TStruct name pkg fields =>
        HStruct name pkg fields
          ((fix go (l : list gfield) : Forall (fun f => P (gf_type f)) l :=
              match l with
              | [] => Forall_nil _
              | GF n ex js bq ft :: r => Forall_cons (GF n ex js bq ft) (gtype_ind' ft) (go r)
              end) fields)
    | TWrap w => HWrap w
    | TNamed id u => HNamed id u (gtype_ind' u)
    | TSelf k => HSelf k
    | TIface => HIface | TChan => HChan | TFunc => HFunc | TUnsafePtr => HUnsafe
    end.
End GtypeInd.

Definition reg_normal (reg : sregistry) : Prop := forall id s, reg id = Some s -> gs_normal s = true.

Lemma gs_prim_normal ty : gs_normal (gs_prim ty) = true.
Proof. reflexivity. Qed.

Lemma gs_nullable_normal s : gs_normal s = true -> gs_normal (gs_nullable s) = true.
Proof.
  intros H. unfold gs_nullable. rewrite gs_normal_union. cbn [forallb]. rewrite H.
  rewrite gs_prim_normal. unfold is. rewrite (proj2 (bytes_eqb_eq _ _) eq_refl). reflexivity.
Qed.

Lemma sreg_lookup_normal reg t s : reg_normal reg -> sreg_lookup reg t = Some s -> gs_normal s = true.
Proof. intros Hr. destruct t; cbn [sreg_lookup]; try discriminate; apply Hr. Qed.

Lemma array_normal s : gs_normal s = true -> gs_normal (GS (b "array") (Some (GO [] [] [] [] s gs_zero 0 [])) []) = true.
Proof.
  intros H. cbn [gs_normal is_nil andb]. rewrite go_normal_eq.
  change (is (b "array") "record") with false. change (is (b "array") "array") with true.
  change (is (b "array") "map") with false. change (is (b "array") "fixed") with false.
  change (is (b "array") "enum") with false. rewrite H. reflexivity.
Qed.

Lemma map_normal s : gs_normal s = true -> gs_normal (GS (b "map") (Some (GO [] [] [] [] gs_zero s 0 [])) []) = true.
Proof.
  intros H. cbn [gs_normal is_nil andb]. rewrite go_normal_eq.
  change (is (b "map") "record") with false. change (is (b "map") "array") with false.
  change (is (b "map") "map") with true. change (is (b "map") "fixed") with false.
  change (is (b "map") "enum") with false. rewrite H. reflexivity.
Qed.

Lemma record_normal name ns fs :
  forallb (fun p => gs_normal (snd p)) fs = true ->
  gs_normal (GS (b "record") (Some (GO [] name ns fs gs_zero gs_zero 0 [])) []) = true.
Proof.
  intros H. cbn [gs_normal is_nil andb]. rewrite go_normal_eq.
  change (is (b "record") "record") with true. change (is (b "record") "array") with false.
  change (is (b "record") "map") with false. change (is (b "record") "fixed") with false.
  change (is (b "record") "enum") with false. rewrite H. reflexivity.
Qed.

Theorem schema_for_normal reg : reg_normal reg -> forall t s, schema_for reg t = Some s -> gs_normal s = true.
Proof.
  intros Hr t.
  induction t as [ | k | | | | | e IH | n e IH | k e IHk IH | e IH | name pkg fields IH | w | id u IH | k | | | | ]
    using gtype_ind'; intros s H; cbn [schema_for] in H;
    match type of H with
    | match sreg_lookup reg ?t with _ => _ end = _ =>
        destruct (sreg_lookup reg t) as [s0|] eqn:L;
        [inversion H; subst; exact (sreg_lookup_normal reg _ _ Hr L)|]
    end; try discriminate.
  - inversion H; reflexivity.
  - destruct k; inversion H; reflexivity.
  - inversion H; reflexivity.
  - inversion H; reflexivity.
  - inversion H; reflexivity.
  - (* slice *)
    destruct (is_u8 e); [inversion H; reflexivity|].
    destruct (schema_for reg e) as [se|]; [|discriminate]. inversion H; subst. apply array_normal. apply IH. reflexivity.
  - (* array *)
    destruct (is_u8 e); [inversion H; reflexivity|].
    destruct (schema_for reg e) as [se|]; [|discriminate]. inversion H; subst. apply array_normal. apply IH. reflexivity.
  - (* map *)
    destruct (schema_for reg e) as [se|]; [|discriminate]. inversion H; subst. apply map_normal. apply IH. reflexivity.
  - (* pointer *)
    destruct (schema_for reg e) as [u|]; [|discriminate]. specialize (IH u eq_refl).
    destruct (is (gs_type u) "union" || is (gs_type u) "array" || is (gs_type u) "map"); inversion H; subst;
      [exact IH|apply gs_nullable_normal; exact IH].
  - (* struct *)
    match type of H with
    | option_map _ (?g fields) = _ =>
        assert (G : forall fs, g fields = Some fs -> forallb (fun p => gs_normal (snd p)) fs = true)
    end.
    { clear H L. induction IH as [|[fname exported json bq ft] r Hf _ IHr]; intros fs Hfs.
      - inversion Hfs. reflexivity.
      - cbn [gf_type] in Hf. cbv beta iota zeta in Hfs.
        destruct (bytes_eqb (name_for_field (GF fname exported json bq ft)) dash); [apply IHr; exact Hfs|].
        destruct (schema_for reg ft) as [sf|]; [|discriminate].
        match type of Hfs with match ?x with _ => _ end = _ => destruct x as [r'|] eqn:R; [|discriminate] end.
        inversion Hfs; subst. cbn [forallb snd]. rewrite (IHr r' eq_refl), andb_true_r.
        specialize (Hf sf eq_refl).
        match goal with |- gs_normal (if ?c then _ else _) = true => destruct c end;
          [apply gs_nullable_normal; exact Hf|exact Hf]. }
    match type of H with
    | option_map _ (?g fields) = _ => destruct (g fields) as [fs|] eqn:E; [|discriminate]
    end.
    inversion H; subst. apply record_normal. apply G. reflexivity.
  - (* named *)
    apply IH. exact H.
Qed.

Theorem schema_for_type_normal reg : reg_normal reg -> forall t s, schema_for_type reg t = Some s -> gs_normal s = true.
Proof.
  intros Hr t s. unfold schema_for_type.
  destruct (underlying match t with TPtr e => e | _ => t end); try discriminate.
  apply schema_for_normal. exact Hr.
Qed.

Lemma sreg_std_normal : reg_normal sreg_std.
Proof.
  intros id s H. unfold sreg_std in H.
  destruct id as [w|n]; [destruct w|]; inversion H; reflexivity.
Qed.
