(* Proofs about the writer side of the container model: the Encoder state
   machine refines the abstract grouping specification (C09) and a failing
   io.Writer leaves a clean prefix (C16). *)
From Coq Require Import List ZArith Lia Bool ZifyBool ZifyNat.
Require Import Avro.Model.Base Avro.Model.Prim Avro.Model.Container Avro.Model.Writer.
Require Import Avro.Proofs.VarintP Avro.Proofs.VarintMore.
Import ListNotations.
Open Scope Z_scope.
Ltac Zify.zify_post_hook ::= Z.div_mod_to_equations.

(* ------------------------------------------------------------------ lists *)

Lemma len_app a c : len (a ++ c) = len a + len c.
Proof. unfold len. rewrite app_length. lia. Qed.

Lemma len_nonneg a : 0 <= len a.
Proof. unfold len. lia. Qed.

Lemma concat_snoc {A} (l : list (list A)) (x : list A) : concat (l ++ [x]) = concat l ++ x.
Proof. rewrite concat_app. cbn [concat]. rewrite app_nil_r. reflexivity. Qed.

(* the same at type [list bytes]: [bytes] is a constant, and rewriting does not
   see through it *)
Lemma concat_snoc_b (l : list bytes) (x : bytes) : concat (l ++ [x]) = concat l ++ x.
Proof. exact (concat_snoc l x). Qed.

Lemma concat_app_b (l1 l2 : list bytes) : concat (l1 ++ l2) = concat l1 ++ concat l2.
Proof. exact (concat_app l1 l2). Qed.

Lemma concat_concat_map {A B} (f : A -> list (list B)) (l : list A) :
  concat (concat (map f l)) = concat (map (fun x => concat (f x)) l).
Proof.
  induction l as [|x l IH]; [reflexivity|].
  cbn [map concat]. rewrite concat_app, IH. reflexivity.
Qed.

Lemma list_eqb_refl {A} (eqb : A -> A -> bool) (l : list A) :
  (forall x, eqb x x = true) -> list_eqb eqb l l = true.
Proof.
  intros Hr. induction l as [|x l IH]; [reflexivity|].
  cbn [list_eqb]. rewrite Hr, IH. reflexivity.
Qed.

Lemma bytes_eqb_refl (l : bytes) : bytes_eqb l l = true.
Proof. apply list_eqb_refl. intros x. apply Z.eqb_refl. Qed.

Lemma snoc_not_nil {A} (l : list A) (x : A) : l ++ [x] <> [].
Proof. destruct l; discriminate. Qed.

(* ------------------------------------------------- C09: the state machine *)

Section WriterP.
  Variable compress : bytes -> bytes.
  Variable sync : bytes.
  Variable size : Z.

  (* the four Write calls of the block holding group g *)
  Definition blk (g : list bytes) : list bytes :=
    block_chunks sync (Z.of_nat (length g)) (compress (concat g)).

  (* the encoder state holds exactly the pending group *)
  Definition holds (st : enc_state) (pending : list bytes) : Prop :=
    e_buf st = concat pending /\ e_count st = Z.of_nat (length pending).

  Lemma holds_init : holds enc_init [].
  Proof. split; reflexivity. Qed.

  Lemma enc_step_encode st pending rec : holds st pending ->
    enc_step compress sync size st (OpEncode rec) =
    if size <=? len (concat (pending ++ [rec]))
    then (enc_init, blk (pending ++ [rec]))
    else ({| e_buf := concat (pending ++ [rec]); e_count := Z.of_nat (length (pending ++ [rec])) |}, []).
  Proof.
    intros [Hb Hc]. unfold enc_step. cbn [e_buf e_count].
    rewrite concat_snoc_b, Hb, Hc.
    assert (Hl : Z.of_nat (length pending) + 1 = Z.of_nat (length (pending ++ [rec]))).
    { rewrite app_length. cbn [length]. lia. }
    rewrite Hl.
    destruct (size <=? len (concat pending ++ rec)); [|reflexivity].
    unfold enc_flush. cbn [e_buf e_count].
    assert (Hp : 0 <? Z.of_nat (length (pending ++ [rec])) = true).
    { rewrite app_length. cbn [length]. lia. }
    rewrite Hp. unfold blk. rewrite concat_snoc_b. reflexivity.
  Qed.

  Lemma enc_step_flush st pending : holds st pending ->
    enc_step compress sync size st OpFlush =
    match pending with
    | [] => (st, [])
    | _ => (enc_init, blk pending)
    end.
  Proof.
    intros [Hb Hc]. unfold enc_step, enc_flush. rewrite Hc, Hb.
    destruct pending as [|r pending]; [reflexivity|].
    assert (Hp : 0 <? Z.of_nat (length (r :: pending)) = true) by (cbn [length]; lia).
    rewrite Hp. reflexivity.
  Qed.

  (* the invariant, generalised over the starting state: chunk for chunk *)
  Lemma enc_run_refines_chunks : forall ops st pending, holds st pending ->
    snd (enc_run compress sync size st ops) = concat (map blk (fst (blocks_spec size pending ops))) /\
    holds (fst (enc_run compress sync size st ops)) (snd (blocks_spec size pending ops)).
  Proof.
    induction ops as [|op ops IH]; intros st pending H.
    - cbn. split; [reflexivity|exact H].
    - cbn [enc_run]. destruct op as [rec|].
      + rewrite (enc_step_encode st pending rec H). cbn [blocks_spec]. cbv zeta.
        destruct (size <=? len (concat (pending ++ [rec]))) eqn:E.
        * specialize (IH enc_init [] holds_init).
          destruct (enc_run compress sync size enc_init ops) as [st2 out2].
          destruct (blocks_spec size [] ops) as [gs rest].
          cbn [fst snd] in *. destruct IH as [IH1 IH2]. split; [|exact IH2].
          cbn [map concat]. rewrite IH1. reflexivity.
        * match goal with |- context [enc_run _ _ _ ?s ops] => specialize (IH s (pending ++ [rec])) end.
          assert (Hh : holds {| e_buf := concat (pending ++ [rec]);
                                e_count := Z.of_nat (length (pending ++ [rec])) |} (pending ++ [rec]))
            by (split; reflexivity).
          specialize (IH Hh).
          destruct (enc_run compress sync size _ ops) as [st2 out2].
          cbn [fst snd app] in *. exact IH.
      + rewrite (enc_step_flush st pending H). cbn [blocks_spec].
        destruct pending as [|r pending].
        * specialize (IH st [] H).
          destruct (enc_run compress sync size st ops) as [st2 out2].
          cbn [fst snd app] in *. exact IH.
        * specialize (IH enc_init [] holds_init).
          destruct (enc_run compress sync size enc_init ops) as [st2 out2].
          destruct (blocks_spec size [] ops) as [gs rest].
          cbn [fst snd] in *. destruct IH as [IH1 IH2]. split; [|exact IH2].
          cbn [map concat]. rewrite IH1. reflexivity.
  Qed.

  (* byte level, any starting state *)
  Lemma enc_run_refines_gen : forall ops st pending, holds st pending ->
    concat (snd (enc_run compress sync size st ops)) =
      concat (map (fun g => block_bytes sync (Z.of_nat (length g)) (compress (concat g)))
                  (fst (blocks_spec size pending ops))) /\
    e_buf (fst (enc_run compress sync size st ops)) = concat (snd (blocks_spec size pending ops)) /\
    e_count (fst (enc_run compress sync size st ops)) = Z.of_nat (length (snd (blocks_spec size pending ops))).
  Proof.
    intros ops st pending H.
    destruct (enc_run_refines_chunks ops st pending H) as [H1 H2].
    split; [|exact H2].
    rewrite H1. exact (concat_concat_map blk _).
  Qed.

  Lemma enc_run_refines : forall ops,
    concat (snd (enc_run compress sync size enc_init ops)) =
      concat (map (fun g => block_bytes sync (Z.of_nat (length g)) (compress (concat g)))
                  (fst (blocks_spec size [] ops))) /\
    e_buf (fst (enc_run compress sync size enc_init ops)) = concat (snd (blocks_spec size [] ops)) /\
    e_count (fst (enc_run compress sync size enc_init ops)) = Z.of_nat (length (snd (blocks_spec size [] ops))).
  Proof. intros ops. exact (enc_run_refines_gen ops enc_init [] holds_init). Qed.

  (* every block is exactly four Write calls: count, length of the stored
     payload, the stored payload, the sync marker *)
  Lemma enc_run_chunks : forall ops,
    snd (enc_run compress sync size enc_init ops) =
    concat (map (fun g => [enc_varint (Z.of_nat (length g));
                           enc_varint (len (compress (concat g)));
                           compress (concat g);
                           sync]) (fst (blocks_spec size [] ops))).
  Proof. intros ops. exact (proj1 (enc_run_refines_chunks ops enc_init [] holds_init)). Qed.

  (* one call: nothing, or exactly one block *)
  Lemma enc_step_output st pending op : holds st pending ->
    snd (enc_step compress sync size st op) = [] \/
    exists g, g <> [] /\ snd (enc_step compress sync size st op) = blk g /\
              fst (enc_step compress sync size st op) = enc_init.
  Proof.
    intros H. destruct op as [rec|].
    - rewrite (enc_step_encode st pending rec H).
      destruct (size <=? len (concat (pending ++ [rec]))); [|left; reflexivity].
      right. exists (pending ++ [rec]). split; [apply snoc_not_nil|split; reflexivity].
    - rewrite (enc_step_flush st pending H). destruct pending as [|r p]; [left; reflexivity|].
      right. exists (r :: p). split; [discriminate|split; reflexivity].
  Qed.

  (* an Encode that does not reach the block size writes nothing; one that
     does writes the block at once *)
  Lemma enc_step_encode_timing st pending rec : holds st pending ->
    (len (concat (pending ++ [rec])) < size ->
       snd (enc_step compress sync size st (OpEncode rec)) = []) /\
    (size <= len (concat (pending ++ [rec])) ->
       enc_step compress sync size st (OpEncode rec) = (enc_init, blk (pending ++ [rec]))).
  Proof.
    intros H. rewrite (enc_step_encode st pending rec H). split; intros Hs.
    - destruct (size <=? len (concat (pending ++ [rec]))) eqn:E; [lia|reflexivity].
    - destruct (size <=? len (concat (pending ++ [rec]))) eqn:E; [reflexivity|lia].
  Qed.

  Lemma enc_run_app : forall a c st,
    enc_run compress sync size st (a ++ c) =
    (fst (enc_run compress sync size (fst (enc_run compress sync size st a)) c),
     snd (enc_run compress sync size st a) ++
     snd (enc_run compress sync size (fst (enc_run compress sync size st a)) c)).
  Proof.
    induction a as [|op a IH]; intros c st.
    - cbn [app enc_run fst snd]. destruct (enc_run compress sync size st c); reflexivity.
    - cbn [app enc_run]. destruct (enc_step compress sync size st op) as [st1 out1].
      rewrite IH. destruct (enc_run compress sync size st1 a) as [st2 out2].
      cbn [fst snd]. rewrite app_assoc. reflexivity.
  Qed.

  (* after Flush returns nothing remains buffered *)
  Lemma flush_leaves_nothing : forall ops,
    e_count (fst (enc_run compress sync size enc_init (ops ++ [OpFlush]))) = 0 /\
    e_buf (fst (enc_run compress sync size enc_init (ops ++ [OpFlush]))) = [].
  Proof.
    intros ops. rewrite enc_run_app. cbn [fst].
    destruct (enc_run_refines_chunks ops enc_init [] holds_init) as [_ H].
    set (st1 := fst (enc_run compress sync size enc_init ops)) in *.
    set (pending := snd (blocks_spec size [] ops)) in *.
    cbn [enc_run]. rewrite (enc_step_flush st1 pending H).
    destruct pending as [|r p].
    - cbn [fst]. destruct H as [Hb Hc]. rewrite Hb, Hc. split; reflexivity.
    - cbn [fst]. split; reflexivity.
  Qed.
End WriterP.

(* ----------------------------------------- C09: the abstract specification *)

Section SpecP.
  Variable size : Z.

  (* nothing lost, duplicated or reordered: closed groups then pending, read
     in order, are the encoded records in call order *)
  Lemma blocks_spec_records : forall ops pending,
    concat (fst (blocks_spec size pending ops)) ++ snd (blocks_spec size pending ops) =
    pending ++ recs_of ops.
  Proof.
    induction ops as [|op ops IH]; intros pending.
    - cbn. rewrite app_nil_r. reflexivity.
    - destruct op as [rec|]; cbn [blocks_spec recs_of]; cbv zeta.
      + destruct (size <=? len (concat (pending ++ [rec]))).
        * specialize (IH []). destruct (blocks_spec size [] ops) as [gs rest].
          cbn [fst snd concat app] in *. rewrite <- !app_assoc. rewrite IH. reflexivity.
        * rewrite IH. rewrite <- app_assoc. reflexivity.
      + destruct pending as [|r p].
        * apply IH.
        * specialize (IH []). destruct (blocks_spec size [] ops) as [gs rest].
          cbn [fst snd concat app] in *. rewrite <- !app_assoc. rewrite IH. reflexivity.
  Qed.

  (* no empty block *)
  Lemma blocks_spec_nonempty : forall ops pending,
    Forall (fun g => g <> []) (fst (blocks_spec size pending ops)).
  Proof.
    induction ops as [|op ops IH]; intros pending.
    - constructor.
    - destruct op as [rec|]; cbn [blocks_spec]; cbv zeta.
      + destruct (size <=? len (concat (pending ++ [rec]))).
        * specialize (IH []). destruct (blocks_spec size [] ops) as [gs rest].
          cbn [fst] in *. constructor; [apply snoc_not_nil|exact IH].
        * apply IH.
      + destruct pending as [|r p].
        * apply IH.
        * specialize (IH []). destruct (blocks_spec size [] ops) as [gs rest].
          cbn [fst] in *. constructor; [discriminate|exact IH].
  Qed.

  (* the tagged specification is the specification *)
  Lemma blocks_tagged_erase : forall ops pending,
    map fst (fst (blocks_tagged size pending ops)) = fst (blocks_spec size pending ops) /\
    snd (blocks_tagged size pending ops) = snd (blocks_spec size pending ops).
  Proof.
    induction ops as [|op ops IH]; intros pending.
    - split; reflexivity.
    - destruct op as [rec|]; cbn [blocks_spec blocks_tagged]; cbv zeta.
      + destruct (size <=? len (concat (pending ++ [rec]))).
        * specialize (IH []). destruct (blocks_tagged size [] ops) as [gs rest].
          destruct (blocks_spec size [] ops) as [gs' rest'].
          cbn [fst snd map] in *. destruct IH as [IH1 IH2]. rewrite IH1, IH2. split; reflexivity.
        * apply IH.
      + destruct pending as [|r p].
        * apply IH.
        * specialize (IH []). destruct (blocks_tagged size [] ops) as [gs rest].
          destruct (blocks_spec size [] ops) as [gs' rest'].
          cbn [fst snd map] in *. destruct IH as [IH1 IH2]. rewrite IH1, IH2. split; reflexivity.
  Qed.

  Lemma below_prefix p q : below size (p ++ q) -> below size p.
  Proof.
    intros [H|H].
    - left. destruct p; [reflexivity|discriminate].
    - destruct p as [|x p]; [left; reflexivity|right].
      rewrite concat_app_b, len_app in H. pose proof (len_nonneg (concat q)). lia.
  Qed.

  (* "as soon as": a group closed by size has reached the size and had not
     before its last record; a group closed by Flush has not reached it *)
  Definition timely (gt : list bytes * closed_by) : Prop :=
    below size (removelast (fst gt)) /\
    match snd gt with
    | BySize => size <= len (concat (fst gt))
    | ByFlush => len (concat (fst gt)) < size
    end.

  Lemma blocks_tagged_timing : forall ops pending, below size pending ->
    Forall timely (fst (blocks_tagged size pending ops)) /\
    below size (snd (blocks_tagged size pending ops)).
  Proof.
    induction ops as [|op ops IH]; intros pending Hb.
    - split; [constructor|exact Hb].
    - destruct op as [rec|]; cbn [blocks_tagged]; cbv zeta.
      + destruct (size <=? len (concat (pending ++ [rec]))) eqn:E.
        * specialize (IH [] (or_introl eq_refl)).
          destruct (blocks_tagged size [] ops) as [gs rest].
          cbn [fst snd] in *. destruct IH as [IH1 IH2]. split; [|exact IH2].
          constructor; [|exact IH1]. split; cbn [fst snd].
          -- rewrite removelast_last. exact Hb.
          -- lia.
        * apply IH. right. lia.
      + destruct pending as [|r p] eqn:Ep.
        * apply IH. exact Hb.
        * specialize (IH [] (or_introl eq_refl)).
          destruct (blocks_tagged size [] ops) as [gs rest].
          cbn [fst snd] in *. destruct IH as [IH1 IH2]. split; [|exact IH2].
          constructor; [|exact IH1]. split; cbn [fst snd].
          -- apply (below_prefix _ [last (r :: p) []]).
             rewrite <- app_removelast_last by discriminate. exact Hb.
          -- destruct Hb as [Hb|Hb]; [discriminate|exact Hb].
  Qed.

  (* the prefix form: no non-empty proper prefix of a closed group had
     reached the block size *)
  Lemma timely_prefixes gt : timely gt ->
    forall p q, fst gt = p ++ q -> p <> [] -> q <> [] -> len (concat p) < size.
  Proof.
    intros [Hb _] p q Hg Hp Hq.
    destruct (exists_last Hq) as [q' [x Hx]]. subst q.
    rewrite Hg, app_assoc, removelast_last in Hb.
    apply below_prefix in Hb. destruct Hb as [Hb|Hb]; [contradiction|exact Hb].
  Qed.

  Lemma as_soon_as : forall ops g why,
    In (g, why) (fst (blocks_tagged size [] ops)) ->
    match why with
    | BySize => size <= len (concat g)
    | ByFlush => len (concat g) < size
    end /\
    (forall p q, g = p ++ q -> p <> [] -> q <> [] -> len (concat p) < size).
  Proof.
    intros ops g why Hin.
    destruct (blocks_tagged_timing ops [] (or_introl eq_refl)) as [HF _].
    rewrite Forall_forall in HF. specialize (HF _ Hin).
    split; [exact (proj2 HF)|exact (timely_prefixes (g, why) HF)].
  Qed.

  Lemma pending_below_size : forall ops,
    snd (blocks_spec size [] ops) = [] \/ len (concat (snd (blocks_spec size [] ops))) < size.
  Proof.
    intros ops. destruct (blocks_tagged_timing ops [] (or_introl eq_refl)) as [_ H].
    rewrite (proj2 (blocks_tagged_erase ops [])) in H. exact H.
  Qed.

  Lemma blocks_spec_app_flush : forall ops,
    snd (blocks_spec size [] (ops ++ [OpFlush])) = [].
  Proof.
    assert (G : forall ops pending, snd (blocks_spec size pending (ops ++ [OpFlush])) = []).
    { induction ops as [|op ops IH]; intros pending.
      - cbn [app blocks_spec]. destruct pending; reflexivity.
      - destruct op as [rec|]; cbn [app blocks_spec]; cbv zeta.
        + destruct (size <=? len (concat (pending ++ [rec]))).
          * specialize (IH []). destruct (blocks_spec size [] (ops ++ [OpFlush])). exact IH.
          * apply IH.
        + destruct pending as [|r p].
          * apply IH.
          * specialize (IH []). destruct (blocks_spec size [] (ops ++ [OpFlush])). exact IH. }
    intros ops. apply G.
  Qed.

  (* when Flush returns, the blocks written so far hold every record encoded so far *)
  Lemma flush_complete : forall ops,
    concat (fst (blocks_spec size [] (ops ++ [OpFlush]))) = recs_of ops.
  Proof.
    intros ops. pose proof (blocks_spec_records (ops ++ [OpFlush]) []) as H.
    rewrite blocks_spec_app_flush, app_nil_r in H. cbn [app] in H. rewrite H.
    clear H. induction ops as [|op ops IH]; [reflexivity|].
    destruct op; cbn [app recs_of]; rewrite IH; reflexivity.
  Qed.
End SpecP.

(* ------------------------------------------------- C09: decodable framing *)

Lemma read_full_app (a r : bytes) : read_full (len a) (a ++ r) = Some (a, r).
Proof.
  unfold read_full.
  assert (H : (len a <? 0) || (len (a ++ r) <? len a) = false).
  { rewrite len_app. pose proof (len_nonneg a). pose proof (len_nonneg r). lia. }
  rewrite H. unfold len. rewrite Nat2Z.id.
  rewrite firstn_app, Nat.sub_diag, firstn_all. cbn [firstn]. rewrite app_nil_r.
  rewrite skipn_app, Nat.sub_diag, skipn_all. reflexivity.
Qed.

Lemma enc_varint_nonempty v : int64_ok v -> enc_varint v <> [].
Proof.
  intros H E. pose proof (enc_varint_length v H) as L. rewrite E in L. cbn in L. lia.
Qed.

Lemma parse_blocks_fuel_cons f sync bs : bs <> [] ->
  parse_blocks_fuel (S f) sync bs =
  match dec_varint bs with
  | VOk (cnt, r) =>
    match dec_varint r with
    | VOk (l, r1) =>
      match read_full l r1 with
      | Some (payload, r2) =>
        match read_full 16 r2 with
        | Some (sy, r3) =>
          if bytes_eqb sy sync
          then match parse_blocks_fuel f sync r3 with
               | Some t => Some ((cnt, payload) :: t)
               | None => None
               end
          else None
        | None => None
        end
      | None => None
      end
    | _ => None
    end
  | _ => None
  end.
Proof. destruct bs; [congruence|reflexivity]. Qed.

Definition block_ok (cp : Z * bytes) : Prop := int64_ok (fst cp) /\ int64_ok (len (snd cp)).

Definition blocks_bytes (sync : bytes) (blocks : list (Z * bytes)) : bytes :=
  concat (map (fun cp => block_bytes sync (fst cp) (snd cp)) blocks).

Lemma block_bytes_unfold sync c p rest :
  block_bytes sync c p ++ rest = enc_varint c ++ enc_varint (len p) ++ p ++ sync ++ rest.
Proof.
  unfold block_bytes, block_chunks. cbn [concat]. rewrite app_nil_r, <- !app_assoc. reflexivity.
Qed.

Lemma parse_block_step f sync c p rest :
  length sync = 16%nat -> int64_ok c -> int64_ok (len p) ->
  parse_blocks_fuel (S f) sync (block_bytes sync c p ++ rest) =
  match parse_blocks_fuel f sync rest with
  | Some t => Some ((c, p) :: t)
  | None => None
  end.
Proof.
  intros Hs Hc Hp.
  rewrite parse_blocks_fuel_cons.
  - rewrite block_bytes_unfold.
    rewrite (dec_enc_varint c _ Hc), (dec_enc_varint (len p) _ Hp).
    rewrite read_full_app.
    assert (H16 : 16 = len sync) by (unfold len; lia).
    rewrite H16, read_full_app, bytes_eqb_refl. reflexivity.
  - rewrite block_bytes_unfold. intros E. apply app_eq_nil in E. destruct E as [E _].
    exact (enc_varint_nonempty c Hc E).
Qed.

Lemma parse_blocks_fuel_inv sync : length sync = 16%nat ->
  forall blocks fuel, Forall block_ok blocks -> (length blocks <= fuel)%nat ->
  parse_blocks_fuel fuel sync (blocks_bytes sync blocks) = Some blocks.
Proof.
  intros Hs. induction blocks as [|[c p] blocks IH]; intros fuel Hok Hf.
  - destruct fuel; reflexivity.
  - inversion Hok as [|x l [Hc Hp] Hrest]; subst. cbn [fst snd] in *.
    destruct fuel as [|f]; [cbn [length] in Hf; lia|].
    unfold blocks_bytes. cbn [map concat fst snd].
    rewrite (parse_block_step f sync c p _ Hs Hc Hp).
    fold (blocks_bytes sync blocks). rewrite IH; [reflexivity|exact Hrest|cbn [length] in Hf; lia].
Qed.

Lemma blocks_bytes_length sync blocks : Forall block_ok blocks ->
  (length blocks <= length (blocks_bytes sync blocks))%nat.
Proof.
  induction blocks as [|[c p] blocks IH]; intros Hok; [cbn; lia|].
  inversion Hok as [|x l [Hc Hp] Hrest]; subst. cbn [fst snd] in *.
  unfold blocks_bytes. cbn [map concat fst snd]. fold (blocks_bytes sync blocks).
  rewrite block_bytes_unfold, !app_length.
  pose proof (enc_varint_length c Hc). specialize (IH Hrest). cbn [length]. lia.
Qed.

(* the reader recovers exactly the (count, stored payload) sequence *)
Lemma parse_blocks_inv sync blocks : length sync = 16%nat -> Forall block_ok blocks ->
  parse_blocks sync (blocks_bytes sync blocks) = Some blocks.
Proof.
  intros Hs Hok. unfold parse_blocks.
  apply parse_blocks_fuel_inv; [exact Hs|exact Hok|apply blocks_bytes_length; exact Hok].
Qed.

(* hence the framing is unambiguous *)
Lemma blocks_bytes_inj sync b1 b2 : length sync = 16%nat ->
  Forall block_ok b1 -> Forall block_ok b2 ->
  blocks_bytes sync b1 = blocks_bytes sync b2 -> b1 = b2.
Proof.
  intros Hs H1 H2 E.
  pose proof (parse_blocks_inv sync b1 Hs H1) as P1.
  pose proof (parse_blocks_inv sync b2 Hs H2) as P2.
  rewrite E in P1. congruence.
Qed.

(* the encoder's output parses back to the groups of the specification *)
Definition group_block (compress : bytes -> bytes) (g : list bytes) : Z * bytes :=
  (Z.of_nat (length g), compress (concat g)).

Lemma enc_run_parses compress sync size ops :
  length sync = 16%nat ->
  Forall (fun g : list bytes => Z.of_nat (length g) < two63 /\ len (compress (concat g)) < two63)
         (fst (blocks_spec size [] ops)) ->
  parse_blocks sync (concat (snd (enc_run compress sync size enc_init ops))) =
  Some (map (group_block compress) (fst (blocks_spec size [] ops))).
Proof.
  intros Hs Hr.
  destruct (enc_run_refines compress sync size ops) as [H _]. rewrite H.
  set (gs := fst (blocks_spec size [] ops)) in *.
  assert (E : concat (map (fun g => block_bytes sync (Z.of_nat (length g)) (compress (concat g))) gs)
              = blocks_bytes sync (map (group_block compress) gs)).
  { unfold blocks_bytes. rewrite map_map. reflexivity. }
  rewrite E. apply parse_blocks_inv; [exact Hs|].
  rewrite Forall_map. eapply Forall_impl; [|exact Hr].
  intros g [Hg1 Hg2]. unfold block_ok, group_block, int64_ok. cbn [fst snd].
  pose proof (len_nonneg (compress (concat g))). unfold two63 in *. lia.
Qed.

(* --------------------------------------------------- C16: failing writer *)

Lemma feed_app : forall a c k p,
  feed (a ++ c) k p =
  match feed a k p with
  | (acc, None) => (acc, None)
  | (acc, Some k') => let (acc2, r) := feed c k' p in (acc ++ acc2, r)
  end.
Proof.
  induction a as [|x a IH]; intros c k p.
  - cbn [app feed]. destruct (feed c k p); reflexivity.
  - cbn [app feed]. destruct k as [|k]; [reflexivity|].
    rewrite IH. destruct (feed a k p) as [acc [k'|]].
    + destruct (feed c k' p) as [acc2 r]. rewrite app_assoc. reflexivity.
    + reflexivity.
Qed.

(* what the writer holds and whether a Write failed, in closed form *)
Lemma feed_spec : forall chunks k p,
  feed chunks k p =
  if (k <? length chunks)%nat
  then (concat (firstn k chunks) ++ firstn p (nth k chunks []), None)
  else (concat chunks, Some (k - length chunks)%nat).
Proof.
  induction chunks as [|c cs IH]; intros k p.
  - cbn [feed length]. destruct k; cbn; reflexivity.
  - cbn [feed]. destruct k as [|k].
    + cbn. reflexivity.
    + rewrite IH. cbn [length]. change (S k <? S (length cs))%nat with (k <? length cs)%nat.
      destruct (k <? length cs)%nat.
      * cbn [firstn concat nth]. rewrite app_assoc. reflexivity.
      * cbn [concat Nat.sub]. reflexivity.
Qed.

Lemma feed_prefix : forall chunks k p, exists tail, concat chunks = fst (feed chunks k p) ++ tail.
Proof.
  induction chunks as [|c cs IH]; intros k p.
  - exists []. reflexivity.
  - cbn [feed]. destruct k as [|k].
    + exists (skipn p c ++ concat cs). cbn [fst concat].
      rewrite app_assoc, firstn_skipn. reflexivity.
    + destruct (IH k p) as [tail Ht]. destruct (feed cs k p) as [acc left].
      cbn [fst concat] in *. exists tail. rewrite Ht, app_assoc. reflexivity.
Qed.

Definition fault_result (r : bytes * option nat) : bytes * bool :=
  (fst r, match snd r with None => true | Some _ => false end).

Section FaultP.
  Variable compress : bytes -> bytes.
  Variable sync : bytes.
  Variable size : Z.

  (* the fault run is the fault-free chunk sequence fed to the failing writer *)
  Lemma enc_run_fault_feed : forall ops st k p,
    enc_run_fault compress sync size st ops k p =
    fault_result (feed (snd (enc_run compress sync size st ops)) k p).
  Proof.
    induction ops as [|op ops IH]; intros st k p.
    - cbn. reflexivity.
    - cbn [enc_run_fault enc_run].
      destruct (enc_step compress sync size st op) as [st1 out1].
      specialize (IH st1).
      destruct (enc_run compress sync size st1 ops) as [st2 out2]. cbn [snd] in *.
      rewrite feed_app. destruct (feed out1 k p) as [acc [k'|]].
      + rewrite IH. destruct (feed out2 k' p) as [acc2 r]. reflexivity.
      + reflexivity.
  Qed.

  Lemma enc_run_fault_prefix : forall ops st k p,
    exists tail, concat (snd (enc_run compress sync size st ops)) =
                 fst (enc_run_fault compress sync size st ops k p) ++ tail.
  Proof.
    intros ops st k p. rewrite enc_run_fault_feed. unfold fault_result. cbn [fst].
    apply feed_prefix.
  Qed.

  Lemma enc_run_fault_exact : forall ops st k p,
    enc_run_fault compress sync size st ops k p =
    let chunks := snd (enc_run compress sync size st ops) in
    if (k <? length chunks)%nat
    then (concat (firstn k chunks) ++ firstn p (nth k chunks []), true)
    else (concat chunks, false).
  Proof.
    intros ops st k p. rewrite enc_run_fault_feed, feed_spec. cbv zeta.
    destruct (k <? length (snd (enc_run compress sync size st ops)))%nat; reflexivity.
  Qed.

  Lemma enc_run_fault_reported : forall ops st k p,
    (snd (enc_run_fault compress sync size st ops k p) = true <->
     (k < length (snd (enc_run compress sync size st ops)))%nat) /\
    (snd (enc_run_fault compress sync size st ops k p) = false ->
     fst (enc_run_fault compress sync size st ops k p) =
     concat (snd (enc_run compress sync size st ops))).
  Proof.
    intros ops st k p. rewrite enc_run_fault_exact. cbv zeta.
    destruct (Nat.ltb_spec k (length (snd (enc_run compress sync size st ops)))) as [H|H];
      cbn [fst snd].
    - split; [split; intros _; [exact H|reflexivity]|intros D; discriminate D].
    - split; [split; intros D; [discriminate D|lia]|intros _; reflexivity].
  Qed.

  (* whole file: header write is index 0 *)
  Variable schema_json codec_name : bytes.

  Lemma file_run_fault_feed : forall ops k p,
    file_run_fault compress schema_json codec_name sync size ops k p =
    fault_result (feed (file_chunks compress schema_json codec_name sync size ops) k p).
  Proof.
    intros ops k p. unfold file_run_fault, file_chunks.
    change (header_bytes schema_json codec_name sync :: snd (enc_run compress sync size enc_init ops))
      with ([header_bytes schema_json codec_name sync] ++ snd (enc_run compress sync size enc_init ops)).
    rewrite feed_app.
    destruct (feed [header_bytes schema_json codec_name sync] k p) as [acc [k'|]].
    - rewrite enc_run_fault_feed.
      destruct (feed (snd (enc_run compress sync size enc_init ops)) k' p) as [acc2 r]. reflexivity.
    - reflexivity.
  Qed.

  Lemma file_run_fault_prefix : forall ops k p,
    exists tail, concat (file_chunks compress schema_json codec_name sync size ops) =
                 fst (file_run_fault compress schema_json codec_name sync size ops k p) ++ tail.
  Proof.
    intros ops k p. rewrite file_run_fault_feed. unfold fault_result. cbn [fst].
    apply feed_prefix.
  Qed.

  Lemma file_run_fault_exact : forall ops k p,
    file_run_fault compress schema_json codec_name sync size ops k p =
    let chunks := file_chunks compress schema_json codec_name sync size ops in
    if (k <? length chunks)%nat
    then (concat (firstn k chunks) ++ firstn p (nth k chunks []), true)
    else (concat chunks, false).
  Proof.
    intros ops k p. rewrite file_run_fault_feed, feed_spec. cbv zeta.
    destruct (k <? length (file_chunks compress schema_json codec_name sync size ops))%nat; reflexivity.
  Qed.

  Lemma file_run_fault_reported : forall ops k p,
    (snd (file_run_fault compress schema_json codec_name sync size ops k p) = true <->
     (k < length (file_chunks compress schema_json codec_name sync size ops))%nat) /\
    (snd (file_run_fault compress schema_json codec_name sync size ops k p) = false ->
     fst (file_run_fault compress schema_json codec_name sync size ops k p) =
     concat (file_chunks compress schema_json codec_name sync size ops)).
  Proof.
    intros ops k p. rewrite file_run_fault_exact. cbv zeta.
    destruct (Nat.ltb_spec k (length (file_chunks compress schema_json codec_name sync size ops))) as [H|H];
      cbn [fst snd].
    - split; [split; intros _; [exact H|reflexivity]|intros D; discriminate D].
    - split; [split; intros D; [discriminate D|lia]|intros _; reflexivity].
  Qed.

  (* a failing header write: NewEncoderFor reports it, only a prefix of the header is held *)
  Lemma file_run_fault_header : forall ops p,
    file_run_fault compress schema_json codec_name sync size ops 0 p =
    (firstn p (header_bytes schema_json codec_name sync), true).
  Proof. intros ops p. reflexivity. Qed.
End FaultP.
