(* S: the reference decoder accepts every encoding the specification allows a
   writer to produce — any cut of arrays and maps into blocks, with or without
   byte sizes — and returns the datum that was encoded. *)
From Coq Require Import List ZArith Lia Bool ZifyBool ZifyNat.
Require Import Avro.Model.Base Avro.Model.Prim Avro.Model.Schema Avro.Model.Blocks Avro.Model.Spec.
Require Import Avro.Proofs.ListFacts Avro.Proofs.VarintP Avro.Proofs.VarintMore Avro.Proofs.PrimP
               Avro.Proofs.BlocksP Avro.Proofs.CodecInd Avro.Proofs.CodecEq.
Import ListNotations.
Open Scope Z_scope.

Lemma bytes_eqb_refl a : bytes_eqb a a = true.
Proof. induction a as [|x a IH]; [reflexivity|]. cbn. rewrite Z.eqb_refl, IH. reflexivity. Qed.

Lemma rd_varint_canon_enc v rest : int64_ok v -> rd_varint_canon (enc_varint v ++ rest) = Done v rest.
Proof.
  intros Hv. unfold rd_varint_canon. rewrite rd_varint_enc by exact Hv. cbn [obind].
  rewrite app_length. replace (length (enc_varint v) + length rest - length rest)%nat with (length (enc_varint v)) by lia.
  rewrite firstn_len_app, bytes_eqb_refl. reflexivity.
Qed.

Lemma sd_len_prefixed_enc v rest : len v < two63 -> sd_len_prefixed (enc_varint (len v) ++ v ++ rest) = Done v rest.
Proof.
  intros H. unfold sd_len_prefixed. rewrite rd_varint_canon_enc by (apply len_int64; exact H). cbn [obind].
  replace (len v <? 0) with false by (unfold len; lia). apply rd_next_app.
Qed.

Lemma nat_int64 n : Z.of_nat n < two63 -> int64_ok (Z.of_nat n).
Proof. unfold int64_ok, two63. lia. Qed.

(* one-step unfoldings of the block loop *)
Lemma items_S {A} strict (item : A -> bytes -> out A) f n e acc bs :
  items strict item (S f) n e acc bs =
  if n <=? 0 then
    match e with
    | Some e' => if len bs =? e' then blocks strict item f acc bs else Err
    | None => blocks strict item f acc bs
    end
  else obind (item acc bs) (fun acc' r => items strict item f (n - 1) e acc' r).
Proof. reflexivity. Qed.

(* ---- items of one block ---- *)
Section BlockEnc.
  Context {X : Type} (f : bytes -> out X).
  (* es: item encodings, xs: the items; each encoding decodes to its item, whatever follows *)
  Definition dec_all (es : list bytes) (xs : list X) : Prop :=
    Forall2 (fun e x => forall tail, f (e ++ tail) = Done x tail) es xs.

  Lemma items_run : forall es xs k e acc tail,
    dec_all es xs ->
    items true (app_item f) (length es + k) (Z.of_nat (length es)) e acc (concat es ++ tail)
    = items true (app_item f) k 0 e (acc ++ xs) tail.
  Proof.
    induction es as [|e0 es IH]; intros xs k e acc tail H; inversion H as [|? x ? xs' He Hes]; subst.
    - cbn [length concat app Nat.add]. rewrite app_nil_r. reflexivity.
    - cbn [length concat Nat.add]. cbn [items].
      replace (Z.of_nat (S (length es)) <=? 0) with false by lia.
      unfold app_item at 1. rewrite <- app_assoc, He. cbn [obind].
      replace (Z.of_nat (S (length es)) - 1) with (Z.of_nat (length es)) by lia.
      rewrite (IH xs' k e (acc ++ [x]) tail Hes). rewrite <- app_assoc. reflexivity.
  Qed.

  Lemma dec_all_firstn k es xs : dec_all es xs -> dec_all (firstn k es) (firstn k xs).
  Proof.
    intros H. revert k. induction H as [|e x es xs He Hes IH]; intros k.
    - destruct k; constructor.
    - destruct k; cbn [firstn]; [constructor|constructor; [exact He|apply IH]].
  Qed.
  Lemma dec_all_skipn k es xs : dec_all es xs -> dec_all (skipn k es) (skipn k xs).
  Proof.
    intros H. revert k. induction H as [|e x es xs He Hes IH]; intros k.
    - destruct k; constructor.
    - destruct k; cbn [skipn]; [constructor; [exact He|exact Hes]|apply IH].
  Qed.
  Lemma dec_all_length es xs : dec_all es xs -> length es = length xs.
  Proof. induction 1; cbn; congruence. Qed.

  Lemma len_concat_firstn k (es : list bytes) : len (concat (firstn k es)) <= len (concat es).
  Proof.
    revert k. induction es as [|e es IH]; intros k.
    - destruct k; cbn [firstn concat]; lia.
    - destruct k; cbn [firstn concat]; unfold len in *; rewrite ?app_length; cbn [length]; [lia|].
      specialize (IH k). lia.
  Qed.

  Lemma asm_blocks_dec : forall cuts es xs fuel acc rest,
    dec_all es xs ->
    Z.of_nat (length es) < two63 -> len (concat es) < two63 ->
    (3 * length es + 1 <= fuel)%nat ->
    blocks true (app_item f) fuel acc (asm_blocks cuts es ++ rest) = Done (acc ++ xs) rest.
  Proof.
    induction cuts as [|[n sized] cuts IH]; intros es xs fuel acc rest Hd Hn Hsz Hfuel.
    - destruct es as [|e0 es'].
      + inversion Hd; subst. cbn [asm_blocks app]. destruct fuel as [|fu]; [lia|]. cbn [blocks]. unfold rdv.
        change (0 :: rest) with (enc_varint 0 ++ rest). rewrite rd_varint_canon_enc by (unfold int64_ok, two63; lia).
        cbn [obind Z.eqb]. rewrite app_nil_r. reflexivity.
      + remember (e0 :: es') as es. assert (Hne : (0 < length es)%nat) by (subst es; cbn; lia).
        assert (Hasm : asm_blocks [] es = enc_varint (Z.of_nat (length es)) ++ concat es ++ [0]) by (subst es; reflexivity).
        rewrite Hasm. rewrite <- !app_assoc.
        destruct fuel as [|fu]; [lia|]. cbn [blocks]. unfold rdv at 1.
        rewrite rd_varint_canon_enc by (apply nat_int64; exact Hn). cbn [obind].
        replace (Z.of_nat (length es) =? 0) with false by lia. replace (Z.of_nat (length es) <? 0) with false by lia.
        replace fu with (length es + (fu - length es))%nat by lia.
        rewrite (items_run es xs _ None acc _ Hd).
        remember (fu - length es)%nat as k. destruct k as [|k]; [lia|]. rewrite items_S.
        change (0 <=? 0) with true. cbv iota.
        destruct k as [|k]; [lia|]. cbn [blocks app]. unfold rdv.
        change (0 :: rest) with (enc_varint 0 ++ rest). rewrite rd_varint_canon_enc by (unfold int64_ok, two63; lia).
        reflexivity.
    - destruct es as [|e0 es'].
      + inversion Hd; subst. cbn [asm_blocks app]. destruct fuel as [|fu]; [lia|]. cbn [blocks]. unfold rdv.
        change (0 :: rest) with (enc_varint 0 ++ rest). rewrite rd_varint_canon_enc by (unfold int64_ok, two63; lia).
        cbn [obind Z.eqb]. rewrite app_nil_r. reflexivity.
      + remember (e0 :: es') as es. assert (Hne : (0 < length es)%nat) by (subst es; cbn; lia).
        set (k := S (Nat.min n (length es - 1))).
        assert (Hk : (1 <= k <= length es)%nat) by (unfold k; lia).
        assert (Hasm : asm_blocks ((n, sized) :: cuts) es =
                       (if sized then enc_varint (- Z.of_nat k) ++ enc_varint (len (concat (firstn k es)))
                        else enc_varint (Z.of_nat k)) ++ concat (firstn k es) ++ asm_blocks cuts (skipn k es))
          by (subst es; reflexivity).
        rewrite Hasm. clear Hasm.
        pose proof (dec_all_firstn k _ _ Hd) as Hd1. pose proof (dec_all_skipn k _ _ Hd) as Hd2.
        assert (Hl1 : length (firstn k es) = k) by (rewrite firstn_length; lia).
        assert (Hl2 : length (skipn k es) = (length es - k)%nat) by (apply skipn_length).
        pose proof (len_concat_firstn k es) as Hb1.
        assert (Hb2 : len (concat (skipn k es)) <= len (concat es)).
        { rewrite <- (firstn_skipn k es) at 2. rewrite concat_app. unfold len. rewrite app_length. lia. }
        assert (Hxs : xs = firstn k xs ++ skipn k xs) by (symmetry; apply firstn_skipn).
        destruct fuel as [|fu]; [lia|]. cbn [blocks].
        destruct sized.
        * rewrite <- !app_assoc. unfold rdv at 1.
          rewrite rd_varint_canon_enc by (unfold int64_ok, two63 in *; lia). cbn [obind].
          replace (- Z.of_nat k =? 0) with false by lia. replace (- Z.of_nat k <? 0) with true by lia.
          unfold rdv at 1. rewrite rd_varint_canon_enc by (apply len_int64; lia). cbn [obind].
          set (r' := concat (firstn k es) ++ asm_blocks cuts (skipn k es) ++ rest).
          assert (Hr' : len r' = len (concat (firstn k es)) + len (asm_blocks cuts (skipn k es) ++ rest)).
          { unfold r', len. rewrite app_length. lia. }
          replace ((- Z.of_nat k =? - two63) || (len (concat (firstn k es)) <? 0) || (len r' <? len (concat (firstn k es)))) with false
            by (unfold two63 in *; unfold len in *; lia).
          replace (- - Z.of_nat k) with (Z.of_nat (length (firstn k es))) by lia.
          replace fu with (length (firstn k es) + (fu - k))%nat by lia.
          unfold r' in *. rewrite (items_run (firstn k es) (firstn k xs) _ _ acc _ Hd1).
          remember (fu - k)%nat as j. destruct j as [|j]; [lia|]. rewrite items_S.
          change (0 <=? 0) with true. cbv iota.
          match goal with |- context [if ?a =? ?b0 then _ else Err] => replace (a =? b0) with true by lia end.
          rewrite (IH (skipn k es) (skipn k xs) j (acc ++ firstn k xs) rest Hd2); try lia.
          rewrite <- app_assoc, <- Hxs. reflexivity.
        * rewrite <- !app_assoc. unfold rdv at 1.
          rewrite rd_varint_canon_enc by (apply nat_int64; lia). cbn [obind].
          replace (Z.of_nat k =? 0) with false by lia. replace (Z.of_nat k <? 0) with false by lia.
          replace (Z.of_nat k) with (Z.of_nat (length (firstn k es))) by lia.
          replace fu with (length (firstn k es) + (fu - k))%nat by lia.
          rewrite (items_run (firstn k es) (firstn k xs) _ None acc _ Hd1).
          remember (fu - k)%nat as j. destruct j as [|j]; [lia|]. rewrite items_S.
          change (0 <=? 0) with true. cbv iota.
          rewrite (IH (skipn k es) (skipn k xs) j (acc ++ firstn k xs) rest Hd2); try lia.
          rewrite <- app_assoc, <- Hxs. reflexivity.
  Qed.
End BlockEnc.

(* ---- named loops of spec_encode ---- *)
Fixpoint enc_fields (cs : list choice) (l : list (ident * schema)) (ds : list datum) {struct ds} : bytes :=
  match l, ds with
  | (_, fs) :: l', d :: ds' => spec_encode (hd ChLeaf cs) fs d ++ enc_fields (tl cs) l' ds'
  | _, _ => []
  end.
Definition enc_items (it : schema) : list choice -> list datum -> list bytes :=
  fix go (cs : list choice) (ds : list datum) {struct ds} : list bytes :=
    match ds with [] => [] | d :: ds' => spec_encode (hd ChLeaf cs) it d :: go (tl cs) ds' end.
Definition enc_kvs (vs : schema) : list choice -> list (bytes * datum) -> list bytes :=
  fix go (cs : list choice) (kvs : list (bytes * datum)) {struct kvs} : list bytes :=
    match kvs with
    | [] => []
    | (k, d) :: r => (enc_varint (len k) ++ k ++ spec_encode (hd ChLeaf cs) vs d) :: go (tl cs) r
    end.

Lemma spec_encode_record ch fields ds :
  spec_encode ch (SRecord fields) (DRecord ds) = enc_fields (ch_fields ch) fields ds.
Proof. reflexivity. Qed.
Lemma spec_encode_array ch it ds :
  spec_encode ch (SArray it) (DArray ds) = asm_blocks (ch_cuts ch) (enc_items it (ch_items ch) ds).
Proof. reflexivity. Qed.
Lemma spec_encode_map ch vs kvs :
  spec_encode ch (SMap vs) (DMap kvs) = asm_blocks (ch_cuts ch) (enc_kvs vs (ch_items ch) kvs).
Proof. reflexivity. Qed.

Fixpoint typed_fields (l : list (ident * schema)) (ds : list datum) {struct ds} : bool :=
  match l, ds with
  | [], [] => true
  | (_, fs) :: l', d :: ds' => typed fs d && typed_fields l' ds'
  | _, _ => false
  end.
Lemma typed_record fields ds : typed (SRecord fields) (DRecord ds) = typed_fields fields ds.
Proof. reflexivity. Qed.
Lemma typed_array it ds : typed (SArray it) (DArray ds) = forallb (typed it) ds.
Proof. cbn [typed]. induction ds as [|d ds IH]; [reflexivity|]. cbn [forallb]. rewrite <- IH. reflexivity. Qed.
Definition typed_kv (vs : schema) (kd : bytes * datum) : bool :=
  forallb (fun x => (0 <=? x) && (x <? 256)) (fst kd) && (len (fst kd) <? two63) && typed vs (snd kd).
Lemma typed_map vs kvs : typed (SMap vs) (DMap kvs) = forallb (typed_kv vs) kvs.
Proof.
  cbn [typed]. induction kvs as [|[k d] kvs IH]; [reflexivity|]. cbn [forallb]. rewrite <- IH.
  unfold typed_kv. cbn [fst snd]. reflexivity.
Qed.

(* largest collection anywhere inside a datum: bounds the fuel the block loops need *)
Fixpoint dmax (d : datum) {struct d} : nat :=
  match d with
  | DRecord ds => (fix go (l : list datum) {struct l} : nat := match l with [] => O | x :: r => Nat.max (dmax x) (go r) end) ds
  | DArray ds => Nat.max (length ds)
                   ((fix go (l : list datum) {struct l} : nat := match l with [] => O | x :: r => Nat.max (dmax x) (go r) end) ds)
  | DMap kvs => Nat.max (length kvs)
                   ((fix go (l : list (bytes * datum)) {struct l} : nat :=
                       match l with [] => O | (_, x) :: r => Nat.max (dmax x) (go r) end) kvs)
  | DUnion _ x => dmax x
  | _ => O
  end.
Fixpoint dmax_list (l : list datum) {struct l} : nat := match l with [] => O | x :: r => Nat.max (dmax x) (dmax_list r) end.
Fixpoint dmax_kvs (l : list (bytes * datum)) {struct l} : nat := match l with [] => O | (_, x) :: r => Nat.max (dmax x) (dmax_kvs r) end.
Lemma dmax_record ds : dmax (DRecord ds) = dmax_list ds. Proof. reflexivity. Qed.
Lemma dmax_array ds : dmax (DArray ds) = Nat.max (length ds) (dmax_list ds). Proof. reflexivity. Qed.
Lemma dmax_map kvs : dmax (DMap kvs) = Nat.max (length kvs) (dmax_kvs kvs). Proof. reflexivity. Qed.

Lemma len_concat_le_asm : forall cuts (es : list bytes), len (concat es) <= len (asm_blocks cuts es).
Proof.
  induction cuts as [|[n sized] cuts IH]; intros es.
  - destruct es as [|e es]; [cbn; unfold len; cbn; lia|].
    change (asm_blocks [] (e :: es)) with (enc_varint (Z.of_nat (length (e :: es))) ++ concat (e :: es) ++ [0]).
    unfold len. rewrite !app_length. lia.
  - destruct es as [|e0 es']; [cbn; unfold len; cbn; lia|].
    remember (e0 :: es') as es. set (k := S (Nat.min n (length es - 1))).
    assert (Hasm : asm_blocks ((n, sized) :: cuts) es =
                   (if sized then enc_varint (- Z.of_nat k) ++ enc_varint (len (concat (firstn k es)))
                    else enc_varint (Z.of_nat k)) ++ concat (firstn k es) ++ asm_blocks cuts (skipn k es))
      by (subst es; reflexivity).
    rewrite Hasm. specialize (IH (skipn k es)).
    rewrite <- (firstn_skipn k es) at 1. rewrite concat_app. unfold len in *. rewrite !app_length. lia.
Qed.

Lemma len_item_le_concat (e : bytes) es : In e es -> len e <= len (concat es).
Proof.
  induction es as [|x es IH]; intros H; [contradiction|]. cbn [concat]. unfold len in *. rewrite app_length.
  destruct H as [-> | H]; [lia|]. specialize (IH H). lia.
Qed.

Lemma sd_pick_nth fuel idx r brs i x : nth_error brs i = Some x ->
  sd_pick fuel idx r brs i = obind (sd fuel x r) (fun d r' => Done (DUnion idx d) r').
Proof.
  revert i. induction brs as [|y l IH]; intros i H; [destruct i; discriminate|].
  destruct i; cbn in H |- *; [injection H as ->; reflexivity|apply IH; exact H].
Qed.

Lemma enc_items_length it ds : forall cs, length (enc_items it cs ds) = length ds.
Proof.
  induction ds as [|d ds IH]; intros cs; [reflexivity|].
  change (enc_items it cs (d :: ds)) with (spec_encode (hd ChLeaf cs) it d :: enc_items it (tl cs) ds).
  cbn [length]. rewrite IH. reflexivity.
Qed.
Lemma enc_kvs_length vs kvs : forall cs, length (enc_kvs vs cs kvs) = length kvs.
Proof.
  induction kvs as [|[k d] kvs IH]; intros cs; [reflexivity|].
  change (enc_kvs vs cs ((k, d) :: kvs)) with ((enc_varint (len k) ++ k ++ spec_encode (hd ChLeaf cs) vs d) :: enc_kvs vs (tl cs) kvs).
  cbn [length]. rewrite IH. reflexivity.
Qed.

Definition enc_good (fuel : nat) (s : schema) (d : datum) (e : bytes) : Prop :=
  forall rest, sd fuel s (e ++ rest) = Done d rest.

Theorem sd_spec_encode : forall s d ch fuel,
  typed s d = true -> (3 * dmax d + 1 <= fuel)%nat ->
  len (spec_encode ch s d) < two63 -> Z.of_nat (dmax d) < two63 ->
  enc_good fuel s d (spec_encode ch s d).
Proof.
  induction s using schema_ind'; intros dd ch fuel Ht Hfuel Hlen Hmax rest; destruct dd; try discriminate Ht.
  - reflexivity.
  - destruct v; reflexivity.
  - cbn [typed] in Ht. cbn [spec_encode sd]. unfold int_fits in Ht. change (2 ^ (32 - 1)) with 2147483648 in Ht.
    rewrite rd_varint_canon_enc by (unfold int64_ok, two63; lia). cbn [obind]. unfold int_fits. change (2 ^ (32 - 1)) with 2147483648.
    rewrite Ht. reflexivity.
  - cbn [typed] in Ht. cbn [spec_encode sd]. unfold int_fits in Ht. change (2 ^ (64 - 1)) with 9223372036854775808 in Ht.
    rewrite rd_varint_canon_enc by (unfold int64_ok, two63; lia). reflexivity.
  - cbn [typed] in Ht. cbn [spec_encode sd]. change (le_bytes 4 bits) with (float_write 4 bits).
    rewrite float_roundtrip by (change (256 ^ Z.of_nat 4) with 4294967296; lia). reflexivity.
  - cbn [typed] in Ht. cbn [spec_encode sd]. change (le_bytes 8 bits) with (float_write 8 bits).
    rewrite float_roundtrip by (change (256 ^ Z.of_nat 8) with 18446744073709551616; unfold two64 in Ht; lia). reflexivity.
  - cbn [typed] in Ht. cbn [spec_encode sd]. rewrite <- app_assoc. rewrite sd_len_prefixed_enc by lia. reflexivity.
  - cbn [typed] in Ht. cbn [spec_encode sd]. rewrite <- app_assoc. rewrite sd_len_prefixed_enc by lia. reflexivity.
  - cbn [typed] in Ht. cbn [spec_encode sd]. replace n with (len v) by lia. rewrite rd_next_app. reflexivity.
  - cbn [typed] in Ht. cbn [spec_encode sd]. rewrite rd_varint_canon_enc by (unfold int64_ok, two63 in *; unfold len in *; lia).
    cbn [obind]. replace ((0 <=? i) && (i <? n)) with true by lia. reflexivity.
  - (* record *)
    rewrite typed_record in Ht. rewrite spec_encode_record in *. rewrite sd_record_eq. rewrite dmax_record in *.
    assert (Hgo : forall cs, len (enc_fields cs fields fs) < two63 ->
                  forall rest, sd_fields fuel fields (enc_fields cs fields fs ++ rest) = Done fs rest).
    { clear Hlen rest. revert fs Ht Hfuel Hmax. induction fields as [|[n fsch] l IHl]; intros ds Ht Hfuel Hmax cs Hlen rest.
      - destruct ds; [reflexivity|discriminate].
      - destruct ds as [|d ds]; [discriminate|]. cbn [typed_fields] in Ht. apply andb_prop in Ht as [Ht1 Ht2].
        inversion H as [|? ? Hf Hl]; subst. cbn [snd] in Hf. cbn [dmax_list] in *.
        cbn [enc_fields sd_fields] in *. rewrite <- app_assoc.
        unfold len in Hlen. rewrite app_length in Hlen.
        rewrite (Hf d (hd ChLeaf cs) fuel Ht1 ltac:(lia) ltac:(unfold len; lia) ltac:(lia)). cbn [obind].
        rewrite (IHl Hl ds Ht2 ltac:(lia) ltac:(lia) (tl cs) ltac:(unfold len; lia)). reflexivity. }
    rewrite (Hgo _ Hlen). reflexivity.
  - (* array *)
    rewrite typed_array in Ht. rewrite spec_encode_array in *. rewrite sd_array_eq. rewrite dmax_array in *.
    pose proof (len_concat_le_asm (ch_cuts ch) (enc_items s (ch_items ch) ds)) as Hc.
    change (sd_aitem fuel s) with (app_item (sd fuel s)).
    rewrite (asm_blocks_dec (sd fuel s) (ch_cuts ch) (enc_items s (ch_items ch) ds) ds fuel [] rest); [reflexivity| | | |].
    + (* every item encoding decodes to its item *)
      assert (Hb : forall e, In e (enc_items s (ch_items ch) ds) -> len e < two63).
      { intros e He. pose proof (len_item_le_concat e _ He). lia. }
      clear Hc Hlen. generalize dependent (ch_items ch). revert Ht Hfuel Hmax.
      induction ds as [|d ds IHd]; intros Ht Hfuel Hmax cs Hb; [constructor|].
      cbn [forallb] in Ht. apply andb_prop in Ht as [Ht1 Ht2]. cbn [dmax_list length] in *.
      change (enc_items s cs (d :: ds)) with (spec_encode (hd ChLeaf cs) s d :: enc_items s (tl cs) ds) in *.
      constructor.
      * intros tail. apply IHs; try lia; [exact Ht1|]. apply Hb. left. reflexivity.
      * apply IHd; try lia; [exact Ht2|]. intros e He. apply Hb. right. exact He.
    + rewrite enc_items_length. lia.
    + lia.
    + rewrite enc_items_length. lia.
  - (* map *)
    rewrite typed_map in Ht. rewrite spec_encode_map in *. rewrite sd_map_eq. rewrite dmax_map in *.
    pose proof (len_concat_le_asm (ch_cuts ch) (enc_kvs s (ch_items ch) kvs)) as Hc.
    set (f1 := fun b1 => obind (sd_len_prefixed b1) (fun k r => obind (sd fuel s r) (fun d r' => Done (k, d) r'))).
    assert (Heq1 : forall acc b0, sd_mitem fuel s acc b0 = app_item f1 acc b0).
    { intros acc b0. unfold sd_mitem, app_item, f1. destruct (sd_len_prefixed b0); cbn [obind]; try reflexivity.
      destruct (sd fuel s rest0); reflexivity. }
    rewrite (blocks_ext true _ _ Heq1).
    rewrite (asm_blocks_dec f1 (ch_cuts ch) (enc_kvs s (ch_items ch) kvs) kvs fuel [] rest); [reflexivity| | | |].
    + assert (Hb : forall e, In e (enc_kvs s (ch_items ch) kvs) -> len e < two63).
      { intros e He. pose proof (len_item_le_concat e _ He). lia. }
      clear Hc Hlen. generalize dependent (ch_items ch). revert Ht Hfuel Hmax.
      induction kvs as [|[k d] kvs IHd]; intros Ht Hfuel Hmax cs Hb; [constructor|].
      cbn [forallb] in Ht. apply andb_prop in Ht as [Ht1 Ht2]. cbn [dmax_kvs length] in *.
      unfold typed_kv in Ht1. cbn [fst snd] in Ht1. apply andb_prop in Ht1 as [Ht1 Ht1c]. apply andb_prop in Ht1 as [Ht1a Ht1b].
      change (enc_kvs s cs ((k, d) :: kvs)) with ((enc_varint (len k) ++ k ++ spec_encode (hd ChLeaf cs) s d) :: enc_kvs s (tl cs) kvs) in *.
      constructor.
      * intros tail. unfold f1. rewrite <- !app_assoc. rewrite sd_len_prefixed_enc by lia. cbn [obind].
        assert (He : len (enc_varint (len k) ++ k ++ spec_encode (hd ChLeaf cs) s d) < two63) by (apply Hb; left; reflexivity).
        unfold len in He. rewrite !app_length in He.
        rewrite (IHs d (hd ChLeaf cs) fuel Ht1c ltac:(lia) ltac:(unfold len; lia) ltac:(lia)). reflexivity.
      * apply IHd; try lia; [exact Ht2|]. intros e He. apply Hb. right. exact He.
    + rewrite enc_kvs_length. lia.
    + lia.
    + rewrite enc_kvs_length. lia.
  - (* union *)
    cbn [typed] in Ht. apply andb_prop in Ht as [Ht Ht3]. apply andb_prop in Ht as [Ht1 Ht2].
    destruct (nth_error brs (Z.to_nat branch)) as [x|] eqn:En; [|discriminate].
    cbn [spec_encode] in *. rewrite (nth_error_nth _ _ SBad En) in *.
    rewrite <- app_assoc. rewrite sd_union_eq.
    rewrite rd_varint_canon_enc by (unfold int64_ok, two63 in *; lia). cbn [obind].
    replace (branch <? 0) with false by lia. rewrite (sd_pick_nth _ _ _ _ _ _ En).
    rewrite Forall_forall in H. specialize (H x (nth_error_In _ _ En)).
    unfold len in Hlen. rewrite app_length in Hlen. cbn [dmax] in *.
    rewrite (H dd (ch_inner ch) fuel Ht3 Hfuel ltac:(unfold len; lia) Hmax). reflexivity.
Qed.
