(* A file cut anywhere inside its header is refused: for the header the
   library's writer produces (magic, one metadata block of two entries, the end
   marker, the sync marker) every strict prefix makes readFileHeader fail. *)
From Coq Require Import List ZArith Lia Bool ZifyBool ZifyNat String.
Require Import Avro.Model.Base Avro.Model.Prim Avro.Model.Schema Avro.Model.Container.
Require Import Avro.Proofs.ListFacts Avro.Proofs.VarintP Avro.Proofs.VarintMore Avro.Proofs.PrimP.
Require Import Avro.Proofs.ContainerP Avro.Proofs.FileP.
Import ListNotations.
Open Scope Z_scope.
Open Scope list_scope.

Lemma firstn_app_split {A} k (a b0 : list A) :
  ((k < length a)%nat /\ firstn k (a ++ b0) = firstn k a) \/
  ((length a <= k)%nat /\ firstn k (a ++ b0) = a ++ firstn (k - length a) b0).
Proof.
  destruct (Nat.lt_ge_cases k (length a)) as [H|H].
  - left. split; [exact H|]. apply firstn_app_le. lia.
  - right. split; [exact H|]. apply firstn_app_ge. exact H.
Qed.

Lemma len_firstn_lt k (s : bytes) : (k < length s)%nat -> len (firstn k s) < len s.
Proof. intros H. unfold len. rewrite firstn_length. lia. Qed.

(* a length-prefixed string cut short *)
Lemma read_lp_cut s j : len s < two63 -> (j < length (lp s))%nat -> read_lp (firstn j (lp s)) = None.
Proof.
  intros Hs Hj. unfold lp in *. unfold read_lp.
  destruct (firstn_app_split j (enc_varint (len s)) s) as [[Hlt ->] | [Hge ->]].
  - rewrite read_varint_cut by (try apply len_int64; assumption). destruct j; reflexivity.
  - rewrite read_varint_enc by (apply len_int64; exact Hs).
    apply read_full_short. apply len_firstn_lt. rewrite app_length in Hj. lia.
Qed.

Lemma read_lp_cut_app s j more : len s < two63 -> (j < length (lp s))%nat -> read_lp (firstn j (lp s ++ more)) = None.
Proof. intros Hs Hj. rewrite firstn_app_le by lia. apply read_lp_cut; assumption. Qed.

Section HeaderCut.
  Variable schema_json codec_name : bytes.
  Hypothesis Hs : len schema_json < two63.
  Hypothesis Hc : len codec_name < two63.

  Definition k1 : bytes := b "avro.schema".
  Definition k2 : bytes := b "avro.codec".
  Definition entries : bytes := lp k1 ++ lp schema_json ++ lp k2 ++ lp codec_name.

  Lemma Hk1 : len k1 < two63. Proof. vm_compute. reflexivity. Qed.
  Lemma Hk2 : len k2 < two63. Proof. vm_compute. reflexivity. Qed.

  Lemma lp_len_pos s : (1 <= length (lp s))%nat.
  Proof.
    unfold lp. rewrite app_length. pose proof (enc_varint_nonempty (len s)) as H.
    destruct (enc_varint (len s)); [congruence|]. cbn [length]. lia.
  Qed.

  (* the two entries, complete *)
  Lemma entries_ok g rest :
    read_meta_entries (S (S (S g))) 2 [] (entries ++ rest) = Some (written_meta schema_json codec_name, rest).
  Proof.
    unfold entries. rewrite <- !app_assoc. cbn [read_meta_entries].
    change (2 <=? 0) with false. cbv iota.
    rewrite read_lp_app by exact Hk1. rewrite read_lp_app by exact Hs.
    change (2 - 1 <=? 0) with false. cbv iota.
    rewrite read_lp_app by exact Hk2. rewrite read_lp_app by exact Hc.
    change (2 - 1 - 1 <=? 0) with true. cbv iota. reflexivity.
  Qed.

  (* the two entries, cut anywhere *)
  Lemma entries_cut fuel j : (j < length entries)%nat -> read_meta_entries fuel 2 [] (firstn j entries) = None.
  Proof.
    intros Hj. unfold entries in *. destruct fuel as [|f]; [reflexivity|]. cbn [read_meta_entries].
    change (2 <=? 0) with false. cbv iota.
    destruct (firstn_app_split j (lp k1) (lp schema_json ++ lp k2 ++ lp codec_name)) as [[H1 ->] | [H1 ->]].
    { rewrite read_lp_cut by (try exact Hk1; exact H1). reflexivity. }
    rewrite read_lp_app by exact Hk1. set (j1 := (j - length (lp k1))%nat).
    destruct (firstn_app_split j1 (lp schema_json) (lp k2 ++ lp codec_name)) as [[H2 ->] | [H2 ->]].
    { rewrite read_lp_cut by (try exact Hs; exact H2). reflexivity. }
    rewrite read_lp_app by exact Hs. set (j2 := (j1 - length (lp schema_json))%nat).
    destruct f as [|f]; [reflexivity|]. cbn [read_meta_entries].
    change (2 - 1 <=? 0) with false. cbv iota.
    destruct (firstn_app_split j2 (lp k2) (lp codec_name)) as [[H3 ->] | [H3 ->]].
    { rewrite read_lp_cut by (try exact Hk2; exact H3). reflexivity. }
    rewrite read_lp_app by exact Hk2. set (j3 := (j2 - length (lp k2))%nat).
    rewrite !app_length in Hj.
    rewrite read_lp_cut by (try exact Hc; unfold j3, j2, j1; lia). reflexivity.
  Qed.

  Definition meta_part : bytes := enc_varint 2 ++ entries ++ enc_varint 0.

  Lemma entries_len : (3 <= length entries)%nat.
  Proof.
    unfold entries. rewrite !app_length.
    pose proof (lp_len_pos k1). pose proof (lp_len_pos schema_json). pose proof (lp_len_pos k2). pose proof (lp_len_pos codec_name). lia.
  Qed.

  Lemma ev2 : enc_varint 2 = [4]. Proof. reflexivity. Qed.
  Lemma ev0 : enc_varint 0 = [0]. Proof. reflexivity. Qed.

  Lemma meta_ok f rest :
    read_meta (S (S f)) [] (meta_part ++ rest) = Some (written_meta schema_json codec_name, rest).
  Proof.
    unfold meta_part. rewrite <- !app_assoc. cbn [read_meta].
    rewrite read_varint_enc by (unfold int64_ok, two63; lia).
    change (2 =? 0) with false. change (2 <? 0) with false. cbv iota.
    pose proof entries_len as Hl.
    assert (Hlen : (3 <= length (entries ++ enc_varint 0 ++ rest))%nat) by (rewrite app_length; lia).
    destruct (length (entries ++ enc_varint 0 ++ rest)) as [|[|[|n]]] eqn:E; try lia.
    rewrite entries_ok. rewrite read_varint_enc by (unfold int64_ok, two63; lia).
    change (0 =? 0) with true. cbv iota. reflexivity.
  Qed.

  Lemma meta_cut fuel j more : (j < length meta_part)%nat ->
    read_meta fuel [] (firstn j (meta_part ++ more)) = None.
  Proof.
    intros Hj. rewrite firstn_app_le by lia. unfold meta_part in *.
    destruct fuel as [|f]; [reflexivity|]. cbn [read_meta].
    destruct (firstn_app_split j (enc_varint 2) (entries ++ enc_varint 0)) as [[H1 ->] | [H1 ->]].
    { rewrite ev2 in H1. cbn [length] in H1. assert (j = 0%nat) by lia. subst j. reflexivity. }
    rewrite read_varint_enc by (unfold int64_ok, two63; lia).
    change (2 =? 0) with false. change (2 <? 0) with false. cbv iota.
    set (j1 := (j - length (enc_varint 2))%nat).
    destruct (firstn_app_split j1 entries (enc_varint 0)) as [[H2 E2] | [H2 E2]]; rewrite E2.
    { rewrite entries_cut by exact H2. reflexivity. }
    (* the entries are complete, the end marker is missing *)
    rewrite !app_length, ev0 in Hj. cbn [length] in Hj.
    assert (Hz : (j1 - length entries = 0)%nat) by (unfold j1; lia). rewrite Hz. cbn [firstn].
    pose proof entries_len as Hl. rewrite app_nil_r.
    destruct (length entries) as [|[|[|n]]] eqn:E; try lia.
    rewrite <- (app_nil_r entries). rewrite entries_ok.
    destruct f as [|f]; reflexivity.
  Qed.

  Variable sync : bytes.
  Hypothesis Hsync : len sync = 16.

  Lemma header_split : header_bytes schema_json codec_name sync = magic ++ meta_part ++ sync.
  Proof. unfold header_bytes, meta_part, entries, k1, k2. rewrite <- !app_assoc. reflexivity. Qed.

  Theorem header_cut k : (k < length (header_bytes schema_json codec_name sync))%nat ->
    read_header (firstn k (header_bytes schema_json codec_name sync)) = None.
  Proof.
    intros Hk. rewrite header_split in *. unfold read_header.
    destruct (firstn_app_split k magic (meta_part ++ sync)) as [[H1 ->] | [H1 ->]].
    { rewrite read_full_short; [reflexivity|]. unfold len. rewrite firstn_length. cbn [length magic] in *. lia. }
    rewrite (read_full_app 4 magic) by reflexivity. rewrite beqb_refl.
    set (j := (k - length magic)%nat).
    destruct (Nat.lt_ge_cases j (length meta_part)) as [H2|H2].
    { rewrite meta_cut by exact H2. reflexivity. }
    rewrite firstn_app_ge by exact H2.
    assert (Hpos : (1 <= length (meta_part ++ firstn (j - length meta_part) sync))%nat).
    { rewrite app_length. unfold meta_part. rewrite app_length, ev2. cbn [length]. lia. }
    destruct (length (meta_part ++ firstn (j - length meta_part) sync)) as [|n] eqn:E; [lia|].
    rewrite meta_ok.
    rewrite read_full_short; [reflexivity|].
    unfold len in *. rewrite firstn_length. rewrite !app_length in Hk. unfold j. lia.
  Qed.
End HeaderCut.
