(* Proofs about Model/Compress.v: CRC-32 stays a 32-bit word, the big-endian
   trailer is injective, and the snappy framing of file.go:
   - what compress stores, decompress returns (for any raw snappy codec that
     inverts itself and declares its length honestly);
   - decompress returns data only when the raw decoder accepted the body AND the
     trailer is the CRC-32 of what it returned; every other block is refused
     (too short, impossible declared length, raw decoder error, checksum mismatch);
   - any change of the four trailer bytes of an accepted block is refused;
   - the data returned is at most 32 times the stored block. *)
From Coq Require Import List ZArith Lia Bool.
Require Import Avro.Model.Base Avro.Model.Compress.
Require Import Avro.Proofs.PrimP.
Import ListNotations.
Local Open Scope list_scope.
Open Scope Z_scope.

(* ---------------- 32-bit words under xor and shift ---------------- *)

Definition w32 (x : Z) : Prop := 0 <= x < 4294967296.

Lemma w32_land x : 0 <= x -> (x < 4294967296 <-> Z.land x (Z.ones 32) = x).
Proof.
  intros Hx. rewrite Z.land_ones by lia. change (2 ^ 32) with 4294967296. split; intros H.
  - apply Z.mod_small. lia.
  - rewrite <- H. apply Z.mod_pos_bound. lia.
Qed.

Lemma w32_lxor a c : w32 a -> w32 c -> w32 (Z.lxor a c).
Proof.
  intros [Ha1 Ha2] [Hc1 Hc2]. unfold w32.
  assert (H0 : 0 <= Z.lxor a c) by (apply Z.lxor_nonneg; lia).
  split; [exact H0|]. apply w32_land; [exact H0|].
  apply Z.bits_inj'. intros n Hn. rewrite Z.land_spec, !Z.lxor_spec.
  apply (proj1 (w32_land a Ha1)) in Ha2. apply (proj1 (w32_land c Hc1)) in Hc2.
  assert (Ea : Z.testbit a n && Z.testbit (Z.ones 32) n = Z.testbit a n)
    by (rewrite <- Z.land_spec, Ha2; reflexivity).
  assert (Ec : Z.testbit c n && Z.testbit (Z.ones 32) n = Z.testbit c n)
    by (rewrite <- Z.land_spec, Hc2; reflexivity).
  destruct (Z.testbit a n), (Z.testbit c n), (Z.testbit (Z.ones 32) n); cbn in *; congruence.
Qed.

Lemma w32_shiftr1 a : w32 a -> w32 (Z.shiftr a 1).
Proof.
  intros [H1 H2]. unfold w32. rewrite Z.shiftr_div_pow2 by lia. change (2 ^ 1) with 2.
  split; [apply Z.div_pos; lia|]. apply Z.div_lt_upper_bound; lia.
Qed.

Lemma w32_poly : w32 crc_poly.  Proof. unfold w32, crc_poly. lia. Qed.
Lemma w32_mask : w32 crc_mask.  Proof. unfold w32, crc_mask. lia. Qed.

Lemma crc_bit_w32 c : w32 c -> w32 (crc_bit c).
Proof.
  intros H. unfold crc_bit. destruct (Z.odd c).
  - apply w32_lxor; [apply w32_shiftr1; exact H|exact w32_poly].
  - apply w32_shiftr1; exact H.
Qed.

Lemma crc_byte_w32 c x : w32 c -> w32 (crc_byte c x).
Proof.
  intros Hc. unfold crc_byte. do 8 apply crc_bit_w32.
  apply w32_lxor; [exact Hc|]. unfold w32. pose proof (Z.mod_pos_bound x 256). lia.
Qed.

Lemma crc_update_w32 : forall bs c, w32 c -> w32 (crc_update c bs).
Proof.
  unfold crc_update. induction bs as [|x bs IH]; intros c Hc; cbn [fold_left]; [exact Hc|].
  apply IH. apply crc_byte_w32. exact Hc.
Qed.

Theorem crc32_w32 bs : w32 (crc32 bs).
Proof.
  unfold crc32. apply w32_lxor; [|exact w32_mask]. apply crc_update_w32. exact w32_mask.
Qed.

(* the checksum of a concatenation continues the running value (what makes
   crc32.Update over several writes equal to ChecksumIEEE of the whole) *)
Lemma crc_update_app c a d : crc_update c (a ++ d) = crc_update (crc_update c a) d.
Proof. unfold crc_update. apply fold_left_app. Qed.

(* ---------------- the big-endian trailer ---------------- *)

Lemma be32_length v : length (be32 v) = 4%nat.
Proof. unfold be32. rewrite rev_length. apply le_bytes_length. Qed.

Lemma be32_ok v : bytes_ok (be32 v).
Proof. unfold be32, bytes_ok. apply Forall_rev. apply le_bytes_ok. Qed.

Lemma be32_dec_be32 v : w32 v -> be32_dec (be32 v) = v.
Proof.
  intros Hv. unfold be32_dec, be32. rewrite rev_involutive. apply of_le_le_bytes.
  change (256 ^ Z.of_nat 4) with 4294967296. exact Hv.
Qed.

Lemma be32_be32_dec t : length t = 4%nat -> bytes_ok t -> be32 (be32_dec t) = t.
Proof.
  intros Hl Hb. unfold be32, be32_dec.
  replace 4%nat with (length (rev t)) by (rewrite rev_length; exact Hl).
  rewrite le_bytes_of_le by (apply Forall_rev; exact Hb). apply rev_involutive.
Qed.

(* two different four-byte trailers hold two different numbers *)
Lemma be32_dec_inj t1 t2 : length t1 = 4%nat -> length t2 = 4%nat -> bytes_ok t1 -> bytes_ok t2 ->
  be32_dec t1 = be32_dec t2 -> t1 = t2.
Proof.
  intros L1 L2 B1 B2 H. rewrite <- (be32_be32_dec t1 L1 B1), <- (be32_be32_dec t2 L2 B2), H. reflexivity.
Qed.

(* ---------------- splitting a stored block ---------------- *)

Lemma body_of_framed (e t : bytes) : length t = 4%nat -> snappy_body (e ++ t) = e.
Proof.
  intros Ht. unfold snappy_body. rewrite app_length, Ht.
  replace (length e + 4 - 4)%nat with (length e + 0)%nat by lia.
  rewrite firstn_app_2. cbn [firstn]. apply app_nil_r.
Qed.

Lemma tail_of_framed (e t : bytes) : length t = 4%nat -> snappy_tail (e ++ t) = t.
Proof.
  intros Ht. unfold snappy_tail. rewrite app_length, Ht.
  replace (length e + 4 - 4)%nat with (length e) by lia.
  rewrite skipn_app, skipn_all, Nat.sub_diag. reflexivity.
Qed.

Lemma framed_split (c : bytes) : 4 <= len c ->
  c = snappy_body c ++ snappy_tail c /\ length (snappy_tail c) = 4%nat.
Proof.
  intros H. unfold snappy_body, snappy_tail, len in *. split.
  - symmetry. apply firstn_skipn.
  - rewrite skipn_length. lia.
Qed.

(* ---------------- snappyCodec ---------------- *)

Section SnappyP.
  Variable raw_dec : bytes -> option bytes.
  Variable raw_len : bytes -> option Z.

  Notation decompress := (snappy_decompress raw_dec raw_len).

  (* a block shorter than its checksum *)
  Theorem snappy_too_short c : len c < 4 -> decompress c = None.
  Proof. intros H. unfold snappy_decompress. destruct (Z.ltb_spec (len c) 4); [reflexivity|lia]. Qed.

  (* exactly when data comes back *)
  Theorem snappy_accepts_iff c u :
    decompress c = Some u <->
    4 <= len c /\ (exists n, raw_len (snappy_body c) = Some n /\ n <= 32 * len c) /\
    raw_dec (snappy_body c) = Some u /\ be32_dec (snappy_tail c) = crc32 u.
  Proof.
    unfold snappy_decompress. split.
    - intros H. destruct (Z.ltb_spec (len c) 4) as [|H4]; [discriminate|].
      destruct (raw_len (snappy_body c)) as [n|]; [|discriminate].
      destruct (Z.ltb_spec (32 * len c) n) as [|Hn]; [discriminate|].
      destruct (raw_dec (snappy_body c)) as [u'|]; [|discriminate].
      destruct (Z.eqb_spec (crc32 u') (be32_dec (snappy_tail c))) as [E|]; [|discriminate].
      inversion H; subst. repeat split; try lia; eauto.
    - intros (H4 & (n & Hl & Hn) & Hd & Hc).
      destruct (Z.ltb_spec (len c) 4); [lia|]. rewrite Hl.
      destruct (Z.ltb_spec (32 * len c) n); [lia|]. rewrite Hd, Hc, Z.eqb_refl. reflexivity.
  Qed.

  (* the raw decoder rejects the body *)
  Theorem snappy_raw_error c : raw_dec (snappy_body c) = None -> decompress c = None.
  Proof.
    intros H. destruct (decompress c) as [u|] eqn:E; [|reflexivity].
    apply snappy_accepts_iff in E. destruct E as (_ & _ & Hd & _). congruence.
  Qed.

  (* the checksum stored in the block is not the checksum of what the raw decoder returned *)
  Theorem snappy_checksum_mismatch c u :
    raw_dec (snappy_body c) = Some u -> be32_dec (snappy_tail c) <> crc32 u -> decompress c = None.
  Proof.
    intros Hd Hne. destruct (decompress c) as [u'|] eqn:E; [|reflexivity].
    apply snappy_accepts_iff in E. destruct E as (_ & _ & Hd' & Hc). congruence.
  Qed.

  (* a declared length the stored bytes cannot expand to *)
  Theorem snappy_impossible_length c n :
    raw_len (snappy_body c) = Some n -> 32 * len c < n -> decompress c = None.
  Proof.
    intros Hl Hn. destruct (decompress c) as [u'|] eqn:E; [|reflexivity].
    apply snappy_accepts_iff in E. destruct E as (_ & (n' & Hl' & Hn') & _). rewrite Hl in Hl'.
    inversion Hl'; subst. lia.
  Qed.

  (* an accepted block with ANY other four bytes in place of its checksum is refused:
     every bit and byte position of the checksum is a detected corruption site *)
  Theorem snappy_trailer_damage e t t' u :
    length t = 4%nat -> length t' = 4%nat -> bytes_ok t -> bytes_ok t' -> t' <> t ->
    decompress (e ++ t) = Some u -> decompress (e ++ t') = None.
  Proof.
    intros Lt Lt' Bt Bt' Hne Hacc. apply snappy_accepts_iff in Hacc.
    destruct Hacc as (_ & _ & Hd & Hc). rewrite body_of_framed in Hd by exact Lt.
    rewrite tail_of_framed in Hc by exact Lt.
    apply (snappy_checksum_mismatch _ u).
    - rewrite body_of_framed by exact Lt'. exact Hd.
    - rewrite tail_of_framed by exact Lt'. intros H. apply Hne.
      apply be32_dec_inj; try assumption. congruence.
  Qed.

  (* what the decompressor hands on is bounded by the stored block (the clause of
     C06 for this codec), for a raw decoder whose output has the declared length *)
  Hypothesis Hlen_dec : forall b u, raw_dec b = Some u -> raw_len b = Some (len u).

  Theorem snappy_output_bounded c u : decompress c = Some u -> len u <= 32 * len c.
  Proof.
    intros H. apply snappy_accepts_iff in H. destruct H as (_ & (n & Hl & Hn) & Hd & _).
    apply Hlen_dec in Hd. rewrite Hd in Hl. inversion Hl; subst. exact Hn.
  Qed.

  (* what compress stores, decompress returns *)
  Variable raw_enc : bytes -> bytes.
  Notation compress := (snappy_compress raw_enc).
  Hypothesis Hinv : forall u, raw_dec (raw_enc u) = Some u.
  Hypothesis Hratio : forall u, len u <= 32 * (len (raw_enc u) + 4).

  Theorem snappy_roundtrip u : decompress (compress u) = Some u.
  Proof.
    apply snappy_accepts_iff. unfold snappy_compress.
    pose proof (be32_length (crc32 u)) as L4.
    assert (Hlen : len (raw_enc u ++ be32 (crc32 u)) = len (raw_enc u) + 4).
    { unfold len. rewrite app_length, L4. lia. }
    rewrite body_of_framed, tail_of_framed by exact L4. rewrite Hlen.
    split; [unfold len; lia|]. split.
    - exists (len u). split; [apply Hlen_dec, Hinv|apply Hratio].
    - split; [apply Hinv|]. apply be32_dec_be32. apply crc32_w32.
  Qed.
End SnappyP.

(* the null codec and deflate are their raw functions *)
Lemma null_roundtrip u : null_decompress (null_compress u) = Some u.
Proof. reflexivity. Qed.

Lemma deflate_roundtrip raw_deflate raw_inflate :
  (forall u, raw_inflate (raw_deflate u) = Some u) ->
  forall u, deflate_decompress raw_inflate (deflate_compress raw_deflate u) = Some u.
Proof. intros H u. apply H. Qed.

Lemma deflate_error raw_inflate c : raw_inflate c = None -> deflate_decompress raw_inflate c = None.
Proof. intros H. exact H. Qed.

(* known answers: the check value of CRC-32/ISO-HDLC ("123456789" -> 0xCBF43926) and the empty string *)
Example crc32_check_value : crc32 [49;50;51;52;53;54;55;56;57] = 3421780262.
Proof. vm_compute. reflexivity. Qed.
Example crc32_empty : crc32 [] = 0.
Proof. vm_compute. reflexivity. Qed.

(* ---------------- the framing inside the container ---------------- *)
Require Import Avro.Model.Container Avro.Model.Writer Avro.Proofs.ContainerP Avro.Proofs.FileP.

Section SnappyFile.
  Variable raw_enc : bytes -> bytes.
  Variable raw_dec : bytes -> option bytes.
  Variable raw_len : bytes -> option Z.
  Hypothesis Hlen_dec : forall b u, raw_dec b = Some u -> raw_len b = Some (len u).
  Hypothesis Hinv : forall u, raw_dec (raw_enc u) = Some u.
  Hypothesis Hratio : forall u, len u <= 32 * (len (raw_enc u) + 4).

  Notation compress := (snappy_compress raw_enc).
  Notation decompress := (snappy_decompress raw_dec raw_len).

  (* file_roundtrip with the library's own snappy framing as the codec: the
     hypothesis "the decompressor inverts the compressor" is discharged by
     snappy_roundtrip; what remains assumed is about golang/snappy only *)
  Theorem snappy_file_roundtrip : forall read_record sync, len sync = 16 ->
    forall schema_json codec_name size ops fuel,
    len schema_json < two63 -> len codec_name < two63 ->
    Forall (rec_decodes read_record) (recs_of ops) ->
    Forall (group_small compress) (fst (blocks_spec size [] (ops ++ [OpFlush]))) ->
    (length (fst (blocks_spec size [] (ops ++ [OpFlush]))) < fuel)%nat ->
    exists body,
      read_header (concat (file_chunks compress schema_json codec_name sync size (ops ++ [OpFlush])))
        = Some ({| h_meta := written_meta schema_json codec_name; h_sync := sync |}, body) /\
      read_blocks decompress read_record (fun _ => None) fuel sync 0 body = (length (recs_of ops), FOk).
  Proof.
    intros read_record sync Hsync. apply file_roundtrip; [|exact Hsync].
    intros x. apply snappy_roundtrip; assumption.
  Qed.
End SnappyFile.

Section SnappyDamage.
  Variable raw_dec : bytes -> option bytes.
  Variable raw_len : bytes -> option Z.
  Notation decompress := (snappy_decompress raw_dec raw_len).

  (* after any number of valid blocks, a snappy block that was acceptable with
     trailer t and now carries any other four bytes t': the records of the earlier
     blocks are delivered, none of this block, and the read fails *)
  Theorem snappy_file_checksum_damage : forall read_record cb sync, len sync = 16 ->
    forall bl count e t t' u rest fuel idx,
    vbs_ok decompress read_record cb idx bl -> int64_ok count -> len (e ++ t') < two63 ->
    length t = 4%nat -> length t' = 4%nat -> bytes_ok t -> bytes_ok t' -> t' <> t ->
    decompress (e ++ t) = Some u ->
    read_blocks decompress read_record cb (length bl + S fuel)%nat sync idx
      (concat (map (vb_bytes sync) bl) ++ enc_varint count ++ enc_varint (len (e ++ t')) ++ (e ++ t') ++ rest)
    = ((idx + total bl)%nat, FErr).
  Proof.
    intros read_record cb sync Hs bl count e t t' u rest fuel idx Hbl Hc Hl Lt Lt' Bt Bt' Hne Hacc.
    rewrite read_blocks_prefix by assumption. apply block_rejected_by_decompressor; try assumption.
    eapply snappy_trailer_damage with (t := t); eassumption.
  Qed.

  (* the same for a block shorter than a checksum *)
  Theorem snappy_file_short_block : forall read_record cb sync, len sync = 16 ->
    forall bl count raw rest fuel idx,
    vbs_ok decompress read_record cb idx bl -> int64_ok count -> len raw < 4 ->
    read_blocks decompress read_record cb (length bl + S fuel)%nat sync idx
      (concat (map (vb_bytes sync) bl) ++ enc_varint count ++ enc_varint (len raw) ++ raw ++ rest)
    = ((idx + total bl)%nat, FErr).
  Proof.
    intros read_record cb sync Hs bl count raw rest fuel idx Hbl Hc Hl.
    rewrite read_blocks_prefix by assumption. apply block_rejected_by_decompressor; try assumption.
    - unfold two63. lia.
    - apply snappy_too_short. exact Hl.
  Qed.
End SnappyDamage.

(* what the Avro specification asks of a snappy block: the raw stream "followed by the
   4-byte, big-endian CRC32 checksum of the uncompressed data in the block" *)
Theorem snappy_block_layout raw_enc u :
  exists t, snappy_compress raw_enc u = raw_enc u ++ t /\ length t = 4%nat /\ bytes_ok t /\
            be32_dec t = crc32 u /\ t = be32 (crc32 u).
Proof.
  exists (be32 (crc32 u)).
  split; [reflexivity|]. split; [apply be32_length|]. split; [apply be32_ok|].
  split; [apply be32_dec_be32; apply crc32_w32|reflexivity].
Qed.
