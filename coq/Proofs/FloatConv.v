(* float32 carried as double: narrowing the widened pattern gives the pattern
   back, for every non-NaN float32 bit pattern (zero, subnormal, normal, inf). *)
From Coq Require Import List ZArith Lia Bool ZifyBool ZifyNat.
Require Import Avro.Model.Base Avro.Model.Prim.
Open Scope Z_scope.
Ltac Zify.zify_post_hook ::= Z.div_mod_to_equations.

Lemma f64_fields s e m : 0 <= s <= 1 -> 0 <= e < 2048 -> 0 <= m < 4503599627370496 ->
  f64_sign (f64_make s e m) = s /\ f64_exp (f64_make s e m) = e /\ f64_man (f64_make s e m) = m.
Proof. intros. unfold f64_sign, f64_exp, f64_man, f64_make. lia. Qed.

Lemma f32_decomp b : 0 <= b < 4294967296 ->
  b = f32_make (f32_sign b) (f32_exp b) (f32_man b) /\
  0 <= f32_sign b <= 1 /\ 0 <= f32_exp b < 256 /\ 0 <= f32_man b < 8388608.
Proof. intros. unfold f32_sign, f32_exp, f32_man, f32_make. lia. Qed.

Lemma rne_exact q sh : 0 <= q -> 0 <= sh -> rne_shift (q * 2 ^ sh) sh = q.
Proof.
  intros Hq Hsh. unfold rne_shift.
  assert (0 < 2 ^ sh) by (apply Z.pow_pos_nonneg; lia).
  rewrite Z.div_mul by lia. rewrite Z.mod_mul by lia.
  replace (2 * 0 <? 2 ^ sh) with true by lia. reflexivity.
Qed.

(* subnormals: the 23 possible positions of the leading bit *)
Lemma log2_cases m : 0 < m < 8388608 ->
  exists k, Z.log2 m = k /\ 0 <= k <= 22 /\ 2 ^ k <= m < 2 ^ (k + 1).
Proof.
  intros Hm. exists (Z.log2 m). pose proof (Z.log2_spec m ltac:(lia)) as [H1 H2].
  split; [reflexivity|]. split.
  - split; [apply Z.log2_nonneg|].
    assert (Z.log2 m < 23); [|lia]. apply Z.log2_lt_pow2; [lia|]. change (2 ^ 23) with 8388608. lia.
  - replace (Z.log2 m + 1) with (Z.succ (Z.log2 m)) by lia. auto.
Qed.

Lemma narrow_widen_subnormal s m k :
  0 <= s <= 1 -> 0 <= k <= 22 -> 2 ^ k <= m < 2 ^ (k + 1) ->
  narrow64 (f64_make s (k - 149 + 1023) ((m - 2 ^ k) * 2 ^ (52 - k))) = f32_make s 0 0 + m.
Proof.
  intros Hs Hk Hm.
  assert (Hp : 0 < 2 ^ k) by (apply Z.pow_pos_nonneg; lia).
  assert (Hq : 0 < 2 ^ (52 - k)) by (apply Z.pow_pos_nonneg; lia).
  assert (Hkk : 2 ^ k * 2 ^ (52 - k) = 4503599627370496).
  { rewrite <- Z.pow_add_r by lia. replace (k + (52 - k)) with 52 by lia. reflexivity. }
  assert (Hk1 : 2 ^ (k + 1) = 2 * 2 ^ k) by (rewrite Z.pow_add_r by lia; lia).
  assert (Hman : 0 <= (m - 2 ^ k) * 2 ^ (52 - k) < 4503599627370496) by nia.
  destruct (f64_fields s (k - 149 + 1023) ((m - 2 ^ k) * 2 ^ (52 - k)) Hs ltac:(lia) Hman) as (F1 & F2 & F3).
  unfold narrow64. rewrite F1, F2, F3.
  replace (k - 149 + 1023 =? 2047) with false by lia.
  replace (k - 149 + 1023 =? 0) with false by lia.
  replace (0 <? k - 149 + 1023 - 1023 + 127) with false by lia.
  replace (29 + (1 - (k - 149 + 1023 - 1023 + 127))) with (52 - k) by lia.
  replace (83 <? 52 - k) with false by lia.
  replace ((m - 2 ^ k) * 2 ^ (52 - k) + 4503599627370496) with (m * 2 ^ (52 - k))
    by (rewrite Z.mul_sub_distr_r, Hkk; lia).
  rewrite rne_exact by lia. reflexivity.
Qed.

Theorem narrow_widen b : 0 <= b < 4294967296 -> f32_is_nan b = false -> narrow64 (widen32 b) = b.
Proof.
  intros Hb Hnan. destruct (f32_decomp b Hb) as (Hdec & Hs & He & Hm).
  unfold f32_is_nan in Hnan. unfold widen32.
  remember (f32_sign b) as s. remember (f32_exp b) as e. remember (f32_man b) as m.
  destruct (e =? 255) eqn:E255.
  - (* infinity (NaN excluded) *)
    destruct (m =? 0) eqn:Em; [|cbn in Hnan; discriminate].
    destruct (f64_fields s 2047 0 Hs ltac:(lia) ltac:(lia)) as (F1 & F2 & F3).
    unfold narrow64. rewrite F1, F2, F3.
    change (2047 =? 2047) with true. change (0 =? 0) with true. cbv iota.
    rewrite Hdec. f_equal; lia.
  - destruct (e =? 0) eqn:E0.
    + destruct (m =? 0) eqn:Em.
      * destruct (f64_fields s 0 0 Hs ltac:(lia) ltac:(lia)) as (F1 & F2 & F3).
        unfold narrow64. rewrite F1, F2, F3.
        change (0 =? 2047) with false. change (0 =? 0) with true. cbv iota.
        rewrite Hdec. f_equal; lia.
      * destruct (log2_cases m ltac:(lia)) as (k & Hk & Hkr & Hkm). rewrite Hk.
        rewrite narrow_widen_subnormal by assumption.
        rewrite Hdec. unfold f32_make. lia.
    + (* normal *)
      assert (Hman : 0 <= m * 536870912 < 4503599627370496) by lia.
      destruct (f64_fields s (e - 127 + 1023) (m * 536870912) Hs ltac:(lia) Hman) as (F1 & F2 & F3).
      unfold narrow64. rewrite F1, F2, F3.
      replace (e - 127 + 1023 =? 2047) with false by lia.
      replace (e - 127 + 1023 =? 0) with false by lia.
      replace (0 <? e - 127 + 1023 - 1023 + 127) with true by lia.
      replace (m * 536870912 + 4503599627370496) with ((m + 8388608) * 2 ^ 29) by lia.
      rewrite rne_exact by lia.
      replace (m + 8388608 =? 16777216) with false by lia.
      replace (255 <=? e - 127 + 1023 - 1023 + 127) with false by lia.
      rewrite Hdec. f_equal; lia.
Qed.

(* NaN goes to NaN *)
Theorem narrow_widen_nan b : 0 <= b < 4294967296 -> f32_is_nan b = true -> f32_is_nan (narrow64 (widen32 b)) = true.
Proof.
  intros Hb Hnan. destruct (f32_decomp b Hb) as (Hdec & Hs & He & Hm).
  unfold f32_is_nan in Hnan. unfold widen32.
  remember (f32_sign b) as s. remember (f32_exp b) as e. remember (f32_man b) as m.
  destruct (e =? 255) eqn:E255; [|cbn in Hnan; discriminate].
  destruct (m =? 0) eqn:Em; [cbn in Hnan; discriminate|].
  set (pm := setbit (m * 536870912) 2251799813685248).
  assert (Hpm : 2251799813685248 <= pm < 4503599627370496).
  { unfold pm, setbit. destruct ((m * 536870912 / 2251799813685248) mod 2 =? 0) eqn:Eb; lia. }
  destruct (f64_fields s 2047 pm Hs ltac:(lia) ltac:(lia)) as (F1 & F2 & F3).
  unfold narrow64. rewrite F1, F2, F3. change (2047 =? 2047) with true. cbv iota.
  replace (pm =? 0) with false by lia.
  set (q := setbit (pm / 536870912) 4194304).
  assert (Hq : 4194304 <= q < 8388608).
  { unfold q, setbit. destruct ((pm / 536870912 / 4194304) mod 2 =? 0) eqn:Eb; lia. }
  unfold f32_is_nan, f32_exp, f32_man, f32_make. lia.
Qed.
