(* Reader side of the container model (Model/Container.v): ReadFile delivers
   exactly the declared records of valid blocks, rejects damaged blocks, returns
   the callback's error unchanged, and on a truncated file delivers the records
   of the blocks whose payload is complete and reports success only at a block
   boundary. *)
From Coq Require Import List ZArith Lia Bool ZifyBool ZifyNat String.
Require Import Avro.Model.Base Avro.Model.Prim Avro.Model.Schema Avro.Model.Container.
Require Import Avro.Proofs.ListFacts Avro.Proofs.VarintP Avro.Proofs.VarintMore Avro.Proofs.PrimP.
Import ListNotations.
Open Scope Z_scope.

Lemma beqb_refl a : bytes_eqb a a = true.
Proof. induction a as [|x a IH]; [reflexivity|]. cbn. rewrite Z.eqb_refl, IH. reflexivity. Qed.
Lemma beqb_eq a b0 : bytes_eqb a b0 = true -> a = b0.
Proof.
  revert b0. induction a as [|x a IH]; intros [|y l] H; try discriminate; [reflexivity|].
  cbn in H. apply andb_prop in H as [H1 H2]. apply Z.eqb_eq in H1. subst. f_equal. auto.
Qed.

(* ---- primitives of the stream reader ---- *)
Lemma enc_varint_nonempty v : enc_varint v <> [].
Proof. unfold enc_varint. cbn [enc_uvarint]. destruct (zigzag v <? 128); discriminate. Qed.

Lemma read_varint_enc v rest : int64_ok v -> read_varint (enc_varint v ++ rest) = RvOk v rest.
Proof.
  intros H. unfold read_varint. destruct (enc_varint v ++ rest) eqn:E.
  - apply app_eq_nil in E. destruct E as [E _]. exfalso. exact (enc_varint_nonempty v E).
  - rewrite <- E. rewrite dec_enc_varint by exact H. reflexivity.
Qed.

(* a varint cut short: clean EOF only if nothing at all was read *)
Lemma read_varint_cut v k : int64_ok v -> (k < length (enc_varint v))%nat ->
  read_varint (firstn k (enc_varint v)) = match k with O => RvEOF | _ => RvErr end.
Proof.
  intros Hv Hk. destruct k; [destruct (enc_varint v); reflexivity|].
  unfold read_varint. rewrite (dec_varint_truncated v (S k) Hv Hk).
  destruct (enc_varint v) as [|x l] eqn:E; [cbn in Hk; lia|]. reflexivity.
Qed.

Lemma read_full_app n a rest : len a = n -> read_full n (a ++ rest) = Some (a, rest).
Proof.
  intros <-. unfold read_full, len. rewrite app_length, Nat2Z.id.
  replace ((Z.of_nat (length a) <? 0) || (Z.of_nat (length a + length rest) <? Z.of_nat (length a))) with false by lia.
  rewrite firstn_len_app, skipn_len_app. reflexivity.
Qed.

Lemma read_full_short n bs : len bs < n -> read_full n bs = None.
Proof. intros H. unfold read_full. replace ((n <? 0) || (len bs <? n)) with true by lia. reflexivity. Qed.

Lemma firstn_app_le {A} k (a b0 : list A) : (k <= length a)%nat -> firstn k (a ++ b0) = firstn k a.
Proof. intros H. rewrite firstn_app. replace (k - length a)%nat with O by lia. cbn. apply app_nil_r. Qed.
Lemma firstn_app_ge {A} k (a b0 : list A) : (length a <= k)%nat -> firstn k (a ++ b0) = a ++ firstn (k - length a) b0.
Proof. intros H. rewrite firstn_app. rewrite firstn_all2 by lia. reflexivity. Qed.

Definition blk (sync : bytes) (count : Z) (raw : bytes) : bytes :=
  enc_varint count ++ enc_varint (len raw) ++ raw ++ sync.

Lemma blk_is_block_bytes sync count raw : blk sync count raw = block_bytes sync count raw.
Proof. unfold blk, block_bytes, block_chunks. cbn [concat]. rewrite app_nil_r. reflexivity. Qed.

Section ReaderP.
  Variable decompress : bytes -> option bytes.
  Variable read_record : bytes -> out unit.
  Variable cb : nat -> option Z.
  Variable sync : bytes.
  Hypothesis Hsync : len sync = 16.

  (* n records decode one after the other from bs *)
  Fixpoint recs_ok (n : nat) (bs : bytes) {struct n} : Prop :=
    match n with
    | O => True
    | S n' => exists r, read_record bs = Done tt r /\ recs_ok n' r
    end.

  Definition cb_quiet (lo n : nat) : Prop := forall i, (lo <= i < lo + n)%nat -> cb i = None.

  Lemma read_records_all : forall n fuel idx bs,
    recs_ok n bs -> cb_quiet idx n -> (n < fuel)%nat ->
    read_records read_record cb fuel (Z.of_nat n) idx bs = ((idx + n)%nat, None).
  Proof.
    induction n as [|n IH]; intros fuel idx bs Hr Hq Hf; (destruct fuel as [|f]; [lia|]); cbn [read_records].
    - cbn [Z.of_nat Z.leb]. change (0 <=? 0) with true. cbv iota. f_equal. lia.
    - replace (Z.of_nat (S n) <=? 0) with false by lia. destruct Hr as (r & Hr1 & Hr2). rewrite Hr1.
      rewrite (Hq idx ltac:(lia)). replace (Z.of_nat (S n) - 1) with (Z.of_nat n) by lia.
      rewrite IH; [f_equal; lia|exact Hr2| |lia]. intros i Hi. apply Hq. lia.
  Qed.

  (* the callback fails at index idx + j: records idx .. idx+j were delivered, its error is the result *)
  Lemma read_records_cb : forall j n fuel idx bs e,
    recs_ok (S j) bs -> cb_quiet idx j -> cb (idx + j)%nat = Some e -> (j < n)%nat -> (n < fuel)%nat ->
    read_records read_record cb fuel (Z.of_nat n) idx bs = ((idx + j + 1)%nat, Some (FCb e)).
  Proof.
    induction j as [|j IH]; intros n fuel idx bs e Hr Hq Hc Hj Hf; (destruct fuel as [|f]; [lia|]); cbn [read_records];
      replace (Z.of_nat n <=? 0) with false by lia; destruct Hr as (r & Hr1 & Hr2); rewrite Hr1.
    - rewrite Nat.add_0_r in Hc. rewrite Hc. f_equal. lia.
    - rewrite (Hq idx ltac:(lia)). replace (Z.of_nat n - 1) with (Z.of_nat (n - 1)) by lia.
      rewrite (IH (n - 1)%nat f (S idx) r e Hr2); [f_equal; lia| | |lia|lia].
      + intros i Hi. apply Hq. lia.
      + replace (S idx + j)%nat with (idx + S j)%nat by lia. exact Hc.
  Qed.

  (* a block description: declared count, stored bytes, and what they decompress to *)
  Record vblock := { vb_count : nat; vb_raw : bytes; vb_payload : bytes }.
  Definition vb_ok (idx : nat) (b0 : vblock) : Prop :=
    decompress (vb_raw b0) = Some (vb_payload b0) /\ recs_ok (vb_count b0) (vb_payload b0) /\
    cb_quiet idx (vb_count b0) /\ Z.of_nat (vb_count b0) < two63 /\ len (vb_raw b0) < two63.
  Definition vb_bytes (b0 : vblock) : bytes := blk sync (Z.of_nat (vb_count b0)) (vb_raw b0).

  Fixpoint vbs_ok (idx : nat) (bl : list vblock) {struct bl} : Prop :=
    match bl with
    | [] => True
    | b0 :: r => vb_ok idx b0 /\ vbs_ok (idx + vb_count b0) r
    end.
  Definition total (bl : list vblock) : nat := fold_right (fun b0 acc => (vb_count b0 + acc)%nat) O bl.

  (* one well-formed block is consumed entirely *)
  Lemma read_block_step fuel idx b0 rest : vb_ok idx b0 ->
    read_blocks decompress read_record cb (S fuel) sync idx (vb_bytes b0 ++ rest)
    = read_blocks decompress read_record cb fuel sync (idx + vb_count b0) rest.
  Proof.
    intros (Hd & Hr & Hq & Hc & Hl). unfold vb_bytes, blk. rewrite <- !app_assoc. cbn [read_blocks].
    rewrite read_varint_enc by (unfold int64_ok, two63 in *; lia).
    rewrite read_varint_enc by (apply len_int64; exact Hl).
    rewrite read_full_app by reflexivity. rewrite Hd.
    rewrite Nat2Z.id. rewrite (read_records_all (vb_count b0) (S (vb_count b0)) idx _ Hr Hq (Nat.lt_succ_diag_r _)).
    rewrite read_full_app by exact Hsync. rewrite beqb_refl. reflexivity.
  Qed.

  (* C07: valid file body => all records, in order, success *)
  Theorem read_blocks_valid : forall bl fuel idx,
    vbs_ok idx bl -> (length bl < fuel)%nat ->
    read_blocks decompress read_record cb fuel sync idx (concat (map vb_bytes bl)) = ((idx + total bl)%nat, FOk).
  Proof.
    induction bl as [|b0 bl IH]; intros fuel idx Hok Hf; (destruct fuel as [|f]; [cbn in Hf; lia|]).
    - cbn. f_equal. lia.
    - destruct Hok as [Hb Hr]. cbn [map concat]. rewrite (read_block_step f idx b0 _ Hb).
      rewrite IH; [|exact Hr|cbn [length] in Hf; lia]. unfold total. cbn [fold_right]. f_equal. lia.
  Qed.
End ReaderP.

Section ReaderDamage.
  Variable decompress : bytes -> option bytes.
  Variable read_record : bytes -> out unit.
  Variable cb : nat -> option Z.
  Variable sync : bytes.
  Hypothesis Hsync : len sync = 16.

  Notation RB := (read_blocks decompress read_record cb).
  Notation vok := (vb_ok decompress read_record cb).
  Notation vsok := (vbs_ok decompress read_record cb).
  Notation vbytes := (vb_bytes sync).

  (* valid blocks in front are consumed, whatever follows *)
  Lemma read_blocks_prefix : forall bl fuel idx rest,
    vsok idx bl ->
    RB (length bl + fuel)%nat sync idx (concat (map vbytes bl) ++ rest) = RB fuel sync (idx + total bl)%nat rest.
  Proof.
    induction bl as [|b0 bl IH]; intros fuel idx rest Hok.
    - cbn. f_equal. lia.
    - destruct Hok as [Hb Hr]. cbn [map concat length Nat.add]. rewrite <- app_assoc.
      rewrite (read_block_step decompress read_record cb sync Hsync _ idx b0 _ Hb).
      rewrite IH by exact Hr. unfold total. cbn [fold_right]. f_equal. lia.
  Qed.

  (* C07: a block whose trailing sixteen bytes differ from the header's sync marker *)
  Theorem block_bad_sync fuel idx b0 sig rest :
    vok idx b0 -> len sig = 16 -> sig <> sync ->
    RB (S fuel) sync idx (enc_varint (Z.of_nat (vb_count b0)) ++ enc_varint (len (vb_raw b0)) ++ vb_raw b0 ++ sig ++ rest)
    = ((idx + vb_count b0)%nat, FErr).
  Proof.
    intros (Hd & Hr & Hq & Hc & Hl) Hs Hne. cbn [read_blocks].
    rewrite read_varint_enc by (unfold int64_ok, two63 in *; lia).
    rewrite read_varint_enc by (apply len_int64; exact Hl).
    rewrite read_full_app by reflexivity. rewrite Hd.
    rewrite Nat2Z.id. rewrite (read_records_all decompress read_record cb (vb_count b0) (S (vb_count b0)) idx _ Hr Hq (Nat.lt_succ_diag_r _)).
    rewrite read_full_app by exact Hs.
    destruct (bytes_eqb sig sync) eqn:E; [apply beqb_eq in E; contradiction|reflexivity].
  Qed.

  (* C07: the decompressor (or the snappy checksum inside it) rejects the stored bytes *)
  Theorem block_rejected_by_decompressor fuel idx count raw rest :
    int64_ok count -> len raw < two63 -> decompress raw = None ->
    RB (S fuel) sync idx (enc_varint count ++ enc_varint (len raw) ++ raw ++ rest) = (idx, FErr).
  Proof.
    intros Hc Hl Hd. cbn [read_blocks]. rewrite read_varint_enc by exact Hc.
    rewrite read_varint_enc by (apply len_int64; exact Hl). rewrite read_full_app by reflexivity. rewrite Hd. reflexivity.
  Qed.

  (* C07: the callback fails at record j of this block: records up to and including j were
     delivered, nothing after, and the callback's own error is the result *)
  Theorem block_callback_error fuel idx count raw payload j e rest :
    Z.of_nat count < two63 -> len raw < two63 -> decompress raw = Some payload ->
    recs_ok read_record (S j) payload -> cb_quiet cb idx j -> cb (idx + j)%nat = Some e -> (j < count)%nat ->
    RB (S fuel) sync idx (enc_varint (Z.of_nat count) ++ enc_varint (len raw) ++ raw ++ rest) = ((idx + j + 1)%nat, FCb e).
  Proof.
    intros Hc Hl Hd Hr Hq He Hj. cbn [read_blocks].
    rewrite read_varint_enc by (unfold int64_ok, two63 in *; lia).
    rewrite read_varint_enc by (apply len_int64; exact Hl). rewrite read_full_app by reflexivity. rewrite Hd.
    rewrite Nat2Z.id. rewrite (read_records_cb decompress read_record cb j count (S count) idx payload e Hr Hq He Hj ltac:(lia)). reflexivity.
  Qed.

  (* C08: a block cut short at byte k *)
  Definition payload_end (b0 : vblock) : nat :=
    (length (enc_varint (Z.of_nat (vb_count b0))) + length (enc_varint (len (vb_raw b0))) + length (vb_raw b0))%nat.

  Theorem block_truncated fuel idx b0 k :
    vok idx b0 -> (k < length (vbytes b0))%nat ->
    RB (S fuel) sync idx (firstn k (vbytes b0)) =
      match k with
      | O => (idx, FOk)
      | _ => if Nat.ltb k (payload_end b0) then (idx, FErr) else ((idx + vb_count b0)%nat, FErr)
      end.
  Proof.
    intros (Hd & Hr & Hq & Hc & Hl) Hk. unfold vb_bytes, blk in *. unfold payload_end.
    set (a := enc_varint (Z.of_nat (vb_count b0))) in *. set (b1 := enc_varint (len (vb_raw b0))) in *.
    set (raw := vb_raw b0) in *. set (pe := (length a + length b1 + length raw)%nat).
    assert (Hca : int64_ok (Z.of_nat (vb_count b0))) by (unfold int64_ok, two63 in *; lia).
    assert (Hcb : int64_ok (len raw)) by (apply len_int64; exact Hl).
    rewrite !app_length in Hk. assert (Hs16 : length sync = 16%nat) by (unfold len in Hsync; lia).
    destruct k as [|k']; [reflexivity|]. remember (S k') as k.
    destruct (Nat.ltb k (length a)) eqn:Ea.
    - (* inside the count *)
      apply Nat.ltb_lt in Ea. rewrite firstn_app_le by lia. cbn [read_blocks].
      assert (Hpe : Nat.ltb k pe = true) by (apply Nat.ltb_lt; unfold pe; lia). rewrite Hpe.
      unfold a. rewrite (read_varint_cut _ k Hca Ea). subst k. reflexivity.
    - apply Nat.ltb_ge in Ea. rewrite firstn_app_ge by lia. cbn [read_blocks]. unfold a at 1.
      rewrite read_varint_enc by exact Hca.
      destruct (Nat.ltb (k - length a) (length b1)) eqn:Eb.
      + (* inside the length *)
        apply Nat.ltb_lt in Eb. rewrite firstn_app_le by lia. unfold b1. rewrite (read_varint_cut _ _ Hcb Eb).
        assert (Hpe : Nat.ltb k pe = true) by (apply Nat.ltb_lt; unfold pe; lia). rewrite Hpe.
        destruct (k - length a)%nat; reflexivity.
      + apply Nat.ltb_ge in Eb. rewrite firstn_app_ge by lia. unfold b1 at 1. rewrite read_varint_enc by exact Hcb.
        destruct (Nat.ltb (k - length a - length b1) (length raw)) eqn:Er.
        * (* inside the stored bytes *)
          apply Nat.ltb_lt in Er. rewrite firstn_app_le by lia.
          rewrite read_full_short by (unfold len; rewrite firstn_length; lia).
          assert (Hpe : Nat.ltb k pe = true) by (apply Nat.ltb_lt; unfold pe; lia). rewrite Hpe. reflexivity.
        * (* stored bytes complete, cut inside the sync marker *)
          apply Nat.ltb_ge in Er. rewrite firstn_app_ge by lia. rewrite read_full_app by reflexivity. rewrite Hd.
          rewrite Nat2Z.id. rewrite (read_records_all decompress read_record cb (vb_count b0) (S (vb_count b0)) idx _ Hr Hq (Nat.lt_succ_diag_r _)).
          rewrite read_full_short by (unfold len; rewrite firstn_length; lia).
          assert (Hpe : Nat.ltb k pe = false) by (apply Nat.ltb_ge; unfold pe; lia). rewrite Hpe. reflexivity.
  Qed.

  (* C08 for a whole file body: the cut falls into block b0 after the valid blocks bl *)
  Theorem body_truncated bl b0 post fuel idx k :
    vsok idx bl -> vok (idx + total bl)%nat b0 -> (k < length (vbytes b0))%nat ->
    RB (length bl + S fuel)%nat sync idx
       (firstn (length (concat (map vbytes bl)) + k) (concat (map vbytes bl) ++ vbytes b0 ++ post)) =
      match k with
      | O => ((idx + total bl)%nat, FOk)
      | _ => if Nat.ltb k (payload_end b0) then ((idx + total bl)%nat, FErr)
             else ((idx + total bl + vb_count b0)%nat, FErr)
      end.
  Proof.
    intros Hbl Hb Hk. rewrite firstn_app_ge by lia.
    replace (length (concat (map vbytes bl)) + k - length (concat (map vbytes bl)))%nat with k by lia.
    rewrite firstn_app_le by lia. rewrite read_blocks_prefix by exact Hbl.
    rewrite (block_truncated fuel _ b0 k Hb Hk). reflexivity.
  Qed.

  (* ... and a cut exactly at the end of the valid blocks is a success *)
  Theorem body_cut_at_boundary bl post fuel idx :
    vsok idx bl ->
    RB (length bl + S fuel)%nat sync idx (firstn (length (concat (map vbytes bl))) (concat (map vbytes bl) ++ post))
    = ((idx + total bl)%nat, FOk).
  Proof.
    intros Hbl. rewrite firstn_app_le by lia. rewrite firstn_all.
    rewrite <- (app_nil_r (concat (map vbytes bl))). rewrite read_blocks_prefix by exact Hbl. reflexivity.
  Qed.
End ReaderDamage.

(* ---- header ---- *)
Open Scope string_scope.
Lemma read_header_bad_magic bs mg r : read_full 4 bs = Some (mg, r) -> mg <> magic -> read_header bs = None.
Proof.
  intros H Hne. unfold read_header. rewrite H. destruct (bytes_eqb mg magic) eqn:E; [apply beqb_eq in E; contradiction|reflexivity].
Qed.

Lemma read_header_short bs : len bs < 4 -> read_header bs = None.
Proof. intros H. unfold read_header. rewrite read_full_short by lia. reflexivity. Qed.

Lemma header_codec_cases h :
  (meta_get (h_meta h) (b "avro.codec") = None -> header_codec h = Some CkNull) /\
  (forall v, meta_get (h_meta h) (b "avro.codec") = Some v ->
     v <> b "null" -> v <> b "deflate" -> v <> b "snappy" -> header_codec h = None).
Proof.
  unfold header_codec. split.
  - intros ->. reflexivity.
  - intros v -> H1 H2 H3.
    destruct (bytes_eqb v (b "null")) eqn:E1; [apply beqb_eq in E1; contradiction|].
    destruct (bytes_eqb v (b "deflate")) eqn:E2; [apply beqb_eq in E2; contradiction|].
    destruct (bytes_eqb v (b "snappy")) eqn:E3; [apply beqb_eq in E3; contradiction|]. reflexivity.
Qed.
