(* C09 / C16 at any write granularity: the theorems about the writer speak of
   the byte stream; how it is cut into Write calls only decides where a failing
   writer stops.  For every way of cutting the same stream, what a failing
   writer holds is a prefix of the stream, the failure is reported exactly when
   a Write call was refused, and with the model's own cutting this is the
   stateful fault run of Model/Container.v. *)
From Coq Require Import List ZArith Lia Bool Arith.
Require Import Avro.Model.Base Avro.Model.Prim Avro.Model.Container Avro.Model.Writer.
Require Import Avro.Proofs.WriterP.
Import ListNotations.

Lemma rechunk_concat : forall lens bs, list_sum lens = length bs -> concat (rechunk lens bs) = bs.
Proof.
  induction lens as [|n r IH]; intros bs H; cbn [rechunk concat] in *; unfold list_sum in *; cbn [fold_right] in H.
  - destruct bs; [reflexivity|discriminate].
  - rewrite IH; [apply firstn_skipn|]. rewrite skipn_length. lia.
Qed.

Lemma rechunk_own : forall chunks : list bytes, rechunk (map (@length Z) chunks) (concat chunks) = chunks.
Proof.
  induction chunks as [|c cs IH]; [reflexivity|]. cbn [map rechunk concat].
  rewrite firstn_app, Nat.sub_diag, firstn_all, firstn_O, app_nil_r.
  rewrite skipn_app, Nat.sub_diag, skipn_all, skipn_O. cbn [app]. rewrite IH. reflexivity.
Qed.

Lemma rechunk_length : forall lens bs, length (rechunk lens bs) = length lens.
Proof. induction lens as [|n r IH]; intros bs; cbn [rechunk length]; [reflexivity|]. rewrite IH. reflexivity. Qed.

Lemma fault_of_chunks_prefix chunks k p : exists tail, concat chunks = fst (fault_of_chunks chunks k p) ++ tail.
Proof.
  unfold fault_of_chunks. destruct (feed_prefix chunks k p) as [tail H]. exists tail.
  destruct (feed chunks k p) as [acc [k'|]]; exact H.
Qed.

Lemma fault_of_chunks_reported chunks k p :
  (snd (fault_of_chunks chunks k p) = true <-> (k < length chunks)%nat) /\
  (snd (fault_of_chunks chunks k p) = false -> fst (fault_of_chunks chunks k p) = concat chunks).
Proof.
  unfold fault_of_chunks. rewrite feed_spec.
  destruct (Nat.ltb_spec k (length chunks)) as [H|H]; cbn [fst snd].
  - split; [split; intros _; [exact H|reflexivity]|intros D; discriminate D].
  - split; [split; intros D; [discriminate D|lia]|intros _; reflexivity].
Qed.

Section AnyGranularity.
  Variable compress : bytes -> bytes.
  Variable schema_json codec_name sync : bytes.
  Variable size : Z.

  (* the model's own cutting: the stateful fault run *)
  Lemma file_run_fault_is_fault_of_chunks ops k p :
    file_run_fault compress schema_json codec_name sync size ops k p =
    fault_of_chunks (file_chunks compress schema_json codec_name sync size ops) k p.
  Proof.
    rewrite file_run_fault_feed. unfold fault_result, fault_of_chunks.
    destruct (feed (file_chunks compress schema_json codec_name sync size ops) k p) as [acc [k'|]]; reflexivity.
  Qed.

  (* any cutting of the same stream *)
  Theorem fault_any_granularity ops lens k p :
    let stream := concat (file_chunks compress schema_json codec_name sync size ops) in
    list_sum lens = length stream ->
    let r := fault_of_chunks (rechunk lens stream) k p in
    (exists tail, stream = fst r ++ tail) /\
    (snd r = true <-> (k < length lens)%nat) /\
    (snd r = false -> fst r = stream).
  Proof.
    cbv zeta. intros Hs.
    pose proof (rechunk_concat lens _ Hs) as Hc.
    destruct (fault_of_chunks_prefix (rechunk lens (concat (file_chunks compress schema_json codec_name sync size ops))) k p) as [tail Ht].
    destruct (fault_of_chunks_reported (rechunk lens (concat (file_chunks compress schema_json codec_name sync size ops))) k p) as [Hr1 Hr2].
    rewrite Hc in Ht. rewrite rechunk_length in Hr1. rewrite Hc in Hr2.
    split; [exists tail; exact Ht|]. split; [exact Hr1|exact Hr2].
  Qed.
End AnyGranularity.
