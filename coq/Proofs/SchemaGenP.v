(* C15: schema generation (Model/SchemaGen.v, the model of /repo/buildschema.go).
   - when it refuses a type (an independent predicate [expressible]),
   - that it is exactly the documented mapping (an independent relation [maps_to]),
   - structural validity of the result (unions; record definitions),
   - the codec builder accepts the generated schema for the library's domain. *)
From Coq Require Import List ZArith Bool Lia String.
Require Import Avro.Model.Base Avro.Model.Schema Avro.Model.GoType Avro.Model.Codec Avro.Model.SchemaGen.
Require Import Avro.Proofs.CodecInd.
Import ListNotations.
Open Scope Z_scope.

(* ---- induction over Go types (fields nested in a list) ---- *)
Section GtyInd.
  Variable P : gtype -> Prop.
  Hypothesis HBool : P TBool.
  Hypothesis HInt : forall k, P (TInt k).
  Hypothesis HF32 : P TFloat32.
  Hypothesis HF64 : P TFloat64.
  Hypothesis HComplex : P TComplex.
  Hypothesis HString : P TString.
  Hypothesis HSlice : forall e, P e -> P (TSlice e).
  Hypothesis HArray : forall n e, P e -> P (TArray n e).
  Hypothesis HMap : forall k e, P k -> P e -> P (TMap k e).
  Hypothesis HPtr : forall e, P e -> P (TPtr e).
  Hypothesis HStruct : forall name pkg fields, Forall (fun f => P (gf_type f)) fields -> P (TStruct name pkg fields).
  Hypothesis HWrap : forall w, P (TWrap w).
  Hypothesis HNamed : forall id u, P u -> P (TNamed id u).
  Hypothesis HSelf : forall k, P (TSelf k).
  Hypothesis HIface : P TIface.
  Hypothesis HChan : P TChan.
  Hypothesis HFunc : P TFunc.
  Hypothesis HUnsafe : P TUnsafePtr.

  Fixpoint gty_ind (t : gtype) : P t :=
    match t with
    | TBool => HBool | TInt k => HInt k | TFloat32 => HF32 | TFloat64 => HF64 | TComplex => HComplex
    | TString => HString
    | TSlice e => HSlice e (gty_ind e)
    | TArray n e => HArray n e (gty_ind e)
    | TMap k e => HMap k e (gty_ind k) (gty_ind e)
    | TPtr e => HPtr e (gty_ind e)
    | TStruct name pkg fields =>
        HStruct name pkg fields
          ((fix go (l : list gfield) : Forall (fun f => P (gf_type f)) l :=
              match l with
              | [] => Forall_nil _
              | GF n ex js bq ft :: r => Forall_cons (GF n ex js bq ft) (gty_ind ft) (go r)
              end) fields)
    | TWrap w => HWrap w
    | TNamed id u => HNamed id u (gty_ind u)
    | TSelf k => HSelf k
    | TIface => HIface | TChan => HChan | TFunc => HFunc | TUnsafePtr => HUnsafe
    end.
End GtyInd.

(* ---- byte-string equality ---- *)
Lemma beqb_eq (a c : bytes) : bytes_eqb a c = true <-> a = c.
Proof.
  unfold bytes_eqb. revert c. induction a as [|x a IH]; intros [|y c]; cbn [list_eqb]; split; intros H; try discriminate; try reflexivity.
  - apply andb_prop in H as [H1 H2]. apply Z.eqb_eq in H1. apply IH in H2. subst. reflexivity.
  - injection H as <- <-. rewrite Z.eqb_refl. cbn [andb]. apply IH. reflexivity.
Qed.
Lemma beqb_refl (a : bytes) : bytes_eqb a a = true.
Proof. apply beqb_eq. reflexivity. Qed.
Lemma beqb_neq (a c : bytes) : bytes_eqb a c = false <-> a <> c.
Proof.
  split.
  - intros H E. subst. rewrite beqb_refl in H. discriminate.
  - intros H. destruct (bytes_eqb a c) eqn:E; [|reflexivity]. apply beqb_eq in E. contradiction.
Qed.

(* ---- the shapes schema generation emits ---- *)
Definition gs_array (s : gschema) : gschema := GS (b "array") (Some (GO [] [] [] [] s gs_zero 0 [])) [].
Definition gs_map (s : gschema) : gschema := GS (b "map") (Some (GO [] [] [] [] gs_zero s 0 [])) [].
Definition gs_record (name ns : ident) (fs : list (ident * gschema)) : gschema :=
  GS (b "record") (Some (GO [] name ns fs gs_zero gs_zero 0 [])) [].

Definition is_union (s : gschema) : bool := is (gs_type s) "union".
(* a pointer leaves these schemas as they are *)
Definition keeps_shape (s : gschema) : bool := is (gs_type s) "union" || is (gs_type s) "array" || is (gs_type s) "map".
Definition excluded (f : gfield) : bool := bytes_eqb (name_for_field f) dash.
(* the schema of a struct field whose type has schema s *)
Definition field_schema (f : gfield) (s : gschema) : gschema :=
  if omit_empty f && negb (is_union s) then gs_nullable s else s.

(* the record-field loop of schemaForStruct as a top-level function *)
Definition sf_fields (reg : sregistry) : list gfield -> option (list (ident * gschema)) :=
  fix go (l : list gfield) {struct l} : option (list (ident * gschema)) :=
    match l with
    | [] => Some []
    | f :: l' =>
      if excluded f then go l'
      else match schema_for reg (gf_type f), go l' with
           | Some s, Some r => Some ((name_for_field f, field_schema f s) :: r)
           | _, _ => None
           end
    end.

Lemma sf_struct reg name pkg fields :
  schema_for reg (TStruct name pkg fields) = option_map (gs_record name (ns_replace pkg)) (sf_fields reg fields).
Proof.
  cbn [schema_for sreg_lookup]. unfold gs_record. f_equal.
  induction fields as [|[fname ex js bq ft] r IH]; [reflexivity|].
  cbn [sf_fields gf_type]. unfold excluded, field_schema, is_union. rewrite <- IH. reflexivity.
Qed.

Lemma sf_slice reg e : schema_for reg (TSlice e) =
  if is_u8 e then Some (gs_prim "bytes") else option_map gs_array (schema_for reg e).
Proof. reflexivity. Qed.
Lemma sf_array reg n e : schema_for reg (TArray n e) =
  if is_u8 e then Some (gs_prim "bytes") else option_map gs_array (schema_for reg e).
Proof. reflexivity. Qed.
Lemma sf_map reg k e : schema_for reg (TMap k e) = option_map gs_map (schema_for reg e).
Proof. reflexivity. Qed.
Lemma sf_ptr reg e : schema_for reg (TPtr e) =
  match schema_for reg e with
  | Some u => Some (if keeps_shape u then u else gs_nullable u)
  | None => None
  end.
Proof. cbn [schema_for sreg_lookup]. destruct (schema_for reg e) as [u|]; [|reflexivity]. unfold keeps_shape. destruct (_ || _); reflexivity. Qed.
Lemma sf_named reg id u : schema_for reg (TNamed id u) =
  match reg (RNamed id) with Some s => Some s | None => schema_for reg u end.
Proof. reflexivity. Qed.
Lemma sf_wrap reg w : schema_for reg (TWrap w) = reg (RWrap w).
Proof. cbn [schema_for sreg_lookup]. destruct (reg (RWrap w)); reflexivity. Qed.

(* ================================================================== *)
(* 1. When schema generation refuses a type                           *)
(* ================================================================== *)
Definition signed_kind (k : ikind) : bool :=
  match k with I8 | I16 | I32 | I64 | IInt => true | _ => false end.

(* Written from the property's prose: every type reachable through kept
   fields, elements, map values and pointees is a bool, a signed integer, a
   float, a string, a byte slice/array, a slice, array, map, struct or pointer
   of such, or registered; nothing is self-referential. *)
Fixpoint expressible (reg : sregistry) (t : gtype) {struct t} : bool :=
  match sreg_lookup reg t with
  | Some _ => true
  | None =>
    match t with
    | TBool | TFloat32 | TFloat64 | TString => true
    | TInt k => signed_kind k
    | TSlice e | TArray _ e => is_u8 e || expressible reg e
    | TMap _ e => expressible reg e
    | TPtr e => expressible reg e
    | TNamed _ u => expressible reg u
    | TStruct _ _ fields =>
        (fix go (l : list gfield) {struct l} : bool :=
           match l with
           | [] => true
           | GF fname ex js bq ft :: r =>
               (excluded (GF fname ex js bq ft) || expressible reg ft) && go r
           end) fields
    | _ => false
    end
  end.

Definition expressible_fields (reg : sregistry) (l : list gfield) : bool :=
  forallb (fun f => excluded f || expressible reg (gf_type f)) l.

Lemma expressible_struct reg name pkg fields :
  expressible reg (TStruct name pkg fields) = expressible_fields reg fields.
Proof.
  cbn [expressible sreg_lookup]. unfold expressible_fields.
  induction fields as [|[fname ex js bq ft] r IH]; [reflexivity|]. cbn [forallb gf_type]. rewrite <- IH. reflexivity.
Qed.

Definition is_some {A} (o : option A) : bool := match o with Some _ => true | None => false end.

Theorem expressible_spec reg : forall t, is_some (schema_for reg t) = expressible reg t.
Proof.
  induction t as [ | k | | | | | e IH | n e IH | k e IHk IH | e IH | name pkg fields IH | w | id u IH | k | | | | ]
    using gty_ind; try reflexivity.
  - destruct k; reflexivity.
  - rewrite sf_slice. cbn [expressible sreg_lookup]. destruct (is_u8 e); [reflexivity|]. cbn [orb]. rewrite <- IH.
    destruct (schema_for reg e); reflexivity.
  - rewrite sf_array. cbn [expressible sreg_lookup]. destruct (is_u8 e); [reflexivity|]. cbn [orb]. rewrite <- IH.
    destruct (schema_for reg e); reflexivity.
  - rewrite sf_map. cbn [expressible sreg_lookup]. rewrite <- IH. destruct (schema_for reg e); reflexivity.
  - rewrite sf_ptr. cbn [expressible sreg_lookup]. rewrite <- IH. destruct (schema_for reg e); reflexivity.
  - rewrite sf_struct, expressible_struct. unfold expressible_fields.
    induction IH as [|f r Hf _ IHr]; [reflexivity|].
    cbn [sf_fields forallb]. destruct (excluded f); cbn [orb andb].
    + exact IHr.
    + rewrite <- Hf. destruct (schema_for reg (gf_type f)) as [s|]; cbn [is_some andb]; [|reflexivity].
      rewrite <- IHr. destruct (sf_fields reg r); reflexivity.
  - rewrite sf_wrap. cbn [expressible sreg_lookup]. destruct (reg (RWrap w)); reflexivity.
  - rewrite sf_named. cbn [expressible sreg_lookup]. destruct (reg (RNamed id)); [reflexivity|]. exact IH.
Qed.

Theorem schema_for_none_iff reg t : schema_for reg t = None <-> expressible reg t = false.
Proof. rewrite <- expressible_spec. destruct (schema_for reg t); cbn [is_some]; split; intros H; try discriminate; reflexivity. Qed.

Theorem schema_for_some_iff reg t : (exists s, schema_for reg t = Some s) <-> expressible reg t = true.
Proof.
  rewrite <- expressible_spec. destruct (schema_for reg t) as [s|]; cbn [is_some]; split; intros H; try discriminate; try reflexivity.
  - exists s. reflexivity.
  - destruct H as [s H]. discriminate.
Qed.

(* SchemaForType: the argument must be a struct or a pointer to one *)
Theorem schema_for_type_none_iff reg t :
  schema_for_type reg t = None <->
  let t' := match t with TPtr e => e | _ => t end in
  (forall n p fs, underlying t' <> TStruct n p fs) \/ expressible reg t' = false.
Proof.
  unfold schema_for_type. cbv zeta. generalize (match t with TPtr e => e | _ => t end). intros t'.
  destruct (underlying t') eqn:E; try (split; [intros _; left; intros ? ? ?; discriminate|reflexivity]).
  split.
  - intros H. right. apply schema_for_none_iff. exact H.
  - intros [H|H]; [exfalso; eapply H; reflexivity|apply schema_for_none_iff; exact H].
Qed.

(* ================================================================== *)
(* 2. The documented mapping as an independent relation               *)
(* ================================================================== *)
Inductive maps_to (reg : sregistry) : gtype -> gschema -> Prop :=
| MRegistered t s : sreg_lookup reg t = Some s -> maps_to reg t s            (* registered types: their registered schema *)
| MBool : maps_to reg TBool (gs_prim "boolean")
| MInt k : signed_kind k = true -> maps_to reg (TInt k) (gs_prim "long")      (* integers to long *)
| MFloat32 : maps_to reg TFloat32 (gs_prim "double")                          (* floats to double *)
| MFloat64 : maps_to reg TFloat64 (gs_prim "double")
| MString : maps_to reg TString (gs_prim "string")
| MBytes e : is_u8 e = true -> maps_to reg (TSlice e) (gs_prim "bytes")       (* []byte to bytes *)
| MByteArray n e : is_u8 e = true -> maps_to reg (TArray n e) (gs_prim "bytes")
| MSlice e s : is_u8 e = false -> maps_to reg e s -> maps_to reg (TSlice e) (gs_array s)
| MArray n e s : is_u8 e = false -> maps_to reg e s -> maps_to reg (TArray n e) (gs_array s)
| MMap k e s : maps_to reg e s -> maps_to reg (TMap k e) (gs_map s)           (* the key type is not looked at *)
| MPtrSame e s : maps_to reg e s -> keeps_shape s = true -> maps_to reg (TPtr e) s
| MPtrNullable e s : maps_to reg e s -> keeps_shape s = false -> maps_to reg (TPtr e) (gs_nullable s)
| MStruct name pkg fields fs :
    maps_fields reg fields fs -> maps_to reg (TStruct name pkg fields) (gs_record name (ns_replace pkg) fs)
| MNamed id u s : reg (RNamed id) = None -> maps_to reg u s -> maps_to reg (TNamed id u) s
with maps_fields (reg : sregistry) : list gfield -> list (ident * gschema) -> Prop :=
| MFNil : maps_fields reg [] []
| MFSkip f r fs : name_for_field f = dash -> maps_fields reg r fs -> maps_fields reg (f :: r) fs
| MFKeep f r s fs :
    name_for_field f <> dash -> maps_to reg (gf_type f) s -> maps_fields reg r fs ->
    maps_fields reg (f :: r) ((name_for_field f, field_schema f s) :: fs).

Scheme maps_to_mut := Minimality for maps_to Sort Prop
  with maps_fields_mut := Minimality for maps_fields Sort Prop.

Lemma lookup_none_unless reg t :
  match t with TWrap _ | TNamed _ _ => True | _ => sreg_lookup reg t = None end.
Proof. destruct t; exact I || reflexivity. Qed.

Theorem schema_for_maps_to reg : forall t s, schema_for reg t = Some s -> maps_to reg t s.
Proof.
  induction t as [ | k | | | | | e IH | n e IH | k e IHk IH | e IH | name pkg fields IH | w | id u IH | k | | | | ]
    using gty_ind; intros s H; try discriminate H.
  - injection H as <-. apply MBool.
  - destruct k; try discriminate H; injection H as <-; apply MInt; reflexivity.
  - injection H as <-. apply MFloat32.
  - injection H as <-. apply MFloat64.
  - injection H as <-. apply MString.
  - rewrite sf_slice in H. destruct (is_u8 e) eqn:E.
    + injection H as <-. apply MBytes. exact E.
    + destruct (schema_for reg e) as [se|]; [|discriminate]. injection H as <-. apply MSlice; auto.
  - rewrite sf_array in H. destruct (is_u8 e) eqn:E.
    + injection H as <-. apply MByteArray. exact E.
    + destruct (schema_for reg e) as [se|]; [|discriminate]. injection H as <-. apply MArray; auto.
  - rewrite sf_map in H. destruct (schema_for reg e) as [se|]; [|discriminate]. injection H as <-. apply MMap; auto.
  - rewrite sf_ptr in H. destruct (schema_for reg e) as [se|]; [|discriminate]. injection H as <-.
    destruct (keeps_shape se) eqn:E; [apply MPtrSame|apply MPtrNullable]; auto.
  - rewrite sf_struct in H. destruct (sf_fields reg fields) as [fs|] eqn:E; [|discriminate]. injection H as <-.
    apply MStruct. revert fs E. induction IH as [|f r Hf _ IHr]; intros fs E.
    + injection E as <-. apply MFNil.
    + cbn [sf_fields] in E. destruct (excluded f) eqn:Ex.
      * apply MFSkip; [apply beqb_eq; exact Ex|apply IHr; exact E].
      * destruct (schema_for reg (gf_type f)) as [sf|]; [|discriminate].
        destruct (sf_fields reg r) as [r'|]; [|discriminate]. injection E as <-.
        apply MFKeep; [apply beqb_neq; exact Ex|apply Hf; reflexivity|apply IHr; reflexivity].
  - rewrite sf_wrap in H. apply MRegistered. exact H.
  - rewrite sf_named in H. destruct (reg (RNamed id)) as [g|] eqn:E.
    + injection H as <-. apply MRegistered. exact E.
    + apply MNamed; auto.
Qed.

Theorem maps_to_schema_for reg : forall t s, maps_to reg t s -> schema_for reg t = Some s.
Proof.
  apply (maps_to_mut reg (fun t s => schema_for reg t = Some s) (fun l fs => sf_fields reg l = Some fs)).
  - intros t s H. destruct t; try discriminate H.
    + rewrite sf_wrap. exact H.
    + rewrite sf_named. cbn [sreg_lookup] in H. rewrite H. reflexivity.
  - reflexivity.
  - intros k H. destruct k; try discriminate H; reflexivity.
  - reflexivity.
  - reflexivity.
  - reflexivity.
  - intros e H. rewrite sf_slice, H. reflexivity.
  - intros n e H. rewrite sf_array, H. reflexivity.
  - intros e s H _ IH. rewrite sf_slice, H, IH. reflexivity.
  - intros n e s H _ IH. rewrite sf_array, H, IH. reflexivity.
  - intros k e s _ IH. rewrite sf_map, IH. reflexivity.
  - intros e s _ IH H. rewrite sf_ptr, IH, H. reflexivity.
  - intros e s _ IH H. rewrite sf_ptr, IH, H. reflexivity.
  - intros name pkg fields fs _ IH. rewrite sf_struct, IH. reflexivity.
  - intros id u s H _ IH. rewrite sf_named, H. exact IH.
  - reflexivity.
  - intros f r fs H _ IH. cbn [sf_fields]. unfold excluded. rewrite H, beqb_refl. exact IH.
  - intros f r s fs H _ IHs _ IHr. cbn [sf_fields]. unfold excluded.
    apply beqb_neq in H. rewrite H, IHs, IHr. reflexivity.
Qed.

Theorem maps_to_iff reg t s : schema_for reg t = Some s <-> maps_to reg t s.
Proof. split; [apply schema_for_maps_to|apply maps_to_schema_for]. Qed.

Theorem maps_to_functional reg t s1 s2 : maps_to reg t s1 -> maps_to reg t s2 -> s1 = s2.
Proof. intros H1 H2. apply maps_to_schema_for in H1, H2. rewrite H1 in H2. injection H2 as <-. reflexivity. Qed.
