(* C15: schema generation (Model/SchemaGen.v, the model of /repo/buildschema.go).
   - when it refuses a type (an independent predicate [expressible]),
   - that it is exactly the documented mapping (an independent relation [maps_to]),
   - structural validity of the result (unions; record definitions),
   - the codec builder accepts the generated schema for the library's domain. *)
From Coq Require Import List ZArith Bool Lia String.
Require Import Avro.Model.Base Avro.Model.Schema Avro.Model.GoType Avro.Model.Codec Avro.Model.SchemaGen.
Require Import Avro.Proofs.CodecInd.
Import ListNotations.
Open Scope Z_scope.

(* ---- induction over Go types (fields nested in a list) ---- *)
Section GtyInd.
  Variable P : gtype -> Prop.
  Hypothesis HBool : P TBool.
  Hypothesis HInt : forall k, P (TInt k).
  Hypothesis HF32 : P TFloat32.
  Hypothesis HF64 : P TFloat64.
  Hypothesis HComplex : P TComplex.
  Hypothesis HString : P TString.
  Hypothesis HSlice : forall e, P e -> P (TSlice e).
  Hypothesis HArray : forall n e, P e -> P (TArray n e).
  Hypothesis HMap : forall k e, P k -> P e -> P (TMap k e).
  Hypothesis HPtr : forall e, P e -> P (TPtr e).
  Hypothesis HStruct : forall name pkg fields, Forall (fun f => P (gf_type f)) fields -> P (TStruct name pkg fields).
  Hypothesis HWrap : forall w, P (TWrap w).
  Hypothesis HNamed : forall id u, P u -> P (TNamed id u).
  Hypothesis HSelf : forall k, P (TSelf k).
  Hypothesis HIface : P TIface.
  Hypothesis HChan : P TChan.
  Hypothesis HFunc : P TFunc.
  Hypothesis HUnsafe : P TUnsafePtr.

  Fixpoint gty_ind (t : gtype) : P t :=
    match t with
    | TBool => HBool | TInt k => HInt k | TFloat32 => HF32 | TFloat64 => HF64 | TComplex => HComplex
    | TString => HString
    | TSlice e => HSlice e (gty_ind e)
    | TArray n e => HArray n e (gty_ind e)
    | TMap k e => HMap k e (gty_ind k) (gty_ind e)
    | TPtr e => HPtr e (gty_ind e)
    | TStruct name pkg fields =>
        HStruct name pkg fields
          ((fix go (l : list gfield) : Forall (fun f => P (gf_type f)) l :=
              match l with
              | [] => Forall_nil _
              | GF n ex js bq ft :: r => Forall_cons (GF n ex js bq ft) (gty_ind ft) (go r)
              end) fields)
    | TWrap w => HWrap w
    | TNamed id u => HNamed id u (gty_ind u)
    | TSelf k => HSelf k
    | TIface => HIface | TChan => HChan | TFunc => HFunc | TUnsafePtr => HUnsafe
    end.
End GtyInd.

(* ---- byte-string equality ---- *)
Lemma beqb_eq (a c : bytes) : bytes_eqb a c = true <-> a = c.
Proof.
  unfold bytes_eqb. revert c. induction a as [|x a IH]; intros [|y c]; cbn [list_eqb]; split; intros H; try discriminate; try reflexivity.
  - apply andb_prop in H as [H1 H2]. apply Z.eqb_eq in H1. apply IH in H2. subst. reflexivity.
  - injection H as <- <-. rewrite Z.eqb_refl. cbn [andb]. apply IH. reflexivity.
Qed.
Lemma beqb_refl (a : bytes) : bytes_eqb a a = true.
Proof. apply beqb_eq. reflexivity. Qed.
Lemma beqb_neq (a c : bytes) : bytes_eqb a c = false <-> a <> c.
Proof.
  split.
  - intros H E. subst. rewrite beqb_refl in H. discriminate.
  - intros H. destruct (bytes_eqb a c) eqn:E; [|reflexivity]. apply beqb_eq in E. contradiction.
Qed.

(* ---- the shapes schema generation emits ---- *)
Definition gs_array (s : gschema) : gschema := GS (b "array") (Some (GO [] [] [] [] s gs_zero 0 [])) [].
Definition gs_map (s : gschema) : gschema := GS (b "map") (Some (GO [] [] [] [] gs_zero s 0 [])) [].
Definition gs_record (name ns : ident) (fs : list (ident * gschema)) : gschema :=
  GS (b "record") (Some (GO [] name ns fs gs_zero gs_zero 0 [])) [].

Definition is_union (s : gschema) : bool := is (gs_type s) "union".
(* a pointer leaves these schemas as they are *)
Definition keeps_shape (s : gschema) : bool := is (gs_type s) "union" || is (gs_type s) "array" || is (gs_type s) "map".
Definition excluded (f : gfield) : bool := bytes_eqb (name_for_field f) dash.
(* the schema of a struct field whose type has schema s *)
Definition field_schema (f : gfield) (s : gschema) : gschema :=
  if omit_empty f && negb (is_union s) then gs_nullable s else s.

(* the record-field loop of schemaForStruct as a top-level function *)
Definition sf_fields (reg : sregistry) : list gfield -> option (list (ident * gschema)) :=
  fix go (l : list gfield) {struct l} : option (list (ident * gschema)) :=
    match l with
    | [] => Some []
    | f :: l' =>
      if excluded f then go l'
      else match schema_for reg (gf_type f), go l' with
           | Some s, Some r => Some ((name_for_field f, field_schema f s) :: r)
           | _, _ => None
           end
    end.

Lemma sf_struct reg name pkg fields :
  schema_for reg (TStruct name pkg fields) = option_map (gs_record name (ns_replace pkg)) (sf_fields reg fields).
Proof.
  cbn [schema_for sreg_lookup]. unfold gs_record. f_equal.
  induction fields as [|[fname ex js bq ft] r IH]; [reflexivity|].
  cbn [sf_fields gf_type]. unfold excluded, field_schema, is_union. rewrite <- IH. reflexivity.
Qed.

Lemma sf_slice reg e : schema_for reg (TSlice e) =
  if is_u8 e then Some (gs_prim "bytes") else option_map gs_array (schema_for reg e).
Proof. reflexivity. Qed.
Lemma sf_array reg n e : schema_for reg (TArray n e) =
  if is_u8 e then Some (gs_prim "bytes") else option_map gs_array (schema_for reg e).
Proof. reflexivity. Qed.
Lemma sf_map reg k e : schema_for reg (TMap k e) = option_map gs_map (schema_for reg e).
Proof. reflexivity. Qed.
Lemma sf_ptr reg e : schema_for reg (TPtr e) =
  match schema_for reg e with
  | Some u => Some (if keeps_shape u then u else gs_nullable u)
  | None => None
  end.
Proof. cbn [schema_for sreg_lookup]. destruct (schema_for reg e) as [u|]; [|reflexivity]. unfold keeps_shape. destruct (_ || _); reflexivity. Qed.
Lemma sf_named reg id u : schema_for reg (TNamed id u) =
  match reg (RNamed id) with Some s => Some s | None => schema_for reg u end.
Proof. reflexivity. Qed.
Lemma sf_wrap reg w : schema_for reg (TWrap w) = reg (RWrap w).
Proof. cbn [schema_for sreg_lookup]. destruct (reg (RWrap w)); reflexivity. Qed.

(* ================================================================== *)
(* 1. When schema generation refuses a type                           *)
(* ================================================================== *)
Definition signed_kind (k : ikind) : bool :=
  match k with I8 | I16 | I32 | I64 | IInt => true | _ => false end.

(* Written from the property's prose: every type reachable through kept
   fields, elements, map values and pointees is a bool, a signed integer, a
   float, a string, a byte slice/array, a slice, array, map, struct or pointer
   of such, or registered; nothing is self-referential. *)
Fixpoint expressible (reg : sregistry) (t : gtype) {struct t} : bool :=
  match sreg_lookup reg t with
  | Some _ => true
  | None =>
    match t with
    | TBool | TFloat32 | TFloat64 | TString => true
    | TInt k => signed_kind k
    | TSlice e | TArray _ e => is_u8 e || expressible reg e
    | TMap _ e => expressible reg e
    | TPtr e => expressible reg e
    | TNamed _ u => expressible reg u
    | TStruct _ _ fields =>
        (fix go (l : list gfield) {struct l} : bool :=
           match l with
           | [] => true
           | GF fname ex js bq ft :: r =>
               (excluded (GF fname ex js bq ft) || expressible reg ft) && go r
           end) fields
    | _ => false
    end
  end.

Definition expressible_fields (reg : sregistry) (l : list gfield) : bool :=
  forallb (fun f => excluded f || expressible reg (gf_type f)) l.

Lemma expressible_struct reg name pkg fields :
  expressible reg (TStruct name pkg fields) = expressible_fields reg fields.
Proof.
  cbn [expressible sreg_lookup]. unfold expressible_fields.
  induction fields as [|[fname ex js bq ft] r IH]; [reflexivity|]. cbn [forallb gf_type]. rewrite <- IH. reflexivity.
Qed.

Definition is_some {A} (o : option A) : bool := match o with Some _ => true | None => false end.

Theorem expressible_spec reg : forall t, is_some (schema_for reg t) = expressible reg t.
Proof.
  induction t as [ | k | | | | | e IH | n e IH | k e IHk IH | e IH | name pkg fields IH | w | id u IH | k | | | | ]
    using gty_ind; try reflexivity.
  - destruct k; reflexivity.
  - rewrite sf_slice. cbn [expressible sreg_lookup]. destruct (is_u8 e); [reflexivity|]. cbn [orb]. rewrite <- IH.
    destruct (schema_for reg e); reflexivity.
  - rewrite sf_array. cbn [expressible sreg_lookup]. destruct (is_u8 e); [reflexivity|]. cbn [orb]. rewrite <- IH.
    destruct (schema_for reg e); reflexivity.
  - rewrite sf_map. cbn [expressible sreg_lookup]. rewrite <- IH. destruct (schema_for reg e); reflexivity.
  - rewrite sf_ptr. cbn [expressible sreg_lookup]. rewrite <- IH. destruct (schema_for reg e); reflexivity.
  - rewrite sf_struct, expressible_struct. unfold expressible_fields.
    induction IH as [|f r Hf _ IHr]; [reflexivity|].
    cbn [sf_fields forallb]. destruct (excluded f); cbn [orb andb].
    + exact IHr.
    + rewrite <- Hf. destruct (schema_for reg (gf_type f)) as [s|]; cbn [is_some andb]; [|reflexivity].
      rewrite <- IHr. destruct (sf_fields reg r); reflexivity.
  - rewrite sf_wrap. cbn [expressible sreg_lookup]. destruct (reg (RWrap w)); reflexivity.
  - rewrite sf_named. cbn [expressible sreg_lookup]. destruct (reg (RNamed id)); [reflexivity|]. exact IH.
Qed.

Theorem schema_for_none_iff reg t : schema_for reg t = None <-> expressible reg t = false.
Proof. rewrite <- expressible_spec. destruct (schema_for reg t); cbn [is_some]; split; intros H; try discriminate; reflexivity. Qed.

Theorem schema_for_some_iff reg t : (exists s, schema_for reg t = Some s) <-> expressible reg t = true.
Proof.
  rewrite <- expressible_spec. destruct (schema_for reg t) as [s|]; cbn [is_some]; split; intros H; try discriminate; try reflexivity.
  - exists s. reflexivity.
  - destruct H as [s H]. discriminate.
Qed.

(* SchemaForType: the argument must be a struct or a pointer to one *)
Theorem schema_for_type_none_iff reg t :
  schema_for_type reg t = None <->
  let t' := match t with TPtr e => e | _ => t end in
  (forall n p fs, underlying t' <> TStruct n p fs) \/ expressible reg t' = false.
Proof.
  unfold schema_for_type. cbv zeta. generalize (match t with TPtr e => e | _ => t end). intros t'.
  destruct (underlying t') eqn:E; try (split; [intros _; left; intros ? ? ?; discriminate|reflexivity]).
  split.
  - intros H. right. apply schema_for_none_iff. exact H.
  - intros [H|H]; [exfalso; eapply H; reflexivity|apply schema_for_none_iff; exact H].
Qed.

(* ================================================================== *)
(* 2. The documented mapping as an independent relation               *)
(* ================================================================== *)
Inductive maps_to (reg : sregistry) : gtype -> gschema -> Prop :=
| MRegistered t s : sreg_lookup reg t = Some s -> maps_to reg t s            (* registered types: their registered schema *)
| MBool : maps_to reg TBool (gs_prim "boolean")
| MInt k : signed_kind k = true -> maps_to reg (TInt k) (gs_prim "long")      (* integers to long *)
| MFloat32 : maps_to reg TFloat32 (gs_prim "double")                          (* floats to double *)
| MFloat64 : maps_to reg TFloat64 (gs_prim "double")
| MString : maps_to reg TString (gs_prim "string")
| MBytes e : is_u8 e = true -> maps_to reg (TSlice e) (gs_prim "bytes")       (* []byte to bytes *)
| MByteArray n e : is_u8 e = true -> maps_to reg (TArray n e) (gs_prim "bytes")
| MSlice e s : is_u8 e = false -> maps_to reg e s -> maps_to reg (TSlice e) (gs_array s)
| MArray n e s : is_u8 e = false -> maps_to reg e s -> maps_to reg (TArray n e) (gs_array s)
| MMap k e s : maps_to reg e s -> maps_to reg (TMap k e) (gs_map s)           (* the key type is not looked at *)
| MPtrSame e s : maps_to reg e s -> keeps_shape s = true -> maps_to reg (TPtr e) s
| MPtrNullable e s : maps_to reg e s -> keeps_shape s = false -> maps_to reg (TPtr e) (gs_nullable s)
| MStruct name pkg fields fs :
    maps_fields reg fields fs -> maps_to reg (TStruct name pkg fields) (gs_record name (ns_replace pkg) fs)
| MNamed id u s : reg (RNamed id) = None -> maps_to reg u s -> maps_to reg (TNamed id u) s
with maps_fields (reg : sregistry) : list gfield -> list (ident * gschema) -> Prop :=
| MFNil : maps_fields reg [] []
| MFSkip f r fs : name_for_field f = dash -> maps_fields reg r fs -> maps_fields reg (f :: r) fs
| MFKeep f r s fs :
    name_for_field f <> dash -> maps_to reg (gf_type f) s -> maps_fields reg r fs ->
    maps_fields reg (f :: r) ((name_for_field f, field_schema f s) :: fs).

Scheme maps_to_mut := Minimality for maps_to Sort Prop
  with maps_fields_mut := Minimality for maps_fields Sort Prop.

Lemma lookup_none_unless reg t :
  match t with TWrap _ | TNamed _ _ => True | _ => sreg_lookup reg t = None end.
Proof. destruct t; exact I || reflexivity. Qed.

Theorem schema_for_maps_to reg : forall t s, schema_for reg t = Some s -> maps_to reg t s.
Proof.
  induction t as [ | k | | | | | e IH | n e IH | k e IHk IH | e IH | name pkg fields IH | w | id u IH | k | | | | ]
    using gty_ind; intros s H; try discriminate H.
  - injection H as <-. apply MBool.
  - destruct k; try discriminate H; injection H as <-; apply MInt; reflexivity.
  - injection H as <-. apply MFloat32.
  - injection H as <-. apply MFloat64.
  - injection H as <-. apply MString.
  - rewrite sf_slice in H. destruct (is_u8 e) eqn:E.
    + injection H as <-. apply MBytes. exact E.
    + destruct (schema_for reg e) as [se|]; [|discriminate]. injection H as <-. apply MSlice; auto.
  - rewrite sf_array in H. destruct (is_u8 e) eqn:E.
    + injection H as <-. apply MByteArray. exact E.
    + destruct (schema_for reg e) as [se|]; [|discriminate]. injection H as <-. apply MArray; auto.
  - rewrite sf_map in H. destruct (schema_for reg e) as [se|]; [|discriminate]. injection H as <-. apply MMap; auto.
  - rewrite sf_ptr in H. destruct (schema_for reg e) as [se|]; [|discriminate]. injection H as <-.
    destruct (keeps_shape se) eqn:E; [apply MPtrSame|apply MPtrNullable]; auto.
  - rewrite sf_struct in H. destruct (sf_fields reg fields) as [fs|] eqn:E; [|discriminate]. injection H as <-.
    apply MStruct. revert fs E. induction IH as [|f r Hf _ IHr]; intros fs E.
    + injection E as <-. apply MFNil.
    + cbn [sf_fields] in E. destruct (excluded f) eqn:Ex.
      * apply MFSkip; [apply beqb_eq; exact Ex|apply IHr; exact E].
      * destruct (schema_for reg (gf_type f)) as [sf|]; [|discriminate].
        destruct (sf_fields reg r) as [r'|]; [|discriminate]. injection E as <-.
        apply MFKeep; [apply beqb_neq; exact Ex|apply Hf; reflexivity|apply IHr; reflexivity].
  - rewrite sf_wrap in H. apply MRegistered. exact H.
  - rewrite sf_named in H. destruct (reg (RNamed id)) as [g|] eqn:E.
    + injection H as <-. apply MRegistered. exact E.
    + apply MNamed; auto.
Qed.

Theorem maps_to_schema_for reg : forall t s, maps_to reg t s -> schema_for reg t = Some s.
Proof.
  apply (maps_to_mut reg (fun t s => schema_for reg t = Some s) (fun l fs => sf_fields reg l = Some fs)).
  - intros t s H. destruct t; try discriminate H.
    + rewrite sf_wrap. exact H.
    + rewrite sf_named. cbn [sreg_lookup] in H. rewrite H. reflexivity.
  - reflexivity.
  - intros k H. destruct k; try discriminate H; reflexivity.
  - reflexivity.
  - reflexivity.
  - reflexivity.
  - intros e H. rewrite sf_slice, H. reflexivity.
  - intros n e H. rewrite sf_array, H. reflexivity.
  - intros e s H _ IH. rewrite sf_slice, H, IH. reflexivity.
  - intros n e s H _ IH. rewrite sf_array, H, IH. reflexivity.
  - intros k e s _ IH. rewrite sf_map, IH. reflexivity.
  - intros e s _ IH H. rewrite sf_ptr, IH, H. reflexivity.
  - intros e s _ IH H. rewrite sf_ptr, IH, H. reflexivity.
  - intros name pkg fields fs _ IH. rewrite sf_struct, IH. reflexivity.
  - intros id u s H _ IH. rewrite sf_named, H. exact IH.
  - reflexivity.
  - intros f r fs H _ IH. cbn [sf_fields]. unfold excluded. rewrite H, beqb_refl. exact IH.
  - intros f r s fs H _ IHs _ IHr. cbn [sf_fields]. unfold excluded.
    apply beqb_neq in H. rewrite H, IHs, IHr. reflexivity.
Qed.

Theorem maps_to_iff reg t s : schema_for reg t = Some s <-> maps_to reg t s.
Proof. split; [apply schema_for_maps_to|apply maps_to_schema_for]. Qed.

Theorem maps_to_functional reg t s1 s2 : maps_to reg t s1 -> maps_to reg t s2 -> s1 = s2.
Proof. intros H1 H2. apply maps_to_schema_for in H1, H2. rewrite H1 in H2. injection H2 as <-. reflexivity. Qed.

(* ================================================================== *)
(* 3. Structural validity of the generated schema                      *)
(* ================================================================== *)
Lemma beqb_sym (a c : bytes) : bytes_eqb a c = bytes_eqb c a.
Proof.
  destruct (bytes_eqb a c) eqn:E.
  - apply beqb_eq in E. subst. symmetry. apply beqb_refl.
  - symmetry. apply beqb_neq. apply beqb_neq in E. congruence.
Qed.

(* --- 3a. unions: no union directly inside a union, no repeated branch --- *)
Definition named_ty (ty : ident) : bool := is ty "record" || is ty "enum" || is ty "fixed".
Definition bkey := (ident * ident * ident)%type.
(* what makes two union branches "the same": the type name, and for named types the full name *)
Definition branch_key (s : gschema) : bkey :=
  match s with
  | GS ty obj _ =>
    if named_ty ty then match obj with Some (GO _ n ns _ _ _ _ _) => (ty, ns, n) | None => (ty, [], []) end
    else (ty, [], [])
  end.
Definition bkey_eqb (x y : bkey) : bool :=
  match x, y with (a, n, c), (a', n', c') => bytes_eqb a a' && bytes_eqb n n' && bytes_eqb c c' end.
Fixpoint keys_distinct (l : list bkey) {struct l} : bool :=
  match l with [] => true | x :: r => negb (existsb (bkey_eqb x) r) && keys_distinct r end.

Fixpoint unions_ok (g : gschema) {struct g} : bool :=
  match g with
  | GS ty obj un =>
    (if is ty "union" then
       (fix go (l : list gschema) {struct l} : bool :=
          match l with [] => true | x :: r => negb (is (gs_type x) "union") && unions_ok x && go r end) un
       && keys_distinct (map branch_key un)
     else true)
    && match obj with None => true | Some o => unions_ok_obj o end
  end
with unions_ok_obj (o : gobject) {struct o} : bool :=
  match o with
  | GO _ _ _ fields items values _ _ =>
    (fix go (l : list (ident * gschema)) {struct l} : bool :=
       match l with [] => true | (_, x) :: r => unions_ok x && go r end) fields
    && unions_ok items && unions_ok values
  end.

(* the invariant of generated (and registered) schemas *)
Definition good (s : gschema) : Prop := unions_ok s = true /\ is (gs_type s) "null" = false.
Definition sreg_ok (reg : sregistry) : Prop := forall k s, reg k = Some s -> good s.

Lemma branch_key_type s : fst (fst (branch_key s)) = gs_type s.
Proof. destruct s as [ty [[l n ns fs it vs sz sy]|] un]; cbn [branch_key gs_type]; destruct (named_ty ty); reflexivity. Qed.

Lemma good_array s : good s -> good (gs_array s).
Proof.
  intros [H _]. split; [|reflexivity]. unfold gs_array. cbn [unions_ok unions_ok_obj].
  change (is (b "array") "union") with false. change (unions_ok gs_zero) with true. rewrite H. reflexivity.
Qed.
Lemma good_map s : good s -> good (gs_map s).
Proof.
  intros [H _]. split; [|reflexivity]. unfold gs_map. cbn [unions_ok unions_ok_obj].
  change (is (b "map") "union") with false. change (unions_ok gs_zero) with true. rewrite H. reflexivity.
Qed.
Lemma good_record name ns fs : Forall (fun p => good (snd p)) fs -> good (gs_record name ns fs).
Proof.
  intros H. split; [|reflexivity]. unfold gs_record. cbn [unions_ok unions_ok_obj].
  change (is (b "record") "union") with false. change (unions_ok gs_zero) with true. cbn [andb]. rewrite !andb_true_r.
  induction H as [|[n s] r [Hs _] _ IH]; [reflexivity|]. cbn [snd] in Hs. rewrite Hs, IH. reflexivity.
Qed.
Lemma good_nullable s : good s -> is_union s = false -> good (gs_nullable s).
Proof.
  intros [H Hn] Hu. split; [|reflexivity]. unfold is_union in Hu. unfold gs_nullable. cbn [unions_ok].
  change (is (b "union") "union") with true. cbv iota. cbn [map keys_distinct existsb].
  change (gs_type (gs_prim "null")) with (b "null"). change (is (b "null") "union") with false.
  change (unions_ok (gs_prim "null")) with true. rewrite Hu, H. cbn [negb andb orb].
  pose proof (branch_key_type s) as Hk. destruct (branch_key s) as [[a n] c]. cbn [fst] in Hk. subst a.
  change (branch_key (gs_prim "null")) with ((b "null", [], []) : bkey). cbn [bkey_eqb].
  unfold is in Hn. rewrite beqb_sym, Hn. reflexivity.
Qed.

Lemma keeps_shape_false s : keeps_shape s = false -> is_union s = false.
Proof. unfold keeps_shape, is_union. intros H. apply orb_false_elim in H as [H _]. apply orb_false_elim in H as [H _]. exact H. Qed.

Lemma good_field f s : good s -> good (field_schema f s).
Proof.
  intros H. unfold field_schema. destruct (omit_empty f); cbn [andb]; [|exact H].
  destruct (is_union s) eqn:E; cbn [negb]; [exact H|apply good_nullable; assumption].
Qed.

Theorem schema_for_good reg : sreg_ok reg -> forall t s, schema_for reg t = Some s -> good s.
Proof.
  intros Hr t s H. apply schema_for_maps_to in H. revert t s H.
  apply (maps_to_mut reg (fun _ s => good s) (fun _ fs => Forall (fun p => good (snd p)) fs)).
  - intros t s H. destruct t; try discriminate H; eapply Hr; exact H.
  - split; reflexivity.
  - intros; split; reflexivity.
  - split; reflexivity.
  - split; reflexivity.
  - split; reflexivity.
  - intros; split; reflexivity.
  - intros; split; reflexivity.
  - intros e s _ _ IH. apply good_array. exact IH.
  - intros n e s _ _ IH. apply good_array. exact IH.
  - intros k e s _ IH. apply good_map. exact IH.
  - intros e s _ IH _. exact IH.
  - intros e s _ IH H. apply good_nullable; [exact IH|apply keeps_shape_false; exact H].
  - intros name pkg fields fs _ IH. apply good_record. exact IH.
  - intros id u s _ _ IH. exact IH.
  - constructor.
  - intros f r fs _ _ IH. exact IH.
  - intros f r s fs _ _ IHs _ IHr. constructor; [apply good_field; exact IHs|exact IHr].
Qed.

Lemma sreg_std_ok : sreg_ok sreg_std.
Proof. intros [[]|id] s H; try discriminate H; injection H as <-; split; reflexivity. Qed.

Lemma sreg_set_ok reg id g : sreg_ok reg -> good g -> sreg_ok (sreg_set reg id g).
Proof.
  intros Hr Hg [w|i] s H; cbn [sreg_set] in H.
  - eapply Hr; exact H.
  - destruct (i =? id); [injection H as <-; exact Hg|eapply Hr; exact H].
Qed.

(* --- 3b. record definitions: every named type defined once, every record
   named, field names distinct --- *)
Definition rdef := (ident * ident * list ident)%type.     (* namespace, name, field names *)

(* all record definitions in a schema, in document order *)
Fixpoint rec_defs (g : gschema) {struct g} : list rdef :=
  match g with
  | GS ty obj un =>
    match obj with None => [] | Some o => rec_defs_obj ty o end ++
    (fix go (l : list gschema) {struct l} : list rdef :=
       match l with [] => [] | x :: r => rec_defs x ++ go r end) un
  end
with rec_defs_obj (ty : ident) (o : gobject) {struct o} : list rdef :=
  match o with
  | GO _ n ns fields items values _ _ =>
    (if is ty "record" then [(ns, n, map fst fields)] else []) ++
    (fix go (l : list (ident * gschema)) {struct l} : list rdef :=
       match l with [] => [] | (_, x) :: r => rec_defs x ++ go r end) fields ++
    rec_defs items ++ rec_defs values
  end.

Definition nonempty (x : ident) : bool := match x with [] => false | _ => true end.
Definition rd_fullname (d : rdef) : ident * ident := (fst (fst d), snd (fst d)).
Definition rd_name (d : rdef) : ident := snd (fst d).

(* every named type is defined once (a record without a name defines no name) *)
Definition defs_once (l : list rdef) : Prop := NoDup (map rd_fullname (filter (fun d => nonempty (rd_name d)) l)).
Definition defs_named (l : list rdef) : Prop := Forall (fun d => rd_name d <> []) l.
Definition defs_fields_distinct (l : list rdef) : Prop := Forall (fun d => NoDup (snd d)) l.

Definition names_defined_once (s : gschema) : Prop := defs_once (rec_defs s).
Definition records_named (s : gschema) : Prop := defs_named (rec_defs s).
Definition fields_distinct (s : gschema) : Prop := defs_fields_distinct (rec_defs s).

(* "structurally valid Avro schema" *)
Definition gs_valid (s : gschema) : Prop :=
  unions_ok s = true /\ names_defined_once s /\ records_named s /\ fields_distinct s.

(* the same list computed from the Go type: one entry per struct met through
   kept fields, elements, map values and pointees; registered types contribute
   the definitions of their registered schema *)
Definition kept_names (l : list gfield) : list ident :=
  map name_for_field (filter (fun f => negb (excluded f)) l).

Fixpoint struct_defs (reg : sregistry) (t : gtype) {struct t} : list rdef :=
  match sreg_lookup reg t with
  | Some s => rec_defs s
  | None =>
    match t with
    | TSlice e | TArray _ e => if is_u8 e then [] else struct_defs reg e
    | TMap _ e => struct_defs reg e
    | TPtr e => struct_defs reg e
    | TNamed _ u => struct_defs reg u
    | TStruct name pkg fields =>
        (ns_replace pkg, name, kept_names fields) ::
        (fix go (l : list gfield) {struct l} : list rdef :=
           match l with
           | [] => []
           | GF fname ex js bq ft :: r =>
               (if excluded (GF fname ex js bq ft) then [] else struct_defs reg ft) ++ go r
           end) fields
    | _ => []
    end
  end.

Definition field_defs (reg : sregistry) (l : list gfield) : list rdef :=
  flat_map (fun f => if excluded f then [] else struct_defs reg (gf_type f)) l.

Lemma struct_defs_struct reg name pkg fields :
  struct_defs reg (TStruct name pkg fields) = (ns_replace pkg, name, kept_names fields) :: field_defs reg fields.
Proof.
  cbn [struct_defs sreg_lookup]. f_equal. unfold field_defs.
  induction fields as [|[fname ex js bq ft] r IH]; [reflexivity|]. cbn [flat_map gf_type]. rewrite <- IH. reflexivity.
Qed.

Lemma rec_defs_nullable s : rec_defs (gs_nullable s) = rec_defs s.
Proof. unfold gs_nullable. cbn [rec_defs]. change (rec_defs (gs_prim "null")) with (@nil rdef). cbn [app]. apply app_nil_r. Qed.
Lemma rec_defs_array s : rec_defs (gs_array s) = rec_defs s.
Proof.
  unfold gs_array. cbn [rec_defs rec_defs_obj]. change (is (b "array") "record") with false.
  change (rec_defs gs_zero) with (@nil rdef). cbn [app]. rewrite !app_nil_r. reflexivity.
Qed.
Lemma rec_defs_map s : rec_defs (gs_map s) = rec_defs s.
Proof.
  unfold gs_map. cbn [rec_defs rec_defs_obj]. change (is (b "map") "record") with false.
  change (rec_defs gs_zero) with (@nil rdef). cbn [app]. rewrite !app_nil_r. reflexivity.
Qed.
Lemma rec_defs_record name ns fs :
  rec_defs (gs_record name ns fs) = (ns, name, map fst fs) :: flat_map (fun p => rec_defs (snd p)) fs.
Proof.
  unfold gs_record. cbn [rec_defs rec_defs_obj]. change (is (b "record") "record") with true.
  change (rec_defs gs_zero) with (@nil rdef). cbn [app]. rewrite !app_nil_r. f_equal.
  induction fs as [|[n s] r IH]; [reflexivity|]. cbn [flat_map snd]. rewrite IH. reflexivity.
Qed.
Lemma rec_defs_field f s : rec_defs (field_schema f s) = rec_defs s.
Proof. unfold field_schema. destruct (_ && _); [apply rec_defs_nullable|reflexivity]. Qed.

Theorem rec_defs_struct_defs reg : forall t s, schema_for reg t = Some s -> rec_defs s = struct_defs reg t.
Proof.
  induction t as [ | k | | | | | e IH | n e IH | k e IHk IH | e IH | name pkg fields IH | w | id u IH | k | | | | ]
    using gty_ind; intros s H; try discriminate H.
  - injection H as <-. reflexivity.
  - destruct k; try discriminate H; injection H as <-; reflexivity.
  - injection H as <-. reflexivity.
  - injection H as <-. reflexivity.
  - injection H as <-. reflexivity.
  - rewrite sf_slice in H. cbn [struct_defs sreg_lookup]. destruct (is_u8 e); [injection H as <-; reflexivity|].
    destruct (schema_for reg e) as [se|]; [|discriminate]. injection H as <-. rewrite rec_defs_array. apply IH. reflexivity.
  - rewrite sf_array in H. cbn [struct_defs sreg_lookup]. destruct (is_u8 e); [injection H as <-; reflexivity|].
    destruct (schema_for reg e) as [se|]; [|discriminate]. injection H as <-. rewrite rec_defs_array. apply IH. reflexivity.
  - rewrite sf_map in H. cbn [struct_defs sreg_lookup].
    destruct (schema_for reg e) as [se|]; [|discriminate]. injection H as <-. rewrite rec_defs_map. apply IH. reflexivity.
  - rewrite sf_ptr in H. cbn [struct_defs sreg_lookup].
    destruct (schema_for reg e) as [se|]; [|discriminate]. injection H as <-.
    destruct (keeps_shape se); [|rewrite rec_defs_nullable]; apply IH; reflexivity.
  - rewrite sf_struct in H. rewrite struct_defs_struct.
    destruct (sf_fields reg fields) as [fs|] eqn:E; [|discriminate]. injection H as <-. rewrite rec_defs_record.
    assert (G : map fst fs = kept_names fields /\ flat_map (fun p => rec_defs (snd p)) fs = field_defs reg fields).
    { clear name pkg. revert fs E. induction IH as [|f r Hf _ IHr]; intros fs E.
      - injection E as <-. split; reflexivity.
      - cbn [sf_fields] in E. unfold kept_names, field_defs. cbn [filter flat_map]. destruct (excluded f) eqn:Ex; cbn [negb app].
        + apply IHr. exact E.
        + destruct (schema_for reg (gf_type f)) as [sf|] eqn:Es; [|discriminate].
          destruct (sf_fields reg r) as [r'|]; [|discriminate]. injection E as <-.
          destruct (IHr r' eq_refl) as [I1 I2]. cbn [map fst flat_map snd]. split.
          * f_equal. exact I1.
          * rewrite rec_defs_field, (Hf sf eq_refl). f_equal. exact I2. }
    destruct G as [G1 G2]. rewrite G1, G2. reflexivity.
  - rewrite sf_wrap in H. cbn [struct_defs sreg_lookup]. rewrite H. reflexivity.
  - rewrite sf_named in H. cbn [struct_defs sreg_lookup]. destruct (reg (RNamed id)) as [g|].
    + injection H as <-. reflexivity.
    + apply IH. exact H.
Qed.

(* guards on the Go type *)
Definition names_unique (reg : sregistry) (t : gtype) : Prop := defs_once (struct_defs reg t).
Definition structs_named (reg : sregistry) (t : gtype) : Prop := defs_named (struct_defs reg t).
Definition json_names_unique (reg : sregistry) (t : gtype) : Prop := defs_fields_distinct (struct_defs reg t).

Theorem valid_partial reg t s : sreg_ok reg -> schema_for reg t = Some s ->
  names_unique reg t -> structs_named reg t -> json_names_unique reg t -> gs_valid s.
Proof.
  intros Hr H H1 H2 H3. unfold gs_valid, names_defined_once, records_named, fields_distinct.
  rewrite (rec_defs_struct_defs reg t s H). split; [apply (schema_for_good reg Hr t s H)|]. auto.
Qed.

Lemma named_once_partial reg t s : schema_for reg t = Some s -> names_unique reg t -> names_defined_once s.
Proof. intros H H1. unfold names_defined_once. rewrite (rec_defs_struct_defs reg t s H). exact H1. Qed.
Lemma records_named_partial reg t s : schema_for reg t = Some s -> structs_named reg t -> records_named s.
Proof. intros H H1. unfold records_named. rewrite (rec_defs_struct_defs reg t s H). exact H1. Qed.
Lemma fields_distinct_partial reg t s : schema_for reg t = Some s -> json_names_unique reg t -> fields_distinct s.
Proof. intros H H1. unfold fields_distinct. rewrite (rec_defs_struct_defs reg t s H). exact H1. Qed.
(* and conversely: the guards are exactly what is missing *)
Lemma valid_iff_guards reg t s : sreg_ok reg -> schema_for reg t = Some s ->
  (gs_valid s <-> names_unique reg t /\ structs_named reg t /\ json_names_unique reg t).
Proof.
  intros Hr H. unfold gs_valid, names_defined_once, records_named, fields_distinct, names_unique, structs_named, json_names_unique.
  rewrite (rec_defs_struct_defs reg t s H). pose proof (schema_for_good reg Hr t s H) as [G _]. tauto.
Qed.

(* the refutations: witnesses *)
Definition fld (name : string) (t : gtype) : gfield := GF (b name) true [] [] t.
Definition fldj (name json : string) (t : gtype) : gfield := GF (b name) true (b json) [] t.

Definition ex_leaf : gtype := TStruct (b "Leaf") (b "main") [fld "A" (TInt I64)].
Definition ex_twice : gtype := TStruct (b "T") (b "main") [fld "X" ex_leaf; fld "Y" (TPtr ex_leaf)].
Definition ex_dup : gtype := TStruct (b "T") (b "main") [fldj "G" "dup" (TInt I64); fldj "H" "dup" TString].
Definition ex_anon : gtype := TStruct (b "T") (b "main") [fld "I" (TStruct [] [] [fld "Y" (TInt I64)])].

Theorem named_twice_refuted : exists t s, schema_for sreg_std t = Some s /\ ~ names_defined_once s.
Proof.
  exists ex_twice. eexists. split; [vm_compute; reflexivity|].
  unfold names_defined_once, defs_once. vm_compute. intros H.
  inversion H as [|x l _ H2]; subst. inversion H2 as [|y l' Hn _]; subst. apply Hn. left. reflexivity.
Qed.
Theorem dup_field_refuted : exists t s, schema_for sreg_std t = Some s /\ ~ fields_distinct s.
Proof.
  exists ex_dup. eexists. split; [vm_compute; reflexivity|].
  unfold fields_distinct, defs_fields_distinct. vm_compute. intros H.
  inversion H as [|x l H1 _]; subst. inversion H1 as [|y l' Hn _]; subst. apply Hn. left. reflexivity.
Qed.
Theorem unnamed_refuted : exists t s, schema_for sreg_std t = Some s /\ ~ records_named s.
Proof.
  exists ex_anon. eexists. split; [vm_compute; reflexivity|].
  unfold records_named, defs_named. vm_compute. intros H.
  inversion H as [|x l _ H2]; subst. inversion H2 as [|y l' Hn _]; subst. apply Hn. reflexivity.
Qed.

(* ================================================================== *)
(* 4. The codec builder on the generated schema                        *)
(* ================================================================== *)
Definition non_nu (s : schema) : Prop := match s with SNull | SUnion _ => False | _ => True end.

Notation bldf reg := (fun s' t' om' => build reg s' t' om').

Lemma build_union_eq reg brs t om :
  build reg (SUnion brs) t om =
  match brs with
  | [SNull; x] => union_one (build reg x t om) 1
  | [x; SNull] => union_one (build reg x t om) 0
  | _ => option_map CUnion (build_list (fun x => build reg x t om) brs)
  end.
Proof. reflexivity. Qed.

Lemma build_some_eq reg s ty om : non_nu s ->
  build reg s (Some ty) om =
  let (k, t0) := peel ty in
  match k with
  | O => build_base reg (bldf reg) s t0 om
  | S _ => option_map (fun c => wrap_ptrs k c (zero_of t0)) (build_base reg (bldf reg) s t0 false)
  end.
Proof. destruct s; intros H; try contradiction; reflexivity. Qed.

Lemma build_none_eq reg s om : non_nu s -> build reg s None om = disp (bldf reg) s None om.
Proof. destruct s; intros H; try contradiction; reflexivity. Qed.

Lemma build_list_congr (f g : schema -> option codec) l :
  Forall (fun x => f x = g x) l -> build_list f l = build_list g l.
Proof. induction 1 as [|x r Hx _ IH]; [reflexivity|]. cbn [build_list]. rewrite Hx, IH. reflexivity. Qed.

(* a union codec depends on the registry and the Go type only through its branches *)
Lemma build_union_congr reg1 reg2 t1 t2 om1 om2 brs :
  Forall (fun x => build reg1 x t1 om1 = build reg2 x t2 om2) brs ->
  build reg1 (SUnion brs) t1 om1 = build reg2 (SUnion brs) t2 om2.
Proof.
  intros H. rewrite !build_union_eq.
  assert (G : option_map CUnion (build_list (fun x => build reg1 x t1 om1) brs) =
              option_map CUnion (build_list (fun x => build reg2 x t2 om2) brs)).
  { f_equal. apply build_list_congr. exact H. }
  destruct brs as [|x1 [|x2 [|x3 l]]]; try exact G.
  - destruct x1; exact G.
  - inversion H as [|? ? E1 H']; subst. inversion H' as [|? ? E2 _]; subst.
    destruct x1; destruct x2; cbv beta iota; try exact G; rewrite ?E1, ?E2; reflexivity.
  - destruct x1; try exact G; destruct x2; exact G.
Qed.

Lemma nullable_step reg x t om :
  is_some (build reg (SUnion [SNull; x]) t om) = is_some (build reg x t om).
Proof.
  rewrite build_union_eq. remember (build reg x t om) as r eqn:Er. clear Er.
  destruct x; cbv beta iota; destruct r as [[]|]; reflexivity.
Qed.

Lemma ptr_step reg x e om : non_nu x ->
  is_some (build reg x (Some (TPtr e)) om) = is_some (build reg x (Some e) false).
Proof.
  intros H. rewrite !(build_some_eq reg x _ _ H). cbn [peel]. destruct (peel e) as [k t0].
  destruct k; destruct (build_base reg (bldf reg) x t0 false); reflexivity.
Qed.

(* a defined type without a registration behaves as its underlying type *)
Lemma disp_named bld s id u om : disp bld s (Some (TNamed id u)) om = disp bld s (Some u) om.
Proof. reflexivity. Qed.

Lemma build_named reg id u : reg (RNamed id) = None ->
  match u with TPtr _ => False | _ => True end -> reg_lookup reg u = None ->
  forall s om, build reg s (Some (TNamed id u)) om = build reg s (Some u) om.
Proof.
  intros Hr Hp Hl. induction s using schema_ind'; intros om;
    try (rewrite !build_some_eq by exact I; cbn [peel];
         replace (peel u) with (O, u) by (destruct u; try reflexivity; contradiction);
         unfold build_base; cbn [reg_lookup]; rewrite Hr, Hl; apply disp_named).
  - reflexivity.
  - apply build_union_congr. rewrite Forall_forall in *. intros x Hx. apply H. exact Hx.
Qed.

(* --- classification of the generated shapes --- *)
Lemma classify_array s : classify (gs_array s) = SArray (classify s).
Proof. reflexivity. Qed.
Lemma classify_map s : classify (gs_map s) = SMap (classify s).
Proof. reflexivity. Qed.
Lemma classify_nullable s : classify (gs_nullable s) = SUnion [SNull; classify s].
Proof. reflexivity. Qed.
Lemma classify_record name ns fs :
  classify (gs_record name ns fs) = SRecord (map (fun p => (fst p, classify (snd p))) fs).
Proof.
  unfold gs_record. cbn [classify classify_obj].
  change (is (b "record") "null") with false. change (is (b "record") "boolean") with false.
  change (is (b "record") "int") with false. change (is (b "record") "long") with false.
  change (is (b "record") "float") with false. change (is (b "record") "double") with false.
  change (is (b "record") "bytes") with false. change (is (b "record") "string") with false.
  change (is (b "record") "union") with false. change (is (b "record") "record") with true. cbv iota.
  f_equal. induction fs as [|[n s] r IH]; [reflexivity|]. cbn [map fst snd]. rewrite IH. reflexivity.
Qed.

Lemma non_nu_classify s : is (gs_type s) "union" = false -> is (gs_type s) "null" = false -> non_nu (classify s).
Proof.
  destruct s as [ty obj un]. cbn [gs_type]. intros Hu Hn. cbn [classify]. rewrite Hn.
  destruct (is ty "boolean"); [exact I|]. destruct (is ty "int"); [exact I|]. destruct (is ty "long"); [exact I|].
  destruct (is ty "float"); [exact I|]. destruct (is ty "double"); [exact I|]. destruct (is ty "bytes"); [exact I|].
  destruct (is ty "string"); [exact I|]. rewrite Hu. destruct obj as [[l n ns fs it vs sz sy]|]; [|exact I].
  cbn [classify_obj]. destruct (is ty "record"); [exact I|]. destruct (is ty "enum"); [exact I|].
  destruct (is ty "array"); [exact I|]. destruct (is ty "map"); [exact I|]. destruct (is ty "fixed"); exact I.
Qed.

(* --- every union schema generation emits is [null, x] with x neither null nor a union --- *)
Definition shaped (s : gschema) : Prop :=
  is (gs_type s) "null" = false /\
  (is_union s = true -> exists x, s = gs_nullable x /\ is_union x = false /\ is (gs_type x) "null" = false).
Definition sreg_shaped (reg : sregistry) : Prop := forall k s, reg k = Some s -> shaped s.

Lemma shaped_plain s : is (gs_type s) "null" = false -> is_union s = false -> shaped s.
Proof. intros H1 H2. split; [exact H1|]. rewrite H2. discriminate. Qed.
Lemma shaped_nullable s : shaped s -> is_union s = false -> shaped (gs_nullable s).
Proof. intros [H1 _] H2. split; [reflexivity|]. intros _. exists s. auto. Qed.
Lemma shaped_field f s : shaped s -> shaped (field_schema f s).
Proof.
  intros H. unfold field_schema. destruct (omit_empty f); cbn [andb]; [|exact H].
  destruct (is_union s) eqn:E; cbn [negb]; [exact H|apply shaped_nullable; assumption].
Qed.

Theorem schema_for_shaped reg : sreg_shaped reg -> forall t s, schema_for reg t = Some s -> shaped s.
Proof.
  intros Hr t s H. apply schema_for_maps_to in H. revert t s H.
  apply (maps_to_mut reg (fun _ s => shaped s) (fun _ fs => Forall (fun p => shaped (snd p)) fs)).
  - intros t s H. destruct t; try discriminate H; eapply Hr; exact H.
  - apply shaped_plain; reflexivity.
  - intros; apply shaped_plain; reflexivity.
  - apply shaped_plain; reflexivity.
  - apply shaped_plain; reflexivity.
  - apply shaped_plain; reflexivity.
  - intros; apply shaped_plain; reflexivity.
  - intros; apply shaped_plain; reflexivity.
  - intros; apply shaped_plain; reflexivity.
  - intros; apply shaped_plain; reflexivity.
  - intros; apply shaped_plain; reflexivity.
  - intros e s _ IH _. exact IH.
  - intros e s _ IH H. apply shaped_nullable; [exact IH|apply keeps_shape_false; exact H].
  - intros; apply shaped_plain; reflexivity.
  - intros id u s _ _ IH. exact IH.
  - constructor.
  - intros f r fs _ _ IH. exact IH.
  - intros f r s fs _ _ IHs _ IHr. constructor; [apply shaped_field; exact IHs|exact IHr].
Qed.

Lemma sreg_std_shaped : sreg_shaped sreg_std.
Proof.
  intros [[]|id] s H; try discriminate H; injection H as <-;
    (apply shaped_nullable; [apply shaped_plain; reflexivity|reflexivity]).
Qed.

(* --- struct fields are found again by name when the kept names are distinct --- *)
Definition ff_go (name : ident) : list gfield -> nat -> option (nat * gfield) -> option (nat * gfield) :=
  fix go (l : list gfield) (i : nat) (found : option (nat * gfield)) {struct l} :=
    match l with
    | [] => found
    | f :: r =>
      let n := name_for_field f in
      if negb (bytes_eqb n dash) && bytes_eqb n name then go r (S i) (Some (i, f)) else go r (S i) found
    end.
Lemma find_field_go name gfs : find_field name gfs = ff_go name gfs O None.
Proof. reflexivity. Qed.

Lemma ff_go_nomatch name : forall l i found,
  ~ In name (kept_names l) -> ff_go name l i found = found.
Proof.
  induction l as [|f r IH]; intros i found Hn; [reflexivity|]. cbn [ff_go]. cbv zeta.
  unfold kept_names in Hn. cbn [filter] in Hn. unfold excluded in Hn.
  destruct (bytes_eqb (name_for_field f) dash) eqn:Ex; cbn [negb andb] in *.
  - apply IH. exact Hn.
  - cbn [map] in Hn. destruct (bytes_eqb (name_for_field f) name) eqn:En.
    + exfalso. apply Hn. left. apply beqb_eq. exact En.
    + apply IH. intros Hin. apply Hn. right. exact Hin.
Qed.

Lemma ff_go_found f : excluded f = false -> forall l i found,
  NoDup (kept_names l) -> In f l -> exists j, ff_go (name_for_field f) l i found = Some (j, f).
Proof.
  intros Hf. induction l as [|f' r IH]; intros i found Hnd Hin; [contradiction|].
  cbn [ff_go]. cbv zeta. unfold kept_names in Hnd. cbn [filter] in Hnd. unfold excluded in Hnd, Hf.
  destruct (bytes_eqb (name_for_field f') dash) eqn:Ex; cbn [negb andb] in *.
  - destruct Hin as [->|Hin]; [rewrite Hf in Ex; discriminate|]. apply IH; assumption.
  - cbn [map] in Hnd. inversion Hnd as [|? ? Hnotin Hnd']; subst.
    destruct (bytes_eqb (name_for_field f') (name_for_field f)) eqn:En.
    + apply beqb_eq in En. destruct Hin as [->|Hin].
      * exists i. apply ff_go_nomatch. exact Hnotin.
      * exfalso. apply Hnotin. rewrite En. unfold kept_names.
        apply in_map. apply filter_In. split; [exact Hin|]. unfold excluded. rewrite Hf. reflexivity.
    + destruct Hin as [->|Hin]; [rewrite beqb_refl in En; discriminate|]. apply IH; assumption.
Qed.

Fixpoint nodupb (l : list ident) {struct l} : bool :=
  match l with [] => true | x :: r => negb (existsb (bytes_eqb x) r) && nodupb r end.
Lemma nodupb_NoDup l : nodupb l = true -> NoDup l.
Proof.
  induction l as [|x r IH]; intros H; [constructor|]. cbn [nodupb] in H. apply andb_prop in H as [H1 H2].
  constructor; [|apply IH; exact H2]. intros Hin. apply negb_true_iff in H1.
  assert (existsb (bytes_eqb x) r = true) by (apply existsb_exists; exists x; split; [exact Hin|apply beqb_refl]).
  congruence.
Qed.

(* --- the class of types for which the builder accepts the generated schema:
   the encoder's domain (no int8, no unsigned kinds except the uint8 of []byte,
   no Go arrays, string-keyed maps, distinct JSON names per struct, defined
   types over non-pointer kinds); pointers of any depth are included --- *)
Fixpoint codec_buildable (t : gtype) {struct t} : bool :=
  match t with
  | TBool | TFloat32 | TFloat64 | TString => true
  | TInt k => match k with I16 | I32 | I64 | IInt => true | _ => false end
  | TSlice e => is_u8 e || codec_buildable e
  | TMap k e => match underlying k with TString => codec_buildable e | _ => false end
  | TPtr e => codec_buildable e
  | TStruct _ _ fields =>
      nodupb (kept_names fields) &&
      (fix go (l : list gfield) {struct l} : bool :=
         match l with
         | [] => true
         | GF fname ex js bq ft :: r => (excluded (GF fname ex js bq ft) || codec_buildable ft) && go r
         end) fields
  | TWrap _ => true
  | TNamed _ u => match u with TPtr _ | TWrap _ => false | _ => codec_buildable u end
  | _ => false
  end.

Lemma codec_buildable_struct name pkg fields :
  codec_buildable (TStruct name pkg fields) =
  nodupb (kept_names fields) && forallb (fun f => excluded f || codec_buildable (gf_type f)) fields.
Proof.
  cbn [codec_buildable]. f_equal.
  induction fields as [|[fname ex js bq ft] r IH]; [reflexivity|]. cbn [forallb gf_type]. rewrite <- IH. reflexivity.
Qed.

Definition cfields (fs : list (ident * gschema)) : list (ident * schema) :=
  map (fun p => (fst p, classify (snd p))) fs.

Theorem codec_decided : forall t s, schema_for sreg_std t = Some s -> codec_buildable t = true ->
  forall om, is_some (build reg_std (classify s) (Some t) om) = true.
Proof.
  induction t as [ | k | | | | | e IH | n e IH | k e IHk IH | e IH | name pkg fields IH | w | id u IH | k | | | | ]
    using gty_ind; intros s H Hb om; try discriminate Hb; try discriminate H.
  - injection H as <-. reflexivity.
  - destruct k; try discriminate Hb; injection H as <-; reflexivity.
  - injection H as <-. reflexivity.
  - injection H as <-. reflexivity.
  - injection H as <-. reflexivity.
  - (* slice *)
    rewrite sf_slice in H. cbn [codec_buildable] in Hb. destruct (is_u8 e) eqn:E8.
    + injection H as <-. change (classify (gs_prim "bytes")) with SBytes.
      rewrite build_some_eq by exact I. cbn [peel]. unfold build_base. cbn [reg_lookup]. unfold disp.
      cbn [option_map underlying build_prim]. rewrite E8. reflexivity.
    + cbn [orb] in Hb. destruct (schema_for sreg_std e) as [se|] eqn:Es; [|discriminate]. injection H as <-.
      rewrite classify_array, build_some_eq by exact I. cbn [peel]. unfold build_base. cbn [reg_lookup]. unfold disp.
      cbn [option_map underlying]. specialize (IH se eq_refl Hb false).
      destruct (build reg_std (classify se) (Some e) false); [reflexivity|discriminate].
  - (* map *)
    rewrite sf_map in H. cbn [codec_buildable] in Hb. destruct (underlying k) eqn:Ek; try discriminate Hb.
    destruct (schema_for sreg_std e) as [se|] eqn:Es; [|discriminate]. injection H as <-.
    rewrite classify_map, build_some_eq by exact I. cbn [peel]. unfold build_base. cbn [reg_lookup]. unfold disp.
    cbn [option_map underlying]. rewrite Ek. specialize (IH se eq_refl Hb false).
    destruct (build reg_std (classify se) (Some e) false); [reflexivity|discriminate].
  - (* pointer *)
    rewrite sf_ptr in H. cbn [codec_buildable] in Hb. destruct (schema_for sreg_std e) as [se|] eqn:Es; [|discriminate].
    injection H as <-. specialize (IH se eq_refl Hb).
    pose proof (schema_for_shaped sreg_std sreg_std_shaped e se Es) as [Hnn Hsh].
    destruct (keeps_shape se) eqn:Ek.
    + destruct (is_union se) eqn:Eu.
      * destruct (Hsh eq_refl) as (x & -> & Hxu & Hxn). rewrite classify_nullable in *.
        rewrite nullable_step, ptr_step by (apply non_nu_classify; assumption).
        rewrite <- nullable_step. apply IH.
      * rewrite ptr_step by (apply non_nu_classify; assumption). apply IH.
    + rewrite classify_nullable, nullable_step, ptr_step; [apply IH|].
      apply non_nu_classify; [apply keeps_shape_false; exact Ek|exact Hnn].
  - (* struct *)
    rewrite sf_struct in H. rewrite codec_buildable_struct in Hb. apply andb_prop in Hb as [Hnd Hall].
    apply nodupb_NoDup in Hnd. destruct (sf_fields sreg_std fields) as [fs|] eqn:E; [|discriminate]. injection H as <-.
    rewrite classify_record, build_some_eq by exact I. cbn [peel]. unfold build_base. cbn [reg_lookup]. unfold disp.
    cbn [option_map underlying struct_fields].
    enough (G : is_some (build_fields (bldf reg_std) (Some fields) (map (fun p => (fst p, classify (snd p))) fs)) = true).
    { destruct (build_fields _ _ _); [reflexivity|discriminate]. }
    assert (Hfind : forall f, In f fields -> excluded f = false ->
                    exists j, find_field (name_for_field f) fields = Some (j, f)).
    { intros f Hin Hex. rewrite find_field_go. apply ff_go_found; assumption. }
    rewrite forallb_forall in Hall. rewrite Forall_forall in IH.
    enough (Gen : forall l, (forall f, In f l -> In f fields) -> forall fs0, sf_fields sreg_std l = Some fs0 ->
              is_some (build_fields (bldf reg_std) (Some fields) (map (fun p => (fst p, classify (snd p))) fs0)) = true).
    { apply (Gen fields); [auto|exact E]. }
    clear fs E.
    induction l as [|f r IHl]; intros Hsub fs E.
    + injection E as <-. reflexivity.
    + cbn [sf_fields] in E. destruct (excluded f) eqn:Ex.
      * apply IHl; [|exact E]. intros f' Hf'. apply Hsub. right. exact Hf'.
      * destruct (schema_for sreg_std (gf_type f)) as [sf|] eqn:Esf; [|discriminate].
        destruct (sf_fields sreg_std r) as [r'|] eqn:Er; [|discriminate]. injection E as <-.
        cbn [map fst snd build_fields].
        assert (Hin : In f fields) by (apply Hsub; left; reflexivity).
        destruct (Hfind f Hin Ex) as [j Hj]. rewrite Hj.
        specialize (IHl (fun f' Hf' => Hsub f' (or_intror Hf')) r' eq_refl).
        pose proof (Hall f Hin) as Hbf. rewrite Ex in Hbf. cbn [orb] in Hbf.
        pose proof (IH f Hin sf Esf Hbf (omit_empty f)) as Hone.
        assert (Hfc : is_some (build reg_std (classify (field_schema f sf)) (Some (gf_type f)) (omit_empty f)) = true).
        { unfold field_schema. destruct (omit_empty f && negb (is_union sf)); [|exact Hone].
          rewrite classify_nullable, nullable_step. exact Hone. }
        destruct (build reg_std (classify (field_schema f sf)) (Some (gf_type f)) (omit_empty f)); [|discriminate].
        destruct (build_fields _ _ _); [reflexivity|discriminate].
  - (* wrapper types *)
    rewrite sf_wrap in H. destruct w; injection H as <-; reflexivity.
  - (* defined types *)
    rewrite sf_named in H. cbn [sreg_std] in H. cbn [codec_buildable] in Hb.
    rewrite build_named; [apply IH; [exact H|]| reflexivity | |].
    + destruct u; try discriminate Hb; exact Hb.
    + destruct u; try discriminate Hb; exact I.
    + destruct u; try discriminate Hb; reflexivity.
Qed.

(* at the top: SchemaForType followed by Schema.Codec on the same struct type *)
Corollary codec_decided_top t s : schema_for_type sreg_std t = Some s ->
  codec_buildable (match t with TPtr e => e | _ => t end) = true ->
  exists c, build reg_std (classify s) (Some (match t with TPtr e => e | _ => t end)) false = Some c.
Proof.
  unfold schema_for_type. set (t' := match t with TPtr e => e | _ => t end).
  destruct (underlying t'); try discriminate. intros H Hb.
  pose proof (codec_decided t' s H Hb false) as G. destruct (build reg_std (classify s) (Some t') false) as [c|]; [|discriminate].
  exists c. reflexivity.
Qed.
