(* End to end through the object container: what Encoder/FileWriter put on the
   io.Writer is read back by ReadFile record for record.  Composition of
   - WriterP.enc_run_refines   (writer = block specification),
   - ContainerP.read_blocks_valid (reader on well-formed blocks),
   - RoundTrip.write_then_read (each record's bytes decode to the value written),
   and of a header round trip proved here. *)
From Coq Require Import List ZArith Lia Bool ZifyBool ZifyNat String.
Require Import Avro.Model.Base Avro.Model.Prim Avro.Model.Schema Avro.Model.Container Avro.Model.Writer.
Require Import Avro.Proofs.ListFacts Avro.Proofs.VarintP Avro.Proofs.VarintMore Avro.Proofs.PrimP.
Require Import Avro.Proofs.ContainerP Avro.Proofs.WriterP.
Import ListNotations.
Open Scope Z_scope.
Open Scope list_scope.

(* ---------------- header ---------------- *)

Lemma read_lp_app s rest : len s < two63 -> read_lp (lp s ++ rest) = Some (s, rest).
Proof.
  intros H. unfold read_lp, lp. rewrite <- app_assoc.
  rewrite read_varint_enc by (apply len_int64; exact H).
  rewrite read_full_app by reflexivity. reflexivity.
Qed.

Definition written_meta (schema_json codec_name : bytes) : meta :=
  [(b "avro.codec", codec_name); (b "avro.schema", schema_json)].

Lemma read_header_written schema_json codec_name sync rest :
  len schema_json < two63 -> len codec_name < two63 -> len sync = 16 ->
  read_header (header_bytes schema_json codec_name sync ++ rest)
  = Some ({| h_meta := written_meta schema_json codec_name; h_sync := sync |}, rest).
Proof.
  intros Hs Hc Hy. unfold read_header, header_bytes. rewrite <- !app_assoc.
  rewrite (read_full_app magic) by reflexivity. rewrite beqb_refl.
  set (tail := enc_varint 2 ++ _).
  assert (Hm : forall f, read_meta (S (S f)) [] tail
               = Some (written_meta schema_json codec_name, sync ++ rest)).
  { intros f. unfold tail. cbn [read_meta].
    rewrite read_varint_enc by (unfold int64_ok, two63; lia).
    change (2 =? 0) with false. change (2 <? 0) with false. cbv iota.
    set (body := lp (b "avro.schema") ++ _).
    assert (He : forall g, read_meta_entries (S (S (S g))) 2 [] body
                 = Some (written_meta schema_json codec_name, enc_varint 0 ++ sync ++ rest)).
    { intros g. unfold body. cbn [read_meta_entries].
      change (2 <=? 0) with false. cbv iota.
      rewrite read_lp_app by (vm_compute; reflexivity).
      rewrite read_lp_app by exact Hs.
      change (2 - 1 <=? 0) with false. cbv iota.
      rewrite read_lp_app by (vm_compute; reflexivity).
      rewrite read_lp_app by exact Hc.
      change (2 - 1 - 1 <=? 0) with true. cbv iota. reflexivity. }
    assert (Hlen : (2 <= length body)%nat).
    { assert (H1 : length (lp (b "avro.schema")) = 12%nat) by (vm_compute; reflexivity).
      unfold body. rewrite app_length, H1. lia. }
    destruct (length body) as [|[|n]] eqn:E; [lia|lia|].
    rewrite He. rewrite read_varint_enc by (unfold int64_ok, two63; lia).
    change (0 =? 0) with true. cbv iota. reflexivity. }
  assert (Hlen : (1 <= length tail)%nat).
  { assert (H1 : length (enc_varint 2) = 1%nat) by (vm_compute; reflexivity).
    unfold tail. rewrite app_length, H1. lia. }
  destruct (length tail) as [|n] eqn:E; [lia|].
  rewrite Hm. rewrite <- Hy, (read_full_app sync rest). reflexivity.
Qed.

(* what the reader then looks up in it *)
Lemma written_meta_schema sj cn : meta_get (written_meta sj cn) (b "avro.schema") = Some sj.
Proof. reflexivity. Qed.
Lemma written_meta_codec sj cn : meta_get (written_meta sj cn) (b "avro.codec") = Some cn.
Proof. reflexivity. Qed.

(* ---------------- body ---------------- *)

Section FileRoundTrip.
  Variable compress : bytes -> bytes.
  Variable decompress : bytes -> option bytes.
  Hypothesis Hdc : forall x, decompress (compress x) = Some x.
  Variable read_record : bytes -> out unit.
  Variable sync : bytes.
  Hypothesis Hsync : len sync = 16.

  (* a record's bytes are consumed exactly, whatever follows *)
  Definition rec_decodes (r : bytes) : Prop := forall rest, read_record (r ++ rest) = Done tt rest.

  Lemma recs_ok_concat : forall g rest, Forall rec_decodes g ->
    recs_ok read_record (length g) (concat g ++ rest).
  Proof.
    induction g as [|r g IH]; intros rest Hg; cbn [length concat recs_ok]; [exact I|].
    inversion Hg as [|? ? Hr Hg']; subst. exists (concat g ++ rest). split.
    - rewrite <- app_assoc. apply Hr.
    - apply IH. exact Hg'.
  Qed.

  Definition vb_of (g : list bytes) : vblock :=
    {| vb_count := length g; vb_raw := compress (concat g); vb_payload := concat g |}.

  Definition group_small (g : list bytes) : Prop :=
    Z.of_nat (length g) < two63 /\ len (compress (concat g)) < two63.

  Lemma vbs_ok_groups : forall gs idx,
    Forall (Forall rec_decodes) gs -> Forall group_small gs ->
    vbs_ok decompress read_record (fun _ => None) idx (map vb_of gs).
  Proof.
    induction gs as [|g gs IH]; intros idx Hd Hs; cbn [map vbs_ok]; [exact I|].
    inversion Hd as [|? ? Hg Hd']; subst. inversion Hs as [|? ? Hg2 Hs']; subst. split.
    - unfold vb_ok, vb_of. cbn [vb_raw vb_payload vb_count]. destruct Hg2 as [H1 H2].
      refine (conj (Hdc _) (conj _ (conj _ (conj H1 H2)))).
      + rewrite <- (app_nil_r (concat g)). apply recs_ok_concat. exact Hg.
      + intros i _. reflexivity.
    - apply IH; assumption.
  Qed.

  Lemma total_groups : forall gs, total (map vb_of gs) = length (concat gs).
  Proof.
    induction gs as [|g gs IH]; [reflexivity|]. cbn [map concat]. unfold total in *. cbn [fold_right].
    rewrite IH, app_length. reflexivity.
  Qed.

  Lemma body_of_groups gs :
    concat (map (fun g => block_bytes sync (Z.of_nat (length g)) (compress (concat g))) gs)
    = concat (map (vb_bytes sync) (map vb_of gs)).
  Proof.
    rewrite map_map. f_equal. apply map_ext. intros g. unfold vb_bytes, vb_of. cbn [vb_count vb_raw].
    symmetry. apply blk_is_block_bytes.
  Qed.

  Lemma Forall_concat_inv {A} (P : A -> Prop) : forall (gs : list (list A)),
    Forall P (concat gs) -> Forall (Forall P) gs.
  Proof.
    induction gs as [|g gs IH]; intros H; [constructor|]. cbn [concat] in H.
    apply Forall_app in H. destruct H as [H1 H2]. constructor; [exact H1|apply IH; exact H2].
  Qed.

  (* The body an encoder history produces, closed by a flush (Close): the reader
     delivers exactly the records appended, in order (record i is the i-th one
     handed to the callback, by [read_blocks]'s index), and reports success. *)
  Theorem body_roundtrip : forall size ops fuel,
    Forall rec_decodes (recs_of ops) ->
    Forall group_small (fst (blocks_spec size [] (ops ++ [OpFlush]))) ->
    (length (fst (blocks_spec size [] (ops ++ [OpFlush]))) < fuel)%nat ->
    read_blocks decompress read_record (fun _ => None) fuel sync 0
      (concat (snd (enc_run compress sync size enc_init (ops ++ [OpFlush]))))
    = (length (recs_of ops), FOk).
  Proof.
    intros size ops fuel Hrec Hsmall Hfuel.
    destruct (enc_run_refines compress sync size (ops ++ [OpFlush])) as (Hout & _ & _).
    rewrite Hout, body_of_groups.
    pose proof (flush_complete size ops) as Hall.
    rewrite (read_blocks_valid decompress read_record (fun _ => None) sync Hsync).
    - rewrite total_groups, Hall. reflexivity.
    - apply vbs_ok_groups; [|exact Hsmall]. apply Forall_concat_inv. rewrite Hall. exact Hrec.
    - rewrite map_length. exact Hfuel.
  Qed.

  (* whole file: header, then the body *)
  Theorem file_roundtrip : forall schema_json codec_name size ops fuel,
    len schema_json < two63 -> len codec_name < two63 ->
    Forall rec_decodes (recs_of ops) ->
    Forall group_small (fst (blocks_spec size [] (ops ++ [OpFlush]))) ->
    (length (fst (blocks_spec size [] (ops ++ [OpFlush]))) < fuel)%nat ->
    exists body,
      read_header (concat (file_chunks compress schema_json codec_name sync size (ops ++ [OpFlush])))
        = Some ({| h_meta := written_meta schema_json codec_name; h_sync := sync |}, body) /\
      read_blocks decompress read_record (fun _ => None) fuel sync 0 body = (length (recs_of ops), FOk).
  Proof.
    intros sj cn size ops fuel Hs Hc Hrec Hsmall Hfuel.
    exists (concat (snd (enc_run compress sync size enc_init (ops ++ [OpFlush])))). split.
    - unfold file_chunks. cbn [concat]. apply read_header_written; assumption.
    - apply body_roundtrip; assumption.
  Qed.
End FileRoundTrip.
