(* W: what the library writes for a value is the canonical Avro encoding (one
   unsized block per non-empty collection) of the datum the value denotes. *)
From Coq Require Import List ZArith Lia Bool ZifyBool ZifyNat.
Require Import Avro.Model.Base Avro.Model.Prim Avro.Model.Schema Avro.Model.GoType
               Avro.Model.Blocks Avro.Model.Time Avro.Model.Spec Avro.Model.Codec Avro.Model.Denote.
Require Import Avro.Proofs.ListFacts Avro.Proofs.CodecInd Avro.Proofs.CodecEq Avro.Proofs.Wire.
Import ListNotations.
Open Scope Z_scope.

(* ---- canonical encoding, with named loops ---- *)
Fixpoint canon_fields (l : list (ident * schema)) (ds : list datum) {struct ds} : bytes :=
  match l, ds with
  | (_, fs) :: l', d :: ds' => canon_encode fs d ++ canon_fields l' ds'
  | _, _ => []
  end.

Definition canon_coll (items : list bytes) : bytes :=
  match items with
  | [] => [0]
  | _ => enc_varint (Z.of_nat (length items)) ++ concat items ++ [0]
  end.

Lemma asm_blocks_nil items : asm_blocks [] items = canon_coll items.
Proof. destruct items; reflexivity. Qed.

Lemma canon_record_eq fields ds : canon_encode (SRecord fields) (DRecord ds) = canon_fields fields ds.
Proof.
  unfold canon_encode. cbn [spec_encode ch_fields].
  revert fields. induction ds as [|d ds IH]; intros [|[n fs] l]; try reflexivity.
  cbn [canon_fields hd tl]. f_equal. apply IH.
Qed.

Lemma canon_array_eq it ds :
  canon_encode (SArray it) (DArray ds) = canon_coll (map (canon_encode it) ds).
Proof.
  unfold canon_encode at 1. cbn [spec_encode ch_cuts ch_items]. rewrite asm_blocks_nil. f_equal.
  induction ds as [|d ds IH]; [reflexivity|]. cbn [map hd tl]. f_equal. exact IH.
Qed.

Definition canon_kv (vs : schema) (kd : bytes * datum) : bytes :=
  enc_varint (len (fst kd)) ++ fst kd ++ canon_encode vs (snd kd).

Lemma canon_map_eq vs kvs :
  canon_encode (SMap vs) (DMap kvs) = canon_coll (map (canon_kv vs) kvs).
Proof.
  unfold canon_encode at 1. cbn [spec_encode ch_cuts ch_items]. rewrite asm_blocks_nil. f_equal.
  induction kvs as [|[k d] kvs IH]; [reflexivity|]. cbn [map hd tl]. f_equal. exact IH.
Qed.

Lemma canon_union_eq brs idx d :
  canon_encode (SUnion brs) (DUnion idx d) = enc_varint idx ++ canon_encode (nth (Z.to_nat idx) brs SBad) d.
Proof. reflexivity. Qed.

(* ---- named loops of c_write and datum_of ---- *)
Fixpoint write_fields (vs : list gval) (l : list (codec * option nat)) {struct l} : list (option bytes) :=
  match l with
  | [] => []
  | (fc, Some j) :: l' => c_write fc (nth j vs VBad) :: write_fields vs l'
  | (_, None) :: l' => None :: write_fields vs l'
  end.
Lemma c_write_record_eq fs vs : c_write (CRecord fs) (VStruct vs) = opt_concat (write_fields vs fs).
Proof.
  cbn [c_write]. f_equal. induction fs as [|[fc [j|]] l IH]; [reflexivity| |]; cbn [write_fields]; f_equal; exact IH.
Qed.

Fixpoint datum_fields (vs : list gval) (l : list (codec * option nat)) (fl : list (ident * schema)) {struct l} : option (list datum) :=
  match l, fl with
  | [], [] => Some []
  | (fc, Some j) :: l', (_, fsch) :: fl' =>
      match datum_of fc fsch (nth j vs VBad), datum_fields vs l' fl' with
      | Some d, Some ds => Some (d :: ds)
      | _, _ => None
      end
  | _, _ => None
  end.
Lemma datum_of_record_eq fs fields vs :
  datum_of (CRecord fs) (SRecord fields) (VStruct vs) = option_map DRecord (datum_fields vs fs fields).
Proof.
  cbn [datum_of]. f_equal. revert fields. induction fs as [|[fc [j|]] l IH]; intros [|[n fsch] fl]; try reflexivity.
  cbn [datum_fields]. rewrite IH. reflexivity.
Qed.

Fixpoint datum_items (ic : codec) (it : schema) (l : list gval) {struct l} : option (list datum) :=
  match l with
  | [] => Some []
  | x :: l' => match datum_of ic it x, datum_items ic it l' with
               | Some d, Some ds => Some (d :: ds)
               | _, _ => None end
  end.
Fixpoint datum_kvs (vc : codec) (vsch : schema) (l : list (bytes * gval)) {struct l} : option (list (bytes * datum)) :=
  match l with
  | [] => Some []
  | (k, x) :: l' => match datum_of vc vsch x, datum_kvs vc vsch l' with
                    | Some d, Some ds => Some ((k, d) :: ds)
                    | _, _ => None end
  end.

Fixpoint write_items (ic : codec) (l : list gval) {struct l} : list (option bytes) :=
  match l with [] => [] | x :: l' => c_write ic x :: write_items ic l' end.
Fixpoint write_kvs (vc : codec) (l : list (bytes * gval)) {struct l} : list (option bytes) :=
  match l with
  | [] => []
  | (k, x) :: l' => option_map (app (string_write k)) (c_write vc x) :: write_kvs vc l'
  end.

Lemma datum_of_array_eq ic z om it vs :
  datum_of (CArray ic z om) (SArray it) (VSlice vs) = option_map DArray (datum_items ic it vs).
Proof.
  cbn [datum_of]. f_equal. induction vs as [|x l IH]; [reflexivity|]. cbn [datum_items]. rewrite IH. reflexivity.
Qed.
Lemma datum_of_map_eq vc z om vsch kvs :
  datum_of (CMap vc z om) (SMap vsch) (VMap kvs) = option_map DMap (datum_kvs vc vsch kvs).
Proof.
  cbn [datum_of]. f_equal. induction kvs as [|[k x] l IH]; [reflexivity|]. cbn [datum_kvs]. rewrite IH. reflexivity.
Qed.
Lemma c_write_array_eq ic z om vs :
  c_write (CArray ic z om) (VSlice vs) =
  match vs with
  | [] => Some [0]
  | _ => option_map (fun body => enc_varint (Z.of_nat (length vs)) ++ body ++ [0]) (opt_concat (write_items ic vs))
  end.
Proof.
  cbn [c_write]. destruct vs as [|x0 l0]; [reflexivity|]. f_equal. f_equal. cbn [write_items]. f_equal.
  induction l0 as [|x l IH]; [reflexivity|]. cbn [write_items]. f_equal. exact IH.
Qed.
Lemma c_write_map_eq vc z om kvs :
  c_write (CMap vc z om) (VMap kvs) =
  match kvs with
  | [] => Some [0]
  | _ => option_map (fun body => enc_varint (Z.of_nat (length kvs)) ++ body ++ [0]) (opt_concat (write_kvs vc kvs))
  end.
Proof.
  cbn [c_write]. destruct kvs as [|[k0 x0] l0]; [reflexivity|]. f_equal. f_equal. cbn [write_kvs]. f_equal.
  induction l0 as [|[k x] l IH]; [reflexivity|]. cbn [write_kvs]. f_equal. exact IH.
Qed.

Lemma opt_concat_some l bs : Forall2 (fun o b0 => o = Some b0) l bs -> opt_concat l = Some (concat bs).
Proof.
  induction 1 as [|o b0 l bs Ho _ IH]; [reflexivity|]. subst o. cbn [opt_concat concat]. rewrite IH. reflexivity.
Qed.

(* a nil pointer under an array or map schema: the empty collection, one zero byte *)
Lemma empty_coll_canon : forall c s d, wire c s -> is_empty_coll c = Some d ->
  coll c = true /\ canon_encode s d = [0].
Proof.
  induction c using codec_ind'; intros s d W Hd; try discriminate.
  - cbn in Hd. injection Hd as <-. destruct s; try contradiction. split; reflexivity.
  - cbn in Hd. injection Hd as <-. destruct s; try contradiction. split; reflexivity.
  - cbn [wire] in W. cbn [is_empty_coll] in Hd. cbn [coll]. eapply IHc; eauto.
  - cbn [wire] in W. cbn [is_empty_coll] in Hd. cbn [coll]. eapply IHc; eauto.
Qed.

Theorem write_canon : forall c s v d,
  wire c s -> datum_of c s v = Some d -> c_write c v = Some (canon_encode s d).
Proof.
  induction c using codec_ind'; intros s v d W Hd.
  - cbn [wire] in W. subst s. cbn in Hd. injection Hd as <-. reflexivity.
  - cbn [wire] in W. subst s. cbn [datum_of] in Hd. destruct v; try discriminate. injection Hd as <-. reflexivity.
  - cbn [wire] in W. cbn [datum_of] in Hd. destruct v; try discriminate.
    destruct s; try contradiction; cbn in Hd; injection Hd as <-; reflexivity.
  - cbn [wire] in W. subst s. cbn [datum_of] in Hd. destruct v; try discriminate. injection Hd as <-. reflexivity.
  - cbn [wire] in W. subst s. cbn [datum_of] in Hd. destruct v; try discriminate. injection Hd as <-. reflexivity.
  - cbn [wire] in W. subst s. cbn [datum_of] in Hd. destruct v; try discriminate. injection Hd as <-. reflexivity.
  - cbn [wire] in W. subst s. cbn [datum_of] in Hd. destruct v; try discriminate. injection Hd as <-. reflexivity.
  - cbn [wire] in W. subst s. cbn [datum_of] in Hd. destruct v; try discriminate. injection Hd as <-. reflexivity.
  - cbn [wire] in W. destruct W as [-> Hn]. cbn [datum_of] in Hd. destruct v; try discriminate. injection Hd as <-. reflexivity.
  - (* record *)
    destruct s; try contradiction. rewrite wire_record_eq in W. destruct v; try discriminate.
    rewrite datum_of_record_eq in Hd. destruct (datum_fields fs0 fs fields) as [ds|] eqn:Ed; [|discriminate]. injection Hd as <-.
    rewrite c_write_record_eq, canon_record_eq.
    assert (Hgo : exists bl, Forall2 (fun o b0 => o = Some b0) (write_fields fs0 fs) bl /\ concat bl = canon_fields fields ds).
    { clear -H W Ed. revert fields ds W Ed. induction fs as [|[fc tgt] l IHl]; intros [|[n fsch] fl] ds W Ed; try contradiction.
      - cbn in Ed. injection Ed as <-. exists []. split; [constructor|reflexivity].
      - cbn [wire_fields] in W. destruct W as [W1 W2]. inversion H as [|? ? Hfc Hl]; subst. cbn [fst] in Hfc.
        destruct tgt as [j|]; [|discriminate]. cbn [datum_fields] in Ed.
        destruct (datum_of fc fsch (nth j fs0 VBad)) as [d0|] eqn:Ed0; [|discriminate].
        destruct (datum_fields fs0 l fl) as [ds'|] eqn:Eds; [|discriminate]. injection Ed as <-.
        destruct (IHl Hl _ _ W2 Eds) as (bl & HF & Hc).
        exists (canon_encode fsch d0 :: bl). split.
        + cbn [write_fields]. constructor; [eapply Hfc; eauto|exact HF].
        + cbn [concat canon_fields]. rewrite Hc. reflexivity. }
    destruct Hgo as (bl & HF & Hc). rewrite (opt_concat_some _ _ HF), Hc. reflexivity.
  - (* array *)
    destruct s; try contradiction. cbn [wire] in W. destruct v; try discriminate.
    rewrite datum_of_array_eq in Hd.
    destruct (datum_items c s vs) as [ds|] eqn:Ed; [|discriminate]. injection Hd as <-.
    rewrite canon_array_eq.
    assert (Hgo : Forall2 (fun o b0 => o = Some b0) (write_items c vs) (map (canon_encode s) ds) /\ length ds = length vs).
    { clear -IHc W Ed. revert ds Ed. induction vs as [|x l IHl]; intros ds Ed.
      - cbn in Ed. injection Ed as <-. split; [constructor|reflexivity].
      - cbn [datum_items] in Ed. destruct (datum_of c s x) as [d0|] eqn:Ed0; [|discriminate].
        destruct (datum_items c s l) as [ds'|] eqn:Eds; [|discriminate]. injection Ed as <-.
        destruct (IHl _ eq_refl) as [HF Hl]. split; [|cbn; lia]. cbn [write_items map]. constructor; [eapply IHc; eauto|exact HF]. }
    destruct Hgo as [HF Hl].
    rewrite c_write_array_eq.
    destruct vs as [|x l].
    + destruct ds; [reflexivity|discriminate].
    + rewrite (opt_concat_some _ _ HF). destruct ds as [|d0 ds]; [discriminate|].
      cbn [option_map canon_coll map]. cbn [length] in *. rewrite map_length. rewrite Hl. reflexivity.
  - (* map *)
    destruct s; try contradiction. cbn [wire] in W.
    destruct v; try discriminate.
    + cbn [datum_of] in Hd. injection Hd as <-. reflexivity.
    + rewrite datum_of_map_eq in Hd.
      destruct (datum_kvs c s kvs) as [ds|] eqn:Ed; [|discriminate]. injection Hd as <-.
      rewrite canon_map_eq.
      assert (Hgo : Forall2 (fun o b0 => o = Some b0) (write_kvs c kvs) (map (canon_kv s) ds) /\ length ds = length kvs).
      { clear -IHc W Ed. revert ds Ed. induction kvs as [|[k x] l IHl]; intros ds Ed.
        - cbn in Ed. injection Ed as <-. split; [constructor|reflexivity].
        - cbn [datum_kvs] in Ed. destruct (datum_of c s x) as [d0|] eqn:Ed0; [|discriminate].
          destruct (datum_kvs c s l) as [ds'|] eqn:Eds; [|discriminate]. injection Ed as <-.
          destruct (IHl _ eq_refl) as [HF Hl]. split; [|cbn; lia]. cbn [write_kvs map]. constructor; [|exact HF].
          rewrite (IHc _ _ _ W Ed0). unfold canon_kv, string_write. cbn [option_map fst snd]. rewrite <- app_assoc. reflexivity. }
      destruct Hgo as [HF Hl].
      rewrite c_write_map_eq.
      destruct kvs as [|kx l].
      * destruct ds; [reflexivity|discriminate].
      * rewrite (opt_concat_some _ _ HF). destruct ds as [|d0 ds]; [discriminate|].
        cbn [option_map canon_coll map]. cbn [length] in *. rewrite map_length. rewrite Hl. reflexivity.
  - (* pointer *)
    cbn [wire] in W. cbn [datum_of] in Hd. destruct v; try discriminate. destruct v as [x|].
    + cbn [c_write]. eapply IHc; eauto.
    + cbn [c_write]. destruct (empty_coll_canon c s d W Hd) as [-> ->]. reflexivity.
  - discriminate.
  - (* null + one *)
    cbn [wire] in W. destruct s; try contradiction. destruct branches as [|x1 [|x2 [|? ?]]]; try contradiction.
    + destruct x1; contradiction.
    + assert (Hw : (x1 = SNull /\ nn = 1 /\ wire c x2) \/ (x2 = SNull /\ nn = 0 /\ wire c x1)).
      { destruct x1; destruct x2; try contradiction; destruct W as [? ?];
        first [left; repeat split; (reflexivity || assumption) | right; repeat split; (reflexivity || assumption)]. }
      cbn [datum_of] in Hd. cbn [c_write].
      destruct (c_omit c v) eqn:Eo.
      * injection Hd as <-. rewrite canon_union_eq.
        destruct Hw as [(-> & -> & Wc) | (-> & -> & Wc)].
        -- change (Z.to_nat (1 - 1)) with 0%nat. cbn [nth]. unfold canon_encode. cbn [spec_encode]. rewrite app_nil_r. reflexivity.
        -- change (Z.to_nat (1 - 0)) with 1%nat. cbn [nth]. unfold canon_encode. cbn [spec_encode]. rewrite app_nil_r. reflexivity.
      * destruct Hw as [(-> & -> & Wc) | (-> & -> & Wc)]; cbn [Z.eqb] in Hd.
        -- destruct (datum_of c x2 v) as [d0|] eqn:Ed0; [|discriminate]. injection Hd as <-.
           rewrite (IHc _ _ _ Wc Ed0). reflexivity.
        -- destruct (datum_of c x1 v) as [d0|] eqn:Ed0; [|discriminate]. injection Hd as <-.
           rewrite (IHc _ _ _ Wc Ed0). reflexivity.
    + destruct x1; try contradiction; destruct x2; contradiction.
  - (* null + string *)
    cbn [wire] in W. cbn [datum_of] in Hd. destruct v; try discriminate. cbn [c_write].
    destruct (om && match s0 with [] => true | _ => false end).
    + injection Hd as <-. destruct W as [[-> ->] | [-> ->]]; reflexivity.
    + injection Hd as <-. destruct W as [[-> ->] | [-> ->]]; reflexivity.
  - cbn [wire] in W. subst s. cbn [datum_of] in Hd. destruct v; try discriminate. injection Hd as <-. reflexivity.
  - cbn [wire] in W. cbn [datum_of] in Hd. destruct v; try discriminate.
    destruct s; try contradiction; cbn in Hd; injection Hd as <-; reflexivity.
  - cbn [wire] in W. cbn [datum_of] in Hd. destruct v; try discriminate. destruct t as [us ns off].
    destruct s; try contradiction; cbn in Hd; injection Hd as <-; reflexivity.
  - cbn [wire] in W. cbn [datum_of] in Hd. destruct v; try discriminate. destruct v; try discriminate.
    destruct s; try contradiction; cbn in Hd; injection Hd as <-; reflexivity.
  - cbn [wire] in W. subst s. cbn [datum_of] in Hd. destruct v; try discriminate. destruct v; try discriminate. injection Hd as <-. reflexivity.
  - cbn [wire] in W. subst s. cbn [datum_of] in Hd. destruct v; try discriminate. destruct v; try discriminate. injection Hd as <-. reflexivity.
  - cbn [wire] in W. subst s. cbn [datum_of] in Hd. destruct v; try discriminate. destruct v; try discriminate. injection Hd as <-. reflexivity.
  - cbn [wire] in W. subst s. cbn [datum_of] in Hd. destruct v; try discriminate. destruct v; try discriminate. injection Hd as <-. reflexivity.
  - cbn [wire] in W. subst s. cbn [datum_of] in Hd. destruct v; try discriminate. destruct v; try discriminate. injection Hd as <-. reflexivity.
  - cbn [wire] in W. cbn [datum_of] in Hd. cbn [c_write]. eapply IHc; eauto.
Qed.
