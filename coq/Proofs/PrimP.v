(* Proofs about the primitive codecs (Model/Prim.v). *)
From Coq Require Import List ZArith Lia Bool ZifyBool ZifyNat.
Require Import Avro.Model.Base Avro.Model.Prim Avro.Proofs.ListFacts Avro.Proofs.VarintP Avro.Proofs.VarintMore.
Import ListNotations.
Open Scope Z_scope.
Ltac Zify.zify_post_hook ::= Z.div_mod_to_equations.

Lemma firstn_len_app {A} (a b : list A) : firstn (length a) (a ++ b) = a.
Proof. rewrite firstn_app, Nat.sub_diag, firstn_all. cbn. apply app_nil_r. Qed.
Lemma skipn_len_app {A} (a b : list A) : skipn (length a) (a ++ b) = b.
Proof. rewrite skipn_app, Nat.sub_diag, skipn_all. reflexivity. Qed.

Lemma rd_next_app a rest : rd_next (len a) (a ++ rest) = Done a rest.
Proof.
  unfold rd_next, len. rewrite app_length, Nat2Z.id.
  replace ((Z.of_nat (length a) <? 0) || (Z.of_nat (length a + length rest) <? Z.of_nat (length a))) with false by lia.
  rewrite firstn_len_app, skipn_len_app. reflexivity.
Qed.

Lemma rd_varint_enc v rest : int64_ok v -> rd_varint (enc_varint v ++ rest) = Done v rest.
Proof. intros H. unfold rd_varint. rewrite dec_enc_varint by exact H. reflexivity. Qed.

(* ---- integer width ---- *)
Lemma int_read_enc w v rest : int64_ok v ->
  int_read w (int_write v ++ rest) = if int_fits w v then Done v rest else Err.
Proof. intros H. unfold int_read, int_write. rewrite dec_enc_varint by exact H. reflexivity. Qed.

Lemma int_fits_spec w v : 0 < w -> int_fits w v = true <-> - 2 ^ (w - 1) <= v < 2 ^ (w - 1).
Proof. intros Hw. unfold int_fits. lia. Qed.

Lemma int_read_never_truncates w bs v rest :
  int_read w bs = Done v rest -> int_fits w v = true /\ dec_varint bs = VOk (v, rest).
Proof.
  unfold int_read. destruct (dec_varint bs) as [[i r]| |]; try discriminate.
  destruct (int_fits w i) eqn:E; try discriminate. intros H. injection H as -> ->. auto.
Qed.

(* ---- little-endian words ---- *)
Lemma le_bytes_length n x : length (le_bytes n x) = n.
Proof. revert x; induction n as [|n IH]; intros x; cbn [le_bytes length]; [reflexivity|]. rewrite IH. reflexivity. Qed.

Lemma le_bytes_ok n x : bytes_ok (le_bytes n x).
Proof.
  revert x; induction n as [|n IH]; intros x; cbn [le_bytes]; constructor.
  - unfold byte_ok. lia.
  - apply IH.
Qed.

Lemma of_le_le_bytes n x : 0 <= x < 256 ^ Z.of_nat n -> of_le (le_bytes n x) = x.
Proof.
  revert x; induction n as [|n IH]; intros x Hx.
  - change (256 ^ Z.of_nat 0) with 1 in Hx. cbn. lia.
  - cbn [le_bytes of_le]. rewrite IH.
    + lia.
    + replace (Z.of_nat (S n)) with (Z.of_nat n + 1) in Hx by lia.
      rewrite Z.pow_add_r in Hx by lia. change (256 ^ 1) with 256 in Hx.
      assert (0 < 256 ^ Z.of_nat n) by (apply Z.pow_pos_nonneg; lia). nia.
Qed.

Lemma le_bytes_of_le bs : bytes_ok bs -> le_bytes (length bs) (of_le bs) = bs.
Proof.
  induction bs as [|b bs IH]; intros H; [reflexivity|].
  inversion H as [|? ? Hb Hbs]; subst. unfold byte_ok in Hb.
  cbn [length le_bytes of_le]. f_equal.
  - lia.
  - replace ((b + 256 * of_le bs) / 256) with (of_le bs) by lia. apply IH. exact Hbs.
Qed.

Lemma float_roundtrip n bits rest :
  0 <= bits < 256 ^ Z.of_nat n -> float_read n (float_write n bits ++ rest) = Done bits rest.
Proof.
  intros H. unfold float_read, float_write.
  replace (Z.of_nat n) with (len (le_bytes n bits)) by (unfold len; rewrite le_bytes_length; reflexivity).
  rewrite rd_next_app. cbn [obind]. rewrite of_le_le_bytes by exact H. reflexivity.
Qed.

Lemma float_read_bytes n bs rest : bytes_ok bs -> length bs = n ->
  float_read n (bs ++ rest) = Done (of_le bs) rest /\ float_write n (of_le bs) = bs.
Proof.
  intros Hok Hl. unfold float_read, float_write. subst n. split.
  - change (Z.of_nat (length bs)) with (len bs). rewrite rd_next_app. reflexivity.
  - apply le_bytes_of_le. exact Hok.
Qed.

Lemma float_read_short n bs : (length bs < n)%nat -> float_read n bs = Err.
Proof.
  intros H. unfold float_read, rd_next, len.
  replace ((Z.of_nat n <? 0) || (Z.of_nat (length bs) <? Z.of_nat n)) with true by lia. reflexivity.
Qed.

(* ---- bool, string ---- *)
Lemma bool_roundtrip b rest : bool_read (bool_write b ++ rest) = Done b rest.
Proof. destruct b; reflexivity. Qed.

Lemma len_int64 (bs : bytes) : len bs < two63 -> int64_ok (len bs).
Proof. unfold len, int64_ok, two63. lia. Qed.

Lemma string_roundtrip s rest : len s < two63 -> string_read (string_write s ++ rest) = Done s rest.
Proof.
  intros H. unfold string_read, string_write. rewrite <- app_assoc.
  rewrite rd_varint_enc by (apply len_int64; exact H). cbn [obind].
  replace (len s <? 0) with false by (unfold len; lia). apply rd_next_app.
Qed.

Lemma string_skip_exact s rest : len s < two63 -> string_skip (string_write s ++ rest) = Done tt rest.
Proof.
  intros H. unfold string_skip, string_write, rd_skipn. rewrite <- app_assoc.
  rewrite rd_varint_enc by (apply len_int64; exact H). cbn [obind].
  rewrite rd_next_app. reflexivity.
Qed.
