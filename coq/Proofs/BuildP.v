(* Every codec that buildCodec returns for schema s has the wire type of s. *)
From Coq Require Import List ZArith Lia Bool.
Require Import Avro.Model.Base Avro.Model.Prim Avro.Model.Schema Avro.Model.GoType
               Avro.Model.Blocks Avro.Model.Time Avro.Model.Spec Avro.Model.Codec.
Require Import Avro.Proofs.CodecInd Avro.Proofs.CodecEq Avro.Proofs.Wire.
Import ListNotations.
Open Scope Z_scope.

Lemma build_prim_wire s u om c : build_prim s u om = Some c -> wire c s.
Proof.
  unfold build_prim. destruct s; try discriminate.
  - intros H; injection H as <-; reflexivity.
  - destruct u as [[]|]; try discriminate; intros H; injection H as <-; reflexivity.
  - destruct u as [[| [] | | | | | | | | | | | | | | | |]|]; try discriminate; intros H; injection H as <-; exact I.
  - destruct u as [[| [] | | | | | | | | | | | | | | | |]|]; try discriminate; intros H; injection H as <-; exact I.
  - destruct u as [[]|]; try discriminate; intros H; injection H as <-; reflexivity.
  - destruct u as [[]|]; try discriminate; intros H; injection H as <-; reflexivity.
  - destruct u as [[]|]; try discriminate.
    + destruct (is_u8 e); try discriminate. intros H; injection H as <-; reflexivity.
    + intros H; injection H as <-; reflexivity.
  - destruct u as [[]|]; try discriminate; intros H; injection H as <-; reflexivity.
  - destruct (size <? 0) eqn:E; try discriminate.
    destruct u as [[]|]; try discriminate.
    + destruct (is_u8 e && (n =? size)); try discriminate. intros H; injection H as <-. cbn. split; [reflexivity|lia].
    + intros H; injection H as <-. cbn. split; [reflexivity|lia].
Qed.

Lemma wrap_ptrs_wire k : forall c z s, wire c s -> wire (wrap_ptrs k c z) s.
Proof. induction k as [|k IH]; intros c z s W; cbn [wrap_ptrs]; [exact W|]. apply IH. exact W. Qed.

Lemma apply_builder_wire bd s inner c :
  apply_builder bd s inner = Some c -> (forall ci, inner = Some ci -> wire ci s) -> wire c s.
Proof.
  unfold apply_builder. destruct bd as [[]|k].
  - destruct s; try discriminate.
    + destruct date; try discriminate. intros H _; injection H as <-; exact I.
    + intros H _; injection H as <-; exact I.
    + intros H _; injection H as <-; reflexivity.
  - destruct s; try discriminate; intros H _; injection H as <-; exact I.
  - destruct s; try discriminate; intros H _; injection H as <-; reflexivity.
  - destruct s; try discriminate; intros H _; injection H as <-; reflexivity.
  - destruct s; try discriminate; intros H _; injection H as <-; reflexivity.
  - destruct s; try discriminate; intros H _; injection H as <-; reflexivity.
  - destruct inner as [ci|]; try discriminate. intros H Hi; injection H as <-. cbn [wire]. auto.
Qed.

Definition bld_ok (bld : schema -> option gtype -> bool -> option codec) (s : schema) : Prop :=
  forall t om c, bld s t om = Some c -> wire c s.

Lemma build_fields_wire bld gfields : forall fields fs,
  Forall (fun p => bld_ok bld (snd p)) fields ->
  build_fields bld gfields fields = Some fs -> wire_fields wire fs fields.
Proof.
  induction fields as [|[n s] l IH]; intros fs HF H.
  - cbn in H. injection H as <-. exact I.
  - inversion HF as [|? ? Hs Hl]; subst. cbn [snd] in Hs. cbn [build_fields] in H.
    set (hit := match gfields with Some gfs => find_field n gfs | None => None end) in *.
    destruct (match hit with Some (_, gf) => bld s (Some (gf_type gf)) (omit_empty gf) | None => bld s None false end) as [c|] eqn:Ec; try discriminate.
    destruct (build_fields bld gfields l) as [r|] eqn:Er; try discriminate.
    injection H as <-. cbn [wire_fields]. split; [|apply IH; auto].
    destruct hit as [[j gf]|]; eapply Hs; eauto.
Qed.

Lemma disp_wire bld s t0 om c :
  match s with
  | SArray it => bld_ok bld it
  | SMap vs => bld_ok bld vs
  | SRecord fields => Forall (fun p => bld_ok bld (snd p)) fields
  | _ => True
  end ->
  disp bld s t0 om = Some c -> wire c s.
Proof.
  intros IH H. unfold disp in H. destruct s; try discriminate; try (apply build_prim_wire in H; exact H).
  - (* record *)
    destruct (option_map underlying t0) as [u|] eqn:Eu.
    + destruct (struct_fields (Some u)) as [gfs|] eqn:Es; try discriminate.
      destruct (build_fields bld (Some gfs) fields) as [fs|] eqn:Ef; try discriminate.
      injection H as <-. rewrite wire_record_eq. eapply build_fields_wire; eauto.
    + cbn [struct_fields] in H.
      destruct (build_fields bld None fields) as [fs|] eqn:Ef; try discriminate.
      injection H as <-. rewrite wire_record_eq. eapply build_fields_wire; eauto.
  - (* array *)
    destruct (option_map underlying t0) as [[]|]; try discriminate.
    + destruct (bld s (Some e) false) as [ic|] eqn:Ei; try discriminate. injection H as <-. cbn [wire]. eapply IH; eauto.
    + destruct (bld s None false) as [ic|] eqn:Ei; try discriminate. injection H as <-. cbn [wire]. eapply IH; eauto.
  - (* map *)
    destruct (option_map underlying t0) as [[]|]; try discriminate.
    + destruct (underlying k); try discriminate.
      destruct (bld s (Some e) false) as [vc|] eqn:Ei; try discriminate. injection H as <-. cbn [wire]. eapply IH; eauto.
    + destruct (bld s None false) as [vc|] eqn:Ei; try discriminate. injection H as <-. cbn [wire]. eapply IH; eauto.
Qed.

Lemma build_base_wire reg bld s t0 om c :
  match s with
  | SArray it => bld_ok bld it
  | SMap vs => bld_ok bld vs
  | SRecord fields => Forall (fun p => bld_ok bld (snd p)) fields
  | _ => True
  end ->
  build_base reg bld s t0 om = Some c -> wire c s.
Proof.
  intros IH H. unfold build_base in H. destruct (reg_lookup reg t0) as [bd|].
  - eapply apply_builder_wire; [exact H|]. intros ci Hci. destruct bd; try discriminate.
    eapply disp_wire; eauto.
  - eapply disp_wire; eauto.
Qed.

Lemma union_one_wire u nn c x :
  union_one u nn = Some c -> (forall ci, u = Some ci -> wire ci x) ->
  (nn = 1 -> wire c (SUnion [SNull; x])) /\ (nn = 0 -> x <> SNull -> wire c (SUnion [x; SNull])).
Proof.
  intros H Hu. destruct u as [ci|]; try discriminate. specialize (Hu ci eq_refl).
  destruct ci; cbn [union_one] in H; injection H as <-; cbn [wire]; split; intros Hn; subst nn;
    try (intros Hx; destruct x; try contradiction; try discriminate; try tauto; auto);
    try (destruct x; try contradiction; try discriminate; auto; tauto).
Qed.

Theorem build_wire reg : forall s t om c, build reg s t om = Some c -> wire c s.
Proof.
  induction s using schema_ind'; intros t om c Hb.
  all: try (cbn [build] in Hb;
            destruct t as [ty|];
            [ destruct (peel ty) as [k t0]; destruct k;
              [ eapply build_base_wire; [|exact Hb]; auto
              | destruct (build_base reg (fun s' t' om' => build reg s' t' om') _ t0 false) as [c0|] eqn:Eb; try discriminate;
                injection Hb as <-; refine (wrap_ptrs_wire (S k) c0 (zero_of t0) _ _); eapply build_base_wire; [|exact Eb]; auto ]
            | eapply disp_wire; [|exact Hb]; auto ]; fail).
  - injection Hb as <-. reflexivity.
  - (* union *)
    assert (Hgen : forall c', option_map CUnion (build_list (fun x => build reg x t om) brs) = Some c' -> wire c' (SUnion brs)).
    { intros c' Hc. destruct (build_list (fun x => build reg x t om) brs) as [cs|] eqn:El; try discriminate.
      injection Hc as <-. rewrite wire_union_eq. clear Hb.
      revert cs El. induction brs as [|x l IHl]; intros cs El.
      - cbn in El. injection El as <-. exact I.
      - inversion H as [|? ? Hx Hl]; subst. cbn [build_list] in El.
        destruct (build reg x t om) as [cx|] eqn:Ex; try discriminate.
        destruct (build_list (fun x0 => build reg x0 t om) l) as [r|] eqn:Er; try discriminate.
        injection El as <-. cbn [wire_list]. split; [eapply Hx; eauto|apply IHl; auto]. }
    cbn [build] in Hb.
    destruct brs as [|x1 [|x2 [|x3 l]]]; try (apply Hgen; exact Hb).
    + destruct x1; try (apply Hgen; exact Hb).
    + inversion H as [|? ? H1 H2']; subst. inversion H2' as [|? ? H2 _]; subst.
      destruct x1.
      * (* [SNull; x2] *)
        assert (Hb' : union_one (build reg x2 t om) 1 = Some c) by (destruct x2; exact Hb).
        destruct (union_one_wire _ _ _ x2 Hb' (fun ci Hci => H2 _ _ _ Hci)) as [Hw _]. apply Hw. reflexivity.
      * destruct x2; try (apply Hgen; exact Hb).
        destruct (union_one_wire _ _ _ SBool Hb (fun ci Hci => H1 _ _ _ Hci)) as [_ Hw]. apply Hw; [reflexivity|discriminate].
      * destruct x2; try (apply Hgen; exact Hb).
        destruct (union_one_wire _ _ _ (SInt date) Hb (fun ci Hci => H1 _ _ _ Hci)) as [_ Hw]. apply Hw; [reflexivity|discriminate].
      * destruct x2; try (apply Hgen; exact Hb).
        destruct (union_one_wire _ _ _ (SLong lt) Hb (fun ci Hci => H1 _ _ _ Hci)) as [_ Hw]. apply Hw; [reflexivity|discriminate].
      * destruct x2; try (apply Hgen; exact Hb).
        destruct (union_one_wire _ _ _ SFloat Hb (fun ci Hci => H1 _ _ _ Hci)) as [_ Hw]. apply Hw; [reflexivity|discriminate].
      * destruct x2; try (apply Hgen; exact Hb).
        destruct (union_one_wire _ _ _ SDouble Hb (fun ci Hci => H1 _ _ _ Hci)) as [_ Hw]. apply Hw; [reflexivity|discriminate].
      * destruct x2; try (apply Hgen; exact Hb).
        destruct (union_one_wire _ _ _ SBytes Hb (fun ci Hci => H1 _ _ _ Hci)) as [_ Hw]. apply Hw; [reflexivity|discriminate].
      * destruct x2; try (apply Hgen; exact Hb).
        destruct (union_one_wire _ _ _ SString Hb (fun ci Hci => H1 _ _ _ Hci)) as [_ Hw]. apply Hw; [reflexivity|discriminate].
      * destruct x2; try (apply Hgen; exact Hb).
        destruct (union_one_wire _ _ _ (SFixed size) Hb (fun ci Hci => H1 _ _ _ Hci)) as [_ Hw]. apply Hw; [reflexivity|discriminate].
      * destruct x2; try (apply Hgen; exact Hb).
        destruct (union_one_wire _ _ _ (SEnum nsyms) Hb (fun ci Hci => H1 _ _ _ Hci)) as [_ Hw]. apply Hw; [reflexivity|discriminate].
      * destruct x2; try (apply Hgen; exact Hb).
        destruct (union_one_wire _ _ _ (SRecord fields) Hb (fun ci Hci => H1 _ _ _ Hci)) as [_ Hw]. apply Hw; [reflexivity|discriminate].
      * destruct x2; try (apply Hgen; exact Hb).
        destruct (union_one_wire _ _ _ (SArray x1) Hb (fun ci Hci => H1 _ _ _ Hci)) as [_ Hw]. apply Hw; [reflexivity|discriminate].
      * destruct x2; try (apply Hgen; exact Hb).
        destruct (union_one_wire _ _ _ (SMap x1) Hb (fun ci Hci => H1 _ _ _ Hci)) as [_ Hw]. apply Hw; [reflexivity|discriminate].
      * destruct x2; try (apply Hgen; exact Hb).
        destruct (union_one_wire _ _ _ (SUnion branches) Hb (fun ci Hci => H1 _ _ _ Hci)) as [_ Hw]. apply Hw; [reflexivity|discriminate].
      * destruct x2; try (apply Hgen; exact Hb).
        destruct (union_one_wire _ _ _ SBad Hb (fun ci Hci => H1 _ _ _ Hci)) as [_ Hw]. apply Hw; [reflexivity|discriminate].
    + destruct x1; try (apply Hgen; exact Hb); destruct x2; apply Hgen; exact Hb.
Qed.
