(* C04 at any nesting depth, at the level of codec trees.

   Two codec trees built from the same schema for two different target types
   have the same shape; they differ in which record fields have a target
   (Some j / None), in the target indices (a reordered struct), and — below a
   kept field — recursively in the same way.  [cproj strict cB cA] is that
   relation ([strict]: B targets no schema field that A does not, i.e. B is A
   with fields deleted / permuted only; otherwise fields may also have been
   added).  [vproj cB cA vB vA] relates the two Go values: every field targeted
   on both sides holds related values, recursively; at leaves, equality.

   [project_sim]: decoding the same datum through both trees into related
   destinations gives related results, and in the strict case the projected
   decode succeeds whenever the full one does. *)
From Coq Require Import List ZArith Lia Bool.
Require Import Avro.Model.Base Avro.Model.Prim Avro.Model.Schema Avro.Model.GoType
               Avro.Model.Spec Avro.Model.Codec Avro.Model.Denote.
Require Import Avro.Proofs.BlocksP Avro.Proofs.CodecInd Avro.Proofs.ReadP Avro.Proofs.ProjectP Avro.Proofs.CanonP.
Import ListNotations.

Fixpoint vproj (cB cA : codec) (vB vA : gval) {struct cA} : Prop :=
  match cA with
  | CNull => True                              (* a null schema position decodes nothing *)
  | CCustom _ cA' => match cB with CCustom _ cB' => vproj cB' cA' vB vA | _ => False end
  | CRecord fsA =>
      match cB, vA, vB with
      | CRecord fsB, VStruct xsA, VStruct xsB =>
          Forall (fun j => (j < length xsA)%nat) (targets fsA) /\
          Forall (fun j => (j < length xsB)%nat) (targets fsB) /\
          (fix go (lA lB : list (codec * option nat)) {struct lA} : Prop :=
             match lA, lB with
             | (ca, Some ja) :: lA', (cb, Some jb) :: lB' =>
                 vproj cb ca (nth jb xsB VBad) (nth ja xsA VBad) /\ go lA' lB'
             | _ :: lA', _ :: lB' => go lA' lB'
             | _, _ => True
             end) fsA fsB
      | _, _, _ => False
      end
  | CArray icA _ _ =>
      match cB, vA, vB with
      | CArray icB _ _, VSlice lA, VSlice lB => Forall2 (fun b a => vproj icB icA b a) lB lA
      | CArray icB _ _, VBytes xA, VBytes xB => True      (* []byte under an array schema: one byte per item, nothing to relate *)
      | _, _, _ => False
      end
  | CMap vcA _ _ =>
      match cB with
      | CMap vcB _ _ =>
          match vA, vB with
          | VMapNil, VMapNil => True
          | VMap kA, VMap kB => Forall2 (fun b a => fst b = fst a /\ vproj vcB vcA (snd b) (snd a)) kB kA
          | _, _ => False
          end
      | _ => False
      end
  | CPtr cA' _ =>
      match cB, vA, vB with
      | CPtr cB' _, VPtr None, VPtr None => True
      | CPtr cB' _, VPtr (Some a), VPtr (Some b0) => vproj cB' cA' b0 a
      | _, _, _ => False
      end
  | CUnionOne cA' _ =>
      match cB with CUnionOne cB' _ => vproj cB' cA' vB vA | _ => False end
  | _ => vB = vA
  end.

Fixpoint cproj (strict : bool) (cB cA : codec) {struct cA} : Prop :=
  match cA with
  | CRecord fsA =>
      match cB with
      | CRecord fsB =>
          NoDup (targets fsA) /\ NoDup (targets fsB) /\
          (fix go (lA lB : list (codec * option nat)) {struct lA} : Prop :=
             match lA, lB with
             | [], [] => True
             | (ca, ta) :: lA', (cb, tb) :: lB' =>
                 match ta, tb with
                 | Some _, Some _ => cproj strict cb ca
                 | None, Some _ => strict = false
                 | _, None => True
                 end /\ go lA' lB'
             | _, _ => False
             end) fsA fsB
      | _ => False
      end
  | CArray icA izA _ =>
      match cB with CArray icB izB _ => cproj strict icB icA /\ vproj icB icA izB izA | _ => False end
  | CMap vcA vzA _ =>
      match cB with CMap vcB vzB _ => cproj strict vcB vcA /\ vproj vcB vcA vzB vzA | _ => False end
  | CPtr cA' zA =>
      match cB with CPtr cB' zB => cproj strict cB' cA' /\ vproj cB' cA' zB zA | _ => False end
  | CUnionOne cA' nA =>
      match cB with CUnionOne cB' nB => nB = nA /\ cproj strict cB' cA' | _ => False end
  | CCustom kA cA' =>
      match cB with CCustom kB cB' => kB = kA /\ cproj strict cB' cA' | _ => False end
  | _ => cB = cA
  end.

(* ---- named versions of the inner loops ---- *)
Fixpoint vfields (xsB xsA : list gval) (lA lB : list (codec * option nat)) {struct lA} : Prop :=
  match lA, lB with
  | (ca, Some ja) :: lA', (cb, Some jb) :: lB' =>
      vproj cb ca (nth jb xsB VBad) (nth ja xsA VBad) /\ vfields xsB xsA lA' lB'
  | _ :: lA', _ :: lB' => vfields xsB xsA lA' lB'
  | _, _ => True
  end.

Fixpoint cfields (strict : bool) (lA lB : list (codec * option nat)) {struct lA} : Prop :=
  match lA, lB with
  | [], [] => True
  | (ca, ta) :: lA', (cb, tb) :: lB' =>
      match ta, tb with
      | Some _, Some _ => cproj strict cb ca
      | None, Some _ => strict = false
      | _, None => True
      end /\ cfields strict lA' lB'
  | _, _ => False
  end.

Lemma vproj_record fsB fsA xsB xsA :
  vproj (CRecord fsB) (CRecord fsA) (VStruct xsB) (VStruct xsA) <->
  (Forall (fun j => (j < length xsA)%nat) (targets fsA) /\
   Forall (fun j => (j < length xsB)%nat) (targets fsB) /\ vfields xsB xsA fsA fsB).
Proof.
  cbn [vproj].
  assert (H : forall lA lB,
    (fix go (lA lB : list (codec * option nat)) {struct lA} : Prop :=
       match lA, lB with
       | (ca, Some ja) :: lA', (cb, Some jb) :: lB' =>
           vproj cb ca (nth jb xsB VBad) (nth ja xsA VBad) /\ go lA' lB'
       | _ :: lA', _ :: lB' => go lA' lB'
       | _, _ => True
       end) lA lB <-> vfields xsB xsA lA lB).
  { induction lA as [|[ca [ja|]] lA IH]; intros [|[cb [jb|]] lB]; cbn [vfields]; try tauto; try apply IH.
    rewrite IH. tauto. }
  rewrite (H fsA fsB). tauto.
Qed.

Lemma cproj_record st fsB fsA :
  cproj st (CRecord fsB) (CRecord fsA) <-> (NoDup (targets fsA) /\ NoDup (targets fsB) /\ cfields st fsA fsB).
Proof.
  cbn [cproj].
  assert (H : forall lA lB,
    (fix go (lA lB : list (codec * option nat)) {struct lA} : Prop :=
       match lA, lB with
       | [], [] => True
       | (ca, ta) :: lA', (cb, tb) :: lB' =>
           match ta, tb with
           | Some _, Some _ => cproj st cb ca
           | None, Some _ => st = false
           | _, None => True
           end /\ go lA' lB'
       | _, _ => False
       end) lA lB <-> cfields st lA lB).
  { induction lA as [|[ca ta] lA IH]; intros [|[cb tb] lB]; cbn [cfields]; try tauto. rewrite IH. tauto. }
  rewrite (H fsA fsB). tauto.
Qed.

(* values that agree on every target of the lists are interchangeable *)
Lemma vfields_ext xsB xsA ysB ysA : forall lA lB,
  (forall j, In j (targets lA) -> nth j ysA VBad = nth j xsA VBad) ->
  (forall j, In j (targets lB) -> nth j ysB VBad = nth j xsB VBad) ->
  vfields xsB xsA lA lB -> vfields ysB ysA lA lB.
Proof.
  induction lA as [|[ca [ja|]] lA IH]; intros [|[cb [jb|]] lB] HA HB H; cbn [vfields] in *; auto.
  - destruct H as [H1 H2]. split.
    + rewrite (HA ja) by (rewrite targets_cons_some; left; reflexivity).
      rewrite (HB jb) by (rewrite targets_cons_some; left; reflexivity). exact H1.
    + apply IH; auto.
      * intros j Hj. apply HA. rewrite targets_cons_some. right. exact Hj.
      * intros j Hj. apply HB. rewrite targets_cons_some. right. exact Hj.
  - apply IH; auto. intros j Hj. apply HA. rewrite targets_cons_some. right. exact Hj.
  - apply IH; auto. intros j Hj. apply HB. rewrite targets_cons_some. right. exact Hj.
Qed.

(* apply_fields changes only its targets, and keeps the length *)
Lemma apply_fields_frame : forall l ds acc acc', apply_fields l ds acc = Some acc' ->
  length acc' = length acc /\ forall j, ~ In j (targets l) -> nth j acc' VBad = nth j acc VBad.
Proof.
  induction l as [|[fc [i|]] l IH]; intros ds acc acc' H.
  - destruct ds; [|discriminate]. cbn in H. injection H as <-. split; auto.
  - destruct ds as [|d ds]; [discriminate|]. cbn [apply_fields] in H.
    destruct (apply_datum fc (nth i acc VBad) d) as [v|]; [|discriminate].
    destruct (IH ds _ _ H) as [Hl Hf]. rewrite update_length in Hl. split; [exact Hl|].
    intros j Hj. rewrite targets_cons_some in Hj. rewrite Hf by (intros Hin; apply Hj; right; exact Hin).
    apply nth_update_other. intros ->. apply Hj. left. reflexivity.
  - destruct ds as [|d ds]; [discriminate|]. cbn [apply_fields] in H. rewrite targets_cons_none. apply (IH ds); exact H.
Qed.

(* what one tree pair guarantees *)
Definition sim_at (st : bool) (cB cA : codec) : Prop :=
  forall destB destA d vA, cproj st cB cA -> vproj cB cA destB destA -> apply_datum cA destA d = Some vA ->
    (st = true -> exists vB, apply_datum cB destB d = Some vB) /\
    (forall vB, apply_datum cB destB d = Some vB -> vproj cB cA vB vA).

Lemma fields_sim st : forall lA lB ds accA accB accA',
  Forall (fun p => forall cb, sim_at st cb (fst p)) lA ->
  cfields st lA lB -> NoDup (targets lA) -> NoDup (targets lB) ->
  Forall (fun j => (j < length accA)%nat) (targets lA) ->
  Forall (fun j => (j < length accB)%nat) (targets lB) ->
  vfields accB accA lA lB ->
  apply_fields lA ds accA = Some accA' ->
  (st = true -> exists accB', apply_fields lB ds accB = Some accB') /\
  (forall accB', apply_fields lB ds accB = Some accB' -> vfields accB' accA' lA lB).
Proof.
  induction lA as [|[ca ta] lA IH]; intros [|[cb tb] lB] ds accA accB accA' HP Hc HndA HndB HrA HrB Hv Ha;
    cbn [cfields] in Hc; try contradiction.
  - destruct ds; [|discriminate]. split; [intros _; exists accB; reflexivity|]. intros accB' _. exact I.
  - destruct ds as [|d ds]; [destruct ta; discriminate|].
    destruct Hc as [Hhead Hc]. inversion HP as [|? ? Hsim HP']; subst. cbn [fst] in Hsim.
    destruct ta as [ja|]; destruct tb as [jb|].
    + (* kept on both sides *)
      rewrite targets_cons_some in HndA, HndB, HrA, HrB.
      inversion HndA as [|? ? HniA HndA']; subst. inversion HndB as [|? ? HniB HndB']; subst.
      inversion HrA as [|? ? HjA HrA']; subst. inversion HrB as [|? ? HjB HrB']; subst.
      cbn [vfields] in Hv. destruct Hv as [Hv1 Hv2].
      cbn [apply_fields] in Ha. destruct (apply_datum ca (nth ja accA VBad) d) as [va|] eqn:Ea; [|discriminate].
      destruct (Hsim cb _ _ d va Hhead Hv1 Ea) as [Hex Hag].
      assert (Htail : forall vb, vfields (list_update accB jb vb) (list_update accA ja va) lA lB).
      { intros vb. eapply vfields_ext; [| |exact Hv2].
        - intros j Hj. apply nth_update_other. intros ->. contradiction.
        - intros j Hj. apply nth_update_other. intros ->. contradiction. }
      assert (HrA1 : Forall (fun j => (j < length (list_update accA ja va))%nat) (targets lA))
        by (rewrite update_length; exact HrA').
      assert (HrB1 : forall vb, Forall (fun j => (j < length (list_update accB jb vb))%nat) (targets lB))
        by (intros vb; rewrite update_length; exact HrB').
      split.
      * intros Hst. destruct (Hex Hst) as [vb Eb]. cbn [apply_fields]. rewrite Eb.
        destruct (IH lB ds _ (list_update accB jb vb) accA' HP' Hc HndA' HndB' HrA1 (HrB1 vb) (Htail vb) Ha) as [Hex' _].
        exact (Hex' Hst).
      * intros accB' Hb. cbn [apply_fields] in Hb.
        destruct (apply_datum cb (nth jb accB VBad) d) as [vb|] eqn:Eb; [|discriminate].
        destruct (IH lB ds _ (list_update accB jb vb) accA' HP' Hc HndA' HndB' HrA1 (HrB1 vb) (Htail vb) Ha) as [_ Hag'].
        cbn [vfields]. split; [|exact (Hag' accB' Hb)].
        destruct (apply_fields_frame _ _ _ _ Ha) as [_ HfA]. destruct (apply_fields_frame _ _ _ _ Hb) as [_ HfB].
        rewrite (HfA ja HniA), (HfB jb HniB). rewrite !nth_update_same by assumption. exact (Hag vb eq_refl).
    + (* deleted in B *)
      rewrite targets_cons_some in HndA, HrA. rewrite targets_cons_none in HndB, HrB.
      inversion HndA as [|? ? HniA HndA']; subst. inversion HrA as [|? ? HjA HrA']; subst.
      cbn [vfields] in Hv.
      cbn [apply_fields] in Ha. destruct (apply_datum ca (nth ja accA VBad) d) as [va|] eqn:Ea; [|discriminate].
      assert (Htail : vfields accB (list_update accA ja va) lA lB).
      { eapply vfields_ext; [| |exact Hv]; [|reflexivity]. intros j Hj. apply nth_update_other. intros ->. contradiction. }
      assert (HrA1 : Forall (fun j => (j < length (list_update accA ja va))%nat) (targets lA))
        by (rewrite update_length; exact HrA').
      cbn [apply_fields vfields]. exact (IH lB ds _ accB accA' HP' Hc HndA' HndB HrA1 HrB Htail Ha).
    + (* added in B *)
      rewrite targets_cons_none in HndA, HrA. rewrite targets_cons_some in HndB, HrB.
      inversion HndB as [|? ? HniB HndB']; subst. inversion HrB as [|? ? HjB HrB']; subst.
      cbn [vfields] in Hv. cbn [apply_fields] in Ha. split.
      * intros Hst. congruence.
      * intros accB' Hb. cbn [apply_fields] in Hb.
        destruct (apply_datum cb (nth jb accB VBad) d) as [vb|] eqn:Eb; [|discriminate].
        assert (Htail : vfields (list_update accB jb vb) accA lA lB).
        { eapply vfields_ext; [| |exact Hv]; [reflexivity|]. intros j Hj. apply nth_update_other. intros ->. contradiction. }
        assert (HrB1 : Forall (fun j => (j < length (list_update accB jb vb))%nat) (targets lB))
          by (rewrite update_length; exact HrB').
        cbn [vfields].
        exact (proj2 (IH lB ds accA (list_update accB jb vb) accA' HP' Hc HndA HndB' HrA HrB1 Htail Ha) accB' Hb).
    + rewrite targets_cons_none in HndA, HrA, HndB, HrB. cbn [vfields] in Hv. cbn [apply_fields vfields] in *.
      exact (IH lB ds accA accB accA' HP' Hc HndA HndB HrA HrB Hv Ha).
Qed.

Lemma mapo_sim {X Y} (f g : X -> option Y) (R : Y -> Y -> Prop) (st : bool) : forall l la,
  (forall x a, f x = Some a -> (st = true -> exists b0, g x = Some b0) /\ (forall b0, g x = Some b0 -> R b0 a)) ->
  mapo f l = Some la ->
  (st = true -> exists lb, mapo g l = Some lb) /\ (forall lb, mapo g l = Some lb -> Forall2 R lb la).
Proof.
  induction l as [|x l IH]; intros la H Hm; cbn [mapo] in *.
  - injection Hm as <-. split; [intros _; eexists; reflexivity|]. intros lb E. injection E as <-. constructor.
  - destruct (f x) as [a|] eqn:Ef; [|discriminate]. destruct (mapo f l) as [la'|] eqn:Em; [|discriminate]. injection Hm as <-.
    destruct (H x a Ef) as [Hex Hag]. destruct (IH la' H eq_refl) as [Hex' Hag']. split.
    + intros Hst. destruct (Hex Hst) as [b0 Eb]. destruct (Hex' Hst) as [lb El]. rewrite Eb, El. eexists; reflexivity.
    + intros lb E. destruct (g x) as [b0|] eqn:Eg; [|discriminate]. destruct (mapo g l) as [lb'|] eqn:El; [|discriminate].
      injection E as <-. constructor; [apply Hag; reflexivity|apply Hag'; reflexivity].
Qed.

(* shape inversions *)
Lemma cproj_record_inv st cB fsA : cproj st cB (CRecord fsA) -> exists fsB, cB = CRecord fsB.
Proof. destruct cB; cbn [cproj]; try contradiction. eexists; reflexivity. Qed.
Lemma cproj_array_inv st cB icA izA omA : cproj st cB (CArray icA izA omA) ->
  exists icB izB omB, cB = CArray icB izB omB /\ cproj st icB icA /\ vproj icB icA izB izA.
Proof. destruct cB; cbn [cproj]; try contradiction. intros [H1 H2]. do 3 eexists. split; [reflexivity|split; assumption]. Qed.
Lemma cproj_map_inv st cB vcA vzA omA : cproj st cB (CMap vcA vzA omA) ->
  exists vcB vzB omB, cB = CMap vcB vzB omB /\ cproj st vcB vcA /\ vproj vcB vcA vzB vzA.
Proof. destruct cB; cbn [cproj]; try contradiction. intros [H1 H2]. do 3 eexists. split; [reflexivity|split; assumption]. Qed.
Lemma cproj_ptr_inv st cB cA' zA : cproj st cB (CPtr cA' zA) ->
  exists cB' zB, cB = CPtr cB' zB /\ cproj st cB' cA' /\ vproj cB' cA' zB zA.
Proof. destruct cB; cbn [cproj]; try contradiction. intros [H1 H2]. do 2 eexists. split; [reflexivity|split; assumption]. Qed.
Lemma cproj_one_inv st cB cA' nA : cproj st cB (CUnionOne cA' nA) ->
  exists cB', cB = CUnionOne cB' nA /\ cproj st cB' cA'.
Proof. destruct cB; cbn [cproj]; try contradiction. intros [-> H2]. eexists. split; [reflexivity|assumption]. Qed.

Lemma cproj_custom_inv st cB kA cA' : cproj st cB (CCustom kA cA') ->
  exists cB', cB = CCustom kA cB' /\ cproj st cB' cA'.
Proof. destruct cB; cbn [cproj]; try contradiction. intros [-> H2]. eexists. split; [reflexivity|assumption]. Qed.

(* the custom codecs' transformation acts on integers and strings only: leaves, where vproj is equality *)
Lemma vproj_cx k : forall cA cB vB vA, vproj cB cA vB vA -> vproj cB cA (cx k vB) (cx k vA).
Proof.
  induction cA using codec_ind'; intros cB vB vA Hx; try (cbn [vproj] in *; subst; reflexivity).
  - (* record *) destruct cB; try (cbn [vproj] in Hx; contradiction).
    destruct vA; try (cbn [vproj] in Hx; contradiction); destruct vB; try (cbn [vproj] in Hx; contradiction).  exact Hx.
  - destruct cB; try (cbn [vproj] in Hx; contradiction).
    destruct vA; try (cbn [vproj] in Hx; contradiction); destruct vB; try (cbn [vproj] in Hx; contradiction);  exact Hx.
  - destruct cB; try (cbn [vproj] in Hx; contradiction).
    destruct vA; try (cbn [vproj] in Hx; contradiction); destruct vB; try (cbn [vproj] in Hx; contradiction);  exact Hx.
  - destruct cB; try (cbn [vproj] in Hx; contradiction).
    destruct vA; try (cbn [vproj] in Hx; contradiction); destruct vB; try (cbn [vproj] in Hx; contradiction);  exact Hx.
  - destruct cB; try (cbn [vproj] in Hx; contradiction). cbn [vproj] in *. apply IHcA. exact Hx.
  - destruct cB; try (cbn [vproj] in Hx; contradiction). cbn [vproj] in *. apply IHcA. exact Hx.
Qed.

Theorem project_sim st : forall cA cB, sim_at st cB cA.
Proof.
  induction cA using codec_ind'; intros cB destB destA d vA Hc Hv Ha;
    try (cbn [cproj] in Hc; subst cB; cbn [vproj] in Hv; subst destB;
         split; [intros _; eexists; exact Ha|intros vB Hb; cbn [vproj]; congruence]).
  - (* null *) cbn [cproj] in Hc. subst cB. split; [intros _; destruct d; try discriminate; eexists; reflexivity|]. intros vB _. exact I.
  - (* record *)
    destruct (cproj_record_inv _ _ _ Hc) as [fsB ->].
    apply cproj_record in Hc. destruct Hc as (HndA & HndB & Hcf).
    destruct destA as [| | | | | | | | | | |xsA| | |]; try (cbn [vproj] in Hv; contradiction).
    destruct destB as [| | | | | | | | | | |xsB| | |]; try (cbn [vproj] in Hv; contradiction).
    apply vproj_record in Hv. destruct Hv as (HrA & HrB & Hvf).
    destruct d as [ |?|?|?|?|?|?|?|?|?|ds|?|?|? ?]; try discriminate. rewrite apply_record_eq in Ha.
    destruct (apply_fields fs ds xsA) as [accA'|] eqn:Ea; [|discriminate]. injection Ha as <-.
    assert (HP : Forall (fun p => forall cb, sim_at st cb (fst p)) fs).
    { eapply Forall_impl; [|exact H]. intros p Hp cb. apply Hp. }
    destruct (fields_sim st fs fsB ds xsA xsB accA' HP Hcf HndA HndB HrA HrB Hvf Ea) as [Hex Hag]. split.
    + intros Hst. destruct (Hex Hst) as [accB' Eb]. rewrite apply_record_eq, Eb. eexists; reflexivity.
    + intros vB Hb. rewrite apply_record_eq in Hb. destruct (apply_fields fsB ds xsB) as [accB'|] eqn:Eb; [|discriminate].
      injection Hb as <-. apply vproj_record.
      destruct (apply_fields_frame _ _ _ _ Ea) as [HlA _]. destruct (apply_fields_frame _ _ _ _ Eb) as [HlB _].
      rewrite HlA, HlB. refine (conj HrA (conj HrB _)). apply Hag. reflexivity.
  - (* array *)
    destruct (cproj_array_inv _ _ _ _ _ Hc) as (icB & izB & omB & -> & Hci & Hz). clear Hc.
    destruct d as [ |?|?|?|?|?|?|?|?|?|?|items|?|? ?]; try discriminate.
    destruct destA as [| | | | |xA| |lA0| | | | | | |]; try discriminate.
    { (* a []byte destination on both sides *)
      destruct destB as [| | | | |xB| |lB0| | | | | | |]; try (cbn [vproj] in Hv; contradiction).
      cbn [apply_datum] in Ha |- *. rewrite apply_array_bytes_go in Ha. rewrite apply_array_bytes_go.
      destruct (mapo (fun d' => option_map byte_of (apply_datum cA z d')) items) as [la|] eqn:Em; [|discriminate]. injection Ha as <-.
      destruct (mapo_sim (fun d' => option_map byte_of (apply_datum cA z d')) (fun d' => option_map byte_of (apply_datum icB izB d'))
                  (fun _ _ => True) st items la) as [Hex Hag]; [|exact Em|].
      { intros x a Ex. destruct (apply_datum cA z x) as [va|] eqn:Ea; [|discriminate].
        destruct (IHcA icB izB z x va Hci Hz Ea) as [Hex1 _]. split; [|intros; exact I].
        intros Hst. destruct (Hex1 Hst) as [vb Eb]. rewrite Eb. eexists; reflexivity. }
      split.
      - intros Hst. destruct (Hex Hst) as [lb El]. rewrite El. eexists; reflexivity.
      - intros vB Hb. destruct (mapo (fun d' => option_map byte_of (apply_datum icB izB d')) items) as [lb|]; [|discriminate].
        injection Hb as <-. exact I. }
    destruct destB as [| | | | | | |lB0| | | | | | |]; try (cbn [vproj] in Hv; contradiction).
    cbn [vproj] in Hv.
    cbn [apply_datum] in Ha |- *. rewrite apply_array_go in Ha. rewrite apply_array_go.
    destruct (mapo (apply_datum cA z) items) as [la|] eqn:Em; [|discriminate]. injection Ha as <-.
    destruct (mapo_sim (apply_datum cA z) (apply_datum icB izB) (fun b0 a => vproj icB cA b0 a) st items la) as [Hex Hag]; [|exact Em|].
    { intros x a Ex. exact (IHcA icB izB z x a Hci Hz Ex). }
    split.
    + intros Hst. destruct (Hex Hst) as [lb El]. rewrite El. eexists; reflexivity.
    + intros vB Hb. destruct (mapo (apply_datum icB izB) items) as [lb|] eqn:El; [|discriminate]. injection Hb as <-.
      cbn [vproj]. apply Forall2_app; [exact Hv|apply Hag; reflexivity].
  - (* map *)
    destruct (cproj_map_inv _ _ _ _ _ Hc) as (vcB & vzB & omB & -> & Hci & Hz). clear Hc.
    cbn [vproj] in Hv. destruct d as [ |?|?|?|?|?|?|?|?|?|?|?|entries|? ?]; try discriminate. cbn [apply_datum] in Ha |- *.
    set (R := fun (b0 a : bytes * gval) => fst b0 = fst a /\ vproj vcB cA (snd b0) (snd a)).
    assert (Hconv : forall x a, conv_kv cA z x = Some a ->
              (st = true -> exists b0, conv_kv vcB vzB x = Some b0) /\ (forall b0, conv_kv vcB vzB x = Some b0 -> R b0 a)).
    { intros [k dx] a Ex. unfold conv_kv in *. cbn [fst snd] in *.
      destruct (apply_datum cA z dx) as [va|] eqn:Ea; [|discriminate]. injection Ex as <-.
      destruct (IHcA vcB vzB z dx va Hci Hz Ea) as [Hex Hag]. split.
      - intros Hst. destruct (Hex Hst) as [vb Eb]. rewrite Eb. eexists; reflexivity.
      - intros b0 Eb. destruct (apply_datum vcB vzB dx) as [vb|] eqn:Eb'; [|discriminate]. injection Eb as <-.
        split; [reflexivity|]. cbn [snd]. apply Hag. reflexivity. }
    assert (Hgo : forall kA0 kB0, Forall2 R kB0 kA0 ->
              forall vA', option_map VMap (option_map (app kA0) (mapo (conv_kv cA z) entries)) = Some vA' ->
              (st = true -> exists vB, option_map VMap (option_map (app kB0) (mapo (conv_kv vcB vzB) entries)) = Some vB) /\
              (forall vB, option_map VMap (option_map (app kB0) (mapo (conv_kv vcB vzB) entries)) = Some vB ->
                 vproj (CMap vcB vzB omB) (CMap cA z om) vB vA')).
    { intros kA0 kB0 H0 vA' E. destruct (mapo (conv_kv cA z) entries) as [la|] eqn:Em; [|discriminate]. injection E as <-.
      destruct (mapo_sim (conv_kv cA z) (conv_kv vcB vzB) R st entries la Hconv Em) as [Hex Hag]. split.
      - intros Hst. destruct (Hex Hst) as [lb El]. rewrite El. eexists; reflexivity.
      - intros vB Hb. destruct (mapo (conv_kv vcB vzB) entries) as [lb|] eqn:El; [|discriminate]. injection Hb as <-.
        cbn [vproj]. apply Forall2_app; [exact H0|apply Hag; reflexivity]. }
    destruct destA as [| | | | | | | | |kA| | | | |]; destruct destB as [| | | | | | | | |kB| | | | |]; try contradiction; try discriminate.
    + rewrite apply_map_go in Ha. rewrite apply_map_go. exact (Hgo [] [] (Forall2_nil _) vA Ha).
    + rewrite apply_map_go in Ha. rewrite apply_map_go. exact (Hgo kA kB Hv vA Ha).
  - (* pointer *)
    destruct (cproj_ptr_inv _ _ _ _ Hc) as (cB' & zB & -> & Hci & Hz). clear Hc.
    destruct destA as [| | | | | | | | | |oA| | | |]; try (cbn [vproj] in Hv; contradiction).
    destruct destB as [| | | | | | | | | |oB| | | |]; try (cbn [vproj] in Hv; destruct oA; contradiction).
    cbn [apply_datum] in Ha |- *.
    set (dA := match oA with Some x => x | None => z end) in *. set (dB := match oB with Some x => x | None => zB end).
    assert (Hd : vproj cB' cA dB dA).
    { unfold dA, dB. destruct oA as [a|]; destruct oB as [b0|]; cbn [vproj] in Hv; try contradiction; assumption. }
    destruct (apply_datum cA dA d) as [va|] eqn:Ea; [|discriminate]. injection Ha as <-.
    destruct (IHcA cB' dB dA d va Hci Hd Ea) as [Hex Hag]. split.
    + intros Hst. destruct (Hex Hst) as [vb Eb]. rewrite Eb. eexists; reflexivity.
    + intros vB Hb. destruct (apply_datum cB' dB d) as [vb|] eqn:Eb; [|discriminate]. injection Hb as <-.
      cbn [vproj]. apply Hag. reflexivity.
  - (* null + one *)
    destruct (cproj_one_inv _ _ _ _ Hc) as (cB' & -> & Hci). clear Hc.
    cbn [vproj] in Hv. destruct d as [ |?|?|?|?|?|?|?|?|?|?|?|?|idx d']; try discriminate. cbn [apply_datum] in Ha |- *.
    destruct (Z.eqb idx nn).
    + destruct (IHcA cB' destB destA d' vA Hci Hv Ha) as [Hex Hag]. split; [exact Hex|]. intros vB Hb. cbn [vproj]. apply Hag. exact Hb.
    + injection Ha as <-. split; [intros _; eexists; reflexivity|]. intros vB Hb. injection Hb as <-. exact Hv.
  - (* custom *)
    destruct (cproj_custom_inv _ _ _ _ Hc) as (cB' & -> & Hci). clear Hc.
    cbn [vproj] in Hv. cbn [apply_datum] in Ha |- *.
    destruct (apply_datum cA destA d) as [wa|] eqn:Ea; [|discriminate]. injection Ha as <-.
    destruct (IHcA cB' destB destA d wa Hci Hv Ea) as [Hex Hag]. split.
    + intros Hst. destruct (Hex Hst) as [wb Eb]. rewrite Eb. eexists; reflexivity.
    + intros vB Hb. destruct (apply_datum cB' destB d) as [wb|] eqn:Eb; [|discriminate]. injection Hb as <-.
      cbn [vproj]. apply vproj_cx. apply Hag. reflexivity.
Qed.
