(* Converse of R: on input the reference decoder accepts as datum d, whenever the
   library's reader succeeds, what it returns is exactly [apply_datum c dest d] and
   it stops where the encoding ends.  With R: the reader succeeds iff the datum has
   an image in the destination; a datum that does not fit is refused, never
   silently altered — for every codec, not only integers. *)
From Coq Require Import List ZArith Lia Bool ZifyBool ZifyNat.
Require Import Avro.Model.Base Avro.Model.Prim Avro.Model.Schema Avro.Model.GoType
               Avro.Model.Blocks Avro.Model.Time Avro.Model.Spec Avro.Model.Codec Avro.Model.Denote.
Require Import Avro.Proofs.ListFacts Avro.Proofs.VarintP Avro.Proofs.VarintMore Avro.Proofs.PrimP
               Avro.Proofs.BlocksP Avro.Proofs.CodecInd Avro.Proofs.CodecEq Avro.Proofs.Wire Avro.Proofs.ReadP.
Import ListNotations.
Open Scope Z_scope.

(* ---- both loops succeed: they walked the same blocks ---- *)
Section Joint.
  Context {A B : Type} (R : A -> B -> Prop).
  Variables (item1 : A -> bytes -> out A) (item2 : B -> bytes -> out B).
  Hypothesis Hitem : forall a b0 bs a' ra b' rb, R a b0 -> item1 a bs = Done a' ra -> item2 b0 bs = Done b' rb ->
    ra = rb /\ R a' b'.

  Lemma blocks_items_joint : forall fuel,
    (forall a b0 bs a' r b' r', R a b0 -> blocks true item1 fuel a bs = Done a' r ->
       blocks false item2 fuel b0 bs = Done b' r' -> r = r' /\ R a' b') /\
    (forall n e a b0 bs a' r b' r', R a b0 -> items true item1 fuel n e a bs = Done a' r ->
       items false item2 fuel n None b0 bs = Done b' r' -> r = r' /\ R a' b').
  Proof.
    induction fuel as [|f [IHb IHi]]; [split; intros; discriminate|]. split.
    - intros a b0 bs a' r b' r' HR H1 H2. cbn [blocks] in *. inv_obind H1.
      rewrite (rdv_rd _ _ _ _ Ho : rdv false bs = _) in H2. cbn [obind] in H2.
      destruct (a0 =? 0).
      + injection H1 as <- <-. injection H2 as <- <-. auto.
      + destruct (a0 <? 0).
        * inv_obind H1. rewrite (rdv_rd _ _ _ _ Ho0 : rdv false r0 = _) in H2. cbn [obind] in H2.
          destruct (a0 =? - two63) eqn:Emin; cbn [orb] in H1; [discriminate|].
          destruct ((a1 <? 0) || (len r1 <? a1)); [discriminate|].
          eapply IHi; eauto.
        * eapply IHi; eauto.
    - intros n e a b0 bs a' r b' r' HR H1 H2. cbn [items] in *. destruct (n <=? 0).
      + destruct e as [e|].
        * destruct (len bs =? e); [|discriminate]. eapply IHb; eauto.
        * eapply IHb; eauto.
      + inv_obind H1. inv_obind H2. destruct (Hitem _ _ _ _ _ _ _ HR Ho Ho0) as [<- HR'].
        eapply IHi; eauto.
  Qed.

  Lemma blocks_joint fuel a b0 bs a' r b' r' : R a b0 -> blocks true item1 fuel a bs = Done a' r ->
    blocks false item2 fuel b0 bs = Done b' r' -> r = r' /\ R a' b'.
  Proof. apply blocks_items_joint. Qed.
End Joint.

Lemma mapo_snoc {X Y} (f : X -> option Y) : forall l x ys y, mapo f l = Some ys -> f x = Some y -> mapo f (l ++ [x]) = Some (ys ++ [y]).
Proof.
  induction l as [|a l IH]; intros x ys y Hm Hx; cbn [mapo app] in *.
  - injection Hm as <-. rewrite Hx. reflexivity.
  - destruct (f a) as [b0|]; [|discriminate]. destruct (mapo f l) as [bs'|] eqn:E; [|discriminate]. injection Hm as <-.
    rewrite (IH x bs' y eq_refl Hx). reflexivity.
Qed.

Definition sound_at (fuel : nat) (c : codec) : Prop :=
  forall s dest bs d r v r', wire c s -> sd fuel s bs = Done d r -> c_read fuel c dest bs = Done v r' ->
    apply_datum c dest d = Some v /\ r' = r.

(* when the datum has an image, R says what the reader returns *)
Lemma sound_from_some fuel c s dest bs d r v r' v0 :
  wire c s -> sd fuel s bs = Done d r -> c_read fuel c dest bs = Done v r' ->
  apply_datum c dest d = Some v0 -> Some v0 = Some v /\ r' = r.
Proof.
  intros W Hsd Hr Ha. rewrite (read_complete fuel _ _ _ _ _ _ _ W Hsd Ha) in Hr. injection Hr as <- <-. auto.
Qed.

Lemma fields_sound fuel : forall fs fields ds vs bs r0 vs' r',
  Forall (fun p => sound_at fuel (fst p)) fs -> wire_fields wire fs fields ->
  sd_fields fuel fields bs = Done ds r0 -> read_fields fuel fs vs bs = Done vs' r' ->
  apply_fields fs ds vs = Some vs' /\ r' = r0.
Proof.
  induction fs as [|[fc tgt] l IHl]; intros [|[n fsch] fl] ds vs bs r0 vs' r' HF W Ho Hr; try contradiction.
  - injection Ho as <- <-. cbn in Hr. injection Hr as <- <-. auto.
  - cbn [wire_fields] in W. destruct W as [W1 W2]. cbn [sd_fields] in Ho. inv_obind Ho. inv_obind Ho. injection Ho as <- <-.
    inversion HF as [|? ? Hfc Hl]; subst. cbn [fst] in Hfc.
    destruct tgt as [j|]; cbn [apply_fields read_fields] in *.
    + inv_obind Hr. destruct (Hfc _ _ _ _ _ _ _ W1 Ho0 Ho) as [Ea ->]. rewrite Ea. eapply IHl; eauto.
    + inv_obind Hr. rewrite (skip_exact _ _ _ _ _ _ W1 Ho0) in Ho. injection Ho as _ <-. eapply IHl; eauto.
Qed.

Theorem read_sound fuel : forall c, sound_at fuel c.
Proof.
  induction c using codec_ind'; intros s dest bs d r v r' W Hsd Hr;
    try (destruct (apply_datum _ dest d) as [v0|] eqn:Ea; [exact (sound_from_some _ _ _ _ _ _ _ _ _ _ W Hsd Hr Ea)|exfalso]).
  - (* CNull *) cbn [wire] in W. subst s. injection Hsd as <- <-. discriminate Ea.
  - (* CBool *) cbn [wire] in W. subst s. cbn [sd] in Hsd. inv_obind Hsd.
    destruct (a =? 0); [injection Hsd as <- <-; discriminate Ea|]. destruct (a =? 1); [injection Hsd as <- <-; discriminate Ea|discriminate].
  - (* CInt *) cbn [wire] in W. destruct (sd_int_inv _ _ _ _ _ W Hsd) as (z & Hz & Hrd).
    cbn [apply_datum] in Ea. rewrite Hz in Ea. cbn [c_read] in Hr. rewrite (int_read_of_varint _ _ _ _ Hrd) in Hr.
    destruct (int_fits w z); discriminate.
  - cbn [wire] in W. subst s. cbn [sd] in Hsd. inv_obind Hsd. injection Hsd as <- <-. discriminate Ea.
  - cbn [wire] in W. subst s. cbn [sd] in Hsd. inv_obind Hsd. injection Hsd as <- <-. discriminate Ea.
  - cbn [wire] in W. subst s. cbn [sd] in Hsd. inv_obind Hsd. injection Hsd as <- <-. discriminate Ea.
  - cbn [wire] in W. subst s. cbn [sd] in Hsd. inv_obind Hsd. injection Hsd as <- <-. discriminate Ea.
  - cbn [wire] in W. subst s. cbn [sd] in Hsd. inv_obind Hsd. injection Hsd as <- <-. discriminate Ea.
  - cbn [wire] in W. destruct W as [-> Hn]. cbn [sd] in Hsd. inv_obind Hsd. injection Hsd as <- <-. discriminate Ea.
  - (* CRecord *)
    destruct s; try contradiction. rewrite wire_record_eq in W. rewrite sd_record_eq in Hsd. inv_obind Hsd. injection Hsd as <- <-.
    destruct dest as [| | | | | | | | | | |vs0| | |]; try (cbn [c_read] in Hr; discriminate).
    rewrite c_read_record_eq in Hr. inv_obind Hr. injection Hr as <- <-.
    destruct (fields_sound fuel _ _ _ _ _ _ _ _ H W Ho Ho0) as [Ef _].
    rewrite apply_record_eq in Ea. rewrite Ef in Ea. discriminate.
  - (* CArray *)
    destruct s; try contradiction. cbn [wire] in W. rewrite sd_array_eq in Hsd. inv_obind Hsd. injection Hsd as <- <-.
    destruct dest as [| | | | |xs0| |acc0| | | | | | |]; try (cbn [c_read] in Hr; discriminate).
    + (* a []byte destination *)
      cbn [c_read] in Hr. inv_obind Hr. injection Hr as <- <-.
      destruct (blocks_joint (fun (ds : list datum) (xs : bytes) => exists ys, mapo (fun d' => option_map byte_of (apply_datum c z d')) ds = Some ys /\ xs = xs0 ++ ys)
                  (sd_aitem fuel s)
                  (fun acc b0 => obind (c_read fuel c z b0) (fun v r => Done (acc ++ [match v with VInt z0 => z0 | _ => 0 end]) r)))
        with (3 := Ho) (4 := Ho0) as [_ (ys & Hm & Hvs)].
      * intros ds xs b1 ds' ra xs' rb (ys & Hm & ->) H1 H2. unfold sd_aitem in H1.
        inv_obind H1. injection H1 as <- <-. inv_obind H2. injection H2 as <- <-.
        destruct (IHc _ _ _ _ _ _ _ W Ho1 Ho2) as [Eit ->]. split; [reflexivity|].
        exists (ys ++ [byte_of a2]). split; [|rewrite app_assoc; reflexivity].
        apply mapo_snoc; [exact Hm|]. rewrite Eit. reflexivity.
      * exists []. split; [reflexivity|rewrite app_nil_r; reflexivity].
      * cbn [apply_datum] in Ea. rewrite apply_array_bytes_go, Hm in Ea. discriminate.
    + rewrite c_read_array_eq in Hr. inv_obind Hr. injection Hr as <- <-.
      destruct (blocks_joint (fun (ds : list datum) (vs : list gval) => exists ys, mapo (apply_datum c z) ds = Some ys /\ vs = acc0 ++ ys)
                  (sd_aitem fuel s) (read_aitem fuel c z)) with (3 := Ho) (4 := Ho0) as [_ (ys & Hm & Hvs)].
      * intros ds vs b1 ds' ra vs' rb (ys & Hm & ->) H1 H2. unfold sd_aitem in H1. unfold read_aitem in H2.
        inv_obind H1. injection H1 as <- <-. inv_obind H2. injection H2 as <- <-.
        destruct (IHc _ _ _ _ _ _ _ W Ho1 Ho2) as [Eit ->]. split; [reflexivity|].
        exists (ys ++ [a2]). split; [apply mapo_snoc; assumption|rewrite app_assoc; reflexivity].
      * exists []. split; [reflexivity|rewrite app_nil_r; reflexivity].
      * cbn [apply_datum] in Ea. rewrite apply_array_go, Hm in Ea. discriminate.
  - (* CMap *)
    destruct s; try contradiction. cbn [wire] in W. rewrite sd_map_eq in Hsd. inv_obind Hsd. injection Hsd as <- <-.
    rewrite c_read_map_eq in Hr. cbn [apply_datum] in Ea.
    destruct (map_start dest) as [kvs0|] eqn:Ed; [|discriminate]. inv_obind Hr. injection Hr as <- <-.
    assert (Ed' : match dest with VMap kvs1 => Some kvs1 | VMapNil => Some [] | _ => None end = Some kvs0) by exact Ed.
    rewrite Ed' in Ea. rewrite apply_map_go in Ea.
    destruct (blocks_joint (fun (ds : list (bytes * datum)) (vs : list (bytes * gval)) => exists ys, mapo (conv_kv c z) ds = Some ys /\ vs = kvs0 ++ ys)
                (sd_mitem fuel s) (read_mitem fuel c z)) with (3 := Ho) (4 := Ho0) as [_ (ys & Hm & Hvs)].
    + intros ds vs b1 ds' ra vs' rb (ys & Hm & ->) H1 H2. unfold sd_mitem in H1. unfold read_mitem in H2.
      inv_obind H1. inv_obind H1. injection H1 as <- <-. inv_obind H2. inv_obind H2. injection H2 as <- <-.
      rewrite (len_prefixed_string _ _ _ Ho1) in Ho3. injection Ho3 as <- <-.
      destruct (IHc _ _ _ _ _ _ _ W Ho2 Ho4) as [Eit ->]. split; [reflexivity|].
      exists (ys ++ [(a1, a4)]). split; [|rewrite app_assoc; reflexivity].
      apply mapo_snoc; [exact Hm|]. unfold conv_kv. cbn [fst snd]. rewrite Eit. reflexivity.
    + exists []. split; [reflexivity|rewrite app_nil_r; reflexivity].
    + rewrite Hm in Ea. discriminate.
  - (* CPtr *)
    cbn [wire] in W. destruct dest as [| | | | | | | | | |o| | | |]; try (cbn [c_read] in Hr; discriminate).
    cbn [c_read] in Hr. inv_obind Hr. injection Hr as <- <-.
    destruct (IHc _ _ _ _ _ _ _ W Hsd Ho) as [Ei ->]. cbn [apply_datum] in Ea. rewrite Ei in Ea. discriminate.
  - (* CUnion *)
    destruct s; try contradiction. rewrite wire_union_eq in W. rewrite sd_union_eq in Hsd. inv_obind Hsd.
    rewrite c_read_union_eq in Hr. rewrite (rd_varint_canon_rd _ _ _ Ho) in Hr. cbn [obind] in Hr.
    destruct (a <? 0) eqn:Ea0; [discriminate|].
    destruct (Z.of_nat (length cs) <=? a) eqn:Eu; cbn [orb] in Hr; [discriminate|].
    cbn [apply_datum] in Ea.
    assert (Hp : forall (l : list codec) (sl : list schema) i,
              Forall (sound_at fuel) l -> wire_list wire l sl -> sd_pick fuel a r0 sl i = Done d r ->
              read_pick fuel dest r0 l i = Done v r' ->
              exists d', d = DUnion a d' /\ apply_pick dest d' l i = Some v).
    { induction l as [|x l IHl]; intros [|y sl] i HFl Wl Hpk Hrp; try contradiction.
      - destruct i; discriminate.
      - destruct Wl as [W1 W2]. inversion HFl as [|? ? Hx Hl]; subst. destruct i.
        + cbn [sd_pick] in Hpk. inv_obind Hpk. injection Hpk as <- <-. cbn [read_pick] in Hrp.
          destruct (Hx _ _ _ _ _ _ _ W1 Ho0 Hrp) as [Ei _]. exists a0. split; [reflexivity|exact Ei].
        + cbn [sd_pick] in Hpk. cbn [read_pick] in Hrp. exact (IHl _ _ Hl W2 Hpk Hrp). }
    destruct (Hp _ _ _ H W Hsd Hr) as (d' & -> & Eap). rewrite Ea0 in Ea. rewrite apply_pick_eq in Ea. rewrite Eap in Ea. discriminate.
  - (* CUnionOne *)
    cbn [wire] in W. destruct s; try contradiction. destruct branches as [|x1 [|x2 [|? ?]]]; try contradiction.
    + destruct x1; contradiction.
    + destruct (union2_inv _ _ _ _ _ _ Hsd) as (idx & d' & r0 & -> & -> & Hcase).
      assert (Hw : (x1 = SNull /\ nn = 1 /\ wire c x2) \/ (x2 = SNull /\ nn = 0 /\ wire c x1)).
      { destruct x1; destruct x2; try contradiction; destruct W as [? ?];
        first [left; repeat split; (reflexivity || assumption) | right; repeat split; (reflexivity || assumption)]. }
      cbn [apply_datum] in Ea. cbn [c_read rd_byte obind] in Hr.
      destruct Hcase as [[-> Hs1] | [-> Hs2]]; destruct Hw as [(-> & -> & Wc) | (-> & -> & Wc)].
      * cbn in Ea. discriminate.
      * cbn in Ea, Hr. destruct (IHc _ _ _ _ _ _ _ Wc Hs1 Hr) as [Ei _]. rewrite Ei in Ea. discriminate.
      * cbn in Ea, Hr. destruct (IHc _ _ _ _ _ _ _ Wc Hs2 Hr) as [Ei _]. rewrite Ei in Ea. discriminate.
      * cbn in Ea. discriminate.
    + destruct x1; try contradiction; destruct x2; contradiction.
  - (* CUnionStr *)
    cbn [wire] in W. destruct W as [[-> ->] | [-> ->]];
      destruct (union2_inv _ _ _ _ _ _ Hsd) as (idx & d' & r0 & -> & -> & Hcase);
      cbn [apply_datum] in Ea; destruct Hcase as [[-> Hs1] | [-> Hs2]].
    + cbn in Ea. discriminate.
    + cbn [sd] in Hs2. inv_obind Hs2. injection Hs2 as <- <-. cbn in Ea. discriminate.
    + cbn [sd] in Hs1. inv_obind Hs1. injection Hs1 as <- <-. cbn in Ea. discriminate.
    + cbn in Ea. discriminate.
  - (* CTimeString *)
    cbn [wire] in W. subst s. cbn [sd] in Hsd. inv_obind Hsd. injection Hsd as <- <-. cbn [apply_datum] in Ea.
    cbn [c_read] in Hr. rewrite (len_prefixed_time _ _ _ _ Ho) in Hr. unfold time_string_apply in Ea.
    destruct a; [discriminate|]. destruct (parse_time (z :: a)); discriminate.
  - (* CTimeLong *) cbn [wire] in W. destruct (sd_int_inv _ _ _ _ _ W Hsd) as (z & Hz & Hrd).
    cbn [apply_datum] in Ea. rewrite Hz in Ea. discriminate.
  - (* CDate *) cbn [wire] in W. destruct (sd_int_inv _ _ _ _ _ W Hsd) as (z & Hz & Hrd).
    cbn [apply_datum] in Ea. rewrite Hz in Ea. cbn [c_read] in Hr. rewrite (int_read_of_varint _ _ _ _ Hrd) in Hr.
    destruct (int_fits 32 z); discriminate.
  - (* CNullInt *) cbn [wire] in W. destruct (sd_int_inv _ _ _ _ _ W Hsd) as (z & Hz & Hrd).
    cbn [apply_datum] in Ea. rewrite Hz in Ea. discriminate.
  - (* CNullBool *) cbn [wire] in W. subst s. cbn [sd] in Hsd. inv_obind Hsd.
    destruct (a =? 0); [injection Hsd as <- <-; discriminate Ea|]. destruct (a =? 1); [injection Hsd as <- <-; discriminate Ea|discriminate].
  - cbn [wire] in W. subst s. cbn [sd] in Hsd. inv_obind Hsd. injection Hsd as <- <-. discriminate Ea.
  - cbn [wire] in W. subst s. cbn [sd] in Hsd. inv_obind Hsd. injection Hsd as <- <-. discriminate Ea.
  - cbn [wire] in W. subst s. cbn [sd] in Hsd. inv_obind Hsd. injection Hsd as <- <-. discriminate Ea.
  - (* CNullTime *)
    cbn [wire] in W. subst s. cbn [sd] in Hsd. inv_obind Hsd. injection Hsd as <- <-. cbn [apply_datum] in Ea.
    cbn [c_read] in Hr. rewrite (len_prefixed_time _ _ _ _ Ho) in Hr. unfold time_string_apply in Ea.
    destruct a; [discriminate|]. destruct (parse_time (z :: a)); discriminate.
  - (* CCustom *)
    cbn [wire] in W. cbn [c_read] in Hr. inv_obind Hr. injection Hr as <- <-.
    destruct (IHc _ _ _ _ _ _ _ W Hsd Ho) as [Ei _]. cbn [apply_datum] in Ea. rewrite Ei in Ea. discriminate.
Qed.
