(* WriteBuf is append; ReadBuf is a cursor that only moves forward, hands out exactly what it
   steps over, and stays where it is when Next / ReadByte refuse. *)
From Coq Require Import List ZArith Lia Bool.
Require Import Avro.Model.Base Avro.Model.Prim Avro.Model.Buffers.
Require Import Avro.Proofs.VarintP Avro.Proofs.VarintMore.
Import ListNotations.
Open Scope Z_scope.

(* ---------------- WriteBuf ---------------- *)
Definition is_reset (op : wb_op) : bool := match op with WbReset => true | _ => false end.

(* without a Reset: what was there, then everything appended, in order *)
Theorem wb_run_append : forall ops buf, forallb (fun op => negb (is_reset op)) ops = true ->
  wb_run buf ops = buf ++ concat (map wb_bytes ops).
Proof.
  unfold wb_run. induction ops as [|op ops IH]; intros buf H; cbn [fold_left map concat].
  - symmetry. apply app_nil_r.
  - cbn [forallb] in H. apply andb_true_iff in H. destruct H as [H1 H2].
    rewrite IH by exact H2. destruct op; cbn [is_reset negb] in H1; try discriminate;
      cbn [wb_step]; rewrite <- app_assoc; reflexivity.
Qed.

(* a Reset forgets everything before it, whatever the buffer held *)
Theorem wb_run_reset : forall ops1 ops2 buf, wb_run buf (ops1 ++ WbReset :: ops2) = wb_run [] ops2.
Proof. intros. unfold wb_run. rewrite fold_left_app. reflexivity. Qed.

Theorem wb_len_step buf op : is_reset op = false -> len (wb_step buf op) = len buf + len (wb_bytes op).
Proof. intros H. destruct op; try discriminate; cbn [wb_step]; unfold len; rewrite app_length; lia. Qed.

(* ---------------- ReadBuf ---------------- *)
Lemma dec_varint_suffix rest v r : dec_varint rest = VOk (v, r) -> exists pre, rest = pre ++ r.
Proof.
  unfold dec_varint. destruct (dec_uvarint rest 0 1 0) as [[u r']| |] eqn:E; intros H; inversion H; subst.
  destruct (dec_uvarint_ok_inv _ _ _ _ _ _ E) as (conts & b & Hb & _).
  exists (conts ++ [b]). rewrite <- app_assoc. exact Hb.
Qed.

Lemma varint_span_le : forall bs, (varint_span bs <= length bs)%nat.
Proof. induction bs as [|b r IH]; cbn; [lia|]. destruct (b <? 128); cbn; lia. Qed.

(* the cursor only moves forward: what is unread after a call is a suffix of what was unread
   before it (Reset aside, which replaces the data) *)
Theorem rb_step_suffix rest op rest' o :
  (forall d, op <> RbReset d) -> rb_step rest op = (rest', o) -> exists pre, rest = pre ++ rest'.
Proof.
  intros Hnr H. destruct op as [l|l| | |d]; cbn [rb_step] in H.
  1,2: unfold rd_next in H; destruct ((l <? 0) || (len rest <? l)); inversion H; subst;
       [exists (@nil Z); reflexivity|exists (firstn (Z.to_nat l) rest); symmetry; apply firstn_skipn].
  - destruct rest as [|b r]; inversion H; subst; [exists (@nil Z); reflexivity|exists [b]; reflexivity].
  - destruct (dec_varint rest) as [[v r]| |] eqn:E.
    + inversion H; subst. destruct (dec_varint_suffix rest v rest' E) as [pre Hp]. exists pre. exact Hp.
    + inversion H; subst. exists (firstn (varint_span rest) rest). symmetry. apply firstn_skipn.
    + inversion H; subst. exists (firstn (varint_span rest) rest). symmetry. apply firstn_skipn.
  - exfalso. apply (Hnr d). reflexivity.
Qed.

(* Next and NextAsString hand out exactly the bytes they step over, and refuse - leaving the
   cursor where it is - exactly when the length is negative or more than what is left *)
Theorem rb_next_spec rest l :
  (0 <= l <= len rest -> rb_step rest (RbNext l) = (skipn (Z.to_nat l) rest, OBytes (firstn (Z.to_nat l) rest))) /\
  (l < 0 \/ len rest < l -> rb_step rest (RbNext l) = (rest, OErr)) /\
  rb_step rest (RbNextAsString l) = rb_step rest (RbNext l).
Proof.
  cbn [rb_step]. unfold rd_next. repeat split.
  - intros [H1 H2]. destruct (Z.ltb_spec l 0); [lia|]. destruct (Z.ltb_spec (len rest) l); [lia|]. reflexivity.
  - intros [Hl|Hl].
    + destruct (Z.ltb_spec l 0); [reflexivity|lia].
    + destruct (Z.ltb_spec l 0); [reflexivity|]. destruct (Z.ltb_spec (len rest) l); [reflexivity|lia].
Qed.

Theorem rb_next_consumes rest l b rest' :
  rb_step rest (RbNext l) = (rest', OBytes b) -> rest = b ++ rest' /\ len b = l.
Proof.
  cbn [rb_step]. unfold rd_next. destruct (Z.ltb_spec l 0) as [|H0]; cbn [orb]; [discriminate|].
  destruct (Z.ltb_spec (len rest) l) as [|H1]; [discriminate|]. intros Hs. inversion Hs; subst. split.
  - symmetry. apply firstn_skipn.
  - unfold len in *. rewrite firstn_length. lia.
Qed.

(* ReadByte: the next byte, or an error at the end *)
Theorem rb_byte_spec rest :
  rb_step rest RbByte = match rest with [] => ([], OErr) | b :: r => (r, OByte b) end.
Proof. reflexivity. Qed.

(* Varint that succeeds returns the value of the bytes it stepped over *)
Theorem rb_varint_ok rest v rest' :
  rb_step rest RbVarint = (rest', OInt v) -> dec_varint rest = VOk (v, rest').
Proof.
  cbn [rb_step]. destruct (dec_varint rest) as [[v' r]| |]; intros H; inversion H; subst; reflexivity.
Qed.

(* the unread length never grows within one set of data *)
Theorem rb_len_monotone rest op rest' o :
  (forall d, op <> RbReset d) -> rb_step rest op = (rest', o) -> len rest' <= len rest.
Proof.
  intros Hn H. destruct (rb_step_suffix rest op rest' o Hn H) as [pre ->]. unfold len. rewrite app_length. lia.
Qed.
