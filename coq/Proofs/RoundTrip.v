(* Compositions of W (write = canonical encoding), S (the reference decoder
   accepts every spec encoding) and R (the reader agrees with the reference
   decoder): what is written is valid Avro, and reading it back yields the
   datum-level image of the value. *)
From Coq Require Import List ZArith Lia Bool.
Require Import Avro.Model.Base Avro.Model.Prim Avro.Model.Schema Avro.Model.GoType
               Avro.Model.Blocks Avro.Model.Time Avro.Model.Spec Avro.Model.Codec Avro.Model.Denote.
Require Import Avro.Proofs.Wire Avro.Proofs.BuildP Avro.Proofs.ReadP Avro.Proofs.WriteP Avro.Proofs.SpecP.
Import ListNotations.
Open Scope Z_scope.

(* physical bounds of a real encoding: sizes below 2^63 *)
Definition phys_ok (s : schema) (d : datum) : Prop :=
  typed s d = true /\ len (canon_encode s d) < two63 /\ Z.of_nat (dmax d) < two63.

Theorem written_is_valid_avro : forall reg s t om c v d bs fuel rest,
  build reg s t om = Some c -> datum_of c s v = Some d -> phys_ok s d ->
  c_write c v = Some bs -> (3 * dmax d + 1 <= fuel)%nat ->
  bs = canon_encode s d /\ sd fuel s (bs ++ rest) = Done d rest.
Proof.
  intros reg s t om c v d bs fuel rest Hb Hd (Ht & Hl & Hm) Hw Hf.
  pose proof (write_canon _ _ _ _ (build_wire _ _ _ _ _ Hb) Hd) as Hc. rewrite Hc in Hw. injection Hw as <-.
  split; [reflexivity|]. apply sd_spec_encode; auto.
Qed.

Theorem write_then_read : forall reg s t om c v d bs fuel rest dest v',
  build reg s t om = Some c -> datum_of c s v = Some d -> phys_ok s d ->
  c_write c v = Some bs -> (3 * dmax d + 1 <= fuel)%nat ->
  apply_datum c dest d = Some v' ->
  c_read fuel c dest (bs ++ rest) = Done v' rest /\ c_skip fuel c (bs ++ rest) = Done tt rest.
Proof.
  intros reg s t om c v d bs fuel rest dest v' Hb Hd Hp Hw Hf Ha.
  destruct (written_is_valid_avro _ _ _ _ _ _ _ _ fuel rest Hb Hd Hp Hw Hf) as [_ Hsd].
  pose proof (build_wire _ _ _ _ _ Hb) as W. split.
  - eapply read_complete; eauto.
  - eapply skip_exact; eauto.
Qed.

(* the same with a reader codec built for another compatible Go type from the same schema *)
Theorem write_then_read_other_target : forall reg s t om c reg' t' om' c' v d bs fuel rest dest v',
  build reg s t om = Some c -> build reg' s t' om' = Some c' ->
  datum_of c s v = Some d -> phys_ok s d -> c_write c v = Some bs -> (3 * dmax d + 1 <= fuel)%nat ->
  apply_datum c' dest d = Some v' ->
  c_read fuel c' dest (bs ++ rest) = Done v' rest.
Proof.
  intros reg s t om c reg' t' om' c' v d bs fuel rest dest v' Hb Hb' Hd Hp Hw Hf Ha.
  destruct (written_is_valid_avro _ _ _ _ _ _ _ _ fuel rest Hb Hd Hp Hw Hf) as [_ Hsd].
  eapply read_complete; eauto. eapply build_wire; eauto.
Qed.

(* null stays distinguishable from zero: what the nullable-union codecs write *)
Lemma union_one_null_branch c nn x1 x2 v :
  c_omit c v = true -> datum_of (CUnionOne c nn) (SUnion [x1; x2]) v = Some (DUnion (1 - nn) DNull).
Proof. intros H. cbn [datum_of]. rewrite H. reflexivity. Qed.

Lemma union_one_value_branch c nn x1 x2 v d :
  c_omit c v = false -> datum_of c (if nn =? 0 then x1 else x2) v = Some d ->
  datum_of (CUnionOne c nn) (SUnion [x1; x2]) v = Some (DUnion nn d).
Proof. intros H Hd. cbn [datum_of]. rewrite H, Hd. reflexivity. Qed.

Lemma omit_cases :
  (forall c z, c_omit (CPtr c z) (VPtr None) = true) /\
  (forall c z x, c_omit (CPtr c z) (VPtr (Some x)) = false) /\
  (forall p, c_omit CNullInt (VNullW false p) = true /\ c_omit CNullInt (VNullW true p) = false) /\
  (forall w om z, c_omit (CInt w om) (VInt z) = om && (z =? 0)) /\
  (forall om x, c_omit (CString om) (VStr x) = om && match x with [] => true | _ => false end) /\
  (forall c z om kvs, c_omit (CMap c z om) (VMap kvs) = false) /\
  (forall c z om, c_omit (CMap c z om) VMapNil = om).
Proof. repeat split; intros; reflexivity. Qed.
