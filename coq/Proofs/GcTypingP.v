(* C11: proofs about Model/GcTyping.v.
   (1) [build_ind]: an induction principle for buildCodec -- whatever holds of the
       primitive builders and is preserved by each composite constructor holds of
       every (codec, Go type) pair build returns.  Same skeleton as LayoutP.build_fits.
   (2) the instance for [gc_typed] / [alloc_ok]; (3) the refutation under the
       pre-repair MapCodec.New; (4) the layout fact that a struct's pointer words
       are its fields' pointer words at the field offsets. *)
From Coq Require Import List ZArith Lia Bool String.
Require Import Avro.Model.Base Avro.Model.Prim Avro.Model.Schema Avro.Model.GoType
               Avro.Model.Blocks Avro.Model.Time Avro.Model.Spec Avro.Model.Codec Avro.Model.Layout
               Avro.Model.GcTyping.
Require Import Avro.Proofs.CodecInd Avro.Proofs.LayoutP.
Import ListNotations.
Open Scope Z_scope.

(* ------------------------------------------------------------------ *)
(* (1) induction over buildCodec                                        *)
(* ------------------------------------------------------------------ *)
Section BuildInd.
  Variable P : codec -> gtype -> Prop.

  Fixpoint pfields (gfs : list gfield) (l : list (codec * option nat)) {struct l} : Prop :=
    match l with
    | [] => True
    | (fc, Some j) :: l' => (exists gf, nth_error gfs j = Some gf /\ P fc (gf_type gf)) /\ pfields gfs l'
    | (_, None) :: l' => pfields gfs l'
    end.

  Hypothesis H_prim : forall s t0 om c, build_prim s (Some (underlying t0)) om = Some c -> P c t0.
  Hypothesis H_record : forall t0 n p gfs fs, underlying t0 = TStruct n p gfs -> pfields gfs fs -> P (CRecord fs) t0.
  Hypothesis H_array : forall t0 e ic om, underlying t0 = TSlice e -> P ic e -> P (CArray ic (zero_of e) om) t0.
  Hypothesis H_map : forall t0 k e vc om, underlying t0 = TMap k e -> underlying k = TString -> P vc e ->
                                          P (CMap vc (zero_of e) om) t0.
  Hypothesis H_wrap : forall w s inner c, apply_builder (BWrap w) s inner = Some c -> P c (TWrap w).
  Hypothesis H_custom : forall k c t0, P c t0 -> P (CCustom k c) t0.
  Hypothesis H_ptr : forall c z t0, P c t0 -> P (CPtr c z) (TPtr t0).
  Hypothesis H_union : forall cs t, Forall (fun c => P c t) cs -> P (CUnion cs) t.
  Hypothesis H_unionone : forall c nn t, P c t -> P (CUnionOne c nn) t.
  Hypothesis H_unionstr : forall om nn t, P (CString om) t -> P (CUnionStr om nn) t.

  Definition bld_P (bld : schema -> option gtype -> bool -> option codec) (s : schema) : Prop :=
    forall t om c, bld s (Some t) om = Some c -> P c t.

  Definition sub_P (bld : schema -> option gtype -> bool -> option codec) (s : schema) : Prop :=
    match s with
    | SArray it => bld_P bld it
    | SMap vs => bld_P bld vs
    | SRecord fields => Forall (fun p => bld_P bld (snd p)) fields
    | _ => True
    end.

  Lemma build_fields_P bld gfs : forall fields fs,
    Forall (fun p => bld_P bld (snd p)) fields ->
    build_fields bld (Some gfs) fields = Some fs -> pfields gfs fs.
  Proof.
    induction fields as [|[n s] l IH]; intros fs HF H.
    - cbn in H. injection H as <-. exact I.
    - inversion HF as [|? ? Hs Hl]; subst. cbn [snd] in Hs. cbn [build_fields] in H.
      destruct (find_field n gfs) as [[j gf]|] eqn:Ef.
      + destruct (bld s (Some (gf_type gf)) (omit_empty gf)) as [c|] eqn:Ec; try discriminate.
        destruct (build_fields bld (Some gfs) l) as [r|] eqn:Er; try discriminate.
        injection H as <-. cbn [pfields option_map fst]. split.
        * exists gf. split; [exact (find_field_nth _ _ _ _ Ef)|eapply Hs; eauto].
        * apply IH; auto.
      + destruct (bld s None false) as [c|] eqn:Ec; try discriminate.
        destruct (build_fields bld (Some gfs) l) as [r|] eqn:Er; try discriminate.
        injection H as <-. cbn [pfields option_map]. apply IH; auto.
  Qed.

  Lemma disp_P bld s t0 om c : sub_P bld s -> disp bld s (Some t0) om = Some c -> P c t0.
  Proof.
    intros IH H. unfold disp in H. cbn [option_map] in H.
    destruct s; try discriminate; try (eapply H_prim; exact H).
    - destruct (underlying t0) eqn:Eu; cbn [struct_fields] in H; try discriminate.
      destruct (build_fields bld (Some fields0) fields) as [fs|] eqn:Ef; try discriminate.
      injection H as <-. eapply H_record; [exact Eu|]. eapply build_fields_P; eauto.
    - destruct (underlying t0) eqn:Eu; try discriminate.
      destruct (bld s (Some g) false) as [ic|] eqn:Ei; try discriminate. injection H as <-.
      eapply H_array; [exact Eu|]. eapply IH; eauto.
    - destruct (underlying t0) eqn:Eu; try discriminate. destruct (underlying g1) eqn:Ek; try discriminate.
      destruct (bld s (Some g2) false) as [vc|] eqn:Ei; try discriminate. injection H as <-.
      eapply H_map; [exact Eu|exact Ek|]. eapply IH; eauto.
  Qed.

  Lemma build_base_P reg bld s t0 om c : reg_sane reg -> sub_P bld s ->
    build_base reg bld s t0 om = Some c -> P c t0.
  Proof.
    intros Hreg IH H. unfold build_base in H. destruct (reg_lookup reg t0) as [[w|k]|] eqn:El.
    - rewrite (Hreg _ _ El). eapply H_wrap; eauto.
    - unfold apply_builder in H. destruct (disp bld s (Some t0) om) as [ci|] eqn:Ed; try discriminate.
      injection H as <-. apply H_custom. eapply disp_P; eauto.
    - eapply disp_P; eauto.
  Qed.

  Lemma wrap_ptrs_P : forall k c z t0, P c t0 -> P (wrap_ptrs k c z) (ptr_n k t0).
  Proof.
    induction k as [|k IH]; intros c z t0 H; [exact H|].
    cbn [wrap_ptrs ptr_n]. rewrite <- ptr_n_shift. apply IH. apply H_ptr. exact H.
  Qed.

  Lemma union_one_P x nn c' t : P x t -> union_one (Some x) nn = Some c' -> P c' t.
  Proof.
    intros Hp Hu. destruct x; cbn [union_one] in Hu; injection Hu as <-;
      first [apply H_unionstr; exact Hp | apply H_unionone; exact Hp].
  Qed.

  Theorem build_ind reg : reg_sane reg -> forall s t om c, build reg s (Some t) om = Some c -> P c t.
  Proof.
    intros Hreg. induction s using schema_ind'; intros t om c Hb.
    all: try (cbn [build] in Hb;
              destruct (peel t) as [k t0] eqn:Ep; rewrite (peel_ptr_n _ _ _ Ep); destruct k;
              [ eapply build_base_P; [exact Hreg| |exact Hb]; cbn [sub_P]; auto
              | destruct (build_base reg (fun s' t' om' => build reg s' t' om') _ t0 false) as [c0|] eqn:Eb; try discriminate;
                injection Hb as <-; refine (wrap_ptrs_P (S k) c0 (zero_of t0) t0 _); eapply build_base_P; [exact Hreg| |exact Eb]; cbn [sub_P]; auto ]; fail).
    - injection Hb as <-. apply (H_prim SNull t om). reflexivity.
    - (* union *)
      assert (Hgen : forall c', option_map CUnion (build_list (fun x => build reg x (Some t) om) brs) = Some c' -> P c' t).
      { intros c' Hc. destruct (build_list (fun x => build reg x (Some t) om) brs) as [cs|] eqn:El; try discriminate.
        injection Hc as <-. apply H_union. clear Hb.
        revert cs El. induction brs as [|x l IHl]; intros cs El.
        - cbn in El. injection El as <-. constructor.
        - inversion H as [|? ? Hx Hl]; subst. cbn [build_list] in El.
          destruct (build reg x (Some t) om) as [cx|] eqn:Ex; try discriminate.
          destruct (build_list (fun x0 => build reg x0 (Some t) om) l) as [r|] eqn:Er; try discriminate.
          injection El as <-. constructor; [eapply Hx; eauto|apply IHl; auto]. }
      assert (Hone : forall x nn c', In x brs -> union_one (build reg x (Some t) om) nn = Some c' -> P c' t).
      { intros x nn c' Hin Hu. rewrite Forall_forall in H. specialize (H x Hin).
        destruct (build reg x (Some t) om) as [ci|] eqn:Ex; try discriminate.
        eapply union_one_P; [eapply H; exact Ex|exact Hu]. }
      cbn [build] in Hb.
      destruct brs as [|x1 [|x2 [|x3 l]]]; try (apply Hgen; exact Hb).
      + destruct x1; try (apply Hgen; exact Hb).
      + destruct x1.
        * assert (Hb' : union_one (build reg x2 (Some t) om) 1 = Some c) by (destruct x2; exact Hb).
          eapply (Hone x2); [right; left; reflexivity|exact Hb'].
        * destruct x2; try (apply Hgen; exact Hb). eapply (Hone SBool); [left; reflexivity|exact Hb].
        * destruct x2; try (apply Hgen; exact Hb). eapply (Hone (SInt date)); [left; reflexivity|exact Hb].
        * destruct x2; try (apply Hgen; exact Hb). eapply (Hone (SLong lt)); [left; reflexivity|exact Hb].
        * destruct x2; try (apply Hgen; exact Hb). eapply (Hone SFloat); [left; reflexivity|exact Hb].
        * destruct x2; try (apply Hgen; exact Hb). eapply (Hone SDouble); [left; reflexivity|exact Hb].
        * destruct x2; try (apply Hgen; exact Hb). eapply (Hone SBytes); [left; reflexivity|exact Hb].
        * destruct x2; try (apply Hgen; exact Hb). eapply (Hone SString); [left; reflexivity|exact Hb].
        * destruct x2; try (apply Hgen; exact Hb). eapply (Hone (SFixed size)); [left; reflexivity|exact Hb].
        * destruct x2; try (apply Hgen; exact Hb). eapply (Hone (SEnum nsyms)); [left; reflexivity|exact Hb].
        * destruct x2; try (apply Hgen; exact Hb). eapply (Hone (SRecord fields)); [left; reflexivity|exact Hb].
        * destruct x2; try (apply Hgen; exact Hb). eapply (Hone (SArray x1)); [left; reflexivity|exact Hb].
        * destruct x2; try (apply Hgen; exact Hb). eapply (Hone (SMap x1)); [left; reflexivity|exact Hb].
        * destruct x2; try (apply Hgen; exact Hb). eapply (Hone (SUnion branches)); [left; reflexivity|exact Hb].
        * destruct x2; try (apply Hgen; exact Hb). eapply (Hone SBad); [left; reflexivity|exact Hb].
      + destruct x1; try (apply Hgen; exact Hb); destruct x2; apply Hgen; exact Hb.
  Qed.
End BuildInd.

(* ------------------------------------------------------------------ *)
(* (2) bitmaps                                                          *)
(* ------------------------------------------------------------------ *)
Lemma ptr_offsets_underlying t : ptr_offsets (underlying t) = ptr_offsets t.
Proof. induction t; try reflexivity. cbn [underlying ptr_offsets]. exact IHt. Qed.

Lemma ptrmap_of_parts a v : sizeof a = sizeof v -> ptr_offsets a = ptr_offsets v -> ptrmap a = ptrmap v.
Proof. intros Hs Ho. unfold ptrmap, nwords. rewrite Hs, Ho. reflexivity. Qed.

Lemma ptrmap_underlying t : ptrmap (underlying t) = ptrmap t.
Proof. apply ptrmap_of_parts; [apply sizeof_underlying|apply ptr_offsets_underlying]. Qed.

Lemma same_gc_refl t : same_gc t t.
Proof. split; reflexivity. Qed.

Lemma same_gc_under a t : same_gc a (underlying t) -> same_gc a t.
Proof. intros [H1 H2]. split; [rewrite H1; apply sizeof_underlying|rewrite H2; apply ptrmap_underlying]. Qed.

Lemma u8_no_ptr g : is_u8 g = true -> ptr_offsets g = [] /\ sizeof g = 1.
Proof.
  unfold is_u8. intros H. rewrite <- ptr_offsets_underlying, <- sizeof_underlying.
  destruct (underlying g) as [| [] | | | | | | | | | | | | | | | |]; try discriminate; split; reflexivity.
Qed.

Lemma array_no_ptr n e : ptr_offsets e = [] -> ptr_offsets (TArray n e) = [].
Proof.
  intros He. cbn [ptr_offsets]. rewrite He. generalize 0 as off. induction (Z.to_nat n) as [|k IH]; intros off; [reflexivity|].
  cbn [map app]. apply IH.
Qed.

Lemma stores_at t o : In o (ptr_offsets (underlying t)) -> Forall (fun x => In x (ptr_offsets t)) [o].
Proof. rewrite ptr_offsets_underlying. intros H. constructor; [exact H|constructor]. Qed.

Section Typed.
  Variable mn : gtype -> gtype.

  Definition GT (c : codec) (t : gtype) : Prop := gc_typed mn c t /\ alloc_ok mn c t.

  Lemma prim_GT s t0 om c : build_prim s (Some (underlying t0)) om = Some c -> GT c t0.
  Proof.
    unfold build_prim, GT, alloc_ok. intros H.
    destruct s; try discriminate.
    - injection H as <-. split; [constructor|exact I].
    - destruct (underlying t0) eqn:Eu; try discriminate. injection H as <-.
      split; [constructor|]. cbn [alloc_type]. apply same_gc_under. rewrite Eu. apply same_gc_refl.
    - destruct (underlying t0) as [| [] | | | | | | | | | | | | | | | |] eqn:Eu; try discriminate; injection H as <-;
        (split; [constructor|]); cbn [alloc_type]; apply same_gc_under; rewrite Eu; split; reflexivity.
    - destruct (underlying t0) as [| [] | | | | | | | | | | | | | | | |] eqn:Eu; try discriminate; injection H as <-;
        (split; [constructor|]); cbn [alloc_type]; apply same_gc_under; rewrite Eu; split; reflexivity.
    - destruct (underlying t0) eqn:Eu; try discriminate. injection H as <-.
      split; [constructor|]. cbn [alloc_type]. apply same_gc_under. rewrite Eu. apply same_gc_refl.
    - destruct (underlying t0) eqn:Eu; try discriminate; injection H as <-;
        (split; [constructor|]); cbn [alloc_type]; apply same_gc_under; rewrite Eu; apply same_gc_refl.
    - destruct (underlying t0) eqn:Eu; try discriminate. destruct (is_u8 g); try discriminate. injection H as <-.
      split; [cbn [gc_typed]; apply stores_at; rewrite Eu; left; reflexivity|].
      cbn [alloc_type]. apply same_gc_under. rewrite Eu. split; reflexivity.
    - destruct (underlying t0) eqn:Eu; try discriminate. injection H as <-.
      split; [cbn [gc_typed]; apply stores_at; rewrite Eu; left; reflexivity|].
      cbn [alloc_type]. apply same_gc_under. rewrite Eu. apply same_gc_refl.
    - destruct (size <? 0); try discriminate. destruct (underlying t0) eqn:Eu; try discriminate.
      destruct (is_u8 g && (n =? size)) eqn:Eg; try discriminate. injection H as <-.
      split; [constructor|]. cbn [alloc_type]. apply same_gc_under. rewrite Eu.
      apply andb_prop in Eg as [Eg1 Eg2]. apply Z.eqb_eq in Eg2. subst n.
      destruct (u8_no_ptr g Eg1) as [Hp Hs].
      assert (Hsz : sizeof (TArray size (TInt U8)) = sizeof (TArray size g)) by (cbn [sizeof ikind_size]; rewrite Hs; reflexivity).
      split; [exact Hsz|]. apply ptrmap_of_parts; [exact Hsz|].
      rewrite (array_no_ptr size g Hp). apply array_no_ptr. reflexivity.
  Qed.

  Lemma wrap_GT w s inner c : apply_builder (BWrap w) s inner = Some c -> GT c (TWrap w).
  Proof.
    unfold apply_builder, GT, alloc_ok.
    destruct w; destruct s; try discriminate;
      try (intros H; injection H as <-; split;
           [cbn [gc_typed]; unfold stores_ok; cbn; repeat constructor; auto|cbn [alloc_type]; apply same_gc_refl]).
    destruct date; try discriminate. intros H; injection H as <-; split;
      [cbn [gc_typed]; unfold stores_ok; cbn; repeat constructor; auto|cbn [alloc_type]; apply same_gc_refl].
  Qed.

  Lemma gc_record_eq fs t n p gfs : underlying t = TStruct n p gfs ->
    (gc_typed mn (CRecord fs) t <->
     (fix go (l : list (codec * option nat)) {struct l} : Prop :=
        match l with
        | [] => True
        | (fc, Some j) :: l' =>
            match nth_error gfs j with Some gf => gc_typed mn fc (gf_type gf) | None => False end /\ go l'
        | (_, None) :: l' => go l'
        end) fs).
  Proof. intros Hu. cbn [gc_typed]. rewrite Hu. reflexivity. Qed.

  Lemma record_GT t0 n p gfs fs :
    underlying t0 = TStruct n p gfs -> pfields GT gfs fs -> GT (CRecord fs) t0.
  Proof.
    intros Hu Hf. split; [|unfold alloc_ok; cbn [alloc_type]; apply same_gc_refl].
    apply (gc_record_eq fs t0 n p gfs Hu).
    induction fs as [|[fc [j|]] l IH]; [exact I| |]; cbn [pfields] in Hf.
    - destruct Hf as [[gf [Hn [Hg _]]] Hl]. rewrite Hn. split; [exact Hg|apply IH; exact Hl].
    - apply IH. exact Hf.
  Qed.

  Lemma union_alloc_ok t : forall cs, Forall (fun c => alloc_ok mn c t) cs -> alloc_ok mn (CUnion cs) t.
  Proof.
    unfold alloc_ok. cbn [alloc_type]. induction cs as [|x l IH]; intros H; [exact I|].
    inversion H as [|? ? Hx Hl]; subst. destruct (alloc_type mn x t) as [a|] eqn:Ea; [exact Hx|apply IH; exact Hl].
  Qed.

  Lemma union_gc t : forall cs, Forall (fun c => gc_typed mn c t) cs -> gc_typed mn (CUnion cs) t.
  Proof.
    cbn [gc_typed]. induction cs as [|x l IH]; intros H; [exact I|].
    inversion H; subst. split; [assumption|apply IH; assumption].
  Qed.

  (* everything except the map codec's own New, which depends on [mn] *)
  Hypothesis map_new_ok : forall t k e, underlying t = TMap k e -> same_gc (mn t) t.

  Theorem build_GT reg : reg_sane reg -> forall s t om c, build reg s (Some t) om = Some c -> GT c t.
  Proof.
    intros Hreg. apply (build_ind GT); [| | | | | | | | | |exact Hreg].
    - exact prim_GT.
    - intros t0 n p gfs fs Hu Hf. eapply record_GT; eauto.
    - intros t0 e ic om Hu [Hg Ha]. split.
      + cbn [gc_typed]. rewrite Hu. split; [apply stores_at; rewrite Hu; left; reflexivity|exact Hg].
      + unfold alloc_ok. cbn [alloc_type]. apply same_gc_under. rewrite Hu. split; reflexivity.
    - intros t0 k e vc om Hu Hk [Hg Ha]. split.
      + cbn [gc_typed]. rewrite Hu. split; [apply stores_at; rewrite Hu; left; reflexivity|split; assumption].
      + unfold alloc_ok. cbn [alloc_type]. eapply map_new_ok; eauto.
    - exact wrap_GT.
    - intros k c t0 [Hg Ha]. split; [exact Hg|exact Ha].
    - intros c z t0 [Hg Ha]. split.
      + cbn [gc_typed underlying]. split; [constructor; [left; reflexivity|constructor]|split; assumption].
      + unfold alloc_ok. cbn [alloc_type]. split; reflexivity.
    - intros cs t H. split.
      + apply union_gc. eapply Forall_impl; [|exact H]. intros a [Hg _]. exact Hg.
      + apply union_alloc_ok. eapply Forall_impl; [|exact H]. intros a [_ Ha]. exact Ha.
    - intros c nn t [Hg Ha]. split; [exact Hg|exact Ha].
    - intros om nn t [Hg Ha]. split; [exact Hg|exact Ha].
  Qed.
End Typed.

(* ------------------------------------------------------------------ *)
(* (3) layout: pointer words of composites                              *)
(* ------------------------------------------------------------------ *)
Lemma struct_ptr_words_gen d : forall gfs off j gf o,
  nth_error gfs j = Some gf -> In o (ptr_offsets (gf_type gf)) ->
  In (nth j (field_offsets gfs off) d + o)
     ((fix go (l : list gfield) (off : Z) {struct l} : list Z :=
         match l with
         | [] => []
         | GF _ _ _ _ ft :: r =>
             let o := align_up off (alignof ft) in
             map (Z.add o) (ptr_offsets ft) ++ go r (o + sizeof ft)
         end) gfs off).
Proof.
  induction gfs as [|[fn fe fj fb ft] r IH]; intros off j gf o Hn Ho.
  - destruct j; discriminate.
  - destruct j as [|j].
    + cbn in Hn. injection Hn as <-. cbn [gf_type] in Ho. cbn [field_offsets nth]. cbv zeta.
      apply in_or_app. left. apply in_map. exact Ho.
    + cbn [nth_error] in Hn. cbn [field_offsets nth]. cbv zeta. apply in_or_app. right.
      apply (IH _ j gf o Hn Ho).
Qed.

Lemma struct_ptr_words n p gfs : forall j gf o,
  nth_error gfs j = Some gf -> In o (ptr_offsets (gf_type gf)) ->
  In (nth j (field_offsets gfs 0) 0 + o) (ptr_offsets (TStruct n p gfs)).
Proof. intros j gf o Hn Ho. cbn [ptr_offsets]. apply (struct_ptr_words_gen 0 gfs 0 j gf o Hn Ho). Qed.

Lemma array_ptr_words n e i o : 0 <= i < n -> In o (ptr_offsets e) ->
  In (i * sizeof e + o) (ptr_offsets (TArray n e)).
Proof.
  intros Hi Ho. cbn [ptr_offsets].
  assert (Hgen : forall k off (j : nat), (j < k)%nat ->
     In (off + Z.of_nat j * sizeof e + o)
        ((fix rep (k : nat) (off : Z) {struct k} : list Z :=
            match k with O => [] | S k' => map (Z.add off) (ptr_offsets e) ++ rep k' (off + sizeof e) end) k off)).
  { induction k as [|k IH]; intros off j Hj; [lia|].
    apply in_or_app. destruct j as [|j].
    - left. replace (off + Z.of_nat 0 * sizeof e + o) with (off + o) by lia. apply in_map. exact Ho.
    - right. replace (off + Z.of_nat (S j) * sizeof e + o) with ((off + sizeof e) + Z.of_nat j * sizeof e + o) by lia.
      apply IH. lia. }
  specialize (Hgen (Z.to_nat n) 0 (Z.to_nat i)). rewrite Z2Nat.id in Hgen by lia. apply Hgen. lia.
Qed.

Lemma in_shift base o l : In o l -> In (base + o) (map (Z.add base) l).
Proof. apply in_map. Qed.

(* every pointer store into the destination object hits a pointer word of its type *)
Theorem stores_scanned mn : forall c t base, gc_typed mn c t ->
  Forall (fun o => In o (map (Z.add base) (ptr_offsets t))) (obj_stores c t base).
Proof.
  assert (Hleaf : forall c t base, stores_ok c t ->
            Forall (fun o => In o (map (Z.add base) (ptr_offsets t))) (map (Z.add base) (ptr_stores c))).
  { intros c t base H. unfold stores_ok in H. rewrite Forall_forall in *. intros x Hx.
    apply in_map_iff in Hx as [y [<- Hy]]. apply in_map. apply H. exact Hy. }
  induction c using codec_ind'; intros t base Hg;
    try (apply Hleaf; exact Hg); try (apply Hleaf; destruct Hg as [Hg _]; exact Hg).
  - (* record *)
    cbn [gc_typed] in Hg. cbn [obj_stores]. destruct (underlying t) eqn:Eu; try contradiction.
    induction fs as [|[fc [j|]] l IHl]; [constructor| |].
    + inversion H as [|? ? Hfc Hl]; subst. cbn [fst] in Hfc. destruct Hg as [Hj Hrest].
      apply Forall_app. split; [|apply IHl; assumption].
      destruct (nth_error fields j) as [gf|] eqn:En; [|constructor].
      specialize (Hfc (gf_type gf) (base + nth j (field_offsets fields 0) 0) Hj).
      rewrite Forall_forall in *. intros x Hx. specialize (Hfc x Hx).
      apply in_map_iff in Hfc as [y [<- Hy]].
      replace (base + nth j (field_offsets fields 0) 0 + y) with (base + (nth j (field_offsets fields 0) 0 + y)) by lia.
      apply in_map. rewrite <- ptr_offsets_underlying, Eu. eapply struct_ptr_words; eauto.
    + inversion H; subst. apply IHl; assumption.
  - (* union *)
    cbn [gc_typed] in Hg. cbn [obj_stores]. induction cs as [|x l IHl]; [constructor|].
    inversion H; subst. destruct Hg as [Hx Hl]. apply Forall_app. split; [auto|apply IHl; assumption].
  - cbn [gc_typed] in Hg. cbn [obj_stores]. apply IHc. exact Hg.
  - cbn [gc_typed] in Hg. cbn [obj_stores]. apply IHc. exact Hg.
Qed.

(* ------------------------------------------------------------------ *)
(* (4) the pre-repair MapCodec.New                                      *)
(* ------------------------------------------------------------------ *)
Definition rg_field : ident := [102].                                   (* "f" *)
Definition rg_map : gtype := TMap TString (TInt I64).
Definition rg_schema : schema := SRecord [(rg_field, SMap (SLong LtNone))].
Definition rg_ptr_map : gtype := TStruct [] [] [GF [70] true rg_field [] (TPtr rg_map)].          (* struct{ F *map[string]int64 } *)
Definition rg_map_map : gtype := TStruct [] [] [GF [70] true rg_field [] (TMap TString rg_map)].  (* struct{ F map[string]map[string]int64 } *)
Definition rg_schema2 : schema := SRecord [(rg_field, SMap (SMap (SLong LtNone)))].

Lemma map_new_old_refuted :
  (exists c, build reg_std rg_schema (Some rg_ptr_map) false = Some c /\
             gc_typed mapnew_now c rg_ptr_map /\ ~ gc_typed mapnew_old c rg_ptr_map) /\
  (exists c, build reg_std rg_schema2 (Some rg_map_map) false = Some c /\
             gc_typed mapnew_now c rg_map_map /\ ~ gc_typed mapnew_old c rg_map_map) /\
  (* the word: MapCodec.Read stores the map pointer at offset 0 of what New returned;
     as a map variable that word is a pointer, in the runtime's map object it is the
     element count *)
  nth 0 (ptrmap rg_map) false = true /\ nth 0 (ptrmap (mapnew_old rg_map)) true = false /\
  sizeof (mapnew_old rg_map) = 48 /\ sizeof rg_map = 8.
Proof.
  split; [|split].
  - eexists. split; [vm_compute; reflexivity|]. split.
    + cbn. unfold stores_ok, alloc_ok. cbn. repeat split; try (repeat constructor; auto; fail); vm_compute; reflexivity.
    + intros H. cbn in H. unfold alloc_ok in H. cbn in H. destruct H as [[_ [[Hs _] _]] _]. vm_compute in Hs. discriminate.
  - eexists. split; [vm_compute; reflexivity|]. split.
    + cbn. unfold stores_ok, alloc_ok. cbn. repeat split; try (repeat constructor; auto; fail); vm_compute; reflexivity.
    + intros H. cbn in H. unfold alloc_ok in H. cbn in H. destruct H as [[_ [[Hs _] _]] _]. vm_compute in Hs. discriminate.
  - vm_compute. repeat split; reflexivity.
Qed.

(* ------------------------------------------------------------------ *)
(* (5) top-level statements                                             *)
(* ------------------------------------------------------------------ *)
Theorem build_gc_typed reg : reg_sane reg -> forall s t om c,
  build reg s (Some t) om = Some c -> gc_typed mapnew_now c t /\ alloc_ok mapnew_now c t.
Proof.
  intros Hreg s t om c Hb. apply (build_GT mapnew_now) with (reg := reg) (s := s) (om := om); auto.
  intros t0 k e _. apply same_gc_refl.
Qed.

Lemma map_add0 l : map (Z.add 0) l = l.
Proof. induction l as [|x r IH]; [reflexivity|]. cbn [map]. rewrite IH. reflexivity. Qed.

Theorem build_stores_scanned reg : reg_sane reg -> forall s t om c,
  build reg s (Some t) om = Some c -> Forall (fun o => In o (ptr_offsets t)) (obj_stores c t 0).
Proof.
  intros Hreg s t om c Hb. destruct (build_gc_typed reg Hreg s t om c Hb) as [Hg _].
  pose proof (stores_scanned mapnew_now c t 0 Hg) as H. rewrite map_add0 in H. exact H.
Qed.

(* the pointee of every pointer codec is allocated (New is not nil), so Read never
   decodes through a nil pointer: buildCodec puts a pointer codec only around a codec
   built by the non-null, non-union dispatch *)
Lemma union_new t mn c nn om :
  alloc_type mn (CUnionOne c nn) t = alloc_type mn c t /\
  alloc_type mn (CUnionStr om nn) t = Some TString /\
  alloc_type mn (CCustom nn c) t = alloc_type mn c t.
Proof. repeat split; reflexivity. Qed.
