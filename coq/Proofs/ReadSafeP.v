(* C06, decode path: a successful read consumes at least min_bytes, and with fuel
   linear in the input length the reader never runs out of fuel (no count-driven
   loop) unless a collection has zero-width items. *)
From Coq Require Import List ZArith Lia Bool ZifyBool ZifyNat.
Require Import Avro.Model.Base Avro.Model.Prim Avro.Model.Schema Avro.Model.GoType
               Avro.Model.Blocks Avro.Model.Time Avro.Model.Spec Avro.Model.Codec.
Require Import Avro.Proofs.ListFacts Avro.Proofs.VarintP Avro.Proofs.VarintMore Avro.Proofs.PrimP
               Avro.Proofs.BlocksP Avro.Proofs.CodecInd Avro.Proofs.CodecEq Avro.Proofs.SafeP.
Import ListNotations.
Open Scope Z_scope.

(* ---- the lax block loop ---- *)
Section ReadLoop.
  Context {A : Type} (item : A -> bytes -> out A).
  Variable L0 : Z.
  Hypothesis Hnf : forall a bs, len bs <= L0 -> item a bs <> Fuel.
  Hypothesis Hprog : forall a bs a' r, item a bs = Done a' r -> len r < len bs.

  Lemma blocks_items_no_fuel : forall f,
    (forall a bs, len bs <= L0 -> (2 * length bs + 1 <= f)%nat -> blocks false item f a bs <> Fuel) /\
    (forall n e a bs, len bs <= L0 -> (2 * length bs + 2 <= f)%nat -> items false item f n e a bs <> Fuel).
  Proof.
    induction f as [|f [IHb IHi]]; [split; intros; lia|]. split.
    - intros a bs HL Hf. cbn [blocks]. unfold rdv. apply obind_not; [right; reflexivity|apply rd_varint_total|].
      intros cnt r Hc. pose proof (rd_varint_shorter _ _ _ Hc) as Hs. unfold len in *.
      destruct (cnt =? 0); [discriminate|]. destruct (cnt <? 0).
      + apply obind_not; [right; reflexivity|apply rd_varint_total|]. intros sz r' Hc'.
        pose proof (rd_varint_shorter _ _ _ Hc') as Hs'. unfold len in *. apply IHi; lia.
      + apply IHi; lia.
    - intros n e a bs HL Hf. cbn [items]. destruct (n <=? 0).
      + destruct e as [e|]; [destruct (len bs =? e); [apply IHb; lia|discriminate]|apply IHb; lia].
      + destruct (item a bs) as [a1 r| | |] eqn:E; cbn [obind]; try discriminate.
        * apply Hprog in E. unfold len in *. apply IHi; lia.
        * exfalso. exact (Hnf a bs HL E).
  Qed.
End ReadLoop.

Section ReadProg.
  Context {A : Type} (item : A -> bytes -> out A).
  Hypothesis Hprog : forall a bs a' r, item a bs = Done a' r -> len r < len bs.
  Lemma blocks_items_progress : forall f,
    (forall a bs a' r, blocks false item f a bs = Done a' r -> len r < len bs) /\
    (forall n e a bs a' r, items false item f n e a bs = Done a' r -> len r <= len bs).
  Proof.
    induction f as [|f [IHb IHi]]; [split; intros; discriminate|]. split.
    - intros a bs a' r H. cbn [blocks] in H. unfold rdv in H. inv_obind H. apply rd_varint_shorter in Ho.
      destruct (a0 =? 0); [injection H as _ <-; exact Ho|]. destruct (a0 <? 0).
      + inv_obind H. apply rd_varint_shorter in Ho0. apply IHi in H. lia.
      + apply IHi in H. lia.
    - intros n e a bs a' r H. cbn [items] in H. destruct (n <=? 0).
      + assert (Hb : blocks false item f a bs = Done a' r) by (destruct e as [e|]; [destruct (len bs =? e); [exact H|discriminate]|exact H]).
        apply IHb in Hb. lia.
      + inv_obind H. apply Hprog in Ho. apply IHi in H. lia.
  Qed.
End ReadProg.

(* ---- primitive readers: progress ---- *)
Lemma rd_next_len l bs v r : rd_next l bs = Done v r -> len r = len bs - l /\ 0 <= l.
Proof.
  intros H. destruct (rd_next_inv _ _ _ _ H) as (Hl & _ & Hr & _). subst r. unfold len in *. split; [|lia].
  rewrite skipn_length. rewrite Nat2Z.inj_sub by lia. rewrite Z2Nat.id by lia. reflexivity.
Qed.
Lemma int_read_len w bs v r : int_read w bs = Done v r -> len r < len bs.
Proof.
  unfold int_read. destruct (dec_varint bs) as [[i r']| |] eqn:E; try discriminate. destruct (int_fits w i); try discriminate.
  intros H. injection H as _ <-. apply (rd_varint_shorter bs i r'). unfold rd_varint. rewrite E. reflexivity.
Qed.
Lemma float_read_len n bs v r : float_read n bs = Done v r -> len r = len bs - Z.of_nat n.
Proof. unfold float_read. intros H. inv_obind H. injection H as _ <-. apply rd_next_len in Ho. lia. Qed.
Lemma string_read_len bs v r : string_read bs = Done v r -> len r < len bs.
Proof. unfold string_read. intros H. inv_obind H. apply rd_varint_shorter in Ho. destruct (a <? 0); [discriminate|]. apply rd_next_len in H. lia. Qed.
Lemma bytes_read_len bs v r : bytes_read bs = Done v r -> len r < len bs.
Proof.
  unfold bytes_read. intros H. inv_obind H. apply rd_varint_shorter in Ho. destruct (a =? 0); [injection H as _ <-; exact Ho|].
  inv_obind H. injection H as _ <-. apply rd_next_len in Ho0. lia.
Qed.
Lemma bool_read_len bs v r : bool_read bs = Done v r -> len r = len bs - 1.
Proof. unfold bool_read. destruct bs as [|x bs']; [discriminate|]. cbn [rd_byte obind]. intros H. injection H as _ <-. unfold len. cbn [length]. lia. Qed.
Lemma time_string_read_len dest bs v r : time_string_read dest bs = Done v r -> len r < len bs.
Proof.
  unfold time_string_read. intros H. inv_obind H. apply rd_varint_shorter in Ho. destruct (a =? 0); [injection H as _ <-; exact Ho|].
  inv_obind H. apply rd_next_len in Ho0. destruct (parse_time a0); try discriminate. injection H as _ <-. lia.
Qed.

Ltac prim_nf := match goal with |- ?x <> Fuel => let E := fresh in destruct x eqn:E; try discriminate end.

Lemma int_read_nf w bs : int_read w bs <> Fuel.
Proof. unfold int_read. destruct (dec_varint bs) as [[i r]| |]; try discriminate. destruct (int_fits w i); discriminate. Qed.
Lemma rd_next_nf l bs : rd_next l bs <> Fuel.
Proof. unfold rd_next. destruct ((l <? 0) || (len bs <? l)); discriminate. Qed.
Lemma obind_nf {A B} (o : out A) (k : A -> bytes -> out B) :
  o <> Fuel -> (forall a r, o = Done a r -> k a r <> Fuel) -> obind o k <> Fuel.
Proof. intros Ho Hk. destruct o; cbn [obind]; try discriminate; [apply Hk; reflexivity|contradiction]. Qed.
Lemma float_read_nf n bs : float_read n bs <> Fuel.
Proof. unfold float_read. apply obind_nf; [apply rd_next_nf|discriminate]. Qed.
Lemma rd_varint_nf bs : rd_varint bs <> Fuel.
Proof. unfold rd_varint. destruct (dec_varint bs) as [[v r]| |]; discriminate. Qed.
Lemma string_read_nf bs : string_read bs <> Fuel.
Proof. unfold string_read. apply obind_nf; [apply rd_varint_nf|]. intros l r _. destruct (l <? 0); [discriminate|apply rd_next_nf]. Qed.
Lemma bool_read_nf bs : bool_read bs <> Fuel.
Proof. unfold bool_read. destruct bs; discriminate. Qed.
Lemma bytes_read_nf bs : bytes_read bs <> Fuel.
Proof.
  unfold bytes_read. apply obind_nf; [apply rd_varint_nf|]. intros l r _. destruct (l =? 0); [discriminate|].
  apply obind_nf; [apply rd_next_nf|discriminate].
Qed.
Lemma time_string_read_nf dest bs : time_string_read dest bs <> Fuel.
Proof.
  unfold time_string_read. apply obind_nf; [apply rd_varint_nf|]. intros l r _. destruct (l =? 0); [discriminate|].
  apply obind_nf; [apply rd_next_nf|]. intros data r' _. destruct (parse_time data); discriminate.
Qed.

(* progress of the reader *)
Theorem read_progress fuel : forall c dest bs v r, nzw c -> c_read fuel c dest bs = Done v r -> len r + min_bytes c <= len bs.
Proof.
  induction c using codec_ind'; intros dest bs v r Hz Hs.
  - cbn in Hs. injection Hs as _ <-. cbn. lia.
  - cbn [c_read] in Hs. inv_obind Hs. injection Hs as _ <-. apply bool_read_len in Ho. cbn. lia.
  - cbn [c_read] in Hs. inv_obind Hs. injection Hs as _ <-. apply int_read_len in Ho. cbn. lia.
  - cbn [c_read] in Hs. inv_obind Hs. injection Hs as _ <-. apply float_read_len in Ho. cbn. lia.
  - cbn [c_read] in Hs. inv_obind Hs. injection Hs as _ <-. apply float_read_len in Ho. cbn. lia.
  - cbn [c_read] in Hs. unfold f32d_read in Hs. inv_obind Hs. inv_obind Ho. injection Ho as _ <-. injection Hs as _ <-. apply float_read_len in Ho0. cbn. lia.
  - cbn [c_read] in Hs. inv_obind Hs. injection Hs as _ <-. apply bytes_read_len in Ho. cbn. lia.
  - cbn [c_read] in Hs. inv_obind Hs. injection Hs as _ <-. apply string_read_len in Ho. cbn. lia.
  - cbn [c_read] in Hs. unfold fixed_read in Hs. inv_obind Hs. injection Hs as _ <-. apply rd_next_len in Ho. cbn [min_bytes]. lia.
  - (* record *)
    destruct dest; try discriminate. rewrite c_read_record_eq in Hs. inv_obind Hs. injection Hs as _ <-.
    rewrite nzw_record in Hz. rewrite min_record. clear v.
    revert fs0 bs a Ho Hz. induction H as [|[fc tgt] l Hx _ IH]; intros vs bs a Ho Hz; cbn [read_fields min_fields nzw_fields] in *.
    + injection Ho as _ <-. lia.
    + destruct Hz as [Hz1 Hz2]. cbn [fst] in Hx. destruct tgt as [j|].
      * inv_obind Ho. pose proof (Hx _ _ _ _ Hz1 Ho0). specialize (IH _ _ _ Ho Hz2). lia.
      * inv_obind Ho. destruct a0. pose proof (skip_progress fuel _ _ _ Hz1 Ho0). specialize (IH _ _ _ Ho Hz2). lia.
  - (* array *)
    destruct Hz as [Hz Hm]. cbn [min_bytes]. cbn [c_read] in Hs. destruct dest; try discriminate.
    + inv_obind Hs. injection Hs as _ <-.
      match type of Ho with blocks false ?it _ _ _ = _ =>
        assert (Hp : forall a0 b0 a' r', it a0 b0 = Done a' r' -> len r' < len b0) end.
      { intros a0 b0 a' r' E. inv_obind E. injection E as _ <-. pose proof (IHc _ _ _ _ Hz Ho0). lia. }
      pose proof (proj1 (blocks_items_progress _ Hp fuel) _ _ _ _ Ho). lia.
    + inv_obind Hs. injection Hs as _ <-.
      match type of Ho with blocks false ?it _ _ _ = _ =>
        assert (Hp : forall a0 b0 a' r', it a0 b0 = Done a' r' -> len r' < len b0) end.
      { intros a0 b0 a' r' E. inv_obind E. injection E as _ <-. pose proof (IHc _ _ _ _ Hz Ho0). lia. }
      pose proof (proj1 (blocks_items_progress _ Hp fuel) _ _ _ _ Ho). lia.
  - (* map *)
    cbn [min_bytes]. cbn [nzw] in Hz. rewrite c_read_map_eq in Hs. destruct (map_start dest) as [kvs0|]; [|discriminate].
    inv_obind Hs. injection Hs as _ <-.
    assert (Hp : forall a0 b0 a' r', read_mitem fuel c z a0 b0 = Done a' r' -> len r' < len b0).
    { intros a0 b0 a' r' E. unfold read_mitem in E. inv_obind E. inv_obind E. injection E as _ <-.
      apply string_read_len in Ho0. pose proof (IHc _ _ _ _ Hz Ho1). pose proof (min_bytes_nonneg c). lia. }
    pose proof (proj1 (blocks_items_progress _ Hp fuel) _ _ _ _ Ho). lia.
  - (* ptr *) cbn [c_read] in Hs. destruct dest; try discriminate. inv_obind Hs. injection Hs as _ <-. cbn [min_bytes nzw] in *. eauto.
  - (* union *)
    rewrite c_read_union_eq in Hs. rewrite nzw_union in Hz. cbn [min_bytes]. inv_obind Hs. apply rd_varint_shorter in Ho.
    destruct ((a <? 0) || (Z.of_nat (length cs) <=? a)); [discriminate|].
    assert (len r <= len r0); [|lia].
    revert Hs. generalize (Z.to_nat a). revert Hz. induction H as [|x l Hx _ IH]; intros Hz i Hs; [destruct i; discriminate|].
    destruct Hz as [Hz1 Hz2]. destruct i; cbn [read_pick] in Hs.
    + pose proof (Hx _ _ _ _ Hz1 Hs). pose proof (min_bytes_nonneg x). lia.
    + eapply IH; eauto.
  - cbn [c_read] in Hs. cbn [min_bytes nzw] in *. inv_obind Hs. destruct bs as [|b0 bs']; [discriminate|]. cbn in Ho. injection Ho as <- <-.
    unfold len in *. cbn [length]. destruct (2 <=? b0 / 2); [discriminate|]. destruct (b0 / 2 =? nn).
    + pose proof (IHc _ _ _ _ Hz Hs). pose proof (min_bytes_nonneg c). unfold len in *. lia.
    + injection Hs as _ <-. lia.
  - cbn [c_read] in Hs. cbn [min_bytes]. inv_obind Hs. destruct bs as [|b0 bs']; [discriminate|]. cbn in Ho. injection Ho as <- <-.
    unfold len in *. cbn [length]. destruct (2 <=? b0 / 2); [discriminate|]. destruct (b0 / 2 =? nn).
    + inv_obind Hs. injection Hs as _ <-. apply string_read_len in Ho. unfold len in *. lia.
    + injection Hs as _ <-. lia.
  - cbn [c_read] in Hs. apply time_string_read_len in Hs. cbn. lia.
  - cbn [c_read] in Hs. inv_obind Hs. injection Hs as _ <-. apply int_read_len in Ho. cbn. lia.
  - cbn [c_read] in Hs. inv_obind Hs. injection Hs as _ <-. apply int_read_len in Ho. cbn. lia.
  - cbn [c_read] in Hs. inv_obind Hs. injection Hs as _ <-. apply int_read_len in Ho. cbn. lia.
  - cbn [c_read] in Hs. inv_obind Hs. injection Hs as _ <-. apply bool_read_len in Ho. cbn. lia.
  - cbn [c_read] in Hs. inv_obind Hs. injection Hs as _ <-. apply float_read_len in Ho. cbn. lia.
  - cbn [c_read] in Hs. inv_obind Hs. injection Hs as _ <-. apply float_read_len in Ho. cbn. lia.
  - cbn [c_read] in Hs. inv_obind Hs. injection Hs as _ <-. apply string_read_len in Ho. cbn. lia.
  - cbn [c_read] in Hs. inv_obind Hs. injection Hs as _ <-. apply time_string_read_len in Ho. cbn. lia.
  - cbn [c_read] in Hs. inv_obind Hs. injection Hs as _ <-. cbn [min_bytes nzw] in *. eauto.
Qed.

Theorem read_terminates fuel : forall c dest bs, nzw c -> (2 * length bs + 2 <= fuel)%nat -> c_read fuel c dest bs <> Fuel.
Proof.
  induction c using codec_ind'; intros dest bs Hz Hf.
  - discriminate.
  - cbn [c_read]. apply obind_nf; [apply bool_read_nf|discriminate].
  - cbn [c_read]. apply obind_nf; [apply int_read_nf|discriminate].
  - cbn [c_read]. apply obind_nf; [apply float_read_nf|discriminate].
  - cbn [c_read]. apply obind_nf; [apply float_read_nf|discriminate].
  - cbn [c_read]. unfold f32d_read. apply obind_nf; [apply obind_nf; [apply float_read_nf|discriminate]|discriminate].
  - cbn [c_read]. apply obind_nf; [apply bytes_read_nf|discriminate].
  - cbn [c_read]. apply obind_nf; [apply string_read_nf|discriminate].
  - cbn [c_read]. unfold fixed_read. apply obind_nf; [apply rd_next_nf|discriminate].
  - (* record *)
    destruct dest; try discriminate. rewrite c_read_record_eq. apply obind_nf; [|discriminate].
    rewrite nzw_record in Hz. revert fs0 bs Hf Hz. induction H as [|[fc tgt] l Hx _ IH]; intros vs bs Hf Hz; cbn [read_fields nzw_fields] in *; [discriminate|].
    destruct Hz as [Hz1 Hz2]. cbn [fst] in Hx. destruct tgt as [j|].
    + destruct (c_read fuel fc (nth j vs VBad) bs) as [v1 r1| | |] eqn:E; cbn [obind]; try discriminate.
      * pose proof (read_progress fuel _ _ _ _ _ Hz1 E). pose proof (min_bytes_nonneg fc). unfold len in *. apply IH; [lia|exact Hz2].
      * exfalso. exact (Hx _ _ Hz1 Hf E).
    + destruct (c_skip fuel fc bs) as [[] r1| | |] eqn:E; cbn [obind]; try discriminate.
      * pose proof (skip_progress fuel _ _ _ Hz1 E). pose proof (min_bytes_nonneg fc). unfold len in *. apply IH; [lia|exact Hz2].
      * exfalso. exact (skip_terminates fuel _ _ Hz1 Hf E).
  - (* array *)
    destruct Hz as [Hz Hm]. cbn [c_read]. destruct dest; try discriminate.
    + apply obind_nf; [|discriminate].
      match goal with |- blocks false ?it _ ?acc _ <> Fuel =>
        refine (proj1 (blocks_items_no_fuel it (len bs) _ _ fuel) acc bs _ _); try lia end.
      * intros a b0 Hl. apply obind_nf; [|discriminate]. apply IHc; [exact Hz|]. unfold len in Hl. lia.
      * intros a b0 a' r' E. inv_obind E. injection E as _ <-. pose proof (read_progress fuel _ _ _ _ _ Hz Ho). lia.
    + apply obind_nf; [|discriminate].
      match goal with |- blocks false ?it _ ?acc _ <> Fuel =>
        refine (proj1 (blocks_items_no_fuel it (len bs) _ _ fuel) acc bs _ _); try lia end.
      * intros a b0 Hl. apply obind_nf; [|discriminate]. apply IHc; [exact Hz|]. unfold len in Hl. lia.
      * intros a b0 a' r' E. inv_obind E. injection E as _ <-. pose proof (read_progress fuel _ _ _ _ _ Hz Ho). lia.
  - (* map *)
    cbn [nzw] in Hz. rewrite c_read_map_eq. destruct (map_start dest) as [kvs0|]; [|discriminate].
    apply obind_nf; [|discriminate].
    refine (proj1 (blocks_items_no_fuel (read_mitem fuel c z) (len bs) _ _ fuel) kvs0 bs _ _); try lia.
    + intros a b0 Hl. unfold read_mitem. apply obind_nf; [apply string_read_nf|]. intros k r E.
      apply string_read_len in E. apply obind_nf; [|discriminate]. apply IHc; [exact Hz|]. unfold len in *. lia.
    + intros a b0 a' r' E. unfold read_mitem in E. inv_obind E. inv_obind E. injection E as _ <-.
      apply string_read_len in Ho. pose proof (read_progress fuel _ _ _ _ _ Hz Ho0). pose proof (min_bytes_nonneg c). lia.
  - (* ptr *) cbn [c_read]. destruct dest; try discriminate. apply obind_nf; [|discriminate]. cbn [nzw] in Hz. apply IHc; assumption.
  - (* union *)
    rewrite c_read_union_eq. rewrite nzw_union in Hz. apply obind_nf; [apply rd_varint_nf|].
    intros idx r E. apply rd_varint_shorter in E. destruct ((idx <? 0) || (Z.of_nat (length cs) <=? idx)); [discriminate|].
    generalize (Z.to_nat idx). revert Hz. induction H as [|x l Hx _ IH]; intros Hz i; [destruct i; discriminate|].
    destruct Hz as [Hz1 Hz2]. destruct i; cbn [read_pick]; [apply Hx; [exact Hz1|unfold len in *; lia]|apply IH; exact Hz2].
  - cbn [c_read]. cbn [nzw] in Hz. apply obind_nf; [destruct bs; discriminate|]. intros sel r E.
    destruct bs as [|b0 bs']; [discriminate|]. cbn in E. injection E as <- <-. cbn [length] in Hf.
    destruct (2 <=? b0 / 2); [discriminate|]. destruct (b0 / 2 =? nn); [apply IHc; [exact Hz|lia]|discriminate].
  - cbn [c_read]. apply obind_nf; [destruct bs; discriminate|]. intros sel r E.
    destruct (2 <=? sel / 2); [discriminate|]. destruct (sel / 2 =? nn); [|discriminate].
    apply obind_nf; [apply string_read_nf|discriminate].
  - cbn [c_read]. apply time_string_read_nf.
  - cbn [c_read]. apply obind_nf; [apply int_read_nf|discriminate].
  - cbn [c_read]. apply obind_nf; [apply int_read_nf|discriminate].
  - cbn [c_read]. apply obind_nf; [apply int_read_nf|discriminate].
  - cbn [c_read]. apply obind_nf; [apply bool_read_nf|discriminate].
  - cbn [c_read]. apply obind_nf; [apply float_read_nf|discriminate].
  - cbn [c_read]. apply obind_nf; [apply float_read_nf|discriminate].
  - cbn [c_read]. apply obind_nf; [apply string_read_nf|discriminate].
  - cbn [c_read]. apply obind_nf; [apply time_string_read_nf|discriminate].
  - cbn [c_read]. cbn [nzw] in Hz. apply obind_nf; [apply IHc; assumption|discriminate].
Qed.
