(* Proofs about the varint primitive (Model/Base.v). *)
From Coq Require Import List ZArith Lia Bool ZifyBool ZifyNat.
Require Import Avro.Model.Base.
Import ListNotations.
Open Scope Z_scope.
Ltac Zify.zify_post_hook ::= Z.div_mod_to_equations.

Lemma unzigzag_zigzag v : unzigzag (zigzag v) = v.
Proof.
  unfold unzigzag, zigzag. destruct (v <? 0) eqn:E.
  - replace (-2 * v - 1) with (1 + 2 * (-v - 1)) by lia.
    rewrite Z.even_add_mul_2. change (Z.even 1) with false. cbv iota. lia.
  - rewrite Z.even_mul. change (Z.even 2) with true. cbv iota. rewrite orb_true_l. lia.
Qed.

Lemma zigzag_range v : int64_ok v -> 0 <= zigzag v < two64.
Proof. unfold int64_ok, two63, zigzag, two64. destruct (v <? 0) eqn:E; lia. Qed.

(* generalised round trip: decoding from state (i, 128^i, x) *)
Lemma dec_enc_uvarint : forall f n i x rest,
  0 <= n < 2 ^ (7 * Z.of_nat (S f)) ->
  (i + S f = 10)%nat ->
  0 <= x < 2 ^ (7 * Z.of_nat i) ->
  x + n * 2 ^ (7 * Z.of_nat i) < two64 ->
  dec_uvarint (enc_uvarint (S f) n ++ rest) i (2 ^ (7 * Z.of_nat i)) x
  = VOk (x + n * 2 ^ (7 * Z.of_nat i), rest).
Proof.
  induction f as [|f IH]; intros n i x rest Hn Hi Hx Hlt.
  - (* single group left: n < 128 *)
    change (2 ^ (7 * Z.of_nat 1)) with 128 in Hn.
    cbn [enc_uvarint]. destruct (n <? 128) eqn:E; [|lia].
    cbn [app dec_uvarint]. rewrite E.
    assert (i = 9)%nat by lia. subst i. cbn [Nat.ltb Nat.leb Nat.eqb orb andb].
    assert (n <= 1). { change (7 * Z.of_nat 9) with 63 in *. unfold two64 in Hlt. nia. }
    destruct (1 <? n) eqn:E3; [lia|].
    assert (0 < 2 ^ (7 * Z.of_nat 9)) by (apply Z.pow_pos_nonneg; lia).
    rewrite Z.mod_small by nia. reflexivity.
  - assert (Hp0 : 0 < 2 ^ (7 * Z.of_nat i)) by (apply Z.pow_pos_nonneg; lia).
    assert (Hpow : 2 ^ (7 * Z.of_nat (S i)) = 2 ^ (7 * Z.of_nat i) * 128).
    { replace (7 * Z.of_nat (S i)) with (7 * Z.of_nat i + 7) by lia.
      rewrite Z.pow_add_r by lia. reflexivity. }
    remember (S f) as g eqn:Hg.
    cbn [enc_uvarint]. destruct (n <? 128) eqn:E.
    + cbn [app dec_uvarint]. rewrite E.
      destruct (Nat.ltb 9 i) eqn:E1; [apply Nat.ltb_lt in E1; lia|].
      destruct (Nat.eqb i 9) eqn:E2; [apply Nat.eqb_eq in E2; lia|].
      cbn [orb andb]. rewrite Z.mod_small by nia. reflexivity.
    + cbn [app dec_uvarint].
      destruct (n mod 128 + 128 <? 128) eqn:E0; [lia|].
      replace (n mod 128 + 128 - 128) with (n mod 128) by lia.
      rewrite <- Hpow.
      rewrite Z.mod_small by nia.
      subst g. rewrite IH.
      * f_equal. f_equal. rewrite Hpow. nia.
      * replace (7 * Z.of_nat (S (S f))) with (7 * Z.of_nat (S f) + 7) in Hn by lia.
        rewrite Z.pow_add_r in Hn by lia. change (2^7) with 128 in Hn. lia.
      * lia.
      * rewrite Hpow. nia.
      * rewrite Hpow. nia.
Qed.

Theorem dec_enc_varint v rest :
  int64_ok v -> dec_varint (enc_varint v ++ rest) = VOk (v, rest).
Proof.
  intros Hv. unfold dec_varint, enc_varint.
  pose proof (zigzag_range v Hv) as Hz.
  pose proof (dec_enc_uvarint 9 (zigzag v) 0 0 rest) as H.
  change (enc_uvarint 10) with (enc_uvarint 10) in H.
  change (2 ^ (7 * Z.of_nat 0)) with 1 in H.
  rewrite H; try lia.
  - rewrite Z.mul_1_r, Z.add_0_l, unzigzag_zigzag. reflexivity.
  - unfold two64 in Hz. change (7 * Z.of_nat 10) with 70. lia.
Qed.

Lemma enc_uvarint_len fuel n : (length (enc_uvarint fuel n) <= fuel)%nat.
Proof. revert n; induction fuel as [|f IH]; intros n; cbn; [lia|]. destruct (n <? 128); cbn; [lia|]. specialize (IH (n/128)). lia. Qed.
