(* Generic facts about the block loop combinators (Model/Blocks.v):
   readers consume a prefix; the library's lax loop simulates the strict
   reference loop; skipping lands exactly where strict decoding does. *)
From Coq Require Import List ZArith Lia Bool ZifyBool ZifyNat.
Require Import Avro.Model.Base Avro.Model.Prim Avro.Model.Blocks.
Require Import Avro.Proofs.ListFacts Avro.Proofs.VarintP Avro.Proofs.VarintMore Avro.Proofs.PrimP.
Import ListNotations.
Open Scope Z_scope.

(* ---- suffixes ---- *)
Definition suffix (r bs : bytes) : Prop := exists p, bs = p ++ r.

Lemma suffix_refl bs : suffix bs bs.
Proof. exists []. reflexivity. Qed.
Lemma suffix_trans a b0 c : suffix a b0 -> suffix b0 c -> suffix a c.
Proof. intros [p ->] [q ->]. exists (q ++ p). rewrite app_assoc. reflexivity. Qed.
Lemma suffix_cons x bs : suffix bs (x :: bs).
Proof. exists [x]. reflexivity. Qed.
Lemma suffix_len r bs : suffix r bs -> len r <= len bs.
Proof. intros [p ->]. unfold len. rewrite app_length. lia. Qed.
Lemma suffix_skipn n (bs : bytes) : suffix (skipn n bs) bs.
Proof. exists (firstn n bs). symmetry. apply firstn_skipn. Qed.

(* a suffix is determined by its length *)
Lemma suffix_by_len r1 r2 bs : suffix r1 bs -> suffix r2 bs -> len r1 = len r2 -> r1 = r2.
Proof.
  intros [p ->] [q Hq] Hl. unfold len in Hl.
  assert (length p = length q).
  { apply (f_equal (@length Z)) in Hq. rewrite !app_length in Hq. lia. }
  apply (f_equal (skipn (length p))) in Hq.
  rewrite skipn_len_app in Hq. rewrite H in Hq. rewrite skipn_len_app in Hq. exact Hq.
Qed.

Lemma suffix_eq_skipn r bs : suffix r bs -> r = skipn (length bs - length r) bs.
Proof.
  intros [p ->]. rewrite app_length. replace (length p + length r - length r)%nat with (length p) by lia.
  symmetry. apply skipn_len_app.
Qed.

Lemma rd_varint_suffix bs v r : rd_varint bs = Done v r -> suffix r bs.
Proof.
  unfold rd_varint, dec_varint. destruct (dec_uvarint bs 0 1 0) as [[u r']| |] eqn:E; try discriminate.
  intros H. injection H as _ <-.
  destruct (dec_uvarint_ok_inv _ _ _ _ _ _ E) as (c & b & -> & _).
  exists (c ++ [b]). rewrite <- app_assoc. reflexivity.
Qed.

Lemma rd_varint_shorter bs v r : rd_varint bs = Done v r -> len r < len bs.
Proof.
  unfold rd_varint, dec_varint. destruct (dec_uvarint bs 0 1 0) as [[u r']| |] eqn:E; try discriminate.
  intros H. injection H as _ <-.
  destruct (dec_uvarint_ok_inv _ _ _ _ _ _ E) as (c & b & -> & _).
  unfold len. rewrite app_length. cbn [length]. lia.
Qed.

Lemma rd_varint_canon_rd bs v r : rd_varint_canon bs = Done v r -> rd_varint bs = Done v r.
Proof.
  unfold rd_varint_canon. destruct (rd_varint bs) as [v' r'| | |]; cbn [obind]; try discriminate.
  destruct (bytes_eqb _ _); [|discriminate]. auto.
Qed.

Lemma rdv_rd strict bs v r : rdv strict bs = Done v r -> rd_varint bs = Done v r.
Proof. unfold rdv. destruct strict; auto using rd_varint_canon_rd. Qed.

Lemma rdv_suffix strict bs v r : rdv strict bs = Done v r -> suffix r bs.
Proof. intros H. apply rdv_rd in H. eapply rd_varint_suffix; eauto. Qed.

Lemma rd_byte_suffix bs v r : rd_byte bs = Done v r -> suffix r bs.
Proof. destruct bs; cbn; [discriminate|]. intros H. injection H as _ <-. apply suffix_cons. Qed.

Lemma rd_next_suffix l bs v r : rd_next l bs = Done v r -> suffix r bs.
Proof.
  unfold rd_next. destruct ((l <? 0) || (len bs <? l)); [discriminate|].
  intros H. injection H as _ <-. apply suffix_skipn.
Qed.

Lemma rd_next_inv l bs v r : rd_next l bs = Done v r ->
  0 <= l <= len bs /\ v = firstn (Z.to_nat l) bs /\ r = skipn (Z.to_nat l) bs /\ bs = v ++ r /\ len v = l.
Proof.
  unfold rd_next. destruct ((l <? 0) || (len bs <? l)) eqn:E; [discriminate|].
  intros H. injection H as <- <-. repeat split; try lia.
  - symmetry. apply firstn_skipn.
  - unfold len in *. rewrite firstn_length. lia.
Qed.

Lemma rd_skipn_inv l bs r : rd_skipn l bs = Done tt r -> 0 <= l <= len bs /\ r = skipn (Z.to_nat l) bs.
Proof.
  unfold rd_skipn. destruct (rd_next l bs) as [v r'| | |] eqn:E; cbn; try discriminate.
  intros H. injection H as <-. destruct (rd_next_inv _ _ _ _ E) as (? & _ & ? & _). auto.
Qed.

Lemma rd_skipn_ok l bs : 0 <= l <= len bs -> rd_skipn l bs = Done tt (skipn (Z.to_nat l) bs).
Proof.
  intros H. unfold rd_skipn, rd_next. replace ((l <? 0) || (len bs <? l)) with false by lia. reflexivity.
Qed.

(* obind inversion *)
Lemma obind_done {A B} (o : out A) (k : A -> bytes -> out B) v r :
  obind o k = Done v r -> exists a r0, o = Done a r0 /\ k a r0 = Done v r.
Proof. destruct o; cbn; try discriminate. intros H. eauto. Qed.

Ltac inv_obind H :=
  let a := fresh "a" in let r0 := fresh "r" in let H1 := fresh "Ho" in
  apply obind_done in H; destruct H as (a & r0 & H1 & H).

(* ---- the loop consumes a prefix ---- *)
Section Suffix.
  Context {A : Type} (strict : bool) (item : A -> bytes -> out A).
  Hypothesis Hitem : forall a bs a' r, item a bs = Done a' r -> suffix r bs.

  Lemma blocks_items_suffix : forall fuel,
    (forall a bs a' r, blocks strict item fuel a bs = Done a' r -> suffix r bs) /\
    (forall n e a bs a' r, items strict item fuel n e a bs = Done a' r -> suffix r bs).
  Proof.
    induction fuel as [|f [IHb IHi]]; [split; intros; discriminate|]. split.
    - intros a bs a' r H. cbn [blocks] in H. inv_obind H.
      pose proof (rdv_suffix _ _ _ _ Ho) as S1.
      destruct (a0 =? 0).
      + injection H as _ <-. exact S1.
      + destruct (a0 <? 0).
        * inv_obind H. pose proof (rdv_suffix _ _ _ _ Ho0) as S2.
          destruct strict.
          -- destruct ((a0 =? - two63) || (a1 <? 0) || (len r1 <? a1)); [discriminate|].
             apply IHi in H. eauto using suffix_trans.
          -- apply IHi in H. eauto using suffix_trans.
        * apply IHi in H. eauto using suffix_trans.
    - intros n e a bs a' r H. cbn [items] in H. destruct (n <=? 0).
      + destruct e as [e|].
        * destruct (len bs =? e); [|discriminate]. eauto.
        * eauto.
      + inv_obind H. apply Hitem in Ho. apply IHi in H. eauto using suffix_trans.
  Qed.

  Lemma blocks_suffix fuel a bs a' r : blocks strict item fuel a bs = Done a' r -> suffix r bs.
  Proof. apply blocks_items_suffix. Qed.
End Suffix.

(* ---- the loop depends on the item function only extensionally ---- *)
Section Ext.
  Context {A : Type} (strict : bool) (item1 item2 : A -> bytes -> out A).
  Hypothesis Hext : forall a bs, item1 a bs = item2 a bs.
  Lemma blocks_items_ext : forall fuel,
    (forall a bs, blocks strict item1 fuel a bs = blocks strict item2 fuel a bs) /\
    (forall n e a bs, items strict item1 fuel n e a bs = items strict item2 fuel n e a bs).
  Proof.
    induction fuel as [|f [IHb IHi]]; [split; reflexivity|]. split.
    - intros a bs. cbn [blocks]. destruct (rdv strict bs) as [cnt r| | |]; cbn [obind]; try reflexivity.
      destruct (cnt =? 0); [reflexivity|]. destruct (cnt <? 0); [|apply IHi].
      destruct (rdv strict r) as [sz r'| | |]; cbn [obind]; try reflexivity.
      destruct strict; [|apply IHi]. destruct ((cnt =? - two63) || (sz <? 0) || (len r' <? sz)); [reflexivity|apply IHi].
    - intros n e a bs. cbn [items]. destruct (n <=? 0).
      + destruct e as [e|]; [destruct (len bs =? e); [apply IHb|reflexivity]|apply IHb].
      + rewrite Hext. destruct (item2 a bs); cbn [obind]; try reflexivity. apply IHi.
  Qed.
  Lemma blocks_ext fuel a bs : blocks strict item1 fuel a bs = blocks strict item2 fuel a bs.
  Proof. apply blocks_items_ext. Qed.
End Ext.

(* ---- lax loop simulates the strict loop ---- *)
Section Sim.
  Context {A B : Type} (R : A -> B -> Prop).
  Variables (item1 : A -> bytes -> out A) (item2 : B -> bytes -> out B).
  Hypothesis Hitem : forall a b0 bs a' r, R a b0 -> item1 a bs = Done a' r ->
    exists b', item2 b0 bs = Done b' r /\ R a' b'.

  Lemma blocks_items_sim : forall fuel,
    (forall a b0 bs a' r, R a b0 -> blocks true item1 fuel a bs = Done a' r ->
       exists b', blocks false item2 fuel b0 bs = Done b' r /\ R a' b') /\
    (forall n e a b0 bs a' r, R a b0 -> items true item1 fuel n e a bs = Done a' r ->
       exists b', items false item2 fuel n None b0 bs = Done b' r /\ R a' b').
  Proof.
    induction fuel as [|f [IHb IHi]]; [split; intros; discriminate|]. split.
    - intros a b0 bs a' r HR H. cbn [blocks] in *. inv_obind H.
      rewrite (rdv_rd _ _ _ _ Ho : rdv false bs = _). cbn [obind].
      destruct (a0 =? 0).
      + injection H as <- <-. eauto.
      + destruct (a0 <? 0).
        * inv_obind H. rewrite (rdv_rd _ _ _ _ Ho0 : rdv false r0 = _). cbn [obind].
          destruct (a0 =? - two63) eqn:Emin; cbn [orb] in H; [discriminate|].
          destruct ((a1 <? 0) || (len r1 <? a1)); [discriminate|].
          eapply IHi; eauto.
        * eapply IHi; eauto.
    - intros n e a b0 bs a' r HR H. cbn [items] in *. destruct (n <=? 0).
      + destruct e as [e|].
        * destruct (len bs =? e); [|discriminate]. eapply IHb; eauto.
        * eapply IHb; eauto.
      + inv_obind H. destruct (Hitem _ _ _ _ _ HR Ho) as (b' & Hb & HR'). rewrite Hb. cbn [obind].
        eapply IHi; eauto.
  Qed.

  Lemma blocks_sim fuel a b0 bs a' r : R a b0 -> blocks true item1 fuel a bs = Done a' r ->
    exists b', blocks false item2 fuel b0 bs = Done b' r /\ R a' b'.
  Proof. apply blocks_items_sim. Qed.
End Sim.

(* ---- skipping lands where strict decoding does ---- *)
Section SkipSim.
  Context {A : Type}.
  Variables (item1 : A -> bytes -> out A) (skip_item : bytes -> out unit).
  Hypothesis Hsuf : forall a bs a' r, item1 a bs = Done a' r -> suffix r bs.
  Hypothesis Hskip : forall a bs a' r, item1 a bs = Done a' r -> skip_item bs = Done tt r.

  Lemma skip_mono : forall f,
    (forall bs r f', skip_blocks skip_item f bs = Done tt r -> (f <= f')%nat -> skip_blocks skip_item f' bs = Done tt r) /\
    (forall n bs r f', skip_items skip_item f n bs = Done tt r -> (f <= f')%nat -> skip_items skip_item f' n bs = Done tt r).
  Proof.
    induction f as [|f [IHb IHi]]; [split; intros; discriminate|]. split.
    - intros bs r f' H Hle. destruct f' as [|f']; [lia|]. cbn [skip_blocks] in *.
      inv_obind H. rewrite Ho. cbn [obind]. destruct (a =? 0); [exact H|].
      destruct (a <? 0).
      + inv_obind H. rewrite Ho0. cbn [obind]. inv_obind H. rewrite Ho1. cbn [obind].
        destruct a1. apply IHb; [exact H|lia].
      + apply IHi; [exact H|lia].
    - intros n bs r f' H Hle. destruct f' as [|f']; [lia|]. cbn [skip_items] in *.
      destruct (n <=? 0).
      + apply IHb; [exact H|lia].
      + inv_obind H. rewrite Ho. cbn [obind]. destruct a. apply IHi; [exact H|lia].
  Qed.

  (* where the strict item loop stands when its block ends *)
  Lemma items_sized_end : forall fuel n e a bs a' r,
    items true item1 fuel n (Some e) a bs = Done a' r ->
    e <= len bs /\ exists f' a'' mid, (f' < fuel)%nat /\ suffix mid bs /\ len mid = e /\
                     blocks true item1 f' a'' mid = Done a' r.
  Proof.
    induction fuel as [|f IH]; intros n e a bs a' r H; [discriminate|].
    cbn [items] in H. destruct (n <=? 0).
    - destruct (len bs =? e) eqn:El; [|discriminate]. split; [lia|].
      exists f, a, bs. repeat split; auto using suffix_refl; lia.
    - inv_obind H. pose proof (Hsuf _ _ _ _ Ho) as S1.
      destruct (IH _ _ _ _ _ _ H) as (Hle & f' & a'' & mid & Hf & Hs & Hl & Hb).
      pose proof (suffix_len _ _ S1). split; [lia|].
      exists f', a'', mid. repeat split; eauto using suffix_trans; lia.
  Qed.

  Lemma blocks_items_skip : forall fuel,
    (forall a bs a' r, blocks true item1 fuel a bs = Done a' r -> skip_blocks skip_item fuel bs = Done tt r) /\
    (forall n a bs a' r, items true item1 fuel n None a bs = Done a' r -> skip_items skip_item fuel n bs = Done tt r).
  Proof.
    induction fuel as [fuel IH] using lt_wf_ind. destruct fuel as [|f]; [split; intros; discriminate|].
    split.
    - intros a bs a' r H. cbn [blocks skip_blocks] in *. inv_obind H. rewrite (rdv_rd _ _ _ _ Ho). cbn [obind].
      destruct (a0 =? 0); [injection H as _ <-; reflexivity|].
      destruct (a0 <? 0).
      + inv_obind H. rewrite (rdv_rd _ _ _ _ Ho0). cbn [obind].
        destruct ((a0 =? - two63) || (a1 <? 0) || (len r1 <? a1)) eqn:Eg; [discriminate|].
        destruct (items_sized_end _ _ _ _ _ _ _ H) as (Hle & f' & a'' & mid & Hf & Hs & Hl & Hb).
        rewrite rd_skipn_ok by lia. cbn [obind].
        assert (mid = skipn (Z.to_nat a1) r1) as <-.
        { apply (suffix_by_len _ _ r1); auto using suffix_skipn.
          unfold len in *. rewrite skipn_length. lia. }
        destruct (IH f' ltac:(lia)) as [IHb _].
        apply IHb in Hb. eapply (proj1 (skip_mono f')); [exact Hb|lia].
      + apply (proj2 (IH f ltac:(lia))) in H. exact H.
    - intros n a bs a' r H. cbn [items skip_items] in *. destruct (n <=? 0).
      + apply (proj1 (IH f ltac:(lia))) in H. exact H.
      + inv_obind H. rewrite (Hskip _ _ _ _ Ho). cbn [obind].
        apply (proj2 (IH f ltac:(lia))) in H. exact H.
  Qed.

  Lemma blocks_skip fuel a bs a' r :
    blocks true item1 fuel a bs = Done a' r -> skip_blocks skip_item fuel bs = Done tt r.
  Proof. apply blocks_items_skip. Qed.
End SkipSim.

(* ---- append-shaped items: both the reference decoder and the library's
   reader decode one item independently of the accumulator and append it ---- *)
Definition app_item {X} (f : bytes -> out X) (acc : list X) (bs : bytes) : out (list X) :=
  obind (f bs) (fun x r => Done (acc ++ [x]) r).

Fixpoint mapo {X Y} (conv : X -> option Y) (l : list X) {struct l} : option (list Y) :=
  match l with
  | [] => Some []
  | x :: r => match conv x, mapo conv r with
              | Some y, Some ys => Some (y :: ys)
              | _, _ => None end
  end.

Section SimList.
  Context {X Y : Type}.
  Variables (f1 : bytes -> out X) (f2 : bytes -> out Y) (conv : X -> option Y).
  Hypothesis Hf : forall bs x r y, f1 bs = Done x r -> conv x = Some y -> f2 bs = Done y r.

  Lemma blocks_items_simlist : forall fuel,
    (forall xs0 bs xsf r, blocks true (app_item f1) fuel xs0 bs = Done xsf r ->
       exists new, xsf = xs0 ++ new /\
         forall ys0 ysn, mapo conv new = Some ysn ->
           blocks false (app_item f2) fuel ys0 bs = Done (ys0 ++ ysn) r) /\
    (forall n e xs0 bs xsf r, items true (app_item f1) fuel n e xs0 bs = Done xsf r ->
       exists new, xsf = xs0 ++ new /\
         forall ys0 ysn, mapo conv new = Some ysn ->
           items false (app_item f2) fuel n None ys0 bs = Done (ys0 ++ ysn) r).
  Proof.
    induction fuel as [|f [IHb IHi]]; [split; intros; discriminate|]. split.
    - intros xs0 bs xsf r H. cbn [blocks] in H. inv_obind H.
      pose proof (rdv_rd _ _ _ _ Ho : rdv false bs = _) as Ho'.
      destruct (a =? 0) eqn:E0.
      + injection H as <- <-. exists []. split; [symmetry; apply app_nil_r|].
        intros ys0 ysn Hm. injection Hm as <-. cbn [blocks]. rewrite Ho'. cbn [obind]. rewrite E0, app_nil_r. reflexivity.
      + destruct (a <? 0) eqn:En.
        * inv_obind H. pose proof (rdv_rd _ _ _ _ Ho0 : rdv false r0 = _) as Ho0'.
          destruct (a =? - two63) eqn:Emin; cbn [orb] in H; [discriminate|].
          destruct ((a0 <? 0) || (len r1 <? a0)); [discriminate|].
          destruct (IHi _ _ _ _ _ _ H) as (new & -> & Hn). exists new. split; [reflexivity|].
          intros ys0 ysn Hm. cbn [blocks]. rewrite Ho'. cbn [obind]. rewrite E0, En, Ho0'. cbn [obind]. rewrite Emin. auto.
        * destruct (IHi _ _ _ _ _ _ H) as (new & -> & Hn). exists new. split; [reflexivity|].
          intros ys0 ysn Hm. cbn [blocks]. rewrite Ho'. cbn [obind]. rewrite E0, En. auto.
    - intros n e xs0 bs xsf r H. cbn [items] in H. destruct (n <=? 0) eqn:En.
      + assert (Hb : blocks true (app_item f1) f xs0 bs = Done xsf r).
        { destruct e as [e|]; [destruct (len bs =? e); [exact H|discriminate]|exact H]. }
        destruct (IHb _ _ _ _ Hb) as (new & -> & Hn). exists new. split; [reflexivity|].
        intros ys0 ysn Hm. cbn [items]. rewrite En. auto.
      + inv_obind H. unfold app_item in Ho. inv_obind Ho. injection Ho as <- <-.
        destruct (IHi _ _ _ _ _ _ H) as (new & -> & Hn). exists (a0 :: new). split; [rewrite <- app_assoc; reflexivity|].
        intros ys0 ysn Hm. cbn [mapo] in Hm. destruct (conv a0) as [y|] eqn:Ec; [|discriminate].
        destruct (mapo conv new) as [ys|] eqn:Em; [|discriminate]. injection Hm as <-.
        cbn [items]. rewrite En. unfold app_item at 1. rewrite (Hf _ _ _ _ Ho0 Ec). cbn [obind].
        rewrite (Hn (ys0 ++ [y]) ys eq_refl). rewrite <- app_assoc. reflexivity.
  Qed.

  Lemma blocks_simlist fuel bs xsf r ys0 ysf :
    blocks true (app_item f1) fuel [] bs = Done xsf r -> mapo conv xsf = Some ysf ->
    blocks false (app_item f2) fuel ys0 bs = Done (ys0 ++ ysf) r.
  Proof.
    intros H Hm. destruct (proj1 (blocks_items_simlist fuel) _ _ _ _ H) as (new & -> & Hn). cbn [app] in Hm. auto.
  Qed.
End SimList.
