(* Small list facts missing from the Coq 8.16 standard library. *)
From Coq Require Import List Lia.
Import ListNotations.

Lemma In_firstn {A} (x : A) n l : In x (firstn n l) -> In x l.
Proof.
  revert l; induction n as [|n IH]; intros [|a l] H; cbn in *; try contradiction.
  destruct H as [H|H]; [left; exact H|right; apply IH; exact H].
Qed.

Lemma In_skipn {A} (x : A) n l : In x (skipn n l) -> In x l.
Proof.
  revert l; induction n as [|n IH]; intros [|a l] H; cbn in *; try contradiction; auto.
Qed.

Lemma Forall_firstn {A} (P : A -> Prop) n l : Forall P l -> Forall P (firstn n l).
Proof. intros H. apply Forall_forall. intros x Hx. rewrite Forall_forall in H. apply H. eapply In_firstn; eauto. Qed.

Lemma Forall_skipn {A} (P : A -> Prop) n l : Forall P l -> Forall P (skipn n l).
Proof. intros H. apply Forall_forall. intros x Hx. rewrite Forall_forall in H. apply H. eapply In_skipn; eauto. Qed.

Lemma skipn_skipn {A} (n m : nat) (l : list A) : skipn n (skipn m l) = skipn (m + n) l.
Proof.
  revert l; induction m as [|m IH]; intros l; cbn [skipn Nat.add]; [reflexivity|].
  destruct l as [|a l]; [destruct n; reflexivity|apply IH].
Qed.
