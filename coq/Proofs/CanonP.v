(* Value-level round trip.  [apply_datum c dest (datum_of c s v)] is what
   reading back what was written yields (RoundTrip.write_then_read).  Here:
   that composition is the identity on every value in canonical form for its
   codec, where [canon] spells out, codec by codec, what "canonical" means; the
   values outside it are exactly the documented normalisations (lemmas at the
   end: nil map -> empty map, omitted -> destination's zero, invalid wrapper's
   payload dropped, times floored to the unit and moved to UTC, NaN payloads). *)
From Coq Require Import List ZArith Lia Bool ZifyBool ZifyNat.
Require Import Avro.Model.Base Avro.Model.Prim Avro.Model.Schema Avro.Model.GoType
               Avro.Model.Blocks Avro.Model.Time Avro.Model.Spec Avro.Model.Codec Avro.Model.Denote.
Require Import Avro.Proofs.ListFacts Avro.Proofs.BlocksP Avro.Proofs.CodecInd Avro.Proofs.FloatConv
               Avro.Proofs.ReadP Avro.Proofs.WriteP Avro.Proofs.TimeP Avro.Proofs.ProjectP.
Import ListNotations.
Open Scope Z_scope.

(* a time the RFC 3339 text codec carries exactly: years 0000..9999, whole-minute zone *)
Definition time_text_ok (t : timeval) : Prop :=
  match t with
  | TV us ns off => 0 <= ns < 1000000000 /\ off mod 60 = 0 /\ -360000 < off < 360000 /\
                    -62167219200 <= us + off < 253402300800
  end.

Definition targets (fs : list (codec * option nat)) : list nat :=
  flat_map (fun p => match snd p with Some j => [j] | None => [] end) fs.

Fixpoint canon (c : codec) (dest v : gval) {struct c} : Prop :=
  match c with
  | CNull => v = dest
  | CBool _ | CFloat _ | CDouble _ | CString _ | CFixed _ => True
  | CInt w _ => match v with VInt z => int_fits w z = true | _ => False end
  | CF32Double _ => match v with VF32 x => 0 <= x < 4294967296 /\ f32_is_nan x = false | _ => False end
  | CBytes _ => match v with VBytes [] => dest = VBytes [] | _ => True end
  | CRecord fs =>
      match v, dest with
      | VStruct vs, VStruct vs0 =>
          length vs = length vs0 /\ NoDup (targets fs) /\
          (forall k, ~ In k (targets fs) -> nth k vs VBad = nth k vs0 VBad) /\
          (fix go (l : list (codec * option nat)) {struct l} : Prop :=
             match l with
             | [] => True
             | (fc, Some j) :: l' => (j < length vs)%nat /\ canon fc (nth j vs0 VBad) (nth j vs VBad) /\ go l'
             | (_, None) :: l' => go l'
             end) fs
      | _, _ => False
      end
  | CArray ic iz _ =>
      dest = VSlice [] /\ match v with VSlice vs => Forall (canon ic iz) vs | _ => False end
  | CMap vc vz _ =>
      (dest = VMapNil \/ dest = VMap []) /\
      match v with VMap kvs => Forall (fun kv => canon vc vz (snd kv)) kvs | _ => False end
  | CPtr c' z =>
      match dest, v with
      | VPtr o, VPtr (Some x) => canon c' (match o with Some y => y | None => z end) x
      | _, _ => False
      end
  | CUnion _ => False
  | CUnionOne c' nn => if c_omit c' v then v = dest else canon c' dest v
  | CUnionStr om _ =>
      match v with
      | VStr x => if om && match x with [] => true | _ => false end then dest = VStr [] else True
      | _ => False
      end
  | CTimeString => match v with VTime t => time_text_ok t | _ => False end
  | CTimeLong mult =>
      unit_ok mult /\ match v with VTime t => exists l, int64_ok l /\ t = time_of_units mult l | _ => False end
  | CDate => match v with VTime t => exists n, int_fits 32 n = true /\ t = TV (86400 * n) 0 0 | _ => False end
  | CNullInt => exists z, v = VNullW true (VInt z)
  | CNullBool => exists x, v = VNullW true (VBool x)
  | CNullDouble => exists x, v = VNullW true (VF64 x)
  | CNullFloat => exists y, 0 <= y < 4294967296 /\ f32_is_nan y = false /\ v = VNullW true (VF64 (widen32 y))
  | CNullString => exists x, v = VNullW true (VStr x)
  | CNullTime => exists t, time_text_ok t /\ v = VNullW true (VTime t)
  | CCustom k c' => canon c' dest (cx k v)
  end.

Fixpoint canon_fields (vs0 vs : list gval) (l : list (codec * option nat)) {struct l} : Prop :=
  match l with
  | [] => True
  | (fc, Some j) :: l' => (j < length vs)%nat /\ canon fc (nth j vs0 VBad) (nth j vs VBad) /\ canon_fields vs0 vs l'
  | (_, None) :: l' => canon_fields vs0 vs l'
  end.

Lemma canon_record_iff fs vs vs0 :
  canon (CRecord fs) (VStruct vs0) (VStruct vs) <->
  (length vs = length vs0 /\ NoDup (targets fs) /\
   (forall k, ~ In k (targets fs) -> nth k vs VBad = nth k vs0 VBad) /\ canon_fields vs0 vs fs).
Proof.
  cbn [canon].
  assert (H : forall l,
    (fix go (l : list (codec * option nat)) {struct l} : Prop :=
       match l with
       | [] => True
       | (fc, Some j) :: l' => (j < length vs)%nat /\ canon fc (nth j vs0 VBad) (nth j vs VBad) /\ go l'
       | (_, None) :: l' => go l'
       end) l <-> canon_fields vs0 vs l).
  { induction l as [|[fc [j|]] l IH]; cbn [canon_fields]; [tauto| |exact IH]. rewrite IH. tauto. }
  rewrite (H fs). tauto.
Qed.

(* ---- times ---- *)
Lemma time_string_roundtrip dest t : time_text_ok t -> time_string_apply dest (render_time t) = Some (VTime t).
Proof.
  destruct t as [us ns off]. intros (Hn & Ho & Hr & Hy).
  pose proof (parse_render_time us ns off Hn Ho Hr Hy) as Hp.
  unfold time_string_apply. destruct (render_time (TV us ns off)) as [|x xs] eqn:E.
  - vm_compute in Hp. discriminate.
  - rewrite Hp. reflexivity.
Qed.

Lemma time_long_value_units mult l : unit_ok mult -> int64_ok l -> time_long_value mult (time_of_units mult l) = l.
Proof.
  intros Hu Hl. destruct Hu as [->|[->| ->]]; unfold time_of_units, time_of_ns, time_long_value; cbn [Z.eqb Pos.eqb].
  - rewrite Z.mul_1_r. rewrite (wrap64_id l Hl).
    replace (l / 1000000000 * 1000000000 + l mod 1000000000) with l by lia. apply wrap64_id. exact Hl.
  - replace (l / 1000000 * 1000000 + l mod 1000000 * 1000 / 1000) with l by lia. apply wrap64_id. exact Hl.
  - replace (l / 1000 * 1000 + l mod 1000 * 1000000 / 1000000) with l by lia. apply wrap64_id. exact Hl.
Qed.

(* ---- records ---- *)
Lemma targets_cons_some fc j l : targets ((fc, Some j) :: l) = j :: targets l.
Proof. reflexivity. Qed.
Lemma targets_cons_none fc l : targets ((fc, None) :: l) = targets l.
Proof. reflexivity. Qed.

Definition rt_at (c : codec) : Prop :=
  forall s dest v d, canon c dest v -> datum_of c s v = Some d -> apply_datum c dest d = Some v.

Lemma apply_fields_canon vs0 vs : forall l fl ds acc,
  Forall (fun p => rt_at (fst p)) l ->
  datum_fields vs l fl = Some ds -> NoDup (targets l) -> canon_fields vs0 vs l ->
  length acc = length vs ->
  (forall j, In j (targets l) -> nth j acc VBad = nth j vs0 VBad) ->
  exists acc', apply_fields l ds acc = Some acc' /\ length acc' = length vs /\
    (forall k, In k (targets l) -> nth k acc' VBad = nth k vs VBad) /\
    (forall k, ~ In k (targets l) -> nth k acc' VBad = nth k acc VBad).
Proof.
  induction l as [|[fc [j|]] l IH]; intros fl ds acc HP Hd Hnd Hc Hlen Hfresh.
  - destruct fl; [|discriminate]. cbn in Hd. injection Hd as <-. exists acc. cbn [apply_fields].
    refine (conj eq_refl (conj Hlen (conj _ _))); [intros k []|reflexivity].
  - destruct fl as [|[n fsch] fl]; [discriminate|]. cbn [datum_fields] in Hd.
    destruct (datum_of fc fsch (nth j vs VBad)) as [d0|] eqn:Ed0; [|discriminate].
    destruct (datum_fields vs l fl) as [ds'|] eqn:Eds; [|discriminate]. injection Hd as <-.
    inversion HP as [|? ? Hfc HPl]; subst. cbn [fst] in Hfc.
    rewrite targets_cons_some in Hnd, Hfresh. inversion Hnd as [|? ? Hnotin Hnd']; subst.
    cbn [canon_fields] in Hc. destruct Hc as (Hj & Hcj & Hcl).
    cbn [apply_fields]. rewrite (Hfresh j (or_introl eq_refl)).
    rewrite (Hfc fsch _ _ _ Hcj Ed0).
    destruct (IH fl ds' (list_update acc j (nth j vs VBad)) HPl Eds Hnd' Hcl) as (acc' & Ha & Hl' & Hin & Hout).
    + rewrite update_length. exact Hlen.
    + intros j' Hj'. rewrite nth_update_other by (intros ->; contradiction). apply Hfresh. right. exact Hj'.
    + exists acc'. refine (conj Ha (conj Hl' (conj _ _))).
      * rewrite targets_cons_some. intros k [<-|Hk]; [|apply Hin; exact Hk].
        rewrite (Hout j Hnotin). apply nth_update_same. lia.
      * rewrite targets_cons_some. intros k Hk. rewrite Hout by (intros H; apply Hk; right; exact H).
        apply nth_update_other. intros ->. apply Hk. left. reflexivity.
  - destruct fl as [|[n fsch] fl]; discriminate.
Qed.

(* ---- the theorem ---- *)
Theorem roundtrip_identity : forall c, rt_at c.
Proof.
  induction c using codec_ind'; intros s dest v d Hc Hd.
  - (* CNull *) cbn in Hc. subst v. cbn [datum_of] in Hd. destruct s; try discriminate. injection Hd as <-. reflexivity.
  - cbn [datum_of] in Hd. destruct s; try discriminate; destruct v; try discriminate. injection Hd as <-. reflexivity.
  - (* CInt *) cbn [datum_of] in Hd. destruct v; try discriminate. cbn in Hc.
    destruct s; try discriminate; cbn in Hd; injection Hd as <-; cbn [apply_datum datum_int]; rewrite Hc; reflexivity.
  - cbn [datum_of] in Hd. destruct s; try discriminate; destruct v; try discriminate. injection Hd as <-. reflexivity.
  - cbn [datum_of] in Hd. destruct s; try discriminate; destruct v; try discriminate. injection Hd as <-. reflexivity.
  - (* CF32Double *) cbn [datum_of] in Hd. destruct s; try discriminate; destruct v; try discriminate. injection Hd as <-.
    cbn in Hc. destruct Hc as [Hr Hn]. cbn [apply_datum]. rewrite narrow_widen by assumption. reflexivity.
  - (* CBytes *) cbn [datum_of] in Hd. destruct s; try discriminate; destruct v as [vb|vz|vf|vg|vstr|vby|vfx|vsl| |vkv|vo|vfs|vt|vv vp| ]; try discriminate. injection Hd as <-.
    cbn [apply_datum]. destruct vby as [|x0 xs]; [|reflexivity]. cbn in Hc. subst dest. reflexivity.
  - cbn [datum_of] in Hd. destruct s; try discriminate; destruct v; try discriminate. injection Hd as <-. reflexivity.
  - cbn [datum_of] in Hd. destruct s; try discriminate; destruct v; try discriminate. injection Hd as <-. reflexivity.
  - (* CRecord *)
    destruct v as [vb|vz|vf|vg|vstr|vby|vfx|vsl| |vkv|vo|vs|vt|vv vp| ]; try (cbn in Hc; contradiction).
    destruct dest as [vb|vz|vf|vg|vstr|vby|vfx|vsl| |vkv|vo|vs0|vt|vv vp| ]; try (cbn in Hc; contradiction).
    apply canon_record_iff in Hc. destruct Hc as (Hlen & Hnd & Hout & Hcf).
    destruct s; try discriminate. rewrite datum_of_record_eq in Hd.
    destruct (datum_fields vs fs fields) as [ds|] eqn:Ed; [|discriminate]. injection Hd as <-.
    rewrite apply_record_eq.
    destruct (apply_fields_canon vs0 vs fs fields ds vs0 H Ed Hnd Hcf (eq_sym Hlen) (fun _ _ => eq_refl))
      as (acc' & Ha & Hl' & Hin & Hrest).
    rewrite Ha. cbn [option_map]. do 2 f_equal.
    apply (nth_ext _ _ VBad VBad); [exact Hl'|]. intros k _.
    destruct (in_dec Nat.eq_dec k (targets fs)) as [Hk|Hk]; [apply Hin; exact Hk|].
    rewrite (Hrest k Hk). symmetry. apply Hout. exact Hk.
  - (* CArray *)
    cbn [canon] in Hc. destruct Hc as [-> Hv]. destruct v as [vb|vz|vf|vg|vstr|vby|vfx|vs| |vkv|vo|vfs|vt|vv vp| ]; try contradiction.
    destruct s; try discriminate. rewrite datum_of_array_eq in Hd.
    destruct (datum_items c s vs) as [ds|] eqn:Ed; [|discriminate]. injection Hd as <-.
    cbn [apply_datum]. rewrite apply_array_go.
    assert (Hm : mapo (apply_datum c z) ds = Some vs).
    { clear -IHc Hv Ed. revert ds Ed. induction vs as [|x l IHl]; intros ds Ed.
      - cbn in Ed. injection Ed as <-. reflexivity.
      - cbn [datum_items] in Ed. destruct (datum_of c s x) as [d0|] eqn:Ed0; [|discriminate].
        destruct (datum_items c s l) as [ds'|] eqn:Eds; [|discriminate]. injection Ed as <-.
        inversion Hv as [|? ? Hx Hl]; subst. cbn [mapo]. rewrite (IHc _ _ _ _ Hx Ed0). rewrite (IHl Hl _ eq_refl). reflexivity. }
    rewrite Hm. reflexivity.
  - (* CMap *)
    cbn [canon] in Hc. destruct Hc as [Hdest Hv]. destruct v as [vb|vz|vf|vg|vstr|vby|vfx|vsl| |kvs|vo|vfs|vt|vv vp| ]; try contradiction.
    destruct s; try discriminate. rewrite datum_of_map_eq in Hd.
    destruct (datum_kvs c s kvs) as [ds|] eqn:Ed; [|discriminate]. injection Hd as <-.
    assert (Hm : mapo (conv_kv c z) ds = Some kvs).
    { clear -IHc Hv Ed. revert ds Ed. induction kvs as [|[k x] l IHl]; intros ds Ed.
      - cbn in Ed. injection Ed as <-. reflexivity.
      - cbn [datum_kvs] in Ed. destruct (datum_of c s x) as [d0|] eqn:Ed0; [|discriminate].
        destruct (datum_kvs c s l) as [ds'|] eqn:Eds; [|discriminate]. injection Ed as <-.
        inversion Hv as [|? ? Hx Hl]; subst. cbn [snd] in Hx. cbn [mapo]. unfold conv_kv at 1. cbn [fst snd].
        rewrite (IHc _ _ _ _ Hx Ed0). cbn [option_map]. rewrite (IHl Hl _ eq_refl). reflexivity. }
    destruct Hdest as [-> | ->]; cbn [apply_datum]; rewrite apply_map_go, Hm; reflexivity.
  - (* CPtr *)
    cbn [canon] in Hc. destruct dest as [vb|vz|vf|vg|vstr|vby|vfx|vsl| |vkv|o|vfs|vt|vv vp| ]; try contradiction.
    destruct v as [vb|vz|vf|vg|vstr|vby|vfx|vsl| |vkv|ov|vfs|vt|vv vp| ]; try contradiction. destruct ov as [x|]; [|contradiction].
    cbn [datum_of] in Hd. cbn [apply_datum]. rewrite (IHc _ _ _ _ Hc Hd). reflexivity.
  - (* CUnion *) contradiction.
  - (* CUnionOne *)
    cbn [canon] in Hc. cbn [datum_of] in Hd. destruct s; try discriminate.
    destruct branches as [|x1 [|x2 [|? ?]]]; try discriminate.
    destruct (c_omit c v) eqn:Eo.
    + assert (Hd' : d = DUnion (1 - nn) DNull) by congruence. subst d v. cbn [apply_datum].
      replace (1 - nn =? nn) with false by lia. reflexivity.
    + destruct (datum_of c (if nn =? 0 then x1 else x2) v) as [d0|] eqn:Ed0; [|discriminate]. injection Hd as <-.
      cbn [apply_datum]. rewrite Z.eqb_refl. eapply IHc; eauto.
  - (* CUnionStr *)
    cbn [canon] in Hc. destruct v as [vb|vz|vf|vg|s0|vby|vfx|vsl| |vkv|vo|vfs|vt|vv vp| ]; try contradiction. cbn [datum_of] in Hd.
    destruct (om && match s0 with [] => true | _ => false end) eqn:E.
    + assert (Hd' : d = DUnion (1 - nn) DNull) by congruence. subst d. cbn [apply_datum].
      replace (1 - nn =? nn) with false by lia.
      destruct s0; [|rewrite andb_false_r in E; discriminate]. rewrite andb_true_r in E. subst om. cbn in Hc. subst dest. reflexivity.
    + injection Hd as <-. cbn [apply_datum]. rewrite Z.eqb_refl. reflexivity.
  - (* CTimeString *)
    cbn [canon] in Hc. destruct v; try contradiction. cbn [datum_of] in Hd. destruct s; try discriminate.
    injection Hd as <-. cbn [apply_datum]. apply time_string_roundtrip. exact Hc.
  - (* CTimeLong *)
    cbn [canon] in Hc. destruct Hc as [Hu Hv]. destruct v; try contradiction. destruct Hv as (l & Hl & ->).
    cbn [datum_of] in Hd. rewrite (time_long_value_units m l Hu Hl) in Hd.
    destruct s; try discriminate; cbn in Hd; injection Hd as <-; reflexivity.
  - (* CDate *)
    cbn [canon] in Hc. destruct v; try contradiction. destruct Hc as (n & Hn & ->).
    cbn [datum_of] in Hd. replace (86400 * n / 86400) with n in Hd by lia. rewrite (to_int32_id n Hn) in Hd.
    destruct s; try discriminate; cbn in Hd; injection Hd as <-; cbn [apply_datum datum_int]; rewrite Hn; reflexivity.
  - destruct Hc as (z & ->). cbn [datum_of] in Hd. destruct s; try discriminate; cbn in Hd; injection Hd as <-; reflexivity.
  - destruct Hc as (x & ->). cbn [datum_of] in Hd. destruct s; try discriminate. injection Hd as <-. reflexivity.
  - destruct Hc as (x & ->). cbn [datum_of] in Hd. destruct s; try discriminate. injection Hd as <-. reflexivity.
  - destruct Hc as (y & Hr & Hn & ->). cbn [datum_of] in Hd. destruct s; try discriminate. injection Hd as <-.
    cbn [apply_datum]. rewrite narrow_widen by assumption. reflexivity.
  - destruct Hc as (x & ->). cbn [datum_of] in Hd. destruct s; try discriminate. injection Hd as <-. reflexivity.
  - destruct Hc as (t & Ht & ->). cbn [datum_of] in Hd. destruct s; try discriminate. injection Hd as <-.
    cbn [apply_datum]. rewrite time_string_roundtrip by exact Ht. reflexivity.
  - (* CCustom *)
    cbn [canon] in Hc. cbn [datum_of] in Hd. cbn [apply_datum]. rewrite (IHc _ _ _ _ Hc Hd). cbn [option_map].
    f_equal. destruct v; try reflexivity; cbn [cx].
    + f_equal. rewrite Z.lxor_assoc, Z.lxor_nilpotent, Z.lxor_0_r. reflexivity.
    + rewrite rev_involutive. reflexivity.
Qed.

(* ---- what happens outside [canon]: the documented normalisations ---- *)

(* a nil map comes back as an empty, non-nil map *)
Lemma norm_nil_map vc vz om vsch dest : dest = VMapNil \/ dest = VMap [] ->
  exists d, datum_of (CMap vc vz om) (SMap vsch) VMapNil = Some d /\ apply_datum (CMap vc vz om) dest d = Some (VMap []).
Proof. intros [-> | ->]; exists (DMap []); split; reflexivity. Qed.

(* whatever the codec omits (nil pointer, zero under omitempty, invalid null.*
   wrapper with any stale payload, zero time) comes back as the destination's
   own value: the zero value of the field when decoding into a fresh record *)
Lemma norm_omitted c nn x1 x2 dest v : c_omit c v = true ->
  exists d, datum_of (CUnionOne c nn) (SUnion [x1; x2]) v = Some d /\ apply_datum (CUnionOne c nn) dest d = Some dest.
Proof.
  intros Ho. exists (DUnion (1 - nn) DNull). split.
  - cbn [datum_of]. rewrite Ho. reflexivity.
  - cbn [apply_datum]. replace (1 - nn =? nn) with false by lia. reflexivity.
Qed.

(* a time under a long schema: floored to the unit, zone dropped (UTC) *)
Lemma norm_time_long mult t s d : unit_ok mult -> tv_wf t -> int64_ok (instant_ns t / mult) ->
  datum_of (CTimeLong mult) s (VTime t) = Some d ->
  exists t', forall dest, apply_datum (CTimeLong mult) dest d = Some (VTime t') /\
    t' = time_of_units mult (instant_ns t / mult).
Proof.
  intros Hu Hw Hr Hd. cbn [datum_of] in Hd. rewrite (time_long_value_floor mult t Hu Hw Hr) in Hd.
  exists (time_of_units mult (instant_ns t / mult)). intros dest.
  destruct s; try discriminate; cbn in Hd; injection Hd as <-; split; reflexivity.
Qed.

(* a NaN float32 in a double field stays a NaN (its payload may be quieted) *)
Lemma norm_nan om x d dest : 0 <= x < 4294967296 -> f32_is_nan x = true ->
  datum_of (CF32Double om) SDouble (VF32 x) = Some d ->
  exists y, apply_datum (CF32Double om) dest d = Some (VF32 y) /\ f32_is_nan y = true.
Proof.
  intros Hr Hn Hd. cbn in Hd. injection Hd as <-. exists (narrow64 (widen32 x)). split; [reflexivity|].
  apply narrow_widen_nan; assumption.
Qed.
