(* Proofs about the resource bank model (Model/Bank.v): the invariant of all
   reachable worlds, disjointness of live allocations, the frame property,
   zeroed allocations, pool exclusivity. *)
From Coq Require Import List ZArith Bool Arith Lia.
Require Import Avro.Model.Bank.
Import ListNotations.

(* ---- lists -------------------------------------------------------------------- *)

Lemma length_upd : forall A (l : list A) n x, length (upd n x l) = length l.
Proof. induction l as [|y r IH]; intros [|n] x; simpl; auto. Qed.

Lemma nth_error_upd_eq : forall A (l : list A) n x, n < length l -> nth_error (upd n x l) n = Some x.
Proof. induction l as [|y r IH]; intros [|n] x Hn; simpl in *; try lia; auto. apply IH; lia. Qed.

Lemma nth_error_upd_neq : forall A (l : list A) n m x, n <> m -> nth_error (upd n x l) m = nth_error l m.
Proof.
  induction l as [|y r IH]; intros [|n] [|m] x Hnm; simpl; auto; try lia.
  all: try (apply IH; lia).
Qed.

Lemma nth_error_upd_inv : forall A (l : list A) n m x y,
  nth_error (upd n x l) m = Some y -> (m = n /\ y = x) \/ (m <> n /\ nth_error l m = Some y).
Proof.
  intros A l n m x y H. destruct (Nat.eq_dec m n) as [->|Hne].
  - left. split; auto. assert (Hlt : n < length l).
    { rewrite <- (length_upd A l n x). apply nth_error_Some. congruence. }
    rewrite nth_error_upd_eq in H by auto. congruence.
  - right. split; auto. rewrite nth_error_upd_neq in H by auto. exact H.
Qed.

Lemma nth_upd_eq : forall A (l : list A) n x d, n < length l -> nth n (upd n x l) d = x.
Proof. induction l as [|y r IH]; intros [|n] x d Hn; simpl in *; try lia; auto. apply IH; lia. Qed.

Lemma nth_upd_neq : forall A (l : list A) n m x d, n <> m -> nth m (upd n x l) d = nth m l d.
Proof.
  induction l as [|y r IH]; intros [|n] [|m] x d Hnm; simpl; auto; try lia.
  all: try (apply IH; lia).
Qed.

Lemma In_upd : forall A (l : list A) n x y, In y (upd n x l) -> y = x \/ In y l.
Proof.
  induction l as [|z r IH]; intros [|n] x y H; simpl in *; auto.
  - destruct H; auto.
  - destruct H as [H|H]; auto. apply IH in H. tauto.
Qed.

Lemma length_write_at : forall l off vs, length (write_at l off vs) = length l.
Proof.
  induction l as [|x r IH]; intros off vs; simpl; auto.
  destruct off; [destruct vs|]; simpl; auto.
Qed.

Lemma nth_write_at_out : forall l off vs i d,
  ~ (off <= i < off + length vs) -> nth i (write_at l off vs) d = nth i l d.
Proof.
  induction l as [|x r IH]; intros off vs i d H; simpl; auto.
  destruct off as [|o].
  - destruct vs as [|v vs']; auto. simpl in H. destruct i as [|i]; [lia|].
    simpl. apply IH. lia.
  - destruct i as [|i]; simpl; auto. apply IH. lia.
Qed.

Lemma nth_write_at_in : forall l off vs i d,
  off <= i < off + length vs -> i < length l -> nth i (write_at l off vs) d = nth (i - off) vs d.
Proof.
  induction l as [|x r IH]; intros off vs i d H Hl; simpl in *; [lia|].
  destruct off as [|o].
  - destruct vs as [|v vs']; simpl in H; [lia|].
    destruct i as [|i]; simpl; auto.
    rewrite IH by (simpl; lia). replace (i - 0) with i by lia. reflexivity.
  - destruct i as [|i]; [lia|]. simpl. apply IH; lia.
Qed.

Lemma remove_one_incl : forall b l x, In x (remove_one b l) -> In x l.
Proof.
  induction l as [|y r IH]; intros x H; simpl in *; auto.
  destruct (Nat.eqb y b); simpl in *; auto. destruct H; auto.
Qed.

Lemma remove_one_NoDup : forall b l, NoDup l -> NoDup (remove_one b l) /\ ~ In b (remove_one b l).
Proof.
  induction l as [|y r IH]; intros H; simpl.
  - split; [constructor|auto].
  - inversion H as [|? ? Hy Hr]; subst. destruct (Nat.eqb_spec y b) as [->|Hne].
    + split; auto.
    + destruct (IH Hr) as [H1 H2]. split.
      * constructor; auto. intro Hin. apply Hy. eapply remove_one_incl; eauto.
      * simpl. intros [E|E]; auto.
Qed.

Lemma FOP_filter : forall A (R : A -> A -> Prop) f l, ForallOrdPairs R l -> ForallOrdPairs R (filter f l).
Proof.
  intros A R f l H. induction H as [|a l Ha Hl IH]; simpl; [constructor|].
  destruct (f a); auto. constructor; auto.
  rewrite Forall_forall in *. intros x Hx. apply filter_In in Hx. apply Ha. tauto.
Qed.

Lemma Forall_filter : forall A (P : A -> Prop) f l, Forall P l -> Forall P (filter f l).
Proof.
  intros A P f l H. rewrite Forall_forall in *. intros x Hx. apply filter_In in Hx. apply H. tauto.
Qed.

(* ---- heap --------------------------------------------------------------------- *)

Lemma length_hwrite : forall h arr off vs, length (hwrite h arr off vs) = length h.
Proof. intros. unfold hwrite. apply length_upd. Qed.

Lemma arrlen_hwrite : forall h arr off vs a,
  length (nth a (hwrite h arr off vs) []) = length (nth a h []).
Proof.
  intros h arr off vs a. unfold hwrite. destruct (Nat.eq_dec arr a) as [->|Hne].
  - destruct (Nat.lt_ge_cases a (length h)) as [Hlt|Hge].
    + rewrite nth_upd_eq by auto. apply length_write_at.
    + rewrite !nth_overflow; auto. rewrite length_upd. auto.
  - rewrite nth_upd_neq by auto. reflexivity.
Qed.

Lemma cell_hwrite_out : forall h arr off vs a i,
  ~ (a = arr /\ off <= i < off + length vs) -> cell (hwrite h arr off vs) a i = cell h a i.
Proof.
  intros h arr off vs a i H. unfold cell, hwrite. destruct (Nat.eq_dec arr a) as [->|Hne].
  - destruct (Nat.lt_ge_cases a (length h)) as [Hlt|Hge].
    + rewrite nth_upd_eq by auto. apply nth_write_at_out. intro. apply H. auto.
    + rewrite (nth_overflow (upd a _ h)) by (rewrite length_upd; auto).
      rewrite (nth_overflow h) by auto. reflexivity.
  - rewrite nth_upd_neq by auto. reflexivity.
Qed.

Lemma cell_hwrite_in : forall h arr off vs i,
  arr < length h -> off <= i < off + length vs -> i < length (nth arr h []) ->
  cell (hwrite h arr off vs) arr i = nth (i - off) vs 0%Z.
Proof.
  intros h arr off vs i Ha Hi Hl. unfold cell, hwrite.
  rewrite nth_upd_eq by auto. apply nth_write_at_in; auto.
Qed.

Lemma nth_app_old : forall (h : heap) x a, a < length h -> nth a (h ++ [x]) [] = nth a h [].
Proof. intros. apply app_nth1. auto. Qed.

Lemma cell_app_old : forall (h : heap) x a i, a < length h -> cell (h ++ [x]) a i = cell h a i.
Proof. intros. unfold cell. rewrite nth_app_old; auto. Qed.

Lemma nth_app_new : forall (h : heap) x, nth (length h) (h ++ [x]) [] = x.
Proof. intros. rewrite app_nth2 by lia. rewrite Nat.sub_diag. reflexivity. Qed.

(* ---- regions: the arrays currently owned by a bank, with watermark and size ----- *)

Definition reg := (nat * nat * nat)%type.   (* array, used cells, capacity in cells *)

Definition arena_reg (ar : arena) : option reg :=
  if 0 <? a_cap ar then Some (a_arr ar, a_len ar * a_size ar, a_cap ar * a_size ar) else None.

Definition types_reg (tys : list arena) (j : nat) : option reg :=
  match nth_error tys j with Some ar => arena_reg ar | None => None end.

Definition region_at (bk : bank) (k : option nat) : option reg :=
  match k with
  | None => if 0 <? s_cap bk then Some (s_arr bk, s_len bk, s_cap bk) else None
  | Some j => types_reg (b_types bk) j
  end.

Definition wregion (bs : list bank) (b : nat) (k : option nat) : option reg :=
  match nth_error bs b with Some bk => region_at bk k | None => None end.

Definition placed (bs : list bank) (a : alloc) : Prop :=
  al_len a = 0 \/
  forall b k u c, wregion bs b k = Some (al_arr a, u, c) -> b = al_bank a /\ al_off a + al_len a <= u.

Record Inv (w : world) : Prop := mkInv {
  inv_reg : forall b k arr u c, wregion (w_banks w) b k = Some (arr, u, c) ->
            arr < length (w_heap w) /\ length (nth arr (w_heap w) []) = c /\ u <= c;
  inv_inj : forall b k b' k' arr u c u' c',
            wregion (w_banks w) b k = Some (arr, u, c) -> wregion (w_banks w) b' k' = Some (arr, u', c') ->
            b = b' /\ k = k';
  inv_len : forall b bk ar, nth_error (w_banks w) b = Some bk -> In ar (b_types bk) -> a_len ar <= a_cap ar;
  inv_slen : forall b bk, nth_error (w_banks w) b = Some bk -> s_len bk <= s_cap bk;
  inv_placed : Forall (placed (w_banks w)) (w_live w);
  inv_disj : ForallOrdPairs disjoint (w_live w);
  inv_bounds : Forall (in_bounds (w_heap w)) (w_live w);
  inv_pool : NoDup (w_pool w)
}.

Lemma Inv_init : Inv init.
Proof.
  constructor; simpl.
  - intros b0 k arr u c H. unfold wregion in H. destruct b0; discriminate.
  - intros b0 k b' k' arr u c u' c' H. unfold wregion in H. destruct b0; discriminate.
  - intros b0 bk ar H. destruct b0; discriminate.
  - intros b0 bk H. destruct b0; discriminate.
  - constructor.
  - constructor.
  - constructor.
  - constructor.
Qed.

Lemma in_bounds_mono : forall h h' a,
  length h <= length h' ->
  (forall x, x < length h -> length (nth x h' []) = length (nth x h [])) ->
  in_bounds h a -> in_bounds h' a.
Proof.
  intros h h' a Hl Hs [H0|[H1 H2]]; [left; auto|right].
  split; [lia|]. rewrite Hs; auto.
Qed.

Lemma disjoint_empty : forall a a', al_len a = 0 -> disjoint a a'.
Proof. intros a a' H arr i [[_ H1] _]. lia. Qed.

Lemma disjoint_sym : forall a a', disjoint a a' -> disjoint a' a.
Proof. intros a a' H arr i [H1 H2]. apply (H arr i). auto. Qed.

(* two list elements that share a cell are the same record *)
Lemma FOP_share : forall l a a' arr i,
  ForallOrdPairs disjoint l -> In a l -> In a' l -> in_alloc a arr i -> in_alloc a' arr i -> a = a'.
Proof.
  intros l a a' arr i H. induction H as [|x l Hx Hl IH]; intros Ha Ha' Hi Hi'; [destruct Ha|].
  rewrite Forall_forall in Hx. destruct Ha as [->|Ha]; destruct Ha' as [->|Ha']; auto.
  - exfalso. apply (Hx a' Ha' arr i). auto.
  - exfalso. apply (Hx a Ha arr i). auto.
Qed.

(* ---- wregion under the updates performed by the steps ------------------------------ *)

Lemma wregion_app_empty : forall bs b k, wregion (bs ++ [mkBank [] 0 0 0]) b k = wregion bs b k.
Proof.
  intros bs b k. unfold wregion. destruct (Nat.lt_ge_cases b (length bs)) as [Hlt|Hge].
  - rewrite nth_error_app1 by auto. reflexivity.
  - rewrite (proj2 (nth_error_None bs b)) by auto.
    rewrite nth_error_app2 by auto. destruct (b - length bs) as [|m]; simpl.
    + destruct k as [j|]; simpl; auto. unfold types_reg. destruct j; reflexivity.
    + destruct m; reflexivity.
Qed.

Lemma wregion_upd_other : forall bs b bk' b' k, b' <> b -> wregion (upd b bk' bs) b' k = wregion bs b' k.
Proof. intros. unfold wregion. rewrite nth_error_upd_neq by auto. reflexivity. Qed.

Lemma wregion_upd_same : forall bs b bk' k, b < length bs -> wregion (upd b bk' bs) b k = region_at bk' k.
Proof. intros. unfold wregion. rewrite nth_error_upd_eq by auto. reflexivity. Qed.

Lemma nth_error_lt : forall A (l : list A) n x, nth_error l n = Some x -> n < length l.
Proof. intros. apply nth_error_Some. congruence. Qed.

(* findTyp *)
Lemma find_idx_lt : forall ty l j, find_idx ty l = Some j -> j < length l.
Proof.
  induction l as [|ar r IH]; intros j H; simpl in *; [discriminate|].
  destruct (Z.eqb (a_ty ar) ty); [inversion H; lia|].
  destruct (find_idx ty r) as [j'|]; simpl in H; [|discriminate]. inversion H. specialize (IH j' eq_refl). lia.
Qed.

Lemma find_typ_reg : forall l ty sz j, types_reg (fst (find_typ l ty sz)) j = types_reg l j.
Proof.
  intros l ty sz j. unfold find_typ. destruct (find_idx ty l); simpl; auto.
  unfold types_reg. destruct (Nat.lt_ge_cases j (length l)) as [Hlt|Hge].
  - rewrite nth_error_app1 by auto. reflexivity.
  - rewrite (proj2 (nth_error_None l j)) by auto. rewrite nth_error_app2 by auto.
    destruct (j - length l) as [|m]; simpl; auto. destruct m; reflexivity.
Qed.

Lemma find_typ_In : forall l ty sz ar, In ar (fst (find_typ l ty sz)) -> In ar l \/ (a_cap ar = 0 /\ a_len ar = 0).
Proof.
  intros l ty sz ar. unfold find_typ. destruct (find_idx ty l); simpl; auto.
  intro H. apply in_app_or in H. destruct H as [H|[<-|[]]]; auto.
Qed.

Lemma find_typ_size : forall l ty sz ar, nth_error (fst (find_typ l ty sz)) (snd (find_typ l ty sz)) = Some ar ->
  a_size ar = match find_idx ty l with Some j => a_size (nth j l (mkArena 0 0 0 0 0)) | None => sz end.
Proof.
  intros l ty sz ar. unfold find_typ. destruct (find_idx ty l) as [j|] eqn:E; simpl; intro H.
  - erewrite nth_error_nth; eauto.
  - rewrite nth_error_app2 in H by lia. rewrite Nat.sub_diag in H. simpl in H. inversion H. reflexivity.
Qed.

(* ---- preservation of the invariant, one operation at a time ----------------------- *)

Lemma Inv_get_bank : forall w c, Inv w -> choice_ok w c -> Inv (fst (get_bank w c)).
Proof.
  intros w c [Hreg Hinj Hlen Hslen Hpl Hdj Hbd Hpool] Hc. destruct c as [b0|]; simpl.
  - constructor; simpl; auto. apply remove_one_NoDup. auto.
  - constructor; simpl; auto.
    + intros b0 k arr u c. rewrite wregion_app_empty. apply Hreg.
    + intros b0 k b' k' arr u c u' c'. rewrite !wregion_app_empty. apply Hinj.
    + intros b0 bk ar H. destruct (Nat.lt_ge_cases b0 (length (w_banks w))) as [Hlt|Hge].
      * rewrite nth_error_app1 in H by auto. eapply Hlen; eauto.
      * rewrite nth_error_app2 in H by auto. destruct (b0 - length (w_banks w)) as [|m]; simpl in H.
        -- inversion H; subst. simpl. tauto.
        -- destruct m; discriminate.
    + intros b0 bk H. destruct (Nat.lt_ge_cases b0 (length (w_banks w))) as [Hlt|Hge].
      * rewrite nth_error_app1 in H by auto. eapply Hslen; eauto.
      * rewrite nth_error_app2 in H by auto. destruct (b0 - length (w_banks w)) as [|m]; simpl in H.
        -- inversion H; subst. simpl. lia.
        -- destruct m; discriminate.
    + eapply Forall_impl; [|exact Hpl]. intros a [H0|H1]; [left; auto|right].
      intros b0 k u c. rewrite wregion_app_empty. apply H1.
Qed.

(* Inv does not mention the ReadBufs *)
Lemma Inv_bufs : forall w bufs', Inv w -> Inv (mkWorld (w_heap w) (w_banks w) (w_pool w) bufs' (w_live w)).
Proof. intros w bufs' [H1 H2 H3 H4 H5 H6 H7 H8]. constructor; simpl; auto. Qed.

Lemma close_region : forall bs b bk b' k arr u c,
  nth_error bs b = Some bk ->
  wregion (upd b (close_bank bk) bs) b' k = Some (arr, u, c) ->
  exists u0, wregion bs b' k = Some (arr, u0, c) /\ (b' <> b -> u = u0) /\ (b' = b -> u = 0).
Proof.
  intros bs b bk b' k arr u c Hbk H. destruct (Nat.eq_dec b' b) as [->|Hne].
  - rewrite wregion_upd_same in H by (eapply nth_error_lt; eauto).
    unfold wregion. rewrite Hbk. destruct k as [j|]; simpl in *.
    + unfold types_reg in *. rewrite nth_error_map in H.
      destruct (nth_error (b_types bk) j) as [ar|]; simpl in H; [|discriminate].
      unfold arena_reg in *. simpl in H. destruct (0 <? a_cap ar); [|discriminate].
      inversion H; subst. eexists. split; [reflexivity|]. split; [tauto|auto].
    + destruct (0 <? s_cap bk); [|discriminate]. inversion H; subst.
      eexists. split; [reflexivity|]. split; [tauto|auto].
  - rewrite wregion_upd_other in H by auto. exists u. split; auto. split; auto. tauto.
Qed.

Lemma Inv_close : forall w b, Inv w -> b < length (w_banks w) -> ~ In b (w_pool w) -> Inv (close_step w b).
Proof.
  intros w b [Hreg Hinj Hlen Hslen Hpl Hdj Hbd Hpool] Hb Hnp. unfold close_step.
  destruct (nth_error (w_banks w) b) as [bk|] eqn:Hbk.
  2:{ constructor; auto. }
  constructor; simpl.
  - intros b0 k arr u c H. destruct (close_region _ _ _ _ _ _ _ _ Hbk H) as [u0 [H0 [Hn He]]].
    destruct (Hreg _ _ _ _ _ H0) as [A [B C]]. split; auto. split; auto.
    destruct (Nat.eq_dec b0 b) as [E|E]; [rewrite (He E); lia|rewrite (Hn E); auto].
  - intros b0 k b' k' arr u c u' c' H H'.
    destruct (close_region _ _ _ _ _ _ _ _ Hbk H) as [u0 [H0 _]].
    destruct (close_region _ _ _ _ _ _ _ _ Hbk H') as [u0' [H0' _]].
    eapply Hinj; eauto.
  - intros b0 bk0 ar H Hin. apply nth_error_upd_inv in H. destruct H as [[-> ->]|[Hne H]].
    + simpl in Hin. apply in_map_iff in Hin. destruct Hin as [ar0 [<- _]]. simpl. lia.
    + eapply Hlen; eauto.
  - intros b0 bk0 H. apply nth_error_upd_inv in H. destruct H as [[-> ->]|[Hne H]].
    + simpl. lia.
    + eapply Hslen; eauto.
  - rewrite Forall_forall in *. intros a Ha. apply filter_In in Ha. destruct Ha as [Ha Hf].
    apply negb_true_iff in Hf. apply Nat.eqb_neq in Hf.
    destruct (Hpl a Ha) as [H0|H1]; [left; auto|right].
    intros b0 k u c H. destruct (close_region _ _ _ _ _ _ _ _ Hbk H) as [u0 [H0 [Hn He]]].
    destruct (H1 _ _ _ _ H0) as [A B]. split; auto. rewrite Hn; auto. congruence.
  - apply FOP_filter. auto.
  - apply Forall_filter. auto.
  - constructor; auto.
Qed.

Lemma Inv_store : forall w a off vs, Inv w -> Inv (store_step w a off vs).
Proof.
  intros w a off vs [Hreg Hinj Hlen Hslen Hpl Hdj Hbd Hpool]. constructor; simpl; auto.
  - intros b k arr u c H. rewrite length_hwrite, arrlen_hwrite. eauto.
  - eapply Forall_impl; [|exact Hbd]. intros x Hx. apply (in_bounds_mono (w_heap w)); auto.
    + rewrite length_hwrite. auto.
    + intros. apply arrlen_hwrite.
Qed.

(* ---- Alloc -------------------------------------------------------------------------- *)

Lemma ag_len_ar : forall w b bk ty sz ar, Inv w -> nth_error (w_banks w) b = Some bk ->
  nth_error (fst (find_typ (b_types bk) ty sz)) (snd (find_typ (b_types bk) ty sz)) = Some ar ->
  a_len ar <= a_cap ar.
Proof.
  intros w b bk ty sz ar HI Hbk Har.
  assert (Hin : In ar (fst (find_typ (b_types bk) ty sz))) by (eapply nth_error_In; eauto).
  apply find_typ_In in Hin. destruct Hin as [Hin|[A B]]; [|lia].
  eapply (inv_len w HI); eauto.
Qed.

Section AllocGen.
Variables (w : world) (b : nat) (bk : bank) (ty : Z) (sz : nat) (ar : arena) (arr' cap' : nat) (h1 : heap).
Let tys := fst (find_typ (b_types bk) ty sz).
Let j := snd (find_typ (b_types bk) ty sz).
Let off := a_len ar * a_size ar.
Let ar' := mkArena (a_ty ar) (a_size ar) arr' cap' (S (a_len ar)).
Let bk' := mkBank (upd j ar' tys) (s_arr bk) (s_cap bk) (s_len bk).
Let anew := mkAlloc b arr' off (a_size ar).
Let w' := mkWorld (hwrite h1 arr' off (repeat 0%Z (a_size ar))) (upd b bk' (w_banks w)) (w_pool w) (w_bufs w)
                  (anew :: w_live w).

Hypothesis HI : Inv w.
Hypothesis Hbk : nth_error (w_banks w) b = Some bk.
Hypothesis Har : nth_error tys j = Some ar.
Hypothesis Hh1len : length (w_heap w) <= length h1.
Hypothesis Hh1old : forall x, x < length (w_heap w) -> nth x h1 [] = nth x (w_heap w) [].
Hypothesis Harr : arr' < length h1.
Hypothesis Hcaplen : length (nth arr' h1 []) = cap' * a_size ar.
Hypothesis Hcap : S (a_len ar) <= cap'.
Hypothesis Hfresh : arr' = length (w_heap w) \/
                    arena_reg ar = Some (arr', a_len ar * a_size ar, cap' * a_size ar).

Lemma ag_old : wregion (w_banks w) b (Some j) = arena_reg ar.
Proof.
  unfold wregion. rewrite Hbk. simpl. rewrite <- (find_typ_reg (b_types bk) ty sz j).
  fold tys. unfold types_reg. rewrite Har. reflexivity.
Qed.

Lemma ag_new_reg : arena_reg ar' = Some (arr', S (a_len ar) * a_size ar, cap' * a_size ar).
Proof.
  unfold arena_reg, ar'. simpl. destruct (Nat.ltb_spec 0 cap'); [reflexivity|lia].
Qed.

Lemma ag_new_inv : forall arr u c, arena_reg ar' = Some (arr, u, c) ->
  arr = arr' /\ u = S (a_len ar) * a_size ar /\ c = cap' * a_size ar.
Proof. intros arr u c H. rewrite ag_new_reg in H. inversion H. auto. Qed.

Lemma ag_regs : forall b' k' r, wregion (upd b bk' (w_banks w)) b' k' = Some r ->
  (b' = b /\ k' = Some j /\ arena_reg ar' = Some r) \/
  (~ (b' = b /\ k' = Some j) /\ wregion (w_banks w) b' k' = Some r).
Proof.
  intros b' k' r H. destruct (Nat.eq_dec b' b) as [->|Hne].
  2:{ right. rewrite wregion_upd_other in H by auto. split; auto. tauto. }
  rewrite wregion_upd_same in H by (eapply nth_error_lt; eauto).
  destruct k' as [j'|].
  - destruct (Nat.eq_dec j' j) as [->|Hj].
    + left. split; auto. split; auto. simpl in H. unfold types_reg in H.
      rewrite nth_error_upd_eq in H by (eapply nth_error_lt; eauto). exact H.
    + right. split; [intros [_ E]; congruence|].
      unfold wregion. rewrite Hbk. simpl in *. unfold types_reg in H.
      rewrite nth_error_upd_neq in H by auto.
      rewrite <- (find_typ_reg (b_types bk) ty sz j'). exact H.
  - right. split; [intros [_ E]; discriminate|]. unfold wregion. rewrite Hbk. exact H.
Qed.

Lemma ag_K : forall b' k' u c, ~ (b' = b /\ k' = Some j) -> wregion (w_banks w) b' k' = Some (arr', u, c) -> False.
Proof.
  intros b' k' u c Hne H. destruct (inv_reg w HI _ _ _ _ _ H) as [Hlt _].
  destruct Hfresh as [E|E]; [lia|].
  rewrite <- ag_old in E. destruct (inv_inj w HI _ _ _ _ _ _ _ _ _ H E) as [A B]. apply Hne. auto.
Qed.

Lemma ag_mul : S (a_len ar) * a_size ar <= cap' * a_size ar.
Proof. apply Nat.mul_le_mono_r. exact Hcap. Qed.

Lemma ag_off : off + a_size ar = S (a_len ar) * a_size ar.
Proof. unfold off. simpl. lia. Qed.

Lemma ag_arrlen : forall x, x < length (w_heap w) ->
  length (nth x (hwrite h1 arr' off (repeat 0%Z (a_size ar))) []) = length (nth x (w_heap w) []).
Proof. intros x Hx. rewrite arrlen_hwrite. rewrite Hh1old; auto. Qed.

Lemma Inv_alloc_gen : Inv w'.
Proof.
  pose proof HI as [Hreg Hinj Hlen Hslen Hpl Hdj Hbd Hpool].
  constructor; unfold w'; simpl.
  - intros b0 k arr u c H. apply ag_regs in H. destruct H as [[-> [-> H]]|[Hne H]].
    + apply ag_new_inv in H. destruct H as [-> [-> ->]]. rewrite length_hwrite, arrlen_hwrite.
      split; auto. split; auto. apply ag_mul.
    + destruct (Hreg _ _ _ _ _ H) as [A [B C]]. rewrite length_hwrite. split; [lia|].
      rewrite ag_arrlen by auto. auto.
  - intros b0 k b1 k1 arr u c u1 c1 H H1. apply ag_regs in H. apply ag_regs in H1.
    destruct H as [[-> [-> H]]|[Hne H]]; destruct H1 as [[-> [-> H1]]|[Hne1 H1]]; auto.
    + apply ag_new_inv in H. destruct H as [-> [-> ->]]. exfalso. eapply ag_K; eauto.
    + apply ag_new_inv in H1. destruct H1 as [-> [-> ->]]. exfalso. eapply ag_K; eauto.
    + eapply Hinj; eauto.
  - intros b0 bk0 ar0 H Hin. apply nth_error_upd_inv in H. destruct H as [[-> ->]|[Hne H]].
    + simpl in Hin. apply In_upd in Hin. destruct Hin as [->|Hin]; [simpl; lia|].
      apply find_typ_In in Hin. destruct Hin as [Hin|[A B]]; [|lia]. eapply Hlen; eauto.
    + eapply Hlen; eauto.
  - intros b0 bk0 H. apply nth_error_upd_inv in H. destruct H as [[-> ->]|[Hne H]].
    + simpl. eapply Hslen; eauto.
    + eapply Hslen; eauto.
  - constructor.
    + right. simpl. intros b0 k u c H. apply ag_regs in H. destruct H as [[-> [-> H]]|[Hne H]].
      * apply ag_new_inv in H. destruct H as [_ [-> _]]. split; auto. rewrite ag_off. lia.
      * exfalso. eapply ag_K; eauto.
    + rewrite Forall_forall in *. intros a Ha. destruct (Nat.eq_dec (al_len a) 0) as [E0|E0]; [left; auto|right].
      destruct (Hpl a Ha) as [H0|H1]; [lia|].
      intros b0 k u c H. apply ag_regs in H. destruct H as [[-> [-> H]]|[Hne H]].
      * apply ag_new_inv in H. destruct H as [E1 [-> _]].
        destruct Hfresh as [F|F].
        -- destruct (Hbd a Ha) as [B0|[B1 B2]]; lia.
        -- rewrite <- ag_old in F. rewrite <- E1 in F. destruct (H1 _ _ _ _ F) as [A B].
           split; auto. simpl. lia.
      * eapply H1; eauto.
  - constructor; auto. rewrite Forall_forall in *. intros a Ha arr i [[E1 R1] [E2 R2]]. simpl in *.
    destruct (Hbd a Ha) as [B0|[B1 B2]]; [lia|].
    destruct Hfresh as [F|F]; [lia|].
    destruct (Hpl a Ha) as [H0|H1]; [lia|].
    rewrite <- ag_old in F. assert (E3 : arr' = al_arr a) by congruence. rewrite E3 in F.
    destruct (H1 _ _ _ _ F) as [A B]. unfold off in R1. lia.
  - constructor.
    + right. simpl. rewrite length_hwrite, arrlen_hwrite. split; auto.
      rewrite Hcaplen, ag_off. apply ag_mul.
    + eapply Forall_impl; [|exact Hbd]. intros a Ha. apply (in_bounds_mono (w_heap w)); auto.
      * rewrite length_hwrite. auto.
      * apply ag_arrlen.
  - auto.
Qed.

(* the slot handed out reads as zero, all of it lies inside its array *)
Lemma alloc_gen_zero : content (w_heap w') anew = repeat 0%Z (a_size ar).
Proof.
  unfold content, w'. simpl.
  assert (Hgen : forall n o, off <= o -> o + n <= off + a_size ar ->
            map (cell (hwrite h1 arr' off (repeat 0%Z (a_size ar))) arr') (seq o n) = repeat 0%Z n).
  { induction n as [|n IH]; intros o Ho Hn; simpl; auto. f_equal.
    - rewrite cell_hwrite_in; auto.
      + apply nth_repeat.
      + rewrite repeat_length. lia.
      + rewrite Hcaplen. pose proof ag_mul. pose proof ag_off. lia.
    - apply IH; lia. }
  apply Hgen; lia.
Qed.

End AllocGen.

(* instantiation: the two branches of  if rt.len == rt.cap  *)
Lemma alloc_step_cases : forall w b ty sz bk ar,
  Inv w -> nth_error (w_banks w) b = Some bk ->
  nth_error (fst (find_typ (b_types bk) ty sz)) (snd (find_typ (b_types bk) ty sz)) = Some ar ->
  exists arr' cap' h1,
    alloc_step w b ty sz =
      mkWorld (hwrite h1 arr' (a_len ar * a_size ar) (repeat 0%Z (a_size ar)))
              (upd b (mkBank (upd (snd (find_typ (b_types bk) ty sz))
                                  (mkArena (a_ty ar) (a_size ar) arr' cap' (S (a_len ar)))
                                  (fst (find_typ (b_types bk) ty sz)))
                             (s_arr bk) (s_cap bk) (s_len bk)) (w_banks w))
              (w_pool w) (w_bufs w) (mkAlloc b arr' (a_len ar * a_size ar) (a_size ar) :: w_live w) /\
    length (w_heap w) <= length h1 /\
    (forall x, x < length (w_heap w) -> nth x h1 [] = nth x (w_heap w) []) /\
    arr' < length h1 /\ length (nth arr' h1 []) = cap' * a_size ar /\ S (a_len ar) <= cap' /\
    (arr' = length (w_heap w) \/ arena_reg ar = Some (arr', a_len ar * a_size ar, cap' * a_size ar)).
Proof.
  intros w b ty sz bk ar HI Hbk Har. unfold alloc_step. rewrite Hbk, Har.
  pose proof (ag_len_ar w b bk ty sz ar HI Hbk Har) as Hle.
  destruct (Nat.eqb_spec (a_len ar) (a_cap ar)) as [E|E].
  - exists (length (w_heap w)), (Nat.max 16 (2 * a_cap ar)),
           (w_heap w ++ [repeat 0%Z (Nat.max 16 (2 * a_cap ar) * a_size ar)]).
    split; [reflexivity|]. rewrite app_length. cbn [length].
    split; [lia|]. split; [intros; apply nth_app_old; auto|]. split; [lia|].
    split; [rewrite nth_app_new; apply repeat_length|]. split; [lia|]. left. reflexivity.
  - assert (Hreg : arena_reg ar = Some (a_arr ar, a_len ar * a_size ar, a_cap ar * a_size ar)).
    { unfold arena_reg. destruct (Nat.ltb_spec 0 (a_cap ar)); [reflexivity|lia]. }
    pose proof (ag_old w b bk ty sz ar Hbk Har) as Hold. rewrite Hreg in Hold.
    destruct (inv_reg w HI _ _ _ _ _ Hold) as [A [B C]].
    exists (a_arr ar), (a_cap ar), (w_heap w).
    split; [reflexivity|]. split; [lia|]. split; [auto|]. split; [auto|]. split; [auto|].
    split; [lia|]. right. exact Hreg.
Qed.

Lemma Inv_alloc : forall w b ty sz, Inv w -> Inv (alloc_step w b ty sz).
Proof.
  intros w b ty sz HI.
  destruct (nth_error (w_banks w) b) as [bk|] eqn:Hbk.
  2:{ unfold alloc_step. rewrite Hbk. exact HI. }
  destruct (nth_error (fst (find_typ (b_types bk) ty sz)) (snd (find_typ (b_types bk) ty sz))) as [ar|] eqn:Har.
  2:{ unfold alloc_step. rewrite Hbk, Har. exact HI. }
  destruct (alloc_step_cases w b ty sz bk ar HI Hbk Har) as [arr' [cap' [h1 [E [H1 [H2 [H3 [H4 [H5 H6]]]]]]]]].
  rewrite E. eapply Inv_alloc_gen; eauto.
Qed.

(* ---- ToString ------------------------------------------------------------------------ *)

Lemma ts_regs : forall bs b bk sa sc sl b' k' r,
  nth_error bs b = Some bk ->
  wregion (upd b (mkBank (b_types bk) sa sc sl) bs) b' k' = Some r ->
  (b' = b /\ k' = None /\ 0 < sc /\ r = (sa, sl, sc)) \/
  (~ (b' = b /\ k' = None) /\ wregion bs b' k' = Some r).
Proof.
  intros bs b bk sa sc sl b' k' r Hbk H. destruct (Nat.eq_dec b' b) as [->|Hne].
  2:{ right. rewrite wregion_upd_other in H by auto. split; auto. tauto. }
  rewrite wregion_upd_same in H by (eapply nth_error_lt; eauto).
  destruct k' as [j'|]; simpl in H.
  - right. split; [intros [_ E]; discriminate|]. unfold wregion. rewrite Hbk. exact H.
  - left. destruct (Nat.ltb_spec 0 sc); [|discriminate]. inversion H. auto.
Qed.

Lemma ts_old : forall bs b bk, nth_error bs b = Some bk -> 0 < s_cap bk ->
  wregion bs b None = Some (s_arr bk, s_len bk, s_cap bk).
Proof.
  intros bs b bk Hbk Hc. unfold wregion. rewrite Hbk. simpl.
  destruct (Nat.ltb_spec 0 (s_cap bk)); [reflexivity|lia].
Qed.

Lemma Inv_tostring_gen : forall w b bk n sa sc h',
  Inv w -> nth_error (w_banks w) b = Some bk ->
  length (w_heap w) <= length h' ->
  (forall x, x < length (w_heap w) -> length (nth x h' []) = length (nth x (w_heap w) [])) ->
  (0 < sc -> sa < length h' /\ length (nth sa h' []) = sc) ->
  s_len bk + n <= sc ->
  (sa = length (w_heap w) \/ (sa = s_arr bk /\ sc = s_cap bk)) ->
  Inv (mkWorld h' (upd b (mkBank (b_types bk) sa sc (s_len bk + n)) (w_banks w)) (w_pool w) (w_bufs w)
               (mkAlloc b sa (s_len bk) n :: w_live w)).
Proof.
  intros w b bk n sa sc h' HI Hbk Hlen' Hold Hnew Hfit Hfresh.
  pose proof HI as [Hreg Hinj Hlen Hslen Hpl Hdj Hbd Hpool].
  assert (K : forall b' k' u c, 0 < sc -> ~ (b' = b /\ k' = None) ->
              wregion (w_banks w) b' k' = Some (sa, u, c) -> False).
  { intros b' k' u c Hsc Hne H. destruct (Hreg _ _ _ _ _ H) as [Hlt _].
    destruct Hfresh as [E|[E1 E2]]; [lia|]. subst sa sc.
    pose proof (ts_old _ _ _ Hbk Hsc) as Ho.
    destruct (Hinj _ _ _ _ _ _ _ _ _ H Ho) as [A B]. apply Hne. auto. }
  constructor; simpl.
  - intros b0 k arr u c H. apply (ts_regs _ _ _ _ _ _ _ _ _ Hbk) in H.
    destruct H as [[-> [-> [Hsc E]]]|[Hne H]].
    + inversion E; subst. destruct (Hnew Hsc) as [A B]. auto.
    + destruct (Hreg _ _ _ _ _ H) as [A [B C]]. split; [lia|]. rewrite Hold by auto. auto.
  - intros b0 k b1 k1 arr u c u1 c1 H H1.
    apply (ts_regs _ _ _ _ _ _ _ _ _ Hbk) in H. apply (ts_regs _ _ _ _ _ _ _ _ _ Hbk) in H1.
    destruct H as [[-> [-> [Hsc E]]]|[Hne H]]; destruct H1 as [[-> [-> [Hsc1 E1]]]|[Hne1 H1]]; auto.
    + inversion E; subst. exfalso. eapply K; eauto.
    + inversion E1; subst. exfalso. eapply K; eauto.
    + eapply Hinj; eauto.
  - intros b0 bk0 ar0 H Hin. apply nth_error_upd_inv in H. destruct H as [[-> ->]|[Hne H]].
    + simpl in Hin. eapply Hlen; eauto.
    + eapply Hlen; eauto.
  - intros b0 bk0 H. apply nth_error_upd_inv in H. destruct H as [[-> ->]|[Hne H]].
    + simpl. auto.
    + eapply Hslen; eauto.
  - constructor.
    + destruct (Nat.eq_dec n 0) as [E0|E0]; [left; auto|right]. simpl.
      intros b0 k u c H. apply (ts_regs _ _ _ _ _ _ _ _ _ Hbk) in H.
      destruct H as [[-> [-> [Hsc E]]]|[Hne H]].
      * inversion E; subst. split; auto.
      * exfalso. eapply (K b0 k u c); eauto. lia.
    + rewrite Forall_forall in *. intros a Ha.
      destruct (Nat.eq_dec (al_len a) 0) as [E0|E0]; [left; auto|right].
      destruct (Hpl a Ha) as [H0|H1]; [lia|].
      intros b0 k u c H. apply (ts_regs _ _ _ _ _ _ _ _ _ Hbk) in H.
      destruct H as [[-> [-> [Hsc E]]]|[Hne H]].
      * inversion E as [[E1 E2 E3]].
        destruct Hfresh as [F|[F1 F2]].
        -- destruct (Hbd a Ha) as [B0|[B1 B2]]; lia.
        -- assert (Hc : 0 < s_cap bk) by lia. pose proof (ts_old _ _ _ Hbk Hc) as Ho.
           rewrite <- F1, <- E1 in Ho. destruct (H1 _ _ _ _ Ho) as [A B]. split; auto. lia.
      * eapply H1; eauto.
  - constructor; auto. rewrite Forall_forall in *. intros a Ha arr i [[E1 R1] [E2 R2]]. simpl in *.
    destruct (Hbd a Ha) as [B0|[B1 B2]]; [lia|].
    destruct Hfresh as [F|[F1 F2]]; [lia|].
    destruct (Hpl a Ha) as [H0|H1]; [lia|].
    assert (Hc : 0 < s_cap bk) by lia. pose proof (ts_old _ _ _ Hbk Hc) as Ho.
    assert (E3 : s_arr bk = al_arr a) by congruence. rewrite E3 in Ho.
    destruct (H1 _ _ _ _ Ho) as [A B]. lia.
  - constructor.
    + destruct (Nat.eq_dec n 0) as [E0|E0]; [left; auto|right]. simpl.
      assert (Hsc : 0 < sc) by lia. destruct (Hnew Hsc) as [A B]. split; auto. lia.
    + eapply Forall_impl; [|exact Hbd]. intros a Ha. apply (in_bounds_mono (w_heap w)); auto.
  - auto.
Qed.

Lemma firstn_len_le : forall A (l : list A) n, n <= length l -> length (firstn n l) = n.
Proof. intros. rewrite firstn_length. lia. Qed.

(* what ToString does, in both branches of append *)
Lemma tostring_step_cases : forall w b bk data g,
  Inv w -> nth_error (w_banks w) b = Some bk ->
  (s_len bk + length data <= s_cap bk \/ s_len bk + length data <= g) ->
  exists sa sc h',
    tostring_step w b data g =
      mkWorld h' (upd b (mkBank (b_types bk) sa sc (s_len bk + length data)) (w_banks w)) (w_pool w) (w_bufs w)
              (mkAlloc b sa (s_len bk) (length data) :: w_live w) /\
    length (w_heap w) <= length h' /\
    (forall x, x < length (w_heap w) -> length (nth x h' []) = length (nth x (w_heap w) [])) /\
    (0 < sc -> sa < length h' /\ length (nth sa h' []) = sc) /\
    s_len bk + length data <= sc /\
    (sa = length (w_heap w) \/ (sa = s_arr bk /\ sc = s_cap bk)) /\
    (forall a i, a < length (w_heap w) ->
        ~ (a = sa /\ s_len bk <= i < s_len bk + length data) -> cell h' a i = cell (w_heap w) a i) /\
    (forall k, k < length data -> cell h' sa (s_len bk + k) = nth k data 0%Z).
Proof.
  intros w b bk data g HI Hbk Hwf. unfold tostring_step. rewrite Hbk.
  pose proof (inv_slen w HI _ _ Hbk) as Hsl.
  destruct (Nat.leb_spec (s_len bk + length data) (s_cap bk)) as [Hle|Hgt].
  - exists (s_arr bk), (s_cap bk), (hwrite (w_heap w) (s_arr bk) (s_len bk) data).
    split; [reflexivity|]. rewrite length_hwrite. split; [lia|].
    split; [intros; apply arrlen_hwrite|].
    assert (Hr : 0 < s_cap bk -> s_arr bk < length (w_heap w) /\ length (nth (s_arr bk) (w_heap w) []) = s_cap bk).
    { intro Hc. pose proof (ts_old _ _ _ Hbk Hc) as Ho. destruct (inv_reg w HI _ _ _ _ _ Ho) as [A [B C]]. auto. }
    split; [intro Hc; rewrite arrlen_hwrite; auto|]. split; [auto|]. split; [right; auto|].
    split.
    + intros a i Ha Hn. apply cell_hwrite_out. exact Hn.
    + intros k Hk. assert (Hc : 0 < s_cap bk) by lia. destruct (Hr Hc) as [A B].
      rewrite cell_hwrite_in; auto; try lia. f_equal. lia.
  - assert (Hg : s_len bk + length data <= g) by lia.
    set (na := firstn (s_len bk) (nth (s_arr bk) (w_heap w) []) ++ data ++ repeat 0%Z (g - s_len bk - length data)).
    assert (Hfl : length (firstn (s_len bk) (nth (s_arr bk) (w_heap w) [])) = s_len bk).
    { apply firstn_len_le. destruct (Nat.eq_dec (s_cap bk) 0) as [E|E]; [lia|].
      assert (Hc : 0 < s_cap bk) by lia. pose proof (ts_old _ _ _ Hbk Hc) as Ho.
      destruct (inv_reg w HI _ _ _ _ _ Ho) as [A [B C]]. lia. }
    exists (length (w_heap w)), g, (w_heap w ++ [na]).
    split; [reflexivity|]. rewrite app_length. cbn [length]. split; [lia|].
    split; [intros; rewrite nth_app_old; auto|].
    split.
    { intros _. rewrite nth_app_new. split; [lia|]. unfold na. rewrite !app_length, Hfl, repeat_length. lia. }
    split; [auto|]. split; [left; auto|]. split.
    + intros a i Ha _. apply cell_app_old. auto.
    + intros k Hk. unfold cell. rewrite nth_app_new. unfold na.
      rewrite app_nth2 by lia. rewrite Hfl. replace (s_len bk + k - s_len bk) with k by lia.
      rewrite app_nth1 by auto. reflexivity.
Qed.

Lemma Inv_tostring : forall w b data g, Inv w ->
  (forall bk, nth_error (w_banks w) b = Some bk ->
              s_len bk + length data <= s_cap bk \/ s_len bk + length data <= g) ->
  Inv (tostring_step w b data g).
Proof.
  intros w b data g HI Hwf.
  destruct (nth_error (w_banks w) b) as [bk|] eqn:Hbk.
  2:{ unfold tostring_step. rewrite Hbk. exact HI. }
  destruct (tostring_step_cases w b bk data g HI Hbk (Hwf bk eq_refl))
    as [sa [sc [h' [E [H1 [H2 [H3 [H4 [H5 _]]]]]]]]].
  rewrite E. apply Inv_tostring_gen; auto.
Qed.

(* ---- every operation preserves the invariant; all reachable worlds satisfy it ---------- *)

Lemma Inv_step : forall w o, Inv w -> wf_op w o -> Inv (step w o).
Proof.
  intros w o HI Hwf. destruct o as [c|c|h c|r ty sz|r data g|b|a off vs]; simpl in *.
  - apply Inv_get_bank; auto.
  - apply (Inv_bufs (fst (get_bank w c))). apply Inv_get_bank; auto.
  - apply (Inv_bufs (fst (get_bank w c))). apply Inv_get_bank; tauto.
  - destruct (resolve w r); auto. apply Inv_alloc; auto.
  - destruct Hwf as [_ Hg]. destruct (resolve w r) as [b|]; auto.
    apply Inv_tostring; auto. intros bk Hbk. apply (Hg b bk eq_refl Hbk).
  - apply Inv_close; tauto.
  - apply Inv_store; auto.
Qed.

Lemma Inv_run : forall ops w, Inv w -> wf_hist w ops -> Inv (run w ops).
Proof.
  induction ops as [|o r IH]; intros w HI Hwf; simpl in *; auto.
  destruct Hwf as [H1 H2]. apply IH; auto. apply Inv_step; auto.
Qed.

Lemma run_app : forall ops1 ops2 w, run w (ops1 ++ ops2) = run (run w ops1) ops2.
Proof. intros. unfold run. apply fold_left_app. Qed.

Lemma wf_hist_app : forall ops1 ops2 w, wf_hist w (ops1 ++ ops2) -> wf_hist w ops1 /\ wf_hist (run w ops1) ops2.
Proof.
  induction ops1 as [|o r IH]; intros ops2 w H; simpl in *; auto.
  destruct H as [H1 H2]. destruct (IH _ _ H2). tauto.
Qed.

(* ---- frame ------------------------------------------------------------------------------- *)

Lemma heap_get_bank : forall w c, w_heap (fst (get_bank w c)) = w_heap w.
Proof. intros w [b|]; reflexivity. Qed.

Lemma live_get_bank : forall w c, w_live (fst (get_bank w c)) = w_live w.
Proof. intros w [b|]; reflexivity. Qed.

Lemma in_alloc_bounds : forall h a arr i, in_bounds h a -> in_alloc a arr i -> arr < length (h : heap).
Proof. intros h a arr i [H0|[H1 H2]] [E R]; [lia|congruence]. Qed.

(* A step changes a cell of a live allocation only if it is a Store through that
   very allocation covering that cell. *)
Lemma frame_step : forall w o a arr i,
  Inv w -> wf_op w o -> In a (w_live w) -> in_alloc a arr i ->
  cell (w_heap (step w o)) arr i = cell (w_heap w) arr i \/
  exists off vs, o = Store a off vs /\ al_off a + off <= i < al_off a + off + length vs.
Proof.
  intros w o a arr i HI Hwf Ha Hi.
  pose proof (Inv_step w o HI Hwf) as HI'.
  assert (Hlt : arr < length (w_heap w)).
  { eapply in_alloc_bounds; eauto. pose proof (inv_bounds w HI) as Hb. rewrite Forall_forall in Hb. auto. }
  destruct o as [c|c|h c|r ty sz|r data g|b|a' off vs]; simpl in *.
  - left. rewrite heap_get_bank. reflexivity.
  - left. rewrite heap_get_bank. reflexivity.
  - left. rewrite heap_get_bank. reflexivity.
  - left. destruct (resolve w r) as [b|]; auto.
    destruct (nth_error (w_banks w) b) as [bk|] eqn:Hbk.
    2:{ unfold alloc_step. rewrite Hbk. reflexivity. }
    destruct (nth_error (fst (find_typ (b_types bk) ty sz)) (snd (find_typ (b_types bk) ty sz))) as [ar|] eqn:Har.
    2:{ unfold alloc_step. rewrite Hbk, Har. reflexivity. }
    destruct (alloc_step_cases w b ty sz bk ar HI Hbk Har) as [arr' [cap' [h1 [E [H1 [H2 [H3 [H4 [H5 H6]]]]]]]]].
    rewrite E in *. simpl in *.
    pose proof (inv_disj _ HI') as Hd. simpl in Hd. inversion Hd as [|x l Hx Hl]; subst.
    rewrite Forall_forall in Hx. specialize (Hx a Ha).
    rewrite cell_hwrite_out.
    + unfold cell. rewrite H2; auto.
    + intros [E1 R1]. apply (Hx arr i). split; auto. split; simpl; auto. rewrite repeat_length in R1. exact R1.
  - left. destruct Hwf as [_ Hg]. destruct (resolve w r) as [b|]; auto.
    destruct (nth_error (w_banks w) b) as [bk|] eqn:Hbk.
    2:{ unfold tostring_step. rewrite Hbk. reflexivity. }
    destruct (tostring_step_cases w b bk data g HI Hbk (Hg b bk eq_refl Hbk))
      as [sa [sc [h' [E [H1 [H2 [H3 [H4 [H5 [H6 H7]]]]]]]]]].
    rewrite E in *. simpl in *.
    pose proof (inv_disj _ HI') as Hd. simpl in Hd. inversion Hd as [|x l Hx Hl]; subst.
    rewrite Forall_forall in Hx. specialize (Hx a Ha).
    apply H6; auto. intros [E1 R1]. apply (Hx arr i). split; auto. split; simpl; auto.
  - left. unfold close_step. destruct (nth_error (w_banks w) b); reflexivity.
  - destruct Hwf as [Ha' Hext].
    destruct (Nat.eq_dec (al_arr a') arr) as [Ea|Ea].
    + destruct (Nat.le_gt_cases (al_off a' + off) i) as [L1|L1].
      * destruct (Nat.lt_ge_cases i (al_off a' + off + length vs)) as [L2|L2].
        -- right. assert (Eq : a' = a).
           { eapply (FOP_share (w_live w)); eauto; [apply inv_disj; auto|]. split; auto. lia. }
           subst a'. exists off, vs. split; auto.
        -- left. apply cell_hwrite_out. lia.
      * left. apply cell_hwrite_out. lia.
    + left. apply cell_hwrite_out. intros [E _]. congruence.
Qed.

Lemma content_ext : forall h h' a,
  (forall arr i, in_alloc a arr i -> cell h' arr i = cell h arr i) -> content h' a = content h a.
Proof.
  intros h h' a H. unfold content. apply map_ext_in. intros i Hi. apply in_seq in Hi.
  apply H. split; auto.
Qed.

Definition closes (o : op) (b : nat) : Prop := o = Close b.
Definition stores_through (o : op) (a : alloc) : Prop := exists off vs, o = Store a off vs.

Lemma live_step : forall w o a, In a (w_live w) -> o <> Close (al_bank a) -> In a (w_live (step w o)).
Proof.
  intros w o a Ha Hc. destruct o as [c|c|h c|r ty sz|r data g|b|a' off vs]; simpl.
  - rewrite live_get_bank. auto.
  - rewrite live_get_bank. auto.
  - rewrite live_get_bank. auto.
  - destruct (resolve w r) as [b|]; auto. unfold alloc_step.
    destruct (nth_error (w_banks w) b); auto.
    destruct (nth_error _ _); auto. simpl. auto.
  - destruct (resolve w r) as [b|]; auto. unfold tostring_step.
    destruct (nth_error (w_banks w) b); auto.
    destruct (_ <=? _); simpl; auto.
  - unfold close_step. destruct (nth_error (w_banks w) b); auto. simpl.
    apply filter_In. split; auto. apply negb_true_iff. apply Nat.eqb_neq. congruence.
  - auto.
Qed.

(* Over any stretch of a history in which the bank of a live allocation is not closed
   and nobody stores through that allocation, its content does not change and it stays live. *)
Lemma frame_run : forall ops w a,
  Inv w -> wf_hist w ops -> In a (w_live w) ->
  (forall o, In o ops -> o <> Close (al_bank a)) ->
  (forall o, In o ops -> ~ stores_through o a) ->
  content (w_heap (run w ops)) a = content (w_heap w) a /\ In a (w_live (run w ops)).
Proof.
  induction ops as [|o r IH]; intros w a HI Hwf Ha Hnc Hns; simpl in *; auto.
  destruct Hwf as [Hwo Hwr].
  assert (Hc : o <> Close (al_bank a)) by (apply Hnc; auto).
  destruct (IH (step w o) a) as [E L]; auto.
  - apply Inv_step; auto.
  - apply live_step; auto.
  - split; auto. rewrite E. apply content_ext. intros arr i Hi.
    destruct (frame_step w o a arr i HI Hwo Ha Hi) as [F|[off [vs [Eo _]]]]; auto.
    exfalso. apply (Hns o); auto. exists off, vs. exact Eo.
Qed.

(* ---- what Alloc and ToString return ------------------------------------------------------ *)

Lemma alloc_result : forall w r ty sz,
  Inv w -> wf_op w (Alloc r ty sz) ->
  exists a bk, w_live (step w (Alloc r ty sz)) = a :: w_live w /\
    resolve w r = Some (al_bank a) /\ nth_error (w_banks w) (al_bank a) = Some bk /\
    al_len a = match find_idx ty (b_types bk) with
               | Some j => a_size (nth j (b_types bk) (mkArena 0 0 0 0 0))
               | None => sz end /\
    content (w_heap (step w (Alloc r ty sz))) a = repeat 0%Z (al_len a) /\
    in_bounds (w_heap (step w (Alloc r ty sz))) a.
Proof.
  intros w r ty sz HI [b [Hr [Hb Hnp]]]. simpl. rewrite Hr.
  destruct (nth_error (w_banks w) b) as [bk|] eqn:Hbk.
  2:{ apply nth_error_None in Hbk. lia. }
  destruct (nth_error (fst (find_typ (b_types bk) ty sz)) (snd (find_typ (b_types bk) ty sz))) as [ar|] eqn:Har.
  2:{ exfalso. apply nth_error_None in Har. unfold find_typ in Har.
      destruct (find_idx ty (b_types bk)) as [j|] eqn:Ej; simpl in Har.
      - apply find_idx_lt in Ej. lia.
      - rewrite app_length in Har. simpl in Har. lia. }
  destruct (alloc_step_cases w b ty sz bk ar HI Hbk Har) as [arr' [cap' [h1 [E [H1 [H2 [H3 [H4 [H5 H6]]]]]]]]].
  pose proof (Inv_alloc w b ty sz HI) as HI'. rewrite E in *. simpl.
  exists (mkAlloc b arr' (a_len ar * a_size ar) (a_size ar)), bk. simpl.
  split; auto. split; auto. split; auto. split; [eapply find_typ_size; eauto|].
  split.
  - eapply (alloc_gen_zero w b bk ty sz ar arr' cap' h1); eauto.
  - pose proof (inv_bounds _ HI') as Hb'. simpl in Hb'. inversion Hb'; auto.
Qed.

Lemma map_seq_nth : forall (data : list Z) f s,
  (forall k, k < length data -> f (s + k) = nth k data 0%Z) -> map f (seq s (length data)) = data.
Proof.
  induction data as [|x r IH]; intros f s H; simpl; auto. f_equal.
  - specialize (H 0). simpl in H. rewrite Nat.add_0_r in H. apply H. lia.
  - apply IH. intros k Hk. replace (S s + k) with (s + S k) by lia. rewrite H by (simpl; lia). reflexivity.
Qed.

Lemma tostring_result : forall w r data g,
  Inv w -> wf_op w (ToString r data g) ->
  exists a, w_live (step w (ToString r data g)) = a :: w_live w /\
    resolve w r = Some (al_bank a) /\
    content (w_heap (step w (ToString r data g))) a = data /\
    in_bounds (w_heap (step w (ToString r data g))) a.
Proof.
  intros w r data g HI [[b [Hr [Hb Hnp]]] Hg]. simpl. rewrite Hr.
  destruct (nth_error (w_banks w) b) as [bk|] eqn:Hbk.
  2:{ apply nth_error_None in Hbk. lia. }
  destruct (tostring_step_cases w b bk data g HI Hbk (Hg b bk Hr Hbk))
    as [sa [sc [h' [E [H1 [H2 [H3 [H4 [H5 [H6 H7]]]]]]]]]].
  assert (HI' : Inv (tostring_step w b data g)).
  { apply Inv_tostring; auto. intros bk0 E0. apply (Hg b bk0 Hr E0). }
  rewrite E in *. simpl.
  exists (mkAlloc b sa (s_len bk) (length data)). simpl. split; auto. split; auto. split.
  - unfold content. simpl. apply map_seq_nth. exact H7.
  - pose proof (inv_bounds _ HI') as Hb'. simpl in Hb'. inversion Hb'; auto.
Qed.

(* ---- the pool hands a bank to one holder at a time -------------------------------------- *)

Lemma pool_exclusive : forall w b,
  Inv w -> wf_op w (Get (Some b)) ->
  ~ In b (w_pool (step w (Get (Some b)))) /\ ~ wf_op (step w (Get (Some b))) (Get (Some b)).
Proof.
  intros w b HI Hwf. simpl. destruct (remove_one_NoDup b (w_pool w) (inv_pool w HI)) as [_ H].
  split; auto.
Qed.

(* ---- the executable well-formedness test implies the declarative one --------------------- *)

Lemma memb_In : forall b l, memb b l = true <-> In b l.
Proof.
  intros b l. unfold memb. rewrite existsb_exists. split.
  - intros [x [Hx E]]. apply Nat.eqb_eq in E. subst. auto.
  - intro H. exists b. split; auto. apply Nat.eqb_refl.
Qed.

Lemma alloc_eqb_eq : forall a a', alloc_eqb a a' = true -> a = a'.
Proof.
  intros [b1 r1 o1 l1] [b2 r2 o2 l2] H. unfold alloc_eqb in H. simpl in H.
  repeat (apply andb_prop in H; destruct H as [H ?]).
  repeat match goal with E : Nat.eqb _ _ = true |- _ => apply Nat.eqb_eq in E end. subst. reflexivity.
Qed.

Lemma choice_okb_sound : forall w c, choice_okb w c = true -> choice_ok w c.
Proof. intros w [b|] H; simpl in *; auto. apply memb_In. auto. Qed.

Lemma usableb_sound : forall w r, usableb w r = true -> usable w r.
Proof.
  intros w r H. unfold usableb in H. destruct (resolve w r) as [b|] eqn:Hr; [|discriminate].
  apply andb_prop in H. destruct H as [H1 H2]. exists b. split; auto.
  apply Nat.ltb_lt in H1. split; auto. intro Hin. apply memb_In in Hin. rewrite Hin in H2. discriminate.
Qed.

Lemma wf_opb_sound : forall w o, wf_opb w o = true -> wf_op w o.
Proof.
  intros w o H. destruct o as [c|c|h c|r ty sz|r data g|b|a off vs]; simpl in *.
  - apply choice_okb_sound; auto.
  - apply choice_okb_sound; auto.
  - apply andb_prop in H. destruct H as [H1 H2]. apply Nat.ltb_lt in H1. split; auto. apply choice_okb_sound; auto.
  - apply usableb_sound; auto.
  - apply andb_prop in H. destruct H as [H1 H2]. split; [apply usableb_sound; auto|].
    intros b bk Hr Hbk. rewrite Hr, Hbk in H2. apply orb_prop in H2.
    destruct H2 as [H2|H2]; apply Nat.leb_le in H2; auto.
  - apply andb_prop in H. destruct H as [H1 H2]. apply Nat.ltb_lt in H1. split; auto.
    intro Hin. apply memb_In in Hin. rewrite Hin in H2. discriminate.
  - apply andb_prop in H. destruct H as [H1 H2]. apply Nat.leb_le in H2. split; auto.
    apply existsb_exists in H1. destruct H1 as [x [Hx E]]. apply alloc_eqb_eq in E. subst. auto.
Qed.

Lemma wf_histb_sound : forall ops w, wf_histb w ops = true -> wf_hist w ops.
Proof.
  induction ops as [|o r IH]; intros w H; simpl in *; auto.
  apply andb_prop in H. destruct H as [H1 H2]. split; [apply wf_opb_sound; auto|apply IH; auto].
Qed.

(* ---- statements over all histories from the empty world ---------------------------------- *)

Lemma reach_Inv : forall ops, wf_hist init ops -> Inv (run init ops).
Proof. intros. apply Inv_run; auto. apply Inv_init. Qed.

Lemma top_disjoint : forall ops, wf_hist init ops -> ForallOrdPairs disjoint (w_live (run init ops)).
Proof. intros ops H. apply inv_disj. apply reach_Inv. auto. Qed.

Lemma top_in_bounds : forall ops, wf_hist init ops ->
  Forall (in_bounds (w_heap (run init ops))) (w_live (run init ops)).
Proof. intros ops H. apply inv_bounds. apply reach_Inv. auto. Qed.

Lemma run_snoc : forall w pre o, run w (pre ++ [o]) = step (run w pre) o.
Proof. intros. rewrite run_app. reflexivity. Qed.

Lemma wf_snoc : forall pre o, wf_hist init (pre ++ [o]) -> Inv (run init pre) /\ wf_op (run init pre) o.
Proof.
  intros pre o H. apply wf_hist_app in H. destruct H as [H1 H2]. simpl in H2.
  split; [apply reach_Inv; auto|tauto].
Qed.

Lemma top_frame_step : forall pre o a arr i,
  wf_hist init (pre ++ [o]) -> In a (w_live (run init pre)) -> in_alloc a arr i ->
  cell (w_heap (run init (pre ++ [o]))) arr i = cell (w_heap (run init pre)) arr i \/
  exists off vs, o = Store a off vs /\ al_off a + off <= i < al_off a + off + length vs.
Proof.
  intros pre o a arr i H Ha Hi. destruct (wf_snoc _ _ H) as [HI Hwf]. rewrite run_snoc.
  apply frame_step; auto.
Qed.

Lemma top_frame : forall pre seg a,
  wf_hist init (pre ++ seg) -> In a (w_live (run init pre)) ->
  (forall o, In o seg -> o <> Close (al_bank a)) ->
  (forall o off vs, In o seg -> o <> Store a off vs) ->
  content (w_heap (run init (pre ++ seg))) a = content (w_heap (run init pre)) a /\
  In a (w_live (run init (pre ++ seg))).
Proof.
  intros pre seg a H Ha Hc Hs. apply wf_hist_app in H. destruct H as [H1 H2]. rewrite run_app.
  apply frame_run; auto.
  - apply reach_Inv; auto.
  - intros o Ho [off [vs E]]. apply (Hs o off vs Ho E).
Qed.

Lemma top_zeroed : forall pre r ty sz,
  wf_hist init (pre ++ [Alloc r ty sz]) ->
  exists a bk, w_live (run init (pre ++ [Alloc r ty sz])) = a :: w_live (run init pre) /\
    resolve (run init pre) r = Some (al_bank a) /\
    nth_error (w_banks (run init pre)) (al_bank a) = Some bk /\
    al_len a = match find_idx ty (b_types bk) with
               | Some j => a_size (nth j (b_types bk) (mkArena 0 0 0 0 0))
               | None => sz end /\
    content (w_heap (run init (pre ++ [Alloc r ty sz]))) a = repeat 0%Z (al_len a) /\
    in_bounds (w_heap (run init (pre ++ [Alloc r ty sz]))) a.
Proof.
  intros pre r ty sz H. destruct (wf_snoc _ _ H) as [HI Hwf]. rewrite run_snoc.
  apply alloc_result; auto.
Qed.

Lemma top_string : forall pre r data g,
  wf_hist init (pre ++ [ToString r data g]) ->
  exists a, w_live (run init (pre ++ [ToString r data g])) = a :: w_live (run init pre) /\
    resolve (run init pre) r = Some (al_bank a) /\
    content (w_heap (run init (pre ++ [ToString r data g]))) a = data /\
    in_bounds (w_heap (run init (pre ++ [ToString r data g]))) a.
Proof.
  intros pre r data g H. destruct (wf_snoc _ _ H) as [HI Hwf]. rewrite run_snoc.
  apply tostring_result; auto.
Qed.

Lemma top_pool : forall pre b,
  wf_hist init (pre ++ [Get (Some b)]) ->
  ~ In b (w_pool (run init (pre ++ [Get (Some b)]))) /\
  ~ wf_op (run init (pre ++ [Get (Some b)])) (Get (Some b)).
Proof.
  intros pre b H. destruct (wf_snoc _ _ H) as [HI Hwf]. rewrite run_snoc. apply pool_exclusive; auto.
Qed.

(* Close ends the life of exactly the allocations of that bank, and of no other *)
Lemma top_close : forall pre b,
  wf_hist init (pre ++ [Close b]) ->
  forall a, In a (w_live (run init (pre ++ [Close b]))) <->
            (In a (w_live (run init pre)) /\ al_bank a <> b).
Proof.
  intros pre b H a. destruct (wf_snoc _ _ H) as [HI [Hb Hnp]]. rewrite run_snoc. simpl.
  unfold close_step. destruct (nth_error (w_banks (run init pre)) b) eqn:E.
  2:{ apply nth_error_None in E. lia. }
  simpl. rewrite filter_In. rewrite negb_true_iff, Nat.eqb_neq. tauto.
Qed.

(* ---- a faster reading of an allocation's content (used when evaluating cases) ------------- *)

Lemma map_nth_seq : forall (l : list Z) off n, off + n <= length l ->
  map (fun i => nth i l 0%Z) (seq off n) = firstn n (skipn off l).
Proof.
  intros l off. revert l. induction off as [|o IHo]; intros l n H.
  - simpl. revert l H. induction n as [|n IHn]; intros l H; simpl; auto.
    destruct l as [|x r]; simpl in *; [lia|]. f_equal.
    rewrite <- seq_shift, map_map. simpl. apply IHn. lia.
  - destruct l as [|x r]; simpl in *.
    + destruct n; [reflexivity|lia].
    + rewrite <- seq_shift, map_map. simpl. apply IHo. lia.
Qed.

Lemma fcontent_eq : forall h a, in_bounds h a -> fcontent h a = content h a.
Proof.
  intros h a [H0|[H1 H2]]; unfold fcontent, content, cell.
  - rewrite H0. reflexivity.
  - symmetry. apply map_nth_seq. auto.
Qed.
