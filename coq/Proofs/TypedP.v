(* C05 (typed) / C06 (no panic on the decode path): a codec for Go type t, run on
   ANY byte string with a destination of type t, never panics, and whatever it
   returns is again a value of type t. *)
From Coq Require Import List ZArith Lia Bool.
Require Import Avro.Model.Base Avro.Model.Prim Avro.Model.Schema Avro.Model.GoType
               Avro.Model.Blocks Avro.Model.Time Avro.Model.Spec Avro.Model.Codec Avro.Model.Typing.
Require Import Avro.Proofs.BlocksP Avro.Proofs.CodecInd Avro.Proofs.CodecEq Avro.Proofs.SafeP Avro.Proofs.TimeP.
Import ListNotations.
Open Scope Z_scope.

(* ---- named forms of the loops inside wt / ctype ---- *)
Fixpoint wt_all (e : gtype) (l : list gval) {struct l} : Prop :=
  match l with [] => True | x :: r => wt e x /\ wt_all e r end.
Fixpoint wt_kvs (e : gtype) (l : list (bytes * gval)) {struct l} : Prop :=
  match l with [] => True | (_, x) :: r => wt e x /\ wt_kvs e r end.
Fixpoint wt_fields (fl : list gfield) (l : list gval) {struct fl} : Prop :=
  match fl, l with
  | [], [] => True
  | GF _ _ _ _ ft :: fr, x :: r => wt ft x /\ wt_fields fr r
  | _, _ => False
  end.

Lemma wt_all_eq e vs :
  (fix all (l : list gval) {struct l} : Prop := match l with [] => True | x :: r => wt e x /\ all r end) vs = wt_all e vs.
Proof. induction vs as [|x r IH]; [reflexivity|]. cbn [wt_all]. rewrite <- IH. reflexivity. Qed.
Lemma wt_kvs_eq e kvs :
  (fix all (l : list (bytes * gval)) {struct l} : Prop := match l with [] => True | (_, x) :: r => wt e x /\ all r end) kvs = wt_kvs e kvs.
Proof. induction kvs as [|[k x] r IH]; [reflexivity|]. cbn [wt_kvs]. rewrite <- IH. reflexivity. Qed.
Lemma wt_fields_eq fl vs :
  (fix all (fl : list gfield) (l : list gval) {struct fl} : Prop :=
     match fl, l with
     | [], [] => True
     | GF _ _ _ _ ft :: fr, x :: r => wt ft x /\ all fr r
     | _, _ => False
     end) fl vs = wt_fields fl vs.
Proof.
  revert vs. induction fl as [|[fn ex js bq ft] fr IH]; intros [|x r]; first [reflexivity | cbn [wt_fields]; rewrite <- IH; reflexivity].
Qed.

Lemma wt_slice e v : is_u8 e = false -> (wt (TSlice e) v <-> exists vs, v = VSlice vs /\ wt_all e vs).
Proof.
  intros Hu. cbn [wt]. rewrite Hu. split; intros (vs & -> & H); exists vs; (split; [reflexivity|]).
  - rewrite <- wt_all_eq. exact H.
  - rewrite wt_all_eq. exact H.
Qed.
Lemma wt_map k e v : wt (TMap k e) v <-> v = VMapNil \/ exists kvs, v = VMap kvs /\ wt_kvs e kvs.
Proof.
  cbn [wt]. split; (intros [H|(kvs & -> & H)]; [left; exact H|right; exists kvs; split; [reflexivity|]]).
  - rewrite <- wt_kvs_eq. exact H.
  - rewrite wt_kvs_eq. exact H.
Qed.
Lemma wt_struct n p fl v : wt (TStruct n p fl) v <-> exists vs, v = VStruct vs /\ wt_fields fl vs.
Proof.
  cbn [wt]. split; intros (vs & -> & H); exists vs; (split; [reflexivity|]).
  - rewrite <- wt_fields_eq. exact H.
  - rewrite wt_fields_eq. exact H.
Qed.

Lemma wt_underlying t v : wt t v <-> wt (underlying t) v.
Proof. induction t; try reflexivity. cbn [underlying wt]. exact IHt. Qed.

Lemma wt_all_app e a b0 : wt_all e a -> wt_all e b0 -> wt_all e (a ++ b0).
Proof. induction a as [|x r IH]; cbn; [auto|]. intros [H1 H2] Hb. split; auto. Qed.
Lemma wt_kvs_app e a b0 : wt_kvs e a -> wt_kvs e b0 -> wt_kvs e (a ++ b0).
Proof. induction a as [|[k x] r IH]; cbn; [auto|]. intros [H1 H2] Hb. split; auto. Qed.

Lemma wt_fields_nth fl : forall vs j gf, wt_fields fl vs -> nth_error fl j = Some gf -> wt (gf_type gf) (nth j vs VBad).
Proof.
  induction fl as [|[fn ex js bq ft] fr IH]; intros vs j gf H Hn; [destruct j; discriminate|].
  destruct vs as [|x r]; [contradiction|]. destruct H as [H1 H2]. destruct j; cbn in Hn |- *.
  - injection Hn as <-. exact H1.
  - eapply IH; eauto.
Qed.
Lemma wt_fields_update fl : forall vs j gf v, wt_fields fl vs -> nth_error fl j = Some gf -> wt (gf_type gf) v ->
  wt_fields fl (list_update vs j v).
Proof.
  induction fl as [|[fn ex js bq ft] fr IH]; intros vs j gf v H Hn Hv; [destruct j; discriminate|].
  destruct vs as [|x r]; [contradiction|]. destruct H as [H1 H2]. destruct j; cbn in Hn |- *.
  - injection Hn as <-. split; assumption.
  - split; [exact H1|]. eapply IH; eauto.
Qed.

(* ---- the lax block loop preserves an invariant and never panics ---- *)
Section BlocksInv.
  Context {A : Type} (item : A -> bytes -> out A) (Inv : A -> Prop).
  Hypothesis Hitem : forall a bs, Inv a -> item a bs <> Panic /\ (forall a' r, item a bs = Done a' r -> Inv a').

  Lemma blocks_items_inv : forall f,
    (forall a bs, Inv a -> blocks false item f a bs <> Panic /\ (forall a' r, blocks false item f a bs = Done a' r -> Inv a')) /\
    (forall n e a bs, Inv a -> items false item f n e a bs <> Panic /\ (forall a' r, items false item f n e a bs = Done a' r -> Inv a')).
  Proof.
    induction f as [|f [IHb IHi]]; [split; intros; (split; [discriminate|intros; discriminate])|]. split.
    - intros a bs Ha. cbn [blocks]. unfold rdv.
      pose proof (rd_varint_total bs) as Ht. destruct (rd_varint bs) as [cnt r| | |]; cbn [obind]; try contradiction;
        [|split; [discriminate|intros; discriminate]].
      destruct (cnt =? 0); [split; [discriminate|intros a' r' E; injection E as <- _; exact Ha]|].
      destruct (cnt <? 0); [|apply IHi; exact Ha].
      pose proof (rd_varint_total r) as Ht2. destruct (rd_varint r) as [sz r'| | |]; cbn [obind]; try contradiction;
        [|split; [discriminate|intros; discriminate]].
      apply IHi; exact Ha.
    - intros n e a bs Ha. cbn [items]. destruct (n <=? 0).
      + destruct e as [e|]; [destruct (len bs =? e); [apply IHb; exact Ha|split; [discriminate|intros; discriminate]]|apply IHb; exact Ha].
      + destruct (Hitem a bs Ha) as [Hnp Hd]. destruct (item a bs) as [a1 r1| | |] eqn:E; cbn [obind];
          try (split; [discriminate|intros; discriminate]).
        * apply IHi. eapply Hd. reflexivity.
        * contradiction.
  Qed.
End BlocksInv.

(* primitive readers never panic *)
Lemma obind_np {A B} (o : out A) (k : A -> bytes -> out B) :
  o <> Panic -> (forall a r, o = Done a r -> k a r <> Panic) -> obind o k <> Panic.
Proof. intros Ho Hk. destruct o; cbn [obind]; try discriminate; [apply Hk; reflexivity|contradiction]. Qed.

Lemma int_read_np w bs : int_read w bs <> Panic.
Proof. unfold int_read. destruct (dec_varint bs) as [[i r]| |]; try discriminate. destruct (int_fits w i); discriminate. Qed.
Lemma rd_next_np l bs : rd_next l bs <> Panic.
Proof. unfold rd_next. destruct ((l <? 0) || (len bs <? l)); discriminate. Qed.
Lemma float_read_np n bs : float_read n bs <> Panic.
Proof. unfold float_read. apply obind_np; [apply rd_next_np|discriminate]. Qed.
Lemma rd_varint_np bs : rd_varint bs <> Panic.
Proof. unfold rd_varint. destruct (dec_varint bs) as [[v r]| |]; discriminate. Qed.
Lemma string_read_np bs : string_read bs <> Panic.
Proof. unfold string_read. apply obind_np; [apply rd_varint_np|]. intros l r _. destruct (l <? 0); [discriminate|apply rd_next_np]. Qed.
Lemma bool_read_np bs : bool_read bs <> Panic.
Proof. unfold bool_read. destruct bs; discriminate. Qed.
Lemma bytes_read_np bs : bytes_read bs <> Panic.
Proof.
  unfold bytes_read. apply obind_np; [apply rd_varint_np|]. intros l r _. destruct (l =? 0); [discriminate|].
  apply obind_np; [apply rd_next_np|discriminate].
Qed.
Lemma time_string_read_np dest bs : time_string_read dest bs <> Panic.
Proof.
  unfold time_string_read. apply obind_np; [apply rd_varint_np|]. intros l r _. destruct (l =? 0); [discriminate|].
  apply obind_np; [apply rd_next_np|]. intros data r' _. pose proof (parse_time_no_panic data). destruct (parse_time data); try discriminate. contradiction.
Qed.

(* induction over Go types with the field list of a struct as a nested hypothesis *)
Section GtypeInd.
  Variable P : gtype -> Prop.
  Hypothesis HBool : P TBool.
  Hypothesis HInt : forall k, P (TInt k).
  Hypothesis HF32 : P TFloat32.
  Hypothesis HF64 : P TFloat64.
  Hypothesis HCx : P TComplex.
  Hypothesis HStr : P TString.
  Hypothesis HSlice : forall e, P e -> P (TSlice e).
  Hypothesis HArray : forall n e, P e -> P (TArray n e).
  Hypothesis HMap : forall k e, P k -> P e -> P (TMap k e).
  Hypothesis HPtr : forall e, P e -> P (TPtr e).
  Hypothesis HStruct : forall n p fields, Forall (fun f => P (gf_type f)) fields -> P (TStruct n p fields).
  Hypothesis HWrap : forall w, P (TWrap w).
  Hypothesis HNamed : forall id u, P u -> P (TNamed id u).
  Hypothesis HSelf : forall k, P (TSelf k).
  Hypothesis HIface : P TIface.
  Hypothesis HChan : P TChan.
  Hypothesis HFunc : P TFunc.
  Hypothesis HUPtr : P TUnsafePtr.

  Fixpoint gtype_ind' (t : gtype) : P t :=
    match t with
    | TBool => HBool | TInt k => HInt k | TFloat32 => HF32 | TFloat64 => HF64 | TComplex => HCx | TString => HStr
    | TSlice e => HSlice e (gtype_ind' e)
    | TArray n e => HArray n e (gtype_ind' e)
    | TMap k e => HMap k e (gtype_ind' k) (gtype_ind' e)
    | TPtr e => HPtr e (gtype_ind' e)
    | TStruct n p fields =>
        HStruct n p fields ((fix go (l : list gfield) : Forall (fun f => P (gf_type f)) l :=
                               match l with
                               | [] => Forall_nil _
                               | f :: r => Forall_cons f (match f return P (gf_type f) with GF _ _ _ _ ft => gtype_ind' ft end) (go r)
                               end) fields)
    | TWrap w => HWrap w
    | TNamed id u => HNamed id u (gtype_ind' u)
    | TSelf k => HSelf k
    | TIface => HIface | TChan => HChan | TFunc => HFunc | TUnsafePtr => HUPtr
    end.
End GtypeInd.

Fixpoint zero_fields (l : list gfield) {struct l} : list gval :=
  match l with [] => [] | GF _ _ _ _ ft :: r => zero_of ft :: zero_fields r end.
Lemma zero_of_struct n p fields : zero_of (TStruct n p fields) = VStruct (zero_fields fields).
Proof. reflexivity. Qed.

Lemma zero_wt : forall t, wt t (zero_of t).
Proof.
  induction t using gtype_ind'; try (cbn; eauto; fail).
  - cbn [wt zero_of]. destruct (is_u8 t); [eauto|exists []; split; [reflexivity|exact I]].
  - cbn [wt zero_of]. destruct (is_u8 t); [eauto|reflexivity].
  - rewrite zero_of_struct. apply wt_struct. eexists. split; [reflexivity|].
    induction H as [|[fn ex js bq ft] r Hf _ IH]; cbn; [exact I|]. split; [exact Hf|exact IH].
  - destruct w; exact I.
Qed.

Definition safe_read (fuel : nat) (c : codec) (t : gtype) : Prop :=
  forall dest bs, wt t dest ->
    c_read fuel c dest bs <> Panic /\ (forall v r, c_read fuel c dest bs = Done v r -> wt t v).

Ltac done_inv H := let a := fresh "a" in let r0 := fresh "r" in let Ho := fresh "Ho" in
  apply obind_done in H; destruct H as (a & r0 & Ho & H).

Ltac wt_absurd H :=
  first [ discriminate H
        | (let x := fresh in destruct H as [x H]; discriminate H)
        | (let x := fresh in let E := fresh in destruct H as (x & E & _); discriminate E)
        | (let x := fresh in let E := fresh in destruct H as [H | (x & E & _)]; [discriminate H | discriminate E]) ].

Lemma wt_int_any : forall t z z', wt t (VInt z) -> wt t (VInt z').
Proof.
  induction t using gtype_ind'; intros z z' Hv; cbn [wt] in *; try (wt_absurd Hv; fail).
  - eauto.
  - destruct (is_u8 t); wt_absurd Hv.
  - destruct (is_u8 t); wt_absurd Hv.
  - destruct w; contradiction.
  - eauto.
Qed.
Lemma wt_str_any : forall t x x', wt t (VStr x) -> wt t (VStr x').
Proof.
  induction t using gtype_ind'; intros x x' Hv; cbn [wt] in *; try (wt_absurd Hv; fail).
  - eauto.
  - destruct (is_u8 t); wt_absurd Hv.
  - destruct (is_u8 t); wt_absurd Hv.
  - destruct w; contradiction.
  - eauto.
Qed.

Lemma cx_wt k : forall t v, wt t v -> wt t (cx k v).
Proof.
  intros t v Hv. destruct v; cbn [cx]; try exact Hv.
  - eapply wt_int_any; eauto.
  - eapply wt_str_any; eauto.
Qed.

Lemma np_done {A} (o : out A) : o <> Panic -> forall P : Prop, (forall a r, o = Done a r -> P) -> (o = Err \/ o = Fuel -> P) -> P.
Proof. intros Hn P H1 H2. destruct o; [eapply H1; eauto|apply H2; auto|contradiction|apply H2; auto]. Qed.

Theorem read_typed fuel : forall c t, ctype c t -> safe_read fuel c t.
Proof.
  induction c using codec_ind'; intros t Hc dest bs Hw; cbn [ctype] in Hc.
  - (* CNull *) cbn [c_read]. split; [discriminate|]. intros v r E. injection E as <- _. exact Hw.
  - (* CBool *) cbn [c_read]. split; [apply obind_np; [apply bool_read_np|discriminate]|].
    intros v r E. done_inv E. injection E as <- _. apply (proj2 (wt_underlying _ _)). rewrite Hc. cbn. eauto.
  - (* CInt *) destruct Hc as (k & Hu & Hk). cbn [c_read]. split; [apply obind_np; [apply int_read_np|discriminate]|].
    intros v r E. done_inv E. injection E as <- _. apply (proj2 (wt_underlying _ _)). rewrite Hu. cbn. eauto.
  - cbn [c_read]. split; [apply obind_np; [apply float_read_np|discriminate]|].
    intros v r E. done_inv E. injection E as <- _. apply (proj2 (wt_underlying _ _)). rewrite Hc. cbn. eauto.
  - cbn [c_read]. split; [apply obind_np; [apply float_read_np|discriminate]|].
    intros v r E. done_inv E. injection E as <- _. apply (proj2 (wt_underlying _ _)). rewrite Hc. cbn. eauto.
  - cbn [c_read]. split; [unfold f32d_read; apply obind_np; [apply obind_np; [apply float_read_np|discriminate]|discriminate]|].
    intros v r E. done_inv E. injection E as <- _. apply (proj2 (wt_underlying _ _)). rewrite Hc. cbn. eauto.
  - (* CBytes *) destruct Hc as (e & Hu & He). cbn [c_read]. split; [apply obind_np; [apply bytes_read_np|discriminate]|].
    intros v r E. done_inv E. injection E as <- _. destruct a; [|exact Hw]. apply (proj2 (wt_underlying _ _)). rewrite Hu. cbn [wt]. rewrite He. eauto.
  - cbn [c_read]. split; [apply obind_np; [apply string_read_np|discriminate]|].
    intros v r E. done_inv E. injection E as <- _. apply (proj2 (wt_underlying _ _)). rewrite Hc. cbn. eauto.
  - (* CFixed *) destruct Hc as (e & Hu & He). cbn [c_read]. unfold fixed_read. split; [apply obind_np; [apply rd_next_np|discriminate]|].
    intros v r E. done_inv E. injection E as <- _. apply (proj2 (wt_underlying _ _)). rewrite Hu. cbn [wt]. rewrite He. eauto.
  - (* CRecord *)
    destruct Hc as (n & p & gfs & Hu & Hfs). apply (proj1 (wt_underlying _ _)) in Hw. rewrite Hu in Hw. apply (proj1 (wt_struct _ _ _ _)) in Hw.
    destruct Hw as (vs & -> & Hvs). rewrite c_read_record_eq.
    assert (Hgo : forall l, Forall (fun p0 => forall t0, ctype (fst p0) t0 -> safe_read fuel (fst p0) t0) l ->
              (fix go (l : list (codec * option nat)) {struct l} : Prop :=
                 match l with
                 | [] => True
                 | (fc, Some j) :: l' => (exists gf, nth_error gfs j = Some gf /\ ctype fc (gf_type gf)) /\ go l'
                 | (_, None) :: l' => go l'
                 end) l ->
              forall vs0 bs0, wt_fields gfs vs0 ->
                read_fields fuel l vs0 bs0 <> Panic /\ (forall vs' r, read_fields fuel l vs0 bs0 = Done vs' r -> wt_fields gfs vs')).
    { induction l as [|[fc tgt] l IHl]; intros HF Hl vs0 bs0 Hv.
      - cbn. split; [discriminate|]. intros vs' r E. injection E as <- _. exact Hv.
      - inversion HF as [|? ? Hfc HFl]; subst. cbn [fst] in Hfc. destruct tgt as [j|]; cbn [read_fields].
        + destruct Hl as [(gf & Hn & Hct) Hl']. destruct (Hfc _ Hct (nth j vs0 VBad) bs0 (wt_fields_nth _ _ _ _ Hv Hn)) as [Hnp Hd].
          destruct (c_read fuel fc (nth j vs0 VBad) bs0) as [v1 r1| | |] eqn:E; cbn [obind];
            try (split; [discriminate|intros; discriminate]); [|contradiction].
          apply IHl; auto. eapply wt_fields_update; eauto.
        + pose proof (skip_no_panic fuel fc bs0) as Hs.
          destruct (c_skip fuel fc bs0) as [[] r1| | |]; cbn [obind]; try (split; [discriminate|intros; discriminate]); [|contradiction].
          apply IHl; auto. }
    destruct (Hgo fs H Hfs vs bs Hvs) as [Hnp Hd]. split.
    + apply obind_np; [exact Hnp|discriminate].
    + intros v r E. done_inv E. injection E as <- _. apply (proj2 (wt_underlying _ _)). rewrite Hu. apply (proj2 (wt_struct _ _ _ _)). eauto.
  - (* CArray *)
    destruct Hc as (e & Hu & Hce & ->). apply (proj1 (wt_underlying _ _)) in Hw. rewrite Hu in Hw.
    destruct (is_u8 e) eqn:Eu.
    + cbn [wt] in Hw. rewrite Eu in Hw. destruct Hw as [x ->]. cbn [c_read].
      set (it := fun (acc : bytes) (b0 : bytes) => obind (c_read fuel c (zero_of e) b0) (fun v r => Done (acc ++ [match v with VInt z0 => z0 | _ => 0 end]) r)).
      assert (Hit : forall (a : bytes) b1, True -> it a b1 <> Panic /\ (forall a' r, it a b1 = Done a' r -> True)).
      { intros a b1 _. unfold it. split; [|auto]. apply obind_np; [apply (IHc e Hce (zero_of e) b1 (zero_wt e))|discriminate]. }
      destruct (proj1 (blocks_items_inv it (fun _ => True) Hit fuel) x bs I) as [Hnp _]. split.
      * apply obind_np; [exact Hnp|discriminate].
      * intros v r E. done_inv E. injection E as <- _. apply (proj2 (wt_underlying _ _)). rewrite Hu. cbn [wt]. rewrite Eu. eauto.
    + apply (proj1 (wt_slice e _ Eu)) in Hw. destruct Hw as (vs & -> & Hvs). rewrite c_read_array_eq.
      assert (Hit : forall a b1, wt_all e a -> read_aitem fuel c (zero_of e) a b1 <> Panic /\
                       (forall a' r, read_aitem fuel c (zero_of e) a b1 = Done a' r -> wt_all e a')).
      { intros a b1 Ha. unfold read_aitem. destruct (IHc e Hce (zero_of e) b1 (zero_wt e)) as [Hnp Hd].
        split; [apply obind_np; [exact Hnp|discriminate]|].
        intros a' r E. done_inv E. injection E as <- _. apply wt_all_app; [exact Ha|]. cbn. split; [eapply Hd; eauto|exact I]. }
      destruct (proj1 (blocks_items_inv _ (wt_all e) Hit fuel) vs bs Hvs) as [Hnp Hd]. split.
      * apply obind_np; [exact Hnp|discriminate].
      * intros v r E. done_inv E. injection E as <- _. apply (proj2 (wt_underlying _ _)). rewrite Hu. apply (proj2 (wt_slice e _ Eu)). eauto.
  - (* CMap *)
    destruct Hc as (k & e & Hu & Hce & ->). apply (proj1 (wt_underlying _ _)) in Hw. rewrite Hu in Hw. apply (proj1 (wt_map _ _ _)) in Hw.
    rewrite c_read_map_eq.
    assert (Hit : forall a b1, wt_kvs e a -> read_mitem fuel c (zero_of e) a b1 <> Panic /\
                     (forall a' r, read_mitem fuel c (zero_of e) a b1 = Done a' r -> wt_kvs e a')).
    { intros a b1 Ha. unfold read_mitem. split.
      - apply obind_np; [apply string_read_np|]. intros k0 r0 _.
        apply obind_np; [apply (IHc e Hce (zero_of e) r0 (zero_wt e))|discriminate].
      - intros a' r E. done_inv E. done_inv E. injection E as <- _. apply wt_kvs_app; [exact Ha|].
        cbn. split; [|exact I]. eapply (proj2 (IHc e Hce (zero_of e) r0 (zero_wt e))); eauto. }
    assert (Hfin : forall kvs0, wt_kvs e kvs0 ->
              obind (blocks false (read_mitem fuel c (zero_of e)) fuel kvs0 bs) (fun kvs r => Done (VMap kvs) r) <> Panic /\
              (forall v r, obind (blocks false (read_mitem fuel c (zero_of e)) fuel kvs0 bs) (fun kvs r => Done (VMap kvs) r) = Done v r -> wt t v)).
    { intros kvs0 Hk. destruct (proj1 (blocks_items_inv _ (wt_kvs e) Hit fuel) kvs0 bs Hk) as [Hnp Hd]. split.
      - apply obind_np; [exact Hnp|discriminate].
      - intros v r E. done_inv E. injection E as <- _. apply (proj2 (wt_underlying _ _)). rewrite Hu. apply (proj2 (wt_map _ _ _)). right. eauto. }
    destruct Hw as [-> | (kvs & -> & Hk)]; cbn [map_start]; [apply (Hfin [] I)|apply (Hfin kvs Hk)].
  - (* CPtr *)
    destruct Hc as (e & Hu & Hce & ->). apply (proj1 (wt_underlying _ _)) in Hw. rewrite Hu in Hw. cbn [wt] in Hw. cbn [c_read].
    assert (Hgo : forall d0, wt e d0 ->
              obind (c_read fuel c d0 bs) (fun v r => Done (VPtr (Some v)) r) <> Panic /\
              (forall v r, obind (c_read fuel c d0 bs) (fun v r => Done (VPtr (Some v)) r) = Done v r -> wt t v)).
    { intros d0 Hd0. destruct (IHc e Hce d0 bs Hd0) as [Hnp Hd]. split; [apply obind_np; [exact Hnp|discriminate]|].
      intros v r E. done_inv E. injection E as <- _. apply (proj2 (wt_underlying _ _)). rewrite Hu. cbn [wt]. right. eauto. }
    destruct Hw as [-> | (x & -> & Hx)]; [apply (Hgo _ (zero_wt e))|apply (Hgo _ Hx)].
  - (* CUnion *)
    rewrite c_read_union_eq. split.
    + apply obind_np; [apply rd_varint_np|]. intros idx r _.
      destruct ((idx <? 0) || (Z.of_nat (length cs) <=? idx)); [discriminate|].
      generalize (Z.to_nat idx). revert Hc. induction H as [|x l Hx _ IH]; intros Hc i; [destruct i; discriminate|].
      destruct Hc as [Hc1 Hc2]. destruct i; cbn [read_pick]; [apply (Hx t Hc1 dest r Hw)|apply IH; exact Hc2].
    + intros v r E. done_inv E. destruct ((a <? 0) || (Z.of_nat (length cs) <=? a)); [discriminate|].
      revert E. generalize (Z.to_nat a). revert Hc. induction H as [|x l Hx _ IH]; intros Hc i E; [destruct i; discriminate|].
      destruct Hc as [Hc1 Hc2]. destruct i; cbn [read_pick] in E; [eapply (proj2 (Hx t Hc1 dest r0 Hw)); eauto|eapply IH; eauto].
  - (* CUnionOne *)
    cbn [c_read]. split.
    + apply obind_np; [destruct bs; discriminate|]. intros sel r _. destruct (2 <=? sel / 2); [discriminate|].
      destruct (sel / 2 =? nn); [apply (IHc t Hc dest r Hw)|discriminate].
    + intros v r E. done_inv E. destruct (2 <=? a / 2); [discriminate|]. destruct (a / 2 =? nn).
      * eapply (proj2 (IHc t Hc dest r0 Hw)); eauto.
      * injection E as <- _. exact Hw.
  - (* CUnionStr *)
    cbn [c_read]. split.
    + apply obind_np; [destruct bs; discriminate|]. intros sel r _. destruct (2 <=? sel / 2); [discriminate|].
      destruct (sel / 2 =? nn); [apply obind_np; [apply string_read_np|discriminate]|discriminate].
    + intros v r E. done_inv E. destruct (2 <=? a / 2); [discriminate|]. destruct (a / 2 =? nn).
      * done_inv E. injection E as <- _. apply (proj2 (wt_underlying _ _)). rewrite Hc. cbn. eauto.
      * injection E as <- _. exact Hw.
  - (* CTimeString *) subst t. cbn [c_read]. split; [apply time_string_read_np|].
    intros v r E. unfold time_string_read in E. done_inv E. destruct (a =? 0); [injection E as <- _; exact Hw|].
    done_inv E. destruct (parse_time a0); try discriminate. injection E as <- _. exact I.
  - subst t. cbn [c_read]. split; [apply obind_np; [apply int_read_np|discriminate]|]. intros v r E. done_inv E. injection E as <- _. exact I.
  - subst t. cbn [c_read]. split; [apply obind_np; [apply int_read_np|discriminate]|]. intros v r E. done_inv E. injection E as <- _. exact I.
  - subst t. cbn [c_read]. split; [apply obind_np; [apply int_read_np|discriminate]|]. intros v r E. done_inv E. injection E as <- _. exact I.
  - subst t. cbn [c_read]. split; [apply obind_np; [apply bool_read_np|discriminate]|]. intros v r E. done_inv E. injection E as <- _. exact I.
  - subst t. cbn [c_read]. split; [apply obind_np; [apply float_read_np|discriminate]|]. intros v r E. done_inv E. injection E as <- _. exact I.
  - subst t. cbn [c_read]. split; [apply obind_np; [apply float_read_np|discriminate]|]. intros v r E. done_inv E. injection E as <- _. exact I.
  - subst t. cbn [c_read]. split; [apply obind_np; [apply string_read_np|discriminate]|]. intros v r E. done_inv E. injection E as <- _. exact I.
  - (* CNullTime *) subst t. cbn [c_read]. split; [apply obind_np; [apply time_string_read_np|discriminate]|].
    intros v r E. done_inv E. injection E as <- _. unfold time_string_read in Ho. done_inv Ho.
    destruct dest; try contradiction. destruct dest; try contradiction. cbn [null_payload] in Ho.
    destruct (a0 =? 0); [injection Ho as <- _; exact I|]. done_inv Ho. destruct (parse_time a1); try discriminate. injection Ho as <- _. exact I.
  - (* CCustom *)
    cbn [c_read]. destruct (IHc t Hc dest bs Hw) as [Hnp Hd]. split; [apply obind_np; [exact Hnp|discriminate]|].
    intros v r E. done_inv E. injection E as <- _. apply cx_wt. eapply Hd; eauto.
Qed.
