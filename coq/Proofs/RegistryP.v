(* C20: a registered custom codec governs its type everywhere and nothing else.
   Registry = Model/Codec.v [registry] (avro.Register) and Model/SchemaGen.v
   [sregistry] (avro.RegisterSchema); a user-defined custom codec is
   [CCustom k inner] (Model/Codec.v): the inner codec the library would build,
   with the involution [cx k] applied to the value. *)
From Coq Require Import List ZArith Bool Lia String.
Require Import Avro.Model.Base Avro.Model.Prim Avro.Model.Schema Avro.Model.GoType
               Avro.Model.Blocks Avro.Model.Time Avro.Model.Spec Avro.Model.Codec Avro.Model.SchemaGen Avro.Model.Layout.
Require Import Avro.Proofs.CodecInd Avro.Proofs.LayoutP Avro.Proofs.SchemaGenP.
Import ListNotations.
Open Scope Z_scope.

(* ================================================================== *)
(* 1. the custom transformation is an involution; custom round trip    *)
(* ================================================================== *)
Lemma cx_involutive k v : cx k (cx k v) = v.
Proof.
  destruct v; try reflexivity; cbn [cx].
  - f_equal. rewrite Z.lxor_assoc, Z.lxor_nilpotent, Z.lxor_0_r. reflexivity.
  - f_equal. apply rev_involutive.
Qed.

(* whenever the inner codec reads back what it wrote, the custom codec returns the original value *)
Lemma custom_round_trip k c v bs fuel dest rest :
  c_write c (cx k v) = Some bs ->
  c_read fuel c dest (bs ++ rest) = Done (cx k v) rest ->
  c_write (CCustom k c) v = Some bs /\ c_read fuel (CCustom k c) dest (bs ++ rest) = Done v rest.
Proof.
  intros Hw Hr. split; [exact Hw|]. cbn [c_read]. rewrite Hr. cbn [obind]. rewrite cx_involutive. reflexivity.
Qed.

Lemma custom_skip k c fuel bs : c_skip fuel (CCustom k c) bs = c_skip fuel c bs.
Proof. reflexivity. Qed.
Lemma custom_omit k c v : c_omit (CCustom k c) v = c_omit c v.
Proof. reflexivity. Qed.

(* ================================================================== *)
(* 2. the result of build depends on the registry only at the types    *)
(*    that occur in the Go type                                        *)
(* ================================================================== *)
Fixpoint agree_on (R1 R2 : registry) (t : gtype) {struct t} : Prop :=
  reg_lookup R1 t = reg_lookup R2 t /\
  match t with
  | TSlice e | TArray _ e | TPtr e | TNamed _ e => agree_on R1 R2 e
  | TMap _ e => agree_on R1 R2 e
  | TStruct _ _ fields =>
      (fix go (l : list gfield) {struct l} : Prop :=
         match l with [] => True | GF _ _ _ _ ft :: r => agree_on R1 R2 ft /\ go r end) fields
  | _ => True
  end.

Lemma agree_struct R1 R2 name pkg fields :
  agree_on R1 R2 (TStruct name pkg fields) -> Forall (fun f => agree_on R1 R2 (gf_type f)) fields.
Proof.
  cbn [agree_on]. intros [_ H]. induction fields as [|[fname ex js bq ft] r IH]; [constructor|].
  destruct H as [H1 H2]. constructor; [exact H1|apply IH; exact H2].
Qed.

Lemma agree_underlying R1 R2 : forall t, agree_on R1 R2 t -> agree_on R1 R2 (underlying t).
Proof. induction t; intros H; try exact H. cbn [underlying]. apply IHt. cbn [agree_on] in H. apply H. Qed.

Lemma agree_peel R1 R2 : forall t kk tz, agree_on R1 R2 t -> peel t = (kk, tz) -> agree_on R1 R2 tz.
Proof.
  induction t; intros kk tz H Hp; cbn [peel] in Hp; try (injection Hp as <- <-; exact H).
  destruct (peel t) as [k' ty] eqn:E. injection Hp as <- <-. eapply IHt; [|reflexivity]. cbn [agree_on] in H. apply H.
Qed.

Section Agree.
  Variables R1 R2 : registry.

  Definition beq (s : schema) : Prop :=
    (forall t om, agree_on R1 R2 t -> build R1 s (Some t) om = build R2 s (Some t) om) /\
    (forall om, build R1 s None om = build R2 s None om).

  Definition sub_beq (s : schema) : Prop :=
    match s with
    | SArray it => beq it
    | SMap vs => beq vs
    | SRecord fields => Forall (fun p => beq (snd p)) fields
    | _ => True
    end.

  Lemma find_field_in name gfs j gf : find_field name gfs = Some (j, gf) -> In gf gfs.
  Proof. intros H. apply find_field_nth in H. eapply nth_error_In; eauto. Qed.

  Lemma build_fields_congr gfields fields :
    match gfields with Some gfs => Forall (fun f => agree_on R1 R2 (gf_type f)) gfs | None => True end ->
    Forall (fun p => beq (snd p)) fields ->
    build_fields (bldf R1) gfields fields = build_fields (bldf R2) gfields fields.
  Proof.
    intros Hg H. induction H as [|[n s] r [Hs Hn] _ IH]; [reflexivity|]. cbn [snd] in Hs, Hn.
    cbn [build_fields]. rewrite IH.
    destruct gfields as [gfs|].
    - destruct (find_field n gfs) as [[j gf]|] eqn:Ef.
      + rewrite Hs; [reflexivity|]. rewrite Forall_forall in Hg. apply Hg. eapply find_field_in; eauto.
      + rewrite Hn. reflexivity.
    - rewrite Hn. reflexivity.
  Qed.

  Lemma disp_congr s t0 om : sub_beq s ->
    match t0 with Some ty => agree_on R1 R2 (underlying ty) | None => True end ->
    disp (bldf R1) s t0 om = disp (bldf R2) s t0 om.
  Proof.
    intros Hs Ha. unfold disp. destruct s; try reflexivity; cbn [sub_beq] in Hs.
    - (* record *)
      destruct t0 as [ty|]; cbn [option_map].
      + destruct (underlying ty) eqn:Eu; cbn [struct_fields]; try reflexivity.
        f_equal. apply build_fields_congr; [|exact Hs]. eapply agree_struct; eauto.
      + cbn [struct_fields]. f_equal. apply build_fields_congr; [exact I|exact Hs].
    - (* array *)
      destruct Hs as [Hs Hn]. destruct t0 as [ty|]; cbn [option_map].
      + destruct (underlying ty) eqn:Eu; try reflexivity. rewrite Hs; [reflexivity|]. cbn [agree_on] in Ha. apply Ha.
      + rewrite Hn. reflexivity.
    - (* map *)
      destruct Hs as [Hs Hn]. destruct t0 as [ty|]; cbn [option_map].
      + destruct (underlying ty) eqn:Eu; try reflexivity. destruct (underlying g1); try reflexivity.
        rewrite Hs; [reflexivity|]. cbn [agree_on] in Ha. apply Ha.
      + rewrite Hn. reflexivity.
  Qed.

  Lemma build_base_congr s t0 om : sub_beq s -> agree_on R1 R2 t0 ->
    build_base R1 (bldf R1) s t0 om = build_base R2 (bldf R2) s t0 om.
  Proof.
    intros Hs Ha. unfold build_base.
    assert (Hl : reg_lookup R1 t0 = reg_lookup R2 t0) by (destruct t0; cbn [agree_on] in Ha; apply Ha).
    rewrite Hl. pose proof (disp_congr s (Some t0) om Hs (agree_underlying R1 R2 t0 Ha)) as Hd.
    destruct (reg_lookup R2 t0) as [[w|k]|]; [reflexivity| |exact Hd]. rewrite Hd. reflexivity.
  Qed.

  Lemma beq_non_nu s : non_nu s -> sub_beq s -> beq s.
  Proof.
    intros Hn Hs. split.
    - intros t om Ha. rewrite !build_some_eq by exact Hn. destruct (peel t) as [k t0] eqn:Ep.
      pose proof (agree_peel R1 R2 t k t0 Ha Ep) as Ha0. destruct k.
      + apply build_base_congr; assumption.
      + rewrite (build_base_congr s t0 false Hs Ha0). reflexivity.
    - intros om. rewrite !build_none_eq by exact Hn. apply disp_congr; [exact Hs|exact I].
  Qed.

  Theorem build_agree_gen : forall s, beq s.
  Proof.
    induction s using schema_ind'; try (apply beq_non_nu; [exact I|cbn [sub_beq]; auto]).
    - split; reflexivity.
    - split.
      + intros t om Ha. apply build_union_congr. rewrite Forall_forall in *. intros x Hx. apply H; assumption.
      + intros om. apply build_union_congr. rewrite Forall_forall in *. intros x Hx. apply H; assumption.
  Qed.
End Agree.

Theorem build_agree R1 R2 s t om : agree_on R1 R2 t -> build R1 s (Some t) om = build R2 s (Some t) om.
Proof. intros H. apply (build_agree_gen R1 R2 s); exact H. Qed.

(* a codec built without a Go type never consults the registry *)
Theorem build_none_indep R1 R2 s om : build R1 s None om = build R2 s None om.
Proof. apply (build_agree_gen R1 R2 s). Qed.

Lemma agree_all R1 R2 : (forall t, reg_lookup R1 t = reg_lookup R2 t) -> forall t, agree_on R1 R2 t.
Proof.
  intros H. induction t as [ | k | | | | | e IH | n e IH | k e IHk IH | e IH | name pkg fields IH | w | id u IH | k | | | | ]
    using gty_ind; cbn [agree_on]; (split; [apply H|]); auto.
  induction IH as [|[fname ex js bq ft] r Hf _ IHr]; [exact I|]. split; [exact Hf|exact IHr].
Qed.

(* pointwise equal registries build the same codecs *)
Theorem build_ext R1 R2 : (forall key, R1 key = R2 key) -> forall s t om, build R1 s t om = build R2 s t om.
Proof.
  intros H s [t|] om; [|apply build_none_indep]. apply build_agree. apply agree_all.
  intros t0. destruct t0; cbn [reg_lookup]; auto.
Qed.

(* --- frame --- *)
Fixpoint no_named (id : Z) (t : gtype) {struct t} : Prop :=
  match t with
  | TNamed i u => i <> id /\ no_named id u
  | TSlice e | TArray _ e | TPtr e => no_named id e
  | TMap _ e => no_named id e
  | TStruct _ _ fields =>
      (fix go (l : list gfield) {struct l} : Prop :=
         match l with [] => True | GF _ _ _ _ ft :: r => no_named id ft /\ go r end) fields
  | _ => True
  end.

Lemma no_named_struct id name pkg fields :
  no_named id (TStruct name pkg fields) -> Forall (fun f => no_named id (gf_type f)) fields.
Proof.
  cbn [no_named]. induction fields as [|[fname ex js bq ft] r IH]; intros H; [constructor|].
  destruct H as [H1 H2]. constructor; [exact H1|apply IH; exact H2].
Qed.

Lemma no_named_agree reg id bd : forall t, no_named id t -> agree_on (reg_set reg id bd) reg t.
Proof.
  induction t as [ | k | | | | | e IH | n e IH | k e IHk IH | e IH | name pkg fields IH | w | i u IH | k | | | | ]
    using gty_ind; intros H; cbn [agree_on]; try (split; [reflexivity|]; auto; fail).
  - split; [reflexivity|]. apply no_named_struct in H.
    induction IH as [|[fname ex js bq ft] r Hf _ IHr]; [exact I|].
    inversion H as [|? ? H1 H2]; subst. split; [apply Hf; exact H1|apply IHr; exact H2].
  - cbn [no_named] in H. destruct H as [Hne H]. split; [|apply IH; exact H].
    cbn [reg_lookup reg_set]. destruct (i =? id) eqn:E; [apply Z.eqb_eq in E; contradiction|reflexivity].
Qed.

Theorem build_frame reg id bd s t om : no_named id t ->
  build (reg_set reg id bd) s (Some t) om = build reg s (Some t) om.
Proof. intros H. apply build_agree. apply no_named_agree. exact H. Qed.

(* --- the most recent registration wins; distinct types commute --- *)
Lemma reg_set_latest reg id b1 b2 key : reg_set (reg_set reg id b1) id b2 key = reg_set reg id b2 key.
Proof. destruct key as [w|i]; cbn [reg_set]; [reflexivity|]. destruct (i =? id); reflexivity. Qed.

Lemma reg_set_commute reg id1 id2 b1 b2 key : id1 <> id2 ->
  reg_set (reg_set reg id1 b1) id2 b2 key = reg_set (reg_set reg id2 b2) id1 b1 key.
Proof.
  intros Hne. destruct key as [w|i]; cbn [reg_set]; [reflexivity|].
  destruct (i =? id2) eqn:E2; destruct (i =? id1) eqn:E1; try reflexivity.
  apply Z.eqb_eq in E1, E2. congruence.
Qed.

Theorem build_latest reg id b1 b2 s t om :
  build (reg_set (reg_set reg id b1) id b2) s t om = build (reg_set reg id b2) s t om.
Proof. apply build_ext. apply reg_set_latest. Qed.

Theorem build_order reg id1 id2 b1 b2 s t om : id1 <> id2 ->
  build (reg_set (reg_set reg id1 b1) id2 b2) s t om = build (reg_set (reg_set reg id2 b2) id1 b1) s t om.
Proof. intros H. apply build_ext. intros key. apply reg_set_commute. exact H. Qed.

(* ================================================================== *)
(* 3. the custom codec is what is built at the registered type         *)
(* ================================================================== *)
Lemma peel_ptr_n_named j id u : peel (ptr_n j (TNamed id u)) = (j, TNamed id u).
Proof. induction j as [|j IH]; [reflexivity|]. cbn [ptr_n peel]. rewrite IH. reflexivity. Qed.

Lemma lookup_set_same reg id bd u : reg_lookup (reg_set reg id bd) (TNamed id u) = Some bd.
Proof. cbn [reg_lookup reg_set]. rewrite Z.eqb_refl. reflexivity. Qed.

(* at the type itself and behind j pointers, under a schema that is neither null nor a union *)
Theorem build_custom_at reg id k s j u om : non_nu s ->
  let R := reg_set reg id (BCustom k) in
  build R s (Some (ptr_n j (TNamed id u))) om =
  option_map (fun c => wrap_ptrs j (CCustom k c) (zero_of (TNamed id u)))
             (disp (bldf R) s (Some (TNamed id u)) (match j with O => om | S _ => false end)).
Proof.
  intros Hn R. rewrite build_some_eq by exact Hn. rewrite peel_ptr_n_named. unfold build_base, R.
  rewrite lookup_set_same. cbn [apply_builder]. fold R.
  destruct j; destruct (disp (bldf R) s (Some (TNamed id u)) _); reflexivity.
Qed.

(* inside a nullable union, null first or second *)
Definition not_string (c : codec) : Prop := match c with CString _ => False | _ => True end.
Lemma union_one_not_string u nn c : u = Some c -> not_string c -> union_one u nn = Some (CUnionOne c nn).
Proof. intros -> H. destruct c; try reflexivity. contradiction. Qed.
Lemma wrap_ptrs_not_string : forall n c z, not_string c -> not_string (wrap_ptrs n c z).
Proof. induction n; intros c z H; [exact H|]. cbn [wrap_ptrs]. apply IHn. exact I. Qed.

Theorem build_custom_in_union reg id k s j u om : non_nu s ->
  let R := reg_set reg id (BCustom k) in
  let inner := disp (bldf R) s (Some (TNamed id u)) (match j with O => om | S _ => false end) in
  build R (SUnion [SNull; s]) (Some (ptr_n j (TNamed id u))) om =
    option_map (fun c => CUnionOne (wrap_ptrs j (CCustom k c) (zero_of (TNamed id u))) 1) inner /\
  build R (SUnion [s; SNull]) (Some (ptr_n j (TNamed id u))) om =
    option_map (fun c => CUnionOne (wrap_ptrs j (CCustom k c) (zero_of (TNamed id u))) 0) inner.
Proof.
  intros Hn R inner.
  assert (Hw : forall c, not_string (wrap_ptrs j (CCustom k c) (zero_of (TNamed id u))))
    by (intros c; apply wrap_ptrs_not_string; exact I).
  split; rewrite build_union_eq.
  - assert (E : match [SNull; s] with
               | [SNull; x] => union_one (build R x (Some (ptr_n j (TNamed id u))) om) 1
               | [x; SNull] => union_one (build R x (Some (ptr_n j (TNamed id u))) om) 0
               | _ => option_map CUnion (build_list (fun x => build R x (Some (ptr_n j (TNamed id u))) om) [SNull; s])
               end = union_one (build R s (Some (ptr_n j (TNamed id u))) om) 1) by (destruct s; reflexivity).
    rewrite E. unfold R. rewrite build_custom_at by exact Hn. fold R. fold inner.
    destruct inner as [c|]; [|reflexivity]. cbn [option_map]. apply union_one_not_string; [reflexivity|apply Hw].
  - assert (E : match [s; SNull] with
               | [SNull; x] => union_one (build R x (Some (ptr_n j (TNamed id u))) om) 1
               | [x; SNull] => union_one (build R x (Some (ptr_n j (TNamed id u))) om) 0
               | _ => option_map CUnion (build_list (fun x => build R x (Some (ptr_n j (TNamed id u))) om) [s; SNull])
               end = union_one (build R s (Some (ptr_n j (TNamed id u))) om) 0) by (destruct s; try contradiction; reflexivity).
    rewrite E. unfold R. rewrite build_custom_at by exact Hn. fold R. fold inner.
    destruct inner as [c|]; [|reflexivity]. cbn [option_map]. apply union_one_not_string; [reflexivity|apply Hw].
Qed.

(* ================================================================== *)
(* 4. ... at every position of the type tree                            *)
(* ================================================================== *)
Definition is_target (id : Z) (t : gtype) : bool := match t with TNamed i _ => i =? id | _ => false end.

(* [gov id k hd c t]: in the codec tree c built for Go type t, every position
   whose Go type is the registered type [TNamed id _] carries [CCustom k _]
   (hd = false: c is the inner codec of a custom codec, built for the
   underlying type of t; the head is not checked again). *)
Fixpoint gov (id k : Z) (hd : bool) (c : codec) (t : gtype) {struct c} : Prop :=
  match c with
  | CNull => True      (* a null schema: buildCodec returns the null codec before looking at the type *)
  | CPtr c' _ => match t with TPtr e => gov id k true c' e | _ => False end
  | CUnionOne c' _ => gov id k hd c' t
  | CUnion cs => (fix go (l : list codec) {struct l} : Prop :=
                    match l with [] => True | x :: l' => gov id k hd x t /\ go l' end) cs
  | CCustom k' c' => (hd = true -> is_target id t = true -> k' = k) /\ gov id k false c' t
  | CRecord fs =>
      (hd = true -> is_target id t = false) /\
      match underlying t with
      | TStruct _ _ gfs =>
          (fix go (l : list (codec * option nat)) {struct l} : Prop :=
             match l with
             | [] => True
             | (fc, Some j) :: l' =>
                 match nth_error gfs j with Some gf => gov id k true fc (gf_type gf) | None => False end /\ go l'
             | (_, None) :: l' => go l'
             end) fs
      | _ => False
      end
  | CArray ic _ _ => (hd = true -> is_target id t = false) /\
                     match underlying t with TSlice e => gov id k true ic e | _ => False end
  | CMap vc _ _ => (hd = true -> is_target id t = false) /\
                   match underlying t with TMap _ e => gov id k true vc e | _ => False end
  | _ => hd = true -> is_target id t = false
  end.

Definition leaf (c : codec) : Prop :=
  match c with
  | CPtr _ _ | CUnionOne _ _ | CUnion _ | CCustom _ _ | CRecord _ | CArray _ _ _ | CMap _ _ _ => False
  | _ => True
  end.
Lemma gov_leaf id k hd c t : leaf c -> (hd = true -> is_target id t = false) -> gov id k hd c t.
Proof. destruct c; intros H Ht; try contradiction; try exact Ht. exact I. Qed.

Lemma build_prim_leaf s u om c : build_prim s u om = Some c -> leaf c.
Proof.
  unfold build_prim. destruct s; try discriminate.
  - intros H; injection H as <-; exact I.
  - destruct u as [[]|]; try discriminate; intros H; injection H as <-; exact I.
  - destruct u as [[| [] | | | | | | | | | | | | | | | |]|]; try discriminate; intros H; injection H as <-; exact I.
  - destruct u as [[| [] | | | | | | | | | | | | | | | |]|]; try discriminate; intros H; injection H as <-; exact I.
  - destruct u as [[]|]; try discriminate; intros H; injection H as <-; exact I.
  - destruct u as [[]|]; try discriminate; intros H; injection H as <-; exact I.
  - destruct u as [[]|]; try discriminate.
    + destruct (is_u8 e); try discriminate. intros H; injection H as <-; exact I.
    + intros H; injection H as <-; exact I.
  - destruct u as [[]|]; try discriminate; intros H; injection H as <-; exact I.
  - destruct (size <? 0); try discriminate. destruct u as [[]|]; try discriminate.
    + destruct (is_u8 e && (n =? size)); try discriminate. intros H; injection H as <-; exact I.
    + intros H; injection H as <-; exact I.
Qed.

Lemma wrap_builder_leaf w s inner c : apply_builder (BWrap w) s inner = Some c -> leaf c.
Proof.
  unfold apply_builder. destruct w; destruct s; try discriminate; try (intros H; injection H as <-; exact I).
  destruct date; try discriminate. intros H; injection H as <-; exact I.
Qed.

Lemma wrap_ptrs_gov id k : forall n c z t0, gov id k true c t0 -> gov id k true (wrap_ptrs n c z) (ptr_n n t0).
Proof.
  induction n as [|n IH]; intros c z t0 H; [exact H|].
  cbn [wrap_ptrs ptr_n]. rewrite <- ptr_n_shift. apply IH. cbn [gov]. exact H.
Qed.

Section Gov.
  Variables (reg : registry) (id k : Z).
  Let R := reg_set reg id (BCustom k).

  Definition bld_gov (s : schema) : Prop := forall t om c, build R s (Some t) om = Some c -> gov id k true c t.
  Definition sub_gov (s : schema) : Prop :=
    match s with
    | SArray it => bld_gov it
    | SMap vs => bld_gov vs
    | SRecord fields => Forall (fun p => bld_gov (snd p)) fields
    | _ => True
    end.

  Fixpoint gov_fields (gfs : list gfield) (l : list (codec * option nat)) {struct l} : Prop :=
    match l with
    | [] => True
    | (fc, Some j) :: l' => match nth_error gfs j with Some gf => gov id k true fc (gf_type gf) | None => False end /\ gov_fields gfs l'
    | (_, None) :: l' => gov_fields gfs l'
    end.

  Lemma gov_record_eq hd fs t n p gfs : underlying t = TStruct n p gfs ->
    gov id k hd (CRecord fs) t = ((hd = true -> is_target id t = false) /\ gov_fields gfs fs).
  Proof.
    intros Hu. cbn [gov]. rewrite Hu. f_equal.
    induction fs as [|[fc [j|]] l IH]; [reflexivity| |]; cbn [gov_fields]; rewrite <- IH; reflexivity.
  Qed.

  Lemma build_fields_gov gfs : forall fields fs,
    Forall (fun p => bld_gov (snd p)) fields ->
    build_fields (bldf R) (Some gfs) fields = Some fs -> gov_fields gfs fs.
  Proof.
    induction fields as [|[n s] l IH]; intros fs HF H.
    - cbn in H. injection H as <-. exact I.
    - inversion HF as [|? ? Hs Hl]; subst. cbn [snd] in Hs. cbn [build_fields] in H.
      destruct (find_field n gfs) as [[j gf]|] eqn:Ef.
      + destruct (build R s (Some (gf_type gf)) (omit_empty gf)) as [c|] eqn:Ec; try discriminate.
        destruct (build_fields (bldf R) (Some gfs) l) as [r|] eqn:Er; try discriminate.
        injection H as <-. cbn [gov_fields option_map fst]. rewrite (find_field_nth _ _ _ _ Ef).
        split; [eapply Hs; eauto|apply IH; auto].
      + destruct (build R s None false) as [c|] eqn:Ec; try discriminate.
        destruct (build_fields (bldf R) (Some gfs) l) as [r|] eqn:Er; try discriminate.
        injection H as <-. cbn [gov_fields option_map]. apply IH; auto.
  Qed.

  Lemma disp_gov hd s t0 om c : (hd = true -> is_target id t0 = false) -> sub_gov s ->
    disp (bldf R) s (Some t0) om = Some c -> gov id k hd c t0.
  Proof.
    intros Ht IH H. unfold disp in H. cbn [option_map] in H.
    destruct s; try discriminate; try (apply build_prim_leaf in H; apply gov_leaf; assumption).
    - destruct (underlying t0) eqn:Eu; cbn [struct_fields] in H; try discriminate.
      destruct (build_fields (bldf R) (Some fields0) fields) as [fs|] eqn:Ef; try discriminate.
      injection H as <-. rewrite (gov_record_eq _ _ _ _ _ _ Eu). split; [exact Ht|]. eapply build_fields_gov; eauto.
    - destruct (underlying t0) eqn:Eu; try discriminate.
      destruct (build R s (Some g) false) as [ic|] eqn:Ei; try discriminate. injection H as <-.
      cbn [gov]. rewrite Eu. split; [exact Ht|]. eapply IH; eauto.
    - destruct (underlying t0) eqn:Eu; try discriminate. destruct (underlying g1); try discriminate.
      destruct (build R s (Some g2) false) as [vc|] eqn:Ei; try discriminate. injection H as <-.
      cbn [gov]. rewrite Eu. split; [exact Ht|]. eapply IH; eauto.
  Qed.

  Lemma build_base_gov s t0 om c : sub_gov s -> build_base R (bldf R) s t0 om = Some c -> gov id k true c t0.
  Proof.
    intros IH H. unfold build_base in H.
    destruct (is_target id t0) eqn:Et.
    - (* the registered type: the custom builder *)
      destruct t0; try discriminate Et. cbn [is_target] in Et. apply Z.eqb_eq in Et. subst id0.
      unfold R in H at 1. rewrite lookup_set_same in H. cbn [apply_builder] in H.
      destruct (disp (bldf R) s (Some (TNamed id t0)) om) as [ci|] eqn:Ed; try discriminate. injection H as <-.
      cbn [gov]. split; [reflexivity|]. eapply disp_gov; [discriminate|exact IH|exact Ed].
    - destruct (reg_lookup R t0) as [[w|k']|] eqn:El.
      + apply gov_leaf; [eapply wrap_builder_leaf; eauto|intros _; exact Et].
      + cbn [apply_builder] in H. destruct (disp (bldf R) s (Some t0) om) as [ci|] eqn:Ed; try discriminate.
        injection H as <-. cbn [gov]. split; [intros _ E; rewrite E in Et; discriminate|].
        eapply disp_gov; [discriminate|exact IH|exact Ed].
      + eapply disp_gov; [intros _; exact Et|exact IH|exact H].
  Qed.

  Lemma gov_union_list hd t : forall cs, gov id k hd (CUnion cs) t <-> Forall (fun c => gov id k hd c t) cs.
  Proof.
    cbn [gov]. induction cs as [|x l IH]; [split; [constructor|exact (fun _ => I)]|].
    split; [intros [H1 H2]; constructor; [exact H1|apply IH; exact H2]|intros H; inversion H; subst; split; [assumption|apply IH; assumption]].
  Qed.

  Lemma build_list_inv (f : schema -> option codec) : forall l cs, build_list f l = Some cs -> Forall2 (fun x c => f x = Some c) l cs.
  Proof.
    induction l as [|x l IH]; intros cs H; cbn [build_list] in H.
    - injection H as <-. constructor.
    - destruct (f x) as [c|] eqn:E; try discriminate. destruct (build_list f l) as [r|] eqn:Er; try discriminate.
      injection H as <-. constructor; [exact E|apply IH; reflexivity].
  Qed.

  (* what a union codec is made of *)
  Lemma build_union_inv (reg0 : registry) brs t om c : build reg0 (SUnion brs) t om = Some c ->
    (exists x nn ci, In x brs /\ build reg0 x t om = Some ci /\ union_one (Some ci) nn = Some c) \/
    (exists cs, c = CUnion cs /\ Forall2 (fun x c' => build reg0 x t om = Some c') brs cs).
  Proof.
    rewrite build_union_eq. intros H.
    assert (G : option_map CUnion (build_list (fun x => build reg0 x t om) brs) = Some c ->
                exists cs, c = CUnion cs /\ Forall2 (fun x c' => build reg0 x t om = Some c') brs cs).
    { intros Hc. destruct (build_list (fun x => build reg0 x t om) brs) as [cs|] eqn:El; try discriminate.
      injection Hc as <-. exists cs. split; [reflexivity|]. apply (build_list_inv (fun x => build reg0 x t om)). exact El. }
    assert (One : forall x nn, In x brs -> union_one (build reg0 x t om) nn = Some c ->
                  exists x nn ci, In x brs /\ build reg0 x t om = Some ci /\ union_one (Some ci) nn = Some c).
    { intros x nn Hin Hu. destruct (build reg0 x t om) as [ci|] eqn:E; try discriminate. exists x, nn, ci. auto. }
    destruct brs as [|x1 [|x2 [|x3 l]]]; try (right; apply G; exact H).
    - destruct x1; right; apply G; exact H.
    - destruct x1; destruct x2; cbv beta iota in H;
        first [ right; apply G; exact H
              | left; eapply One; [|exact H]; (left; reflexivity) || (right; left; reflexivity) ].
    - destruct x1; try (right; apply G; exact H); destruct x2; right; apply G; exact H.
  Qed.

  Lemma union_one_gov hd ci nn c t : union_one (Some ci) nn = Some c -> gov id k hd ci t -> gov id k hd c t.
  Proof. intros H Hg. destruct ci; cbn [union_one] in H; injection H as <-; cbn [gov]; exact Hg. Qed.

  Theorem build_gov : forall s t om c, build R s (Some t) om = Some c -> gov id k true c t.
  Proof.
    induction s using schema_ind'; intros t om c Hb.
    all: try (rewrite build_some_eq in Hb by exact I;
              destruct (peel t) as [kk t0] eqn:Ep; rewrite (peel_ptr_n _ _ _ Ep); destruct kk;
              [ eapply build_base_gov; [|exact Hb]; cbn [sub_gov]; auto
              | destruct (build_base R (bldf R) _ t0 false) as [c0|] eqn:Eb; try discriminate;
                injection Hb as <-; refine (wrap_ptrs_gov id k (S kk) c0 (zero_of t0) t0 _);
                eapply build_base_gov; [|exact Eb]; cbn [sub_gov]; auto ]; fail).
    - injection Hb as <-. exact I.
    - (* union *)
      destruct (build_union_inv R brs (Some t) om c Hb) as [(x & nn & ci & Hin & Hx & Hu)|(cs & -> & HF)].
      + rewrite Forall_forall in H. eapply union_one_gov; [exact Hu|]. eapply H; eauto.
      + apply gov_union_list. clear Hb. induction HF as [|x c' l cs' Hx _ IHF]; [constructor|].
        inversion H as [|? ? H1 H2]; subst. constructor; [eapply H1; eauto|apply IHF; exact H2].
  Qed.
End Gov.

(* every position at which the registered type occurs, in one statement *)
Theorem build_governs reg id k s t om c :
  build (reg_set reg id (BCustom k)) s (Some t) om = Some c -> gov id k true c t.
Proof. apply build_gov. Qed.

(* ================================================================== *)
(* 5. the schema side: RegisterSchema                                   *)
(* ================================================================== *)
Fixpoint sagree_on (S1 S2 : sregistry) (t : gtype) {struct t} : Prop :=
  sreg_lookup S1 t = sreg_lookup S2 t /\
  match t with
  | TSlice e | TArray _ e | TPtr e | TNamed _ e => sagree_on S1 S2 e
  | TMap _ e => sagree_on S1 S2 e
  | TStruct _ _ fields =>
      (fix go (l : list gfield) {struct l} : Prop :=
         match l with [] => True | GF _ _ _ _ ft :: r => sagree_on S1 S2 ft /\ go r end) fields
  | _ => True
  end.

Lemma sagree_struct S1 S2 name pkg fields :
  sagree_on S1 S2 (TStruct name pkg fields) -> Forall (fun f => sagree_on S1 S2 (gf_type f)) fields.
Proof.
  cbn [sagree_on]. intros [_ H]. induction fields as [|[fname ex js bq ft] r IH]; [constructor|].
  destruct H as [H1 H2]. constructor; [exact H1|apply IH; exact H2].
Qed.

Theorem schema_agree S1 S2 : forall t, sagree_on S1 S2 t -> schema_for S1 t = schema_for S2 t.
Proof.
  induction t as [ | k | | | | | e IH | n e IH | k e IHk IH | e IH | name pkg fields IH | w | id u IH | k | | | | ]
    using gty_ind; intros H; try reflexivity.
  - rewrite !sf_slice. cbn [sagree_on] in H. rewrite IH by apply H. reflexivity.
  - rewrite !sf_array. cbn [sagree_on] in H. rewrite IH by apply H. reflexivity.
  - rewrite !sf_map. cbn [sagree_on] in H. rewrite IH by apply H. reflexivity.
  - rewrite !sf_ptr. cbn [sagree_on] in H. rewrite IH by apply H. reflexivity.
  - rewrite !sf_struct. f_equal. apply sagree_struct in H.
    induction IH as [|f r Hf _ IHr]; [reflexivity|]. inversion H as [|? ? H1 H2]; subst.
    cbn [sf_fields]. rewrite (Hf H1), (IHr H2). reflexivity.
  - rewrite !sf_wrap. cbn [sagree_on sreg_lookup] in H. apply H.
  - rewrite !sf_named. cbn [sagree_on sreg_lookup] in H. destruct H as [Hl H]. rewrite Hl.
    destruct (S2 (RNamed id)); [reflexivity|apply IH; exact H].
Qed.

Lemma sagree_all S1 S2 : (forall t, sreg_lookup S1 t = sreg_lookup S2 t) -> forall t, sagree_on S1 S2 t.
Proof.
  intros H. induction t as [ | k | | | | | e IH | n e IH | k e IHk IH | e IH | name pkg fields IH | w | id u IH | k | | | | ]
    using gty_ind; cbn [sagree_on]; (split; [apply H|]); auto.
  induction IH as [|[fname ex js bq ft] r Hf _ IHr]; [exact I|]. split; [exact Hf|exact IHr].
Qed.

Theorem schema_ext S1 S2 : (forall key, S1 key = S2 key) -> forall t, schema_for S1 t = schema_for S2 t.
Proof. intros H t. apply schema_agree. apply sagree_all. intros t0. destruct t0; cbn [sreg_lookup]; auto. Qed.

Lemma no_named_sagree sreg id g : forall t, no_named id t -> sagree_on (sreg_set sreg id g) sreg t.
Proof.
  induction t as [ | k | | | | | e IH | n e IH | k e IHk IH | e IH | name pkg fields IH | w | i u IH | k | | | | ]
    using gty_ind; intros H; cbn [sagree_on]; try (split; [reflexivity|]; auto; fail).
  - split; [reflexivity|]. apply no_named_struct in H.
    induction IH as [|[fname ex js bq ft] r Hf _ IHr]; [exact I|].
    inversion H as [|? ? H1 H2]; subst. split; [apply Hf; exact H1|apply IHr; exact H2].
  - cbn [no_named] in H. destruct H as [Hne H]. split; [|apply IH; exact H].
    cbn [sreg_lookup sreg_set]. destruct (i =? id) eqn:E; [apply Z.eqb_eq in E; contradiction|reflexivity].
Qed.

Theorem schema_frame sreg id g t : no_named id t -> schema_for (sreg_set sreg id g) t = schema_for sreg t.
Proof. intros H. apply schema_agree. apply no_named_sagree. exact H. Qed.

Theorem schema_latest sreg id g1 g2 t :
  schema_for (sreg_set (sreg_set sreg id g1) id g2) t = schema_for (sreg_set sreg id g2) t.
Proof.
  apply schema_ext. intros [w|i]; cbn [sreg_set]; [reflexivity|]. destruct (i =? id); reflexivity.
Qed.

Theorem schema_order sreg id1 id2 g1 g2 t : id1 <> id2 ->
  schema_for (sreg_set (sreg_set sreg id1 g1) id2 g2) t = schema_for (sreg_set (sreg_set sreg id2 g2) id1 g1) t.
Proof.
  intros Hne. apply schema_ext. intros [w|i]; cbn [sreg_set]; [reflexivity|].
  destruct (i =? id2) eqn:E2; destruct (i =? id1) eqn:E1; try reflexivity.
  apply Z.eqb_eq in E1, E2. congruence.
Qed.

(* the registered schema is what is emitted at the type, in every position *)
Section SchemaAt.
  Variables (sreg : sregistry) (id : Z) (g : gschema) (u : gtype).
  Let S' := sreg_set sreg id g.
  Let T := TNamed id u.

  Lemma schema_at_node : schema_for S' T = Some g.
  Proof. unfold S', T. rewrite sf_named. cbn [sreg_set]. rewrite Z.eqb_refl. reflexivity. Qed.

  Definition behind_ptr (s : gschema) : gschema := if keeps_shape s then s else gs_nullable s.

  Lemma keeps_behind s : keeps_shape (behind_ptr s) = true.
  Proof. unfold behind_ptr. destruct (keeps_shape s) eqn:E; [exact E|reflexivity]. Qed.

  Lemma schema_behind_ptrs j : schema_for S' (ptr_n (S j) T) = Some (behind_ptr g).
  Proof.
    induction j as [|j IH].
    - cbn [ptr_n]. rewrite sf_ptr, schema_at_node. reflexivity.
    - change (ptr_n (S (S j)) T) with (TPtr (ptr_n (S j) T)). rewrite sf_ptr, IH, keeps_behind. reflexivity.
  Qed.

  Lemma schema_slice_elem : is_u8 u = false -> schema_for S' (TSlice T) = Some (gs_array g).
  Proof. intros H. rewrite sf_slice. change (is_u8 T) with (is_u8 u). rewrite H, schema_at_node. reflexivity. Qed.

  Lemma schema_map_value kt : schema_for S' (TMap kt T) = Some (gs_map g).
  Proof. rewrite sf_map, schema_at_node. reflexivity. Qed.

  (* as a struct field: plain, or made nullable by omitempty unless it is a union already *)
  Lemma schema_field f r : gf_type f = T -> excluded f = false ->
    sf_fields S' (f :: r) = option_map (cons (name_for_field f, field_schema f g)) (sf_fields S' r).
  Proof.
    intros Ht Hx. cbn [sf_fields]. rewrite Hx, Ht, schema_at_node. destruct (sf_fields S' r); reflexivity.
  Qed.
End SchemaAt.
