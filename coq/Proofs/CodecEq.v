(* Top-level names for the inner loops of sd / c_skip / c_read / c_write and
   one-step equations, so that proofs never manipulate anonymous fixes. *)
From Coq Require Import List ZArith Lia Bool.
Require Import Avro.Model.Base Avro.Model.Prim Avro.Model.Schema Avro.Model.GoType
               Avro.Model.Blocks Avro.Model.Time Avro.Model.Spec Avro.Model.Codec.
Import ListNotations.
Open Scope Z_scope.

(* ---- reference decoder ---- *)
Fixpoint sd_fields (fuel : nat) (l : list (ident * schema)) (bs : bytes) {struct l} : out (list datum) :=
  match l with
  | [] => Done [] bs
  | (_, fs) :: l' => obind (sd fuel fs bs) (fun d r => obind (sd_fields fuel l' r) (fun ds r' => Done (d :: ds) r'))
  end.

Fixpoint sd_pick (fuel : nat) (idx : Z) (r : bytes) (l : list schema) (i : nat) {struct l} : out datum :=
  match l, i with
  | [], _ => Err
  | x :: _, O => obind (sd fuel x r) (fun d r' => Done (DUnion idx d) r')
  | _ :: l', S j => sd_pick fuel idx r l' j
  end.

Definition sd_aitem (fuel : nat) (it : schema) (acc : list datum) (b0 : bytes) : out (list datum) :=
  obind (sd fuel it b0) (fun d r => Done (acc ++ [d]) r).
Definition sd_mitem (fuel : nat) (vs : schema) (acc : list (bytes * datum)) (b0 : bytes) : out (list (bytes * datum)) :=
  obind (sd_len_prefixed b0) (fun k r => obind (sd fuel vs r) (fun d r' => Done (acc ++ [(k, d)]) r')).

Lemma sd_record_eq fuel fields bs :
  sd fuel (SRecord fields) bs = obind (sd_fields fuel fields bs) (fun ds r => Done (DRecord ds) r).
Proof.
  cbn [sd]. f_equal. revert bs. induction fields as [|[n fs] l IH]; intros bs; [reflexivity|].
  cbn [sd_fields]. destruct (sd fuel fs bs); cbn [obind]; try reflexivity. rewrite IH. reflexivity.
Qed.


Lemma sd_pick_eq fuel idx r brs i :
  (fix pick (l : list schema) (i : nat) {struct l} : out datum :=
     match l, i with
     | [], _ => Err
     | x :: _, O => obind (sd fuel x r) (fun d r' => Done (DUnion idx d) r')
     | _ :: l', S j => pick l' j
     end) brs i = sd_pick fuel idx r brs i.
Proof. revert i. induction brs as [|x l IH]; intros i; [destruct i; reflexivity|]. destruct i; [reflexivity|]. apply IH. Qed.

Lemma sd_pick_oob fuel idx r : forall l i, (length l <= i)%nat -> sd_pick fuel idx r l i = Err.
Proof.
  induction l as [|x l IH]; intros i Hi; [destruct i; reflexivity|].
  destruct i; [cbn in Hi; lia|]. cbn [sd_pick]. apply IH. cbn in Hi. lia.
Qed.

Lemma sd_union_eq fuel brs bs :
  sd fuel (SUnion brs) bs =
  obind (rd_varint_canon bs) (fun idx r => if idx <? 0 then Err else sd_pick fuel idx r brs (Z.to_nat idx)).
Proof.
  cbn [sd]. destruct (rd_varint_canon bs) as [idx r| | |]; cbn [obind]; try reflexivity.
  destruct (idx <? 0) eqn:E0; [reflexivity|]. cbn [orb].
  destruct (Z.of_nat (length brs) <=? idx) eqn:E1; [|apply sd_pick_eq].
  symmetry. apply sd_pick_oob. lia.
Qed.

Lemma sd_array_eq fuel it bs :
  sd fuel (SArray it) bs = obind (blocks true (sd_aitem fuel it) fuel [] bs) (fun ds r => Done (DArray ds) r).
Proof. reflexivity. Qed.
Lemma sd_map_eq fuel vs bs :
  sd fuel (SMap vs) bs = obind (blocks true (sd_mitem fuel vs) fuel [] bs) (fun kvs r => Done (DMap kvs) r).
Proof. reflexivity. Qed.

(* ---- skip ---- *)
Fixpoint skip_fields (fuel : nat) (l : list (codec * option nat)) (bs : bytes) {struct l} : out unit :=
  match l with
  | [] => Done tt bs
  | (fc, _) :: l' => obind (c_skip fuel fc bs) (fun _ r => skip_fields fuel l' r)
  end.
Fixpoint skip_pick (fuel : nat) (r : bytes) (l : list codec) (i : nat) {struct l} : out unit :=
  match l, i with
  | [], _ => Err
  | x :: _, O => c_skip fuel x r
  | _ :: l', S j => skip_pick fuel r l' j
  end.
Definition skip_mitem (fuel : nat) (vc : codec) (b0 : bytes) : out unit :=
  obind (string_skip b0) (fun _ r => c_skip fuel vc r).

Lemma c_skip_record_eq fuel fs bs : c_skip fuel (CRecord fs) bs = skip_fields fuel fs bs.
Proof.
  cbn [c_skip]. revert bs. induction fs as [|[fc t] l IH]; intros bs; [reflexivity|].
  cbn [skip_fields]. destruct (c_skip fuel fc bs); cbn [obind]; try reflexivity. apply IH.
Qed.
Lemma skip_pick_eq fuel r cs i :
  (fix pick (l : list codec) (i : nat) {struct l} : out unit :=
     match l, i with
     | [], _ => Err
     | x :: _, O => c_skip fuel x r
     | _ :: l', S j => pick l' j
     end) cs i = skip_pick fuel r cs i.
Proof. revert i. induction cs as [|x l IH]; intros i; [destruct i; reflexivity|]. destruct i; [reflexivity|]. apply IH. Qed.
Lemma c_skip_union_eq fuel cs bs :
  c_skip fuel (CUnion cs) bs =
  obind (rd_varint bs) (fun idx r =>
    if (idx <? 0) || (Z.of_nat (length cs) <=? idx) then Err else skip_pick fuel r cs (Z.to_nat idx)).
Proof.
  cbn [c_skip]. destruct (rd_varint bs) as [idx r| | |]; cbn [obind]; try reflexivity.
  destruct ((idx <? 0) || (Z.of_nat (length cs) <=? idx)); [reflexivity|]. apply skip_pick_eq.
Qed.
Lemma c_skip_array_eq fuel ic z om bs : c_skip fuel (CArray ic z om) bs = skip_blocks (c_skip fuel ic) fuel bs.
Proof. reflexivity. Qed.
Lemma c_skip_map_eq fuel vc z om bs : c_skip fuel (CMap vc z om) bs = skip_blocks (skip_mitem fuel vc) fuel bs.
Proof. reflexivity. Qed.

(* ---- read ---- *)
Fixpoint read_fields (fuel : nat) (l : list (codec * option nat)) (vs : list gval) (bs : bytes) {struct l} : out (list gval) :=
  match l with
  | [] => Done vs bs
  | (fc, None) :: l' => obind (c_skip fuel fc bs) (fun _ r => read_fields fuel l' vs r)
  | (fc, Some j) :: l' =>
      obind (c_read fuel fc (nth j vs VBad) bs) (fun v r => read_fields fuel l' (list_update vs j v) r)
  end.
Fixpoint read_pick (fuel : nat) (dest : gval) (r : bytes) (l : list codec) (i : nat) {struct l} : out gval :=
  match l, i with
  | [], _ => Err
  | x :: _, O => c_read fuel x dest r
  | _ :: l', S j => read_pick fuel dest r l' j
  end.
Definition read_aitem (fuel : nat) (ic : codec) (iz : gval) (acc : list gval) (b0 : bytes) : out (list gval) :=
  obind (c_read fuel ic iz b0) (fun v r => Done (acc ++ [v]) r).
Definition read_mitem (fuel : nat) (vc : codec) (vz : gval) (acc : list (bytes * gval)) (b0 : bytes) : out (list (bytes * gval)) :=
  obind (string_read b0) (fun k r => obind (c_read fuel vc vz r) (fun v r' => Done (acc ++ [(k, v)]) r')).

Lemma c_read_record_eq fuel fs vs bs :
  c_read fuel (CRecord fs) (VStruct vs) bs = obind (read_fields fuel fs vs bs) (fun vs' r => Done (VStruct vs') r).
Proof.
  cbn [c_read]. f_equal. revert vs bs. induction fs as [|[fc [j|]] l IH]; intros vs bs; [reflexivity| |].
  - cbn [read_fields]. destruct (c_read fuel fc (nth j vs VBad) bs); cbn [obind]; try reflexivity. apply IH.
  - cbn [read_fields]. destruct (c_skip fuel fc bs); cbn [obind]; try reflexivity. apply IH.
Qed.
Lemma read_pick_eq fuel dest r cs i :
  (fix pick (l : list codec) (i : nat) {struct l} : out gval :=
     match l, i with
     | [], _ => Err
     | x :: _, O => c_read fuel x dest r
     | _ :: l', S j => pick l' j
     end) cs i = read_pick fuel dest r cs i.
Proof. revert i. induction cs as [|x l IH]; intros i; [destruct i; reflexivity|]. destruct i; [reflexivity|]. apply IH. Qed.
Lemma c_read_union_eq fuel cs dest bs :
  c_read fuel (CUnion cs) dest bs =
  obind (rd_varint bs) (fun idx r =>
    if (idx <? 0) || (Z.of_nat (length cs) <=? idx) then Err else read_pick fuel dest r cs (Z.to_nat idx)).
Proof.
  cbn [c_read]. destruct (rd_varint bs) as [idx r| | |]; cbn [obind]; try reflexivity.
  destruct ((idx <? 0) || (Z.of_nat (length cs) <=? idx)); [reflexivity|]. apply read_pick_eq.
Qed.
Lemma c_read_array_eq fuel ic iz om acc bs :
  c_read fuel (CArray ic iz om) (VSlice acc) bs =
  obind (blocks false (read_aitem fuel ic iz) fuel acc bs) (fun vs r => Done (VSlice vs) r).
Proof. reflexivity. Qed.
Definition map_start (dest : gval) : option (list (bytes * gval)) :=
  match dest with VMap kvs => Some kvs | VMapNil => Some [] | _ => None end.
Lemma c_read_map_eq fuel vc vz om dest bs :
  c_read fuel (CMap vc vz om) dest bs =
  match map_start dest with
  | Some kvs0 => obind (blocks false (read_mitem fuel vc vz) fuel kvs0 bs) (fun kvs r => Done (VMap kvs) r)
  | None => Panic
  end.
Proof. cbn [c_read]. destruct dest; reflexivity. Qed.
