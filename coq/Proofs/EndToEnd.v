(* Values through a container file: records written by a built codec come back
   from ReadFile as the values the datum denotes, in order. *)
From Coq Require Import List ZArith Lia Bool.
Require Import Avro.Model.Base Avro.Model.Prim Avro.Model.Schema Avro.Model.GoType
  Avro.Model.Spec Avro.Model.Codec Avro.Model.Denote Avro.Model.Container Avro.Model.Writer.
Require Import Avro.Proofs.SpecP Avro.Proofs.RoundTrip Avro.Proofs.ContainerP Avro.Proofs.WriterP Avro.Proofs.FileP.
Import ListNotations.
Open Scope Z_scope.

Section EndToEnd.
  Variable reg : registry.
  Variable s : schema.
  Variable t : option gtype.
  Variable om : bool.
  Variable c : codec.
  Hypothesis Hbuild : build reg s t om = Some c.
  Variable fuel : nat.
  Variable dest : gval.               (* ReadFile decodes each record into a fresh zero value *)

  (* the record decoder ReadFile runs on the unread part of a block *)
  Definition rr (bs : bytes) : out unit := obind (c_read fuel c dest bs) (fun _ r => Done tt r).
  (* the value handed to the callback for that record *)
  Definition rv (bs : bytes) : option gval :=
    match c_read fuel c dest bs with Done v _ => Some v | _ => None end.

  (* r is what the writer's codec emits for some value whose datum is physical,
     fits the fuel, and has an image in the reader's destination *)
  Definition written (r : bytes) (v' : gval) : Prop :=
    exists v d, datum_of c s v = Some d /\ phys_ok s d /\ c_write c v = Some r /\
                (3 * dmax d + 1 <= fuel)%nat /\ apply_datum c dest d = Some v'.

  Lemma written_decodes r v' : written r v' -> rec_decodes rr r /\ forall rest, rv (r ++ rest) = Some v'.
  Proof.
    intros (v & d & Hd & Hp & Hw & Hf & Ha). split; intros rest.
    - unfold rr. destruct (write_then_read _ _ _ _ _ _ _ _ fuel rest dest v' Hbuild Hd Hp Hw Hf Ha) as [Hr _].
      rewrite Hr. reflexivity.
    - unfold rv. destruct (write_then_read _ _ _ _ _ _ _ _ fuel rest dest v' Hbuild Hd Hp Hw Hf Ha) as [Hr _].
      rewrite Hr. reflexivity.
  Qed.

  Variable compress : bytes -> bytes.
  Variable decompress : bytes -> option bytes.
  Hypothesis Hdc : forall x, decompress (compress x) = Some x.
  Variable sync : bytes.
  Hypothesis Hsync : len sync = 16.

  Theorem file_values_roundtrip : forall schema_json codec_name size ops bfuel,
    len schema_json < two63 -> len codec_name < two63 ->
    Forall (fun r => exists v', written r v') (recs_of ops) ->
    Forall (group_small compress) (fst (blocks_spec size [] (ops ++ [OpFlush]))) ->
    (length (fst (blocks_spec size [] (ops ++ [OpFlush]))) < bfuel)%nat ->
    exists body,
      read_header (concat (file_chunks compress schema_json codec_name sync size (ops ++ [OpFlush])))
        = Some ({| h_meta := written_meta schema_json codec_name; h_sync := sync |}, body) /\
      read_blocks decompress rr (fun _ => None) bfuel sync 0 body = (length (recs_of ops), FOk).
  Proof.
    intros sj cn size ops bfuel Hs Hc Hw Hsm Hf.
    apply (file_roundtrip compress decompress Hdc rr sync Hsync); try assumption.
    eapply Forall_impl; [|exact Hw]. intros r (v' & Hr). exact (proj1 (written_decodes r v' Hr)).
  Qed.
End EndToEnd.
