(* Values through a container file: records written by a built codec come back
   from ReadFile as the values the datum denotes, in order. *)
From Coq Require Import List ZArith Lia Bool.
Require Import Avro.Model.Base Avro.Model.Prim Avro.Model.Schema Avro.Model.GoType
  Avro.Model.Spec Avro.Model.Codec Avro.Model.Denote Avro.Model.Container Avro.Model.Writer.
Require Import Avro.Proofs.Wire Avro.Proofs.BuildP Avro.Proofs.ReadP Avro.Proofs.SpecP Avro.Proofs.RoundTrip Avro.Proofs.ContainerP Avro.Proofs.WriterP Avro.Proofs.FileP.
Import ListNotations.
Open Scope Z_scope.

Section EndToEnd.
  Variable reg : registry.
  Variable s : schema.
  Variable t : option gtype.
  Variable om : bool.
  Variable c : codec.
  Hypothesis Hbuild : build reg s t om = Some c.
  Variable fuel : nat.
  Variable dest : gval.               (* ReadFile decodes each record into a fresh zero value *)

  (* the record decoder ReadFile runs on the unread part of a block *)
  Definition rr (bs : bytes) : out unit := obind (c_read fuel c dest bs) (fun _ r => Done tt r).
  (* the value handed to the callback for that record *)
  Definition rv (bs : bytes) : option gval :=
    match c_read fuel c dest bs with Done v _ => Some v | _ => None end.

  (* r is what the writer's codec emits for some value whose datum is physical,
     fits the fuel, and has an image in the reader's destination *)
  Definition written (r : bytes) (v' : gval) : Prop :=
    exists v d, datum_of c s v = Some d /\ phys_ok s d /\ c_write c v = Some r /\
                (3 * dmax d + 1 <= fuel)%nat /\ apply_datum c dest d = Some v'.

  Lemma written_decodes r v' : written r v' -> rec_decodes rr r /\ forall rest, rv (r ++ rest) = Some v'.
  Proof.
    intros (v & d & Hd & Hp & Hw & Hf & Ha). split; intros rest.
    - unfold rr. destruct (write_then_read _ _ _ _ _ _ _ _ fuel rest dest v' Hbuild Hd Hp Hw Hf Ha) as [Hr _].
      rewrite Hr. reflexivity.
    - unfold rv. destruct (write_then_read _ _ _ _ _ _ _ _ fuel rest dest v' Hbuild Hd Hp Hw Hf Ha) as [Hr _].
      rewrite Hr. reflexivity.
  Qed.

  Variable compress : bytes -> bytes.
  Variable decompress : bytes -> option bytes.
  Hypothesis Hdc : forall x, decompress (compress x) = Some x.
  Variable sync : bytes.
  Hypothesis Hsync : len sync = 16.

  Theorem file_values_roundtrip : forall schema_json codec_name size ops bfuel,
    len schema_json < two63 -> len codec_name < two63 ->
    Forall (fun r => exists v', written r v') (recs_of ops) ->
    Forall (group_small compress) (fst (blocks_spec size [] (ops ++ [OpFlush]))) ->
    (length (fst (blocks_spec size [] (ops ++ [OpFlush]))) < bfuel)%nat ->
    exists body,
      read_header (concat (file_chunks compress schema_json codec_name sync size (ops ++ [OpFlush])))
        = Some ({| h_meta := written_meta schema_json codec_name; h_sync := sync |}, body) /\
      read_blocks decompress rr (fun _ => None) bfuel sync 0 body = (length (recs_of ops), FOk).
  Proof.
    intros sj cn size ops bfuel Hs Hc Hw Hsm Hf.
    apply (file_roundtrip compress decompress Hdc rr sync Hsync); try assumption.
    eapply Forall_impl; [|exact Hw]. intros r (v' & Hr). exact (proj1 (written_decodes r v' Hr)).
  Qed.
End EndToEnd.

(* Files written by any conforming writer: blocks whose payloads are
   concatenations of arbitrary specification encodings (any block structure for
   arrays and maps, with or without byte sizes) of well-typed datums that have
   an image in the reader's destination. *)
Section ForeignFile.
  Variable reg : registry.
  Variable s : schema.
  Variable t : option gtype.
  Variable om : bool.
  Variable c : codec.
  Hypothesis Hbuild : build reg s t om = Some c.
  Variable fuel : nat.
  Variable dest : gval.

  (* r is some specification encoding of a typed datum that fits the target *)
  Definition spec_record (r : bytes) (v' : gval) : Prop :=
    exists d ch, typed s d = true /\ (3 * dmax d + 1 <= fuel)%nat /\ len (spec_encode ch s d) < two63 /\
                 Z.of_nat (dmax d) < two63 /\ r = spec_encode ch s d /\ apply_datum c dest d = Some v'.

  Lemma spec_record_decodes r v' : spec_record r v' ->
    rec_decodes (rr c fuel dest) r /\ forall rest, rv c fuel dest (r ++ rest) = Some v'.
  Proof.
    intros (d & ch & Ht & Hf & Hl & Hm & -> & Ha).
    pose proof (build_wire _ _ _ _ _ Hbuild) as W.
    assert (Hr : forall rest, c_read fuel c dest (spec_encode ch s d ++ rest) = Done v' rest).
    { intros rest. eapply read_complete; [exact W| |exact Ha]. apply sd_spec_encode; assumption. }
    split; intros rest; [unfold rr|unfold rv]; rewrite Hr; reflexivity.
  Qed.

  Variable decompress : bytes -> option bytes.
  Variable sync : bytes.
  Hypothesis Hsync : len sync = 16.

  (* a block as any writer may lay it out: count, stored bytes, and the payload they decompress to *)
  Definition foreign_block_ok (b0 : vblock) : Prop :=
    decompress (vb_raw b0) = Some (vb_payload b0) /\
    (exists recs, length recs = vb_count b0 /\ vb_payload b0 = concat recs /\
                  Forall (fun r => exists v', spec_record r v') recs) /\
    Z.of_nat (vb_count b0) < two63 /\ len (vb_raw b0) < two63.

  Theorem foreign_file_reads : forall bl bfuel,
    Forall foreign_block_ok bl -> (length bl < bfuel)%nat ->
    read_blocks decompress (rr c fuel dest) (fun _ => None) bfuel sync 0 (concat (map (vb_bytes sync) bl))
    = (total bl, FOk).
  Proof.
    intros bl bfuel Hok Hf.
    rewrite (read_blocks_valid decompress (rr c fuel dest) (fun _ => None) sync Hsync bl bfuel 0); [reflexivity| |exact Hf].
    clear Hf. generalize 0%nat as idx. induction Hok as [|b0 bl Hb _ IH]; intros idx; cbn [vbs_ok]; [exact I|]. split; [|apply IH].
    destruct Hb as (Hd & (recs & Hn & Hp & Hr) & Hc & Hl).
    refine (conj Hd (conj _ (conj _ (conj Hc Hl)))).
    - rewrite Hp, <- Hn. rewrite <- (app_nil_r (concat recs)). apply recs_ok_concat.
      eapply Forall_impl; [|exact Hr]. intros r (v' & Hrv). exact (proj1 (spec_record_decodes r v' Hrv)).
    - intros i _. reflexivity.
  Qed.
End ForeignFile.

(* C02 through the container: the reader is the specification's reference
   decoder [sd] (no library codec involved on the read side). *)
Section SpecReader.
  Variable reg : registry.
  Variable s : schema.
  Variable t : option gtype.
  Variable om : bool.
  Variable c : codec.
  Hypothesis Hbuild : build reg s t om = Some c.
  Variable fuel : nat.

  Definition sd_rr (bs : bytes) : out unit := obind (sd fuel s bs) (fun _ r => Done tt r).
  Definition sd_rv (bs : bytes) : option datum := match sd fuel s bs with Done d _ => Some d | _ => None end.

  (* r is what the library's codec writes for a value denoting the physical datum d *)
  Definition written_datum (r : bytes) (d : datum) : Prop :=
    exists v, datum_of c s v = Some d /\ phys_ok s d /\ c_write c v = Some r /\ (3 * dmax d + 1 <= fuel)%nat.

  Lemma written_datum_decodes r d : written_datum r d ->
    r = canon_encode s d /\ rec_decodes sd_rr r /\ forall rest, sd_rv (r ++ rest) = Some d.
  Proof.
    intros (v & Hd & Hp & Hw & Hf).
    assert (H : forall rest, r = canon_encode s d /\ sd fuel s (r ++ rest) = Done d rest)
      by (intros rest; eapply written_is_valid_avro; eauto).
    split; [exact (proj1 (H []))|]. split; intros rest; [unfold sd_rr|unfold sd_rv]; rewrite (proj2 (H rest)); reflexivity.
  Qed.

  Variable compress : bytes -> bytes.
  Variable decompress : bytes -> option bytes.
  Hypothesis Hdc : forall x, decompress (compress x) = Some x.
  Variable sync : bytes.
  Hypothesis Hsync : len sync = 16.

  Theorem file_is_valid_avro : forall schema_json codec_name size ops bfuel,
    len schema_json < two63 -> len codec_name < two63 ->
    Forall (fun r => exists d, written_datum r d) (recs_of ops) ->
    Forall (group_small compress) (fst (blocks_spec size [] (ops ++ [OpFlush]))) ->
    (length (fst (blocks_spec size [] (ops ++ [OpFlush]))) < bfuel)%nat ->
    exists body,
      read_header (concat (file_chunks compress schema_json codec_name sync size (ops ++ [OpFlush])))
        = Some ({| h_meta := written_meta schema_json codec_name; h_sync := sync |}, body) /\
      read_blocks decompress sd_rr (fun _ => None) bfuel sync 0 body = (length (recs_of ops), FOk).
  Proof.
    intros sj cn size ops bfuel Hs Hc Hw Hsm Hf.
    apply (file_roundtrip compress decompress Hdc sd_rr sync Hsync); try assumption.
    eapply Forall_impl; [|exact Hw]. intros r (d & Hr). exact (proj1 (proj2 (written_datum_decodes r d Hr))).
  Qed.
End SpecReader.
