(* C06, termination and no-panic facts for the skip path (typ == nil codecs and
   every field the target lacks) and for the primitive readers:
   skipping never panics, and with fuel linear in the input length it never
   runs out of fuel unless a collection has zero-width items. *)
From Coq Require Import List ZArith Lia Bool ZifyBool ZifyNat.
Require Import Avro.Model.Base Avro.Model.Prim Avro.Model.Schema Avro.Model.GoType
               Avro.Model.Blocks Avro.Model.Time Avro.Model.Spec Avro.Model.Codec.
Require Import Avro.Proofs.ListFacts Avro.Proofs.VarintP Avro.Proofs.VarintMore Avro.Proofs.PrimP
               Avro.Proofs.BlocksP Avro.Proofs.CodecInd Avro.Proofs.CodecEq.
Import ListNotations.
Open Scope Z_scope.

(* ---- the primitives never panic, never run out of fuel, and consume what they read ---- *)
Lemma obind_not {A B} (o : out A) (k : A -> bytes -> out B) (bad : out B) :
  (bad = Panic \/ bad = Fuel) ->
  (match o with Panic | Fuel => False | _ => True end) ->
  (forall a r, o = Done a r -> k a r <> bad) -> obind o k <> bad.
Proof.
  intros Hb Ho Hk. destruct o; cbn [obind]; try contradiction.
  - apply Hk. reflexivity.
  - destruct Hb as [-> | ->]; discriminate.
Qed.

Lemma rd_varint_total bs : match rd_varint bs with Panic | Fuel => False | _ => True end.
Proof. unfold rd_varint. destruct (dec_varint bs) as [[v r]| |]; exact I. Qed.
Lemma rd_next_total l bs : match rd_next l bs with Panic | Fuel => False | _ => True end.
Proof. unfold rd_next. destruct ((l <? 0) || (len bs <? l)); exact I. Qed.
Lemma rd_skipn_total l bs : match rd_skipn l bs with Panic | Fuel => False | _ => True end.
Proof. unfold rd_skipn, rd_next. destruct ((l <? 0) || (len bs <? l)); exact I. Qed.
Lemma rd_byte_total bs : match rd_byte bs with Panic | Fuel => False | _ => True end.
Proof. destruct bs; exact I. Qed.
Lemma int_skip_total bs : match int_skip bs with Panic | Fuel => False | _ => True end.
Proof. unfold int_skip, rd_varint. destruct (dec_varint bs) as [[v r]| |]; exact I. Qed.
Lemma string_skip_total bs : match string_skip bs with Panic | Fuel => False | _ => True end.
Proof.
  unfold string_skip, rd_varint. destruct (dec_varint bs) as [[v r]| |]; cbn [obind]; try exact I. apply rd_skipn_total.
Qed.

Lemma rd_skipn_len l bs r : rd_skipn l bs = Done tt r -> len r = len bs - l /\ 0 <= l.
Proof.
  intros H. destruct (rd_skipn_inv _ _ _ H) as [Hl ->]. unfold len in *. rewrite skipn_length. lia.
Qed.
Lemma int_skip_len bs r : int_skip bs = Done tt r -> len r < len bs.
Proof. unfold int_skip. intros H. inv_obind H. injection H as <-. eapply rd_varint_shorter; eauto. Qed.
Lemma string_skip_len bs r : string_skip bs = Done tt r -> len r < len bs.
Proof.
  unfold string_skip. intros H. inv_obind H. apply rd_varint_shorter in Ho. apply rd_skipn_len in H. lia.
Qed.

(* ---- the skip loop ---- *)
Section SkipSafe.
  Variable skip_item : bytes -> out unit.
  Variable L0 : Z.                                  (* inputs up to this length are under consideration *)
  Hypothesis Hnp : forall bs, skip_item bs <> Panic.
  Hypothesis Hnf : forall bs, len bs <= L0 -> skip_item bs <> Fuel.
  Hypothesis Hprog : forall bs r, skip_item bs = Done tt r -> len r < len bs.

  Lemma skip_blocks_items_no_panic : forall f,
    (forall bs, skip_blocks skip_item f bs <> Panic) /\ (forall n bs, skip_items skip_item f n bs <> Panic).
  Proof.
    induction f as [|f [IHb IHi]]; [split; intros; discriminate|]. split.
    - intros bs. cbn [skip_blocks]. apply obind_not; [left; reflexivity|apply rd_varint_total|].
      intros cnt r _. destruct (cnt =? 0); [discriminate|]. destruct (cnt <? 0); [|apply IHi].
      apply obind_not; [left; reflexivity|apply rd_varint_total|]. intros sz r' _.
      apply obind_not; [left; reflexivity|apply rd_skipn_total|]. intros _ r'' _. apply IHb.
    - intros n bs. cbn [skip_items]. destruct (n <=? 0); [apply IHb|].
      destruct (skip_item bs) eqn:E; cbn [obind]; try discriminate; [apply IHi|]. exfalso. exact (Hnp bs E).
  Qed.

  Lemma skip_blocks_items_no_fuel : forall f,
    (forall bs, len bs <= L0 -> (2 * length bs + 1 <= f)%nat -> skip_blocks skip_item f bs <> Fuel) /\
    (forall n bs, len bs <= L0 -> (2 * length bs + 2 <= f)%nat -> skip_items skip_item f n bs <> Fuel).
  Proof.
    induction f as [|f [IHb IHi]]; [split; intros; lia|]. split.
    - intros bs HL Hf. cbn [skip_blocks]. apply obind_not; [right; reflexivity|apply rd_varint_total|].
      intros cnt r Hc. pose proof (rd_varint_shorter _ _ _ Hc) as Hs. unfold len in *.
      destruct (cnt =? 0); [discriminate|]. destruct (cnt <? 0).
      + apply obind_not; [right; reflexivity|apply rd_varint_total|]. intros sz r' Hc'.
        pose proof (rd_varint_shorter _ _ _ Hc') as Hs'. unfold len in *.
        apply obind_not; [right; reflexivity|apply rd_skipn_total|]. intros [] r'' Hk.
        apply rd_skipn_len in Hk. unfold len in *. apply IHb; lia.
      + apply IHi; lia.
    - intros n bs HL Hf. cbn [skip_items]. destruct (n <=? 0); [apply IHb; lia|].
      destruct (skip_item bs) as [[] r| | |] eqn:E; cbn [obind]; try discriminate.
      + apply Hprog in E. unfold len in *. apply IHi; lia.
      + exfalso. exact (Hnf bs HL E).
  Qed.

End SkipSafe.

Section SkipProg.
  Variable skip_item : bytes -> out unit.
  Hypothesis Hprog : forall bs r, skip_item bs = Done tt r -> len r < len bs.

  Lemma skip_blocks_progress : forall f,
    (forall bs r, skip_blocks skip_item f bs = Done tt r -> len r < len bs) /\
    (forall n bs r, skip_items skip_item f n bs = Done tt r -> len r < len bs).
  Proof.
    induction f as [|f [IHb IHi]]; [split; intros; discriminate|]. split.
    - intros bs r H. cbn [skip_blocks] in H. inv_obind H. apply rd_varint_shorter in Ho.
      destruct (a =? 0); [injection H as <-; exact Ho|]. destruct (a <? 0).
      + inv_obind H. apply rd_varint_shorter in Ho0. inv_obind H. destruct a1. apply rd_skipn_len in Ho1. apply IHb in H. lia.
      + apply IHi in H. lia.
    - intros n bs r H. cbn [skip_items] in H. destruct (n <=? 0); [apply IHb; exact H|].
      inv_obind H. destruct a. apply Hprog in Ho. apply IHi in H. lia.
  Qed.
End SkipProg.

(* ---- a codec all of whose collection items occupy at least one byte ---- *)
Fixpoint min_bytes (c : codec) {struct c} : Z :=
  match c with
  | CNull => 0
  | CBool _ | CNullBool => 1
  | CInt _ _ | CTimeLong _ | CDate | CNullInt => 1
  | CFloat _ | CNullFloat => 4
  | CDouble _ | CF32Double _ | CNullDouble => 8
  | CBytes _ | CString _ | CTimeString | CNullString | CNullTime => 1
  | CFixed n => Z.max 0 n
  | CRecord fs => (fix go (l : list (codec * option nat)) {struct l} : Z :=
                     match l with [] => 0 | (fc, _) :: l' => min_bytes fc + go l' end) fs
  | CArray _ _ _ | CMap _ _ _ => 1
  | CPtr c' _ | CCustom _ c' => min_bytes c'
  | CUnion _ | CUnionOne _ _ | CUnionStr _ _ => 1
  end.

Fixpoint nzw (c : codec) {struct c} : Prop :=
  match c with
  | CRecord fs => (fix go (l : list (codec * option nat)) {struct l} : Prop :=
                     match l with [] => True | (fc, _) :: l' => nzw fc /\ go l' end) fs
  | CArray ic _ _ => nzw ic /\ 1 <= min_bytes ic
  | CMap vc _ _ => nzw vc
  | CPtr c' _ | CCustom _ c' | CUnionOne c' _ => nzw c'
  | CUnion cs => (fix go (l : list codec) {struct l} : Prop := match l with [] => True | x :: l' => nzw x /\ go l' end) cs
  | _ => True
  end.

Fixpoint nzw_fields (l : list (codec * option nat)) {struct l} : Prop :=
  match l with [] => True | (fc, _) :: l' => nzw fc /\ nzw_fields l' end.
Fixpoint min_fields (l : list (codec * option nat)) {struct l} : Z :=
  match l with [] => 0 | (fc, _) :: l' => min_bytes fc + min_fields l' end.
Fixpoint nzw_list (l : list codec) {struct l} : Prop := match l with [] => True | x :: l' => nzw x /\ nzw_list l' end.
Lemma nzw_record fs : nzw (CRecord fs) = nzw_fields fs. Proof. reflexivity. Qed.
Lemma min_record fs : min_bytes (CRecord fs) = min_fields fs. Proof. reflexivity. Qed.
Lemma nzw_union cs : nzw (CUnion cs) = nzw_list cs. Proof. reflexivity. Qed.

Lemma min_bytes_nonneg c : 0 <= min_bytes c.
Proof.
  induction c using codec_ind'; cbn [min_bytes]; try lia.
  - rewrite <- (min_record fs) at 1. rewrite min_record. induction H as [|[fc t] l Hx _ IH]; cbn [min_fields fst] in *; lia.
Qed.

(* skipping never panics *)
Ltac skip_prim bs :=
  cbn [c_skip];
  pose proof (rd_skipn_total 1 bs); pose proof (rd_skipn_total 4 bs); pose proof (rd_skipn_total 8 bs);
  pose proof (int_skip_total bs); pose proof (string_skip_total bs);
  match goal with |- ?x <> _ => destruct x; try contradiction; discriminate end.

Theorem skip_no_panic fuel : forall c bs, c_skip fuel c bs <> Panic.
Proof.
  induction c using codec_ind'; intros bs.
  - discriminate.
  - skip_prim bs. - skip_prim bs. - skip_prim bs. - skip_prim bs. - skip_prim bs. - skip_prim bs. - skip_prim bs.
  - cbn [c_skip]. pose proof (rd_skipn_total n bs). destruct (rd_skipn n bs); try contradiction; discriminate.
  - rewrite c_skip_record_eq. revert bs. induction H as [|[fc t] l Hx _ IH]; intros bs; cbn [skip_fields]; [discriminate|].
    cbn [fst] in Hx. destruct (c_skip fuel fc bs) eqn:E; cbn [obind]; try discriminate; [apply IH|]. exfalso. exact (Hx bs E).
  - rewrite c_skip_array_eq. apply (proj1 (skip_blocks_items_no_panic _ IHc fuel)).
  - rewrite c_skip_map_eq. refine (proj1 (skip_blocks_items_no_panic _ _ fuel) bs). intros b0. unfold skip_mitem.
    apply obind_not; [left; reflexivity|apply string_skip_total|]. intros _ r _. apply IHc.
  - cbn [c_skip]. apply IHc.
  - rewrite c_skip_union_eq. apply obind_not; [left; reflexivity|apply rd_varint_total|].
    intros idx r _. destruct ((idx <? 0) || (Z.of_nat (length cs) <=? idx)); [discriminate|].
    generalize (Z.to_nat idx). induction H as [|x l Hx _ IH]; intros i; [destruct i; discriminate|].
    destruct i; cbn [skip_pick]; [apply Hx|apply IH].
  - cbn [c_skip]. apply obind_not; [left; reflexivity|apply rd_byte_total|]. intros sel r _.
    destruct (2 <=? sel / 2); [discriminate|]. destruct (sel / 2 =? nn); [apply IHc|discriminate].
  - cbn [c_skip]. apply obind_not; [left; reflexivity|apply rd_byte_total|]. intros sel r _.
    destruct (2 <=? sel / 2); [discriminate|]. destruct (sel / 2 =? nn); [|discriminate].
    pose proof (string_skip_total r). destruct (string_skip r); try contradiction; discriminate.
  - skip_prim bs. - skip_prim bs. - skip_prim bs. - skip_prim bs. - skip_prim bs. - skip_prim bs. - skip_prim bs. - skip_prim bs. - skip_prim bs.
  - cbn [c_skip]. apply IHc.
Qed.

(* progress: a successful skip consumes at least min_bytes *)
Theorem skip_progress fuel : forall c bs r, nzw c -> c_skip fuel c bs = Done tt r -> len r + min_bytes c <= len bs.
Proof.
  induction c using codec_ind'; intros bs r Hz Hs.
  - cbn in Hs. injection Hs as <-. cbn. lia.
  - cbn [c_skip] in Hs. apply rd_skipn_len in Hs. cbn. lia.
  - cbn [c_skip] in Hs. apply int_skip_len in Hs. cbn. lia.
  - cbn [c_skip] in Hs. apply rd_skipn_len in Hs. cbn. lia.
  - cbn [c_skip] in Hs. apply rd_skipn_len in Hs. cbn. lia.
  - cbn [c_skip] in Hs. apply rd_skipn_len in Hs. cbn. lia.
  - cbn [c_skip] in Hs. apply string_skip_len in Hs. cbn. lia.
  - cbn [c_skip] in Hs. apply string_skip_len in Hs. cbn. lia.
  - cbn [c_skip] in Hs. apply rd_skipn_len in Hs. cbn [min_bytes]. lia.
  - rewrite c_skip_record_eq in Hs. rewrite nzw_record in Hz. rewrite min_record.
    revert bs Hs Hz. induction H as [|[fc t] l Hx _ IH]; intros bs Hs Hz; cbn [skip_fields min_fields nzw_fields] in *.
    + injection Hs as <-. lia.
    + destruct Hz as [Hz1 Hz2]. inv_obind Hs. destruct a. cbn [fst] in Hx. pose proof (Hx _ _ Hz1 Ho). specialize (IH _ Hs Hz2). lia.
  - rewrite c_skip_array_eq in Hs. destruct Hz as [Hz Hm]. cbn [min_bytes].
    assert (Hp : forall b0 r0, c_skip fuel c b0 = Done tt r0 -> len r0 < len b0) by (intros b0 r0 E; pose proof (IHc _ _ Hz E); lia).
    pose proof (proj1 (skip_blocks_progress _ Hp fuel) _ _ Hs). lia.
  - rewrite c_skip_map_eq in Hs. cbn [min_bytes]. cbn [nzw] in Hz.
    assert (Hp : forall b0 r0, skip_mitem fuel c b0 = Done tt r0 -> len r0 < len b0).
    { intros b0 r0 E. unfold skip_mitem in E. inv_obind E. destruct a. apply string_skip_len in Ho.
      pose proof (IHc _ _ Hz E). pose proof (min_bytes_nonneg c). lia. }
    pose proof (proj1 (skip_blocks_progress _ Hp fuel) _ _ Hs). lia.
  - cbn [c_skip] in Hs. cbn [min_bytes nzw] in *. eauto.
  - rewrite c_skip_union_eq in Hs. rewrite nzw_union in Hz. cbn [min_bytes]. inv_obind Hs. apply rd_varint_shorter in Ho.
    destruct ((a <? 0) || (Z.of_nat (length cs) <=? a)); [discriminate|].
    assert (len r <= len r0); [|lia].
    revert Hs. generalize (Z.to_nat a). revert Hz. induction H as [|x l Hx _ IH]; intros Hz i Hs; [destruct i; discriminate|].
    destruct Hz as [Hz1 Hz2]. destruct i; cbn [skip_pick] in Hs.
    + pose proof (Hx _ _ Hz1 Hs). pose proof (min_bytes_nonneg x). lia.
    + eapply IH; eauto.
  - cbn [c_skip] in Hs. cbn [min_bytes nzw] in *. inv_obind Hs. destruct bs as [|b0 bs']; [discriminate|]. cbn in Ho. injection Ho as <- <-.
    unfold len in *. cbn [length]. destruct (2 <=? b0 / 2); [discriminate|]. destruct (b0 / 2 =? nn).
    + pose proof (IHc _ _ Hz Hs). pose proof (min_bytes_nonneg c). unfold len in *. lia.
    + injection Hs as <-. lia.
  - cbn [c_skip] in Hs. cbn [min_bytes]. inv_obind Hs. destruct bs as [|b0 bs']; [discriminate|]. cbn in Ho. injection Ho as <- <-.
    unfold len in *. cbn [length]. destruct (2 <=? b0 / 2); [discriminate|]. destruct (b0 / 2 =? nn).
    + apply string_skip_len in Hs. unfold len in *. lia.
    + injection Hs as <-. lia.
  - cbn [c_skip] in Hs. apply string_skip_len in Hs. cbn. lia.
  - cbn [c_skip] in Hs. apply int_skip_len in Hs. cbn. lia.
  - cbn [c_skip] in Hs. apply int_skip_len in Hs. cbn. lia.
  - cbn [c_skip] in Hs. apply int_skip_len in Hs. cbn. lia.
  - cbn [c_skip] in Hs. apply rd_skipn_len in Hs. cbn. lia.
  - cbn [c_skip] in Hs. apply rd_skipn_len in Hs. cbn. lia.
  - cbn [c_skip] in Hs. apply rd_skipn_len in Hs. cbn. lia.
  - cbn [c_skip] in Hs. apply string_skip_len in Hs. cbn. lia.
  - cbn [c_skip] in Hs. apply string_skip_len in Hs. cbn. lia.
  - cbn [c_skip] in Hs. cbn [min_bytes nzw] in *. eauto.
Qed.

(* termination with fuel linear in the input length *)
Theorem skip_terminates fuel : forall c bs, nzw c -> (2 * length bs + 2 <= fuel)%nat -> c_skip fuel c bs <> Fuel.
Proof.
  induction c using codec_ind'; intros bs Hz Hf.
  - discriminate.
  - skip_prim bs. - skip_prim bs. - skip_prim bs. - skip_prim bs. - skip_prim bs. - skip_prim bs. - skip_prim bs.
  - cbn [c_skip]. pose proof (rd_skipn_total n bs). destruct (rd_skipn n bs); try contradiction; discriminate.
  - rewrite c_skip_record_eq. rewrite nzw_record in Hz.
    revert bs Hf Hz. induction H as [|[fc t] l Hx _ IH]; intros bs Hf Hz; cbn [skip_fields nzw_fields] in *; [discriminate|].
    destruct Hz as [Hz1 Hz2]. cbn [fst] in Hx.
    destruct (c_skip fuel fc bs) as [[] r| | |] eqn:E; cbn [obind]; try discriminate.
    + pose proof (skip_progress fuel _ _ _ Hz1 E). pose proof (min_bytes_nonneg fc). unfold len in *. apply IH; [lia|exact Hz2].
    + exfalso. exact (Hx _ Hz1 Hf E).
  - rewrite c_skip_array_eq. destruct Hz as [Hz Hm].
    refine (proj1 (skip_blocks_items_no_fuel (c_skip fuel c) (len bs) (skip_no_panic fuel c) _ _ fuel) bs _ _); try lia.
    + intros b0 Hl. apply IHc; [exact Hz|]. unfold len in Hl. lia.
    + intros b0 r0 E. pose proof (skip_progress fuel _ _ _ Hz E). lia.
  - rewrite c_skip_map_eq. cbn [nzw] in Hz.
    refine (proj1 (skip_blocks_items_no_fuel (skip_mitem fuel c) (len bs) _ _ _ fuel) bs _ _); try lia.
    + intros b0. unfold skip_mitem. apply obind_not; [left; reflexivity|apply string_skip_total|]. intros _ r _. apply skip_no_panic.
    + intros b0 Hl. unfold skip_mitem. apply obind_not; [right; reflexivity|apply string_skip_total|].
      intros [] r E. apply string_skip_len in E. apply IHc; [exact Hz|]. unfold len in *. lia.
    + intros b0 r0 E. unfold skip_mitem in E. inv_obind E. destruct a. apply string_skip_len in Ho.
      pose proof (skip_progress fuel _ _ _ Hz E). pose proof (min_bytes_nonneg c). lia.
  - cbn [c_skip]. cbn [nzw] in Hz. apply IHc; assumption.
  - rewrite c_skip_union_eq. rewrite nzw_union in Hz. apply obind_not; [right; reflexivity|apply rd_varint_total|].
    intros idx r E. apply rd_varint_shorter in E. destruct ((idx <? 0) || (Z.of_nat (length cs) <=? idx)); [discriminate|].
    generalize (Z.to_nat idx). revert Hz. induction H as [|x l Hx _ IH]; intros Hz i; [destruct i; discriminate|].
    destruct Hz as [Hz1 Hz2]. destruct i; cbn [skip_pick]; [apply Hx; [exact Hz1|unfold len in *; lia]|apply IH; exact Hz2].
  - cbn [c_skip]. cbn [nzw] in Hz. apply obind_not; [right; reflexivity|apply rd_byte_total|]. intros sel r E.
    destruct bs as [|b0 bs']; [discriminate|]. cbn in E. injection E as <- <-. cbn [length] in Hf.
    destruct (2 <=? b0 / 2); [discriminate|]. destruct (b0 / 2 =? nn); [apply IHc; [exact Hz|lia]|discriminate].
  - cbn [c_skip]. apply obind_not; [right; reflexivity|apply rd_byte_total|]. intros sel r E.
    destruct (2 <=? sel / 2); [discriminate|]. destruct (sel / 2 =? nn); [|discriminate].
    pose proof (string_skip_total r). destruct (string_skip r); try contradiction; discriminate.
  - skip_prim bs. - skip_prim bs. - skip_prim bs. - skip_prim bs. - skip_prim bs. - skip_prim bs. - skip_prim bs. - skip_prim bs. - skip_prim bs.
  - cbn [c_skip]. cbn [nzw] in Hz. apply IHc; assumption.
Qed.
