(* Datum-level meaning of a codec tree, independent of any byte encoding:
   [apply_datum c dest d] is the Go value that decoding datum d through codec c
   into destination dest must produce (None: the datum does not fit);
   [datum_of c v] is the datum the Go value v denotes when written through c
   (None: v has no Avro meaning under c). *)
Require Import Avro.Model.Base Avro.Model.Prim Avro.Model.Schema Avro.Model.GoType
               Avro.Model.Time Avro.Model.Spec Avro.Model.Codec.

Definition datum_int (d : datum) : option Z :=
  match d with DInt z | DLong z => Some z | _ => None end.

Definition time_string_apply (dest : gval) (v : bytes) : option gval :=
  match v with
  | [] => Some dest
  | _ => match parse_time v with POk t => Some (VTime t) | _ => None end
  end.

Fixpoint apply_datum (c : codec) (dest : gval) (d : datum) {struct c} : option gval :=
  match c with
  | CNull => match d with DNull => Some dest | _ => None end
  | CBool _ => match d with DBool v => Some (VBool v) | _ => None end
  | CInt w _ => match datum_int d with Some z => if int_fits w z then Some (VInt z) else None | None => None end
  | CFloat _ => match d with DFloat v => Some (VF32 v) | _ => None end
  | CDouble _ => match d with DDouble v => Some (VF64 v) | _ => None end
  | CF32Double _ => match d with DDouble v => Some (VF32 (narrow64 v)) | _ => None end
  | CBytes _ => match d with DBytes v => Some (match v with [] => dest | _ => VBytes v end) | _ => None end
  | CString _ => match d with DString v => Some (VStr v) | _ => None end
  | CFixed _ => match d with DFixed v => Some (VFixed v) | _ => None end
  | CRecord fs =>
      match d, dest with
      | DRecord ds, VStruct vs0 =>
          option_map VStruct
            ((fix go (l : list (codec * option nat)) (ds : list datum) (vs : list gval) {struct l} : option (list gval) :=
                match l, ds with
                | [], [] => Some vs
                | (_, None) :: l', _ :: ds' => go l' ds' vs
                | (fc, Some j) :: l', d' :: ds' =>
                    match apply_datum fc (nth j vs VBad) d' with
                    | Some v => go l' ds' (list_update vs j v)
                    | None => None
                    end
                | _, _ => None
                end) fs ds vs0)
      | _, _ => None
      end
  | CArray ic iz _ =>
      match d, dest with
      | DArray ds, VSlice acc0 =>
          option_map VSlice
            ((fix go (ds : list datum) (acc : list gval) {struct ds} : option (list gval) :=
                match ds with
                | [] => Some acc
                | d' :: ds' => match apply_datum ic iz d' with
                               | Some v => go ds' (acc ++ [v])
                               | None => None end
                end) ds acc0)
      | _, _ => None
      end
  | CMap vc vz _ =>
      match d with
      | DMap kvs =>
        match (match dest with VMap kvs0 => Some kvs0 | VMapNil => Some [] | _ => None end) with
        | Some kvs0 =>
          option_map VMap
            ((fix go (kvs : list (bytes * datum)) (acc : list (bytes * gval)) {struct kvs} : option (list (bytes * gval)) :=
                match kvs with
                | [] => Some acc
                | (k, d') :: r => match apply_datum vc vz d' with
                                  | Some v => go r (acc ++ [(k, v)])
                                  | None => None end
                end) kvs kvs0)
        | None => None
        end
      | _ => None
      end
  | CPtr c' z =>
      match dest with
      | VPtr o => option_map (fun v => VPtr (Some v)) (apply_datum c' (match o with Some x => x | None => z end) d)
      | _ => None
      end
  | CUnion cs =>
      match d with
      | DUnion idx d' =>
          if idx <? 0 then None
          else (fix pick (l : list codec) (i : nat) {struct l} : option gval :=
                  match l, i with
                  | [], _ => None
                  | x :: _, O => apply_datum x dest d'
                  | _ :: l', S j => pick l' j
                  end) cs (Z.to_nat idx)
      | _ => None
      end
  | CUnionOne c' nn =>
      match d with
      | DUnion idx d' => if idx =? nn then apply_datum c' dest d' else Some dest
      | _ => None
      end
  | CUnionStr _ nn =>
      match d with
      | DUnion idx d' => if idx =? nn then match d' with DString v => Some (VStr v) | _ => None end else Some dest
      | _ => None
      end
  | CTimeString => match d with DString v => time_string_apply dest v | _ => None end
  | CTimeLong mult => match datum_int d with Some z => Some (VTime (time_of_ns (wrap64 (z * mult)))) | None => None end
  | CDate => match datum_int d with
             | Some z => if int_fits 32 z then Some (VTime (TV (86400 * z) 0 0)) else None
             | None => None end
  | CNullInt => match datum_int d with Some z => Some (VNullW true (VInt z)) | None => None end
  | CNullBool => match d with DBool v => Some (VNullW true (VBool v)) | _ => None end
  | CNullDouble => match d with DDouble v => Some (VNullW true (VF64 v)) | _ => None end
  | CNullFloat => match d with DFloat v => Some (VNullW true (VF64 (widen32 v))) | _ => None end
  | CNullString => match d with DString v => Some (VNullW true (VStr v)) | _ => None end
  | CNullTime => match d with
                 | DString v => option_map (VNullW true) (time_string_apply (null_payload dest) v)
                 | _ => None end
  | CCustom k c' => option_map (cx k) (apply_datum c' dest d)
  end.
