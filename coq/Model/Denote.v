(* Datum-level meaning of a codec tree, independent of any byte encoding:
   [apply_datum c dest d] is the Go value that decoding datum d through codec c
   into destination dest must produce (None: the datum does not fit);
   [datum_of c v] is the datum the Go value v denotes when written through c
   (None: v has no Avro meaning under c). *)
Require Import Avro.Model.Base Avro.Model.Prim Avro.Model.Schema Avro.Model.GoType
               Avro.Model.Time Avro.Model.Spec Avro.Model.Codec.

Definition datum_int (d : datum) : option Z :=
  match d with DInt z | DLong z => Some z | _ => None end.

Definition time_string_apply (dest : gval) (v : bytes) : option gval :=
  match v with
  | [] => Some dest
  | _ => match parse_time v with POk t => Some (VTime t) | _ => None end
  end.

Fixpoint apply_datum (c : codec) (dest : gval) (d : datum) {struct c} : option gval :=
  match c with
  | CNull => match d with DNull => Some dest | _ => None end
  | CBool _ => match d with DBool v => Some (VBool v) | _ => None end
  | CInt w _ => match datum_int d with Some z => if int_fits w z then Some (VInt z) else None | None => None end
  | CFloat _ => match d with DFloat v => Some (VF32 v) | _ => None end
  | CDouble _ => match d with DDouble v => Some (VF64 v) | _ => None end
  | CF32Double _ => match d with DDouble v => Some (VF32 (narrow64 v)) | _ => None end
  | CBytes _ => match d with DBytes v => Some (match v with [] => dest | _ => VBytes v end) | _ => None end
  | CString _ => match d with DString v => Some (VStr v) | _ => None end
  | CFixed _ => match d with DFixed v => Some (VFixed v) | _ => None end
  | CRecord fs =>
      match d, dest with
      | DRecord ds, VStruct vs0 =>
          option_map VStruct
            ((fix go (l : list (codec * option nat)) (ds : list datum) (vs : list gval) {struct l} : option (list gval) :=
                match l, ds with
                | [], [] => Some vs
                | (_, None) :: l', _ :: ds' => go l' ds' vs
                | (fc, Some j) :: l', d' :: ds' =>
                    match apply_datum fc (nth j vs VBad) d' with
                    | Some v => go l' ds' (list_update vs j v)
                    | None => None
                    end
                | _, _ => None
                end) fs ds vs0)
      | _, _ => None
      end
  | CArray ic iz _ =>
      match d, dest with
      | DArray ds, VSlice acc0 =>
          option_map VSlice
            ((fix go (ds : list datum) (acc : list gval) {struct ds} : option (list gval) :=
                match ds with
                | [] => Some acc
                | d' :: ds' => match apply_datum ic iz d' with
                               | Some v => go ds' (acc ++ [v])
                               | None => None end
                end) ds acc0)
      | DArray ds, VBytes acc0 =>
          (* an array schema over a []byte target: every item contributes one byte *)
          option_map VBytes
            ((fix go (ds : list datum) (acc : bytes) {struct ds} : option bytes :=
                match ds with
                | [] => Some acc
                | d' :: ds' => match apply_datum ic iz d' with
                               | Some v => go ds' (acc ++ [match v with VInt z => z | _ => 0 end])
                               | None => None end
                end) ds acc0)
      | _, _ => None
      end
  | CMap vc vz _ =>
      match d with
      | DMap kvs =>
        match (match dest with VMap kvs0 => Some kvs0 | VMapNil => Some [] | _ => None end) with
        | Some kvs0 =>
          option_map VMap
            ((fix go (kvs : list (bytes * datum)) (acc : list (bytes * gval)) {struct kvs} : option (list (bytes * gval)) :=
                match kvs with
                | [] => Some acc
                | (k, d') :: r => match apply_datum vc vz d' with
                                  | Some v => go r (acc ++ [(k, v)])
                                  | None => None end
                end) kvs kvs0)
        | None => None
        end
      | _ => None
      end
  | CPtr c' z =>
      match dest with
      | VPtr o => option_map (fun v => VPtr (Some v)) (apply_datum c' (match o with Some x => x | None => z end) d)
      | _ => None
      end
  | CUnion cs =>
      match d with
      | DUnion idx d' =>
          if idx <? 0 then None
          else (fix pick (l : list codec) (i : nat) {struct l} : option gval :=
                  match l, i with
                  | [], _ => None
                  | x :: _, O => apply_datum x dest d'
                  | _ :: l', S j => pick l' j
                  end) cs (Z.to_nat idx)
      | _ => None
      end
  | CUnionOne c' nn =>
      match d with
      | DUnion idx d' => if idx =? nn then apply_datum c' dest d' else Some dest
      | _ => None
      end
  | CUnionStr _ nn =>
      match d with
      | DUnion idx d' => if idx =? nn then match d' with DString v => Some (VStr v) | _ => None end else Some dest
      | _ => None
      end
  | CTimeString => match d with DString v => time_string_apply dest v | _ => None end
  | CTimeLong mult => match datum_int d with Some z => Some (VTime (time_of_units mult z)) | None => None end
  | CDate => match datum_int d with
             | Some z => if int_fits 32 z then Some (VTime (TV (86400 * z) 0 0)) else None
             | None => None end
  | CNullInt => match datum_int d with Some z => Some (VNullW true (VInt z)) | None => None end
  | CNullBool => match d with DBool v => Some (VNullW true (VBool v)) | _ => None end
  | CNullDouble => match d with DDouble v => Some (VNullW true (VF64 v)) | _ => None end
  | CNullFloat => match d with DFloat v => Some (VNullW true (VF64 (widen32 v))) | _ => None end
  | CNullString => match d with DString v => Some (VNullW true (VStr v)) | _ => None end
  | CNullTime => match d with
                 | DString v => option_map (VNullW true) (time_string_apply (null_payload dest) v)
                 | _ => None end
  | CCustom k c' => option_map (cx k) (apply_datum c' dest d)
  end.

(* ---- the datum a Go value denotes when written through codec c under schema s ---- *)
Definition int_datum (s : schema) (z : Z) : option datum :=
  match s with SInt _ => Some (DInt z) | SLong _ => Some (DLong z) | _ => None end.

Fixpoint is_empty_coll (c : codec) {struct c} : option datum :=
  match c with
  | CArray _ _ _ => Some (DArray [])
  | CMap _ _ _ => Some (DMap [])
  | CPtr c' _ | CCustom _ c' => is_empty_coll c'
  | _ => None
  end.

Fixpoint datum_of (c : codec) (s : schema) (v : gval) {struct c} : option datum :=
  match c with
  | CNull => match s with SNull => Some DNull | _ => None end
  | CBool _ => match s, v with SBool, VBool x => Some (DBool x) | _, _ => None end
  | CInt _ _ => match v with VInt z => int_datum s z | _ => None end
  | CFloat _ => match s, v with SFloat, VF32 x => Some (DFloat x) | _, _ => None end
  | CDouble _ => match s, v with SDouble, VF64 x => Some (DDouble x) | _, _ => None end
  | CF32Double _ => match s, v with SDouble, VF32 x => Some (DDouble (widen32 x)) | _, _ => None end
  | CBytes _ => match s, v with SBytes, VBytes x => Some (DBytes x) | _, _ => None end
  | CString _ => match s, v with SString, VStr x => Some (DString x) | _, _ => None end
  | CFixed _ => match s, v with SFixed _, VFixed x => Some (DFixed x) | _, _ => None end
  | CRecord fs =>
      match s, v with
      | SRecord fields, VStruct vs =>
          option_map DRecord
            ((fix go (l : list (codec * option nat)) (fl : list (ident * schema)) {struct l} : option (list datum) :=
                match l, fl with
                | [], [] => Some []
                | (fc, Some j) :: l', (_, fsch) :: fl' =>
                    match datum_of fc fsch (nth j vs VBad), go l' fl' with
                    | Some d, Some ds => Some (d :: ds)
                    | _, _ => None
                    end
                | _, _ => None
                end) fs fields)
      | _, _ => None
      end
  | CArray ic _ _ =>
      match s, v with
      | SArray it, VSlice vs =>
          option_map DArray
            ((fix go (l : list gval) {struct l} : option (list datum) :=
                match l with
                | [] => Some []
                | x :: l' => match datum_of ic it x, go l' with
                             | Some d, Some ds => Some (d :: ds)
                             | _, _ => None end
                end) vs)
      | _, _ => None
      end
  | CMap vc _ _ =>
      match s with
      | SMap vsch =>
        match v with
        | VMapNil => Some (DMap [])
        | VMap kvs =>
          option_map DMap
            ((fix go (l : list (bytes * gval)) {struct l} : option (list (bytes * datum)) :=
                match l with
                | [] => Some []
                | (k, x) :: l' => match datum_of vc vsch x, go l' with
                                  | Some d, Some ds => Some ((k, d) :: ds)
                                  | _, _ => None end
                end) kvs)
        | _ => None
        end
      | _ => None
      end
  | CPtr c' _ =>
      match v with
      | VPtr (Some x) => datum_of c' s x
      | VPtr None => is_empty_coll c'      (* nil *[]T / *map: the empty collection; otherwise nothing is written *)
      | _ => None
      end
  | CUnion _ => None
  | CUnionOne c' nn =>
      match s with
      | SUnion [x1; x2] =>
          if c_omit c' v then Some (DUnion (1 - nn) DNull)
          else option_map (DUnion nn) (datum_of c' (if nn =? 0 then x1 else x2) v)
      | _ => None
      end
  | CUnionStr om nn =>
      match v with
      | VStr x => if om && match x with [] => true | _ => false end then Some (DUnion (1 - nn) DNull)
                  else Some (DUnion nn (DString x))
      | _ => None
      end
  | CTimeString => match s, v with SString, VTime t => Some (DString (render_time t)) | _, _ => None end
  | CTimeLong mult => match v with VTime t => int_datum s (time_long_value mult t) | _ => None end
  | CDate => match v with VTime (TV us _ _) => int_datum s (to_int32 (us / 86400)) | _ => None end
  | CNullInt => match v with VNullW _ (VInt z) => int_datum s z | _ => None end
  | CNullBool => match s, v with SBool, VNullW _ (VBool x) => Some (DBool x) | _, _ => None end
  | CNullDouble => match s, v with SDouble, VNullW _ (VF64 x) => Some (DDouble x) | _, _ => None end
  | CNullFloat => match s, v with SFloat, VNullW _ (VF64 x) => Some (DFloat (narrow64 x)) | _, _ => None end
  | CNullString => match s, v with SString, VNullW _ (VStr x) => Some (DString x) | _, _ => None end
  | CNullTime => match s, v with SString, VNullW _ (VTime t) => Some (DString (render_time t)) | _, _ => None end
  | CCustom k c' => datum_of c' s (cx k v)
  end.
