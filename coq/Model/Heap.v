(* What a decoded Go value holds on the heap, and the two constants of a codec tree
   that bound it (definitions only; the theorem is Proofs/AllocP.v read_cells).
   [cells v]: bytes of strings and byte slices, slice items, map entries and their
   key bytes, pointer targets.  [st c]: pointer targets a decode of c creates
   however short the input.  [rate c]: cells per consumed byte.  [nzwb c]: no
   collection in c has items that can occupy zero bytes (the boolean form of
   Proofs/SafeP.v nzw, for the correspondence check). *)
From Coq Require Import List ZArith Bool.
Require Import Avro.Model.Base Avro.Model.Prim Avro.Model.Schema Avro.Model.GoType Avro.Model.Codec.
Import ListNotations.
Open Scope Z_scope.

Fixpoint cells (v : gval) {struct v} : Z :=
  match v with
  | VStr s => len s
  | VBytes s => len s
  | VSlice vs => (fix go (l : list gval) {struct l} : Z := match l with [] => 0 | x :: r => 1 + cells x + go r end) vs
  | VMap kvs => (fix go (l : list (bytes * gval)) {struct l} : Z :=
                   match l with [] => 0 | (k, x) :: r => 1 + len k + cells x + go r end) kvs
  | VPtr (Some x) => 1 + cells x
  | VStruct vs => (fix go (l : list gval) {struct l} : Z := match l with [] => 0 | x :: r => cells x + go r end) vs
  | VNullW _ p => cells p
  | _ => 0
  end.

Fixpoint st (c : codec) {struct c} : Z :=
  match c with
  | CRecord fs => (fix go (l : list (codec * option nat)) {struct l} : Z :=
                     match l with [] => 0 | (fc, _) :: l' => st fc + go l' end) fs
  | CPtr c' z => 1 + cells z + st c'
  | CUnion cs => (fix go (l : list codec) {struct l} : Z := match l with [] => 0 | x :: l' => st x + go l' end) cs
  | CUnionOne c' _ | CCustom _ c' => st c'
  | _ => 0
  end.

Fixpoint rate (c : codec) {struct c} : Z :=
  match c with
  | CBytes _ | CString _ | CUnionStr _ _ | CNullString => 1
  | CRecord fs => (fix go (l : list (codec * option nat)) {struct l} : Z :=
                     match l with [] => 0 | (fc, _) :: l' => Z.max (rate fc) (go l') end) fs
  | CArray ic iz _ => 1 + cells iz + st ic + rate ic
  | CMap vc vz _ => 1 + cells vz + st vc + Z.max 1 (rate vc)
  | CPtr c' _ | CUnionOne c' _ | CCustom _ c' => rate c'
  | CUnion cs => (fix go (l : list codec) {struct l} : Z := match l with [] => 0 | x :: l' => Z.max (rate x) (go l') end) cs
  | _ => 0
  end.

Fixpoint minb (c : codec) {struct c} : Z :=
  match c with
  | CNull => 0
  | CBool _ | CNullBool => 1
  | CInt _ _ | CTimeLong _ | CDate | CNullInt => 1
  | CFloat _ | CNullFloat => 4
  | CDouble _ | CF32Double _ | CNullDouble => 8
  | CBytes _ | CString _ | CTimeString | CNullString | CNullTime => 1
  | CFixed n => Z.max 0 n
  | CRecord fs => (fix go (l : list (codec * option nat)) {struct l} : Z :=
                     match l with [] => 0 | (fc, _) :: l' => minb fc + go l' end) fs
  | CArray _ _ _ | CMap _ _ _ => 1
  | CPtr c' _ | CCustom _ c' => minb c'
  | CUnion _ | CUnionOne _ _ | CUnionStr _ _ => 1
  end.

Fixpoint nzwb (c : codec) {struct c} : bool :=
  match c with
  | CRecord fs => (fix go (l : list (codec * option nat)) {struct l} : bool :=
                     match l with [] => true | (fc, _) :: l' => nzwb fc && go l' end) fs
  | CArray ic _ _ => nzwb ic && (1 <=? minb ic)
  | CMap vc _ _ => nzwb vc
  | CPtr c' _ | CCustom _ c' | CUnionOne c' _ => nzwb c'
  | CUnion cs => (fix go (l : list codec) {struct l} : bool := match l with [] => true | x :: l' => nzwb x && go l' end) cs
  | _ => true
  end.

(* the bound of read_cells, as a boolean on an observed result *)
Definition heap_bound_ok (c : codec) (dest : gval) (consumed : Z) (v : gval) : bool :=
  negb (nzwb c) || (cells v <=? cells dest + st c + rate c * consumed).
