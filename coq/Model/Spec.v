(* Spec layer, part 2: the reference decoder (written from the Avro 1.8
   specification, strict), typing of datums, and the encoder parameterised by
   every choice the specification leaves to a writer. *)
Require Import Avro.Model.Base Avro.Model.Prim Avro.Model.Schema Avro.Model.Blocks.

(* ---- reference decoder ---- *)
Definition sd_len_prefixed (bs : bytes) : out bytes :=
  obind (rd_varint_canon bs) (fun l r => if l <? 0 then Err else rd_next l r).

Fixpoint sd (fuel : nat) (s : schema) (bs : bytes) {struct s} : out datum :=
  match s with
  | SNull => Done DNull bs
  | SBool => obind (rd_byte bs) (fun v r =>
               if v =? 0 then Done (DBool false) r else if v =? 1 then Done (DBool true) r else Err)
  | SInt _ => obind (rd_varint_canon bs) (fun v r => if int_fits 32 v then Done (DInt v) r else Err)
  | SLong _ => obind (rd_varint_canon bs) (fun v r => Done (DLong v) r)
  | SFloat => obind (float_read 4 bs) (fun v r => Done (DFloat v) r)
  | SDouble => obind (float_read 8 bs) (fun v r => Done (DDouble v) r)
  | SBytes => obind (sd_len_prefixed bs) (fun v r => Done (DBytes v) r)
  | SString => obind (sd_len_prefixed bs) (fun v r => Done (DString v) r)
  | SFixed n => obind (rd_next n bs) (fun v r => Done (DFixed v) r)
  | SEnum k => obind (rd_varint_canon bs) (fun i r => if (0 <=? i) && (i <? k) then Done (DEnum i) r else Err)
  | SRecord fields =>
      obind ((fix go (l : list (ident * schema)) (bs : bytes) {struct l} : out (list datum) :=
                match l with
                | [] => Done [] bs
                | (_, fs) :: l' =>
                    obind (sd fuel fs bs) (fun d r => obind (go l' r) (fun ds r' => Done (d :: ds) r'))
                end) fields bs)
            (fun ds r => Done (DRecord ds) r)
  | SArray it =>
      obind (blocks true (fun acc b0 => obind (sd fuel it b0) (fun d r => Done (acc ++ [d]) r)) fuel [] bs)
            (fun ds r => Done (DArray ds) r)
  | SMap vs =>
      obind (blocks true (fun acc b0 =>
                obind (sd_len_prefixed b0) (fun k r =>
                  obind (sd fuel vs r) (fun d r' => Done (acc ++ [(k, d)]) r'))) fuel [] bs)
            (fun kvs r => Done (DMap kvs) r)
  | SUnion branches =>
      obind (rd_varint_canon bs) (fun idx r =>
        (* the upper bound is what [pick] finds anyway; tested first so that evaluation
           never builds the unary number of a hostile selector *)
        if (idx <? 0) || (Z.of_nat (length branches) <=? idx) then Err
        else (fix pick (l : list schema) (i : nat) {struct l} : out datum :=
                match l, i with
                | [], _ => Err
                | x :: _, O => obind (sd fuel x r) (fun d r' => Done (DUnion idx d) r')
                | _ :: l', S j => pick l' j
                end) branches (Z.to_nat idx))
  | SBad => Err
  end.

(* ---- typing (with the physical bounds a real encoding must respect) ---- *)
Fixpoint typed (s : schema) (d : datum) {struct d} : bool :=
  match s, d with
  | SNull, DNull => true
  | SBool, DBool _ => true
  | SInt _, DInt z => int_fits 32 z
  | SLong _, DLong z => int_fits 64 z
  | SFloat, DFloat v => (0 <=? v) && (v <? 4294967296)
  | SDouble, DDouble v => (0 <=? v) && (v <? two64)
  | SBytes, DBytes v => forallb (fun x => (0 <=? x) && (x <? 256)) v && (len v <? two63)
  | SString, DString v => forallb (fun x => (0 <=? x) && (x <? 256)) v && (len v <? two63)
  | SFixed n, DFixed v => forallb (fun x => (0 <=? x) && (x <? 256)) v && (len v =? n)
  | SEnum k, DEnum i => (0 <=? i) && (i <? k) && (i <? two63)
  | SRecord fields, DRecord ds =>
      (fix go (l : list (ident * schema)) (ds : list datum) {struct ds} : bool :=
         match l, ds with
         | [], [] => true
         | (_, fs) :: l', d :: ds' => typed fs d && go l' ds'
         | _, _ => false
         end) fields ds
  | SArray it, DArray ds =>
      (fix go (ds : list datum) {struct ds} : bool :=
         match ds with [] => true | d :: ds' => typed it d && go ds' end) ds
  | SMap vs, DMap kvs =>
      (fix go (kvs : list (bytes * datum)) {struct kvs} : bool :=
         match kvs with
         | [] => true
         | (k, d) :: r => forallb (fun x => (0 <=? x) && (x <? 256)) k && (len k <? two63) && typed vs d && go r
         end) kvs
  | SUnion branches, DUnion idx d =>
      (0 <=? idx) && (idx <? two63) &&
      match nth_error branches (Z.to_nat idx) with Some x => typed x d | None => false end
  | _, _ => false
  end.

(* ---- writer-side freedom ---- *)
(* cuts: for each block (except the final terminator) how many further items it
   takes beyond the first and whether it carries a byte-size prefix; items left
   over when the cut list runs out go into one last unsized block. *)
Inductive choice :=
| ChLeaf
| ChColl (cuts : list (nat * bool)) (items : list choice)
| ChRec (fs : list choice)
| ChUnion (c : choice).

Fixpoint asm_blocks (cuts : list (nat * bool)) (items : list bytes) {struct cuts} : bytes :=
  match items with
  | [] => [0]
  | _ =>
    match cuts with
    | [] => enc_varint (Z.of_nat (length items)) ++ concat items ++ [0]
    | (n, sized) :: cuts' =>
      let k := S (Nat.min n (length items - 1)) in
      let body := concat (firstn k items) in
      (if sized then enc_varint (- Z.of_nat k) ++ enc_varint (len body)
       else enc_varint (Z.of_nat k)) ++ body ++ asm_blocks cuts' (skipn k items)
    end
  end.

Definition ch_cuts (c : choice) := match c with ChColl cuts _ => cuts | _ => [] end.
Definition ch_items (c : choice) := match c with ChColl _ its => its | _ => [] end.
Definition ch_fields (c : choice) := match c with ChRec fs => fs | _ => [] end.
Definition ch_inner (c : choice) := match c with ChUnion c' => c' | _ => ChLeaf end.

Fixpoint spec_encode (c : choice) (s : schema) (d : datum) {struct d} : bytes :=
  match s, d with
  | SNull, DNull => []
  | SBool, DBool v => if v then [1] else [0]
  | SInt _, DInt z => enc_varint z
  | SLong _, DLong z => enc_varint z
  | SFloat, DFloat v => le_bytes 4 v
  | SDouble, DDouble v => le_bytes 8 v
  | SBytes, DBytes v => enc_varint (len v) ++ v
  | SString, DString v => enc_varint (len v) ++ v
  | SFixed _, DFixed v => v
  | SEnum _, DEnum i => enc_varint i
  | SRecord fields, DRecord ds =>
      (fix go (cs : list choice) (l : list (ident * schema)) (ds : list datum) {struct ds} : bytes :=
         match l, ds with
         | (_, fs) :: l', d :: ds' => spec_encode (hd ChLeaf cs) fs d ++ go (tl cs) l' ds'
         | _, _ => []
         end) (ch_fields c) fields ds
  | SArray it, DArray ds =>
      asm_blocks (ch_cuts c)
        ((fix go (cs : list choice) (ds : list datum) {struct ds} : list bytes :=
            match ds with [] => [] | d :: ds' => spec_encode (hd ChLeaf cs) it d :: go (tl cs) ds' end)
           (ch_items c) ds)
  | SMap vs, DMap kvs =>
      asm_blocks (ch_cuts c)
        ((fix go (cs : list choice) (kvs : list (bytes * datum)) {struct kvs} : list bytes :=
            match kvs with
            | [] => []
            | (k, d) :: r => (enc_varint (len k) ++ k ++ spec_encode (hd ChLeaf cs) vs d) :: go (tl cs) r
            end) (ch_items c) kvs)
  | SUnion branches, DUnion idx d =>
      enc_varint idx ++ spec_encode (ch_inner c) (nth (Z.to_nat idx) branches SBad) d
  | _, _ => []
  end.

(* the encoding the library's own writer produces: one unsized block per
   non-empty collection *)
Definition canon_encode := spec_encode ChLeaf.

(* datum equality up to the order of map entries being significant (exact) *)
Fixpoint datum_eqb (a b0 : datum) {struct a} : bool :=
  match a, b0 with
  | DNull, DNull => true
  | DBool x, DBool y => Bool.eqb x y
  | DInt x, DInt y | DLong x, DLong y | DFloat x, DFloat y | DDouble x, DDouble y | DEnum x, DEnum y => x =? y
  | DBytes x, DBytes y | DString x, DString y | DFixed x, DFixed y => bytes_eqb x y
  | DRecord xs, DRecord ys | DArray xs, DArray ys =>
      (fix go (xs ys : list datum) {struct xs} : bool :=
         match xs, ys with
         | [], [] => true
         | x :: xs', y :: ys' => datum_eqb x y && go xs' ys'
         | _, _ => false
         end) xs ys
  | DMap xs, DMap ys =>
      (fix go (xs ys : list (bytes * datum)) {struct xs} : bool :=
         match xs, ys with
         | [], [] => true
         | (k, x) :: xs', (k', y) :: ys' => bytes_eqb k k' && datum_eqb x y && go xs' ys'
         | _, _ => false
         end) xs ys
  | DUnion i x, DUnion j y => (i =? j) && datum_eqb x y
  | _, _ => false
  end.
