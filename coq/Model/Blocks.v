(* The Avro block loop shared by arrays and maps, as a generic combinator.
   [strict = true] is the reference decoder of the specification (it verifies
   the byte-size prefix of a sized block); [strict = false] is the library's
   reader in /repo/array.go and /repo/map.go (it reads the size and ignores it).
   Skipping (arrayCodec.Skip / MapCodec.Skip) jumps over sized blocks. *)
Require Import Avro.Model.Base Avro.Model.Prim.

Section Blocks.
  Context {A : Type}.
  Variable strict : bool.
  Variable item : A -> bytes -> out A.

  (* items of one block, then back to the block loop.  [expect] is the number
     of unread bytes that must remain when a size-verified block ends. *)
  Definition rdv (bs : bytes) : out Z := if strict then rd_varint_canon bs else rd_varint bs.

  Fixpoint blocks (fuel : nat) (acc : A) (bs : bytes) {struct fuel} : out A :=
    match fuel with
    | O => Fuel
    | S f =>
      obind (rdv bs) (fun cnt r =>
        if cnt =? 0 then Done acc r
        else if cnt <? 0 then
          obind (rdv r) (fun sz r' =>
            if strict then
              if (cnt =? - two63) || (sz <? 0) || (len r' <? sz) then Err
              else items f (- cnt) (Some (len r' - sz)) acc r'
            else
              (* count = -count overflows for MinInt64 and stays negative: no items *)
              items f (if cnt =? - two63 then 0 else - cnt) None acc r')
        else items f cnt None acc r)
    end
  with items (fuel : nat) (n : Z) (expect : option Z) (acc : A) (bs : bytes) {struct fuel} : out A :=
    match fuel with
    | O => Fuel
    | S f =>
      if n <=? 0 then
        match expect with
        | Some e => if len bs =? e then blocks f acc bs else Err
        | None => blocks f acc bs
        end
      else obind (item acc bs) (fun acc' r => items f (n - 1) expect acc' r)
    end.
End Blocks.

Section Skip.
  Variable skip_item : bytes -> out unit.

  Fixpoint skip_blocks (fuel : nat) (bs : bytes) {struct fuel} : out unit :=
    match fuel with
    | O => Fuel
    | S f =>
      obind (rd_varint bs) (fun cnt r =>
        if cnt =? 0 then Done tt r
        else if cnt <? 0 then
          obind (rd_varint r) (fun sz r' =>
            obind (rd_skipn sz r') (fun _ r'' => skip_blocks f r''))
        else skip_items f cnt r)
    end
  with skip_items (fuel : nat) (n : Z) (bs : bytes) {struct fuel} : out unit :=
    match fuel with
    | O => Fuel
    | S f =>
      if n <=? 0 then skip_blocks f bs
      else obind (skip_item bs) (fun _ r => skip_items f (n - 1) r)
    end.
End Skip.
