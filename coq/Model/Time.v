(* Model of /repo/time/parse.go (parseTime) and of the standard-library
   functions the time codecs rely on: time.Date (civil -> instant, with its
   normalisation of out-of-range fields) and Time.Format(RFC3339Nano). *)
Require Import Avro.Model.Base Avro.Model.Schema Avro.Model.GoType.

(* ---- proleptic Gregorian calendar (days since 1970-01-01) ---- *)
Definition days_from_civil (y m d : Z) : Z :=
  let y' := if m <=? 2 then y - 1 else y in
  let era := y' / 400 in
  let yoe := y' - era * 400 in
  let mp := (m + 9) mod 12 in
  let doy := (153 * mp + 2) / 5 + d - 1 in
  let doe := yoe * 365 + yoe / 4 - yoe / 100 + doy in
  era * 146097 + doe - 719468.

Definition civil_from_days (z : Z) : Z * Z * Z :=
  let z := z + 719468 in
  let era := z / 146097 in
  let doe := z - era * 146097 in
  let yoe := (doe - doe / 1460 + doe / 36524 - doe / 146096) / 365 in
  let y := yoe + era * 400 in
  let doy := doe - (365 * yoe + yoe / 4 - yoe / 100) in
  let mp := (5 * doy + 2) / 153 in
  let d := doy - (153 * mp + 2) / 5 + 1 in
  let m := if mp <? 10 then mp + 3 else mp - 9 in
  (if m <=? 2 then y + 1 else y, m, d).

(* time.Date(y, m, d, h, mi, s, ns, FixedZone(off)): months are normalised into
   the year, everything else is linear. *)
Definition unix_of_fields (y m d h mi s off : Z) : Z :=
  let y' := y + (m - 1) / 12 in
  let m' := (m - 1) mod 12 + 1 in
  days_from_civil y' m' d * 86400 + h * 3600 + mi * 60 + s - off.

(* ---- parseTime ---- *)
Inductive pres := POk (t : timeval) | PErr | PPanic.

Definition digit (c : Z) : option Z := if (48 <=? c) && (c <=? 57) then Some (c - 48) else None.

Definition atoi2 (a c : Z) : option Z :=
  match digit a, digit c with Some x, Some y => Some (x * 10 + y) | _, _ => None end.

Definition nthb (bs : bytes) (i : nat) : Z := nth i bs (-1).

(* the fraction loop: digits up to the first non-digit; at most nine count *)
Fixpoint frac_digits (bs : bytes) (val mult : Z) {struct bs} : Z * Z * bytes :=
  match bs with
  | [] => (val, mult, [])
  | c :: r =>
    match digit c with
    | Some dv => if 1 <? mult then frac_digits r (val * 10 + dv) (mult / 10)
                else frac_digits r val mult
    | None => (val, mult, bs)
    end
  end.

Definition parse_zone (rem : bytes) : option (Z * bytes) :=   (* offset seconds, rest *)
  match rem with
  | [] => None
  | c :: r =>
    if c =? 90 (* Z *) then Some (0, r)
    else
      let sign := if c =? 43 then Some 1 else if c =? 45 then Some (-1) else None in
      match sign with
      | None => None
      | Some sg =>
        match r with
        | h1 :: h2 :: col :: m1 :: m2 :: r' =>
          if col =? 58 then
            match atoi2 h1 h2, atoi2 m1 m2 with
            | Some tzh, Some tzm => Some (sg * (tzh * 3600 + tzm * 60), r')
            | _, _ => None
            end
          else None
        | _ => None
        end
      end
  end.

Definition parse_time (s : bytes) : pres :=
  let n := length s in
  if Nat.ltb n 10 then PErr
  else if negb ((nthb s 4 =? 45) && (nthb s 7 =? 45)) then PErr
  else
    match digit (nthb s 0), digit (nthb s 1), digit (nthb s 2), digit (nthb s 3),
          atoi2 (nthb s 5) (nthb s 6), atoi2 (nthb s 8) (nthb s 9) with
    | Some y1, Some y2, Some y3, Some y4, Some mo, Some d =>
      let y := y1 * 1000 + y2 * 100 + y3 * 10 + y4 in
      if Nat.eqb n 10 then POk (TV (unix_of_fields y mo d 0 0 0 0) 0 0)
      else if Nat.ltb n 20 then PErr
      else if negb (nthb s 10 =? 84) then PErr
      else if negb ((nthb s 13 =? 58) && (nthb s 16 =? 58)) then PErr
      else
        match atoi2 (nthb s 11) (nthb s 12), atoi2 (nthb s 14) (nthb s 15), atoi2 (nthb s 17) (nthb s 18) with
        | Some h, Some mi, Some sec =>
          let rem := skipn 19 s in
          let c := nthb rem 0 in
          let fr :=
            if (c =? 46) || (c =? 44) then
              match skipn 1 rem with
              | [] => None                      (* "…:42." : nothing after the separator *)
              | rem1 =>
                let '(val, mult, rest) := frac_digits rem1 0 1000000000 in
                match rest with [] => None | _ => Some (val * mult, rest) end
              end
            else Some (0, rem) in
          match fr with
          | None => PErr
          | Some (nsec, rem2) =>
            match parse_zone rem2 with
            | Some (off, []) => POk (TV (unix_of_fields y mo d h mi sec off) nsec off)
            | _ => PErr
            end
          end
        | _, _, _ => PErr
        end
    | _, _, _, _, _, _ => PErr
    end.

(* ---- Time.Format(time.RFC3339Nano) ---- *)
Definition dig (v : Z) : Z := 48 + v.
Definition two_digits (v : Z) : bytes := [dig (v / 10 mod 10); dig (v mod 10)].
Definition four_digits (v : Z) : bytes := [dig (v / 1000 mod 10); dig (v / 100 mod 10); dig (v / 10 mod 10); dig (v mod 10)].

(* nine fraction digits with trailing zeros trimmed; empty when ns = 0 *)
Fixpoint trim_zeros (rev_digits : bytes) {struct rev_digits} : bytes :=
  match rev_digits with
  | c :: r => if c =? 48 then trim_zeros r else rev_digits
  | [] => []
  end.
Definition nine_digits (ns : Z) : bytes :=
  [dig (ns / 100000000 mod 10); dig (ns / 10000000 mod 10); dig (ns / 1000000 mod 10);
   dig (ns / 100000 mod 10); dig (ns / 10000 mod 10); dig (ns / 1000 mod 10);
   dig (ns / 100 mod 10); dig (ns / 10 mod 10); dig (ns mod 10)].
Definition render_frac (ns : Z) : bytes :=
  match rev (trim_zeros (rev (nine_digits ns))) with
  | [] => []
  | ds => 46 :: ds
  end.

Definition render_zone (off : Z) : bytes :=
  if off =? 0 then [90]
  else let a := Z.abs off in
       (if off <? 0 then 45 else 43) :: two_digits (a / 3600) ++ [58] ++ two_digits (a / 60 mod 60).

Definition render_time (t : timeval) : bytes :=
  match t with
  | TV us ns off =>
    let loc := us + off in
    let days := loc / 86400 in
    let sod := loc mod 86400 in
    let '(y, m, d) := civil_from_days days in
    four_digits y ++ [45] ++ two_digits m ++ [45] ++ two_digits d ++ [84] ++
    two_digits (sod / 3600) ++ [58] ++ two_digits (sod / 60 mod 60) ++ [58] ++ two_digits (sod mod 60) ++
    render_frac ns ++ render_zone off
  end.
