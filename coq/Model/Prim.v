(* Primitive codecs: model of /repo/int.go, float.go, bool.go, fixed.go,
   string.go, bytes.go, discard.go and of ReadBuf.Next / ReadByte
   (/repo/buffer.go).  The read buffer is modelled by its unread suffix. *)
Require Import Avro.Model.Base.

(* Outcome of a reading step.  Panic marks every point where the Go code would
   panic or crash; Fuel is the out-of-fuel value of fuelled functions. *)
Inductive out (A : Type) := Done (a : A) (rest : bytes) | Err | Panic | Fuel.
Arguments Done {A}. Arguments Err {A}. Arguments Panic {A}. Arguments Fuel {A}.

Definition obind {A B} (o : out A) (k : A -> bytes -> out B) : out B :=
  match o with Done a r => k a r | Err => Err | Panic => Panic | Fuel => Fuel end.

(* ReadBuf.Varint; the value returned alongside an error is never used. *)
Definition rd_varint (bs : bytes) : out Z :=
  match dec_varint bs with VOk (v, r) => Done v r | _ => Err end.

(* the reference decoder accepts only what a conformant writer produces: the
   shortest form *)
Definition rd_varint_canon (bs : bytes) : out Z :=
  obind (rd_varint bs) (fun v r =>
    if bytes_eqb (firstn (length bs - length r) bs) (enc_varint v) then Done v r else Err).

(* ReadBuf.ReadByte *)
Definition rd_byte (bs : bytes) : out Z :=
  match bs with [] => Err | b :: r => Done b r end.

(* ReadBuf.Next(l) for l already converted to int:  l < 0 || l > len-i => EOF *)
Definition rd_next (l : Z) (bs : bytes) : out bytes :=
  if (l <? 0) || (len bs <? l) then Err
  else Done (firstn (Z.to_nat l) bs) (skipn (Z.to_nat l) bs).

(* discard.go skip(r, l) *)
Definition rd_skipn (l : Z) (bs : bytes) : out unit :=
  obind (rd_next l bs) (fun _ r => Done tt r).

(* IntCodec[T].Read with T of w bits (w = 16, 32, 64):
   the range test, then the store; err from Varint is returned. *)
Definition int_fits (w : Z) (i : Z) : bool :=
  (- 2 ^ (w - 1) <=? i) && (i <=? 2 ^ (w - 1) - 1).
Definition int_read (w : Z) (bs : bytes) : out Z :=
  match dec_varint bs with
  | VOk (i, r) => if int_fits w i then Done i r else Err
  | _ => Err
  end.
Definition int_skip (bs : bytes) : out unit := obind (rd_varint bs) (fun _ r => Done tt r).
Definition int_write (v : Z) : bytes := enc_varint v.

(* BoolCodec *)
Definition bool_read (bs : bytes) : out bool := obind (rd_byte bs) (fun b r => Done (negb (b =? 0)) r).
Definition bool_write (b : bool) : bytes := if b then [1] else [0].

(* fixedCodec{Size n}: Read = Next(n) + copy into the destination;
   floatCodec[T] = fixedCodec{sizeof T} over the value's bits (little-endian host). *)
Definition fixed_read (n : Z) (bs : bytes) : out bytes := rd_next n bs.
Definition float_read (n : nat) (bs : bytes) : out Z :=
  obind (rd_next (Z.of_nat n) bs) (fun b r => Done (of_le b) r).
Definition float_write (n : nat) (bits : Z) : bytes := le_bytes n bits.

(* StringCodec.Read: length, l < 0 => error, NextAsString.  Skip: skip(r, l). *)
Definition string_read (bs : bytes) : out bytes :=
  obind (rd_varint bs) (fun l r => if l <? 0 then Err else rd_next l r).
Definition string_skip (bs : bytes) : out unit :=
  obind (rd_varint bs) (fun l r => rd_skipn l r).
Definition string_write (s : bytes) : bytes := enc_varint (len s) ++ s.

(* BytesCodec.Read: l == 0 leaves the destination alone (None);
   otherwise Next(l) and a fresh copy. *)
Definition bytes_read (bs : bytes) : out (option bytes) :=
  obind (rd_varint bs) (fun l r =>
    if l =? 0 then Done None r
    else obind (rd_next l r) (fun b r' => Done (Some b) r')).

(* ---- float32 <-> float64 on IEEE-754 bit patterns --------------------
   Go's float64(f32) (exact) and float32(f64) (round to nearest even).   *)
Definition f32_sign (b : Z) := b / 2147483648.
Definition f32_exp (b : Z) := (b / 8388608) mod 256.
Definition f32_man (b : Z) := b mod 8388608.
Definition f64_sign (b : Z) := b / 9223372036854775808.
Definition f64_exp (b : Z) := (b / 4503599627370496) mod 2048.
Definition f64_man (b : Z) := b mod 4503599627370496.
Definition f64_make (s e m : Z) := s * 9223372036854775808 + e * 4503599627370496 + m.
Definition f32_make (s e m : Z) := s * 2147483648 + e * 8388608 + m.

Definition f32_is_nan (b : Z) := (f32_exp b =? 255) && negb (f32_man b =? 0).
Definition f64_is_nan (b : Z) := (f64_exp b =? 2047) && negb (f64_man b =? 0).

(* set bit k of x (arithmetic form of  x | 1<<k) *)
Definition setbit (x p : Z) : Z := if (x / p) mod 2 =? 0 then x + p else x.

Definition widen32 (b : Z) : Z :=
  let s := f32_sign b in let e := f32_exp b in let m := f32_man b in
  if e =? 255 then
    (if m =? 0 then f64_make s 2047 0
     else f64_make s 2047 (setbit (m * 536870912) 2251799813685248))  (* quiet NaN, payload kept *)
  else if e =? 0 then
    (if m =? 0 then f64_make s 0 0
     else (* subnormal: m * 2^-149, normalise *)
       let k := Z.log2 m in               (* 0 <= k <= 22 *)
       f64_make s (k - 149 + 1023) ((m - 2 ^ k) * 2 ^ (52 - k)))
  else f64_make s (e - 127 + 1023) (m * 536870912).

(* round-to-nearest-even of  q = x / 2^sh  *)
Definition rne_shift (x sh : Z) : Z :=
  let d := 2 ^ sh in
  let q := x / d in let r := x mod d in
  if 2 * r <? d then q
  else if d <? 2 * r then q + 1
  else if Z.even q then q else q + 1.

Definition narrow64 (b : Z) : Z :=
  let s := f64_sign b in let e := f64_exp b in let m := f64_man b in
  if e =? 2047 then
    (if m =? 0 then f32_make s 255 0
     else f32_make s 255 (setbit (m / 536870912) 4194304))
  else if (e =? 0) then f32_make s 0 0     (* double subnormals are far below float32 range *)
  else
    let e32 := e - 1023 + 127 in
    let full := m + 4503599627370496 in    (* 53-bit significand *)
    if 0 <? e32 then
      (* normal candidate: keep 24 bits *)
      let sig := rne_shift full 29 in      (* in [2^23, 2^24] *)
      let '(sig', e') := if sig =? 16777216 then (8388608, e32 + 1) else (sig, e32) in
      if 255 <=? e' then f32_make s 255 0
      else f32_make s e' (sig' - 8388608)
    else
      (* subnormal or underflow: value = full * 2^(e-1075); target unit 2^-149 *)
      let sh := 29 + (1 - e32) in          (* >= 30 *)
      if 83 <? sh then f32_make s 0 0
      else let sig := rne_shift full sh in (* in [0, 2^23] ; 2^23 is the smallest normal *)
           f32_make s 0 0 + sig.

(* Float32DoubleCodec: write widens, read narrows. *)
Definition f32d_write (bits32 : Z) : bytes := le_bytes 8 (widen32 bits32).
Definition f32d_read (bs : bytes) : out Z :=
  obind (float_read 8 bs) (fun b r => Done (narrow64 b) r).
