(* Model of /repo/buildschema.go: SchemaForType / schemaForType and the schema
   registry (RegisterSchema). *)
From Coq Require Import String.
Require Import Avro.Model.Base Avro.Model.Schema Avro.Model.GoType Avro.Model.Codec.

Definition sregistry := rkey -> option gschema.

Definition gs_nullable (s : gschema) : gschema := GS (b "union") None [gs_prim "null"; s].

(* time.RegisterCodecs + null.RegisterCodecs *)
Definition sreg_std : sregistry := fun k =>
  match k with
  | RWrap WTime | RWrap WNullString | RWrap WNullTime => Some (gs_nullable (gs_prim "string"))
  | RWrap WNullInt => Some (gs_nullable (gs_prim "long"))
  | RWrap WNullBool => Some (gs_nullable (gs_prim "boolean"))
  | RWrap WNullFloat => Some (gs_nullable (gs_prim "double"))
  | RNamed _ => None
  end.

Definition sreg_set (reg : sregistry) (id : Z) (s : gschema) : sregistry :=
  fun k => match k with RNamed i => if i =? id then Some s else reg k | _ => reg k end.

Definition sreg_lookup (reg : sregistry) (t : gtype) : option gschema :=
  match t with TWrap w => reg (RWrap w) | TNamed id _ => reg (RNamed id) | _ => None end.

Definition gs_type (s : gschema) : ident := match s with GS ty _ _ => ty end.

(* strings.NewReplacer("/", ".", "-", "_") *)
Definition ns_replace (pkg : bytes) : bytes :=
  map (fun c => if c =? 47 then 46 else if c =? 45 then 95 else c) pkg.

Definition gobj_empty : gobject := GO [] [] [] [] gs_zero gs_zero 0 [].

Fixpoint schema_for (reg : sregistry) (t : gtype) {struct t} : option gschema :=
  match sreg_lookup reg t with
  | Some s => Some s
  | None =>
    match t with
    | TBool => Some (gs_prim "boolean")
    | TInt (I8 | I16 | I32 | I64 | IInt) => Some (gs_prim "long")
    | TFloat32 | TFloat64 => Some (gs_prim "double")
    | TString => Some (gs_prim "string")
    | TStruct name pkg fields =>
        option_map (fun fs => GS (b "record") (Some (GO [] name (ns_replace pkg) fs gs_zero gs_zero 0 [])) [])
          ((fix go (l : list gfield) {struct l} : option (list (ident * gschema)) :=
              match l with
              | [] => Some []
              | GF fname exported json bq ft :: l' =>
                let f := GF fname exported json bq ft in
                let n := name_for_field f in
                if bytes_eqb n dash then go l'
                else match schema_for reg ft, go l' with
                     | Some s, Some r =>
                       let s' := if omit_empty f && negb (is (gs_type s) "union") then gs_nullable s else s in
                       Some ((n, s') :: r)
                     | _, _ => None
                     end
              end) fields)
    | TArray _ e | TSlice e =>
        if is_u8 e then Some (gs_prim "bytes")
        else option_map (fun s => GS (b "array") (Some (GO [] [] [] [] s gs_zero 0 [])) []) (schema_for reg e)
    | TMap _ e =>
        option_map (fun s => GS (b "map") (Some (GO [] [] [] [] gs_zero s 0 [])) []) (schema_for reg e)
    | TPtr e =>
        match schema_for reg e with
        | Some u => if is (gs_type u) "union" || is (gs_type u) "array" || is (gs_type u) "map" then Some u
                    else Some (gs_nullable u)
        | None => None
        end
    | TNamed _ u => schema_for reg u
    | _ => None    (* unsupported kinds; TSelf: a self-referential type is refused *)
    end
  end.

(* SchemaForType(item): item must be a struct or a pointer to one *)
Definition schema_for_type (reg : sregistry) (t : gtype) : option gschema :=
  let t' := match t with TPtr e => e | _ => t end in
  match underlying t' with
  | TStruct _ _ _ => schema_for reg t'
  | _ => None
  end.
