(* Base definitions shared by every model file: bytes as Z, outcome types,
   and the varint wire primitive (model of encoding/binary.AppendVarint and
   of ReadBuf.uvarint / ReadBuf.Varint in /repo/buffer.go).
   Model files contain definitions only; proofs live under Proofs/. *)
From Coq Require Export List ZArith Bool Lia.
Export ListNotations.
Open Scope Z_scope.

Definition byte := Z.
Definition bytes := list Z.

Definition byte_ok (b : Z) : Prop := 0 <= b < 256.
Definition bytes_ok (bs : bytes) : Prop := Forall byte_ok bs.

Definition two63 : Z := 9223372036854775808.
Definition two64 : Z := 18446744073709551616.
Definition int64_ok (v : Z) : Prop := - two63 <= v < two63.

(* ---- writer side: binary.AppendVarint ------------------------------- *)

(* AppendUvarint: for x >= 0x80 { append(byte(x)|0x80); x >>= 7 }; append(byte(x)).
   Ten groups suffice for a uint64; fuel makes the recursion structural. *)
Fixpoint enc_uvarint (fuel : nat) (x : Z) {struct fuel} : bytes :=
  match fuel with
  | O => []
  | S f => if x <? 128 then [x] else (x mod 128 + 128) :: enc_uvarint f (x / 128)
  end.

(* ux := uint64(x) << 1; if x < 0 { ux = ^ux }  -- on the int64 range *)
Definition zigzag (v : Z) : Z := if v <? 0 then -2 * v - 1 else 2 * v.
Definition unzigzag (u : Z) : Z := if Z.even u then u / 2 else - (u / 2) - 1.

Definition enc_varint (v : Z) : bytes := enc_uvarint 10 (zigzag v).

(* The Avro specification's own wording, stated with shifts and xor,
   independent of the arithmetic formulation above:
   zig-zag  (n << 1) ^ (n >> 63), then base-128 groups, least significant
   first, high bit set on all but the last. *)
Definition spec_zigzag (v : Z) : Z := Z.lxor (Z.shiftl v 1) (Z.shiftr v 63).
Fixpoint spec_base128 (fuel : nat) (x : Z) {struct fuel} : bytes :=
  match fuel with
  | O => []
  | S f => if Z.shiftr x 7 =? 0 then [Z.land x 127]
           else Z.lor (Z.land x 127) 128 :: spec_base128 f (Z.shiftr x 7)
  end.
Definition spec_varint (v : Z) : bytes := spec_base128 10 (spec_zigzag v).

(* ---- reader side: ReadBuf.uvarint / Varint -------------------------- *)

Inductive vres (A : Type) := VOk (a : A) | VEOF | VOverflow.
Arguments VOk {A}. Arguments VEOF {A}. Arguments VOverflow {A}.

(* i = byte index, m = 2^(7 i) (the shift s as a multiplier), x accumulator.
   uint64 wrap of  x |= uint64(b&0x7f) << s  is written as mod 2^64. *)
Fixpoint dec_uvarint (bs : bytes) (i : nat) (m : Z) (x : Z) {struct bs} : vres (Z * bytes) :=
  match bs with
  | [] => VEOF
  | b :: rest =>
    if b <? 128 then
      if (Nat.ltb 9 i) || (Nat.eqb i 9 && (1 <? b)) then VOverflow
      else VOk ((x + b * m) mod two64, rest)
    else dec_uvarint rest (S i) (m * 128) ((x + (b - 128) * m) mod two64)
  end.

Definition dec_varint (bs : bytes) : vres (Z * bytes) :=
  match dec_uvarint bs 0 1 0 with
  | VOk (u, rest) => VOk (unzigzag u, rest)
  | VEOF => VEOF
  | VOverflow => VOverflow
  end.

(* ---- little-endian fixed-width words (float, double, fixed) --------- *)

Fixpoint le_bytes (n : nat) (x : Z) {struct n} : bytes :=
  match n with
  | O => []
  | S k => (x mod 256) :: le_bytes k (x / 256)
  end.

Fixpoint of_le (bs : bytes) {struct bs} : Z :=
  match bs with
  | [] => 0
  | b :: r => b + 256 * of_le r
  end.

(* generic helpers *)
Fixpoint list_eqb {A} (eqb : A -> A -> bool) (a b : list A) {struct a} : bool :=
  match a, b with
  | [], [] => true
  | x :: a', y :: b' => eqb x y && list_eqb eqb a' b'
  | _, _ => false
  end.
Definition bytes_eqb := list_eqb Z.eqb.
Definition len (bs : bytes) : Z := Z.of_nat (length bs).
