(* Abstract heap model of ResourceBank / resourceBankPool / ReadBuf's bank handling
   (/repo/buffer.go: resourceType, ResourceBank.Alloc, findTyp, Close, ToString,
   newResourceBank, NewReadBuf, ReadBuf.ExtractResourceBank, ReadBuf.Alloc,
   ReadBuf.NextAsString).  Definitions only; proofs are in Proofs/BankP.v.

   Memory is a list of arrays (array id = position, a fresh array is appended, so
   "next fresh array id" = length of the heap).  A cell is one byte (Z).  Arrays are
   never removed: the garbage collector keeps every array alive to which a pointer
   still exists, and keeping more alive is unobservable.

   Non-determinism of the runtime enters as oracle arguments of the operations:
     - what sync.Pool.Get returned (a pooled bank, or nothing => Pool.New),
     - the capacity Go's append chose when the string store had to grow.          *)
From Coq Require Import List ZArith Bool Arith.
Import ListNotations.

(* ---- generic list helpers ------------------------------------------------ *)

Fixpoint upd {A} (n : nat) (x : A) (l : list A) {struct l} : list A :=
  match l with
  | [] => []
  | y :: r => match n with O => x :: r | S k => y :: upd k x r end
  end.

(* overwrite l[off .. off+|vs|) by vs; cells beyond the end of l are not written
   (the proofs show that the library never writes beyond the end) *)
Fixpoint write_at (l : list Z) (off : nat) (vs : list Z) {struct l} : list Z :=
  match l with
  | [] => []
  | x :: r =>
    match off with
    | S o => x :: write_at r o vs
    | O => match vs with [] => l | v :: vs' => v :: write_at r O vs' end
    end
  end.

Fixpoint remove_one (b : nat) (l : list nat) {struct l} : list nat :=
  match l with
  | [] => []
  | x :: r => if Nat.eqb x b then r else x :: remove_one b r
  end.

(* ---- state ------------------------------------------------------------------- *)

Definition heap := list (list Z).

Definition cell (h : heap) (arr i : nat) : Z := nth i (nth arr h []) 0%Z.

Definition hwrite (h : heap) (arr off : nat) (vs : list Z) : heap :=
  upd arr (write_at (nth arr h []) off vs) h.

(* resourceType: ptyp (a type identity), size in bytes, array, cap, len (in elements) *)
Record arena := mkArena { a_ty : Z; a_size : nat; a_arr : nat; a_cap : nat; a_len : nat }.

(* ResourceBank: types []resourceType; sData []byte as (array, cap, len).
   A nil array is cap = 0 with an irrelevant array id. *)
Record bank := mkBank { b_types : list arena; s_arr : nat; s_cap : nat; s_len : nat }.

(* An allocation handed out by a bank: the cell range [al_off, al_off+al_len) of array al_arr. *)
Record alloc := mkAlloc { al_bank : nat; al_arr : nat; al_off : nat; al_len : nat }.

(* banks: every *ResourceBank that exists (bank id = position);
   pool:  the content of resourceBankPool;
   bufs:  for every ReadBuf (holder id = position) its current rb;
   live:  GHOST state used only to state the theorems: the allocations and strings
          handed out by a bank since that bank's last Close, newest first.            *)
Record world := mkWorld {
  w_heap : heap; w_banks : list bank; w_pool : list nat; w_bufs : list nat; w_live : list alloc }.

Definition init : world := mkWorld [] [] [] [] [].

Definition content (h : heap) (a : alloc) : list Z :=
  map (cell h (al_arr a)) (seq (al_off a) (al_len a)).

(* the same list read with firstn/skipn (equal for allocations inside their array:
   Proofs/BankP.v fcontent_eq); used when evaluating correspondence cases *)
Definition fcontent (h : heap) (a : alloc) : list Z :=
  firstn (al_len a) (skipn (al_off a) (nth (al_arr a) h [])).

(* ---- operations ------------------------------------------------------------ *)

(* a bank is used directly (a pointer to ResourceBank in the hands of the caller) or through a ReadBuf *)
Inductive bref := Direct (b : nat) | Via (h : nat).

Inductive op :=
| Get (choice : option nat)                 (* newResourceBank(), or &ResourceBank{} when None *)
| NewBuf (choice : option nat)              (* NewReadBuf / ReadBuf.Reset on a ReadBuf without bank *)
| Extract (h : nat) (choice : option nat)   (* ReadBuf.ExtractResourceBank: caller gets the old bank *)
| Alloc (r : bref) (ty : Z) (size : nat)    (* ResourceBank.Alloc(rtyp); size = rtyp.Size() *)
| ToString (r : bref) (data : list Z) (grow : nat)  (* ResourceBank.ToString / ReadBuf.NextAsString *)
| Close (b : nat)                           (* ResourceBank.Close *)
| Store (a : alloc) (off : nat) (vs : list Z).      (* a decoder writing through a pointer it got from Alloc *)

Definition resolve (w : world) (r : bref) : option nat :=
  match r with Direct b => Some b | Via h => nth_error (w_bufs w) h end.

(* resourceBankPool.Get(): a pooled bank is REMOVED from the pool; otherwise
   Pool.New makes &ResourceBank{} (no arenas, nil sData). *)
Definition get_bank (w : world) (choice : option nat) : world * nat :=
  match choice with
  | Some b => (mkWorld (w_heap w) (w_banks w) (remove_one b (w_pool w)) (w_bufs w) (w_live w), b)
  | None => (mkWorld (w_heap w) (w_banks w ++ [mkBank [] 0 0 0]) (w_pool w) (w_bufs w) (w_live w),
             length (w_banks w))
  end.

(* findTyp: linear search by type identity; append {ptyp, size} when absent *)
Fixpoint find_idx (ty : Z) (l : list arena) {struct l} : option nat :=
  match l with
  | [] => None
  | ar :: r => if Z.eqb (a_ty ar) ty then Some O else option_map S (find_idx ty r)
  end.

Definition find_typ (l : list arena) (ty : Z) (sz : nat) : list arena * nat :=
  match find_idx ty l with
  | Some j => (l, j)
  | None => (l ++ [mkArena ty sz 0 0 0], length l)
  end.

(* ResourceBank.Alloc *)
Definition alloc_step (w : world) (b : nat) (ty : Z) (sz : nat) : world :=
  match nth_error (w_banks w) b with
  | None => w
  | Some bk =>
    let tj := find_typ (b_types bk) ty sz in
    match nth_error (fst tj) (snd tj) with
    | None => w
    | Some ar =>
      let grow := Nat.eqb (a_len ar) (a_cap ar) in
      (* newCap := rt.cap*2; if newCap < 16 { newCap = 16 } *)
      let cap' := if grow then Nat.max 16 (2 * a_cap ar) else a_cap ar in
      (* rt.array = unsafe_NewArray(rt.ptyp, newCap): fresh and zeroed; the old array is
         dropped, pointers into it stay valid; rt.len is NOT reset *)
      let arr' := if grow then length (w_heap w) else a_arr ar in
      let h1 := if grow then w_heap w ++ [repeat 0%Z (cap' * a_size ar)] else w_heap w in
      (* i := rt.len; rt.len++; ptr := array + i*size; typedmemclr(ptr) *)
      let off := a_len ar * a_size ar in
      let h2 := hwrite h1 arr' off (repeat 0%Z (a_size ar)) in
      let ar' := mkArena (a_ty ar) (a_size ar) arr' cap' (S (a_len ar)) in
      let bk' := mkBank (upd (snd tj) ar' (fst tj)) (s_arr bk) (s_cap bk) (s_len bk) in
      mkWorld h2 (upd b bk' (w_banks w)) (w_pool w) (w_bufs w)
              (mkAlloc b arr' off (a_size ar) :: w_live w)
    end
  end.

(* ResourceBank.ToString: start := len(sData); sData = append(sData, in...); out := sData[start:] *)
Definition tostring_step (w : world) (b : nat) (data : list Z) (grow : nat) : world :=
  match nth_error (w_banks w) b with
  | None => w
  | Some bk =>
    let n := length data in
    let start := s_len bk in
    if start + n <=? s_cap bk then
      (* append in place *)
      let h' := hwrite (w_heap w) (s_arr bk) start data in
      let bk' := mkBank (b_types bk) (s_arr bk) (s_cap bk) (start + n) in
      mkWorld h' (upd b bk' (w_banks w)) (w_pool w) (w_bufs w)
              (mkAlloc b (s_arr bk) start n :: w_live w)
    else
      (* growslice: a fresh array of the capacity the runtime chose (oracle), old
         content copied; the tail beyond len is never visible through a string *)
      let arr' := length (w_heap w) in
      let na := firstn start (nth (s_arr bk) (w_heap w) []) ++ data ++ repeat 0%Z (grow - start - n) in
      let bk' := mkBank (b_types bk) arr' grow (start + n) in
      mkWorld (w_heap w ++ [na]) (upd b bk' (w_banks w)) (w_pool w) (w_bufs w)
              (mkAlloc b arr' start n :: w_live w)
  end.

(* ResourceBank.Close: every t.len = 0; sData = sData[:0] (arrays KEPT); Pool.Put(rb) *)
Definition close_bank (bk : bank) : bank :=
  mkBank (map (fun ar => mkArena (a_ty ar) (a_size ar) (a_arr ar) (a_cap ar) 0) (b_types bk))
         (s_arr bk) (s_cap bk) 0.

Definition close_step (w : world) (b : nat) : world :=
  match nth_error (w_banks w) b with
  | None => w
  | Some bk =>
    mkWorld (w_heap w) (upd b (close_bank bk) (w_banks w)) (b :: w_pool w) (w_bufs w)
            (filter (fun a => negb (Nat.eqb (al_bank a) b)) (w_live w))
  end.

Definition store_step (w : world) (a : alloc) (off : nat) (vs : list Z) : world :=
  mkWorld (hwrite (w_heap w) (al_arr a) (al_off a + off) vs) (w_banks w) (w_pool w) (w_bufs w) (w_live w).

Definition step (w : world) (o : op) : world :=
  match o with
  | Get c => fst (get_bank w c)
  | NewBuf c =>
    let wb := get_bank w c in
    mkWorld (w_heap (fst wb)) (w_banks (fst wb)) (w_pool (fst wb)) (w_bufs (fst wb) ++ [snd wb]) (w_live (fst wb))
  | Extract h c =>
    let wb := get_bank w c in
    mkWorld (w_heap (fst wb)) (w_banks (fst wb)) (w_pool (fst wb)) (upd h (snd wb) (w_bufs (fst wb))) (w_live (fst wb))
  | Alloc r ty sz => match resolve w r with Some b => alloc_step w b ty sz | None => w end
  | ToString r data g => match resolve w r with Some b => tostring_step w b data g | None => w end
  | Close b => close_step w b
  | Store a off vs => store_step w a off vs
  end.

Definition run (w : world) (ops : list op) : world := fold_left step ops w.

(* ---- well-formed histories ---------------------------------------------------
   What the runtime guarantees and what the holder of a bank owes:
   - Pool.Get returns an item that is in the pool (and removes it: get_bank);
   - growslice returns a capacity that holds the appended data;
   - nobody calls Alloc / ToString / Close on a bank between that bank's Close and
     the moment the pool hands it out again ("valid until Close");
   - a decoder stores only through a live allocation and within its extent.        *)

Definition choice_ok (w : world) (c : option nat) : Prop :=
  match c with None => True | Some b => In b (w_pool w) end.

Definition usable (w : world) (r : bref) : Prop :=
  exists b, resolve w r = Some b /\ b < length (w_banks w) /\ ~ In b (w_pool w).

Definition wf_op (w : world) (o : op) : Prop :=
  match o with
  | Get c => choice_ok w c
  | NewBuf c => choice_ok w c
  | Extract h c => h < length (w_bufs w) /\ choice_ok w c
  | Alloc r _ _ => usable w r
  | ToString r data g =>
      usable w r /\
      forall b bk, resolve w r = Some b -> nth_error (w_banks w) b = Some bk ->
                   s_len bk + length data <= s_cap bk \/ s_len bk + length data <= g
  | Close b => b < length (w_banks w) /\ ~ In b (w_pool w)
  | Store a off vs => In a (w_live w) /\ off + length vs <= al_len a
  end.

Fixpoint wf_hist (w : world) (ops : list op) {struct ops} : Prop :=
  match ops with
  | [] => True
  | o :: r => wf_op w o /\ wf_hist (step w o) r
  end.

(* ---- the notions the theorems speak about ------------------------------------ *)

Definition in_alloc (a : alloc) (arr i : nat) : Prop :=
  al_arr a = arr /\ al_off a <= i < al_off a + al_len a.

Definition disjoint (a a' : alloc) : Prop :=
  forall arr i, ~ (in_alloc a arr i /\ in_alloc a' arr i).

Definition in_bounds (h : heap) (a : alloc) : Prop :=
  al_len a = 0 \/ (al_arr a < length h /\ al_off a + al_len a <= length (nth (al_arr a) h [])).

(* ---- executable well-formedness (used by the correspondence check) ------------ *)

Definition memb (b : nat) (l : list nat) : bool := existsb (Nat.eqb b) l.

Definition alloc_eqb (a a' : alloc) : bool :=
  Nat.eqb (al_bank a) (al_bank a') && Nat.eqb (al_arr a) (al_arr a') &&
  Nat.eqb (al_off a) (al_off a') && Nat.eqb (al_len a) (al_len a').

Definition choice_okb (w : world) (c : option nat) : bool :=
  match c with None => true | Some b => memb b (w_pool w) end.

Definition usableb (w : world) (r : bref) : bool :=
  match resolve w r with
  | Some b => Nat.ltb b (length (w_banks w)) && negb (memb b (w_pool w))
  | None => false
  end.

Definition wf_opb (w : world) (o : op) : bool :=
  match o with
  | Get c => choice_okb w c
  | NewBuf c => choice_okb w c
  | Extract h c => Nat.ltb h (length (w_bufs w)) && choice_okb w c
  | Alloc r _ _ => usableb w r
  | ToString r data g =>
      usableb w r &&
      match resolve w r with
      | Some b => match nth_error (w_banks w) b with
                  | Some bk => (s_len bk + length data <=? s_cap bk) || (s_len bk + length data <=? g)
                  | None => true
                  end
      | None => true
      end
  | Close b => Nat.ltb b (length (w_banks w)) && negb (memb b (w_pool w))
  | Store a off vs => existsb (alloc_eqb a) (w_live w) && (off + length vs <=? al_len a)
  end.

Fixpoint wf_histb (w : world) (ops : list op) {struct ops} : bool :=
  match ops with
  | [] => true
  | o :: r => wf_opb w o && wf_histb (step w o) r
  end.
