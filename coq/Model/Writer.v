(* Writer-side additions to Model/Container.v used by C09 and C16
   (definitions only):
   - the whole file as a list of Write calls (NewEncoderFor writes the header
     with one Write call, then every block is four Write calls);
   - the fault run of the whole file, the header being write index 0;
   - the abstract grouping specification with the reason each group was closed;
   - a block-stream parser (what a reader that knows the 16-byte sync marker
     recovers from the bytes after the header). *)
Require Import Avro.Model.Base Avro.Model.Prim Avro.Model.Container.

(* the record encodings handed to Encode, in call order *)
Fixpoint recs_of (ops : list enc_op) {struct ops} : list bytes :=
  match ops with
  | [] => []
  | OpEncode rec :: ops' => rec :: recs_of ops'
  | OpFlush :: ops' => recs_of ops'
  end.

(* blocks_spec with the reason a group was closed *)
Inductive closed_by := BySize | ByFlush.

Fixpoint blocks_tagged (block_size : Z) (pending : list bytes) (ops : list enc_op) {struct ops}
  : list (list bytes * closed_by) * list bytes :=
  match ops with
  | [] => ([], pending)
  | OpEncode rec :: ops' =>
    let p := pending ++ [rec] in
    if block_size <=? len (concat p)
    then let (gs, rest) := blocks_tagged block_size [] ops' in ((p, BySize) :: gs, rest)
    else blocks_tagged block_size p ops'
  | OpFlush :: ops' =>
    match pending with
    | [] => blocks_tagged block_size [] ops'
    | _ => let (gs, rest) := blocks_tagged block_size [] ops' in ((pending, ByFlush) :: gs, rest)
    end
  end.

(* "the buffered encodings have not reached the block size": nothing buffered,
   or fewer bytes than block_size *)
Definition below (block_size : Z) (l : list bytes) : Prop :=
  l = [] \/ len (concat l) < block_size.

Section File.
  Variable compress : bytes -> bytes.
  Variable schema_json codec_name sync : bytes.
  Variable block_size : Z.

  (* NewEncoderFor: FileWriter.WriteHeader issues ONE Write call with the whole
     header; then the encoder's calls *)
  Definition file_chunks (ops : list enc_op) : list bytes :=
    header_bytes schema_json codec_name sync :: snd (enc_run compress sync block_size enc_init ops).

  (* fault at write index k counted from the header write (k = 0).  A failing
     header write makes NewEncoderFor return the error: there is no encoder and
     no further call. *)
  Definition file_run_fault (ops : list enc_op) (k partial : nat) : bytes * bool :=
    match feed [header_bytes schema_json codec_name sync] k partial with
    | (acc, None) => (acc, true)
    | (acc, Some k') =>
      let (acc2, failed) := enc_run_fault compress sync block_size enc_init ops k' partial in
      (acc ++ acc2, failed)
    end.
End File.

(* what a reader recovers from the block stream: (count, stored payload) per
   block.  One unit of fuel per block; every block is at least 18 bytes long. *)
Fixpoint parse_blocks_fuel (fuel : nat) (sync bs : bytes) {struct fuel} : option (list (Z * bytes)) :=
  match bs with
  | [] => Some []
  | _ :: _ =>
    match fuel with
    | O => None
    | S f =>
      match dec_varint bs with
      | VOk (cnt, r) =>
        match dec_varint r with
        | VOk (l, r1) =>
          match read_full l r1 with
          | Some (payload, r2) =>
            match read_full 16 r2 with
            | Some (sy, r3) =>
              if bytes_eqb sy sync
              then match parse_blocks_fuel f sync r3 with
                   | Some t => Some ((cnt, payload) :: t)
                   | None => None
                   end
              else None
            | None => None
            end
          | None => None
          end
        | _ => None
        end
      | _ => None
      end
    end
  end.

Definition parse_blocks (sync bs : bytes) : option (list (Z * bytes)) :=
  parse_blocks_fuel (length bs) sync bs.

(* ---- any write granularity ----
   How many Write calls carry a block (or the header) is an implementation
   choice the properties do not speak about.  [rechunk lens bs] cuts a byte
   stream at the given Write-call lengths; [fault_of_chunks] is the failing
   writer of C16 over any such list of Write calls. *)
Fixpoint rechunk (lens : list nat) (bs : bytes) {struct lens} : list bytes :=
  match lens with
  | [] => []
  | n :: r => firstn n bs :: rechunk r (skipn n bs)
  end.

Definition fault_of_chunks (chunks : list bytes) (k partial : nat) : bytes * bool :=
  match feed chunks k partial with
  | (acc, None) => (acc, true)
  | (acc, Some _) => (acc, false)
  end.

(* ---- the FileWriter used directly (NewFileWriter; WriteHeader / AppendHeader / WriteBlock),
   one FileWriter serving several io.Writers, the calls for the different files interleaved
   in any order.  A FileWriter holds its sync marker, schema and codec name from NewFileWriter
   on; nothing a call does changes them. *)
Inductive fw_op :=
| FwHeader (w : nat)                              (* WriteHeader(w) *)
| FwAppend (buf : bytes)                          (* AppendHeader(buf): returns, writes nowhere *)
| FwBlock (w : nat) (count : Z) (data : bytes).   (* WriteBlock(w, count, data) *)

Section FileWriter.
  Variable compress : bytes -> bytes.
  Variable schema_json codec_name sync : bytes.

  (* what the call hands to writer w *)
  Definition fw_emit (w : nat) (op : fw_op) : bytes :=
    match op with
    | FwHeader w' => if Nat.eqb w w' then header_bytes schema_json codec_name sync else []
    | FwAppend _ => []
    | FwBlock w' n data => if Nat.eqb w w' then block_bytes sync n (compress data) else []
    end.

  (* what AppendHeader returns *)
  Definition fw_append (buf : bytes) : bytes := buf ++ header_bytes schema_json codec_name sync.

  (* everything writer w holds after the history *)
  Definition fw_written (ops : list fw_op) (w : nat) : bytes := concat (map (fw_emit w) ops).

  (* the calls that concern writer w, in order *)
  Definition fw_for (w : nat) (op : fw_op) : bool :=
    match op with FwHeader w' | FwBlock w' _ _ => Nat.eqb w w' | FwAppend _ => false end.
End FileWriter.
