(* Typing of Go values by Go types ([wt]) and the kind-accurate relation between
   a codec and the Go type it decodes into ([ctype]). *)
Require Import Avro.Model.Base Avro.Model.Prim Avro.Model.Schema Avro.Model.GoType Avro.Model.Codec.

Definition signed_width (k : ikind) : option Z :=
  match k with I16 => Some 16 | I32 => Some 32 | I64 | IInt => Some 64 | _ => None end.

Definition wt_wrap (w : wkind) (v : gval) : Prop :=
  match w, v with
  | WTime, VTime _ => True
  | WNullInt, VNullW _ (VInt _) => True
  | WNullBool, VNullW _ (VBool _) => True
  | WNullFloat, VNullW _ (VF64 _) => True
  | WNullString, VNullW _ (VStr _) => True
  | WNullTime, VNullW _ (VTime _) => True
  | _, _ => False
  end.

Fixpoint wt (t : gtype) (v : gval) {struct t} : Prop :=
  match t with
  | TBool => exists x, v = VBool x
  | TInt _ => exists z, v = VInt z
  | TFloat32 => exists x, v = VF32 x
  | TFloat64 => exists x, v = VF64 x
  | TString => exists x, v = VStr x
  | TSlice e =>
      if is_u8 e then exists x, v = VBytes x
      else exists vs, v = VSlice vs /\
             (fix all (l : list gval) {struct l} : Prop := match l with [] => True | x :: r => wt e x /\ all r end) vs
  | TArray _ e => if is_u8 e then exists x, v = VFixed x else v = VBad
  | TMap _ e =>
      v = VMapNil \/ exists kvs, v = VMap kvs /\
             (fix all (l : list (bytes * gval)) {struct l} : Prop := match l with [] => True | (_, x) :: r => wt e x /\ all r end) kvs
  | TPtr e => v = VPtr None \/ exists x, v = VPtr (Some x) /\ wt e x
  | TStruct _ _ fields =>
      exists vs, v = VStruct vs /\
        (fix all (fl : list gfield) (l : list gval) {struct fl} : Prop :=
           match fl, l with
           | [], [] => True
           | GF _ _ _ _ ft :: fr, x :: r => wt ft x /\ all fr r
           | _, _ => False
           end) fields vs
  | TWrap w => wt_wrap w v
  | TNamed _ u => wt u v
  | _ => v = VBad
  end.

(* the Go type a codec decodes into *)
Fixpoint ctype (c : codec) (t : gtype) {struct c} : Prop :=
  match c with
  | CNull => True
  | CBool _ => underlying t = TBool
  | CInt w _ => exists k, underlying t = TInt k /\ signed_width k = Some w
  | CFloat _ | CF32Double _ => underlying t = TFloat32
  | CDouble _ => underlying t = TFloat64
  | CBytes _ => exists e, underlying t = TSlice e /\ is_u8 e = true
  | CString _ | CUnionStr _ _ => underlying t = TString
  | CFixed n => exists e, underlying t = TArray n e /\ is_u8 e = true
  | CRecord fs =>
      exists n p gfs, underlying t = TStruct n p gfs /\
        (fix go (l : list (codec * option nat)) {struct l} : Prop :=
           match l with
           | [] => True
           | (fc, Some j) :: l' => (exists gf, nth_error gfs j = Some gf /\ ctype fc (gf_type gf)) /\ go l'
           | (_, None) :: l' => go l'
           end) fs
  | CArray ic iz _ => exists e, underlying t = TSlice e /\ ctype ic e /\ iz = zero_of e
  | CMap vc vz _ => exists k e, underlying t = TMap k e /\ ctype vc e /\ vz = zero_of e
  | CPtr c' z => exists e, underlying t = TPtr e /\ ctype c' e /\ z = zero_of e
  | CUnion cs => (fix go (l : list codec) {struct l} : Prop := match l with [] => True | x :: l' => ctype x t /\ go l' end) cs
  | CUnionOne c' _ => ctype c' t
  | CTimeString | CTimeLong _ | CDate => t = TWrap WTime
  | CNullInt => t = TWrap WNullInt
  | CNullBool => t = TWrap WNullBool
  | CNullDouble | CNullFloat => t = TWrap WNullFloat
  | CNullString => t = TWrap WNullString
  | CNullTime => t = TWrap WNullTime
  | CCustom _ c' => ctype c' t
  end.
