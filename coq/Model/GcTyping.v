(* C11, the part that is logic: which Go type every allocation site of the decoder
   allocates AS, and which Go type the enclosing value later VIEWS that memory as.

   The collector scans an object with the pointer bitmap of the type it was
   allocated with (mallocgc(size, typ)); a pointer stored into a word that bitmap
   marks as scalar is invisible to it, and what it points to is reclaimed at the
   next cycle.  So "decoded values are ordinary Go values" has a necessary logical
   core: at every allocation site, the bitmap of the type allocated must equal the
   bitmap of the type the memory is used as, and every pointer store of a codec
   must land in a pointer word.

   Allocation sites of the decoder (/repo):
     array.go   resizeSlice      unsafe_NewArray(itemType, n)        n x the item type itself
     map.go     MapCodec.Read    reflect.MakeMap(m.rtype)            the map type itself
                                 val := valueCodec.New(r)            [alloc_type valueCodec]; when that is nil
                                                                     r.Alloc(m.rtype.Elem()), the value type itself;
                                                                     mapassign then copies val AS the value type
     pointer.go PointerCodec.Read  *pp = c.Codec.New(r)              [alloc_type c.Codec], viewed as the pointee type
     file.go    ReadFile         unsafe_New(rtyp)                    the target type itself
     bytes.go   make([]byte, l); buffer.go ToString (append to a []byte)   pointer-free byte arrays
   Every New goes through ReadBuf.Alloc(reflect.Type) -> ResourceBank.Alloc ->
   unsafe_NewArray(rt.ptyp, cap) + typedmemclr(rt.ptyp, ptr), i.e. an array of the
   type handed to Alloc (one arena per type), except fixedCodec.New which calls
   unsafe_NewArray(byte, n) directly.

   NOT modelled (exercised by harness/c11.go instead): the collector itself, write
   barriers, stack maps, conservative treatment of unsafe.Pointer arithmetic
   (ResourceBank.Alloc: uintptr(array)+i*size, arrayCodec.Read: uintptr(Data)+Len*size),
   and that the stack-allocated [mapiter] struct of unsafetricks.go matches the
   runtime's iterator (MapCodec.Write).  Definitions only; proofs in Proofs/GcTypingP.v. *)
From Coq Require Import String.
Require Import Avro.Model.Base Avro.Model.Prim Avro.Model.Schema Avro.Model.GoType
               Avro.Model.Codec Avro.Model.Layout.

(* ---- pointer words of a Go type (amd64: one word = 8 bytes) ------------------ *)

(* time.Time = {wall uint64; ext int64; loc *Location}; null.X embeds sql.NullX =
   {payload; Valid bool}: byte offsets of the pointer words *)
Definition wrap_ptr_offsets (w : wkind) : list Z :=
  match w with
  | WTime => [16]
  | WNullInt | WNullBool | WNullFloat => []
  | WNullString => [0]
  | WNullTime => [16]
  end.

(* byte offsets (from the start of the value) of the words that hold a pointer *)
Fixpoint ptr_offsets (t : gtype) {struct t} : list Z :=
  match t with
  | TString | TSlice _ | TMap _ _ | TPtr _ | TChan | TFunc | TUnsafePtr => [0]   (* data pointer first *)
  | TIface => [8]      (* the data word only: the type / itab word points to memory that is
                          never collected and the runtime's bitmap leaves it unmarked *)
  | TArray n e =>
      (fix rep (k : nat) (off : Z) {struct k} : list Z :=
         match k with
         | O => []
         | S k' => map (Z.add off) (ptr_offsets e) ++ rep k' (off + sizeof e)
         end) (Z.to_nat n) 0
  | TStruct _ _ fields =>
      (fix go (l : list gfield) (off : Z) {struct l} : list Z :=
         match l with
         | [] => []
         | GF _ _ _ _ ft :: r =>
             let o := align_up off (alignof ft) in
             map (Z.add o) (ptr_offsets ft) ++ go r (o + sizeof ft)
         end) fields 0
  | TWrap w => wrap_ptr_offsets w
  | TNamed _ u => ptr_offsets u
  | _ => []                       (* scalars; TSelf only ever occurs behind a pointer, slice or map *)
  end.

Definition nwords (t : gtype) : nat := Z.to_nat ((sizeof t + 7) / 8).

(* the collector's view of a type: one flag per word *)
Definition ptrmap (t : gtype) : list bool :=
  map (fun i => existsb (Z.eqb (8 * Z.of_nat i)) (ptr_offsets t)) (seq 0 (nwords t)).

(* memory allocated as [a] and used as [v] is scanned correctly *)
Definition same_gc (a v : gtype) : Prop := sizeof a = sizeof v /\ ptrmap a = ptrmap v.

(* ---- what each codec's New allocates ------------------------------------------- *)

(* fixed.go: type sliceHeader struct { Data unsafe.Pointer; Len int; Cap int } *)
Definition slice_header : gtype :=
  TStruct (b "sliceHeader") (b "github.com/philpearl/avro")
    [GF (b "Data") true [] [] TUnsafePtr; GF (b "Len") true [] [] (TInt IInt); GF (b "Cap") true [] [] (TInt IInt)].

(* go1.24 internal/runtime/maps.Map, the object a map value points to:
   used uint64; seed uintptr; dirPtr unsafe.Pointer; dirLen int;
   globalDepth, globalShift, writing uint8; clearSeq uint64 *)
Definition runtime_map_header : gtype :=
  TStruct (b "Map") (b "internal/runtime/maps")
    [GF (b "used") false [] [] (TInt U64); GF (b "seed") false [] [] (TInt UPtr);
     GF (b "dirPtr") false [] [] TUnsafePtr; GF (b "dirLen") false [] [] (TInt IInt);
     GF (b "globalDepth") false [] [] (TInt U8); GF (b "globalShift") false [] [] (TInt U8);
     GF (b "writing") false [] [] (TInt U8); GF (b "clearSeq") false [] [] (TInt U64)].

(* unsafetricks.go: the stack-allocated iterator MapCodec.Write hands to
   runtime.mapiterinit, and go1.24's runtime.linknameIter which that function
   actually fills in (key, elem, typ, it *maps.Iter): recorded here only to state
   their compatibility as an example; iteration itself is not modelled *)
Definition mapiter_type : gtype :=
  TStruct (b "mapiter") (b "github.com/philpearl/avro")
    [GF (b "key") false [] [] TUnsafePtr; GF (b "elem") false [] [] TUnsafePtr; GF (b "t") false [] [] TUnsafePtr;
     GF (b "h") false [] [] TUnsafePtr; GF (b "buckets") false [] [] TUnsafePtr; GF (b "bptr") false [] [] TUnsafePtr;
     GF (b "overflow") false [] [] TUnsafePtr; GF (b "oldoverflow") false [] [] TUnsafePtr;
     GF (b "startBucket") false [] [] (TInt UPtr); GF (b "offset") false [] [] (TInt U8); GF (b "wrapped") false [] [] TBool;
     GF (b "B") false [] [] (TInt U8); GF (b "i") false [] [] (TInt U8);
     GF (b "bucket") false [] [] (TInt UPtr); GF (b "checkBucket") false [] [] (TInt UPtr)].
Definition linkname_iter_type : gtype :=
  TStruct (b "linknameIter") (b "runtime")
    [GF (b "key") false [] [] TUnsafePtr; GF (b "elem") false [] [] TUnsafePtr;
     GF (b "typ") false [] [] (TPtr TBool); GF (b "it") false [] [] (TPtr TBool)].

(* [alloc_type mapnew c t]: the Go type [c.New(r)] allocates, for a codec c built
   for the Go type t; None = New returns nil (nullCodec; unions of only such).
   [mapnew] is MapCodec.New's choice, the one site that was repaired:
     now   r.Alloc(m.rtype)                           a (nil) map variable
     old   reflect.MakeMap(m.rtype).Pointer()         the runtime map object itself *)
Definition int_alloc (w : Z) : gtype :=
  TInt (if w =? 64 then I64 else if w =? 32 then I32 else I16).     (* IntCodec[T].New by unsafe.Sizeof(T) *)

Fixpoint alloc_type (mapnew : gtype -> gtype) (c : codec) (t : gtype) {struct c} : option gtype :=
  match c with
  | CNull => None
  | CBool _ => Some TBool
  | CInt w _ => Some (int_alloc w)
  | CFloat _ | CF32Double _ => Some TFloat32
  | CDouble _ => Some TFloat64
  | CBytes _ => Some (TSlice (TInt U8))
  | CString _ | CUnionStr _ _ => Some TString           (* unionNullString.New = StringCodec.New *)
  | CFixed n => Some (TArray n (TInt U8))               (* unsafe_NewArray(byte, Size), not via the bank *)
  | CRecord _ => Some t                                 (* r.Alloc(rc.rtype), rtype = the struct type *)
  | CArray _ _ _ => Some slice_header                   (* r.Alloc(sliceType) *)
  | CMap _ _ _ => Some (mapnew t)
  | CPtr _ _ => Some TUnsafePtr                         (* r.Alloc(pointerType) *)
  | CUnion cs =>                                        (* the first branch whose New is not nil *)
      (fix first (l : list codec) {struct l} : option gtype :=
         match l with
         | [] => None
         | x :: l' => match alloc_type mapnew x t with Some a => Some a | None => first l' end
         end) cs
  | CUnionOne c' _ => alloc_type mapnew c' t            (* unionOneAndNullCodec.New = u.codec.New *)
  | CTimeString | CTimeLong _ | CDate => Some (TWrap WTime)
  | CNullInt => Some (TWrap WNullInt)
  | CNullBool => Some (TWrap WNullBool)
  | CNullDouble | CNullFloat => Some (TWrap WNullFloat)
  | CNullString => Some (TWrap WNullString)
  | CNullTime => Some (TWrap WNullTime)
  | CCustom _ c' => alloc_type mapnew c' t              (* the harness's custom codecs embed the inner codec *)
  end.

Definition mapnew_now (t : gtype) : gtype := t.
Definition mapnew_old (t : gtype) : gtype := runtime_map_header.

(* what New allocates is scanned as the type it is used as *)
Definition alloc_ok (mapnew : gtype -> gtype) (c : codec) (t : gtype) : Prop :=
  match alloc_type mapnew c t with Some a => same_gc a t | None => True end.

(* ---- pointer stores of a codec's Read into its own destination ------------------ *)

(* byte offsets, relative to the pointer Read is handed, of the pointer-carrying
   words it stores (record, union and custom codecs store through their parts) *)
Definition ptr_stores (c : codec) : list Z :=
  match c with
  | CBytes _ | CString _ | CUnionStr _ _      (* the []byte / string header stored at p: data pointer first *)
  | CArray _ _ _                              (* sliceHeader.Data *)
  | CMap _ _ _ | CPtr _ _                     (* the map / New() pointer stored at p *)
  | CNullString => [0]                        (* null.String.String *)
  | CTimeString | CTimeLong _ | CDate         (* the time.Time stored at p: its loc word *)
  | CNullTime => [16]
  | _ => []
  end.

Definition stores_ok (c : codec) (t : gtype) : Prop :=
  Forall (fun o => In o (ptr_offsets t)) (ptr_stores c).

(* ---- the property, at every position of the codec tree ---------------------------- *)

(* [gc_typed mapnew c t]: for the codec c decoding into Go type t,
     - c's own pointer stores land in pointer words of t,
     - behind every pointer and in every map value the object New allocates is
       scanned as the pointee / value type, and so on recursively.
   Slice backing arrays (unsafe_NewArray(item type, n)), maps (reflect.MakeMap of
   the map type) and record fields (part of the enclosing struct) are allocated
   with the very type they are used as: only the recursion is left to state. *)
Fixpoint gc_typed (mapnew : gtype -> gtype) (c : codec) (t : gtype) {struct c} : Prop :=
  match c with
  | CRecord fs =>
      match underlying t with
      | TStruct _ _ gfs =>
          (fix go (l : list (codec * option nat)) {struct l} : Prop :=
             match l with
             | [] => True
             | (fc, Some j) :: l' =>
                 match nth_error gfs j with Some gf => gc_typed mapnew fc (gf_type gf) | None => False end /\ go l'
             | (_, None) :: l' => go l'
             end) fs
      | _ => False
      end
  | CArray ic _ _ =>
      stores_ok c t /\ match underlying t with TSlice e => gc_typed mapnew ic e | _ => False end
  | CMap vc _ _ =>
      stores_ok c t /\
      match underlying t with TMap _ e => alloc_ok mapnew vc e /\ gc_typed mapnew vc e | _ => False end
  | CPtr c' _ =>
      stores_ok c t /\
      match underlying t with TPtr e => alloc_ok mapnew c' e /\ gc_typed mapnew c' e | _ => False end
  | CUnion cs =>
      (fix go (l : list codec) {struct l} : Prop :=
         match l with [] => True | x :: l' => gc_typed mapnew x t /\ go l' end) cs
  | CUnionOne c' _ => gc_typed mapnew c' t
  | CCustom _ c' => gc_typed mapnew c' t
  | _ => stores_ok c t
  end.

(* all pointer stores Read performs into the object it is handed, through record
   fields, union branches and custom codecs (offsets from the start of the object) *)
Fixpoint obj_stores (c : codec) (t : gtype) (base : Z) {struct c} : list Z :=
  match c with
  | CRecord fs =>
      match underlying t with
      | TStruct _ _ gfs =>
          (fix go (l : list (codec * option nat)) {struct l} : list Z :=
             match l with
             | [] => []
             | (fc, Some j) :: l' =>
                 match nth_error gfs j with
                 | Some gf => obj_stores fc (gf_type gf) (base + nth j (field_offsets gfs 0) 0)
                 | None => []
                 end ++ go l'
             | (_, None) :: l' => go l'
             end) fs
      | _ => []
      end
  | CUnion cs =>
      (fix go (l : list codec) {struct l} : list Z :=
         match l with [] => [] | x :: l' => obj_stores x t base ++ go l' end) cs
  | CUnionOne c' _ => obj_stores c' t base
  | CCustom _ c' => obj_stores c' t base
  | _ => map (Z.add base) (ptr_stores c)
  end.

(* ---- predicted allocation sites (model observable for the correspondence) -------- *)

(* every type the decoder may hand to ReadBuf.Alloc while reading with c into t:
   a superset of the arenas a bank can end up with (fixedCodec.New allocates its
   byte array directly, not through the bank; it is listed all the same). *)
Definition bank_alloc (c : codec) (t : gtype) : list gtype :=
  match alloc_type mapnew_now c t with Some a => [a] | None => [] end.

Fixpoint bank_sites (c : codec) (t : gtype) {struct c} : list gtype :=
  match c with
  | CRecord fs =>
      match underlying t with
      | TStruct _ _ gfs =>
          (fix go (l : list (codec * option nat)) {struct l} : list gtype :=
             match l with
             | [] => []
             | (fc, Some j) :: l' =>
                 match nth_error gfs j with Some gf => bank_sites fc (gf_type gf) | None => [] end ++ go l'
             | (_, None) :: l' => go l'
             end) fs
      | _ => []
      end
  | CArray ic _ _ => match underlying t with TSlice e => bank_sites ic e | _ => [] end
  | CMap vc _ _ =>
      match underlying t with
      | TMap _ e =>
          (* valueCodec.New(r), or r.Alloc(rtype.Elem()) when that is nil *)
          match alloc_type mapnew_now vc e with Some a => [a] | None => [e] end ++ bank_sites vc e
      | _ => []
      end
  | CPtr c' _ => match underlying t with TPtr e => bank_alloc c' e ++ bank_sites c' e | _ => [] end
  | CUnion cs =>
      (fix go (l : list codec) {struct l} : list gtype :=
         match l with [] => [] | x :: l' => bank_sites x t ++ go l' end) cs
  | CUnionOne c' _ => bank_sites c' t
  | CCustom _ c' => bank_sites c' t
  | _ => []
  end.
