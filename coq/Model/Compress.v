(* Model of the block compression codecs of /repo/file.go: nullCompression, deflate,
   snappyCodec (compress and decompress), and of hash/crc32.ChecksumIEEE and
   binary.BigEndian.{AppendUint32,Uint32} as the snappy codec uses them.

   What is library code and is modelled here:
   * the Avro framing of a snappy block: the raw snappy stream followed by the
     big-endian CRC-32 (IEEE) of the UNCOMPRESSED data;
   * the checks of snappyCodec.decompress, in the order of the code: fewer than
     four bytes; snappy.DecodedLen fails or declares more than 32 times the stored
     length; snappy.Decode fails; the checksum differs;
   * the null codec (identity) and deflate (the raw stream, errors reported).
   What is external and enters as Section variables (golang/snappy, compress/flate):
   the raw encoder / decoder / declared-length functions.  CRC-32 is written out
   bit by bit (reflected polynomial 0xEDB88320, initial value and final xor
   0xFFFFFFFF) and compared with hash/crc32 on every block the correspondence sees. *)
Require Import Avro.Model.Base.
Local Open Scope list_scope.
Open Scope Z_scope.

Definition crc_poly : Z := 3988292384.          (* 0xEDB88320 *)
Definition crc_mask : Z := 4294967295.          (* 0xFFFFFFFF *)

Definition crc_bit (c : Z) : Z :=
  if Z.odd c then Z.lxor (Z.shiftr c 1) crc_poly else Z.shiftr c 1.

Definition crc_byte (c b : Z) : Z :=
  crc_bit (crc_bit (crc_bit (crc_bit (crc_bit (crc_bit (crc_bit (crc_bit (Z.lxor c (b mod 256))))))))).   (* b is a Go byte *)

Definition crc_update (c : Z) (bs : bytes) : Z := fold_left crc_byte bs c.

Definition crc32 (bs : bytes) : Z := Z.lxor (crc_update crc_mask bs) crc_mask.

(* binary.BigEndian.AppendUint32 / Uint32 *)
Definition be32 (v : Z) : bytes := rev (le_bytes 4 v).
Definition be32_dec (bs : bytes) : Z := of_le (rev bs).

(* the two parts of a stored snappy block *)
Definition snappy_body (c : bytes) : bytes := firstn (length c - 4) c.
Definition snappy_tail (c : bytes) : bytes := skipn (length c - 4) c.

Section Snappy.
  Variable raw_enc : bytes -> bytes.              (* snappy.Encode *)
  Variable raw_dec : bytes -> option bytes.       (* snappy.Decode; None = error *)
  Variable raw_len : bytes -> option Z.           (* snappy.DecodedLen; None = error *)

  (* snappyCodec.compress *)
  Definition snappy_compress (u : bytes) : bytes := raw_enc u ++ be32 (crc32 u).

  (* snappyCodec.decompress *)
  Definition snappy_decompress (c : bytes) : option bytes :=
    if len c <? 4 then None
    else match raw_len (snappy_body c) with
         | None => None
         | Some n =>
           if 32 * len c <? n then None
           else match raw_dec (snappy_body c) with
                | None => None
                | Some u => if crc32 u =? be32_dec (snappy_tail c) then Some u else None
                end
         end.
End Snappy.

Section Deflate.
  Variable raw_deflate : bytes -> bytes.          (* flate.Writer at the default level, closed *)
  Variable raw_inflate : bytes -> option bytes.   (* flate.Reader read to its end; None = error *)
  Definition deflate_compress (u : bytes) : bytes := raw_deflate u.
  Definition deflate_decompress (c : bytes) : option bytes := raw_inflate c.
End Deflate.

Definition null_compress (u : bytes) : bytes := u.
Definition null_decompress (c : bytes) : option bytes := Some c.
