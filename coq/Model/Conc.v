(* C12, the part that is logic: the shared mutable state of the library and the
   atomic steps goroutines perform on it, i.e. exactly the critical sections that the
   mutexes delimit and the sync.Pool operations:

     build.go        registry + registryMutex      Register (Lock ... Unlock)          RegSet
                                                   buildCodec (RLock; lookup; RUnlock) RegLookup
     buildschema.go  schemaRegistry + its mutex    RegisterSchema                      SRegSet
                                                   isInSchemaRegistry                  SRegLookup
     time/parse.go   tzMap + tzLock                getTimezone (lookup, insert if      TzGet
                                                   absent, all under the lock)
     buffer.go       resourceBankPool (sync.Pool)  newResourceBank: Pool.Get           PoolGet
                                                   ResourceBank.Close: Pool.Put        PoolPut

   Everything else a goroutine does (decoding with a built codec into its own
   target, encoding into its own WriteBuf, reading a file with its own decompressor
   -- the deflate / snappy codecs are created per ReadFile call and per FileWriter --
   building a codec tree from the lookups) touches no shared mutable state: built
   codecs are immutable after construction.

   NOT modelled: that these steps ARE atomic, i.e. that the Go code is free of data
   races in the sense of the Go memory model and that the locks are taken where the
   table says.  That is exercised by the race detector (harness/c12.go).
   Definitions only; proofs in Proofs/ConcP.v. *)
Require Import Avro.Model.Base Avro.Model.Schema Avro.Model.GoType Avro.Model.Codec.

Definition wk_eqb (a c : wkind) : bool :=
  match a, c with
  | WTime, WTime | WNullInt, WNullInt | WNullBool, WNullBool | WNullFloat, WNullFloat
  | WNullString, WNullString | WNullTime, WNullTime => true
  | _, _ => false
  end.

Definition rkey_eqb (a c : rkey) : bool :=
  match a, c with
  | RWrap w, RWrap w' => wk_eqb w w'
  | RNamed i, RNamed j => i =? j
  | _, _ => false
  end.

(* shared state.  A registered Schema value is identified by a number; a cached
   *time.Location by the order of its creation; a bank by a number. *)
Record shared := mkShared {
  sh_reg : rkey -> option builder;       (* registry *)
  sh_sreg : rkey -> option Z;            (* schemaRegistry *)
  sh_tz : list (Z * nat);                (* tzMap: offset -> location *)
  sh_pool : list nat;                    (* resourceBankPool: clean banks (C10_close) *)
  sh_next : nat }.                       (* next fresh bank *)

Definition upd_key {A} (f : rkey -> option A) (k : rkey) (v : A) : rkey -> option A :=
  fun k' => if rkey_eqb k' k then Some v else f k'.

Fixpoint tz_find (off : Z) (l : list (Z * nat)) {struct l} : option nat :=
  match l with
  | [] => None
  | (o, id) :: r => if o =? off then Some id else tz_find off r
  end.

Fixpoint remove_nth {A} (n : nat) (l : list A) {struct l} : list A :=
  match l, n with
  | [], _ => []
  | _ :: r, O => r
  | x :: r, S n' => x :: remove_nth n' r
  end.

Inductive step :=
| RegLookup (k : rkey) | RegSet (k : rkey) (bd : builder)
| SRegLookup (k : rkey) | SRegSet (k : rkey) (s : Z)
| TzGet (off : Z)
| PoolGet | PoolPut (bank : nat).

(* what a step returns, with identities *)
Inductive res :=
| RReg (r : option builder) | RSReg (r : option Z) | RUnit
| RTz (off : Z) (loc : nat) | RBank (bank : nat).

(* what the goroutine can tell: a location is its offset (fresh or cached), a bank
   from the pool is a clean bank whichever it is (C10_close / C10_zeroed) *)
Inductive obs := OReg (r : option builder) | OSReg (r : option Z) | OUnit | OTz (off : Z) | OBank.

Definition obs_of (r : res) : obs :=
  match r with
  | RReg x => OReg x | RSReg x => OSReg x | RUnit => OUnit
  | RTz off _ => OTz off | RBank _ => OBank
  end.

(* one atomic step; [orc] is sync.Pool's choice for a Get: Some i = the i-th pooled
   bank, None (or an index out of range) = nothing suitable, Pool.New makes a bank *)
Definition exec (s : shared) (orc : option nat) (st : step) : shared * res :=
  match st with
  | RegLookup k => (s, RReg (sh_reg s k))
  | RegSet k bd => (mkShared (upd_key (sh_reg s) k bd) (sh_sreg s) (sh_tz s) (sh_pool s) (sh_next s), RUnit)
  | SRegLookup k => (s, RSReg (sh_sreg s k))
  | SRegSet k v => (mkShared (sh_reg s) (upd_key (sh_sreg s) k v) (sh_tz s) (sh_pool s) (sh_next s), RUnit)
  | TzGet off =>
      match tz_find off (sh_tz s) with
      | Some id => (s, RTz off id)
      | None => let id := length (sh_tz s) in
                (mkShared (sh_reg s) (sh_sreg s) (sh_tz s ++ [(off, id)]) (sh_pool s) (sh_next s), RTz off id)
      end
  | PoolGet =>
      match match orc with Some i => nth_error (sh_pool s) i | None => None end with
      | Some bk => (mkShared (sh_reg s) (sh_sreg s) (sh_tz s)
                             (remove_nth (match orc with Some i => i | None => O end) (sh_pool s)) (sh_next s), RBank bk)
      | None => (mkShared (sh_reg s) (sh_sreg s) (sh_tz s) (sh_pool s) (S (sh_next s)), RBank (sh_next s))
      end
  | PoolPut bk => (mkShared (sh_reg s) (sh_sreg s) (sh_tz s) (bk :: sh_pool s) (sh_next s), RUnit)
  end.

(* ---- goroutines ------------------------------------------------------------------- *)

Definition prog := list step.

Definition fupd {A} (f : nat -> A) (i : nat) (x : A) : nat -> A :=
  fun j => if Nat.eqb j i then x else f j.

Definition of_list (l : list prog) : nat -> prog := fun i => nth i l [].

(* a schedule: which goroutine performs its next step, and the pool's choice should
   that step be a Get.  An entry naming a goroutine that has finished is skipped, so
   every list is a schedule and every interleaving is one. *)
Definition sched := list (nat * option nat).

Fixpoint run (s : shared) (ps : nat -> prog) (tr : nat -> list res) (sch : sched) {struct sch}
  : shared * (nat -> prog) * (nat -> list res) :=
  match sch with
  | [] => (s, ps, tr)
  | (i, orc) :: sch' =>
      match ps i with
      | [] => run s ps tr sch'
      | st :: rest =>
          let sr := exec s orc st in
          run (fst sr) (fupd ps i rest) (fupd tr i (tr i ++ [snd sr])) sch'
      end
  end.

(* the goroutine running alone (pool choices irrelevant to what it can tell: None) *)
Fixpoint alone (s : shared) (p : prog) {struct p} : list obs :=
  match p with
  | [] => []
  | st :: rest => let sr := exec s None st in obs_of (snd sr) :: alone (fst sr) rest
  end.

(* ---- independence ----------------------------------------------------------------- *)

Fixpoint reg_sets (p : prog) {struct p} : list rkey :=
  match p with [] => [] | RegSet k _ :: r => k :: reg_sets r | _ :: r => reg_sets r end.
Fixpoint reg_touch (p : prog) {struct p} : list rkey :=
  match p with [] => [] | (RegSet k _ | RegLookup k) :: r => k :: reg_touch r | _ :: r => reg_touch r end.
Fixpoint sreg_sets (p : prog) {struct p} : list rkey :=
  match p with [] => [] | SRegSet k _ :: r => k :: sreg_sets r | _ :: r => sreg_sets r end.
Fixpoint sreg_touch (p : prog) {struct p} : list rkey :=
  match p with [] => [] | (SRegSet k _ | SRegLookup k) :: r => k :: sreg_touch r | _ :: r => sreg_touch r end.

Definition mem_key (k : rkey) (l : list rkey) : bool := existsb (rkey_eqb k) l.

(* q registers nothing that p looks up or registers *)
Definition no_write_into (q p : prog) : bool :=
  forallb (fun k => negb (mem_key k (reg_touch p))) (reg_sets q) &&
  forallb (fun k => negb (mem_key k (sreg_touch p))) (sreg_sets q).

(* decidable independence of a list of goroutine programs: for all i <> j, goroutine j
   registers nothing that goroutine i looks up or registers *)
Definition independentb (l : list prog) : bool :=
  forallb (fun i => forallb (fun j => Nat.eqb i j || no_write_into (nth j l []) (nth i l []))
                            (seq 0 (length l)))
          (seq 0 (length l)).

(* the same for programs given as a function (goroutines beyond the list are empty) *)
Definition indep (ps : nat -> prog) (i : nat) : Prop :=
  forall j, j <> i ->
    (forall k, In k (reg_sets (ps j)) -> mem_key k (reg_touch (ps i)) = false) /\
    (forall k, In k (sreg_sets (ps j)) -> mem_key k (sreg_touch (ps i)) = false).

Definition shared0 : shared := mkShared reg_std (fun _ => None) [] [] O.
