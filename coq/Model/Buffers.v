(* The two buffers of /repo/buffer.go as an application's own codec sees them, call by call.

   WriteBuf (Varint, Byte, Write, Reset; Bytes, Len): append-only over the slice handed to
   NewWriteBuf.
   ReadBuf (Next, NextAsString, ReadByte, Varint, Reset; Len): a cursor over the data.  The
   state is the unread suffix.  What a call that fails does to the cursor is part of the
   model: Next / NextAsString with a negative or too large length and ReadByte at the end
   leave it where it was; Varint has consumed every byte it looked at (up to and including
   the first byte below 0x80, or everything).  The value Varint returns beside an error is
   not an observation. *)
Require Import Avro.Model.Base Avro.Model.Prim.
Local Open Scope list_scope.
Open Scope Z_scope.

(* ---------------- WriteBuf ---------------- *)
Inductive wb_op := WbVarint (v : Z) | WbByte (b : Z) | WbWrite (bs : bytes) | WbReset.

Definition wb_bytes (op : wb_op) : bytes :=
  match op with WbVarint v => enc_varint v | WbByte b => [b] | WbWrite bs => bs | WbReset => [] end.

Definition wb_step (buf : bytes) (op : wb_op) : bytes :=
  match op with WbReset => [] | _ => buf ++ wb_bytes op end.

Definition wb_run (buf : bytes) (ops : list wb_op) : bytes := fold_left wb_step ops buf.

(* ---------------- ReadBuf ---------------- *)
Inductive rb_op := RbNext (l : Z) | RbNextAsString (l : Z) | RbByte | RbVarint | RbReset (data : bytes).
Inductive rb_obs := OBytes (bs : bytes) | OInt (v : Z) | OByte (b : Z) | OErr | ONone.

(* how many bytes ReadBuf.uvarint looks at: through the first byte below 0x80, or all *)
Fixpoint varint_span (bs : bytes) {struct bs} : nat :=
  match bs with
  | [] => O
  | b :: r => if b <? 128 then 1%nat else S (varint_span r)
  end.

Definition rb_step (rest : bytes) (op : rb_op) : bytes * rb_obs :=
  match op with
  | RbNext l | RbNextAsString l =>
      match rd_next l rest with Done b r => (r, OBytes b) | _ => (rest, OErr) end
  | RbByte => match rest with [] => ([], OErr) | b :: r => (r, OByte b) end
  | RbVarint =>
      match dec_varint rest with
      | VOk (v, r) => (r, OInt v)
      | _ => (skipn (varint_span rest) rest, OErr)
      end
  | RbReset data => (data, ONone)
  end.

(* a history: the observation of every call and the unread length after it *)
Fixpoint rb_run (rest : bytes) (ops : list rb_op) {struct ops} : list (rb_obs * Z) :=
  match ops with
  | [] => []
  | op :: r => let (rest', o) := rb_step rest op in (o, len rest') :: rb_run rest' r
  end.
