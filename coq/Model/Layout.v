(* Memory layout of Go types on amd64 (reflect.Type.Size / Align / Field(i).Offset)
   and the width of the store each codec's Read performs at the pointer it is
   given.  "Decoding stays inside the destination" is: for every codec built
   for (schema, Go type), that width is the size of the Go type. *)
Require Import Avro.Model.Base Avro.Model.Prim Avro.Model.Schema Avro.Model.GoType Avro.Model.Codec.

Definition ikind_size (k : ikind) : Z :=
  match k with
  | I8 | U8 => 1 | I16 | U16 => 2 | I32 | U32 => 4
  | I64 | U64 | IInt | UInt | UPtr => 8
  end.

Definition wrap_size (w : wkind) : Z :=
  match w with
  | WTime => 24          (* wall uint64, ext int64, loc *Location *)
  | WNullInt => 16       (* sql.NullInt64{Int64, Valid} *)
  | WNullBool => 2
  | WNullFloat => 16
  | WNullString => 24
  | WNullTime => 32
  end.
Definition wrap_align (w : wkind) : Z := match w with WNullBool => 1 | _ => 8 end.

Definition align_up (off a : Z) : Z := (off + a - 1) / a * a.

Fixpoint alignof (t : gtype) {struct t} : Z :=
  match t with
  | TBool => 1
  | TInt k => ikind_size k
  | TFloat32 => 4
  | TFloat64 | TComplex | TString | TSlice _ | TMap _ _ | TPtr _ | TIface | TChan | TFunc | TUnsafePtr => 8
  | TArray _ e => alignof e
  | TStruct _ _ fields =>
      (fix go (l : list gfield) {struct l} : Z :=
         match l with [] => 1 | GF _ _ _ _ ft :: r => Z.max (alignof ft) (go r) end) fields
  | TWrap w => wrap_align w
  | TNamed _ u => alignof u
  | TSelf _ => 8
  end.

Fixpoint sizeof (t : gtype) {struct t} : Z :=
  match t with
  | TBool => 1
  | TInt k => ikind_size k
  | TFloat32 => 4
  | TFloat64 => 8
  | TComplex => 16
  | TString => 16
  | TSlice _ => 24
  | TArray n e => n * sizeof e
  | TMap _ _ | TPtr _ | TChan | TFunc | TUnsafePtr => 8
  | TIface => 16
  | TStruct _ _ fields =>
      (* fields at aligned offsets; total rounded up to the struct's alignment *)
      let a := (fix go (l : list gfield) {struct l} : Z :=
                  match l with [] => 1 | GF _ _ _ _ ft :: r => Z.max (alignof ft) (go r) end) fields in
      (* a non-empty struct that ends in a zero-size field gets one byte of padding, so
         that a pointer to that field never points past the object *)
      align_up
        ((fix go (l : list gfield) (off : Z) (last0 : bool) {struct l} : Z :=
            match l with
            | [] => if last0 && (0 <? off) then off + 1 else off
            | GF _ _ _ _ ft :: r => go r (align_up off (alignof ft) + sizeof ft) (sizeof ft =? 0)
            end) fields 0 false) a
  | TWrap w => wrap_size w
  | TNamed _ u => sizeof u
  | TSelf _ => 8
  end.

(* offsets of the fields of a struct *)
Fixpoint field_offsets (l : list gfield) (off : Z) {struct l} : list Z :=
  match l with
  | [] => []
  | GF _ _ _ _ ft :: r => let o := align_up off (alignof ft) in o :: field_offsets r (o + sizeof ft)
  end.

(* number of bytes the codec's Read stores at the pointer it is handed *)
Definition store_width (c : codec) : option Z :=
  match c with
  | CNull => Some 0
  | CBool _ => Some 1
  | CInt w _ => Some (w / 8)
  | CFloat _ | CF32Double _ => Some 4
  | CDouble _ => Some 8
  | CBytes _ | CArray _ _ _ => Some 24
  | CString _ => Some 16
  | CFixed n => Some n
  | CMap _ _ _ | CPtr _ _ => Some 8
  | CTimeString | CTimeLong _ | CDate => Some 24
  | CNullInt | CNullDouble | CNullFloat => Some 16
  | CNullBool => Some 2
  | CNullString => Some 24
  | CNullTime => Some 32
  | CRecord _ | CUnion _ | CUnionOne _ _ | CUnionStr _ _ | CCustom _ _ => None   (* determined by their parts *)
  end.

(* [fits c t]: every store c performs when reading into a value of Go type t
   has exactly the size of the part of t it targets *)
Fixpoint fits (c : codec) (t : gtype) {struct c} : Prop :=
  match c with
  | CNull => True
  | CRecord fs =>
      match underlying t with
      | TStruct _ _ gfs =>
          (fix go (l : list (codec * option nat)) {struct l} : Prop :=
             match l with
             | [] => True
             | (fc, Some j) :: l' =>
                 match nth_error gfs j with Some gf => fits fc (gf_type gf) | None => False end /\ go l'
             | (_, None) :: l' => go l'
             end) fs
      | _ => False
      end
  | CArray ic _ _ => match underlying t with TSlice e => fits ic e | _ => False end
  | CMap vc _ _ => match underlying t with TMap _ e => fits vc e | _ => False end
  | CPtr c' _ => match underlying t with TPtr e => fits c' e | _ => False end
  | CUnion cs => (fix go (l : list codec) {struct l} : Prop := match l with [] => True | x :: l' => fits x t /\ go l' end) cs
  | CUnionOne c' _ => fits c' t
  | CUnionStr _ _ => sizeof t = 16
  | CCustom _ c' => fits c' t
  | _ => match store_width c with Some w => sizeof t = w | None => False end
  end.
