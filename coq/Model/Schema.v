(* Spec layer, part 1: Avro schemas and datums, written from the Avro 1.8
   specification.  Also the mirror of the Go [avro.Schema] struct ([gschema])
   and the classification the Go code performs on it by string dispatch. *)
From Coq Require Import String Ascii.
Require Import Avro.Model.Base.

Definition ident := bytes.

(* byte string of a Coq string literal (for the fixed vocabulary "null", "record", ...) *)
Definition b (s : string) : bytes :=
  map (fun a => Z.of_N (N_of_ascii a)) (list_ascii_of_string s).

(* logical types the library looks at *)
Inductive long_lt := LtNone | LtMillis | LtMicros.

Inductive schema :=
| SNull | SBool
| SInt (date : bool)            (* {"type":"int","logicalType":"date"} when true *)
| SLong (lt : long_lt)
| SFloat | SDouble | SBytes | SString
| SFixed (size : Z)
| SEnum (nsyms : Z)
| SRecord (fields : list (ident * schema))
| SArray (items : schema)
| SMap (values : schema)
| SUnion (branches : list schema)
| SBad.                         (* unknown type name, or an object type without its object *)

Inductive datum :=
| DNull | DBool (v : bool) | DInt (z : Z) | DLong (z : Z)
| DFloat (bits : Z) | DDouble (bits : Z)
| DBytes (v : bytes) | DString (v : bytes) | DFixed (v : bytes)
| DEnum (i : Z)
| DRecord (fs : list datum) | DArray (ds : list datum) | DMap (kvs : list (bytes * datum))
| DUnion (branch : Z) (d : datum).

(* ---- mirror of Go's avro.Schema / avro.SchemaObject ------------------- *)
Inductive gschema :=
| GS (type : ident) (obj : option gobject) (union : list gschema)
with gobject :=
| GO (logical name namespace : ident) (fields : list (ident * gschema))
     (items values : gschema) (size : Z) (symbols : list ident).

Definition gs_prim (ty : string) : gschema := GS (b ty) None [].
Definition gs_zero : gschema := GS [] None [].

Definition is (ty : ident) (s : string) : bool := bytes_eqb ty (b s).

(* What buildCodec's [switch schema.Type] and the builders' use of schema.Object
   amount to.  A nil Object where one is needed is SBad (the builders reject it). *)
Fixpoint classify (g : gschema) {struct g} : schema :=
  match g with
  | GS ty obj un =>
    let logical := match obj with Some (GO l _ _ _ _ _ _ _) => l | None => [] end in
    if is ty "null" then SNull
    else if is ty "boolean" then SBool
    else if is ty "int" then SInt (is logical "date")
    else if is ty "long" then
      SLong (if is logical "timestamp-micros" then LtMicros
             else if is logical "timestamp-millis" then LtMillis else LtNone)
    else if is ty "float" then SFloat
    else if is ty "double" then SDouble
    else if is ty "bytes" then SBytes
    else if is ty "string" then SString
    else if is ty "union" then
      SUnion ((fix go (l : list gschema) {struct l} : list schema :=
                 match l with [] => [] | x :: r => classify x :: go r end) un)
    else match obj with
      | None => SBad
      | Some o => classify_obj ty o
      end
  end
with classify_obj (ty : ident) (o : gobject) {struct o} : schema :=
  match o with
  | GO _ _ _ fields items values size symbols =>
    if is ty "record" then
      SRecord ((fix go (l : list (ident * gschema)) {struct l} : list (ident * schema) :=
                  match l with [] => [] | (n, x) :: r => (n, classify x) :: go r end) fields)
    else if is ty "enum" then SEnum (Z.of_nat (length symbols))
    else if is ty "array" then SArray (classify items)
    else if is ty "map" then SMap (classify values)
    else if is ty "fixed" then SFixed size
    else SBad
  end.
