(* Model of /repo/schema.go: Schema.UnmarshalJSONFrom / Schema.MarshalJSONTo and the
   tag-driven decoding of SchemaObject, []Schema, []SchemaRecordField, []string that
   they delegate to github.com/go-json-experiment/json (v0.0.0-20250213060926).

   The model works on a JSON abstract syntax tree with ORDERED object members.
   The step text <-> tree (tokenizer, printer, whitespace, escapes, UTF-8 validation,
   the depth limit of 10000) belongs to the JSON library and is not modelled; the Go
   driver converts between text and this tree with the standard library
   encoding/json, which is independent of go-json-experiment.

   Behaviour of the JSON library that the model mirrors (read in its source and
   confirmed by probes on the real code):
   * member names are matched case-sensitively against the `json:"..."` names;
     members with other names are skipped (their value is still tokenised, so a
     duplicate name nested inside a skipped value is an error);
   * a duplicate member name in any object (known or unknown name) is an error;
   * every error is fatal: the first one aborts the whole Unmarshal.  The result is
     therefore [None] as soon as some member fails, whatever its position;
   * `null`: string field -> "", int field -> 0, slice field -> nil, struct element
     of a slice (a record field) -> the zero struct.  A Schema position (top level,
     items, values, a record field's type, a union branch) dispatches through
     Schema.UnmarshalJSONFrom, which rejects null (and booleans and numbers);
   * int field: the literal must be  -?digits  (no fraction, no exponent) and fit
     int64; a string such as "4" is rejected;
   * `omitempty` on a field whose type has a MarshalJSONTo method (Schema): the value
     is written and then unwritten when the text written is  null, "", {} or [] . *)
From Coq Require Import String Ascii DecimalString Permutation.
Require Import Avro.Model.Base Avro.Model.Schema.

Inductive json :=
| JNull
| JBool (v : bool)
| JNum (text : bytes) (intval : option Z)   (* literal; its value when it has the form -?digits *)
| JStr (s : bytes)                          (* unescaped contents *)
| JArr (items : list json)
| JObj (members : list (bytes * json)).     (* unescaped names, document order *)

(* ---- duplicate member names ------------------------------------------------------ *)

Definition memb (k : bytes) (l : list bytes) : bool := existsb (bytes_eqb k) l.

Fixpoint nodupb (l : list bytes) {struct l} : bool :=
  match l with
  | [] => true
  | k :: r => negb (memb k r) && nodupb r
  end.

(* what the tokenizer checks on every value it reads, skipped or not *)
Fixpoint json_nodup (j : json) {struct j} : bool :=
  match j with
  | JArr l =>
      (fix go (l : list json) {struct l} : bool :=
         match l with [] => true | x :: r => json_nodup x && go r end) l
  | JObj ms =>
      nodupb (map fst ms) &&
      (fix go (ms : list (bytes * json)) {struct ms} : bool :=
         match ms with [] => true | (_, v) :: r => json_nodup v && go r end) ms
  | _ => true
  end.

(* ---- decoders of the field kinds ----------------------------------------------- *)

Inductive kind := KStr | KSch | KFields | KInt | KSyms.

Inductive aval :=
| AStr (s : bytes) | ASch (s : gschema) | AFields (l : list (ident * gschema))
| AInt (z : Z) | ASyms (l : list ident).

(* SchemaObject: the nine `json:"..."` names and the Go type of each field *)
Definition obj_attr (k : bytes) : option kind :=
  if is k "type" then Some KStr
  else if is k "logicalType" then Some KStr
  else if is k "name" then Some KStr
  else if is k "namespace" then Some KStr
  else if is k "fields" then Some KFields
  else if is k "items" then Some KSch
  else if is k "values" then Some KSch
  else if is k "size" then Some KInt
  else if is k "symbols" then Some KSyms
  else None.

(* SchemaRecordField *)
Definition field_attr (k : bytes) : option kind :=
  if is k "name" then Some KStr
  else if is k "type" then Some KSch
  else None.

Definition dec_string (v : json) : option bytes :=
  match v with JStr s => Some s | JNull => Some [] | _ => None end.

Definition int_ok (z : Z) : bool := (- two63 <=? z) && (z <? two63).

Definition dec_int (v : json) : option Z :=
  match v with
  | JNull => Some 0
  | JNum _ (Some z) => if int_ok z then Some z else None
  | _ => None
  end.

Definition dec_list {A} (f : json -> option A) : list json -> option (list A) :=
  fix go (l : list json) {struct l} : option (list A) :=
    match l with
    | [] => Some []
    | x :: r => match f x, go r with Some a, Some l' => Some (a :: l') | _, _ => None end
    end.

(* a Go slice field: null -> nil, array -> elementwise, anything else an error *)
Definition dec_slice {A} (f : json -> option A) (v : json) : option (list A) :=
  match v with JNull => Some [] | JArr l => dec_list f l | _ => None end.

(* The struct decoder of the JSON library, generic in the field table [tbl] and in the
   decoder [dk] of each field kind.  Known members are decoded and stored under their
   name; unknown members are skipped (tokenised).  Storing into a struct field is
   modelled by recording (name, value); the struct is read off afterwards by name
   ([alookup]) - a name is stored at most once because duplicates are rejected. *)
Definition dec_struct (tbl : bytes -> option kind) (dk : kind -> json -> option aval)
  : list (bytes * json) -> option (list (bytes * aval)) :=
  fix go (ms : list (bytes * json)) {struct ms} : option (list (bytes * aval)) :=
    match ms with
    | [] => Some []
    | (k, v) :: r =>
      match tbl k with
      | None => if json_nodup v then go r else None
      | Some kd =>
        match dk kd v, go r with
        | Some a, Some l => Some ((k, a) :: l)
        | _, _ => None
        end
      end
    end.

Fixpoint alookup (k : bytes) (l : list (bytes * aval)) {struct l} : option aval :=
  match l with
  | [] => None
  | (k', a) :: r => if bytes_eqb k k' then Some a else alookup k r
  end.

(* field values, zero value of the Go type when the member was absent *)
Definition get_str (k : string) (l : list (bytes * aval)) : bytes :=
  match alookup (b k) l with Some (AStr s) => s | _ => [] end.
Definition get_sch (k : string) (l : list (bytes * aval)) : gschema :=
  match alookup (b k) l with Some (ASch s) => s | _ => gs_zero end.
Definition get_fields (k : string) (l : list (bytes * aval)) : list (ident * gschema) :=
  match alookup (b k) l with Some (AFields s) => s | _ => [] end.
Definition get_int (k : string) (l : list (bytes * aval)) : Z :=
  match alookup (b k) l with Some (AInt z) => z | _ => 0 end.
Definition get_syms (k : string) (l : list (bytes * aval)) : list ident :=
  match alookup (b k) l with Some (ASyms s) => s | _ => [] end.

(* SchemaRecordField: Name string `json:"name"`, Type Schema `json:"type"`.
   [un] is Schema.UnmarshalJSONFrom. *)
Definition dk_field (un : json -> option gschema) (kd : kind) (v : json) : option aval :=
  match kd with
  | KStr => option_map AStr (dec_string v)
  | KSch => option_map ASch (un v)
  | _ => None
  end.

Definition dec_field (un : json -> option gschema) (f : json) : option (ident * gschema) :=
  match f with
  | JNull => Some ([], gs_zero)
  | JObj ms =>
      if nodupb (map fst ms) then
        match dec_struct field_attr (dk_field un) ms with
        | Some l => Some (get_str "name" l, get_sch "type" l)
        | None => None
        end
      else None
  | _ => None
  end.

Definition dk_obj (un : json -> option gschema) (kd : kind) (v : json) : option aval :=
  match kd with
  | KStr => option_map AStr (dec_string v)
  | KSch => option_map ASch (un v)
  | KFields => option_map AFields (dec_slice (dec_field un) v)
  | KInt => option_map AInt (dec_int v)
  | KSyms => option_map ASyms (dec_slice dec_string v)
  end.

(* case '{' of UnmarshalJSONFrom: decode a SchemaObject, then
   s.Type = s.Object.Type; s.Object.Type = "" *)
Definition dec_object (un : json -> option gschema) (ms : list (bytes * json)) : option gschema :=
  if nodupb (map fst ms) then
    match dec_struct obj_attr (dk_obj un) ms with
    | Some l =>
        Some (GS (get_str "type" l)
                 (Some (GO (get_str "logicalType" l) (get_str "name" l) (get_str "namespace" l)
                           (get_fields "fields" l) (get_sch "items" l) (get_sch "values" l)
                           (get_int "size" l) (get_syms "symbols" l)))
                 [])
    | None => None
    end
  else None.

(* Schema.UnmarshalJSONFrom *)
Fixpoint unmarshal (j : json) {struct j} : option gschema :=
  match j with
  | JStr s => Some (GS s None [])
  | JArr l => option_map (fun u => GS (b "union") None u) (dec_list (fun x => unmarshal x) l)
  | JObj ms => dec_object (fun x => unmarshal x) ms
  | _ => None
  end.

(* ---- Schema.MarshalJSONTo ---------------------------------------------------------- *)

(* strconv.AppendInt(_, v, 10) *)
Definition dec_of_Z (z : Z) : bytes :=
  map (fun a => Z.of_N (N_of_ascii a)) (list_ascii_of_string (NilZero.string_of_int (Z.to_int z))).

(* the members that are written, in writing order: (name, None) is a member that is
   not emitted *)
Fixpoint present (kvs : list (bytes * option json)) {struct kvs} : list (bytes * json) :=
  match kvs with
  | [] => []
  | (k, Some v) :: r => (k, v) :: present r
  | (_, None) :: r => present r
  end.

(* if s != "" { write name; write s } *)
Definition ostr (s : bytes) : option json := match s with [] => None | _ => Some (JStr s) end.

(* what UnwriteEmptyObjectMember removes *)
Definition json_empty (j : json) : bool :=
  match j with JNull => true | JStr [] => true | JArr [] => true | JObj [] => true | _ => false end.

(* SchemaRecordField marshalled by the library: both members `omitempty`;
   [mt] is the marshalled field type *)
Definition marshal_field (n : ident) (mt : json) : json :=
  JObj (present [(b "name", ostr n); (b "type", if json_empty mt then None else Some mt)]).

Fixpoint marshal (s : gschema) {struct s} : json :=
  match s with
  | GS ty (Some o) _ => JObj (present (marshal_obj ty o))
  | GS ty None [] => JStr ty
  | GS ty None un =>
      JArr ((fix go (l : list gschema) {struct l} : list json :=
               match l with [] => [] | x :: r => marshal x :: go r end) un)
  end
with marshal_obj (ty : ident) (o : gobject) {struct o} : list (bytes * option json) :=
  match o with
  | GO lt name ns fields items values size syms =>
    [ (b "type", Some (JStr ty));
      (b "logicalType", ostr lt);
      (b "name", ostr name);
      (b "namespace", ostr ns);
      (* switch s.Type: exactly one of the following five can be emitted *)
      (b "fields",
       if is ty "record"
       then Some (JArr ((fix go (l : list (ident * gschema)) {struct l} : list json :=
                           match l with [] => [] | (n, t) :: r => marshal_field n (marshal t) :: go r end) fields))
       else None);
      (b "symbols", if is ty "enum" then Some (JArr (map JStr syms)) else None);
      (b "items", if is ty "array" then Some (marshal items) else None);
      (b "values", if is ty "map" then Some (marshal values) else None);
      (b "size", if is ty "fixed" then Some (JNum (dec_of_Z size) (Some size)) else None) ]
  end.

(* ---- the text layer's demands on a tree (jsontext.Encoder): strings must be valid
   UTF-8.  Marshal fails when the tree it would write violates this. ------------------ *)

(* RFC 3629 well-formed byte sequences (what utf8.Valid accepts) *)
Fixpoint utf8_valid (fuel : nat) (s : bytes) {struct fuel} : bool :=
  match fuel with
  | O => match s with [] => true | _ => false end
  | S f =>
    let cont c := (128 <=? c) && (c <=? 191) in
    match s with
    | [] => true
    | c0 :: r =>
      if c0 <? 128 then utf8_valid f r
      else if (194 <=? c0) && (c0 <=? 223) then
        match r with c1 :: r' => cont c1 && utf8_valid f r' | _ => false end
      else if (224 <=? c0) && (c0 <=? 239) then
        match r with
        | c1 :: c2 :: r' =>
            (if c0 =? 224 then (160 <=? c1) && (c1 <=? 191)
             else if c0 =? 237 then (128 <=? c1) && (c1 <=? 159) else cont c1)
            && cont c2 && utf8_valid f r'
        | _ => false
        end
      else if (240 <=? c0) && (c0 <=? 244) then
        match r with
        | c1 :: c2 :: c3 :: r' =>
            (if c0 =? 240 then (144 <=? c1) && (c1 <=? 191)
             else if c0 =? 244 then (128 <=? c1) && (c1 <=? 143) else cont c1)
            && cont c2 && cont c3 && utf8_valid f r'
        | _ => false
        end
      else false
    end
  end.
Definition utf8_ok (s : bytes) : bool := utf8_valid (length s) s.

Fixpoint json_text_ok (j : json) {struct j} : bool :=
  match j with
  | JStr s => utf8_ok s
  | JArr l =>
      (fix go (l : list json) {struct l} : bool :=
         match l with [] => true | x :: r => json_text_ok x && go r end) l
  | JObj ms =>
      (fix go (ms : list (bytes * json)) {struct ms} : bool :=
         match ms with [] => true | (k, v) :: r => utf8_ok k && json_text_ok v && go r end) ms
  | _ => true
  end.

(* Schema.Marshal as the caller sees it *)
Definition marshal_impl (s : gschema) : option json :=
  let j := marshal s in if json_text_ok j then Some j else None.

(* ---- well-formed schema values, the meaning-preserving projection, normal form ---- *)

Definition gs_is_zero (s : gschema) : bool :=
  match s with GS [] None [] => true | _ => false end.

Definition is_nil {A} (l : list A) : bool := match l with [] => true | _ => false end.

(* [gs_wf]: the schema values the round trip is claimed for.
   - Object == nil and Union non-empty: Type must be "union" (a value with Type "int"
     and branches is written as an array and comes back with Type "union");
   - Object != nil: Union must be empty (MarshalJSONTo never writes the branches of a
     value that has an Object);
   - the sub-schemas that belong to the node's type are well formed;
   - Size of a fixed is a Go int (64 bit). *)
Fixpoint gs_wf (s : gschema) {struct s} : bool :=
  match s with
  | GS ty None [] => true
  | GS ty None un =>
      is ty "union" &&
      (fix go (l : list gschema) {struct l} : bool :=
         match l with [] => true | x :: r => gs_wf x && go r end) un
  | GS ty (Some o) un => is_nil un && go_wf ty o
  end
with go_wf (ty : ident) (o : gobject) {struct o} : bool :=
  match o with
  | GO _ _ _ fields items values size _ =>
    (if is ty "record"
     then (fix go (l : list (ident * gschema)) {struct l} : bool :=
             match l with [] => true | (_, t) :: r => gs_wf t && go r end) fields
     else true) &&
    (if is ty "array" then gs_wf items else true) &&
    (if is ty "map" then gs_wf values else true) &&
    (if is ty "fixed" then int_ok size else true)
  end.

Definition wf_gschema (s : gschema) : Prop := gs_wf s = true.

(* [gs_meaning]: keeps Type, Union and, of the Object, logicalType/name/namespace plus
   the attribute that belongs to Type (fields of a record, symbols of an enum, items of
   an array, values of a map, size of a fixed); every other attribute is reset to its
   zero value.  Two schemas are equivalent when they agree after this projection. *)
Fixpoint gs_meaning (s : gschema) {struct s} : gschema :=
  match s with
  | GS ty None un =>
      GS ty None ((fix go (l : list gschema) {struct l} : list gschema :=
                     match l with [] => [] | x :: r => gs_meaning x :: go r end) un)
  | GS ty (Some o) un => GS ty (Some (go_meaning ty o)) un
  end
with go_meaning (ty : ident) (o : gobject) {struct o} : gobject :=
  match o with
  | GO lt name ns fields items values size syms =>
    GO lt name ns
       (if is ty "record"
        then (fix go (l : list (ident * gschema)) {struct l} : list (ident * gschema) :=
                match l with [] => [] | (n, t) :: r => (n, gs_meaning t) :: go r end) fields
        else [])
       (if is ty "array" then gs_meaning items else gs_zero)
       (if is ty "map" then gs_meaning values else gs_zero)
       (if is ty "fixed" then size else 0)
       (if is ty "enum" then syms else [])
  end.

Definition gschema_equiv (s s' : gschema) : Prop := gs_meaning s = gs_meaning s'.

(* [gs_normal]: well formed and carrying no attribute outside the node's type;
   these are the values that come back from a round trip exactly. *)
Fixpoint gs_normal (s : gschema) {struct s} : bool :=
  match s with
  | GS ty None [] => true
  | GS ty None un =>
      is ty "union" &&
      (fix go (l : list gschema) {struct l} : bool :=
         match l with [] => true | x :: r => gs_normal x && go r end) un
  | GS ty (Some o) un => is_nil un && go_normal ty o
  end
with go_normal (ty : ident) (o : gobject) {struct o} : bool :=
  match o with
  | GO _ _ _ fields items values size syms =>
    (if is ty "record"
     then (fix go (l : list (ident * gschema)) {struct l} : bool :=
             match l with [] => true | (_, t) :: r => gs_normal t && go r end) fields
     else is_nil fields) &&
    (if is ty "array" then gs_normal items else gs_is_zero items) &&
    (if is ty "map" then gs_normal values else gs_is_zero values) &&
    (if is ty "fixed" then int_ok size else size =? 0) &&
    (if is ty "enum" then true else is_nil syms)
  end.

(* ---- documents: equal up to member order, at every depth ------------------------- *)

(* [json_perm j j']: j' is j with the members of any of its objects, at any depth,
   listed in a different order (values related recursively, then permuted). *)
Inductive json_perm : json -> json -> Prop :=
| JP_null : json_perm JNull JNull
| JP_bool v : json_perm (JBool v) (JBool v)
| JP_num t i : json_perm (JNum t i) (JNum t i)
| JP_str s : json_perm (JStr s) (JStr s)
| JP_arr l l' : Forall2 json_perm l l' -> json_perm (JArr l) (JArr l')
| JP_obj ms ms1 ms' :
    Forall2 (fun a c => fst a = fst c /\ json_perm (snd a) (snd c)) ms ms1 ->
    Permutation ms1 ms' ->
    json_perm (JObj ms) (JObj ms').

(* ---- documents with the unknown members removed ---------------------------------- *)

(* [strip j]: j without the members the library does not know: in a schema object every
   member whose name is not one of the nine attributes, in a record field every
   member other than name and type; recursively in fields, items, values, the field
   types and union branches. *)
Definition strip_members (tbl : bytes -> option kind) (sv : kind -> json -> json)
  : list (bytes * json) -> list (bytes * json) :=
  fix go (ms : list (bytes * json)) {struct ms} : list (bytes * json) :=
    match ms with
    | [] => []
    | (k, v) :: r =>
      match tbl k with
      | None => go r
      | Some kd => (k, sv kd v) :: go r
      end
    end.

Definition strip_field (st : json -> json) (f : json) : json :=
  match f with
  | JObj ms => JObj (strip_members field_attr (fun kd v => match kd with KSch => st v | _ => v end) ms)
  | _ => f
  end.

Definition strip_val (st : json -> json) (kd : kind) (v : json) : json :=
  match kd with
  | KSch => st v
  | KFields => match v with JArr fs => JArr (map (strip_field st) fs) | _ => v end
  | _ => v
  end.

Fixpoint strip (j : json) {struct j} : json :=
  match j with
  | JArr l => JArr (map (fun x => strip x) l)
  | JObj ms => JObj (strip_members obj_attr (strip_val (fun x => strip x)) ms)
  | _ => j
  end.

(* member lookup by name (first occurrence) *)
Fixpoint jlookup (k : bytes) (ms : list (bytes * json)) {struct ms} : option json :=
  match ms with
  | [] => None
  | (k', v) :: r => if bytes_eqb k k' then Some v else jlookup k r
  end.
