(* Go types and Go values as the library sees them through reflect, and the
   struct-tag functions of /repo/build.go (nameForField, omitEmpty). *)
From Coq Require Import String.
Require Import Avro.Model.Base Avro.Model.Schema.

Inductive ikind := I8 | I16 | I32 | I64 | IInt | U8 | U16 | U32 | U64 | UInt | UPtr.

(* the registered wrapper types of /repo/time and /repo/null *)
Inductive wkind := WTime | WNullInt | WNullBool | WNullFloat | WNullString | WNullTime.

Inductive gtype :=
| TBool | TInt (k : ikind) | TFloat32 | TFloat64 | TComplex | TString
| TSlice (e : gtype) | TArray (n : Z) (e : gtype) | TMap (k e : gtype) | TPtr (e : gtype)
| TStruct (name pkg : ident) (fields : list gfield)
| TWrap (w : wkind)                  (* time.Time, null.Int, ... *)
| TNamed (id : Z) (u : gtype)        (* a defined type with its own identity (registry key) *)
| TSelf (k : nat)                    (* back-reference to the k-th enclosing struct *)
| TIface | TChan | TFunc | TUnsafePtr
with gfield :=
| GF (name : ident) (exported : bool) (json bq : bytes) (t : gtype).
   (* json, bq: the values of Tag.Get("json"), Tag.Get("bq") *)

Definition gf_type (f : gfield) : gtype := match f with GF _ _ _ _ t => t end.

(* instants: seconds and nanoseconds since the Unix epoch, zone offset in seconds *)
Inductive timeval := TV (unix_s ns off : Z).
Definition time_zero : timeval := TV (-62135596800) 0 0.     (* time.Time{}: 0001-01-01T00:00:00Z *)
Definition time_is_zero (t : timeval) : bool :=
  match t with TV s n _ => (s =? -62135596800) && (n =? 0) end.

Inductive gval :=
| VBool (v : bool) | VInt (z : Z) | VF32 (bits : Z) | VF64 (bits : Z)
| VStr (s : bytes) | VBytes (v : bytes)          (* nil and empty identified *)
| VFixed (v : bytes)
| VSlice (vs : list gval)                        (* nil and empty identified *)
| VMapNil                                        (* the nil map *)
| VMap (kvs : list (bytes * gval))               (* non-nil map, insertion / iteration order *)
| VPtr (v : option gval)
| VStruct (fs : list gval)
| VTime (t : timeval)
| VNullW (valid : bool) (payload : gval)         (* null.X{X: payload, Valid: valid} *)
| VBad.                                          (* value of a type outside the model *)

(* strings.Cut(s, ",") *)
Fixpoint cut_comma (s : bytes) {struct s} : bytes * bytes :=
  match s with
  | [] => ([], [])
  | c :: r => if c =? 44 then ([], r) else let (a, z) := cut_comma r in (c :: a, z)
  end.

Definition dash : bytes := [45].

(* nameForField; "-" means excluded *)
Definition name_for_field (f : gfield) : ident :=
  match f with
  | GF name exported json bq _ =>
    if negb exported then dash
    else if bytes_eqb bq dash then dash
    else let n := fst (cut_comma json) in
         if bytes_eqb n dash then dash
         else match n with [] => name | _ => n end
  end.

(* omitEmpty: some comma-separated option after the name equals "omitempty" *)
Fixpoint has_opt (fuel : nat) (opts : bytes) {struct fuel} : bool :=
  match fuel with
  | O => false
  | S f =>
    match opts with
    | [] => false
    | _ => let (o, rest) := cut_comma opts in
           if bytes_eqb o (b "omitempty") then true else has_opt f rest
    end
  end.
Definition omit_empty (f : gfield) : bool :=
  match f with GF _ _ json _ _ => let opts := snd (cut_comma json) in has_opt (S (length opts)) opts end.

(* zero value of a type *)
Definition zero_wrap (w : wkind) : gval :=
  match w with
  | WTime => VTime time_zero
  | WNullInt => VNullW false (VInt 0)
  | WNullBool => VNullW false (VBool false)
  | WNullFloat => VNullW false (VF64 0)
  | WNullString => VNullW false (VStr [])
  | WNullTime => VNullW false (VTime time_zero)
  end.

(* underlying type, for reflect.Kind dispatch *)
Fixpoint underlying (t : gtype) {struct t} : gtype :=
  match t with TNamed _ u => underlying u | _ => t end.

(* element kind uint8: []T is a byte slice, [n]T a byte array *)
Definition is_u8 (t : gtype) : bool := match underlying t with TInt U8 => true | _ => false end.

Fixpoint zero_of (t : gtype) {struct t} : gval :=
  match t with
  | TBool => VBool false
  | TInt _ => VInt 0
  | TFloat32 => VF32 0
  | TFloat64 => VF64 0
  | TString => VStr []
  | TSlice e => if is_u8 e then VBytes [] else VSlice []
  | TArray n e => if is_u8 e then VFixed (repeat 0 (Z.to_nat n)) else VBad
  | TMap _ _ => VMapNil
  | TPtr _ => VPtr None
  | TStruct _ _ fields =>
      VStruct ((fix go (l : list gfield) {struct l} : list gval :=
                  match l with [] => [] | GF _ _ _ _ ft :: r => zero_of ft :: go r end) fields)
  | TWrap w => zero_wrap w
  | TNamed _ u => zero_of u
  | _ => VBad
  end.

(* pointer peeling: number of leading pointers and the pointee *)
Fixpoint peel (t : gtype) {struct t} : nat * gtype :=
  match t with
  | TPtr e => let (k, t0) := peel e in (S k, t0)
  | _ => (O, t)
  end.

Fixpoint list_update {A} (l : list A) (i : nat) (x : A) {struct l} : list A :=
  match l, i with
  | [], _ => []
  | _ :: r, O => x :: r
  | a :: r, S j => a :: list_update r j x
  end.
