(* Implementation model: the codec tree built by /repo/build.go and the
   Read / Skip / Write / Omit methods of every codec struct of the library
   (/repo/*.go, /repo/time/time.go, /repo/null/null.go). *)
Require Import Avro.Model.Base Avro.Model.Prim Avro.Model.Schema Avro.Model.GoType
               Avro.Model.Blocks Avro.Model.Time.

(* ---- registry of custom codec builders (avro.Register) ---- *)
Inductive builder := BWrap (w : wkind) | BCustom (k : Z).
Inductive rkey := RWrap (w : wkind) | RNamed (id : Z).   (* reflect.Type identity of a registrable type *)
Definition registry := rkey -> option builder.

Definition wrap_id (w : wkind) : Z :=
  match w with WTime => 1 | WNullInt => 2 | WNullBool => 3 | WNullFloat => 4 | WNullString => 5 | WNullTime => 6 end.

(* time.RegisterCodecs + null.RegisterCodecs *)
Definition reg_std : registry := fun k => match k with RWrap w => Some (BWrap w) | RNamed _ => None end.

Definition reg_set (reg : registry) (id : Z) (bd : builder) : registry :=
  fun k => match k with RNamed i => if i =? id then Some bd else reg k | _ => reg k end.

Definition reg_lookup (reg : registry) (t : gtype) : option builder :=
  match t with TWrap w => reg (RWrap w) | TNamed id _ => reg (RNamed id) | _ => None end.

(* ---- codec tree ---- *)
Inductive codec :=
| CNull
| CBool (om : bool) | CInt (w : Z) (om : bool)
| CFloat (om : bool) | CDouble (om : bool) | CF32Double (om : bool)
| CBytes (om : bool) | CString (om : bool) | CFixed (n : Z)
| CRecord (fs : list (codec * option nat))      (* field codec, index of the struct field or skip *)
| CArray (item : codec) (izero : gval) (om : bool)
| CMap (val : codec) (vzero : gval) (om : bool)
| CPtr (c : codec) (pzero : gval)
| CUnion (cs : list codec)
| CUnionOne (c : codec) (nonNull : Z)
| CUnionStr (om : bool) (nonNull : Z)
| CTimeString | CTimeLong (mult : Z) | CDate
| CNullInt | CNullBool | CNullDouble | CNullFloat | CNullString | CNullTime
| CCustom (k : Z) (c : codec).

(* ---- kinds ---- *)

Definition find_field (name : ident) (fields : list gfield) : option (nat * gfield) :=
  (fix go (l : list gfield) (i : nat) (found : option (nat * gfield)) {struct l} :=
     match l with
     | [] => found
     | f :: r =>
       let n := name_for_field f in
       if negb (bytes_eqb n dash) && bytes_eqb n name then go r (S i) (Some (i, f)) else go r (S i) found
     end) fields O None.

Fixpoint wrap_ptrs (k : nat) (c : codec) (z : gval) {struct k} : codec :=
  match k with
  | O => c
  | S k' => wrap_ptrs k' (CPtr c z) (VPtr None)
  end.

Definition apply_builder (bd : builder) (s : schema) (inner : option codec) : option codec :=
  match bd with
  | BWrap WTime =>
    match s with
    | SString => Some CTimeString
    | SLong lt => Some (CTimeLong (match lt with LtNone => 1 | LtMicros => 1000 | LtMillis => 1000000 end))
    | SInt true => Some CDate
    | _ => None
    end
  | BWrap WNullInt => match s with SLong _ | SInt _ => Some CNullInt | _ => None end
  | BWrap WNullBool => match s with SBool => Some CNullBool | _ => None end
  | BWrap WNullFloat => match s with SDouble => Some CNullDouble | SFloat => Some CNullFloat | _ => None end
  | BWrap WNullString => match s with SString => Some CNullString | _ => None end
  | BWrap WNullTime => match s with SString => Some CNullTime | _ => None end
  | BCustom k => match inner with Some c => Some (CCustom k c) | None => None end
  end.

(* the builders for primitive schema types (no recursion) *)
Definition build_prim (s : schema) (u : option gtype) (om : bool) : option codec :=
  match s with
  | SNull => Some CNull
  | SBool => match u with None | Some TBool => Some (CBool om) | _ => None end
  | SInt _ | SLong _ =>
    match u with
    | None | Some (TInt I64) | Some (TInt IInt) => Some (CInt 64 om)
    | Some (TInt I32) => Some (CInt 32 om)
    | Some (TInt I16) => Some (CInt 16 om)
    | _ => None
    end
  | SFloat => match u with None | Some TFloat32 => Some (CFloat om) | _ => None end
  | SDouble =>
    match u with
    | None | Some TFloat64 => Some (CDouble om)
    | Some TFloat32 => Some (CF32Double om)
    | _ => None
    end
  | SBytes => match u with
              | None => Some (CBytes om)
              | Some (TSlice e) => if is_u8 e then Some (CBytes om) else None
              | _ => None end
  | SString => match u with None | Some TString => Some (CString om) | _ => None end
  | SFixed n =>
    if n <? 0 then None
    else match u with
         | None => Some (CFixed n)
         | Some (TArray m e) => if is_u8 e && (m =? n) then Some (CFixed n) else None
         | _ => None end
  | _ => None
  end.

Definition struct_fields (u : option gtype) : option (list gfield) :=
  match u with Some (TStruct _ _ gfs) => Some gfs | _ => None end.

(* record fields: the schema is in the driving seat *)
Definition build_fields (bld : schema -> option gtype -> bool -> option codec)
           (gfields : option (list gfield)) : list (ident * schema) -> option (list (codec * option nat)) :=
  fix go (l : list (ident * schema)) {struct l} : option (list (codec * option nat)) :=
  match l with
  | [] => Some []
  | (name, fs) :: l' =>
    let hit := match gfields with Some gfs => find_field name gfs | None => None end in
    let fc := match hit with
              | Some (_, gf) => bld fs (Some (gf_type gf)) (omit_empty gf)
              | None => bld fs None false
              end in
    match fc, go l' with
    | Some c, Some r => Some ((c, option_map fst hit) :: r)
    | _, _ => None
    end
  end.

Definition build_list (bld : schema -> option codec) : list schema -> option (list codec) :=
  fix go (l : list schema) {struct l} : option (list codec) :=
  match l with
  | [] => Some []
  | x :: l' => match bld x, go l' with
               | Some c, Some r => Some (c :: r)
               | _, _ => None end
  end.

(* dispatch on the schema type for a pointer-free, unregistered Go type t0 *)
Definition disp (bld : schema -> option gtype -> bool -> option codec)
           (s : schema) (t0 : option gtype) (om : bool) : option codec :=
  let u := option_map underlying t0 in
  match s with
  | SArray it =>
    match u with
    | None => option_map (fun ic => CArray ic VBad om) (bld it None false)
    | Some (TSlice e) => option_map (fun ic => CArray ic (zero_of e) om) (bld it (Some e) false)
    | _ => None
    end
  | SMap vs =>
    match u with
    | None => option_map (fun vc => CMap vc VBad om) (bld vs None false)
    | Some (TMap k e) =>
      match underlying k with
      | TString => option_map (fun vc => CMap vc (zero_of e) om) (bld vs (Some e) false)
      | _ => None
      end
    | _ => None
    end
  | SRecord fields =>
    match u, struct_fields u with
    | Some _, None => None                      (* type for a record must be struct *)
    | _, gfields => option_map CRecord (build_fields bld gfields fields)
    end
  | SUnion _ | SEnum _ | SBad => None
  | _ => build_prim s u om
  end.

Definition union_one (u : option codec) (nn : Z) : option codec :=
  match u with
  | Some (CString om') => Some (CUnionStr om' nn)
  | Some c => Some (CUnionOne c nn)
  | None => None
  end.

(* registry lookup, then dispatch *)
Definition build_base (reg : registry) (bld : schema -> option gtype -> bool -> option codec)
           (s : schema) (t0 : gtype) (om : bool) : option codec :=
  match reg_lookup reg t0 with
  | Some bd => apply_builder bd s (match bd with BCustom _ => disp bld s (Some t0) om | _ => None end)
  | None => disp bld s (Some t0) om
  end.

(* buildCodec.  [t = None] is typ == nil: a codec that only needs to skip. *)
Fixpoint build (reg : registry) (s : schema) (t : option gtype) (om : bool) {struct s} : option codec :=
  match s with
  | SNull => Some CNull
  | SUnion branches =>
    match branches with
    | [SNull; x] => union_one (build reg x t om) 1
    | [x; SNull] => union_one (build reg x t om) 0
    | _ => option_map CUnion (build_list (fun x => build reg x t om) branches)
    end
  | _ =>
    match t with
    | None => disp (fun s' t' om' => build reg s' t' om') s None om
    | Some ty =>
      let (k, t0) := peel ty in
      match k with
      | O => build_base reg (fun s' t' om' => build reg s' t' om') s t0 om
      | S _ => option_map (fun c => wrap_ptrs k c (zero_of t0)) (build_base reg (fun s' t' om' => build reg s' t' om') s t0 false)
      end
    end
  end.

(* ---- New returning nil ---- *)
Fixpoint new_nil (c : codec) {struct c} : bool :=
  match c with
  | CNull => true
  | CUnion cs => (fix go (l : list codec) {struct l} : bool :=
                    match l with [] => true | x :: l' => new_nil x && go l' end) cs
  | CUnionOne c' _ => new_nil c'
  | CCustom _ c' => new_nil c'
  | _ => false
  end.

(* ---- Skip ---- *)
Fixpoint c_skip (fuel : nat) (c : codec) (bs : bytes) {struct c} : out unit :=
  match c with
  | CNull => Done tt bs
  | CBool _ | CNullBool => rd_skipn 1 bs
  | CInt _ _ | CTimeLong _ | CDate | CNullInt => int_skip bs
  | CFloat _ | CNullFloat => rd_skipn 4 bs
  | CDouble _ | CF32Double _ | CNullDouble => rd_skipn 8 bs
  | CBytes _ | CString _ | CTimeString | CNullString | CNullTime => string_skip bs
  | CFixed n => rd_skipn n bs
  | CRecord fs =>
      (fix go (l : list (codec * option nat)) (bs : bytes) {struct l} : out unit :=
         match l with
         | [] => Done tt bs
         | (fc, _) :: l' => obind (c_skip fuel fc bs) (fun _ r => go l' r)
         end) fs bs
  | CArray ic _ _ => skip_blocks (c_skip fuel ic) fuel bs
  | CMap vc _ _ => skip_blocks (fun b0 => obind (string_skip b0) (fun _ r => c_skip fuel vc r)) fuel bs
  | CPtr c' _ => c_skip fuel c' bs
  | CUnion cs =>
      obind (rd_varint bs) (fun idx r =>
        if (idx <? 0) || (Z.of_nat (length cs) <=? idx) then Err
        else (fix pick (l : list codec) (i : nat) {struct l} : out unit :=
                match l, i with
                | [], _ => Err
                | x :: _, O => c_skip fuel x r
                | _ :: l', S j => pick l' j
                end) cs (Z.to_nat idx))
  | CUnionOne c' nn =>
      obind (rd_byte bs) (fun sel r =>
        let idx := sel / 2 in
        if 2 <=? idx then Err else if idx =? nn then c_skip fuel c' r else Done tt r)
  | CUnionStr _ nn =>
      obind (rd_byte bs) (fun sel r =>
        let idx := sel / 2 in
        if 2 <=? idx then Err else if idx =? nn then string_skip r else Done tt r)
  | CCustom k c' => c_skip fuel c' bs
  end.

(* ---- user-defined custom codecs (C20) ----
   A custom codec registered by the harness keeps the wire format of the
   underlying codec and applies an involutive transformation to the value, so
   that its use is observable: integers are xor-ed with k, strings reversed. *)
Definition cx (k : Z) (v : gval) : gval :=
  match v with
  | VInt z => VInt (Z.lxor z k)
  | VStr x => VStr (rev x)
  | _ => v
  end.

(* ---- Read (destination passing) ---- *)
Definition wrap64 (x : Z) : Z := (x + two63) mod two64 - two63.
Definition time_of_ns (ns : Z) : timeval := TV (ns / 1000000000) (ns mod 1000000000) 0.
(* LongCodec.Read: time.UnixMicro / time.UnixMilli for the two timestamp units
   (no overflow for any int64), time.Unix(0, l*mult) otherwise (wraps) *)
Definition time_of_units (mult l : Z) : timeval :=
  if mult =? 1000 then TV (l / 1000000) (l mod 1000000 * 1000) 0
  else if mult =? 1000000 then TV (l / 1000) (l mod 1000 * 1000000) 0
  else time_of_ns (wrap64 (l * mult)).

Definition time_string_read (dest : gval) (bs : bytes) : out gval :=
  obind (rd_varint bs) (fun l r =>
    if l =? 0 then Done dest r
    else obind (rd_next l r) (fun data r' =>
           match parse_time data with
           | POk t => Done (VTime t) r'
           | PErr => Err
           | PPanic => Panic
           end)).

Definition null_payload (dest : gval) : gval := match dest with VNullW _ p => p | _ => VBad end.

Fixpoint c_read (fuel : nat) (c : codec) (dest : gval) (bs : bytes) {struct c} : out gval :=
  match c with
  | CNull => Done dest bs
  | CBool _ => obind (bool_read bs) (fun v r => Done (VBool v) r)
  | CInt w _ => obind (int_read w bs) (fun v r => Done (VInt v) r)
  | CFloat _ => obind (float_read 4 bs) (fun v r => Done (VF32 v) r)
  | CDouble _ => obind (float_read 8 bs) (fun v r => Done (VF64 v) r)
  | CF32Double _ => obind (f32d_read bs) (fun v r => Done (VF32 v) r)
  | CBytes _ => obind (bytes_read bs) (fun o r => Done (match o with Some v => VBytes v | None => dest end) r)
  | CString _ => obind (string_read bs) (fun v r => Done (VStr v) r)
  | CFixed n => obind (fixed_read n bs) (fun v r => Done (VFixed v) r)
  | CRecord fs =>
      match dest with
      | VStruct vs0 =>
        obind ((fix go (l : list (codec * option nat)) (vs : list gval) (bs : bytes) {struct l} : out (list gval) :=
                  match l with
                  | [] => Done vs bs
                  | (fc, None) :: l' => obind (c_skip fuel fc bs) (fun _ r => go l' vs r)
                  | (fc, Some j) :: l' =>
                      obind (c_read fuel fc (nth j vs VBad) bs) (fun v r => go l' (list_update vs j v) r)
                  end) fs vs0 bs)
              (fun vs r => Done (VStruct vs) r)
      | _ => Panic
      end
  | CArray ic iz _ =>
      match dest with
      | VSlice acc0 =>
        obind (blocks false (fun acc b0 => obind (c_read fuel ic iz b0) (fun v r => Done (acc ++ [v]) r)) fuel acc0 bs)
              (fun vs r => Done (VSlice vs) r)
      | VBytes acc0 =>
        (* an array schema read into a []byte field: the items are the bytes *)
        obind (blocks false (fun acc b0 => obind (c_read fuel ic iz b0)
                                             (fun v r => Done (acc ++ [match v with VInt z => z | _ => 0 end]) r)) fuel acc0 bs)
              (fun vs r => Done (VBytes vs) r)
      | _ => Panic
      end
  | CMap vc vz _ =>
      (* values are decoded into valueCodec.New(), or a zero value when that is nil *)
      let go (kvs0 : list (bytes * gval)) :=
        obind (blocks false (fun acc b0 =>
                 obind (string_read b0) (fun k r =>
                   obind (c_read fuel vc vz r) (fun v r' => Done (acc ++ [(k, v)]) r'))) fuel kvs0 bs)
              (fun kvs r => Done (VMap kvs) r) in
      match dest with
      | VMap kvs0 => go kvs0
      | VMapNil => go []             (* a nil map is created first *)
      | _ => Panic
      end
  | CPtr c' z =>
      match dest with
      | VPtr o => obind (c_read fuel c' (match o with Some d => d | None => z end) bs)
                        (fun v r => Done (VPtr (Some v)) r)
      | _ => Panic
      end
  | CUnion cs =>
      obind (rd_varint bs) (fun idx r =>
        if (idx <? 0) || (Z.of_nat (length cs) <=? idx) then Err
        else (fix pick (l : list codec) (i : nat) {struct l} : out gval :=
                match l, i with
                | [], _ => Err
                | x :: _, O => c_read fuel x dest r
                | _ :: l', S j => pick l' j
                end) cs (Z.to_nat idx))
  | CUnionOne c' nn =>
      obind (rd_byte bs) (fun sel r =>
        let idx := sel / 2 in
        if 2 <=? idx then Err else if idx =? nn then c_read fuel c' dest r else Done dest r)
  | CUnionStr _ nn =>
      obind (rd_byte bs) (fun sel r =>
        let idx := sel / 2 in
        if 2 <=? idx then Err
        else if idx =? nn then obind (string_read r) (fun v r' => Done (VStr v) r')
        else Done dest r)
  | CTimeString => time_string_read dest bs
  | CTimeLong mult => obind (int_read 64 bs) (fun l r => Done (VTime (time_of_units mult l)) r)
  | CDate => obind (int_read 32 bs) (fun l r => Done (VTime (TV (86400 * l) 0 0)) r)
  | CNullInt => obind (int_read 64 bs) (fun v r => Done (VNullW true (VInt v)) r)
  | CNullBool => obind (bool_read bs) (fun v r => Done (VNullW true (VBool v)) r)
  | CNullDouble => obind (float_read 8 bs) (fun v r => Done (VNullW true (VF64 v)) r)
  | CNullFloat => obind (float_read 4 bs) (fun v r => Done (VNullW true (VF64 (widen32 v))) r)
  | CNullString => obind (string_read bs) (fun v r => Done (VNullW true (VStr v)) r)
  | CNullTime => obind (time_string_read (null_payload dest) bs) (fun v r => Done (VNullW true v) r)
  | CCustom k c' => obind (c_read fuel c' dest bs) (fun v r => Done (cx k v) r)
  end.

(* ---- Omit ---- *)
Definition f32_is_zero (bits : Z) : bool := (bits =? 0) || (bits =? 2147483648).
Definition f64_is_zero (bits : Z) : bool := (bits =? 0) || (bits =? 9223372036854775808).

Fixpoint c_omit (c : codec) (v : gval) {struct c} : bool :=
  match c, v with
  | CNull, _ => true
  | CBool om, VBool x => om && negb x
  | CInt _ om, VInt z => om && (z =? 0)
  | CFloat om, VF32 x => om && f32_is_zero x
  | CDouble om, VF64 x => om && f64_is_zero x
  | CF32Double om, VF32 x => om && f32_is_zero x
  | CBytes om, VBytes x => om && match x with [] => true | _ => false end
  | CString om, VStr x => om && match x with [] => true | _ => false end
  | CArray _ _ om, VSlice x => om && match x with [] => true | _ => false end
  | CMap _ _ om, VMap _ => false            (* a non-nil map is never omitted, even when empty *)
  | CMap _ _ om, VMapNil => om
  | CPtr _ _, VPtr None => true
  | (CTimeString | CTimeLong _ | CDate), VTime t => time_is_zero t
  | (CNullInt | CNullBool | CNullDouble | CNullFloat | CNullString | CNullTime), VNullW valid _ => negb valid
  | CCustom _ c', _ => c_omit c' v
  | _, _ => false
  end.

(* ---- Write.  None = the Go code panics or reads outside the value ---- *)
Fixpoint opt_concat (l : list (option bytes)) {struct l} : option bytes :=
  match l with
  | [] => Some []
  | Some x :: r => option_map (app x) (opt_concat r)
  | None :: _ => None
  end.

Definition to_int32 (x : Z) : Z := (x + 2147483648) mod 4294967296 - 2147483648.

Definition time_long_value (mult : Z) (t : timeval) : Z :=
  match t with
  | TV s n _ =>
    if mult =? 1000 then wrap64 (s * 1000000 + n / 1000)
    else if mult =? 1000000 then wrap64 (s * 1000 + n / 1000000)
    else wrap64 (s * 1000000000 + n)
  end.

(* the codec serves an array or map schema: what buildPointerCodec asks of the
   schema, read off the codec (CArray/CMap are built for those schemas only;
   pointers and registered codecs stand for the schema of what they wrap) *)
Fixpoint coll (c : codec) {struct c} : bool :=
  match c with
  | CArray _ _ _ | CMap _ _ _ => true
  | CPtr c' _ | CCustom _ c' => coll c'
  | _ => false
  end.

Fixpoint c_write (c : codec) (v : gval) {struct c} : option bytes :=
  match c, v with
  | CNull, _ => Some []
  | CBool _, VBool x => Some (bool_write x)
  | CInt _ _, VInt z => Some (int_write z)
  | CFloat _, VF32 x => Some (float_write 4 x)
  | CDouble _, VF64 x => Some (float_write 8 x)
  | CF32Double _, VF32 x => Some (f32d_write x)
  | CBytes _, VBytes x => Some (string_write x)
  | CString _, VStr x => Some (string_write x)
  | CFixed n, VFixed x => Some x
  | CRecord fs, VStruct vs =>
      opt_concat ((fix go (l : list (codec * option nat)) {struct l} : list (option bytes) :=
                     match l with
                     | [] => []
                     | (fc, Some j) :: l' => c_write fc (nth j vs VBad) :: go l'
                     | (_, None) :: l' => None :: go l'
                     end) fs)
  | CArray ic _ _, VSlice vs =>
      match vs with
      | [] => Some [0]
      | _ => option_map (fun body => enc_varint (Z.of_nat (length vs)) ++ body ++ [0])
               (opt_concat ((fix go (l : list gval) {struct l} : list (option bytes) :=
                               match l with [] => [] | x :: l' => c_write ic x :: go l' end) vs))
      end
  | CMap vc _ _, VMapNil => Some [0]
  | CMap vc _ _, VMap kvs =>
      match kvs with
      | [] => Some [0]
      | _ => option_map (fun body => enc_varint (Z.of_nat (length kvs)) ++ body ++ [0])
               (opt_concat ((fix go (l : list (bytes * gval)) {struct l} : list (option bytes) :=
                               match l with
                               | [] => []
                               | (k, x) :: l' => option_map (app (string_write k)) (c_write vc x) :: go l'
                               end) kvs))
      end
  | CPtr c' _, VPtr None =>
      (* nil: nothing is written, except that under an array or map schema
         (buildPointerCodec decides by the schema) the empty collection is *)
      Some (if coll c' then [0] else [])
  | CPtr c' _, VPtr (Some x) => c_write c' x
  | CUnion _, _ => None
  | CUnionOne c' nn, _ =>
      if c_omit c' v then Some (enc_varint (1 - nn))
      else option_map (app (enc_varint nn)) (c_write c' v)
  | CUnionStr om nn, VStr x =>
      if om && match x with [] => true | _ => false end then Some (enc_varint (1 - nn))
      else Some (enc_varint nn ++ string_write x)
  | CTimeString, VTime t => Some (string_write (render_time t))
  | CTimeLong mult, VTime t => Some (int_write (time_long_value mult t))
  | CDate, VTime (TV s _ _) => Some (int_write (to_int32 (s / 86400)))
  | CNullInt, VNullW _ (VInt z) => Some (int_write z)
  | CNullBool, VNullW _ (VBool x) => Some (bool_write x)
  | CNullDouble, VNullW _ (VF64 x) => Some (float_write 8 x)
  | CNullFloat, VNullW _ (VF64 x) => Some (float_write 4 (narrow64 x))
  | CNullString, VNullW _ (VStr x) => Some (string_write x)
  | CNullTime, VNullW _ (VTime t) => Some (string_write (render_time t))
  | CCustom k c', _ => c_write c' (cx k v)
  | _, _ => None
  end.
