(* Object container files: model of /repo/filewriter.go (FileWriter), of
   /repo/encoder.go (Encoder as a state machine over io.Writer calls) and of
   /repo/file.go (readFileHeader, ReadFile over an io.Reader).
   Compression, CRC and JSON text are external code: they enter as parameters. *)
From Coq Require Import String.
Require Import Avro.Model.Base Avro.Model.Prim Avro.Model.Schema.

Definition magic : bytes := [79; 98; 106; 1].                 (* 'O' 'b' 'j' 1 *)

(* ---------------- writer side ---------------- *)

(* appendString: varint length, then the bytes *)
Definition lp (s : bytes) : bytes := enc_varint (len s) ++ s.

(* FileWriter.AppendHeader: one metadata block of two entries *)
Definition header_bytes (schema_json codec_name sync : bytes) : bytes :=
  magic ++ enc_varint 2 ++
  lp (b "avro.schema") ++ lp schema_json ++ lp (b "avro.codec") ++ lp codec_name ++
  enc_varint 0 ++ sync.

(* FileWriter.WriteBlock issues four Write calls *)
Definition block_chunks (sync : bytes) (count : Z) (compressed : bytes) : list bytes :=
  [enc_varint count; enc_varint (len compressed); compressed; sync].
Definition block_bytes (sync : bytes) (count : Z) (compressed : bytes) : bytes :=
  concat (block_chunks sync count compressed).

(* Encoder[T]: wb (buffered record encodings) and count; every call returns the
   chunks it handed to the io.Writer, in order. *)
Record enc_state := { e_buf : bytes; e_count : Z }.
Definition enc_init : enc_state := {| e_buf := []; e_count := 0 |}.

Inductive enc_op := OpEncode (rec : bytes) | OpFlush.

Section Writer.
  Variable compress : bytes -> bytes.      (* compressor of the chosen codec *)
  Variable sync : bytes.
  Variable block_size : Z.                 (* approxBlockSize *)

  Definition enc_flush (st : enc_state) : enc_state * list bytes :=
    if 0 <? e_count st
    then (enc_init, block_chunks sync (e_count st) (compress (e_buf st)))
    else (st, []).

  Definition enc_step (st : enc_state) (op : enc_op) : enc_state * list bytes :=
    match op with
    | OpEncode rec =>
      let st' := {| e_buf := e_buf st ++ rec; e_count := e_count st + 1 |} in
      if block_size <=? len (e_buf st') then enc_flush st' else (st', [])
    | OpFlush => enc_flush st
    end.

  (* fault-free run: all chunks, in order *)
  Fixpoint enc_run (st : enc_state) (ops : list enc_op) {struct ops} : enc_state * list bytes :=
    match ops with
    | [] => (st, [])
    | op :: ops' =>
      let (st1, out1) := enc_step st op in
      let (st2, out2) := enc_run st1 ops' in
      (st2, out1 ++ out2)
    end.

  (* a writer that accepts [k] Write calls and fails on the next one, after
     taking [partial] bytes of it.  Result: what the writer holds, and whether
     the call that issued the failing Write returned an error (it must). *)
  Fixpoint feed (chunks : list bytes) (k : nat) (partial : nat) {struct chunks} : bytes * option nat :=
    match chunks with
    | [] => ([], Some k)                       (* all accepted, k writes still allowed *)
    | c :: cs =>
      match k with
      | O => (firstn partial c, None)          (* this Write fails: the call returns the error *)
      | S k' => let (acc, left) := feed cs k' partial in (c ++ acc, left)
      end
    end.

  (* run with a fault at write index k (0-based over all Write calls after the header) *)
  Fixpoint enc_run_fault (st : enc_state) (ops : list enc_op) (k partial : nat) {struct ops}
    : bytes * bool (* accepted bytes, some call returned the writer's error *) :=
    match ops with
    | [] => ([], false)
    | op :: ops' =>
      let (st1, out1) := enc_step st op in
      match feed out1 k partial with
      | (acc, None) => (acc, true)
      | (acc, Some k') => let (acc2, failed) := enc_run_fault st1 ops' k' partial in (acc ++ acc2, failed)
      end
    end.
End Writer.

(* the ten-line abstract specification of C09: group the record encodings; a
   group is closed as soon as its byte length reaches block_size, and at Flush
   if it is non-empty. *)
Fixpoint blocks_spec (block_size : Z) (pending : list bytes) (ops : list enc_op) {struct ops}
  : list (list bytes) * list bytes (* closed groups, still pending *) :=
  match ops with
  | [] => ([], pending)
  | OpEncode rec :: ops' =>
    let p := pending ++ [rec] in
    if block_size <=? len (concat p)
    then let (gs, rest) := blocks_spec block_size [] ops' in (p :: gs, rest)
    else blocks_spec block_size p ops'
  | OpFlush :: ops' =>
    match pending with
    | [] => blocks_spec block_size [] ops'
    | _ => let (gs, rest) := blocks_spec block_size [] ops' in (pending :: gs, rest)
    end
  end.

(* ---------------- reader side ---------------- *)

(* binary.ReadVarint on an io.ByteReader: clean EOF only before the first byte *)
Inductive rvres := RvOk (v : Z) (rest : bytes) | RvEOF | RvErr.
Definition read_varint (bs : bytes) : rvres :=
  match bs with
  | [] => RvEOF
  | _ => match dec_varint bs with VOk (v, r) => RvOk v r | _ => RvErr end
  end.

(* io.ReadFull(r, buf[:n]) *)
Definition read_full (n : Z) (bs : bytes) : option (bytes * bytes) :=
  if (n <? 0) || (len bs <? n) then None
  else Some (firstn (Z.to_nat n) bs, skipn (Z.to_nat n) bs).

(* readBytes: length-prefixed byte string (post-fix: negative length is an error) *)
Definition read_lp (bs : bytes) : option (bytes * bytes) :=
  match read_varint bs with
  | RvOk l r => read_full l r
  | _ => None
  end.

Definition meta := list (bytes * bytes).
Fixpoint meta_get (m : meta) (k : bytes) {struct m} : option bytes :=
  match m with
  | [] => None
  | (k', v) :: r => if bytes_eqb k k' then Some v else meta_get r k
  end.
Definition meta_set (m : meta) (k v : bytes) : meta := (k, v) :: m.   (* later entries win *)

(* the metadata map: blocks of entries until a zero count; negative counts refused *)
Fixpoint read_meta_entries (fuel : nat) (n : Z) (m : meta) (bs : bytes) {struct fuel} : option (meta * bytes) :=
  match fuel with
  | O => None
  | S f =>
    if n <=? 0 then Some (m, bs)
    else match read_lp bs with
         | Some (k, r) => match read_lp r with
                          | Some (v, r') => read_meta_entries f (n - 1) (meta_set m k v) r'
                          | None => None end
         | None => None
         end
  end.
Fixpoint read_meta (fuel : nat) (m : meta) (bs : bytes) {struct fuel} : option (meta * bytes) :=
  match fuel with
  | O => None
  | S f =>
    match read_varint bs with
    | RvOk cnt r =>
      if cnt =? 0 then Some (m, r)
      else if cnt <? 0 then None
      else match read_meta_entries (S (length r)) cnt m r with
           | Some (m', r') => read_meta f m' r'
           | None => None
           end
    | _ => None
    end
  end.

Record file_header := { h_meta : meta; h_sync : bytes }.

Definition read_header (bs : bytes) : option (file_header * bytes) :=
  match read_full 4 bs with
  | Some (mg, r) =>
    if bytes_eqb mg magic then
      match read_meta (S (length r)) [] r with
      | Some (m, r') =>
        match read_full 16 r' with
        | Some (sy, r'') => Some ({| h_meta := m; h_sync := sy |}, r'')
        | None => None
        end
      | None => None
      end
    else None
  | None => None
  end.

Inductive fres := FOk | FErr | FCb (e : Z).     (* FCb: the callback's own error, unchanged *)

Section Reader.
  Variable decompress : bytes -> option bytes.          (* of the codec named in the header; None = rejected *)
  Variable read_record : bytes -> out unit.             (* the record codec on the unread part of the block;
                                                           the decoded value itself is delivered by index *)
  Variable cb : nat -> option Z.                        (* callback: Some e = fails with e at that record index *)

  (* the records of one block: count times decode + callback.
     Returns the number delivered so far and how the block ended. *)
  Fixpoint read_records (fuel : nat) (n : Z) (idx : nat) (bs : bytes) {struct fuel} : nat * option fres :=
    match fuel with
    | O => (idx, Some FErr)
    | S f =>
      if n <=? 0 then (idx, None)
      else match read_record bs with
           | Done _ r =>
             match cb idx with
             | Some e => (S idx, Some (FCb e))        (* record idx was delivered; its error is returned *)
             | None => read_records f (n - 1) (S idx) r
             end
           | _ => (idx, Some FErr)
           end
    end.

  (* the block loop of ReadFile; delivered = number of records handed to cb *)
  Fixpoint read_blocks (fuel : nat) (sync : bytes) (idx : nat) (bs : bytes) {struct fuel} : nat * fres :=
    match fuel with
    | O => (idx, FErr)
    | S f =>
      match read_varint bs with
      | RvEOF => (idx, FOk)
      | RvErr => (idx, FErr)
      | RvOk count r =>
        match read_varint r with
        | RvOk dlen r1 =>
          match read_full dlen r1 with
          | Some (compressed, r2) =>
            match decompress compressed with
            | Some payload =>
              match read_records (S (Z.to_nat count)) count idx payload with
              | (idx', Some res) => (idx', res)
              | (idx', None) =>
                match read_full 16 r2 with
                | Some (sig, r3) => if bytes_eqb sig sync then read_blocks f sync idx' r3 else (idx', FErr)
                | None => (idx', FErr)
                end
              end
            | None => (idx, FErr)
            end
          | None => (idx, FErr)
          end
        | _ => (idx, FErr)
        end
      end
    end.
End Reader.

(* which decompressor the header selects: None = unknown codec (error) *)
Inductive codec_kind := CkNull | CkDeflate | CkSnappy.
Definition header_codec (h : file_header) : option codec_kind :=
  match meta_get (h_meta h) (b "avro.codec") with
  | None => Some CkNull                                   (* no entry: uncompressed *)
  | Some v => if bytes_eqb v (b "null") then Some CkNull
              else if bytes_eqb v (b "deflate") then Some CkDeflate
              else if bytes_eqb v (b "snappy") then Some CkSnappy
              else None
  end.
