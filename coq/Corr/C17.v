(* Correspondence cases for C17: each constructor carries an input and what the
   Go implementation did on it; [check] evaluates the model on the same input
   and compares the projected observables. *)
Require Import Avro.Model.Base Avro.Model.Prim Avro.Model.Buffers Avro.Corr.Common.
Export Avro.Model.Base Avro.Model.Buffers Avro.Corr.Common.

Inductive case :=
| KEnc (v : Z) (impl : bytes)                 (* WriteBuf.Varint *)
| KDec (bs : bytes) (impl : ires)             (* ReadBuf.Varint *)
| KIntRead (w : Z) (bs : bytes) (impl : ires) (* IntCodec[w bits].Read *)
| KIntSkip (bs : bytes) (impl : ires)
| KFloat (n : nat) (bits : Z) (wrote : bytes) (read : ires)   (* Write then Read *)
| KFloatRead (n : nat) (bs : bytes) (read : ires)
| KF32D (bits32 : Z) (wrote : bytes) (read : ires)            (* Float32DoubleCodec *)
| KF32DRead (bits64 : Z) (read : ires)
| KBool (bs : bytes) (impl : ires)
(* a WriteBuf over a slice that held [prefix]: the operations, and what Bytes returned at the end *)
| KWb (prefix : bytes) (ops : list wb_op) (impl : bytes)
(* a ReadBuf over [data]: the operations, and after each one what the call returned and Len() *)
| KRb (data : bytes) (ops : list rb_op) (impl : list (rb_obs * Z)).

Definition nan_eqb32 (model impl : Z) : bool :=
  if f32_is_nan model then f32_is_nan impl else model =? impl.

Definition ires_eqb_nan32 (model impl : ires) : bool :=
  match model, impl with
  | IOk v r, IOk v' r' => nan_eqb32 v v' && (r =? r')
  | _, _ => ires_eqb model impl
  end.

Definition obs_eqb (a c : rb_obs) : bool :=
  match a, c with
  | OBytes x, OBytes y => bytes_eqb x y
  | OInt x, OInt y => x =? y
  | OByte x, OByte y => x =? y
  | OErr, OErr | ONone, ONone => true
  | _, _ => false
  end.

Definition check (c : case) : bool :=
  match c with
  | KEnc v impl => bytes_eqb (enc_varint v) impl && bytes_eqb (spec_varint v) impl
  | KDec bs impl => ires_eqb (ires_of (fun v => v) (rd_varint bs)) impl
  | KIntRead w bs impl => ires_eqb (ires_of (fun v => v) (int_read w bs)) impl
  | KIntSkip bs impl => ires_eqb (ires_of (fun _ => 0) (int_skip bs)) impl
  | KFloat n bits wrote read =>
      bytes_eqb (float_write n bits) wrote &&
      ires_eqb (ires_of (fun v => v) (float_read n (wrote ++ match n with 4%nat => [119] | _ => [] end))) read
  | KFloatRead n bs read => ires_eqb (ires_of (fun v => v) (float_read n bs)) read
  | KF32D b wrote read =>
      (if f32_is_nan b then f64_is_nan (of_le wrote) && (Z.of_nat (length wrote) =? 8)
       else bytes_eqb (f32d_write b) wrote) &&
      ires_eqb_nan32 (ires_of (fun v => v) (f32d_read wrote)) read
  | KF32DRead b read => ires_eqb_nan32 (ires_of (fun v => v) (f32d_read (le_bytes 8 b))) read
  | KBool bs impl => ires_eqb (ires_of (fun b : bool => if b then 1 else 0) (bool_read bs)) impl
  | KWb prefix ops impl => bytes_eqb (wb_run prefix ops) impl
  | KRb data ops impl => list_eqb (fun p q => obs_eqb (fst p) (fst q) && (snd p =? snd q)) (rb_run data ops) impl
  end.

Definition bad_ids := bad_ids_gen check.
