(* Correspondence cases for C10: a history of bank operations performed on the real
   library, with the runtime's choices (sync.Pool, append growth) as oracle inputs and
   what the implementation returned after every step; [check] replays the history in
   the model (Model/Bank.v) and compares. *)
From Coq Require Import List ZArith Bool Arith.
Require Import Avro.Model.Base Avro.Model.Bank Avro.Corr.Common.
Export Avro.Model.Base Avro.Model.Bank Avro.Corr.Common.
Import ListNotations.

Inductive cref := CDirect (b : Z) | CVia (h : Z).

Inductive cop :=
| CGet (c : option Z)
| CNewBuf (c : option Z)
| CExtract (h : Z) (c : option Z)
| CAlloc (r : cref) (ty sz : Z)
| CToString (r : cref) (data : list Z) (grow : Z)
| CClose (b : Z)
| CStore (bank arr off len : Z) (o : Z) (vs : list Z).

(* what the implementation showed: the bank obtained (by pointer identity), or the
   returned memory as (array label, byte offset, length) with a flag: Alloc: the memory
   read as all zero; ToString: the returned string equals the data *)
Inductive obs := ONone | OBank (b : Z) | OAlloc (arr off len : Z) (good : bool).

Inductive case :=
| KHist (steps : list (cop * obs * Z)) (final : list (list Z))
| KPool (steps : list cop).

Definition n (z : Z) : nat := Z.to_nat z.
Definition on (c : option Z) : option nat := option_map n c.
Definition to_ref (r : cref) : bref := match r with CDirect b => Direct (n b) | CVia h => Via (n h) end.

Definition to_op (c : cop) : op :=
  match c with
  | CGet c => Get (on c)
  | CNewBuf c => NewBuf (on c)
  | CExtract h c => Extract (n h) (on c)
  | CAlloc r ty sz => Alloc (to_ref r) ty (n sz)
  | CToString r data g => ToString (to_ref r) data (n g)
  | CClose b => Close (n b)
  | CStore b arr off len o vs => Store (mkAlloc (n b) (n arr) (n off) (n len)) (n o) vs
  end.

Definition hp : Z := 2147483647%Z.

Definition sum_alloc (h : heap) (acc : Z) (a : alloc) : Z :=
  ((fold_left (fun x c => ((x * 257 + c + 1) mod hp)%Z) (fcontent h a) acc) * 257 mod hp)%Z.

Definition checksum (w : world) : Z := fold_left (sum_alloc (w_heap w)) (w_live w) 0%Z.

Definition zlist_eqb := list_eqb Z.eqb.

Definition obs_ok (w w' : world) (c : cop) (o : obs) : bool :=
  match c, o with
  | CGet ch, OBank b => Nat.eqb (snd (get_bank w (on ch))) (n b)
  | CNewBuf ch, OBank b => Nat.eqb (snd (get_bank w (on ch))) (n b)
  | CExtract _ ch, OBank b => Nat.eqb (snd (get_bank w (on ch))) (n b)
  | CAlloc _ _ _, OAlloc arr off len good =>
      match w_live w' with
      | a :: _ =>
        Nat.eqb (al_off a) (n off) && Nat.eqb (al_len a) (n len) &&
        (Nat.eqb (al_len a) 0 || Nat.eqb (al_arr a) (n arr)) &&
        Bool.eqb good (forallb (Z.eqb 0) (fcontent (w_heap w') a)) &&
        Nat.eqb (length (w_live w')) (S (length (w_live w)))
      | [] => false
      end
  | CToString _ data _, OAlloc arr off len good =>
      match w_live w' with
      | a :: _ =>
        Nat.eqb (al_off a) (n off) && Nat.eqb (al_len a) (n len) &&
        (Nat.eqb (al_len a) 0 || Nat.eqb (al_arr a) (n arr)) &&
        Bool.eqb good (zlist_eqb (fcontent (w_heap w') a) data) &&
        Nat.eqb (length (w_live w')) (S (length (w_live w)))
      | [] => false
      end
  | CClose _, ONone => true
  | CStore _ _ _ _ _ _, ONone => true
  | _, _ => false
  end.

Fixpoint replay (w : world) (steps : list (cop * obs * Z)) {struct steps} : option world :=
  match steps with
  | [] => Some w
  | (c, o, s) :: r =>
    let w' := step w (to_op c) in
    if wf_opb w (to_op c) && obs_ok w w' c o && Z.eqb (checksum w') s
    then replay w' r else None
  end.

Definition check (c : case) : bool :=
  match c with
  | KHist steps final =>
    match replay init steps with
    | Some w => list_eqb zlist_eqb (map (fcontent (w_heap w)) (w_live w)) final
    | None => false
    end
  | KPool steps => wf_histb init (map to_op steps)
  end.

Definition bad_ids := bad_ids_gen check.
