(* Correspondence cases for C14 (schema JSON).  Each constructor carries an input and
   what the Go implementation did on it; [check] evaluates the model of
   Model/Json.v on the same input and compares.

   KUnmarshal j impl : the driver rendered the tree j to text (its own printer, random
                       layout and escapes) and called avro.SchemaFromString; impl is the
                       resulting Schema (printed by coqSchema), None on error.
   KMarshal s impl   : Schema.Marshal on the Go value s; the bytes parsed back to a tree
                       by the standard library (encoding/json token stream), None on error.
   KReparse s impl   : SchemaFromString(string(Marshal(s))), None when either step fails. *)
Require Import Avro.Model.Base Avro.Model.Schema Avro.Model.Json Avro.Corr.Common.
Export Avro.Model.Base Avro.Model.Schema Avro.Model.Json Avro.Corr.Common.

Inductive case :=
| KUnmarshal (j : json) (impl : option gschema)
| KMarshal (s : gschema) (impl : option json)
| KReparse (s : gschema) (impl : option gschema).

Definition opt_eqb {A} (eqb : A -> A -> bool) (a c : option A) : bool :=
  match a, c with
  | Some x, Some y => eqb x y
  | None, None => true
  | _, _ => false
  end.

Fixpoint gs_eqb (x y : gschema) {struct x} : bool :=
  match x, y with
  | GS t1 o1 u1, GS t2 o2 u2 =>
    bytes_eqb t1 t2 &&
    match o1, o2 with
    | Some a, Some c => go_eqb a c
    | None, None => true
    | _, _ => false
    end &&
    (fix go (l1 l2 : list gschema) {struct l1} : bool :=
       match l1, l2 with
       | [], [] => true
       | a :: r1, c :: r2 => gs_eqb a c && go r1 r2
       | _, _ => false
       end) u1 u2
  end
with go_eqb (x y : gobject) {struct x} : bool :=
  match x, y with
  | GO l1 n1 ns1 f1 i1 v1 s1 sy1, GO l2 n2 ns2 f2 i2 v2 s2 sy2 =>
    bytes_eqb l1 l2 && bytes_eqb n1 n2 && bytes_eqb ns1 ns2 &&
    (fix go (a c : list (ident * gschema)) {struct a} : bool :=
       match a, c with
       | [], [] => true
       | (k1, t1) :: r1, (k2, t2) :: r2 => bytes_eqb k1 k2 && gs_eqb t1 t2 && go r1 r2
       | _, _ => false
       end) f1 f2 &&
    gs_eqb i1 i2 && gs_eqb v1 v2 && (s1 =? s2) && list_eqb bytes_eqb sy1 sy2
  end.

Fixpoint json_eqb (x y : json) {struct x} : bool :=
  match x, y with
  | JNull, JNull => true
  | JBool a, JBool c => Bool.eqb a c
  | JNum t1 i1, JNum t2 i2 => bytes_eqb t1 t2 && opt_eqb Z.eqb i1 i2
  | JStr a, JStr c => bytes_eqb a c
  | JArr l1, JArr l2 =>
    (fix go (l1 l2 : list json) {struct l1} : bool :=
       match l1, l2 with
       | [], [] => true
       | a :: r1, c :: r2 => json_eqb a c && go r1 r2
       | _, _ => false
       end) l1 l2
  | JObj m1, JObj m2 =>
    (fix go (m1 m2 : list (bytes * json)) {struct m1} : bool :=
       match m1, m2 with
       | [], [] => true
       | (k1, a) :: r1, (k2, c) :: r2 => bytes_eqb k1 k2 && json_eqb a c && go r1 r2
       | _, _ => false
       end) m1 m2
  | _, _ => false
  end.

Definition reparse (s : gschema) : option gschema :=
  match marshal_impl s with Some j => unmarshal j | None => None end.

Definition check (c : case) : bool :=
  match c with
  | KUnmarshal j impl =>
      opt_eqb gs_eqb (unmarshal j) impl &&
      (* what the theorems say about every parsed value, re-checked on the case *)
      match unmarshal j with Some s => gs_wf s | None => true end
  | KMarshal s impl => opt_eqb json_eqb (marshal_impl s) impl
  | KReparse s impl =>
      opt_eqb gs_eqb (reparse s) impl &&
      (if gs_wf s && json_text_ok (marshal s)
       then opt_eqb gs_eqb (reparse s) (Some (gs_meaning s)) else true)
  end.

Definition bad_ids := bad_ids_gen check.
