(* Correspondence cases for the container reader (C07, C08). *)
From Coq Require Import String.
Require Import Avro.Model.Base Avro.Model.Prim Avro.Model.Schema Avro.Model.GoType
               Avro.Model.Spec Avro.Model.Codec Avro.Model.Container Avro.Model.Compress.
Require Import Avro.Corr.Common Avro.Corr.Codec.
Export Avro.Model.Base Avro.Model.Schema Avro.Model.GoType Avro.Model.Codec Avro.Model.Container Avro.Corr.Common.
Local Open Scope list_scope.
Open Scope Z_scope.

(* what ReadFile did: number of records handed to the callback and how it ended *)
Inductive fclass := CkOk | CkErr | CkCb | CkPanic.

Inductive case :=
| KFile (schema_ok : option gschema)     (* the embedded schema as parsed by the harness (None: not valid JSON / not a schema) *)
        (t : gtype)                      (* target type given to ReadFile *)
        (file : bytes)
        (decomp : list (bytes * option bytes))   (* the real decompressor of the header's codec on every stored block *)
        (cbfail : Z)                     (* record index at which the callback fails; -1 = never *)
        (impl_n : Z) (impl : fclass)
(* a file whose header names snappy: the table holds what golang/snappy itself says about the
   body of every stored block (the block without its last four bytes): DecodedLen and Decode.
   The framing, the length guard and the CRC-32 comparison are the model's (Model/Compress.v). *)
| KFileSn (schema_ok : option gschema) (t : gtype) (file : bytes)
          (raw : list (bytes * (option Z * option bytes)))
          (cbfail : Z) (impl_n : Z) (impl : fclass)
(* hash/crc32.ChecksumIEEE on its own *)
| KCrc (data : bytes) (impl_crc : Z).

Fixpoint table_get (tb : list (bytes * option bytes)) (k : bytes) {struct tb} : option bytes :=
  match tb with
  | [] => None
  | (k', v) :: r => if bytes_eqb k k' then v else table_get r k
  end.

Definition fclass_eqb (a c : fclass) : bool :=
  match a, c with CkOk, CkOk | CkErr, CkErr | CkCb, CkCb | CkPanic, CkPanic => true | _, _ => false end.

Fixpoint raw_get (tb : list (bytes * (option Z * option bytes))) (k : bytes) {struct tb} : option (option Z * option bytes) :=
  match tb with
  | [] => None
  | (k', v) :: r => if bytes_eqb k k' then Some v else raw_get r k
  end.
Definition raw_len_of tb (k : bytes) : option Z := match raw_get tb k with Some (n, _) => n | None => None end.
Definition raw_dec_of tb (k : bytes) : option bytes := match raw_get tb k with Some (_, d) => d | None => None end.

Definition run_file_with (decompress : bytes -> option bytes) (schema_ok : option gschema) (t : gtype) (file : bytes)
           (cbfail : Z) : nat * fclass :=
  match read_header file with
  | None => (O, CkErr)
  | Some (h, rest) =>
    match header_codec h with
    | None => (O, CkErr)
    | Some _ =>
      match meta_get (h_meta h) (b "avro.schema"), schema_ok with
      | Some _, Some g =>
        match build_top g t with
        | None => (O, CkErr)
        | Some c =>
          let fuel := fuel_for file in
          let rr := fun bs => obind (c_read fuel c (zero_of (top_type t)) bs) (fun _ r => Done tt r) in
          let cb := fun i : nat => if Z.of_nat i =? cbfail then Some 1 else None in
          match read_blocks decompress rr cb (S (length file)) (h_sync h) O rest with
          | (n, FOk) => (n, CkOk)
          | (n, FErr) => (n, CkErr)
          | (n, FCb _) => (n, CkCb)
          end
        end
      | _, _ => (O, CkErr)
      end
    end
  end.

Definition run_file (schema_ok : option gschema) (t : gtype) (file : bytes)
           (decomp : list (bytes * option bytes)) (cbfail : Z) : nat * fclass :=
  run_file_with (table_get decomp) schema_ok t file cbfail.

Definition check (c : case) : bool :=
  match c with
  | KFile so t file decomp cbfail impl_n impl =>
      let '(n, k) := run_file so t file decomp cbfail in
      (Z.of_nat n =? impl_n) && fclass_eqb k impl
  | KFileSn so t file raw cbfail impl_n impl =>
      let '(n, k) := run_file_with (snappy_decompress (raw_dec_of raw) (raw_len_of raw)) so t file cbfail in
      (Z.of_nat n =? impl_n) && fclass_eqb k impl
  | KCrc data impl_crc => crc32 data =? impl_crc
  end.

Definition bad_ids := bad_ids_gen check.
