(* Correspondence cases for C12: what ONE goroutine of a real concurrent run
   observed at each of its registry / timezone / pool steps, against the model's
   solitary run of the same steps from the state the registries were in when the
   round started -- the conclusion of C12_result_equivalent evaluated on real
   observations. *)
Require Import Avro.Model.Base Avro.Model.Schema Avro.Model.GoType Avro.Model.Codec Avro.Model.Conc.
Require Import Avro.Corr.Common.
Export Avro.Model.Base Avro.Model.Schema Avro.Model.GoType Avro.Model.Codec Avro.Model.Conc Avro.Corr.Common.

Definition builder_eqb (a c : builder) : bool :=
  match a, c with
  | BWrap w, BWrap w' => wk_eqb w w'
  | BCustom k, BCustom k' => k =? k'
  | _, _ => false
  end.

Definition obs_eqb (a c : obs) : bool :=
  match a, c with
  | OReg None, OReg None | OSReg None, OSReg None | OUnit, OUnit | OBank, OBank => true
  | OReg (Some x), OReg (Some y) => builder_eqb x y
  | OSReg (Some x), OSReg (Some y) => x =? y
  | OTz x, OTz y => x =? y
  | _, _ => false
  end.

(* the registries at the start of the round: the library's wrapper codecs plus what
   earlier rounds registered (named type id -> custom builder / schema id) *)
Definition state_of (regs sregs : list (Z * Z)) : shared :=
  mkShared (fold_left (fun f p => upd_key f (RNamed (fst p)) (BCustom (snd p))) regs reg_std)
           (fold_left (fun f p => upd_key f (RNamed (fst p)) (snd p)) sregs (fun _ => None))
           [] [] O.

Inductive case :=
| KSteps (regs sregs : list (Z * Z)) (steps : list (step * obs))     (* one goroutine of a concurrent round *)
| KIndep (progs : list (list step)) (impl : bool).                    (* the driver's families are independent *)

Definition check (c : case) : bool :=
  match c with
  | KSteps regs sregs steps =>
      list_eqb obs_eqb (alone (state_of regs sregs) (map fst steps)) (map snd steps)
  | KIndep progs impl => Bool.eqb (independentb progs) impl
  end.

Definition bad_ids := bad_ids_gen check.
