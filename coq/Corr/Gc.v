(* Correspondence cases for C11: the codec-core cases of Corr/Codec.v (values read and
   written by the real library under forced collections), plus two observables of
   the GC-typing model:
     KPtrmap  the runtime's own pointer bitmap and size of a reflect.Type against
              [ptrmap] / [sizeof];
     KAllocs  the element types of the arenas the real decoder left in its resource
              bank after reading one record, against [bank_sites] (every type the
              model predicts may be handed to ReadBuf.Alloc). *)
Require Import Avro.Model.Base Avro.Model.Prim Avro.Model.Schema Avro.Model.GoType
               Avro.Model.Codec Avro.Model.Layout Avro.Model.GcTyping.
Require Import Avro.Corr.Common Avro.Corr.Codec.
Export Avro.Model.Base Avro.Model.Schema Avro.Model.GoType Avro.Model.Spec Avro.Model.Codec Avro.Corr.Common Avro.Corr.Codec.

Definition ikind_eqb (a c : ikind) : bool :=
  match a, c with
  | I8, I8 | I16, I16 | I32, I32 | I64, I64 | IInt, IInt
  | U8, U8 | U16, U16 | U32, U32 | U64, U64 | UInt, UInt | UPtr, UPtr => true
  | _, _ => false
  end.

Definition wkind_eqb (a c : wkind) : bool :=
  match a, c with
  | WTime, WTime | WNullInt, WNullInt | WNullBool, WNullBool | WNullFloat, WNullFloat
  | WNullString, WNullString | WNullTime, WNullTime => true
  | _, _ => false
  end.

Fixpoint gtype_eqb (a c : gtype) {struct a} : bool :=
  match a, c with
  | TBool, TBool | TFloat32, TFloat32 | TFloat64, TFloat64 | TComplex, TComplex | TString, TString
  | TIface, TIface | TChan, TChan | TFunc, TFunc | TUnsafePtr, TUnsafePtr => true
  | TInt k, TInt k' => ikind_eqb k k'
  | TSlice e, TSlice e' => gtype_eqb e e'
  | TArray n e, TArray n' e' => (n =? n') && gtype_eqb e e'
  | TMap k e, TMap k' e' => gtype_eqb k k' && gtype_eqb e e'
  | TPtr e, TPtr e' => gtype_eqb e e'
  | TStruct n p fs, TStruct n' p' fs' =>
      bytes_eqb n n' && bytes_eqb p p' &&
      (fix go (xs ys : list gfield) {struct xs} : bool :=
         match xs, ys with
         | [], [] => true
         | GF fn fe fj fq ft :: xs', GF fn' fe' fj' fq' ft' :: ys' =>
             bytes_eqb fn fn' && Bool.eqb fe fe' && bytes_eqb fj fj' && bytes_eqb fq fq' &&
             gtype_eqb ft ft' && go xs' ys'
         | _, _ => false
         end) fs fs'
  | TWrap w, TWrap w' => wkind_eqb w w'
  | TNamed i u, TNamed i' u' => (i =? i') && gtype_eqb u u'
  | TSelf k, TSelf k' => Nat.eqb k k'
  | _, _ => false
  end.

Inductive case :=
| KC (c : Avro.Corr.Codec.case)
| KPtrmap (t : gtype) (size : Z) (impl : list bool)
| KAllocs (g : gschema) (t : gtype) (arenas : list gtype).

Definition check (c : case) : bool :=
  match c with
  | KC c' => Avro.Corr.Codec.check c'
  | KPtrmap t size impl => (sizeof t =? size) && list_eqb Bool.eqb (ptrmap t) impl
  | KAllocs g t arenas =>
      match build_top g t with
      | Some c' => let sites := bank_sites c' (top_type t) in
                   forallb (fun a => existsb (gtype_eqb a) sites) arenas
      | None => false
      end
  end.

Definition bad_ids := bad_ids_gen check.
