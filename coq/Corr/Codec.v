(* Correspondence cases for the codec core (C01-C06, C13, C15, C20): inputs
   plus what the Go implementation did; [check] evaluates the model and
   compares projected observables. *)
Require Import Avro.Model.Base Avro.Model.Prim Avro.Model.Schema Avro.Model.GoType
               Avro.Model.Blocks Avro.Model.Time Avro.Model.Spec Avro.Model.Codec Avro.Model.SchemaGen Avro.Model.Layout Avro.Model.Heap.
Require Import Avro.Corr.Common.
Export Avro.Model.Base Avro.Model.Schema Avro.Model.GoType Avro.Model.Spec Avro.Model.Codec Avro.Corr.Common.

Inductive cres := ROk (v : gval) (rem : Z) | RErr | RPanic.

(* ---- canonical forms ---- *)
Fixpoint bytes_ltb (a b0 : bytes) {struct a} : bool :=
  match a, b0 with
  | [], [] => false
  | [], _ :: _ => true
  | _ :: _, [] => false
  | x :: a', y :: b' => if x <? y then true else if y <? x then false else bytes_ltb a' b'
  end.

(* insert with replacement into a key-sorted association list *)
Fixpoint assoc_insert {A} (k : bytes) (v : A) (l : list (bytes * A)) {struct l} : list (bytes * A) :=
  match l with
  | [] => [(k, v)]
  | (k', v') :: r =>
    if bytes_eqb k k' then (k, v) :: r
    else if bytes_ltb k k' then (k, v) :: l
    else (k', v') :: assoc_insert k v r
  end.
Definition assoc_canon {A} (l : list (bytes * A)) : list (bytes * A) :=
  fold_left (fun acc kv => assoc_insert (fst kv) (snd kv) acc) l [].

Fixpoint canon (v : gval) {struct v} : gval :=
  match v with
  | VSlice vs => VSlice ((fix go (l : list gval) {struct l} := match l with [] => [] | x :: r => canon x :: go r end) vs)
  | VMapNil => VMap []
  | VMap kvs => VMap (assoc_canon ((fix go (l : list (bytes * gval)) {struct l} :=
                        match l with [] => [] | (k, x) :: r => (k, canon x) :: go r end) kvs))
  | VPtr (Some x) => VPtr (Some (canon x))
  | VStruct vs => VStruct ((fix go (l : list gval) {struct l} := match l with [] => [] | x :: r => canon x :: go r end) vs)
  | VNullW valid p => if valid then VNullW true (canon p) else VNullW false (VInt 0)
  | _ => v
  end.

Definition tv_eqb (a b0 : timeval) : bool :=
  match a, b0 with TV s n o, TV s' n' o' => (s =? s') && (n =? n') && (o =? o') end.

Fixpoint gval_eqb (a b0 : gval) {struct a} : bool :=
  match a, b0 with
  | VBool x, VBool y => Bool.eqb x y
  | VInt x, VInt y => x =? y
  | VF32 x, VF32 y => (x =? y) || (f32_is_nan x && f32_is_nan y)
  | VF64 x, VF64 y => (x =? y) || (f64_is_nan x && f64_is_nan y)
  | VStr x, VStr y | VBytes x, VBytes y | VFixed x, VFixed y => bytes_eqb x y
  | VSlice xs, VSlice ys | VStruct xs, VStruct ys =>
      (fix go (xs ys : list gval) {struct xs} : bool :=
         match xs, ys with
         | [], [] => true
         | x :: xs', y :: ys' => gval_eqb x y && go xs' ys'
         | _, _ => false
         end) xs ys
  | VMapNil, VMapNil => true
  | VMap xs, VMap ys =>
      (fix go (xs ys : list (bytes * gval)) {struct xs} : bool :=
         match xs, ys with
         | [], [] => true
         | (k, x) :: xs', (k', y) :: ys' => bytes_eqb k k' && gval_eqb x y && go xs' ys'
         | _, _ => false
         end) xs ys
  | VPtr None, VPtr None => true
  | VPtr (Some x), VPtr (Some y) => gval_eqb x y
  | VTime x, VTime y => tv_eqb x y
  | VNullW v x, VNullW w y => Bool.eqb v w && gval_eqb x y
  | VBad, VBad => true
  | _, _ => false
  end.

Definition gval_same (model impl : gval) : bool := gval_eqb (canon model) (canon impl).

Definition cres_of (o : out gval) : cres :=
  match o with Done v r => ROk v (len r) | Err => RErr | _ => RPanic end.
Definition cres_eqb (model impl : cres) : bool :=
  match model, impl with
  | ROk v r, ROk v' r' => gval_same v v' && (r =? r')
  | RErr, RErr => true
  | RPanic, RPanic => true
  | _, _ => false
  end.

(* datum with map entries sorted by key (maps in Avro are unordered) *)
Fixpoint dcanon (d : datum) {struct d} : datum :=
  match d with
  | DRecord ds => DRecord ((fix go (l : list datum) {struct l} := match l with [] => [] | x :: r => dcanon x :: go r end) ds)
  | DArray ds => DArray ((fix go (l : list datum) {struct l} := match l with [] => [] | x :: r => dcanon x :: go r end) ds)
  | DMap kvs => DMap (assoc_canon ((fix go (l : list (bytes * datum)) {struct l} :=
                        match l with [] => [] | (k, x) :: r => (k, dcanon x) :: go r end) kvs))
  | DUnion i x => DUnion i (dcanon x)
  | _ => d
  end.
Definition datum_same (a b0 : datum) : bool := datum_eqb (dcanon a) (dcanon b0).

(* ---- schema equality (all attributes of the Go struct) ---- *)
Fixpoint gschema_eqb (a b0 : gschema) {struct a} : bool :=
  match a, b0 with
  | GS ty o un, GS ty' o' un' =>
    bytes_eqb ty ty' &&
    match o, o' with
    | None, None => true
    | Some x, Some y => gobject_eqb x y
    | _, _ => false
    end &&
    (fix go (xs ys : list gschema) {struct xs} : bool :=
       match xs, ys with
       | [], [] => true
       | x :: xs', y :: ys' => gschema_eqb x y && go xs' ys'
       | _, _ => false
       end) un un'
  end
with gobject_eqb (a b0 : gobject) {struct a} : bool :=
  match a, b0 with
  | GO l n ns fs it vs sz sy, GO l' n' ns' fs' it' vs' sz' sy' =>
    bytes_eqb l l' && bytes_eqb n n' && bytes_eqb ns ns' &&
    (fix go (xs ys : list (ident * gschema)) {struct xs} : bool :=
       match xs, ys with
       | [], [] => true
       | (k, x) :: xs', (k', y) :: ys' => bytes_eqb k k' && gschema_eqb x y && go xs' ys'
       | _, _ => false
       end) fs fs' &&
    gschema_eqb it it' && gschema_eqb vs vs' && (sz =? sz') && list_eqb bytes_eqb sy sy'
  end.

(* ---- cases ---- *)
Inductive case :=
| KBuild (g : gschema) (t : gtype) (impl_ok : bool)                         (* Schema.Codec(out) *)
| KRead (g : gschema) (t : gtype) (bs : bytes) (impl : cres)                (* Codec.Read into a zero value *)
| KSkip (g : gschema) (t : gtype) (bs : bytes) (impl : ires)                (* Codec.Skip *)
| KWrite (g : gschema) (t : gtype) (v : gval) (impl : option bytes) (want : datum)   (* Codec.Write; want = datum the value denotes *)
| KSchema (t : gtype) (impl : option gschema)                               (* SchemaForType *)
| KSpecEnc (g : gschema) (d : datum) (ch : choice) (bs : bytes)             (* the harness's own encoder against spec_encode *)
| KLayout (t : gtype) (size align : Z) (offsets : list Z).                  (* reflect's Size / Align / field offsets *)

(* fuel for evaluating the model on a case: linear in the input (what the theorems need)
   plus a constant that covers collections of zero-width items (nulls, empty records),
   whose loops are driven by the declared count, not by the bytes *)
Definition fuel_for (bs : bytes) : nat := (4 * length bs + 64 + Z.to_nat 8192)%nat.

Definition top_type (t : gtype) : gtype := match t with TPtr e => e | _ => t end.
Definition is_struct (t : gtype) : bool := match underlying t with TStruct _ _ _ => true | _ => false end.

(* Schema.Codec(out): out must be a struct or pointer to struct *)
Definition build_top (g : gschema) (t : gtype) : option codec :=
  let t' := top_type t in
  if is_struct t' then build reg_std (classify g) (Some t') false else None.

Definition check (c : case) : bool :=
  match c with
  | KBuild g t impl_ok =>
      Bool.eqb (match build_top g t with Some _ => true | None => false end) impl_ok
  | KRead g t bs impl =>
      match build_top g t with
      | Some c =>
        (* out of evaluation fuel (only collections of zero-width items with a declared
           count far above the input length get there, by SafeP): no verdict on this case *)
        (match c_read (fuel_for bs) c (zero_of (top_type t)) bs with
         | Fuel => true
         | o => cres_eqb (cres_of o) impl
         end) &&
        (* the allocation clause on what the implementation returned (also where the model gave
           no verdict): heap cells of the value against the bound of AllocP.read_cells *)
        match impl with
        | ROk v rem => heap_bound_ok c (zero_of (top_type t)) (len bs - rem) v
        | _ => true
        end
      | None => false
      end
  | KSkip g t bs impl =>
      match build_top g t with
      | Some c =>
        match c_skip (fuel_for bs) c bs with
        | Fuel => true
        | o => ires_eqb (ires_of (fun _ => 0) o) impl
        end
      | None => false
      end
  | KWrite g t v impl want =>
      match build_top g t with
      | Some c =>
        match c_write c v, impl with
        | Some m, Some i =>
          let s := classify g in
          match sd (fuel_for i) s i, sd (fuel_for m) s m with
          | Done di [], Done dm [] =>
              datum_same di dm && datum_same di want && (len i =? len m) &&
              bytes_eqb (canon_encode s di) i     (* one unsized block per non-empty collection *)
          | _, _ => false
          end
        | None, None => true
        | _, _ => false
        end
      | None => false
      end
  | KSchema t impl =>
      match schema_for_type sreg_std t, impl with
      | Some m, Some i => gschema_eqb m i
      | None, None => true
      | _, _ => false
      end
  | KSpecEnc g d ch bs =>
      let s := classify g in
      typed s d && bytes_eqb (spec_encode ch s d) bs &&
      match sd (fuel_for bs) s bs with Done d' [] => datum_eqb d d' | _ => false end
  | KLayout t size align offsets =>
      (sizeof t =? size) && (alignof t =? align) &&
      match underlying t with
      | TStruct _ _ gfs => list_eqb Z.eqb (field_offsets gfs 0) offsets
      | _ => true
      end
  end.

Definition bad_ids := bad_ids_gen check.
