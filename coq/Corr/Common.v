(* Shared by all correspondence modules: the implementation's observable
   outcome of a reading call, and the mismatch filter. *)
Require Import Avro.Model.Base Avro.Model.Prim.

Inductive ires := IOk (v : Z) (rem : Z) | IErr | IPanic.

Definition ires_of {A} (proj : A -> Z) (o : out A) : ires :=
  match o with Done a r => IOk (proj a) (len r) | Err => IErr | Panic => IPanic | Fuel => IPanic end.

Definition ires_eqb (a b : ires) : bool :=
  match a, b with
  | IOk v r, IOk v' r' => (v =? v') && (r =? r')
  | IErr, IErr => true
  | IPanic, IPanic => true
  | _, _ => false
  end.

Definition bad_ids_gen {C} (check : C -> bool) (cs : list (Z * C)) : list Z :=
  map fst (filter (fun c => negb (check (snd c))) cs).
