(* Correspondence cases for C18 and C19: each constructor carries an input and
   what the Go implementation (or, for KRender, the Go standard library) did on
   it; [check] evaluates the model on the same input and compares. *)
Require Import Avro.Model.Base Avro.Model.Prim Avro.Model.Schema Avro.Model.GoType Avro.Model.Time Avro.Model.Codec.
Require Import Avro.Corr.Common.
Export Avro.Model.Base Avro.Model.GoType Avro.Corr.Common.

(* observable of a call that yields a time.Time: Unix(), Nanosecond(), zone offset *)
Inductive tres := TOk (unix_s ns off : Z) | TErr | TPanic.

Definition tres_eqb (a b : tres) : bool :=
  match a, b with
  | TOk s n o, TOk s' n' o' => (s =? s') && (n =? n') && (o =? o')
  | TErr, TErr => true
  | TPanic, TPanic => true
  | _, _ => false
  end.

Definition tres_of_pres (p : pres) : tres :=
  match p with POk (TV s n o) => TOk s n o | PErr => TErr | PPanic => TPanic end.

(* a codec read that must consume its whole input *)
Definition tres_of_out (o : out gval) : tres :=
  match o with
  | Done (VTime (TV s n off)) [] => TOk s n off
  | Done _ _ => TPanic
  | Err => TErr
  | Panic => TPanic
  | Fuel => TPanic
  end.

Definition opt_bytes_eqb (m : option bytes) (impl : bytes) : bool :=
  match m with Some b => bytes_eqb b impl | None => false end.

Inductive case :=
| KParse (s : bytes) (impl : tres)          (* avrotime.StringCodec.Read on varint(len s) ++ s, s non-empty *)
| KRender (t : timeval) (impl : bytes)      (* time.Time.Format(time.RFC3339Nano), standard library *)
| KDateRead (n : Z) (impl : tres)           (* DateCodec.Read on varint(n) *)
| KLongRead (mult l : Z) (impl : tres)      (* LongCodec{mult}.Read on varint(l) *)
| KDateWrite (t : timeval) (impl : bytes)   (* DateCodec.Write *)
| KLongWrite (mult : Z) (t : timeval) (impl : bytes)
| KStringCodec (t : timeval) (wrote : bytes) (read : tres).   (* StringCodec.Write, then Read of those bytes *)

Definition check (c : case) : bool :=
  match c with
  | KParse s impl =>
      tres_eqb (tres_of_pres (parse_time s)) impl &&
      tres_eqb (tres_of_out (c_read O CTimeString (VTime time_zero) (string_write s))) impl
  | KRender t impl => bytes_eqb (render_time t) impl
  | KDateRead n impl => tres_eqb (tres_of_out (c_read O CDate VBad (int_write n))) impl
  | KLongRead mult l impl => tres_eqb (tres_of_out (c_read O (CTimeLong mult) VBad (int_write l))) impl
  | KDateWrite t impl => opt_bytes_eqb (c_write CDate (VTime t)) impl
  | KLongWrite mult t impl => opt_bytes_eqb (c_write (CTimeLong mult) (VTime t)) impl
  | KStringCodec t wrote read =>
      opt_bytes_eqb (c_write CTimeString (VTime t)) wrote &&
      tres_eqb (tres_of_out (c_read O CTimeString (VTime time_zero) wrote)) read
  end.

Definition bad_ids := bad_ids_gen check.
