(* Correspondence cases for C20: like Corr/Codec.v, but every case carries the
   registry of the process it was observed in -- the user-defined registrations
   in the order they were made (avro.Register: identity of the type, k of the
   custom codec; avro.RegisterSchema: identity, schema), on top of the
   library's own time/null registrations. *)
Require Import Avro.Model.Base Avro.Model.Prim Avro.Model.Schema Avro.Model.GoType
               Avro.Model.Blocks Avro.Model.Time Avro.Model.Spec Avro.Model.Codec Avro.Model.SchemaGen.
Require Export Avro.Corr.Codec.

Definition reg_of (regs : list (Z * Z)) : registry :=
  fold_left (fun reg p => reg_set reg (fst p) (BCustom (snd p))) regs reg_std.
Definition sreg_of (sregs : list (Z * gschema)) : sregistry :=
  fold_left (fun reg p => sreg_set reg (fst p) (snd p)) sregs sreg_std.

Inductive case :=
| KRegBuild (regs : list (Z * Z)) (g : gschema) (t : gtype) (impl_ok : bool)            (* Schema.Codec(out) *)
| KRegWrite (regs : list (Z * Z)) (g : gschema) (t : gtype) (v : gval) (impl : option bytes)
| KRegRead (regs : list (Z * Z)) (g : gschema) (t : gtype) (bs : bytes) (impl : cres)
| KRegSchema (sregs : list (Z * gschema)) (t : gtype) (impl : option gschema).            (* SchemaForType *)

Definition build_top_reg (regs : list (Z * Z)) (g : gschema) (t : gtype) : option codec :=
  let t' := top_type t in
  if is_struct t' then build (reg_of regs) (classify g) (Some t') false else None.

Definition check (c : case) : bool :=
  match c with
  | KRegBuild regs g t impl_ok =>
      Bool.eqb (match build_top_reg regs g t with Some _ => true | None => false end) impl_ok
  | KRegWrite regs g t v impl =>
      match build_top_reg regs g t with
      | Some c =>
        match c_write c v, impl with
        | Some m, Some i =>
          let s := classify g in
          (* identical bytes, or (maps are written in iteration order) the same datum in canonical form *)
          if bytes_eqb m i then true else
          match sd (fuel_for i) s i, sd (fuel_for m) s m with
          | Done di [], Done dm [] =>
              datum_same di dm && (len i =? len m) &&
              bytes_eqb (canon_encode s di) i     (* one unsized block per non-empty collection *)
          | _, _ => false
          end
        | None, None => true
        | _, _ => false
        end
      | None => false
      end
  | KRegRead regs g t bs impl =>
      match build_top_reg regs g t with
      | Some c => cres_eqb (cres_of (c_read (fuel_for bs) c (zero_of (top_type t)) bs)) impl
      | None => false
      end
  | KRegSchema sregs t impl =>
      match schema_for_type (sreg_of sregs) t, impl with
      | Some m, Some i => gschema_eqb m i
      | None, None => true
      | _, _ => false
      end
  end.

Definition bad_ids := bad_ids_gen check.
