(* Correspondence cases for C09 and C16: a call history of the real
   Encoder[T] over a recording (C09) or failing (C16) io.Writer, with every
   Write call kept as a separate chunk; [check] evaluates the model of
   Model/Container.v / Model/Writer.v on the same history and compares. *)
Require Coq.Init.Byte Coq.Strings.Byte.
Require Import Avro.Model.Base Avro.Model.Prim Avro.Model.Container Avro.Model.Writer Avro.Corr.Common.
Export Coq.Init.Byte.
Export Avro.Model.Base Avro.Model.Container Avro.Model.Writer Avro.Corr.Common.

(* Compact printing of byte strings by the harness: a list of [Init.Byte.byte]
   constructors ([x00] .. [xff]) is parsed and type-checked several times
   faster than a list of Z numerals. *)
Definition ub (l : list Init.Byte.byte) : bytes := map (fun x => Z.of_N (Coq.Strings.Byte.to_N x)) l.

(* The compressor enters the model as data: the identity for the null codec;
   for deflate and snappy the finite table  uncompressed payload -> stored
   bytes  observed on this run (the harness obtains the left column by
   decompressing every stored block with its own reference decompressor). *)
Inductive comp := CNull | CTable (t : list (bytes * bytes)).

Fixpoint lookup (t : list (bytes * bytes)) (x : bytes) {struct t} : bytes :=
  match t with
  | [] => []
  | (k, v) :: r => if bytes_eqb x k then v else lookup r x
  end.

Definition comp_fn (c : comp) : bytes -> bytes :=
  match c with
  | CNull => fun x => x
  | CTable t => lookup t
  end.

Definition lastn {A} (n : nat) (l : list A) : list A := skipn (length l - n) l.

Definition opt_blocks_eqb (a b : option (list (Z * bytes))) : bool :=
  match a, b with
  | Some x, Some y => list_eqb (fun p q => (fst p =? fst q) && bytes_eqb (snd p) (snd q)) x y
  | None, None => true
  | _, _ => false
  end.

Inductive case :=
(* fault-free history: all Write calls, the header first.  The sync marker is
   random per file: it is read from the last 16 bytes of the header chunk. *)
| KRun (schema_json codec_name : bytes) (c : comp) (size : Z) (ops : list enc_op) (chunks : list bytes)
(* writer failing at Write index k (0 = the header write inside NewEncoderFor)
   after taking [partial] bytes of that chunk: the bytes the writer holds and
   whether the call that issued the Write returned an error.  [sync]: the
   failing run's own marker, read from its accepted header. *)
| KFault (schema_json codec_name sync : bytes) (c : comp) (size : Z) (ops : list enc_op)
         (k partial : nat) (accepted : bytes) (failed : bool).

Definition check (c : case) : bool :=
  match c with
  | KRun sj cn cp size ops chunks =>
    match chunks with
    | [] => false
    | hdr :: rest =>
      let sync := lastn 16 hdr in
      let model := snd (enc_run (comp_fn cp) sync size enc_init ops) in
      bytes_eqb hdr (header_bytes sj cn sync) &&
      list_eqb bytes_eqb model rest &&
      (* the theorems' reading of the same bytes: they parse back to the groups of the specification *)
      opt_blocks_eqb (parse_blocks sync (concat rest))
                     (Some (map (fun g : list bytes => (Z.of_nat (length g), comp_fn cp (concat g)))
                                (fst (blocks_spec size [] ops))))
    end
  | KFault sj cn sync cp size ops k partial accepted failed =>
    let r := file_run_fault (comp_fn cp) sj cn sync size ops k partial in
    bytes_eqb (fst r) accepted && Bool.eqb (snd r) failed
  end.

Definition bad_ids := bad_ids_gen check.
