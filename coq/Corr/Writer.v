(* Correspondence cases for C09 and C16: a call history of the real
   Encoder[T] over a recording (C09) or failing (C16) io.Writer, with every
   Write call kept as a separate chunk; [check] evaluates the model of
   Model/Container.v / Model/Writer.v on the same history and compares. *)
Require Coq.Init.Byte Coq.Strings.Byte.
Require Import Avro.Model.Base Avro.Model.Prim Avro.Model.Container Avro.Model.Compress Avro.Model.Writer Avro.Corr.Common.
Export Coq.Init.Byte.
Export Avro.Model.Base Avro.Model.Container Avro.Model.Writer Avro.Corr.Common.

(* Compact printing of byte strings by the harness: a list of [Init.Byte.byte]
   constructors ([x00] .. [xff]) is parsed and type-checked several times
   faster than a list of Z numerals. *)
Definition ub (l : list Init.Byte.byte) : bytes := map (fun x => Z.of_N (Coq.Strings.Byte.to_N x)) l.

(* The compressor enters the model as data: the identity for the null codec;
   for deflate and snappy the finite table  uncompressed payload -> stored
   bytes  observed on this run (the harness obtains the left column by
   decompressing every stored block with its own reference decompressor). *)
(* CSnappy: the table holds only golang/snappy's own output for each payload (the stored
   bytes without their last four); the model appends the big-endian CRC-32 of the payload
   itself (Model/Compress.v, snappy_compress). *)
Inductive comp := CNull | CTable (t : list (bytes * bytes)) | CSnappy (t : list (bytes * bytes)).

Fixpoint lookup (t : list (bytes * bytes)) (x : bytes) {struct t} : bytes :=
  match t with
  | [] => []
  | (k, v) :: r => if bytes_eqb x k then v else lookup r x
  end.

Definition comp_fn (c : comp) : bytes -> bytes :=
  match c with
  | CNull => fun x => x
  | CTable t => lookup t
  | CSnappy t => snappy_compress (lookup t)
  end.

Definition lastn {A} (n : nat) (l : list A) : list A := skipn (length l - n) l.

Definition opt_blocks_eqb (a b : option (list (Z * bytes))) : bool :=
  match a, b with
  | Some x, Some y => list_eqb (fun p q => (fst p =? fst q) && bytes_eqb (snd p) (snd q)) x y
  | None, None => true
  | _, _ => false
  end.

Inductive case :=
(* fault-free history: all Write calls, the header first, at whatever granularity
   the implementation issues them.  The sync marker is random per file: it is
   read from the stream, at the end of the header (whose length does not depend
   on the marker's value). *)
| KRun (schema_json codec_name : bytes) (c : comp) (size : Z) (ops : list enc_op) (chunks : list bytes)
(* writer failing at Write index k (0 = the first Write call of all) after taking
   [partial] bytes of that chunk: the bytes the writer holds and whether a call
   returned an error.  [sync]: the failing run's own marker, read from its
   accepted header.  [lens]: the lengths of the Write calls of the fault-free
   run of the same history (the implementation's own granularity). *)
| KFault (schema_json codec_name sync : bytes) (c : comp) (size : Z) (ops : list enc_op)
         (lens : list nat) (k partial : nat) (accepted : bytes) (failed : bool)
(* the FileWriter used directly: a history of WriteHeader / AppendHeader / WriteBlock calls of one
   FileWriter over several writers; [outs]: what each writer held in the end (writer 0 first) and
   [appended]: what each AppendHeader call returned, in call order.  The sync marker is read
   from the first header writer 0 received. *)
| KFw (schema_json codec_name : bytes) (c : comp) (ops : list fw_op) (outs : list bytes) (appended : list bytes).

Definition pair_eqb (a b : bytes * bool) : bool := bytes_eqb (fst a) (fst b) && Bool.eqb (snd a) (snd b).

Definition check (c : case) : bool :=
  match c with
  | KRun sj cn cp size ops chunks =>
    let all := concat chunks in
    let hl := length (header_bytes sj cn (repeat 0 16)) in
    let sync := firstn 16 (skipn (hl - 16) all) in
    let model := file_chunks (comp_fn cp) sj cn sync size ops in
    (* the bytes written: header, then the blocks of the model's writer *)
    bytes_eqb (concat model) all &&
    (* the theorems' reading of the same bytes: they parse back to the groups of the specification *)
    opt_blocks_eqb (parse_blocks sync (skipn hl all))
                   (Some (map (fun g : list bytes => (Z.of_nat (length g), comp_fn cp (concat g)))
                              (fst (blocks_spec size [] ops))))
  | KFault sj cn sync cp size ops lens k partial accepted failed =>
    let model := file_chunks (comp_fn cp) sj cn sync size ops in
    let stream := concat model in
    Nat.eqb (list_sum lens) (length stream) &&
    (* the failing writer over the implementation's own Write calls (fault_any_granularity) *)
    pair_eqb (fault_of_chunks (rechunk lens stream) k partial) (accepted, failed) &&
    (* and, where these are the model's Write calls, the stateful fault run itself *)
    (if list_eqb Nat.eqb lens (map (@length Z) model)
     then pair_eqb (file_run_fault (comp_fn cp) sj cn sync size ops k partial) (accepted, failed)
     else true)
  | KFw sj cn cp ops outs appended =>
    let hl := length (header_bytes sj cn (repeat 0 16)) in
    let sync := firstn 16 (skipn (hl - 16) (hd [] outs)) in
    list_eqb bytes_eqb (map (fw_written (comp_fn cp) sj cn sync ops) (seq 0 (length outs))) outs &&
    list_eqb bytes_eqb
      (flat_map (fun op => match op with FwAppend buf => [fw_append sj cn sync buf] | _ => [] end) ops)
      appended
  end.

Definition bad_ids := bad_ids_gen check.
