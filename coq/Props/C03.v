(* C03 — Reader decodes every spec-legal encoding of a datum to that datum. *)
From Coq Require Import List ZArith.
Require Import Avro.Model.Base Avro.Model.Prim Avro.Model.Schema Avro.Model.GoType
               Avro.Model.Spec Avro.Model.Codec Avro.Model.Denote.
Require Import Avro.Proofs.Wire Avro.Proofs.BuildP Avro.Proofs.ReadP Avro.Proofs.PrimP.
Require Import Avro.Model.Container Avro.Proofs.ContainerP Avro.Proofs.FileP Avro.Proofs.EndToEnd Avro.Proofs.ReadSoundP.
Import ListNotations.
Open Scope Z_scope.

(* Whatever bytes the strict reference decoder accepts as datum d under schema s
   — arrays and maps cut into any number of blocks, with or without byte sizes,
   null in either union position — the codec built for (s, any Go type, any
   registry) decodes into any destination exactly the datum-level value
   [apply_datum c dest d] and leaves the same unread suffix.  The result does
   not depend on how the writer chose to serialise d. *)
Theorem C03_reader_complete : forall reg s t om c fuel bs d r dest v,
  build reg s t om = Some c -> sd fuel s bs = Done d r -> apply_datum c dest d = Some v ->
  c_read fuel c dest bs = Done v r.
Proof. intros. eapply read_complete; eauto. eapply build_wire; eauto. Qed.
Print Assumptions C03_reader_complete.

(* integers are never silently truncated: a successful integer read stored the
   exact wire value and that value fits the destination width *)
Theorem C03_no_truncation : forall w bs v rest,
  int_read w bs = Done v rest -> int_fits w v = true /\ dec_varint bs = VOk (v, rest).
Proof. exact int_read_never_truncates. Qed.
Print Assumptions C03_no_truncation.

(* Through the container: a file whose blocks any conforming writer laid out —
   each payload a concatenation of specification encodings (any legal block
   structure inside) of well-typed datums with an image in the target, stored
   under any codec whose decompressor returns that payload — is read to its end:
   every record is delivered, in order, with success; and each record's bytes
   decode to the datum's image whatever follows them (C03_record_value). *)
Theorem C03_through_container : forall reg s t om c, build reg s t om = Some c ->
  forall fuel dest decompress sync, len sync = 16 ->
  forall bl bfuel, Forall (foreign_block_ok s c fuel dest decompress) bl -> (length bl < bfuel)%nat ->
  read_blocks decompress (rr c fuel dest) (fun _ => None) bfuel sync 0 (concat (map (vb_bytes sync) bl))
  = (total bl, FOk).
Proof. intros reg s t om c Hb fuel dest dc sync Hs bl bfuel. exact (foreign_file_reads reg s t om c Hb fuel dest dc sync Hs bl bfuel). Qed.
Print Assumptions C03_through_container.

Theorem C03_record_value : forall reg s t om c, build reg s t om = Some c ->
  forall fuel dest r v', spec_record s c fuel dest r v' ->
  rec_decodes (rr c fuel dest) r /\ forall rest, rv c fuel dest (r ++ rest) = Some v'.
Proof. intros reg s t om c Hb fuel dest r v'. exact (spec_record_decodes reg s t om c Hb fuel dest r v'). Qed.
Print Assumptions C03_record_value.

(* The converse: whenever the library's reader succeeds on input the reference
   decoder accepts as datum d, what it returns is exactly the datum's image
   [apply_datum c dest d] and it stops where the encoding ends.  Together with
   C03_reader_complete: the read succeeds if and only if d has an image in the
   destination; a datum that does not fit (an integer outside the Go width, a
   timestamp text that does not parse, at any depth of records, arrays, maps,
   unions and pointers) is refused, never silently altered. *)
Theorem C03_reader_sound : forall reg s t om c fuel dest bs d r v r',
  build reg s t om = Some c -> sd fuel s bs = Done d r -> c_read fuel c dest bs = Done v r' ->
  apply_datum c dest d = Some v /\ r' = r.
Proof. intros reg s t om c fuel dest bs d r v r' Hb. eapply read_sound. eapply build_wire. exact Hb. Qed.
Print Assumptions C03_reader_sound.

Theorem C03_succeeds_iff_fits : forall reg s t om c fuel dest bs d r,
  build reg s t om = Some c -> sd fuel s bs = Done d r ->
  ((exists v r', c_read fuel c dest bs = Done v r') <-> (exists v, apply_datum c dest d = Some v)).
Proof.
  intros reg s t om c fuel dest bs d r Hb Hsd. pose proof (build_wire _ _ _ _ _ Hb) as W. split.
  - intros (v & r' & Hr). exists v. exact (proj1 (read_sound fuel c s dest bs d r v r' W Hsd Hr)).
  - intros (v & Ha). exists v, r. eapply read_complete; eauto.
Qed.
Print Assumptions C03_succeeds_iff_fits.

(* non-vacuity: one datum, two legal serialisations, two compatible targets *)
Example C03_ex :
  let s := SRecord [([97], SUnion [SLong LtNone; SNull]); ([98], SArray (SUnion [SNull; SString]))] in
  let d := DRecord [DUnion 0 (DLong 300); DArray [DUnion 1 (DString [104]); DUnion 0 DNull]] in
  let e1 := spec_encode ChLeaf s d in
  let e2 := spec_encode (ChRec [ChLeaf; ChColl [(0%nat, true); (0%nat, false)] []]) s d in
  let t := TStruct [] [] [GF [65] true [97] [] (TPtr (TInt I32)); GF [66] true [98] [] (TSlice (TPtr TString))] in
  e1 <> e2 /\ sd 50 s e1 = Done d [] /\ sd 50 s e2 = Done d [] /\
  exists c v, build reg_std s (Some t) false = Some c /\
              c_read 50 c (zero_of t) e1 = Done v [] /\ c_read 50 c (zero_of t) e2 = Done v [] /\
              v = VStruct [VPtr (Some (VInt 300)); VSlice [VPtr (Some (VStr [104])); VPtr None]].
Proof.
  cbv zeta. split; [vm_compute; discriminate|]. split; [vm_compute; reflexivity|]. split; [vm_compute; reflexivity|].
  eexists. eexists. split; [vm_compute; reflexivity|]. split; [vm_compute; reflexivity|]. split; vm_compute; reflexivity.
Qed.

(* ---- the reading side as one statement, for files of any conforming writer ----
   Header: any list of non-empty metadata blocks (application entries next to avro.schema and
   avro.codec, any order, later entries win).  Schema document: any JSON tree the schema parser
   accepts (key order, unknown attributes, primitives spelled as objects: C14).  Target: any Go
   type the builder accepts for the parsed schema.  Blocks: any partition, each payload a
   concatenation of arbitrary specification encodings of typed datums that fit the target.
   ReadFile then reads the header, parses the schema, builds that codec, and delivers every
   record in order with success.  [untext] is the JSON library's bytes -> tree layer. *)
From Coq Require Import String.
Require Import Avro.Model.Json Avro.Corr.Codec Avro.Proofs.HeaderGenP Avro.Proofs.PipelineP.
Local Open Scope string_scope.
Local Open Scope list_scope.
Theorem C03_foreign_pipeline : forall (untext : bytes -> option json) decompress sync, len sync = 16 ->
  forall (mb : list (list entry)) sj j g out c fuel blocks bfuel,
  Forall block_ok mb ->
  meta_get (set_blocks [] mb) (b "avro.schema") = Some sj ->
  untext sj = Some j -> unmarshal j = Some g -> build_top g out = Some c ->
  Forall (foreign_block_ok (classify g) c fuel (zero_of (top_type out)) decompress) blocks ->
  (length blocks < bfuel)%nat ->
  exists h body,
    read_header (gen_header mb sync ++ concat (map (vb_bytes sync) blocks)) = Some (h, body) /\
    h_sync h = sync /\ h_meta h = set_blocks [] mb /\
    reader_codec untext h out = Some c /\
    read_blocks decompress (rr c fuel (zero_of (top_type out))) (fun _ => None) bfuel sync 0 body
      = (total blocks, FOk).
Proof. exact foreign_pipeline. Qed.
Print Assumptions C03_foreign_pipeline.

(* What a record, enum or fixed is called - name and namespace, at any depth of the writer's
   schema - plays no part in reading: rename every named type by an arbitrary function of
   (name, namespace) and the reader builds the same codec for every target type.  (A file
   written by NewEncoderFor[T] is read into any compatible type, whatever that type is called.) *)
Require Import Avro.Proofs.NamesP.
Theorem C03_names_play_no_part : forall rho g t,
  classify (gs_rename rho g) = classify g /\ build_top (gs_rename rho g) t = build_top g t.
Proof. intros rho g t. exact (conj (classify_rename rho g) (build_top_rename rho g t)). Qed.
Print Assumptions C03_names_play_no_part.
