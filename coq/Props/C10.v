(* C10 — Delivered values stay intact until their resource bank is closed.
   Statements over ALL histories of bank operations (Model/Bank.v: Get/NewBuf/Extract with
   the pool's choice as oracle, Alloc, ToString with append's growth as oracle, Close,
   Store through an allocation), started from the empty world.  [w_live] is the ghost list
   of allocations and strings handed out by banks not closed since; a history is
   well formed ([wf_hist]) when the pool returns only pooled banks, append grows enough,
   nobody uses a bank between its Close and its next hand-out, and stores go through
   live allocations within their extent.  Only statements here; proofs in Proofs/BankP.v. *)
From Coq Require Import List ZArith Lia.
Require Import Avro.Model.Bank Avro.Proofs.BankP.
Import ListNotations.

(* (1) live allocations and strings of all banks are pairwise disjoint sets of cells *)
Theorem C10_disjoint : forall ops,
  wf_hist init ops -> ForallOrdPairs disjoint (w_live (run init ops)).
Proof. exact top_disjoint. Qed.
Print Assumptions C10_disjoint.

(* ... and every one of them lies inside its array *)
Theorem C10_in_bounds : forall ops,
  wf_hist init ops -> Forall (in_bounds (w_heap (run init ops))) (w_live (run init ops)).
Proof. exact top_in_bounds. Qed.
Print Assumptions C10_in_bounds.

(* (2) a step changes a cell of a live allocation only if it is a Store through that very
   allocation covering that cell: Alloc's clearing, ToString's append (in place or with
   reallocation), Close, the pool, every operation on other banks leave it alone *)
Theorem C10_frame_step : forall pre o a arr i,
  wf_hist init (pre ++ [o]) -> In a (w_live (run init pre)) -> in_alloc a arr i ->
  cell (w_heap (run init (pre ++ [o]))) arr i = cell (w_heap (run init pre)) arr i \/
  exists off vs, o = Store a off vs /\ al_off a + off <= i < al_off a + off + length vs.
Proof. exact top_frame_step. Qed.
Print Assumptions C10_frame_step.

(* for any history pre ++ seg and any allocation live after pre: if seg neither closes its
   bank nor stores through it, its content after seg is its content after pre, and it is
   still live -- however many records, blocks, banks, closes and reuses seg contains *)
Theorem C10_frame : forall pre seg a,
  wf_hist init (pre ++ seg) -> In a (w_live (run init pre)) ->
  (forall o, In o seg -> o <> Close (al_bank a)) ->
  (forall o off vs, In o seg -> o <> Store a off vs) ->
  content (w_heap (run init (pre ++ seg))) a = content (w_heap (run init pre)) a /\
  In a (w_live (run init (pre ++ seg))).
Proof. exact top_frame. Qed.
Print Assumptions C10_frame.

(* (3) Alloc returns a new live allocation of the bank, of the size registered for the type,
   inside its array, reading as all zero -- also on recycled memory *)
Theorem C10_zeroed : forall pre r ty sz,
  wf_hist init (pre ++ [Alloc r ty sz]) ->
  exists a bk, w_live (run init (pre ++ [Alloc r ty sz])) = a :: w_live (run init pre) /\
    resolve (run init pre) r = Some (al_bank a) /\
    nth_error (w_banks (run init pre)) (al_bank a) = Some bk /\
    al_len a = match find_idx ty (b_types bk) with
               | Some j => a_size (nth j (b_types bk) (mkArena 0 0 0 0 0))
               | None => sz end /\
    content (w_heap (run init (pre ++ [Alloc r ty sz]))) a = repeat 0%Z (al_len a) /\
    in_bounds (w_heap (run init (pre ++ [Alloc r ty sz]))) a.
Proof. exact top_zeroed. Qed.
Print Assumptions C10_zeroed.

(* ToString returns a new live string whose content is the data *)
Theorem C10_string : forall pre r data g,
  wf_hist init (pre ++ [ToString r data g]) ->
  exists a, w_live (run init (pre ++ [ToString r data g])) = a :: w_live (run init pre) /\
    resolve (run init pre) r = Some (al_bank a) /\
    content (w_heap (run init (pre ++ [ToString r data g]))) a = data /\
    in_bounds (w_heap (run init (pre ++ [ToString r data g]))) a.
Proof. exact top_string. Qed.
Print Assumptions C10_string.

(* Close ends the life of exactly the allocations of the closed bank *)
Theorem C10_close : forall pre b,
  wf_hist init (pre ++ [Close b]) ->
  forall a, In a (w_live (run init (pre ++ [Close b]))) <->
            (In a (w_live (run init pre)) /\ al_bank a <> b).
Proof. exact top_close. Qed.
Print Assumptions C10_close.

(* the pool hands a closed bank to one holder only: once Get returned it, it is not in the
   pool and a second Get of it is not a legal oracle answer until it is closed again *)
Theorem C10_pool_exclusive : forall pre b,
  wf_hist init (pre ++ [Get (Some b)]) ->
  ~ In b (w_pool (run init (pre ++ [Get (Some b)]))) /\
  ~ wf_op (run init (pre ++ [Get (Some b)])) (Get (Some b)).
Proof. exact top_pool. Qed.
Print Assumptions C10_pool_exclusive.

(* the executable test used by the correspondence check implies well-formedness *)
Theorem C10_wf_test_sound : forall ops w, wf_histb w ops = true -> wf_hist w ops.
Proof. exact wf_histb_sound. Qed.
Print Assumptions C10_wf_test_sound.

(* ---- non-vacuity: a concrete well-formed history exercising recycled dirty memory,
   arena growth, close, reuse through the pool by another holder (a ReadBuf), in-place
   append over the closed strings and string store reallocation ------------------------- *)
Definition ex_a1 := mkAlloc 0 0 0 8.
Definition ex_pre : list op :=
  [ Get None; Alloc (Direct 0) 7 8; Store ex_a1 0 [9;9;9;9;9;9;9;9]%Z;
    ToString (Direct 0) [1;2;3]%Z 8; Close 0; NewBuf (Some 0); Alloc (Via 0) 7 8 ].
Definition ex_seg : list op :=
  repeat (Alloc (Via 0) 7 8) 16 ++
  [ ToString (Via 0) [4;5]%Z 8; ToString (Via 0) [1;2;3;4;5;6;7]%Z 16;
    Extract 0 None; Alloc (Via 0) 7 8; Get None; ToString (Direct 2) [] 0 ].

Example C10_ex_wf : wf_hist init (ex_pre ++ ex_seg).
Proof. apply wf_histb_sound. vm_compute. reflexivity. Qed.

(* the recycled slot is the very cells of the dirtied first allocation, and reads zero;
   after 16 more allocations (growth to a fresh array), two appends (the second
   reallocating) and other banks' work it is still live and still zero *)
Example C10_ex_facts :
  w_live (run init ex_pre) = [ex_a1] /\
  content (w_heap (run init (firstn 4 ex_pre))) ex_a1 = [9;9;9;9;9;9;9;9]%Z /\
  content (w_heap (run init ex_pre)) ex_a1 = repeat 0%Z 8 /\
  content (w_heap (run init (ex_pre ++ ex_seg))) ex_a1 = repeat 0%Z 8 /\
  length (w_heap (run init (ex_pre ++ ex_seg))) = 5 /\
  length (w_live (run init (ex_pre ++ ex_seg))) = 21 /\
  In (mkAlloc 0 2 128 8) (w_live (run init (ex_pre ++ ex_seg))) /\
  In (mkAlloc 0 1 0 2) (w_live (run init (ex_pre ++ ex_seg))) /\
  In (mkAlloc 0 3 2 7) (w_live (run init (ex_pre ++ ex_seg))) /\
  content (w_heap (run init (ex_pre ++ ex_seg))) (mkAlloc 0 1 0 2) = [4;5]%Z /\
  w_pool (run init (ex_pre ++ ex_seg)) = [] /\
  wf_opb (run init (ex_pre ++ ex_seg)) (Get (Some 0)) = false /\
  wf_opb (run init (firstn 5 ex_pre)) (Alloc (Direct 0) 7 8) = false.
Proof. vm_compute. repeat split; auto 30. Qed.

Example C10_ex_frame_applies :
  content (w_heap (run init (ex_pre ++ ex_seg))) ex_a1 = content (w_heap (run init ex_pre)) ex_a1.
Proof.
  apply C10_frame.
  - exact C10_ex_wf.
  - vm_compute. auto.
  - intros o Ho. vm_compute in Ho. intuition (subst; discriminate).
  - intros o off vs Ho. vm_compute in Ho. intuition (subst; discriminate).
Qed.

(* the reading of contents used by the correspondence evaluation is the model's [content] *)
Theorem C10_fast_content : forall ops a,
  wf_hist init ops -> In a (w_live (run init ops)) ->
  fcontent (w_heap (run init ops)) a = content (w_heap (run init ops)) a.
Proof.
  intros ops a H Ha. apply fcontent_eq.
  pose proof (C10_in_bounds ops H) as Hb. rewrite Forall_forall in Hb. auto.
Qed.
Print Assumptions C10_fast_content.
