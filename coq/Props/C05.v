(* C05 — Decoder construction is type-sound and decoding stays inside the destination. *)
From Coq Require Import List ZArith Lia Bool.
Require Import Avro.Model.Base Avro.Model.Prim Avro.Model.Schema Avro.Model.GoType
               Avro.Model.Codec Avro.Model.Layout.
Require Import Avro.Model.Typing.
Require Import Avro.Proofs.LayoutP Avro.Proofs.TypedP Avro.Proofs.CtypeP.
Import ListNotations.
Open Scope Z_scope.

(* For every schema, Go type and registry in which the library's wrapper codecs
   are registered for their own types only (user-defined custom codecs may be
   registered for anything): if buildCodec returns a codec, then at every
   position of the type tree — struct fields, slice elements, map values,
   pointees, union branches — the store the codec performs is exactly as wide
   as the Go type at that position (amd64 layout), so it cannot touch adjacent
   bytes, sibling fields or memory around the struct. *)
Theorem C05_build_sound : forall reg, reg_sane reg ->
  forall s t om c, build reg s (Some t) om = Some c -> fits c t.
Proof. exact build_fits. Qed.
Print Assumptions C05_build_sound.

Theorem C05_standard_registry_sane : reg_sane reg_std /\
  (forall reg id k, reg_sane reg -> reg_sane (reg_set reg id (BCustom k))).
Proof. split; [exact reg_std_sane|exact reg_set_sane]. Qed.
Print Assumptions C05_standard_registry_sane.

(* ... with a value of that field's own type: for ANY byte string (valid or not)
   and any destination of Go type t, a built decoder either fails or returns a
   value of type t — at every level (struct fields, elements, map values,
   pointees) — and it never panics. *)
Theorem C05_typed : forall reg, reg_sane reg ->
  forall s t om c fuel dest bs, build reg s (Some t) om = Some c -> wt t dest ->
  c_read fuel c dest bs <> Panic /\ (forall v r, c_read fuel c dest bs = Done v r -> wt t v).
Proof. exact built_codec_safe. Qed.
Print Assumptions C05_typed.

Theorem C05_zero_is_typed : forall t, wt t (zero_of t).
Proof. exact zero_wt. Qed.
Print Assumptions C05_zero_is_typed.

(* Mismatched pairs are rejected when the decoder is built.  The table below is
   the specification of what is compatible for an unregistered, pointer-free Go
   type; everything else makes the dispatch fail. *)
Definition compat_table (s : schema) (u : gtype) : bool :=
  match s, u with
  | SNull, _ => true
  | SBool, TBool => true
  | (SInt _ | SLong _), TInt (I16 | I32 | I64 | IInt) => true
  | SFloat, TFloat32 => true
  | SDouble, (TFloat32 | TFloat64) => true
  | SBytes, TSlice e => is_u8 e
  | SString, TString => true
  | SFixed n, TArray m e => is_u8 e && (m =? n) && (0 <=? n)
  | SRecord _, TStruct _ _ _ => true
  | SArray _, TSlice _ => true
  | SMap _, TMap k _ => match underlying k with TString => true | _ => false end
  | _, _ => false
  end.

Theorem C05_rejects_mismatch : forall bld s t0 om c,
  disp bld s (Some t0) om = Some c -> compat_table s (underlying t0) = true.
Proof.
  intros bld s t0 om c H. unfold disp in H. cbn [option_map] in H.
  destruct s; try discriminate H; unfold build_prim in H; cbn [compat_table].
  - reflexivity.
  - destruct (underlying t0); try discriminate H; reflexivity.
  - destruct (underlying t0) as [| [] | | | | | | | | | | | | | | | |]; try discriminate H; reflexivity.
  - destruct (underlying t0) as [| [] | | | | | | | | | | | | | | | |]; try discriminate H; reflexivity.
  - destruct (underlying t0); try discriminate H; reflexivity.
  - destruct (underlying t0); try discriminate H; reflexivity.
  - destruct (underlying t0); try discriminate H. destruct (is_u8 g); [reflexivity|discriminate H].
  - destruct (underlying t0); try discriminate H; reflexivity.
  - destruct (size <? 0) eqn:E; try discriminate H. destruct (underlying t0); try discriminate H.
    destruct (is_u8 g && (n =? size)) eqn:Eg; try discriminate H. cbn [andb]. lia.
  - destruct (underlying t0); cbn [struct_fields] in H; try discriminate H; reflexivity.
  - destruct (underlying t0); try discriminate H; reflexivity.
  - destruct (underlying t0); try discriminate H. destruct (underlying g1); try discriminate H; reflexivity.
Qed.
Print Assumptions C05_rejects_mismatch.

(* enum, unknown type names and object types without their attributes are always refused *)
Theorem C05_rejects_unsupported : forall reg t om n,
  build reg (SEnum n) (Some t) om = None /\ build reg SBad (Some t) om = None.
Proof.
  intros reg t om n. split; cbn [build]; destruct (peel t) as [k t0]; destruct k; unfold build_base;
    destruct (reg_lookup reg t0) as [[w|kk]|]; try reflexivity; try (destruct w; reflexivity).
Qed.
Print Assumptions C05_rejects_unsupported.

(* non-vacuity: int16 gets a two-byte store, int64 under the same schema eight *)
Example C05_ex :
  let s := SRecord [([97], SLong LtNone); ([98], SUnion [SNull; SFixed 4])] in
  let t := TStruct [] [] [GF [65] true [97] [] (TInt I16); GF [66] true [98] [] (TPtr (TArray 4 (TInt U8)))] in
  (exists c, build reg_std s (Some t) false = Some c /\ fits c t /\
     c = CRecord [(CInt 16 false, Some 0%nat); (CUnionOne (CPtr (CFixed 4) (VFixed [0;0;0;0])) 1, Some 1%nat)]) /\
  build reg_std s (Some (TStruct [] [] [GF [65] true [97] [] (TInt I8)])) false = None /\
  sizeof t = 16 /\ field_offsets [GF [65] true [97] [] (TInt I16); GF [66] true [98] [] (TPtr (TArray 4 (TInt U8)))] 0 = [0; 8].
Proof.
  cbv zeta. split; [eexists; split; [vm_compute; reflexivity|split; [|reflexivity]]|].
  - cbn. repeat split; reflexivity.
  - repeat split; vm_compute; reflexivity.
Qed.
