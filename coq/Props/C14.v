(* C14 — Schema JSON parsing and serialisation are faithful inverses.
   Statements only, closed by [exact] (or one or two lines), with [Print Assumptions]
   under each, and non-vacuity examples.

   [unmarshal : json -> option gschema] models Schema.UnmarshalJSONFrom with the
   tag-driven decoding it delegates to, [marshal : gschema -> json] models
   Schema.MarshalJSONTo token by token (Model/Json.v); the step text <-> tree is the
   JSON library's and is exercised by the driver, not modelled. *)
From Coq Require Import List ZArith Bool String Permutation.
Require Import Avro.Model.Base Avro.Model.Schema Avro.Model.GoType Avro.Model.Codec Avro.Model.SchemaGen Avro.Model.Json.
Require Import Avro.Proofs.JsonP Avro.Proofs.JsonGenP.
Import ListNotations.
Open Scope Z_scope.

(* ---- (1) printing then parsing ------------------------------------------------------------------- *)

(* For every well-formed schema value, of any depth: the written document parses, and the
   result agrees with s on every attribute that belongs to each node's type
   (gs_meaning s is s with the other attributes reset to zero). *)
Theorem C14_parse_print : forall s,
  wf_gschema s -> unmarshal (marshal s) = Some (gs_meaning s) /\ gschema_equiv s (gs_meaning s).
Proof. exact parse_print. Qed.
Print Assumptions C14_parse_print.

(* exactly s when s carries no attribute outside its node types *)
Theorem C14_parse_print_exact : forall s, gs_normal s = true -> unmarshal (marshal s) = Some s.
Proof. exact parse_print_exact. Qed.
Print Assumptions C14_parse_print_exact.

Theorem C14_normal_is_wf_fixpoint : forall s, gs_normal s = true -> wf_gschema s /\ gs_meaning s = s.
Proof. exact gs_normal_wf_fix. Qed.
Print Assumptions C14_normal_is_wf_fixpoint.

(* every value that parsing produces is well formed, so (1) applies to it; after one round
   trip the value is normal and from then on the round trip is the identity *)
Theorem C14_parsed_is_wf : forall j s, unmarshal j = Some s -> wf_gschema s.
Proof. exact unmarshal_wf. Qed.
Print Assumptions C14_parsed_is_wf.

Theorem C14_reparse_stable : forall j s,
  unmarshal j = Some s ->
  unmarshal (marshal s) = Some (gs_meaning s) /\ gs_normal (gs_meaning s) = true /\
  unmarshal (marshal (gs_meaning s)) = Some (gs_meaning s).
Proof. exact reparse_stable. Qed.
Print Assumptions C14_reparse_stable.

(* "unmarshal j = Some s -> gs_normal s" does NOT hold: the parser keeps a known attribute that
   does not belong to the node's type (here size on a record) and the writer drops it. *)
Theorem C14_parsed_normal_refuted : exists j s,
  unmarshal j = Some s /\ gs_normal s = false /\ unmarshal (marshal s) <> Some s.
Proof.
  exists (JObj [(b "type", JStr (b "record")); (b "fields", JArr []); (b "size", JNum (b "4") (Some 4))]).
  eexists. split; [vm_compute; reflexivity|]. split; [vm_compute; reflexivity|]. vm_compute. discriminate.
Qed.
Print Assumptions C14_parsed_normal_refuted.

(* schema generation (model of SchemaForType) yields normal values, given that the
   registered schemas are normal; they round-trip exactly *)
Theorem C14_generated_roundtrip : forall reg t s,
  reg_normal reg -> schema_for_type reg t = Some s ->
  gs_normal s = true /\ unmarshal (marshal s) = Some s.
Proof.
  intros reg t s Hr H. pose proof (schema_for_type_normal reg Hr t s H) as Hn.
  split; [exact Hn|exact (parse_print_exact s Hn)].
Qed.
Print Assumptions C14_generated_roundtrip.

Theorem C14_std_registry_normal : reg_normal sreg_std.
Proof. exact sreg_std_normal. Qed.
Print Assumptions C14_std_registry_normal.

(* what Marshal writes has no duplicate member name at any depth; Marshal fails exactly when
   the text layer refuses a string (invalid UTF-8) *)
Theorem C14_marshal_valid : forall s,
  json_nodup (marshal s) = true /\
  (json_text_ok (marshal s) = true -> marshal_impl s = Some (marshal s)) /\
  (json_text_ok (marshal s) = false -> marshal_impl s = None).
Proof. exact marshal_valid. Qed.
Print Assumptions C14_marshal_valid.

(* ---- (2) member order, at every depth -------------------------------------------------------------- *)

Theorem C14_key_order : forall j j', json_perm j j' -> unmarshal j = unmarshal j'.
Proof. exact unmarshal_key_order. Qed.
Print Assumptions C14_key_order.

(* ---- (3) unknown members ------------------------------------------------------------------------------ *)

(* removing every member that is not one of the nine schema attributes (in a record field:
   not name / type), at every depth, changes nothing; hence two documents that differ only
   in such members parse alike.  json_nodup: no object has two members of the same name
   (otherwise both are rejected, see C14_reject_duplicates). *)
Theorem C14_unknown_attrs : forall j, json_nodup j = true -> unmarshal (strip j) = unmarshal j.
Proof. exact unmarshal_strip. Qed.
Print Assumptions C14_unknown_attrs.

Theorem C14_unknown_attrs_rel : forall j j',
  json_nodup j = true -> json_nodup j' = true -> strip j = strip j' -> unmarshal j = unmarshal j'.
Proof. exact strip_determines. Qed.
Print Assumptions C14_unknown_attrs_rel.

Theorem C14_insert_unknown : forall ms1 k v ms2,
  obj_attr k = None -> json_nodup (JObj (ms1 ++ (k, v) :: ms2)) = true ->
  unmarshal (JObj (ms1 ++ (k, v) :: ms2)) = unmarshal (JObj (ms1 ++ ms2)).
Proof. exact unmarshal_insert_unknown. Qed.
Print Assumptions C14_insert_unknown.

(* ---- (4) structure ---------------------------------------------------------------------------------------- *)

Theorem C14_structure_string : forall s, unmarshal (JStr s) = Some (GS s None []).
Proof. reflexivity. Qed.
Print Assumptions C14_structure_string.

(* union branches, in order *)
Theorem C14_structure_union : forall l s,
  unmarshal (JArr l) = Some s <->
  exists us, s = GS (b "union") None us /\ Forall2 (fun x u => unmarshal x = Some u) l us.
Proof. exact unmarshal_union_structure. Qed.
Print Assumptions C14_structure_union.

(* an object: every attribute of the result is the decoded value of the member of that name,
   or the zero value when the member is absent *)
Theorem C14_structure_object : forall ms s,
  unmarshal (JObj ms) = Some s ->
  exists ty lt name ns fields items values size syms,
    s = GS ty (Some (GO lt name ns fields items values size syms)) [] /\
    field_of ms "type" dec_string [] ty /\
    field_of ms "logicalType" dec_string [] lt /\
    field_of ms "name" dec_string [] name /\
    field_of ms "namespace" dec_string [] ns /\
    field_of ms "fields" (dec_slice (dec_field unmarshal)) [] fields /\
    field_of ms "items" unmarshal gs_zero items /\
    field_of ms "values" unmarshal gs_zero values /\
    field_of ms "size" dec_int 0 size /\
    field_of ms "symbols" (dec_slice dec_string) [] syms.
Proof. exact unmarshal_object_structure. Qed.
Print Assumptions C14_structure_object.

Theorem C14_structure_field : forall fms n t,
  dec_field unmarshal (JObj fms) = Some (n, t) ->
  field_of fms "name" dec_string [] n /\ field_of fms "type" unmarshal gs_zero t.
Proof. exact dec_field_structure. Qed.
Print Assumptions C14_structure_field.

(* record fields and enum symbols: same length, same order *)
Theorem C14_structure_order : forall A (f : json -> option A) l out,
  dec_slice f (JArr l) = Some out <-> Forall2 (fun x a => f x = Some a) l out.
Proof. intros A f l out. exact (dec_slice_order f l out). Qed.
Print Assumptions C14_structure_order.

(* ---- (5) malformed trees --------------------------------------------------------------------------------- *)

(* a duplicate member name in any object, at any depth, inside known or unknown members *)
Theorem C14_reject_duplicates : forall j, json_nodup j = false -> unmarshal j = None.
Proof. exact unmarshal_rejects_duplicates. Qed.
Print Assumptions C14_reject_duplicates.

(* a known member whose value does not decode at its Go type: the whole document fails *)
Theorem C14_reject_member : forall ms k v kd,
  In (k, v) ms -> obj_attr k = Some kd -> dk_obj unmarshal kd v = None -> unmarshal (JObj ms) = None.
Proof. exact unmarshal_member_error. Qed.
Print Assumptions C14_reject_member.

Theorem C14_reject_field_member : forall fms k v kd,
  In (k, v) fms -> field_attr k = Some kd -> dk_field unmarshal kd v = None ->
  dec_field unmarshal (JObj fms) = None.
Proof. exact dec_field_member_error. Qed.
Print Assumptions C14_reject_field_member.

Theorem C14_reject_branch : forall l x, In x l -> unmarshal x = None -> unmarshal (JArr l) = None.
Proof. exact unmarshal_branch_error. Qed.
Print Assumptions C14_reject_branch.

(* which JSON kinds each Go type refuses: string fields take a string or null; int takes
   null or an integer literal within int64; slices take an array or null; a schema position
   takes a string, array or object (never null, a boolean or a number); an element of
   fields takes an object or null *)
Theorem C14_reject_kinds :
  (forall v, dec_string v = None <-> match v with JStr _ | JNull => False | _ => True end) /\
  (forall v, dec_int v = None <->
     match v with JNull => False | JNum _ (Some z) => int_ok z = false | _ => True end) /\
  (forall A (f : json -> option A) v, match v with JArr _ | JNull => False | _ => True end -> dec_slice f v = None) /\
  (forall v, match v with JStr _ | JArr _ | JObj _ => False | _ => True end -> unmarshal v = None) /\
  (forall v, match v with JObj _ | JNull => False | _ => True end -> dec_field unmarshal v = None).
Proof. exact kind_errors. Qed.
Print Assumptions C14_reject_kinds.

(* ---- non-vacuity ------------------------------------------------------------------------------------------ *)

Definition ex_fixed : json :=
  JObj [(b "type", JStr (b "fixed")); (b "size", JNum (b "16") (Some 16)); (b "name", JStr (b "md5"))].
Definition ex_enum : json :=
  JObj [(b "symbols", JArr [JStr (b "A"); JStr (b "B")]); (b "name", JStr (b "e")); (b "type", JStr (b "enum"));
        (b "doc", JStr (b "an enum")); (b "default", JStr (b "A"))].
Definition ex_doc : json :=
  JObj [(b "type", JStr (b "record")); (b "name", JStr (b "r")); (b "namespace", JStr (b "com.x"));
        (b "aliases", JArr [JStr (b "old")]);
        (b "fields", JArr [
           JObj [(b "name", JStr (b "f")); (b "type", JArr [JStr (b "null"); ex_fixed]); (b "default", JNull)];
           JObj [(b "type", JObj [(b "type", JStr (b "array")); (b "items", JObj [(b "type", JStr (b "map")); (b "values", ex_enum)])]);
                 (b "order", JStr (b "ignore")); (b "name", JStr (b "g"))];
           JObj [(b "name", JStr (b "h")); (b "type", JObj [(b "logicalType", JStr (b "date")); (b "type", JStr (b "int"))])]])].

Definition ex_schema : gschema :=
  GS (b "record") (Some (GO [] (b "r") (b "com.x")
    [ (b "f", GS (b "union") None [gs_prim "null"; GS (b "fixed") (Some (GO [] (b "md5") [] [] gs_zero gs_zero 16 [])) []]);
      (b "g", GS (b "array") (Some (GO [] [] [] []
                (GS (b "map") (Some (GO [] [] [] [] gs_zero
                   (GS (b "enum") (Some (GO [] (b "e") [] [] gs_zero gs_zero 0 [b "A"; b "B"])) []) 0 [])) [])
                gs_zero 0 [])) []);
      (b "h", GS (b "int") (Some (GO (b "date") [] [] [] gs_zero gs_zero 0 [])) []) ]
    gs_zero gs_zero 0 [])) [].

Example C14_ex_parse : unmarshal ex_doc = Some ex_schema /\ gs_normal ex_schema = true /\ wf_gschema ex_schema.
Proof. split; [|split]; vm_compute; reflexivity. Qed.

Example C14_ex_roundtrip :
  unmarshal (marshal ex_schema) = Some ex_schema /\ json_nodup ex_doc = true /\
  unmarshal (strip ex_doc) = Some ex_schema /\ strip ex_doc <> ex_doc /\
  marshal_impl ex_schema = Some (marshal ex_schema).
Proof.
  split; [vm_compute; reflexivity|]. split; [vm_compute; reflexivity|]. split; [vm_compute; reflexivity|].
  split; [vm_compute; discriminate|vm_compute; reflexivity].
Qed.

(* the same members in another order, at two depths *)
Example C14_ex_key_order :
  let inner := JObj [(b "name", JStr (b "f")); (b "type", ex_fixed)] in
  let inner' := JObj [(b "type", ex_fixed); (b "name", JStr (b "f"))] in
  let d := JObj [(b "type", JStr (b "record")); (b "name", JStr (b "r")); (b "fields", JArr [inner])] in
  let d' := JObj [(b "fields", JArr [inner']); (b "type", JStr (b "record")); (b "name", JStr (b "r"))] in
  json_perm d d' /\ d <> d' /\ exists s, unmarshal d = Some s /\ unmarshal d' = Some s.
Proof.
  cbv zeta. split; [|split].
  - eapply JP_obj with (ms1 := [(b "type", JStr (b "record")); (b "name", JStr (b "r"));
                                (b "fields", JArr [JObj [(b "type", ex_fixed); (b "name", JStr (b "f"))]])]).
    + constructor; [split; [reflexivity|apply json_perm_refl]|].
      constructor; [split; [reflexivity|apply json_perm_refl]|].
      constructor; [|constructor]. split; [reflexivity|]. cbn [snd].
      apply JP_arr. constructor; [|constructor].
      eapply JP_obj with (ms1 := [(b "name", JStr (b "f")); (b "type", ex_fixed)]).
      * constructor; [split; [reflexivity|apply json_perm_refl]|].
        constructor; [split; [reflexivity|apply json_perm_refl]|]. constructor.
      * apply perm_swap.
    + eapply perm_trans; [apply perm_skip; apply perm_swap|]. apply perm_swap.
  - vm_compute. discriminate.
  - eexists. split; vm_compute; reflexivity.
Qed.

(* malformed: every error class is inhabited *)
Example C14_ex_malformed :
  unmarshal JNull = None /\
  unmarshal (JObj [(b "type", JStr (b "int")); (b "type", JStr (b "int"))]) = None /\
  unmarshal (JObj [(b "type", JStr (b "int")); (b "doc", JObj [(b "a", JNull); (b "a", JNull)])]) = None /\
  unmarshal (JObj [(b "type", JNum (b "5") (Some 5))]) = None /\
  unmarshal (JObj [(b "type", JStr (b "fixed")); (b "size", JNum (b "1.5") None)]) = None /\
  unmarshal (JObj [(b "type", JStr (b "fixed")); (b "size", JNum (b "9223372036854775808") (Some 9223372036854775808))]) = None /\
  unmarshal (JObj [(b "type", JStr (b "fixed")); (b "size", JStr (b "4"))]) = None /\
  unmarshal (JObj [(b "type", JStr (b "record")); (b "fields", JObj [])]) = None /\
  unmarshal (JObj [(b "type", JStr (b "array")); (b "items", JNull)]) = None /\
  unmarshal (JArr [JStr (b "null"); JNum (b "1") (Some 1)]) = None /\
  (* and the lenient cases the library defines: null for a string / slice / int field *)
  unmarshal (JObj [(b "type", JStr (b "record")); (b "name", JNull); (b "fields", JNull); (b "size", JNull)])
    = Some (GS (b "record") (Some gobj_empty) []).
Proof. do 10 (split; [vm_compute; reflexivity|]). vm_compute; reflexivity. Qed.

Example C14_ex_generated :
  match schema_for_type sreg_std (TStruct (b "T") (b "pkg/x")
          [GF (b "A") true (b "a,omitempty") [] (TSlice TString); GF (b "B") true [] [] (TPtr (TInt I64))]) with
  | Some s => gs_normal s = true /\ unmarshal (marshal s) = Some s
  | None => False
  end.
Proof. vm_compute. split; reflexivity. Qed.
