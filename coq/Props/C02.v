(* C02 — Files written are valid Avro that an independent reader decodes identically.
   (Block and container framing: Props/C09.v.  Here: the payload of every
   record is the Avro binary encoding, under the schema alone, of the value.) *)
From Coq Require Import List ZArith.
Require Import Avro.Model.Base Avro.Model.Prim Avro.Model.Schema Avro.Model.GoType
               Avro.Model.Spec Avro.Model.Codec Avro.Model.Denote.
Require Import Avro.Proofs.Wire Avro.Proofs.BuildP Avro.Proofs.WriteP Avro.Proofs.SpecP Avro.Proofs.RoundTrip.
Require Import Avro.Model.Container Avro.Model.Writer Avro.Proofs.ContainerP Avro.Proofs.FileP Avro.Proofs.EndToEnd.
Import ListNotations.
Open Scope Z_scope.

(* W: for every codec built by the model of buildCodec (any registry, schema, Go
   type) and every Go value that denotes a datum d, Write emits exactly the
   canonical Avro encoding of d under the schema: nothing else, nothing missing. *)
Theorem C02_write_is_canonical_encoding : forall reg s t om c v d,
  build reg s t om = Some c -> datum_of c s v = Some d -> c_write c v = Some (canon_encode s d).
Proof. intros. eapply write_canon; eauto. eapply build_wire; eauto. Qed.
Print Assumptions C02_write_is_canonical_encoding.

(* S∘W: the strict reference decoder, written from the specification and sharing
   nothing with the codecs, recovers exactly that datum from the written bytes,
   with no bytes left over (rest is returned untouched). *)
Theorem C02_reference_reader_recovers : forall reg s t om c v d bs fuel rest,
  build reg s t om = Some c -> datum_of c s v = Some d -> phys_ok s d ->
  c_write c v = Some bs -> (3 * dmax d + 1 <= fuel)%nat ->
  bs = canon_encode s d /\ sd fuel s (bs ++ rest) = Done d rest.
Proof. exact written_is_valid_avro. Qed.
Print Assumptions C02_reference_reader_recovers.

(* S in general: the reference decoder accepts every encoding the specification
   allows (any block cuts, sized or not), so agreeing with it is not vacuous. *)
Theorem C02_reference_decoder_complete : forall s d ch fuel rest,
  typed s d = true -> (3 * dmax d + 1 <= fuel)%nat ->
  len (spec_encode ch s d) < two63 -> Z.of_nat (dmax d) < two63 ->
  sd fuel s (spec_encode ch s d ++ rest) = Done d rest.
Proof. intros. apply sd_spec_encode; auto. Qed.
Print Assumptions C02_reference_decoder_complete.

(* null stays distinguishable from zero *)
Theorem C02_null_branch : forall c nn x1 x2 v,
  c_omit c v = true -> datum_of (CUnionOne c nn) (SUnion [x1; x2]) v = Some (DUnion (1 - nn) DNull).
Proof. exact union_one_null_branch. Qed.
Print Assumptions C02_null_branch.

Theorem C02_value_branch : forall c nn x1 x2 v d,
  c_omit c v = false -> datum_of c (if nn =? 0 then x1 else x2) v = Some d ->
  datum_of (CUnionOne c nn) (SUnion [x1; x2]) v = Some (DUnion nn d).
Proof. exact union_one_value_branch. Qed.
Print Assumptions C02_value_branch.

Theorem C02_what_is_omitted :
  (forall c z, c_omit (CPtr c z) (VPtr None) = true) /\
  (forall c z x, c_omit (CPtr c z) (VPtr (Some x)) = false) /\
  (forall p, c_omit CNullInt (VNullW false p) = true /\ c_omit CNullInt (VNullW true p) = false) /\
  (forall w om z, c_omit (CInt w om) (VInt z) = om && (z =? 0)) /\
  (forall om x, c_omit (CString om) (VStr x) = om && match x with [] => true | _ => false end) /\
  (forall c z om kvs, c_omit (CMap c z om) (VMap kvs) = false) /\
  (forall c z om, c_omit (CMap c z om) VMapNil = om).
Proof. exact omit_cases. Qed.
Print Assumptions C02_what_is_omitted.

(* The whole file.  For any history of Encode/Flush calls closed by a flush
   whose records are what codec c writes for values denoting physical datums,
   any block size and any compressor with an inverse: a reader that shares no
   code with the library's codecs — the container reader instantiated with the
   specification's reference decoder [sd] as its record decoder — recovers the
   header as written (magic, the schema and codec entries, the sync marker), reads
   every block (declared counts and sizes are exact, or it would stop), decodes
   exactly as many records as were appended with nothing left over in any block,
   and each record's bytes are the canonical Avro encoding of its datum and
   decode to it (C02_record_is_its_datum). *)
Theorem C02_file_is_valid_avro : forall reg s t om c, build reg s t om = Some c ->
  forall fuel compress decompress, (forall x, decompress (compress x) = Some x) ->
  forall sync, len sync = 16 ->
  forall schema_json codec_name size ops bfuel,
  len schema_json < two63 -> len codec_name < two63 ->
  Forall (fun r => exists d, written_datum s c fuel r d) (recs_of ops) ->
  Forall (group_small compress) (fst (blocks_spec size [] (ops ++ [OpFlush]))) ->
  (length (fst (blocks_spec size [] (ops ++ [OpFlush]))) < bfuel)%nat ->
  exists body,
    read_header (concat (file_chunks compress schema_json codec_name sync size (ops ++ [OpFlush])))
      = Some ({| h_meta := written_meta schema_json codec_name; h_sync := sync |}, body) /\
    read_blocks decompress (sd_rr s fuel) (fun _ => None) bfuel sync 0 body = (length (recs_of ops), FOk).
Proof. intros reg s t om c Hb fuel cp dc Hdc sync Hs. exact (file_is_valid_avro reg s t om c Hb fuel cp dc Hdc sync Hs). Qed.
Print Assumptions C02_file_is_valid_avro.

Theorem C02_record_is_its_datum : forall reg s t om c, build reg s t om = Some c ->
  forall fuel r d, written_datum s c fuel r d ->
  r = canon_encode s d /\ rec_decodes (sd_rr s fuel) r /\ forall rest, sd_rv s fuel (r ++ rest) = Some d.
Proof. intros reg s t om c Hb fuel r d. exact (written_datum_decodes reg s t om c Hb fuel r d). Qed.
Print Assumptions C02_record_is_its_datum.

(* non-vacuity: a struct with a nil pointer, a zero omitempty int, a set pointer and a map *)
Example C02_ex :
  let t := TStruct [] [] [GF [65] true [97] [] (TPtr TString);
                          GF [66] true [98;44;111;109;105;116;101;109;112;116;121] [] (TInt I64);
                          GF [67] true [99] [] (TPtr (TInt I32));
                          GF [68] true [100] [] (TMap TString TBool)] in
  let s := SRecord [([97], SUnion [SNull; SString]); ([98], SUnion [SNull; SLong LtNone]);
                    ([99], SUnion [SNull; SLong LtNone]); ([100], SMap SBool)] in
  let v := VStruct [VPtr None; VInt 0; VPtr (Some (VInt 0)); VMap [([120], VBool true)]] in
  exists c d, build reg_std s (Some t) false = Some c /\ datum_of c s v = Some d /\
    d = DRecord [DUnion 0 DNull; DUnion 0 DNull; DUnion 1 (DLong 0); DMap [([120], DBool true)]] /\
    phys_ok s d /\ c_write c v = Some [0; 0; 2; 0; 2; 2; 120; 1; 0].
Proof.
  cbv zeta. eexists. eexists. split; [vm_compute; reflexivity|]. split; [vm_compute; reflexivity|].
  split; [reflexivity|]. split; [|vm_compute; reflexivity].
  unfold phys_ok. split; [vm_compute; reflexivity|]. split; vm_compute; reflexivity.
Qed.

(* The stored form of a block under the snappy codec, as the specification words it: the raw
   snappy stream "followed by the 4-byte, big-endian CRC32 checksum of the uncompressed data
   in the block" (Model/Compress.v models snappyCodec.compress; crc32 is the bit-by-bit
   CRC-32/IEEE, compared with hash/crc32 and with the bytes the library's writer stores on
   every run).  With the null codec the stored form is the payload, with deflate the raw
   deflate stream. *)
Require Import Avro.Model.Compress Avro.Proofs.CompressP.
Theorem C02_snappy_block_layout : forall raw_enc u,
  exists t, snappy_compress raw_enc u = raw_enc u ++ t /\ length t = 4%nat /\ bytes_ok t /\
            be32_dec t = crc32 u /\ t = be32 (crc32 u).
Proof. exact snappy_block_layout. Qed.
Print Assumptions C02_snappy_block_layout.
