(* C02 — Files written are valid Avro that an independent reader decodes identically.
   (Block and container framing: Props/C09.v.  Here: the payload of every
   record is the Avro binary encoding, under the schema alone, of the value.) *)
From Coq Require Import List ZArith.
Require Import Avro.Model.Base Avro.Model.Prim Avro.Model.Schema Avro.Model.GoType
               Avro.Model.Spec Avro.Model.Codec Avro.Model.Denote.
Require Import Avro.Proofs.Wire Avro.Proofs.BuildP Avro.Proofs.WriteP Avro.Proofs.SpecP Avro.Proofs.RoundTrip.
Import ListNotations.
Open Scope Z_scope.

(* W: for every codec built by the model of buildCodec (any registry, schema, Go
   type) and every Go value that denotes a datum d, Write emits exactly the
   canonical Avro encoding of d under the schema: nothing else, nothing missing. *)
Theorem C02_write_is_canonical_encoding : forall reg s t om c v d,
  build reg s t om = Some c -> datum_of c s v = Some d -> c_write c v = Some (canon_encode s d).
Proof. intros. eapply write_canon; eauto. eapply build_wire; eauto. Qed.
Print Assumptions C02_write_is_canonical_encoding.

(* S∘W: the strict reference decoder, written from the specification and sharing
   nothing with the codecs, recovers exactly that datum from the written bytes,
   with no bytes left over (rest is returned untouched). *)
Theorem C02_reference_reader_recovers : forall reg s t om c v d bs fuel rest,
  build reg s t om = Some c -> datum_of c s v = Some d -> phys_ok s d ->
  c_write c v = Some bs -> (3 * dmax d + 1 <= fuel)%nat ->
  bs = canon_encode s d /\ sd fuel s (bs ++ rest) = Done d rest.
Proof. exact written_is_valid_avro. Qed.
Print Assumptions C02_reference_reader_recovers.

(* S in general: the reference decoder accepts every encoding the specification
   allows (any block cuts, sized or not), so agreeing with it is not vacuous. *)
Theorem C02_reference_decoder_complete : forall s d ch fuel rest,
  typed s d = true -> (3 * dmax d + 1 <= fuel)%nat ->
  len (spec_encode ch s d) < two63 -> Z.of_nat (dmax d) < two63 ->
  sd fuel s (spec_encode ch s d ++ rest) = Done d rest.
Proof. intros. apply sd_spec_encode; auto. Qed.
Print Assumptions C02_reference_decoder_complete.

(* null stays distinguishable from zero *)
Theorem C02_null_branch : forall c nn x1 x2 v,
  c_omit c v = true -> datum_of (CUnionOne c nn) (SUnion [x1; x2]) v = Some (DUnion (1 - nn) DNull).
Proof. exact union_one_null_branch. Qed.
Print Assumptions C02_null_branch.

Theorem C02_value_branch : forall c nn x1 x2 v d,
  c_omit c v = false -> datum_of c (if nn =? 0 then x1 else x2) v = Some d ->
  datum_of (CUnionOne c nn) (SUnion [x1; x2]) v = Some (DUnion nn d).
Proof. exact union_one_value_branch. Qed.
Print Assumptions C02_value_branch.

Theorem C02_what_is_omitted :
  (forall c z, c_omit (CPtr c z) (VPtr None) = true) /\
  (forall c z x, c_omit (CPtr c z) (VPtr (Some x)) = false) /\
  (forall p, c_omit CNullInt (VNullW false p) = true /\ c_omit CNullInt (VNullW true p) = false) /\
  (forall w om z, c_omit (CInt w om) (VInt z) = om && (z =? 0)) /\
  (forall om x, c_omit (CString om) (VStr x) = om && match x with [] => true | _ => false end) /\
  (forall c z om kvs, c_omit (CMap c z om) (VMap kvs) = false) /\
  (forall c z om, c_omit (CMap c z om) VMapNil = om).
Proof. exact omit_cases. Qed.
Print Assumptions C02_what_is_omitted.

(* non-vacuity: a struct with a nil pointer, a zero omitempty int, a set pointer and a map *)
Example C02_ex :
  let t := TStruct [] [] [GF [65] true [97] [] (TPtr TString);
                          GF [66] true [98;44;111;109;105;116;101;109;112;116;121] [] (TInt I64);
                          GF [67] true [99] [] (TPtr (TInt I32));
                          GF [68] true [100] [] (TMap TString TBool)] in
  let s := SRecord [([97], SUnion [SNull; SString]); ([98], SUnion [SNull; SLong LtNone]);
                    ([99], SUnion [SNull; SLong LtNone]); ([100], SMap SBool)] in
  let v := VStruct [VPtr None; VInt 0; VPtr (Some (VInt 0)); VMap [([120], VBool true)]] in
  exists c d, build reg_std s (Some t) false = Some c /\ datum_of c s v = Some d /\
    d = DRecord [DUnion 0 DNull; DUnion 0 DNull; DUnion 1 (DLong 0); DMap [([120], DBool true)]] /\
    phys_ok s d /\ c_write c v = Some [0; 0; 2; 0; 2; 2; 120; 1; 0].
Proof.
  cbv zeta. eexists. eexists. split; [vm_compute; reflexivity|]. split; [vm_compute; reflexivity|].
  split; [reflexivity|]. split; [|vm_compute; reflexivity].
  unfold phys_ok. split; [vm_compute; reflexivity|]. split; vm_compute; reflexivity.
Qed.
