(* C20 — A registered custom codec governs its type everywhere and nothing else.
   Registry: [registry] / [reg_set] (avro.Register) in Model/Codec.v and
   [sregistry] / [sreg_set] (avro.RegisterSchema) in Model/SchemaGen.v, keyed by
   the identity of the Go type.  A user-defined custom codec is [CCustom k c]:
   the codec c the library would build for the type's underlying kind, with the
   involution [cx k] applied to the value (the harness's Cents/Tag/Pair/IDs
   codecs are written to that shape).  buildCodec consults the registry after
   peeling pointers and only for schemas that are neither null nor a union. *)
From Coq Require Import List ZArith Bool String.
Require Import Avro.Model.Base Avro.Model.Prim Avro.Model.Schema Avro.Model.GoType
               Avro.Model.Spec Avro.Model.Codec Avro.Model.SchemaGen Avro.Model.Denote.
Require Import Avro.Proofs.LayoutP Avro.Proofs.SchemaGenP Avro.Proofs.RegistryP Avro.Proofs.SpecP Avro.Proofs.RoundTrip.
Import ListNotations.
Open Scope Z_scope.

(* ---- governs: at the type, behind any number of pointers ---- *)
(* for every registry, identity id, custom builder k, underlying type u, pointer
   depth j, omit flag and schema s that is neither null nor a union: the codec
   is the custom codec around what the dispatch builds for (s, the type),
   wrapped in j pointer codecs; the omit flag reaches the builder only when
   there is no pointer *)
Theorem C20_governs_at : forall reg id k s j u om, non_nu s ->
  let R := reg_set reg id (BCustom k) in
  build R s (Some (ptr_n j (TNamed id u))) om =
  option_map (fun c => wrap_ptrs j (CCustom k c) (zero_of (TNamed id u)))
             (disp (fun s' t' om' => build R s' t' om') s (Some (TNamed id u)) (match j with O => om | S _ => false end)).
Proof. exact build_custom_at. Qed.
Print Assumptions C20_governs_at.

(* inside a nullable union, null first or null second *)
Theorem C20_governs_in_union : forall reg id k s j u om, non_nu s ->
  let R := reg_set reg id (BCustom k) in
  let inner := disp (fun s' t' om' => build R s' t' om') s (Some (TNamed id u)) (match j with O => om | S _ => false end) in
  build R (SUnion [SNull; s]) (Some (ptr_n j (TNamed id u))) om =
    option_map (fun c => CUnionOne (wrap_ptrs j (CCustom k c) (zero_of (TNamed id u))) 1) inner /\
  build R (SUnion [s; SNull]) (Some (ptr_n j (TNamed id u))) om =
    option_map (fun c => CUnionOne (wrap_ptrs j (CCustom k c) (zero_of (TNamed id u))) 0) inner.
Proof. exact build_custom_in_union. Qed.
Print Assumptions C20_governs_in_union.

(* every position: in every codec tree built with the registration, at every
   position of the Go type tree (struct fields, slice elements, map values,
   pointees, union branches) whose type is the registered type, the codec is
   the custom codec with the registered k ([gov], by recursion on the codec
   tree alongside the type) *)
Theorem C20_governs_everywhere : forall reg id k s t om c,
  build (reg_set reg id (BCustom k)) s (Some t) om = Some c -> gov id k true c t.
Proof. exact build_governs. Qed.
Print Assumptions C20_governs_everywhere.

(* ---- ... and nothing else ---- *)
(* a type tree in which the registered type does not occur is built exactly as
   without the registration; a codec built without a Go type never looks at the
   registry; more generally the result depends on the registry only at the
   types occurring in the tree *)
Theorem C20_frame : forall reg id bd s t om, no_named id t ->
  build (reg_set reg id bd) s (Some t) om = build reg s (Some t) om.
Proof. exact build_frame. Qed.
Print Assumptions C20_frame.

Theorem C20_frame_untyped : forall R1 R2 s om, build R1 s None om = build R2 s None om.
Proof. exact build_none_indep. Qed.
Print Assumptions C20_frame_untyped.

Theorem C20_depends_on_occurring_types : forall R1 R2 s t om, agree_on R1 R2 t ->
  build R1 s (Some t) om = build R2 s (Some t) om.
Proof. exact build_agree. Qed.
Print Assumptions C20_depends_on_occurring_types.

Theorem C20_schema_frame : forall sreg id g t, no_named id t ->
  schema_for (sreg_set sreg id g) t = schema_for sreg t.
Proof. exact schema_frame. Qed.
Print Assumptions C20_schema_frame.

(* ---- the most recent registration wins; registrations of distinct types commute ---- *)
Theorem C20_latest : forall reg id b1 b2 s t om,
  build (reg_set (reg_set reg id b1) id b2) s t om = build (reg_set reg id b2) s t om.
Proof. exact build_latest. Qed.
Print Assumptions C20_latest.

Theorem C20_order : forall reg id1 id2 b1 b2 s t om, id1 <> id2 ->
  build (reg_set (reg_set reg id1 b1) id2 b2) s t om = build (reg_set (reg_set reg id2 b2) id1 b1) s t om.
Proof. exact build_order. Qed.
Print Assumptions C20_order.

Theorem C20_ext : forall R1 R2, (forall key, R1 key = R2 key) -> forall s t om, build R1 s t om = build R2 s t om.
Proof. exact build_ext. Qed.
Print Assumptions C20_ext.

Theorem C20_schema_latest : forall sreg id g1 g2 t,
  schema_for (sreg_set (sreg_set sreg id g1) id g2) t = schema_for (sreg_set sreg id g2) t.
Proof. exact schema_latest. Qed.
Print Assumptions C20_schema_latest.

Theorem C20_schema_order : forall sreg id1 id2 g1 g2 t, id1 <> id2 ->
  schema_for (sreg_set (sreg_set sreg id1 g1) id2 g2) t = schema_for (sreg_set (sreg_set sreg id2 g2) id1 g1) t.
Proof. exact schema_order. Qed.
Print Assumptions C20_schema_order.

(* ---- the registered schema is what schema generation emits there ---- *)
Theorem C20_schema_positions : forall sreg id g u,
  let S' := sreg_set sreg id g in let T := TNamed id u in
  schema_for S' T = Some g /\
  (forall j, schema_for S' (ptr_n (S j) T) = Some (if keeps_shape g then g else gs_nullable g)) /\
  (is_u8 u = false -> schema_for S' (TSlice T) = Some (gs_array g)) /\
  (forall kt, schema_for S' (TMap kt T) = Some (gs_map g)) /\
  (forall f r, gf_type f = T -> excluded f = false ->
     sf_fields S' (f :: r) = option_map (cons (name_for_field f, field_schema f g)) (sf_fields S' r)).
Proof.
  intros sreg id g u S' T. split; [apply schema_at_node|]. split; [apply schema_behind_ptrs|].
  split; [apply schema_slice_elem|]. split; [apply schema_map_value|apply schema_field].
Qed.
Print Assumptions C20_schema_positions.

(* ---- values round-trip through the custom codec ---- *)
Theorem C20_cx_involutive : forall k v, cx k (cx k v) = v.
Proof. exact cx_involutive. Qed.
Print Assumptions C20_cx_involutive.

(* whenever the inner codec reads back what it wrote (C01: it does, for every
   built codec and every value that denotes a datum), the custom codec returns
   the original value; Skip and Omit are those of the inner codec *)
Theorem C20_custom_round_trip : forall k c v bs fuel dest rest,
  c_write c (cx k v) = Some bs ->
  c_read fuel c dest (bs ++ rest) = Done (cx k v) rest ->
  c_write (CCustom k c) v = Some bs /\ c_read fuel (CCustom k c) dest (bs ++ rest) = Done v rest.
Proof. exact custom_round_trip. Qed.
Print Assumptions C20_custom_round_trip.

(* the round-trip theorem of C01 holds for every registry, hence for codec trees
   with custom codecs in any position: reading what was written yields the
   datum-level image of the value *)
Theorem C20_round_trip_any_registry : forall reg s t om c v d bs fuel rest dest v',
  build reg s t om = Some c -> datum_of c s v = Some d -> phys_ok s d ->
  c_write c v = Some bs -> (3 * dmax d + 1 <= fuel)%nat ->
  apply_datum c dest d = Some v' ->
  c_read fuel c dest (bs ++ rest) = Done v' rest /\ c_skip fuel c (bs ++ rest) = Done tt rest.
Proof. exact write_then_read. Qed.
Print Assumptions C20_round_trip_any_registry.

(* ---- non-vacuity ---- *)
Example C20_ex :
  let cents := TNamed 100 (TInt I64) in
  let tag := TNamed 101 TString in
  let t := TStruct (b "T") (b "main")
             [GF (b "A") true [] [] cents; GF (b "B") true [] [] (TPtr cents); GF (b "C") true [] [] (TSlice cents);
              GF (b "D") true [] [] (TMap TString cents); GF (b "E") true (b "e,omitempty") [] tag; GF (b "N") true [] [] (TInt I64)] in
  let R := reg_set (reg_set (reg_set reg_std 100 (BCustom 1)) 101 (BCustom 0)) 100 (BCustom 5) in
  let SR := sreg_set (sreg_set sreg_std 100 (gs_prim "long")) 101 (gs_prim "string") in
  exists s c, schema_for_type SR t = Some s /\
    build R (classify s) (Some t) false = Some c /\
    c = CRecord [(CCustom 5 (CInt 64 false), Some 0%nat);
                 (CUnionOne (CPtr (CCustom 5 (CInt 64 false)) (VInt 0)) 1, Some 1%nat);
                 (CArray (CCustom 5 (CInt 64 false)) (VInt 0) false, Some 2%nat);
                 (CMap (CCustom 5 (CInt 64 false)) (VInt 0) false, Some 3%nat);
                 (CUnionOne (CCustom 0 (CString true)) 1, Some 4%nat);
                 (CInt 64 false, Some 5%nat)] /\
    gov 100 5 true c t /\
    (* 6 xor 5 = 3, "ab" is written reversed; the unregistered int64 is untouched *)
    c_write c (VStruct [VInt 6; VPtr None; VSlice [VInt 5]; VMapNil; VStr [97; 98]; VInt 6]) =
      Some [6; 0; 2; 0; 0; 0; 2; 4; 98; 97; 12] /\
    c_read 30 c (zero_of t) [6; 0; 2; 0; 0; 0; 2; 4; 98; 97; 12] =
      Done (VStruct [VInt 6; VPtr None; VSlice [VInt 5]; VMap []; VStr [97; 98]; VInt 6]) [].
Proof.
  cbv zeta.
  match goal with |- exists s c, schema_for_type ?SR ?t = Some s /\ _ =>
    let r := eval vm_compute in (schema_for_type SR t) in
    match r with Some ?s0 =>
      exists s0; eexists; split; [vm_compute; reflexivity|]; split; [vm_compute; reflexivity|]; split; [reflexivity|]; split;
      [ apply (build_governs (reg_set (reg_set reg_std 100 (BCustom 1)) 101 (BCustom 0)) 100 5 (classify s0) t false);
        vm_compute; reflexivity
      | split; vm_compute; reflexivity ]
    end
  end.
Qed.
