(* C07 — Container reader delivers exactly the declared records and rejects damage. *)
From Coq Require Import List ZArith String.
Local Close Scope string_scope.
Require Import Avro.Model.Base Avro.Model.Prim Avro.Model.Schema Avro.Model.Container.
Require Import Avro.Model.Writer.
Require Import Avro.Proofs.ContainerP Avro.Proofs.FileP Avro.Proofs.FuelP Avro.Proofs.HeaderGenP.
Import ListNotations.
Open Scope list_scope.
Open Scope Z_scope.

(* valid body: every block's records, in file order, then success.  The
   decompressor, the record decoder and the callback are arbitrary functions
   (vbs_ok: each stored block decompresses, its payload decodes count records,
   the callback raises no error on them). *)
Theorem C07_valid : forall decompress read_record cb sync, len sync = 16 ->
  forall bl fuel idx, vbs_ok decompress read_record cb idx bl -> (length bl < fuel)%nat ->
  read_blocks decompress read_record cb fuel sync idx (concat (map (vb_bytes sync) bl)) = ((idx + total bl)%nat, FOk).
Proof. intros. apply read_blocks_valid; auto. Qed.
Print Assumptions C07_valid.

(* after any number of valid blocks, a block whose trailer differs from the header's sync marker *)
Theorem C07_sync_mismatch : forall decompress read_record cb sync, len sync = 16 ->
  forall bl b0 sig rest fuel idx,
  vbs_ok decompress read_record cb idx bl -> vb_ok decompress read_record cb (idx + total bl)%nat b0 ->
  len sig = 16 -> sig <> sync ->
  read_blocks decompress read_record cb (length bl + S fuel)%nat sync idx
    (concat (map (vb_bytes sync) bl) ++
     enc_varint (Z.of_nat (vb_count b0)) ++ enc_varint (len (vb_raw b0)) ++ vb_raw b0 ++ sig ++ rest)
  = ((idx + total bl + vb_count b0)%nat, FErr).
Proof.
  intros decompress read_record cb sync Hs bl b0 sig rest fuel idx Hbl Hb Hsig Hne.
  rewrite read_blocks_prefix by assumption. apply block_bad_sync; assumption.
Qed.
Print Assumptions C07_sync_mismatch.

(* a compressed block the decompressor rejects (this includes a snappy checksum
   mismatch, which the snappy codec checks inside decompress) *)
Theorem C07_decompressor_rejects : forall decompress read_record cb sync, len sync = 16 ->
  forall bl count raw rest fuel idx,
  vbs_ok decompress read_record cb idx bl -> int64_ok count -> len raw < two63 -> decompress raw = None ->
  read_blocks decompress read_record cb (length bl + S fuel)%nat sync idx
    (concat (map (vb_bytes sync) bl) ++ enc_varint count ++ enc_varint (len raw) ++ raw ++ rest)
  = ((idx + total bl)%nat, FErr).
Proof.
  intros decompress read_record cb sync Hs bl count raw rest fuel idx Hbl Hc Hl Hd.
  rewrite read_blocks_prefix by assumption. apply block_rejected_by_decompressor; assumption.
Qed.
Print Assumptions C07_decompressor_rejects.

(* the callback's error stops reading at that record and is returned unchanged *)
Theorem C07_callback_error : forall decompress read_record cb sync, len sync = 16 ->
  forall bl count raw payload j e rest fuel idx,
  vbs_ok decompress read_record cb idx bl ->
  Z.of_nat count < two63 -> len raw < two63 -> decompress raw = Some payload ->
  recs_ok read_record (S j) payload -> cb_quiet cb (idx + total bl)%nat j -> cb (idx + total bl + j)%nat = Some e -> (j < count)%nat ->
  read_blocks decompress read_record cb (length bl + S fuel)%nat sync idx
    (concat (map (vb_bytes sync) bl) ++ enc_varint (Z.of_nat count) ++ enc_varint (len raw) ++ raw ++ rest)
  = ((idx + total bl + j + 1)%nat, FCb e).
Proof.
  intros decompress read_record cb sync Hs bl count raw payload j e rest fuel idx Hbl Hc Hl Hd Hr Hq He Hj.
  rewrite read_blocks_prefix by assumption. eapply block_callback_error; eauto.
Qed.
Print Assumptions C07_callback_error.

(* header: wrong magic, too short; codec entry absent = uncompressed, unknown = error *)
Theorem C07_bad_magic : forall bs mg r, read_full 4 bs = Some (mg, r) -> mg <> magic -> read_header bs = None.
Proof. exact read_header_bad_magic. Qed.
Print Assumptions C07_bad_magic.

Theorem C07_codec_entry : forall h,
  (meta_get (h_meta h) (b "avro.codec"%string) = None -> header_codec h = Some CkNull) /\
  (forall v, meta_get (h_meta h) (b "avro.codec"%string) = Some v ->
     v <> b "null"%string -> v <> b "deflate"%string -> v <> b "snappy"%string -> header_codec h = None).
Proof. exact header_codec_cases. Qed.
Print Assumptions C07_codec_entry.

(* a file produced by the library's own writer (header, then any history of
   Encode/Flush calls closed by a flush, under any codec whose decompressor
   inverts its compressor) is such a valid file: the header is recovered with
   the schema, codec name and sync marker written, and every record appended is
   delivered, in order, with success *)
Theorem C07_written_file_reads_back : forall compress decompress,
  (forall x, decompress (compress x) = Some x) ->
  forall read_record sync, len sync = 16 ->
  forall schema_json codec_name size ops fuel,
  len schema_json < two63 -> len codec_name < two63 ->
  Forall (rec_decodes read_record) (recs_of ops) ->
  Forall (group_small compress) (fst (blocks_spec size [] (ops ++ [OpFlush]))) ->
  (length (fst (blocks_spec size [] (ops ++ [OpFlush]))) < fuel)%nat ->
  exists body,
    read_header (concat (file_chunks compress schema_json codec_name sync size (ops ++ [OpFlush])))
      = Some ({| h_meta := written_meta schema_json codec_name; h_sync := sync |}, body) /\
    read_blocks decompress read_record (fun _ => None) fuel sync 0 body = (length (recs_of ops), FOk).
Proof. exact file_roundtrip. Qed.
Print Assumptions C07_written_file_reads_back.

Theorem C07_header_roundtrip : forall schema_json codec_name sync rest,
  len schema_json < two63 -> len codec_name < two63 -> len sync = 16 ->
  read_header (header_bytes schema_json codec_name sync ++ rest)
  = Some ({| h_meta := written_meta schema_json codec_name; h_sync := sync |}, rest).
Proof. exact read_header_written. Qed.
Print Assumptions C07_header_roundtrip.

(* The model's block loop runs on fuel and renders "out of fuel" as an error.
   That never shows in what the theorems above state: with more fuel than bytes
   the result is the same for every amount of fuel (each block consumes at least
   one byte), and the record loop of a block is independent of its fuel beyond the
   declared count. *)
Theorem C07_outcome_independent_of_fuel : forall decompress read_record cb sync f1 f2 idx bs,
  (length bs < f1)%nat -> (length bs < f2)%nat ->
  read_blocks decompress read_record cb f1 sync idx bs = read_blocks decompress read_record cb f2 sync idx bs.
Proof. exact read_blocks_fuel_independent. Qed.
Print Assumptions C07_outcome_independent_of_fuel.

Theorem C07_record_loop_independent_of_fuel : forall read_record cb f1 f2 n idx bs,
  (Z.to_nat n < f1)%nat -> (Z.to_nat n < f2)%nat ->
  read_records read_record cb f1 n idx bs = read_records read_record cb f2 n idx bs.
Proof. exact (read_records_fuel_independent (fun x => Some x)). Qed.
Print Assumptions C07_record_loop_independent_of_fuel.

(* non-vacuity: a two-block body with a trivially decoding record format (one byte per record) *)
Example C07_ex :
  let sync := repeat 7 16 in
  let rr := fun bs : bytes => match bs with [] => Err | _ :: r => Done tt r end in
  let body := blk sync 2 [1; 2] ++ blk sync 1 [3] in
  read_blocks (fun x => Some x) rr (fun _ => None) 5 sync 0 body = (3%nat, FOk) /\
  read_blocks (fun x => Some x) rr (fun i => if Nat.eqb i 1 then Some 42 else None) 5 sync 0 body = (2%nat, FCb 42) /\
  read_blocks (fun x => Some x) rr (fun _ => None) 5 sync 0 (firstn 21 body ++ [8] ++ skipn 22 body) = (3%nat, FErr).
Proof. cbv zeta. repeat split; vm_compute; reflexivity. Qed.

(* Headers of other writers: the metadata map laid out as any number of blocks
   of any number of entries (application metadata next to avro.schema and
   avro.codec, in any order).  The header reader accepts every such header and
   returns exactly its entries — under a key, the value of the last entry written
   with it — its sync marker, and the rest of the file untouched. *)
Theorem C07_any_conforming_header : forall sync bl rest,
  len sync = 16 -> Forall block_ok bl ->
  read_header (gen_header bl sync ++ rest) = Some ({| h_meta := set_blocks [] bl; h_sync := sync |}, rest).
Proof. intros sync bl rest Hy Hb. exact (header_ok_gen sync Hy bl Hb rest). Qed.
Print Assumptions C07_any_conforming_header.

Theorem C07_header_lookup : forall es m k,
  meta_get (set_entries m es) k =
  match find (fun e => bytes_eqb k (fst e)) (rev es) with
  | Some e => Some (snd e)
  | None => meta_get m k
  end.
Proof. exact meta_get_set_entries. Qed.
Print Assumptions C07_header_lookup.

(* non-vacuity: two metadata blocks, the key 'a' written twice *)
Example C07_header_ex :
  let sync := repeat 7 16 in
  let bl := [[([97], [1]); ([98], [2; 3])]; [([97], [9])]] in
  Forall block_ok bl /\
  match read_header (gen_header bl sync ++ [42]) with
  | Some (h, rest) => (meta_get (h_meta h) [97], meta_get (h_meta h) [98], rest) = (Some [9], Some [2; 3], [42])
  | None => False
  end.
Proof.
  split; [|vm_compute; reflexivity].
  repeat constructor; try discriminate; unfold len, two63; cbn; lia.
Qed.
