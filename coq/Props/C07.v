(* C07 — Container reader delivers exactly the declared records and rejects damage. *)
From Coq Require Import List ZArith String.
Local Close Scope string_scope.
Require Import Avro.Model.Base Avro.Model.Prim Avro.Model.Schema Avro.Model.Container.
Require Import Avro.Model.Writer Avro.Model.Compress.
Require Import Avro.Proofs.CompressP Avro.Proofs.ContainerP Avro.Proofs.FileP Avro.Proofs.FuelP Avro.Proofs.HeaderGenP.
Import ListNotations.
Open Scope list_scope.
Open Scope Z_scope.

(* valid body: every block's records, in file order, then success.  The
   decompressor, the record decoder and the callback are arbitrary functions
   (vbs_ok: each stored block decompresses, its payload decodes count records,
   the callback raises no error on them). *)
Theorem C07_valid : forall decompress read_record cb sync, len sync = 16 ->
  forall bl fuel idx, vbs_ok decompress read_record cb idx bl -> (length bl < fuel)%nat ->
  read_blocks decompress read_record cb fuel sync idx (concat (map (vb_bytes sync) bl)) = ((idx + total bl)%nat, FOk).
Proof. intros. apply read_blocks_valid; auto. Qed.
Print Assumptions C07_valid.

(* after any number of valid blocks, a block whose trailer differs from the header's sync marker *)
Theorem C07_sync_mismatch : forall decompress read_record cb sync, len sync = 16 ->
  forall bl b0 sig rest fuel idx,
  vbs_ok decompress read_record cb idx bl -> vb_ok decompress read_record cb (idx + total bl)%nat b0 ->
  len sig = 16 -> sig <> sync ->
  read_blocks decompress read_record cb (length bl + S fuel)%nat sync idx
    (concat (map (vb_bytes sync) bl) ++
     enc_varint (Z.of_nat (vb_count b0)) ++ enc_varint (len (vb_raw b0)) ++ vb_raw b0 ++ sig ++ rest)
  = ((idx + total bl + vb_count b0)%nat, FErr).
Proof.
  intros decompress read_record cb sync Hs bl b0 sig rest fuel idx Hbl Hb Hsig Hne.
  rewrite read_blocks_prefix by assumption. apply block_bad_sync; assumption.
Qed.
Print Assumptions C07_sync_mismatch.

(* a compressed block the decompressor rejects (this includes a snappy checksum
   mismatch, which the snappy codec checks inside decompress) *)
Theorem C07_decompressor_rejects : forall decompress read_record cb sync, len sync = 16 ->
  forall bl count raw rest fuel idx,
  vbs_ok decompress read_record cb idx bl -> int64_ok count -> len raw < two63 -> decompress raw = None ->
  read_blocks decompress read_record cb (length bl + S fuel)%nat sync idx
    (concat (map (vb_bytes sync) bl) ++ enc_varint count ++ enc_varint (len raw) ++ raw ++ rest)
  = ((idx + total bl)%nat, FErr).
Proof.
  intros decompress read_record cb sync Hs bl count raw rest fuel idx Hbl Hc Hl Hd.
  rewrite read_blocks_prefix by assumption. apply block_rejected_by_decompressor; assumption.
Qed.
Print Assumptions C07_decompressor_rejects.

(* the callback's error stops reading at that record and is returned unchanged *)
Theorem C07_callback_error : forall decompress read_record cb sync, len sync = 16 ->
  forall bl count raw payload j e rest fuel idx,
  vbs_ok decompress read_record cb idx bl ->
  Z.of_nat count < two63 -> len raw < two63 -> decompress raw = Some payload ->
  recs_ok read_record (S j) payload -> cb_quiet cb (idx + total bl)%nat j -> cb (idx + total bl + j)%nat = Some e -> (j < count)%nat ->
  read_blocks decompress read_record cb (length bl + S fuel)%nat sync idx
    (concat (map (vb_bytes sync) bl) ++ enc_varint (Z.of_nat count) ++ enc_varint (len raw) ++ raw ++ rest)
  = ((idx + total bl + j + 1)%nat, FCb e).
Proof.
  intros decompress read_record cb sync Hs bl count raw payload j e rest fuel idx Hbl Hc Hl Hd Hr Hq He Hj.
  rewrite read_blocks_prefix by assumption. eapply block_callback_error; eauto.
Qed.
Print Assumptions C07_callback_error.

(* header: wrong magic, too short; codec entry absent = uncompressed, unknown = error *)
Theorem C07_bad_magic : forall bs mg r, read_full 4 bs = Some (mg, r) -> mg <> magic -> read_header bs = None.
Proof. exact read_header_bad_magic. Qed.
Print Assumptions C07_bad_magic.

Theorem C07_codec_entry : forall h,
  (meta_get (h_meta h) (b "avro.codec"%string) = None -> header_codec h = Some CkNull) /\
  (forall v, meta_get (h_meta h) (b "avro.codec"%string) = Some v ->
     v <> b "null"%string -> v <> b "deflate"%string -> v <> b "snappy"%string -> header_codec h = None).
Proof. exact header_codec_cases. Qed.
Print Assumptions C07_codec_entry.

(* a file produced by the library's own writer (header, then any history of
   Encode/Flush calls closed by a flush, under any codec whose decompressor
   inverts its compressor) is such a valid file: the header is recovered with
   the schema, codec name and sync marker written, and every record appended is
   delivered, in order, with success *)
Theorem C07_written_file_reads_back : forall compress decompress,
  (forall x, decompress (compress x) = Some x) ->
  forall read_record sync, len sync = 16 ->
  forall schema_json codec_name size ops fuel,
  len schema_json < two63 -> len codec_name < two63 ->
  Forall (rec_decodes read_record) (recs_of ops) ->
  Forall (group_small compress) (fst (blocks_spec size [] (ops ++ [OpFlush]))) ->
  (length (fst (blocks_spec size [] (ops ++ [OpFlush]))) < fuel)%nat ->
  exists body,
    read_header (concat (file_chunks compress schema_json codec_name sync size (ops ++ [OpFlush])))
      = Some ({| h_meta := written_meta schema_json codec_name; h_sync := sync |}, body) /\
    read_blocks decompress read_record (fun _ => None) fuel sync 0 body = (length (recs_of ops), FOk).
Proof. exact file_roundtrip. Qed.
Print Assumptions C07_written_file_reads_back.

Theorem C07_header_roundtrip : forall schema_json codec_name sync rest,
  len schema_json < two63 -> len codec_name < two63 -> len sync = 16 ->
  read_header (header_bytes schema_json codec_name sync ++ rest)
  = Some ({| h_meta := written_meta schema_json codec_name; h_sync := sync |}, rest).
Proof. exact read_header_written. Qed.
Print Assumptions C07_header_roundtrip.

(* The model's block loop runs on fuel and renders "out of fuel" as an error.
   That never shows in what the theorems above state: with more fuel than bytes
   the result is the same for every amount of fuel (each block consumes at least
   one byte), and the record loop of a block is independent of its fuel beyond the
   declared count. *)
Theorem C07_outcome_independent_of_fuel : forall decompress read_record cb sync f1 f2 idx bs,
  (length bs < f1)%nat -> (length bs < f2)%nat ->
  read_blocks decompress read_record cb f1 sync idx bs = read_blocks decompress read_record cb f2 sync idx bs.
Proof. exact read_blocks_fuel_independent. Qed.
Print Assumptions C07_outcome_independent_of_fuel.

Theorem C07_record_loop_independent_of_fuel : forall read_record cb f1 f2 n idx bs,
  (Z.to_nat n < f1)%nat -> (Z.to_nat n < f2)%nat ->
  read_records read_record cb f1 n idx bs = read_records read_record cb f2 n idx bs.
Proof. exact (read_records_fuel_independent (fun x => Some x)). Qed.
Print Assumptions C07_record_loop_independent_of_fuel.

(* non-vacuity: a two-block body with a trivially decoding record format (one byte per record) *)
Example C07_ex :
  let sync := repeat 7 16 in
  let rr := fun bs : bytes => match bs with [] => Err | _ :: r => Done tt r end in
  let body := blk sync 2 [1; 2] ++ blk sync 1 [3] in
  read_blocks (fun x => Some x) rr (fun _ => None) 5 sync 0 body = (3%nat, FOk) /\
  read_blocks (fun x => Some x) rr (fun i => if Nat.eqb i 1 then Some 42 else None) 5 sync 0 body = (2%nat, FCb 42) /\
  read_blocks (fun x => Some x) rr (fun _ => None) 5 sync 0 (firstn 21 body ++ [8] ++ skipn 22 body) = (3%nat, FErr).
Proof. cbv zeta. repeat split; vm_compute; reflexivity. Qed.

(* Headers of other writers: the metadata map laid out as any number of blocks
   of any number of entries (application metadata next to avro.schema and
   avro.codec, in any order).  The header reader accepts every such header and
   returns exactly its entries — under a key, the value of the last entry written
   with it — its sync marker, and the rest of the file untouched. *)
Theorem C07_any_conforming_header : forall sync bl rest,
  len sync = 16 -> Forall block_ok bl ->
  read_header (gen_header bl sync ++ rest) = Some ({| h_meta := set_blocks [] bl; h_sync := sync |}, rest).
Proof. intros sync bl rest Hy Hb. exact (header_ok_gen sync Hy bl Hb rest). Qed.
Print Assumptions C07_any_conforming_header.

Theorem C07_header_lookup : forall es m k,
  meta_get (set_entries m es) k =
  match find (fun e => bytes_eqb k (fst e)) (rev es) with
  | Some e => Some (snd e)
  | None => meta_get m k
  end.
Proof. exact meta_get_set_entries. Qed.
Print Assumptions C07_header_lookup.

(* non-vacuity: two metadata blocks, the key 'a' written twice *)
Example C07_header_ex :
  let sync := repeat 7 16 in
  let bl := [[([97], [1]); ([98], [2; 3])]; [([97], [9])]] in
  Forall block_ok bl /\
  match read_header (gen_header bl sync ++ [42]) with
  | Some (h, rest) => (meta_get (h_meta h) [97], meta_get (h_meta h) [98], rest) = (Some [9], Some [2; 3], [42])
  | None => False
  end.
Proof.
  split; [|vm_compute; reflexivity].
  repeat constructor; try discriminate; unfold len, two63; cbn; lia.
Qed.

(* ---- the snappy codec of file.go (Model/Compress.v): framing, length guard, CRC-32 ----
   raw_dec / raw_len / raw_enc stand for golang/snappy's Decode / DecodedLen / Encode and
   are arbitrary functions; the CRC-32 is the model's own bit-by-bit definition, compared
   with hash/crc32 on every block of every snappy file the correspondence evaluates. *)

(* data comes back from a stored block exactly when: it holds at least the four checksum
   bytes, the declared length is plausible, the raw decoder accepts the body, and the
   trailer is the big-endian CRC-32 of what the raw decoder returned *)
Theorem C07_snappy_accepts_exactly : forall raw_dec raw_len c u,
  snappy_decompress raw_dec raw_len c = Some u <->
  4 <= len c /\ (exists n, raw_len (snappy_body c) = Some n /\ n <= 32 * len c) /\
  raw_dec (snappy_body c) = Some u /\ be32_dec (snappy_tail c) = crc32 u.
Proof. exact snappy_accepts_iff. Qed.
Print Assumptions C07_snappy_accepts_exactly.

(* "a snappy block whose checksum does not match": refused *)
Theorem C07_snappy_checksum_mismatch : forall raw_dec raw_len c u,
  raw_dec (snappy_body c) = Some u -> be32_dec (snappy_tail c) <> crc32 u ->
  snappy_decompress raw_dec raw_len c = None.
Proof. exact snappy_checksum_mismatch. Qed.
Print Assumptions C07_snappy_checksum_mismatch.

(* every byte and bit position of the checksum as a corruption site, inside a file: after any
   valid blocks, an acceptable block whose four trailer bytes were replaced by any others
   delivers none of its records and fails the read *)
Theorem C07_snappy_checksum_damage_in_file : forall raw_dec raw_len read_record cb sync, len sync = 16 ->
  forall bl count e t t' u rest fuel idx,
  vbs_ok (snappy_decompress raw_dec raw_len) read_record cb idx bl -> int64_ok count -> len (e ++ t') < two63 ->
  length t = 4%nat -> length t' = 4%nat -> bytes_ok t -> bytes_ok t' -> t' <> t ->
  snappy_decompress raw_dec raw_len (e ++ t) = Some u ->
  read_blocks (snappy_decompress raw_dec raw_len) read_record cb (length bl + S fuel)%nat sync idx
    (concat (map (vb_bytes sync) bl) ++ enc_varint count ++ enc_varint (len (e ++ t')) ++ (e ++ t') ++ rest)
  = ((idx + total bl)%nat, FErr).
Proof. exact snappy_file_checksum_damage. Qed.
Print Assumptions C07_snappy_checksum_damage_in_file.

(* a snappy block shorter than its checksum *)
Theorem C07_snappy_short_block_in_file : forall raw_dec raw_len read_record cb sync, len sync = 16 ->
  forall bl count raw rest fuel idx,
  vbs_ok (snappy_decompress raw_dec raw_len) read_record cb idx bl -> int64_ok count -> len raw < 4 ->
  read_blocks (snappy_decompress raw_dec raw_len) read_record cb (length bl + S fuel)%nat sync idx
    (concat (map (vb_bytes sync) bl) ++ enc_varint count ++ enc_varint (len raw) ++ raw ++ rest)
  = ((idx + total bl)%nat, FErr).
Proof. exact snappy_file_short_block. Qed.
Print Assumptions C07_snappy_short_block_in_file.

(* C07_written_file_reads_back with the library's own snappy codec: the premise "the
   decompressor inverts the compressor" is proved (snappy_roundtrip), what is left assumed
   speaks about golang/snappy alone: Decode inverts Encode, DecodedLen is the length of what
   Decode returns, Encode never shrinks below 1/32 *)
Theorem C07_snappy_file_reads_back : forall raw_enc raw_dec raw_len,
  (forall b u, raw_dec b = Some u -> raw_len b = Some (len u)) ->
  (forall u, raw_dec (raw_enc u) = Some u) ->
  (forall u, len u <= 32 * (len (raw_enc u) + 4)) ->
  forall read_record sync, len sync = 16 ->
  forall schema_json codec_name size ops fuel,
  len schema_json < two63 -> len codec_name < two63 ->
  Forall (rec_decodes read_record) (recs_of ops) ->
  Forall (group_small (snappy_compress raw_enc)) (fst (blocks_spec size [] (ops ++ [OpFlush]))) ->
  (length (fst (blocks_spec size [] (ops ++ [OpFlush]))) < fuel)%nat ->
  exists body,
    read_header (concat (file_chunks (snappy_compress raw_enc) schema_json codec_name sync size (ops ++ [OpFlush])))
      = Some ({| h_meta := written_meta schema_json codec_name; h_sync := sync |}, body) /\
    read_blocks (snappy_decompress raw_dec raw_len) read_record (fun _ => None) fuel sync 0 body
      = (length (recs_of ops), FOk).
Proof. exact snappy_file_roundtrip. Qed.
Print Assumptions C07_snappy_file_reads_back.

(* non-vacuity: a stored-literal "raw codec" (one tag byte in front of the data) satisfies the
   three premises on this input; the block it frames is accepted, and refused with one checksum
   bit flipped, with one data byte changed, and when cut below four bytes *)
Example C07_snappy_ex :
  let raw_enc := fun u : bytes => 0 :: u in
  let raw_dec := fun c : bytes => match c with 0 :: u => Some u | _ => None end in
  let raw_len := fun c : bytes => match c with 0 :: u => Some (len u) | _ => None end in
  let blk := snappy_compress raw_enc [1; 2; 3] in
  snappy_decompress raw_dec raw_len blk = Some [1; 2; 3] /\
  snappy_decompress raw_dec raw_len (firstn 7 blk ++ [Z.lxor (nth 7 blk 0) 1]) = None /\
  snappy_decompress raw_dec raw_len (firstn 2 blk ++ [9] ++ skipn 3 blk) = None /\
  snappy_decompress raw_dec raw_len (firstn 3 blk) = None.
Proof. cbv zeta. split; [|split; [|split]]; vm_compute; reflexivity. Qed.
