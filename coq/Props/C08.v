(* C08 — A truncated file yields a prefix of its records and an error. *)
From Coq Require Import List ZArith.
Require Import Avro.Model.Base Avro.Model.Prim Avro.Model.Schema Avro.Model.Container.
Require Import Avro.Proofs.ContainerP Avro.Proofs.FileP Avro.Proofs.HeaderCutP Avro.Proofs.HeaderGenP.
Import ListNotations.
Open Scope Z_scope.

(* The file body is bl ++ b0 ++ post (all valid blocks).  Cut it k bytes into
   block b0 (0 <= k < size of b0):
   - k = 0 (the cut is exactly at a block boundary): the records of bl, success;
   - the cut falls before the end of b0's stored payload: the records of bl, error;
   - the payload of b0 is complete and the cut is inside its sync marker: the
     records of bl and of b0, error.
   Never a partial or invented record: the count is always a sum of whole blocks. *)
Theorem C08_truncated_body : forall decompress read_record cb sync, len sync = 16 ->
  forall bl b0 post fuel idx k,
  vbs_ok decompress read_record cb idx bl -> vb_ok decompress read_record cb (idx + total bl)%nat b0 ->
  (k < length (vb_bytes sync b0))%nat ->
  read_blocks decompress read_record cb (length bl + S fuel)%nat sync idx
     (firstn (length (concat (map (vb_bytes sync) bl)) + k) (concat (map (vb_bytes sync) bl) ++ vb_bytes sync b0 ++ post)) =
    match k with
    | O => ((idx + total bl)%nat, FOk)
    | _ => if Nat.ltb k (payload_end b0) then ((idx + total bl)%nat, FErr)
           else ((idx + total bl + vb_count b0)%nat, FErr)
    end.
Proof. intros. apply body_truncated; assumption. Qed.
Print Assumptions C08_truncated_body.

(* the whole body (cut at its very end) is a success with all records *)
Theorem C08_cut_at_end : forall decompress read_record cb sync, len sync = 16 ->
  forall bl post fuel idx, vbs_ok decompress read_record cb idx bl ->
  read_blocks decompress read_record cb (length bl + S fuel)%nat sync idx
    (firstn (length (concat (map (vb_bytes sync) bl))) (concat (map (vb_bytes sync) bl) ++ post))
  = ((idx + total bl)%nat, FOk).
Proof. intros. apply body_cut_at_boundary; assumption. Qed.
Print Assumptions C08_cut_at_end.

(* a file shorter than the magic number is an error *)
Theorem C08_cut_in_magic : forall bs, len bs < 4 -> read_header bs = None.
Proof. exact read_header_short. Qed.
Print Assumptions C08_cut_in_magic.

(* a file cut anywhere inside the header its writer produced (inside the magic
   number, the metadata count, a key or value, the end marker or the sync marker)
   is refused: no record is delivered and an error is returned; only with the
   whole header present (C07_header_roundtrip) does the block loop start *)
Theorem C08_cut_in_header : forall schema_json codec_name sync k,
  len schema_json < two63 -> len codec_name < two63 -> len sync = 16 ->
  (k < length (header_bytes schema_json codec_name sync))%nat ->
  read_header (firstn k (header_bytes schema_json codec_name sync)) = None.
Proof. intros sj cn sync k Hs Hc Hy Hk. exact (header_cut sj cn Hs Hc sync Hy k Hk). Qed.
Print Assumptions C08_cut_in_header.

(* ... and the cut exactly at the end of the header is an empty, valid file *)
Theorem C08_cut_after_header : forall decompress read_record cb schema_json codec_name sync post fuel,
  len schema_json < two63 -> len codec_name < two63 -> len sync = 16 ->
  exists h, read_header (firstn (length (header_bytes schema_json codec_name sync))
                          (header_bytes schema_json codec_name sync ++ post)) = Some (h, []) /\
            h_sync h = sync /\
            read_blocks decompress read_record cb (S fuel) sync 0 [] = (0%nat, FOk).
Proof.
  intros dc rr cb sj cn sync post fuel Hs Hc Hy.
  exists {| h_meta := written_meta sj cn; h_sync := sync |}.
  rewrite firstn_app_le by apply le_n. rewrite firstn_all.
  rewrite <- (app_nil_r (header_bytes sj cn sync)). rewrite read_header_written by assumption.
  repeat split.
Qed.
Print Assumptions C08_cut_after_header.

(* the same for the header of any conforming writer: any number of metadata
   blocks of any number of entries, cut at any of its bytes *)
Theorem C08_cut_in_any_header : forall sync bl k,
  len sync = 16 -> Forall block_ok bl ->
  (k < length (gen_header bl sync))%nat ->
  read_header (firstn k (gen_header bl sync)) = None.
Proof. intros sync bl k Hy Hb Hk. exact (header_cut_gen sync Hy bl Hb k Hk). Qed.
Print Assumptions C08_cut_in_any_header.

Example C08_header_ex :
  let sync := repeat 7 16 in
  let bl := [[([97], [1]); ([98], [2; 3])]; [([97], [9])]] in
  let h := gen_header bl sync in
  forallb (fun k => match read_header (firstn k h) with None => true | Some _ => false end) (seq 0 (length h)) = true
  /\ match read_header h with Some (_, []) => True | _ => False end.
Proof. split; vm_compute; [reflexivity|exact I]. Qed.

(* non-vacuity: every cut position of a two-block body *)
Example C08_ex :
  let sync := repeat 7 16 in
  let rr := fun bs : bytes => match bs with [] => Err | _ :: r => Done tt r end in
  let body := blk sync 2 [1; 2] ++ blk sync 1 [3] in
  map (fun k => read_blocks (fun x => Some x) rr (fun _ => None) 5 sync 0 (firstn k body)) [0; 1; 3; 4; 19; 20; 21; 22; 23; 38; 39]%nat
  = [(0, FOk); (0, FErr); (0, FErr); (2, FErr); (2, FErr); (2, FOk); (2, FErr); (2, FErr); (3, FErr); (3, FErr); (3, FOk)]%nat.
Proof. vm_compute. reflexivity. Qed.

(* ---- the property as one statement: a valid file cut at ANY byte position ----
   [cut_spec sync bl k idx] (Proofs/CutP.v) is the property's wording as a function of the
   cut position k inside the blocks: at a block boundary, success; inside a block, the
   records of the blocks before it, plus this block's only when its stored payload is
   completely present, and an error.  [read_file] is ReadFile as a whole (header, then the
   block loop under the header's sync marker). *)
Require Import Avro.Proofs.CutP.

Theorem C08_every_cut_of_the_body : forall decompress read_record cb sync, len sync = 16 ->
  forall bl idx k fuel,
  vbs_ok decompress read_record cb idx bl -> (k <= length (concat (map (vb_bytes sync) bl)))%nat -> (length bl < fuel)%nat ->
  read_blocks decompress read_record cb fuel sync idx (firstn k (concat (map (vb_bytes sync) bl))) = cut_spec sync bl k idx.
Proof. exact every_cut_body. Qed.
Print Assumptions C08_every_cut_of_the_body.

(* the whole file, with the header of any conforming writer: every cut inside the header is
   refused with no record delivered; behind it the blocks decide *)
Theorem C08_every_cut_of_the_file : forall decompress read_record cb sync, len sync = 16 ->
  forall mb, Forall block_ok mb ->
  forall bl k fuel, vbs_ok decompress read_record cb 0 bl ->
  let file := gen_header mb sync ++ concat (map (vb_bytes sync) bl) in
  (k <= length file)%nat -> (length bl < fuel)%nat ->
  read_file decompress read_record cb fuel (firstn k file) =
    if Nat.ltb k (length (gen_header mb sync)) then (O, FErr)
    else cut_spec sync bl (k - length (gen_header mb sync)) 0.
Proof. exact every_cut_file. Qed.
Print Assumptions C08_every_cut_of_the_file.

(* "reports success only when the prefix ends exactly at the end of the header or of a block" *)
Theorem C08_success_exactly_at_boundaries : forall sync bl k idx,
  (k <= length (concat (map (vb_bytes sync) bl)))%nat ->
  (forall b0, In b0 bl -> (0 < length (vb_bytes sync b0))%nat) ->
  (snd (cut_spec sync bl k idx) = FOk <->
   exists j, (j <= length bl)%nat /\ k = length (concat (map (vb_bytes sync) (firstn j bl)))).
Proof. exact cut_spec_ok_iff. Qed.
Print Assumptions C08_success_exactly_at_boundaries.

(* "never a partial or invented record": the delivered count is that of the first j blocks *)
Theorem C08_whole_blocks_only : forall sync bl k idx,
  exists j, (j <= length bl)%nat /\ fst (cut_spec sync bl k idx) = (idx + total (firstn j bl))%nat.
Proof. exact cut_spec_whole_blocks. Qed.
Print Assumptions C08_whole_blocks_only.

(* non-vacuity: a file of two blocks (one byte per record) behind a two-entry header, cut at
   every position: the model of ReadFile agrees with the specification at each, and the only
   successes are the three boundaries *)
Example C08_every_cut_ex :
  let sync := repeat 7 16 in
  let rr := fun bs : bytes => match bs with [] => Err | _ :: r => Done tt r end in
  let mb := [[([97], [1]); ([98], [2; 3])]] in
  let bl := [{| vb_count := 2; vb_raw := [1; 2]; vb_payload := [1; 2] |};
             {| vb_count := 1; vb_raw := [3]; vb_payload := [3] |}] in
  let file := gen_header mb sync ++ concat (map (vb_bytes sync) bl) in
  let hl := length (gen_header mb sync) in
  forallb (fun k =>
    let got := read_file (fun x => Some x) rr (fun _ => None) 5 (firstn k file) in
    let want := if Nat.ltb k hl then (O, FErr) else cut_spec sync bl (k - hl) 0 in
    Nat.eqb (fst got) (fst want) &&
    match snd got, snd want with FOk, FOk | FErr, FErr => true | _, _ => false end) (seq 0 (S (length file))) = true /\
  filter (fun k => match snd (read_file (fun x => Some x) rr (fun _ => None) 5 (firstn k file)) with FOk => true | _ => false end)
         (seq 0 (S (length file))) = [hl; (hl + 20)%nat; (hl + 39)%nat].
Proof. cbv zeta. split; vm_compute; reflexivity. Qed.
