(* C06 — Malformed input yields errors, never panics, hangs or runaway allocation.
   Proved here for the skip path (the codec used for every field the target
   lacks and for typ == nil), the primitive readers, the timestamp parser and
   the container header; the decode path is covered by the typed-read theorem of
   C05 where available and by the hostile-input correspondence on every run. *)
From Coq Require Import List ZArith Lia.
Require Import Avro.Model.Base Avro.Model.Prim Avro.Model.Schema Avro.Model.GoType Avro.Model.Time
               Avro.Model.Spec Avro.Model.Codec Avro.Model.Heap Avro.Model.Container.
Require Import Avro.Model.Typing.
Require Import Avro.Proofs.SafeP Avro.Proofs.BuildP Avro.Proofs.TimeP Avro.Proofs.LayoutP Avro.Proofs.TypedP Avro.Proofs.CtypeP Avro.Proofs.ReadSafeP Avro.Proofs.AllocP.
Import ListNotations.
Open Scope Z_scope.

(* every byte string, every codec (built or not): Skip returns a result or an error *)
Theorem C06_skip_never_panics : forall fuel c bs, c_skip fuel c bs <> Panic.
Proof. exact skip_no_panic. Qed.
Print Assumptions C06_skip_never_panics.

(* the decode path: every codec buildCodec returns, every byte string, every
   destination of the Go type (in particular the zeroed target ReadFile uses):
   a value of that type or an error, never a panic *)
Theorem C06_read_never_panics : forall reg, reg_sane reg ->
  forall s t om c fuel bs, build reg s (Some t) om = Some c ->
  c_read fuel c (zero_of t) bs <> Panic /\ (forall v r, c_read fuel c (zero_of t) bs = Done v r -> wt t v).
Proof. intros reg Hr s t om c fuel bs Hb. eapply built_codec_safe; eauto. apply zero_wt. Qed.
Print Assumptions C06_read_never_panics.

(* the decode path does not hang either: fuel linear in the input length suffices,
   so no loop is driven by a declared count alone (zero-width items excepted) *)
Theorem C06_read_terminates_linear : forall fuel c dest bs,
  nzw c -> (2 * length bs + 2 <= fuel)%nat -> c_read fuel c dest bs <> Fuel.
Proof. exact read_terminates. Qed.
Print Assumptions C06_read_terminates_linear.

(* together: a built codec on ANY bytes returns a typed value (having consumed at
   least min_bytes) or an error *)
Theorem C06_read_outcome : forall reg, reg_sane reg ->
  forall s t om c fuel bs, build reg s (Some t) om = Some c -> nzw c -> (2 * length bs + 2 <= fuel)%nat ->
  (exists v r, c_read fuel c (zero_of t) bs = Done v r /\ wt t v /\ len r + min_bytes c <= len bs) \/
  c_read fuel c (zero_of t) bs = Err.
Proof.
  intros reg Hr s t om c fuel bs Hb Hz Hf.
  destruct (built_codec_safe reg Hr s t om c fuel (zero_of t) bs Hb (zero_wt t)) as [Hnp Hty].
  pose proof (read_terminates fuel c (zero_of t) bs Hz Hf) as Hnf.
  destruct (c_read fuel c (zero_of t) bs) as [v r| | |] eqn:E; try contradiction; [left|right; reflexivity].
  exists v, r. split; [reflexivity|]. split; [eapply Hty; eauto|eapply read_progress; eauto].
Qed.
Print Assumptions C06_read_outcome.

(* "does not hang": with fuel linear in the input length the skip loops never run
   out of fuel, for every codec whose collection items occupy at least one byte *)
Theorem C06_skip_terminates_linear : forall fuel c bs,
  nzw c -> (2 * length bs + 2 <= fuel)%nat -> c_skip fuel c bs <> Fuel.
Proof. exact skip_terminates. Qed.
Print Assumptions C06_skip_terminates_linear.

Theorem C06_skip_outcome : forall fuel c bs,
  nzw c -> (2 * length bs + 2 <= fuel)%nat ->
  (exists r, c_skip fuel c bs = Done tt r /\ len r + min_bytes c <= len bs) \/ c_skip fuel c bs = Err.
Proof.
  intros fuel c bs Hz Hf. pose proof (skip_no_panic fuel c bs). pose proof (skip_terminates fuel c bs Hz Hf).
  destruct (c_skip fuel c bs) as [[] r| | |] eqn:E; try contradiction; [left|right; reflexivity].
  exists r. split; [reflexivity|]. eapply skip_progress; eauto.
Qed.
Print Assumptions C06_skip_outcome.

(* the known finding, as a theorem about the model: zero-width items make the
   work depend on the declared count, not on the input length *)
Theorem C06_zero_width_items_refuted :
  exists c bs fuel, build reg_std (SArray SNull) None false = Some c /\
    (2 * length bs + 2 <= fuel)%nat /\ c_skip fuel c bs = Fuel.
Proof.
  exists (CArray CNull VBad false), (enc_varint 1048576), 10%nat.
  split; [reflexivity|]. split; [vm_compute; lia|vm_compute; reflexivity].
Qed.
Print Assumptions C06_zero_width_items_refuted.

(* The allocation clause.  [cells v]: what a Go value holds outside its own
   fixed-size storage — bytes of strings and byte slices, slice items, map entries
   and their key bytes, pointer targets: everything a decode has to allocate.  For
   every codec tree without zero-width items, every destination, every byte string:
   what a successful decode adds to the destination is at most a constant of the
   codec ([st]: pointer targets created however short the input) plus the bytes
   consumed times a constant of the codec ([rate]: one per nesting level of
   collections plus the pointer targets of an item).  Bytes are what the run
   measures (each cell costs at most the size of its type times append's slack). *)
Theorem C06_decoded_heap_proportional : forall fuel c dest bs v r,
  nzw c -> c_read fuel c dest bs = Done v r ->
  cells v <= cells dest + st c + rate c * (len bs - len r).
Proof. exact read_cells. Qed.
Print Assumptions C06_decoded_heap_proportional.

Theorem C06_decoded_heap_fresh : forall fuel c dest bs v r,
  nzw c -> cells dest = 0 -> c_read fuel c dest bs = Done v r ->
  cells v <= st c + rate c * len bs.
Proof. exact read_cells_fresh. Qed.
Print Assumptions C06_decoded_heap_fresh.

(* what the correspondence check evaluates on every value the implementation
   returns (Corr/Codec.v, KRead): true for every successful decode of the model *)
Theorem C06_heap_bound_checked : forall fuel c dest bs v r,
  c_read fuel c dest bs = Done v r -> heap_bound_ok c dest (len bs - len r) v = true.
Proof. exact heap_bound_holds. Qed.
Print Assumptions C06_heap_bound_checked.

(* ... and with zero-width items the bound fails: 1000 items from 3 bytes *)
Theorem C06_zero_width_heap_refuted :
  exists c dest bs v r fuel, c_read fuel c dest bs = Done v r /\ cells dest = 0 /\
    cells v > st c + rate c * len bs.
Proof.
  exists (CArray CNull VBad false), (VSlice []), (enc_varint 1000 ++ [0]), (VSlice (repeat VBad 1000)), [], 2100%nat.
  split; [vm_compute; reflexivity|]. split; vm_compute; reflexivity.
Qed.
Print Assumptions C06_zero_width_heap_refuted.

(* non-vacuity: array of records holding a string and a pointer; 2 items from 9 bytes *)
Example C06_heap_ex :
  let ic := CRecord [(CString false, Some 0%nat); (CUnionOne (CPtr (CInt 64 false) (VInt 0)) 1, Some 1%nat)] in
  let c := CArray ic (VStruct [VStr []; VPtr None]) false in
  let bs := [4; 4; 104; 105; 2; 6; 0; 0; 0] in
  nzw c /\ (st c, rate c) = (0, 3) /\
  match c_read 40 c (VSlice []) bs with
  | Done v r => (cells v, len bs - len r) = (5, 9)
  | _ => False
  end.
Proof. split; [cbn; lia|]. split; vm_compute; reflexivity. Qed.

(* primitive readers: total on every byte string *)
Theorem C06_primitives_total : forall bs,
  (exists r, dec_varint bs = r) /\
  match rd_varint bs with Panic | Fuel => False | _ => True end /\
  (forall l, match rd_next l bs with Panic | Fuel => False | _ => True end) /\
  match string_skip bs with Panic | Fuel => False | _ => True end.
Proof.
  intros bs. split; [eexists; reflexivity|]. split; [apply rd_varint_total|]. split; [intros l; apply rd_next_total|apply string_skip_total].
Qed.
Print Assumptions C06_primitives_total.

(* timestamp text: any byte string gives a time or an error *)
Theorem C06_parse_time_never_panics : forall s, parse_time s <> PPanic.
Proof. exact parse_time_no_panic. Qed.
Print Assumptions C06_parse_time_never_panics.

(* decoder construction is a total function of (registry, schema, type): it returns a codec or an error *)
Theorem C06_build_total : forall reg s t om, exists r, build reg s t om = r.
Proof. intros. eexists. reflexivity. Qed.
Print Assumptions C06_build_total.

Example C06_ex :
  let c := CRecord [(CArray (CString false) VBad false, None); (CUnionOne (CFixed 4) 1, None)] in
  nzw c /\
  c_skip 40 c [255; 255; 255; 255; 255; 255; 255; 255; 255; 1; 0] = Err /\       (* count MinInt64, then EOF *)
  c_skip 40 c [1; 254; 255; 255; 255; 255; 255; 255; 255; 255; 1] = Err /\      (* sized block with size MaxInt64 *)
  c_skip 40 c [2; 2; 65; 0; 2; 1; 2; 3; 4; 9] = Done tt [9].
Proof. cbv zeta. split; [cbn; repeat split; lia|]. repeat split; vm_compute; reflexivity. Qed.

(* ---- compressed blocks: what the snappy codec hands on is bounded by what is stored ----
   (file.go refuses a block whose declared decoded length exceeds 32 times its stored length
   BEFORE decoding it; the premise says that golang/snappy's DecodedLen is the length of what
   its Decode returns).  A block of n stored bytes therefore never makes the reader hold more
   than 32 n bytes of payload, whatever the bytes are. *)
Require Import Avro.Model.Compress Avro.Proofs.CompressP.
Theorem C06_snappy_payload_bounded : forall raw_dec raw_len,
  (forall b u, raw_dec b = Some u -> raw_len b = Some (len u)) ->
  forall c u, snappy_decompress raw_dec raw_len c = Some u -> len u <= 32 * len c.
Proof. exact snappy_output_bounded. Qed.
Print Assumptions C06_snappy_payload_bounded.

(* and a declared length beyond that is refused whatever the raw decoder would do with it *)
Theorem C06_snappy_impossible_length_refused : forall raw_dec raw_len c n,
  raw_len (snappy_body c) = Some n -> 32 * len c < n -> snappy_decompress raw_dec raw_len c = None.
Proof. exact snappy_impossible_length. Qed.
Print Assumptions C06_snappy_impossible_length_refused.
