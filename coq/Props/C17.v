(* C17 — Primitive wire encodings match the Avro specification exactly.
   This file contains only statements, closed by [exact], with
   [Print Assumptions] under each, and non-vacuity examples. *)
From Coq Require Import List ZArith Lia.
Require Import Avro.Model.Base Avro.Model.Prim.
Require Import Avro.Proofs.VarintP Avro.Proofs.VarintMore Avro.Proofs.PrimP Avro.Proofs.FloatConv.
Import ListNotations.
Open Scope Z_scope.

(* decoding inverts encoding for every 64-bit value, whatever follows *)
Theorem C17_varint_roundtrip : forall v rest,
  int64_ok v -> dec_varint (enc_varint v ++ rest) = VOk (v, rest).
Proof. exact dec_enc_varint. Qed.
Print Assumptions C17_varint_roundtrip.

(* the writer's bytes are the specification's zig-zag base-128 formula *)
Theorem C17_matches_spec_formula : forall v, int64_ok v -> enc_varint v = spec_varint v.
Proof. exact enc_varint_spec. Qed.
Print Assumptions C17_matches_spec_formula.

(* at most ten bytes; continuation bits exactly on all but the last byte;
   no redundant trailing zero group *)
Theorem C17_shape : forall v, int64_ok v ->
  exists conts last,
    enc_varint v = conts ++ [last] /\ Forall is_cont conts /\ is_last last /\
    (length conts <= 9)%nat /\ (conts <> [] -> last <> 0).
Proof. exact enc_varint_shape. Qed.
Print Assumptions C17_shape.

(* the unique shortest form: whatever byte string the reader accepts as v
   consumes at least as many bytes as the writer's encoding of v *)
Theorem C17_shortest : forall bs v rest,
  bytes_ok bs -> dec_varint bs = VOk (v, rest) ->
  (length (enc_varint v) <= length bs - length rest)%nat.
Proof. exact enc_varint_shortest. Qed.
Print Assumptions C17_shortest.

(* rejection: truncated *)
Theorem C17_reject_truncated : forall v k, int64_ok v ->
  (k < length (enc_varint v))%nat -> dec_varint (firstn k (enc_varint v)) = VEOF.
Proof. exact dec_varint_truncated. Qed.
Print Assumptions C17_reject_truncated.

(* rejection: more than ten bytes is never accepted *)
Theorem C17_reject_too_long : forall bs,
  (10 <= length bs)%nat -> Forall (fun c => 128 <= c) (firstn 10 bs) ->
  forall v rest, dec_varint bs <> VOk (v, rest).
Proof. exact dec_varint_too_long. Qed.
Print Assumptions C17_reject_too_long.

(* rejection: overflow of 64 bits (tenth byte above 1, or an eleventh byte) *)
Theorem C17_reject_overflow : forall conts b rest,
  Forall (fun c => 128 <= c) conts -> b < 128 ->
  ((9 < length conts)%nat \/ (length conts = 9%nat /\ 1 < b)) ->
  dec_uvarint (conts ++ b :: rest) 0 1 0 = VOverflow.
Proof. intros conts b rest Hc Hb Hov. apply dec_uvarint_overflow; auto. Qed.
Print Assumptions C17_reject_overflow.

(* exactly the well-formed strings are accepted *)
Theorem C17_accept_only_wellformed : forall bs u rest,
  dec_uvarint bs 0 1 0 = VOk (u, rest) ->
  exists conts b,
    bs = conts ++ b :: rest /\ Forall (fun c => 128 <= c) conts /\ b < 128 /\
    (length conts <= 9)%nat /\ (length conts = 9%nat -> b <= 1).
Proof. intros bs u rest H. exact (dec_uvarint_ok_inv bs 0 1 0 u rest H). Qed.
Print Assumptions C17_accept_only_wellformed.

(* destination width: in range is stored exactly, out of range is an error *)
Theorem C17_width : forall w v rest, int64_ok v ->
  int_read w (int_write v ++ rest) = if int_fits w v then Done v rest else Err.
Proof. exact int_read_enc. Qed.
Print Assumptions C17_width.

Theorem C17_never_truncates : forall w bs v rest,
  int_read w bs = Done v rest -> int_fits w v = true /\ dec_varint bs = VOk (v, rest).
Proof. exact int_read_never_truncates. Qed.
Print Assumptions C17_never_truncates.

(* floats and doubles: n-byte little-endian, bit-exact round trip *)
Theorem C17_float_roundtrip : forall n bits rest,
  0 <= bits < 256 ^ Z.of_nat n -> float_read n (float_write n bits ++ rest) = Done bits rest.
Proof. exact float_roundtrip. Qed.
Print Assumptions C17_float_roundtrip.

Theorem C17_float_bytes : forall n bs rest, bytes_ok bs -> length bs = n ->
  float_read n (bs ++ rest) = Done (of_le bs) rest /\ float_write n (of_le bs) = bs.
Proof. exact float_read_bytes. Qed.
Print Assumptions C17_float_bytes.

(* float32 carried as double round-trips exactly (every non-NaN pattern), NaN stays NaN *)
Theorem C17_f32_as_double : forall b, 0 <= b < 4294967296 ->
  f32_is_nan b = false -> narrow64 (widen32 b) = b.
Proof. exact narrow_widen. Qed.
Print Assumptions C17_f32_as_double.

Theorem C17_f32_as_double_nan : forall b, 0 <= b < 4294967296 ->
  f32_is_nan b = true -> f32_is_nan (narrow64 (widen32 b)) = true.
Proof. exact narrow_widen_nan. Qed.
Print Assumptions C17_f32_as_double_nan.

(* non-vacuity: the hypotheses are met by concrete non-trivial instances *)
Example C17_ex_roundtrip :
  int64_ok (-9223372036854775808) /\
  enc_varint (-9223372036854775808) = [255;255;255;255;255;255;255;255;255;1] /\
  dec_varint (enc_varint 300 ++ [7]) = VOk (300, [7]) /\
  int_read 16 (int_write 32768) = Err /\ int_read 16 (int_write 32767) = Done 32767 [] /\
  dec_varint [128;0] = VOk (0, []) /\ enc_varint 0 = [0].
Proof. unfold int64_ok, two63. repeat split; try lia; vm_compute; reflexivity. Qed.
Example C17_ex_float :
  narrow64 (widen32 1) = 1 /\ f32_is_nan 1 = false /\
  float_read 4 (float_write 4 1065353216 ++ [9]) = Done 1065353216 [9].
Proof. repeat split; vm_compute; reflexivity. Qed.

(* ---- the two buffers as an application's own codec sees them (Model/Buffers.v) ----
   WriteBuf is append: without a Reset, Bytes is what the slice held followed by everything
   appended, in order, every Varint in the specification's form; a Reset forgets all of it. *)
Require Import Avro.Model.Buffers Avro.Proofs.BuffersP.
Theorem C17_writebuf_is_append : forall ops buf, forallb (fun op => negb (is_reset op)) ops = true ->
  wb_run buf ops = buf ++ concat (map wb_bytes ops).
Proof. exact wb_run_append. Qed.
Print Assumptions C17_writebuf_is_append.

Theorem C17_writebuf_reset : forall ops1 ops2 buf, wb_run buf (ops1 ++ WbReset :: ops2) = wb_run [] ops2.
Proof. exact wb_run_reset. Qed.
Print Assumptions C17_writebuf_reset.

(* ReadBuf is a cursor that only moves forward; Next / NextAsString hand out exactly the bytes
   they step over and refuse, leaving the cursor where it is, exactly when the length is
   negative or exceeds what is left; a Varint that succeeds returns the value of the bytes it
   stepped over *)
Theorem C17_readbuf_cursor_moves_forward : forall rest op rest' o,
  (forall d, op <> RbReset d) -> rb_step rest op = (rest', o) -> exists pre, rest = pre ++ rest'.
Proof. exact rb_step_suffix. Qed.
Print Assumptions C17_readbuf_cursor_moves_forward.

Theorem C17_readbuf_next : forall rest l,
  (0 <= l <= len rest -> rb_step rest (RbNext l) = (skipn (Z.to_nat l) rest, OBytes (firstn (Z.to_nat l) rest))) /\
  (l < 0 \/ len rest < l -> rb_step rest (RbNext l) = (rest, OErr)) /\
  rb_step rest (RbNextAsString l) = rb_step rest (RbNext l).
Proof. exact rb_next_spec. Qed.
Print Assumptions C17_readbuf_next.

Theorem C17_readbuf_varint : forall rest v rest',
  rb_step rest RbVarint = (rest', OInt v) -> dec_varint rest = VOk (v, rest').
Proof. exact rb_varint_ok. Qed.
Print Assumptions C17_readbuf_varint.

Example C17_buffers_ex :
  wb_run [9] [WbVarint (-1); WbByte 7; WbWrite [1; 2]; WbReset; WbVarint 64] = [128; 1] /\
  rb_run [2; 255; 128; 128] [RbVarint; RbNext 5; RbNext (-1); RbByte; RbVarint; RbByte]
    = [(OInt 1, 3); (OErr, 3); (OErr, 3); (OByte 255, 2); (OErr, 0); (OErr, 0)].
Proof. split; vm_compute; reflexivity. Qed.
