(* C16 — Write failures surface as errors and leave a clean prefix.
   Statements only, closed by [exact], with [Print Assumptions] under each,
   and non-vacuity examples.

   Model: Model/Container.v [feed] (an io.Writer that accepts k Write calls and
   fails on the next one after taking [partial] bytes of it), [enc_run_fault]
   (the encoder calls over that writer; the boolean says that the call which
   issued the failing Write returned the writer's error, after which the
   history stops), Model/Writer.v [file_run_fault] (the same with the header
   write of NewEncoderFor as write index 0).  That the returned error wraps the
   writer's error (errors.Is) and that no call panics is checked on the
   implementation by the harness; the model has no panics to offer.
   What the encoder does when the caller goes on after a failed call is outside
   the property and outside the model. *)
From Coq Require Import List ZArith Lia.
Require Import Avro.Model.Base Avro.Model.Prim Avro.Model.Container Avro.Model.Writer.
Require Import Avro.Proofs.WriterP Avro.Proofs.GranularityP.
Import ListNotations.
Open Scope Z_scope.

(* (a) what the writer accepted is a byte-for-byte prefix of the fault-free output *)
Theorem C16_clean_prefix : forall compress sync size ops st k partial,
  exists tail,
    concat (snd (enc_run compress sync size st ops)) =
    fst (enc_run_fault compress sync size st ops k partial) ++ tail.
Proof. exact enc_run_fault_prefix. Qed.
Print Assumptions C16_clean_prefix.

(* (b) the error is reported exactly when write k exists, and otherwise the
   whole fault-free output was accepted *)
Theorem C16_fault_reported : forall compress sync size ops st k partial,
  (snd (enc_run_fault compress sync size st ops k partial) = true <->
   (k < length (snd (enc_run compress sync size st ops)))%nat) /\
  (snd (enc_run_fault compress sync size st ops k partial) = false ->
   fst (enc_run_fault compress sync size st ops k partial) =
   concat (snd (enc_run compress sync size st ops))).
Proof. exact enc_run_fault_reported. Qed.
Print Assumptions C16_fault_reported.

(* the accepted bytes, exactly: the first k Write calls of the fault-free run
   and at most [partial] bytes of the next one *)
Theorem C16_accepted_exact : forall compress sync size ops st k partial,
  enc_run_fault compress sync size st ops k partial =
  let chunks := snd (enc_run compress sync size st ops) in
  if (k <? length chunks)%nat
  then (concat (firstn k chunks) ++ firstn partial (nth k chunks []), true)
  else (concat chunks, false).
Proof. exact enc_run_fault_exact. Qed.
Print Assumptions C16_accepted_exact.

(* (c) the whole file, the header write being index 0 *)
Theorem C16_file_clean_prefix : forall compress sync size schema_json codec_name ops k partial,
  exists tail,
    concat (file_chunks compress schema_json codec_name sync size ops) =
    fst (file_run_fault compress schema_json codec_name sync size ops k partial) ++ tail.
Proof. exact file_run_fault_prefix. Qed.
Print Assumptions C16_file_clean_prefix.

Theorem C16_file_fault_reported : forall compress sync size schema_json codec_name ops k partial,
  (snd (file_run_fault compress schema_json codec_name sync size ops k partial) = true <->
   (k < length (file_chunks compress schema_json codec_name sync size ops))%nat) /\
  (snd (file_run_fault compress schema_json codec_name sync size ops k partial) = false ->
   fst (file_run_fault compress schema_json codec_name sync size ops k partial) =
   concat (file_chunks compress schema_json codec_name sync size ops)).
Proof. exact file_run_fault_reported. Qed.
Print Assumptions C16_file_fault_reported.

Theorem C16_file_accepted_exact : forall compress sync size schema_json codec_name ops k partial,
  file_run_fault compress schema_json codec_name sync size ops k partial =
  let chunks := file_chunks compress schema_json codec_name sync size ops in
  if (k <? length chunks)%nat
  then (concat (firstn k chunks) ++ firstn partial (nth k chunks []), true)
  else (concat chunks, false).
Proof. exact file_run_fault_exact. Qed.
Print Assumptions C16_file_accepted_exact.

(* a failing header write is reported by NewEncoderFor; only a prefix of the header is held *)
Theorem C16_header_fault : forall compress sync size schema_json codec_name ops partial,
  file_run_fault compress schema_json codec_name sync size ops 0 partial =
  (firstn partial (header_bytes schema_json codec_name sync), true).
Proof. exact file_run_fault_header. Qed.
Print Assumptions C16_header_fault.

(* The property speaks of "its k-th write": how many Write calls carry the header
   and a block is the implementation's choice.  For EVERY way of cutting the same
   byte stream into Write calls (lens: the lengths of the calls), the writer that
   refuses call k after taking [partial] bytes holds a prefix of the fault-free
   stream, the failure is reported exactly when a call was refused (k < number of
   calls), and without a refusal everything is written.  With the model's own
   cutting (one Write for the header, four per block) this is the stateful fault
   run above. *)
Theorem C16_any_write_granularity : forall compress sync size schema_json codec_name ops lens k partial,
  let stream := concat (file_chunks compress schema_json codec_name sync size ops) in
  list_sum lens = length stream ->
  let r := fault_of_chunks (rechunk lens stream) k partial in
  (exists tail, stream = fst r ++ tail) /\
  (snd r = true <-> (k < length lens)%nat) /\
  (snd r = false -> fst r = stream).
Proof. intros c s z sj cn ops lens k p. exact (fault_any_granularity c sj cn s z ops lens k p). Qed.
Print Assumptions C16_any_write_granularity.

Theorem C16_model_granularity : forall compress sync size schema_json codec_name ops k partial,
  file_run_fault compress schema_json codec_name sync size ops k partial =
  fault_of_chunks (file_chunks compress schema_json codec_name sync size ops) k partial.
Proof. intros c s z sj cn ops k p. exact (file_run_fault_is_fault_of_chunks c sj cn s z ops k p). Qed.
Print Assumptions C16_model_granularity.

(* the file is the header followed by the blocks of the specification (C09) *)
Theorem C16_file_is_header_then_blocks : forall compress sync size schema_json codec_name ops,
  concat (file_chunks compress schema_json codec_name sync size ops) =
  header_bytes schema_json codec_name sync ++
  concat (map (fun g => block_bytes sync (Z.of_nat (length g)) (compress (concat g)))
              (fst (blocks_spec size [] ops))).
Proof.
  intros c s z sj cn ops. unfold file_chunks. cbn [concat].
  rewrite (proj1 (enc_run_refines c s z ops)). reflexivity.
Qed.
Print Assumptions C16_file_is_header_then_blocks.

(* ---- non-vacuity ---------------------------------------------------------- *)

Definition ex_sync : bytes := [1;2;3;4;5;6;7;8;9;10;11;12;13;14;15;16].
Definition ex_compress (bs : bytes) : bytes := 200 :: bs ++ [201].
Definition ex_ops : list enc_op :=
  [OpFlush; OpEncode []; OpEncode [7]; OpFlush; OpFlush;
   OpEncode [1;2;3]; OpEncode []; OpEncode [9];
   OpEncode [1;2;3;4]; OpEncode [1;2;3;4;5]; OpEncode [5]; OpEncode []; OpFlush].

(* the fault-free run: five blocks, twenty Write calls *)
Example C16_ex_writes :
  length (snd (enc_run ex_compress ex_sync 4 enc_init ex_ops)) = 20%nat.
Proof. vm_compute. reflexivity. Qed.

(* a fault inside the third block's payload write (write index 2*4+2), the
   writer taking two bytes of it *)
Example C16_ex_fault_in_third_payload :
  enc_run_fault ex_compress ex_sync 4 enc_init ex_ops 10 2 =
  ([4; 6; 200;7;201] ++ ex_sync ++ [6; 12; 200;1;2;3;9;201] ++ ex_sync ++ [2; 12; 200;1], true).
Proof. vm_compute. reflexivity. Qed.

(* k beyond the last write: nothing fails, everything is written *)
Example C16_ex_no_fault :
  enc_run_fault ex_compress ex_sync 4 enc_init ex_ops 20 0 =
  (concat (snd (enc_run ex_compress ex_sync 4 enc_init ex_ops)), false) /\
  snd (enc_run_fault ex_compress ex_sync 4 enc_init ex_ops 19 0) = true.
Proof. split; vm_compute; reflexivity. Qed.

(* block size 0 and a fault on the very first block write; header fault *)
Example C16_ex_size0_and_header :
  enc_run_fault (fun x => x) ex_sync 0 enc_init [OpEncode []; OpEncode [1]] 0 5 = ([2], true) /\
  enc_run_fault (fun x => x) ex_sync 0 enc_init [OpEncode []; OpEncode [1]] 6 0 = ([2; 0] ++ ex_sync ++ [2; 2], true) /\
  file_run_fault (fun x => x) [123;125] [110;117;108;108] ex_sync 0 [OpEncode []] 0 3 = ([79; 98; 106], true) /\
  snd (file_run_fault (fun x => x) [123;125] [110;117;108;108] ex_sync 0 [OpEncode []] 4 0) = true /\
  snd (file_run_fault (fun x => x) [123;125] [110;117;108;108] ex_sync 0 [OpEncode []] 5 0) = false.
Proof. repeat split; vm_compute; reflexivity. Qed.
