(* C12 — Concurrent independent use is race-free and result-equivalent.  PARTIAL.

   Proved: over the shared state of the library (codec registry, schema registry,
   timezone cache, resource-bank pool) and its atomic steps (Model/Conc.v: exactly the
   critical sections of registryMutex, schemaRegistryMutex, tzLock and the sync.Pool
   operations), every goroutine of an independent family observes, under EVERY
   interleaving and every choice of the pool, what it would observe running alone
   from the same initial state.  Results are compared as the goroutine can tell them
   apart: a registry lookup by the builder / schema found, a timezone by its offset
   (a freshly made and a cached *Location of the same offset are the same
   observation; that there is only ever one per offset is C12_tz_unique), a pooled
   bank as "a clean bank" (that every pooled bank is clean and that no two holders
   get the same bank are theorems C10_close, C10_zeroed and C10_pool_exclusive of
   Props/C10.v, not reproved here).

   NOT modelled: that the steps ARE atomic -- the absence of data races in the Go
   memory model, that the mutexes are held where Model/Conc.v says, that built
   codecs are not written after construction.  Exercised by harness/c12.go under the
   Go race detector (16 goroutines, randomised GOMAXPROCS), which also compares every
   goroutine's real results with a sequential oracle and feeds the registry
   observations of real concurrent runs to this model (Corr/Conc.v). *)
From Coq Require Import List ZArith Lia Bool.
Require Import Avro.Model.Base Avro.Model.Schema Avro.Model.GoType Avro.Model.Codec Avro.Model.Conc.
Require Import Avro.Proofs.ConcP.
Import ListNotations.
Open Scope Z_scope.

(* For every list of goroutine programs that is independent (no goroutine registers
   a codec or schema for a type another goroutine looks up or registers; lookups of
   commonly read types, timezone and pool traffic are unrestricted), every initial
   state, every schedule and every goroutine i: what i has observed so far is a
   prefix of what it observes running alone, and what is left of its program is the
   corresponding suffix. *)
Theorem C12_noninterference : forall (l : list prog) s0 sch i,
  independentb l = true ->
  exists n,
    map obs_of (snd (run s0 (of_list l) (fun _ => []) sch) i) = firstn n (alone s0 (nth i l [])) /\
    snd (fst (run s0 (of_list l) (fun _ => []) sch)) i = skipn n (nth i l []).
Proof. exact noninterference. Qed.
Print Assumptions C12_noninterference.

(* ... hence a goroutine that has finished has observed exactly its solitary run *)
Theorem C12_result_equivalent : forall (l : list prog) s0 sch i,
  independentb l = true ->
  snd (fst (run s0 (of_list l) (fun _ => []) sch)) i = [] ->
  map obs_of (snd (run s0 (of_list l) (fun _ => []) sch) i) = alone s0 (nth i l []).
Proof. exact noninterference_complete. Qed.
Print Assumptions C12_result_equivalent.

(* the decidable test implies the independence used in the proofs *)
Theorem C12_independence_test_sound : forall l, independentb l = true -> forall i, indep (of_list l) i.
Proof. exact independentb_sound. Qed.
Print Assumptions C12_independence_test_sound.

(* in any run, independent or not, all goroutines that ask for the same zone offset
   get the same location (time.Time values compare Location pointers) *)
Theorem C12_tz_unique : forall s0 ps sch i j o id id',
  In (RTz o id) (snd (run s0 ps (fun _ => []) sch) i) ->
  In (RTz o id') (snd (run s0 ps (fun _ => []) sch) j) -> id = id'.
Proof. exact tz_unique. Qed.
Print Assumptions C12_tz_unique.

(* the commutation underlying the result: two registry steps of which neither
   registers what the other touches can be swapped -- same results, same state *)
Theorem C12_registry_steps_commute : forall s o1 o2 x y,
  is_reg_step x = true -> is_reg_step y = true -> steps_indep x y = true ->
  let sx := exec s o1 x in let sxy := exec (fst sx) o2 y in
  let sy := exec s o2 y in let syx := exec (fst sy) o1 x in
  snd sx = snd syx /\ snd sy = snd sxy /\
  (forall k, sh_reg (fst sxy) k = sh_reg (fst syx) k) /\
  (forall k, sh_sreg (fst sxy) k = sh_sreg (fst syx) k) /\
  sh_tz (fst sxy) = sh_tz (fst syx) /\ sh_pool (fst sxy) = sh_pool (fst syx) /\ sh_next (fst sxy) = sh_next (fst syx).
Proof. exact reg_steps_commute. Qed.
Print Assumptions C12_registry_steps_commute.

(* ---- non-vacuity -------------------------------------------------------------------- *)
Definition ex_k0 := RNamed 100.
Definition ex_k1 := RNamed 101.
Definition ex_p0 : prog :=
  [ RegLookup ex_k0; RegSet ex_k0 (BCustom 3); RegLookup ex_k0; RegLookup (RWrap WTime);
    TzGet 3600; PoolGet; SRegLookup ex_k0; RegSet ex_k0 (BCustom 5); RegLookup ex_k0; PoolPut 0 ].
Definition ex_p1 : prog :=
  [ RegSet ex_k1 (BCustom 4); RegLookup ex_k1; RegLookup (RWrap WTime); TzGet 3600; TzGet (-1800);
    PoolPut 7; SRegSet ex_k1 9; SRegLookup ex_k1; PoolGet ].
Definition ex_p2 : prog := [ RegLookup (RWrap WNullInt); TzGet (-1800); PoolGet; PoolGet ].

(* goroutines 0 and 1 both register, for different types; all three read shared entries *)
Example C12_ex_independent : independentb [ex_p0; ex_p1; ex_p2] = true.
Proof. vm_compute. reflexivity. Qed.

Definition ex_sched : sched :=
  [ (1%nat, None); (0%nat, None); (2%nat, None); (1%nat, None); (0%nat, None); (0%nat, None); (1%nat, None);
    (2%nat, None); (1%nat, None); (0%nat, None); (1%nat, None); (1%nat, None); (0%nat, None);
    (2%nat, Some 0%nat); (0%nat, Some 0%nat); (0%nat, None); (1%nat, None); (0%nat, None); (0%nat, None);
    (1%nat, None); (2%nat, Some 3%nat); (0%nat, None); (1%nat, Some 0%nat); (5%nat, None) ].

Example C12_ex_run :
  let r := run shared0 (of_list [ex_p0; ex_p1; ex_p2]) (fun _ => []) ex_sched in
  snd (fst r) 0%nat = [] /\ snd (fst r) 1%nat = [] /\ snd (fst r) 2%nat = [] /\
  map obs_of (snd r 0%nat) = alone shared0 ex_p0 /\
  map obs_of (snd r 0%nat) =
    [ OReg None; OUnit; OReg (Some (BCustom 3)); OReg (Some (BWrap WTime)); OTz 3600; OBank; OSReg None;
      OUnit; OReg (Some (BCustom 5)); OUnit ] /\
  (* identities differ from the solitary run (goroutine 0 finds the location of offset 3600 already
     cached as the second entry; goroutine 2 gets the bank goroutine 1 put back), observations do not *)
  snd r 0%nat <> fst (fold_left (fun acc st => let sr := exec (snd acc) None st in (fst acc ++ [snd sr], fst sr))
                                ex_p0 ([], shared0)) /\
  In (RTz 3600 1) (snd r 0%nat) /\ In (RTz 3600 1) (snd r 1%nat) /\ In (RBank 7) (snd r 2%nat).
Proof. vm_compute. repeat split; auto 20; try discriminate. Qed.

(* independence is needed: let goroutine 1 register a codec for goroutine 0's type *)
Example C12_ex_dependent :
  let p1' := RegSet ex_k0 (BCustom 8) :: ex_p1 in
  independentb [ex_p0; p1'] = false /\
  map obs_of (snd (run shared0 (of_list [ex_p0; p1']) (fun _ => []) [(1%nat, None); (0%nat, None)]) 0%nat)
    = [OReg (Some (BCustom 8))] /\
  firstn 1 (alone shared0 ex_p0) = [OReg None].
Proof. vm_compute. repeat split; reflexivity. Qed.
