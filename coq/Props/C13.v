(* C13 — Codecs built from caller-supplied schemas write valid data and invert.
   The theorems of C01/C02/C03 are stated for an arbitrary schema s (not only the
   generated one), so they are instantiated here; plus the points the property
   names: null in either union position, numeric widths, logical types. *)
From Coq Require Import List ZArith Lia.
Require Import Avro.Model.Base Avro.Model.Prim Avro.Model.Schema Avro.Model.GoType Avro.Model.Time
               Avro.Model.Spec Avro.Model.Codec Avro.Model.Denote.
Require Import Avro.Proofs.Wire Avro.Proofs.BuildP Avro.Proofs.ReadP Avro.Proofs.WriteP Avro.Proofs.SpecP
               Avro.Proofs.RoundTrip Avro.Proofs.PrimP Avro.Proofs.TimeP Avro.Proofs.CanonP.
Import ListNotations.
Open Scope Z_scope.

Theorem C13_write_valid : forall reg s t om c v d bs fuel rest,
  build reg s t om = Some c -> datum_of c s v = Some d -> phys_ok s d ->
  c_write c v = Some bs -> (3 * dmax d + 1 <= fuel)%nat ->
  bs = canon_encode s d /\ sd fuel s (bs ++ rest) = Done d rest.
Proof. exact written_is_valid_avro. Qed.
Print Assumptions C13_write_valid.

Theorem C13_inverts : forall reg s t om c v d bs fuel rest dest v',
  build reg s t om = Some c -> datum_of c s v = Some d -> phys_ok s d ->
  c_write c v = Some bs -> (3 * dmax d + 1 <= fuel)%nat ->
  apply_datum c dest d = Some v' ->
  c_read fuel c dest (bs ++ rest) = Done v' rest /\ c_skip fuel c (bs ++ rest) = Done tt rest.
Proof. exact write_then_read. Qed.
Print Assumptions C13_inverts.

(* whichever position null occupies: the selector written is the index of the
   branch taken, and reading it back takes the same branch *)
Theorem C13_null_either_position : forall c nn v,
  (nn = 0 \/ nn = 1) ->
  (c_omit c v = true ->
     c_write (CUnionOne c nn) v = Some (enc_varint (1 - nn)) /\
     forall fuel dest rest, c_read fuel (CUnionOne c nn) dest (enc_varint (1 - nn) ++ rest) = Done dest rest) /\
  (c_omit c v = false -> forall bs, c_write c v = Some bs ->
     c_write (CUnionOne c nn) v = Some (enc_varint nn ++ bs) /\
     forall fuel dest rest, c_read fuel (CUnionOne c nn) dest ((enc_varint nn ++ bs) ++ rest) = c_read fuel c dest (bs ++ rest)).
Proof.
  intros c nn v Hnn. split.
  - intros Ho. split; [cbn [c_write]; rewrite Ho; reflexivity|].
    intros fuel dest rest. destruct Hnn as [-> | ->]; reflexivity.
  - intros Ho bs Hw. split; [cbn [c_write]; rewrite Ho, Hw; reflexivity|].
    intros fuel dest rest. destruct Hnn as [-> | ->]; reflexivity.
Qed.
Print Assumptions C13_null_either_position.

(* declared numeric width: any Go integer width under int or long *)
Theorem C13_int_widths : forall w om z rest, int64_ok z ->
  (exists bs, c_write (CInt w om) (VInt z) = Some bs /\
     forall fuel dest, c_read fuel (CInt w om) dest (bs ++ rest) = if int_fits w z then Done (VInt z) rest else Err).
Proof.
  intros w om z rest Hz. exists (int_write z). split; [reflexivity|]. intros fuel dest. cbn [c_read].
  rewrite int_read_enc by exact Hz. destruct (int_fits w z); reflexivity.
Qed.
Print Assumptions C13_int_widths.

(* "decoding those bytes returns the original value": for any caller-supplied
   schema the codec was built for, every value in the form a decode produces
   ([canon], Proofs/CanonP.v: integers within the Go width, valid wrappers,
   times at the schema's resolution — whole units in UTC for the timestamp
   types over the whole range of the stored long, midnights for dates — and
   omitted values equal to the destination's) is read back as itself, from
   bytes that are a valid Avro encoding under that schema (C13_write_valid). *)
Theorem C13_returns_original_value : forall reg s t om c v d bs fuel rest dest,
  build reg s t om = Some c -> datum_of c s v = Some d -> phys_ok s d ->
  c_write c v = Some bs -> (3 * dmax d + 1 <= fuel)%nat ->
  canon c dest v ->
  c_read fuel c dest (bs ++ rest) = Done v rest.
Proof.
  intros reg s t om c v d bs fuel rest dest Hb Hd Hp Hw Hf Hc.
  exact (proj1 (write_then_read _ _ _ _ _ _ _ _ fuel rest dest v Hb Hd Hp Hw Hf (roundtrip_identity c s dest v d Hc Hd))).
Qed.
Print Assumptions C13_returns_original_value.

(* a time under timestamp-millis / timestamp-micros is canonical for its codec at
   every instant whose unit count fits the long — not only those within int64 nanoseconds *)
Theorem C13_timestamp_canonical_whole_range : forall mult l dest, unit_ok mult -> int64_ok l ->
  canon (CTimeLong mult) dest (VTime (time_of_units mult l)).
Proof. intros mult l dest Hu Hl. cbn [canon]. split; [exact Hu|]. exists l. split; [exact Hl|reflexivity]. Qed.
Print Assumptions C13_timestamp_canonical_whole_range.

Example C13_ex :
  let t := TStruct [] [] [GF [65] true [97] [] (TPtr (TInt I16)); GF [66] true [98] [] (TWrap WTime); GF [67] true [99] [] (TWrap WNullFloat)] in
  let s := SRecord [([97], SUnion [SInt false; SNull]); ([98], SUnion [SLong LtMillis; SNull]); ([99], SUnion [SNull; SFloat])] in
  let v := VStruct [VPtr None; VTime (TV (-2) 500000000 0); VNullW true (VF64 4609434218613702656)] in
  exists c bs, build reg_std s (Some t) false = Some c /\ c_write c v = Some bs /\
    bs = [2; 0; 183; 23; 2; 0; 0; 192; 63] /\ c_read 10 c (zero_of t) bs = Done v [].
Proof. cbv zeta. eexists. eexists. repeat split; vm_compute; reflexivity. Qed.
