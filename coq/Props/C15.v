(* C15 — Schema generation is total, deterministic and follows the documented mapping.
   [schema_for] / [schema_for_type] (Model/SchemaGen.v) model schemaForType /
   SchemaForType of /repo/buildschema.go.  They are Gallina functions: total
   and deterministic by construction (the Go side is checked for determinism by
   repeated and concurrent calls on every run).  What carries content:
   when they refuse, what they return, and that the result is well formed. *)
From Coq Require Import List ZArith Bool String.
Require Import Avro.Model.Base Avro.Model.Schema Avro.Model.GoType Avro.Model.Codec Avro.Model.SchemaGen.
Require Import Avro.Proofs.SchemaGenP.
Import ListNotations.
Open Scope Z_scope.

(* ---- totality: an error exactly for the types the mapping cannot express ---- *)
(* [expressible] is written independently, by recursion on the type: every type
   reachable through kept fields, elements, map values and pointees is bool, a
   signed integer, a float, string, a slice/array/map/struct/pointer of such, or
   registered; a self-referential type (TSelf) is not. *)
Theorem C15_refuses_exactly : forall reg t, schema_for reg t = None <-> expressible reg t = false.
Proof. exact schema_for_none_iff. Qed.
Print Assumptions C15_refuses_exactly.

Theorem C15_succeeds_exactly : forall reg t, (exists s, schema_for reg t = Some s) <-> expressible reg t = true.
Proof. exact schema_for_some_iff. Qed.
Print Assumptions C15_succeeds_exactly.

(* SchemaForType: the item must be a struct or a pointer to a struct *)
Theorem C15_top_level : forall reg t,
  schema_for_type reg t = None <->
  let t' := match t with TPtr e => e | _ => t end in
  (forall n p fs, underlying t' <> TStruct n p fs) \/ expressible reg t' = false.
Proof. exact schema_for_type_none_iff. Qed.
Print Assumptions C15_top_level.

(* ---- the documented mapping ---- *)
(* [maps_to] is an inductive relation with one constructor per rule of the
   property's prose; record fields are the kept fields (name_for_field <> "-")
   in declaration order under name_for_field, omitempty wraps in [null, T]
   unless T is a union already.  Schema generation returns s iff the relation
   holds, and the relation is functional. *)
Theorem C15_mapping : forall reg t s, schema_for reg t = Some s <-> maps_to reg t s.
Proof. exact maps_to_iff. Qed.
Print Assumptions C15_mapping.

Theorem C15_mapping_functional : forall reg t s1 s2, maps_to reg t s1 -> maps_to reg t s2 -> s1 = s2.
Proof. exact maps_to_functional. Qed.
Print Assumptions C15_mapping_functional.

(* ---- structural validity ---- *)
(* FULL STATEMENT (does not hold, see the three refutations below):
     forall reg t s, sreg_ok reg -> schema_for reg t = Some s -> gs_valid s
   where gs_valid s = unions never nest directly nor repeat a branch
                      /\ every named type is defined once
                      /\ every record has a name /\ field names are distinct. *)

(* unions: full strength, for every registry whose registered schemas are
   themselves well formed and not "null" *)
Theorem C15_unions_valid : forall reg t s, sreg_ok reg -> schema_for reg t = Some s ->
  unions_ok s = true /\ is (gs_type s) "null" = false.
Proof. intros reg t s Hr H. exact (schema_for_good reg Hr t s H). Qed.
Print Assumptions C15_unions_valid.

Theorem C15_standard_registry_ok : sreg_ok sreg_std /\
  (forall reg id g, sreg_ok reg -> good g -> sreg_ok (sreg_set reg id g)).
Proof. split; [exact sreg_std_ok|exact sreg_set_ok]. Qed.
Print Assumptions C15_standard_registry_ok.

(* record definitions: the list of record definitions of the result is the list
   of struct definitions met in the type tree, in order *)
Theorem C15_record_definitions : forall reg t s, schema_for reg t = Some s -> rec_defs s = struct_defs reg t.
Proof. exact rec_defs_struct_defs. Qed.
Print Assumptions C15_record_definitions.

(* partial: validity under three guards on the Go type — no struct name occurs
   twice in the type tree, no struct is anonymous, JSON names are distinct
   within each struct.  Missing for the full statement: named references in
   avro.Schema (a second use of a struct type repeats its definition), a name
   for anonymous structs, and a duplicate-name check in schemaForStruct. *)
Theorem C15_valid_partial : forall reg t s, sreg_ok reg -> schema_for reg t = Some s ->
  names_unique reg t -> structs_named reg t -> json_names_unique reg t -> gs_valid s.
Proof. exact valid_partial. Qed.
Print Assumptions C15_valid_partial.

(* the guards are exactly what is missing *)
Theorem C15_valid_iff_guards : forall reg t s, sreg_ok reg -> schema_for reg t = Some s ->
  (gs_valid s <-> names_unique reg t /\ structs_named reg t /\ json_names_unique reg t).
Proof. exact valid_iff_guards. Qed.
Print Assumptions C15_valid_iff_guards.

(* known finding named-type:defined-twice *)
Theorem C15_named_twice_refuted : exists t s, schema_for sreg_std t = Some s /\ ~ names_defined_once s.
Proof. exact named_twice_refuted. Qed.
Print Assumptions C15_named_twice_refuted.

(* known finding record:duplicate-field-name *)
Theorem C15_dup_field_refuted : exists t s, schema_for sreg_std t = Some s /\ ~ fields_distinct s.
Proof. exact dup_field_refuted. Qed.
Print Assumptions C15_dup_field_refuted.

(* known finding record:unnamed *)
Theorem C15_unnamed_refuted : exists t s, schema_for sreg_std t = Some s /\ ~ records_named s.
Proof. exact unnamed_refuted. Qed.
Print Assumptions C15_unnamed_refuted.

(* ---- a codec is either built or refused ---- *)
(* [build] is a total function: Some codec or None.  The content: for the
   encoder's domain ([codec_buildable]: no int8, no unsigned kinds except the
   uint8 of []byte, no Go arrays, string-keyed maps, distinct JSON names per
   struct, defined types over non-pointer kinds; pointers of any depth) the
   builder accepts the generated schema, at every omit flag. *)
Theorem C15_codec_decided : forall t s, schema_for sreg_std t = Some s -> codec_buildable t = true ->
  forall om, exists c, build reg_std (classify s) (Some t) om = Some c.
Proof.
  intros t s H Hb om. pose proof (codec_decided t s H Hb om) as G.
  destruct (build reg_std (classify s) (Some t) om) as [c|]; [exists c; reflexivity|discriminate].
Qed.
Print Assumptions C15_codec_decided.

Theorem C15_codec_decided_top : forall t s, schema_for_type sreg_std t = Some s ->
  codec_buildable (match t with TPtr e => e | _ => t end) = true ->
  exists c, build reg_std (classify s) (Some (match t with TPtr e => e | _ => t end)) false = Some c.
Proof. exact codec_decided_top. Qed.
Print Assumptions C15_codec_decided_top.

(* ---- non-vacuity and the tag corner cases ---- *)
Definition tagged (json bq : string) : gfield := GF (b "F") true (b json) (b bq) (TInt I64).

Example C15_tags :
  name_for_field (tagged "" "") = b "F" /\ omit_empty (tagged "" "") = false /\
  name_for_field (tagged "-" "") = dash /\                       (* excluded *)
  name_for_field (tagged "-," "") = dash /\                      (* excluded too: unlike encoding/json *)
  name_for_field (tagged ",omitempty" "") = b "F" /\ omit_empty (tagged ",omitempty" "") = true /\
  name_for_field (tagged "x,omitempty,string" "") = b "x" /\ omit_empty (tagged "x,omitempty,string" "") = true /\
  name_for_field (tagged "x,string,omitempty" "") = b "x" /\ omit_empty (tagged "x,string,omitempty" "") = true /\
  name_for_field (tagged ",string" "") = b "F" /\ omit_empty (tagged ",string" "") = false /\
  omit_empty (tagged "x,omitemptyx" "") = false /\ omit_empty (tagged "omitempty" "") = false /\
  name_for_field (tagged "x" "-") = dash /\                      (* bq:"-" excludes whatever json says *)
  name_for_field (tagged "x" "y") = b "x" /\
  name_for_field (GF (b "f") false (b "x") [] (TInt I64)) = dash. (* unexported *)
Proof. repeat split; vm_compute; reflexivity. Qed.

Example C15_ex :
  let leaf := TStruct (b "Leaf") (b "a/b-c") [GF (b "A") true (b "a") [] (TInt I32)] in
  let t := TStruct (b "T") (b "main")
             [GF (b "P") true [] [] (TPtr TString); GF (b "Q") true (b "q,omitempty") [] (TSlice (TInt U8));
              GF (b "R") true [] [] (TPtr (TSlice leaf)); GF (b "S") true (b "-") [] TChan;
              GF (b "W") true [] [] (TPtr (TPtr (TWrap WTime))); GF (b "M") true [] [] (TMap (TInt IInt) TFloat32)] in
  schema_for_type sreg_std t =
    Some (gs_record (b "T") (b "main")
            [(b "P", gs_nullable (gs_prim "string")); (b "q", gs_nullable (gs_prim "bytes"));
             (b "R", gs_array (gs_record (b "Leaf") (b "a.b_c") [(b "a", gs_prim "long")]));
             (b "W", gs_nullable (gs_prim "string")); (b "M", gs_map (gs_prim "double"))]) /\
  schema_for_type sreg_std (TStruct (b "T") (b "main") [GF (b "X") true [] [] (TSlice (TInt U16))]) = None /\
  schema_for_type sreg_std (TStruct (b "T") (b "main") [GF (b "X") true [] [] (TPtr (TSelf 0))]) = None /\
  schema_for_type sreg_std (TSlice TBool) = None /\
  (* int8 is given a schema, and the codec builder then refuses it *)
  (exists s, schema_for_type sreg_std (TStruct [] [] [GF (b "X") true [] [] (TInt I8)]) = Some s /\
             build reg_std (classify s) (Some (TStruct [] [] [GF (b "X") true [] [] (TInt I8)])) false = None).
Proof. cbv zeta. repeat split; try (vm_compute; reflexivity). eexists. split; vm_compute; reflexivity. Qed.
