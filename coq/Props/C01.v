(* C01 — Encode-then-read round trip preserves every record (codec level,
   and composed with the block and file framing of Props/C09.v and Props/C07.v
   in C01_through_container). *)
From Coq Require Import List ZArith.
Require Import Avro.Model.Base Avro.Model.Prim Avro.Model.Schema Avro.Model.GoType
               Avro.Model.Spec Avro.Model.Codec Avro.Model.Denote.
Require Import Avro.Proofs.Wire Avro.Proofs.BuildP Avro.Proofs.ReadP Avro.Proofs.WriteP Avro.Proofs.SpecP
               Avro.Proofs.RoundTrip Avro.Proofs.FloatConv.
Require Import Avro.Model.Container Avro.Model.Writer Avro.Proofs.ContainerP Avro.Proofs.FileP Avro.Proofs.EndToEnd.
Import ListNotations.
Open Scope Z_scope.

(* For every registry, schema, Go type and codec c built for them, every value v
   that denotes a datum d (of physically possible size), every destination and
   every following bytes: reading what Write produced returns exactly
   [apply_datum c dest d] — the datum-level image of v — consumes exactly the
   written bytes, and Skip consumes the same. *)
Theorem C01_write_then_read : forall reg s t om c v d bs fuel rest dest v',
  build reg s t om = Some c -> datum_of c s v = Some d -> phys_ok s d ->
  c_write c v = Some bs -> (3 * dmax d + 1 <= fuel)%nat ->
  apply_datum c dest d = Some v' ->
  c_read fuel c dest (bs ++ rest) = Done v' rest /\ c_skip fuel c (bs ++ rest) = Done tt rest.
Proof. exact write_then_read. Qed.
Print Assumptions C01_write_then_read.

(* records written one after the other (a block payload) are read back one after the other *)
Theorem C01_sequence : forall reg s t om c fuel (vds : list (gval * datum * bytes * gval)) dest rest,
  build reg s t om = Some c ->
  Forall (fun x => match x with (v, d, bs, v') =>
            datum_of c s v = Some d /\ phys_ok s d /\ c_write c v = Some bs /\
            (3 * dmax d + 1 <= fuel)%nat /\ apply_datum c dest d = Some v' end) vds ->
  (fix go (l : list (gval * datum * bytes * gval)) (input : bytes) {struct l} : Prop :=
     match l with
     | [] => input = rest
     | (_, _, _, v') :: l' => exists r, c_read fuel c dest input = Done v' r /\ go l' r
     end) vds (concat (map (fun x => snd (fst x)) vds) ++ rest).
Proof.
  intros reg s t om c fuel vds dest rest Hb HF. induction HF as [|[[[v d] bs] v'] l Hx _ IH]; [reflexivity|].
  destruct Hx as (Hd & Hp & Hw & Hf & Ha). cbn [map concat fst snd]. rewrite <- app_assoc.
  eexists. split; [|exact IH].
  eapply (proj1 (write_then_read _ _ _ _ _ _ _ _ _ _ _ _ Hb Hd Hp Hw Hf Ha)).
Qed.
Print Assumptions C01_sequence.

(* normalisations at the leaves: what reading back a written leaf value gives *)
Theorem C01_float32_in_double_field : forall b, 0 <= b < 4294967296 ->
  f32_is_nan b = false -> narrow64 (widen32 b) = b.
Proof. exact narrow_widen. Qed.
Print Assumptions C01_float32_in_double_field.

(* Through the container file.  For any history of Encode/Flush calls closed by
   a flush, in which every record is what codec c writes for some value (whose
   datum is physical and has an image v' in the destination), under any
   compressor with a matching decompressor and any block size: reading the file
   recovers the header as written and delivers exactly as many records as were
   appended, in order, with success; and each record's bytes decode to that
   record's image whatever follows them in the block (C01_record_value). *)
Theorem C01_through_container : forall reg s t om c, build reg s t om = Some c ->
  forall fuel dest compress decompress, (forall x, decompress (compress x) = Some x) ->
  forall sync, len sync = 16 ->
  forall schema_json codec_name size ops bfuel,
  len schema_json < two63 -> len codec_name < two63 ->
  Forall (fun r => exists v', written s c fuel dest r v') (recs_of ops) ->
  Forall (group_small compress) (fst (blocks_spec size [] (ops ++ [OpFlush]))) ->
  (length (fst (blocks_spec size [] (ops ++ [OpFlush]))) < bfuel)%nat ->
  exists body,
    read_header (concat (file_chunks compress schema_json codec_name sync size (ops ++ [OpFlush])))
      = Some ({| h_meta := written_meta schema_json codec_name; h_sync := sync |}, body) /\
    read_blocks decompress (rr c fuel dest) (fun _ => None) bfuel sync 0 body = (length (recs_of ops), FOk).
Proof. exact file_values_roundtrip. Qed.
Print Assumptions C01_through_container.

Theorem C01_record_value : forall reg s t om c, build reg s t om = Some c ->
  forall fuel dest r v', written s c fuel dest r v' ->
  rec_decodes (rr c fuel dest) r /\ forall rest, rv c fuel dest (r ++ rest) = Some v'.
Proof. exact written_decodes. Qed.
Print Assumptions C01_record_value.

Example C01_ex :
  let t := TStruct [] [] [GF [65] true [97] [] (TPtr TString);
                          GF [66] true [98;44;111;109;105;116;101;109;112;116;121] [] (TInt I64);
                          GF [68] true [100] [] (TSlice (TMap TString (TInt I16)))] in
  let s := SRecord [([97], SUnion [SNull; SString]); ([98], SUnion [SNull; SLong LtNone]);
                    ([100], SArray (SMap (SLong LtNone)))] in
  let v := VStruct [VPtr (Some (VStr [104; 105])); VInt 0; VSlice [VMap [([120], VInt (-7))]; VMapNil]] in
  exists c d bs, build reg_std s (Some t) false = Some c /\ datum_of c s v = Some d /\ c_write c v = Some bs /\
    c_read 20 c (zero_of t) (bs ++ [9]) =
      Done (VStruct [VPtr (Some (VStr [104; 105])); VInt 0; VSlice [VMap [([120], VInt (-7))]; VMap []]]) [9].
Proof. cbv zeta. eexists. eexists. eexists. repeat split; vm_compute; reflexivity. Qed.
