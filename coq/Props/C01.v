(* C01 — Encode-then-read round trip preserves every record (codec level;
   block and file framing: Props/C09.v, Props/C07.v). *)
From Coq Require Import List ZArith.
Require Import Avro.Model.Base Avro.Model.Prim Avro.Model.Schema Avro.Model.GoType
               Avro.Model.Spec Avro.Model.Codec Avro.Model.Denote.
Require Import Avro.Proofs.Wire Avro.Proofs.BuildP Avro.Proofs.ReadP Avro.Proofs.WriteP Avro.Proofs.SpecP
               Avro.Proofs.RoundTrip Avro.Proofs.FloatConv.
Import ListNotations.
Open Scope Z_scope.

(* For every registry, schema, Go type and codec c built for them, every value v
   that denotes a datum d (of physically possible size), every destination and
   every following bytes: reading what Write produced returns exactly
   [apply_datum c dest d] — the datum-level image of v — consumes exactly the
   written bytes, and Skip consumes the same. *)
Theorem C01_write_then_read : forall reg s t om c v d bs fuel rest dest v',
  build reg s t om = Some c -> datum_of c s v = Some d -> phys_ok s d ->
  c_write c v = Some bs -> (3 * dmax d + 1 <= fuel)%nat ->
  apply_datum c dest d = Some v' ->
  c_read fuel c dest (bs ++ rest) = Done v' rest /\ c_skip fuel c (bs ++ rest) = Done tt rest.
Proof. exact write_then_read. Qed.
Print Assumptions C01_write_then_read.

(* records written one after the other (a block payload) are read back one after the other *)
Theorem C01_sequence : forall reg s t om c fuel (vds : list (gval * datum * bytes * gval)) dest rest,
  build reg s t om = Some c ->
  Forall (fun x => match x with (v, d, bs, v') =>
            datum_of c s v = Some d /\ phys_ok s d /\ c_write c v = Some bs /\
            (3 * dmax d + 1 <= fuel)%nat /\ apply_datum c dest d = Some v' end) vds ->
  (fix go (l : list (gval * datum * bytes * gval)) (input : bytes) {struct l} : Prop :=
     match l with
     | [] => input = rest
     | (_, _, _, v') :: l' => exists r, c_read fuel c dest input = Done v' r /\ go l' r
     end) vds (concat (map (fun x => snd (fst x)) vds) ++ rest).
Proof.
  intros reg s t om c fuel vds dest rest Hb HF. induction HF as [|[[[v d] bs] v'] l Hx _ IH]; [reflexivity|].
  destruct Hx as (Hd & Hp & Hw & Hf & Ha). cbn [map concat fst snd]. rewrite <- app_assoc.
  eexists. split; [|exact IH].
  eapply (proj1 (write_then_read _ _ _ _ _ _ _ _ _ _ _ _ Hb Hd Hp Hw Hf Ha)).
Qed.
Print Assumptions C01_sequence.

(* normalisations at the leaves: what reading back a written leaf value gives *)
Theorem C01_float32_in_double_field : forall b, 0 <= b < 4294967296 ->
  f32_is_nan b = false -> narrow64 (widen32 b) = b.
Proof. exact narrow_widen. Qed.
Print Assumptions C01_float32_in_double_field.

Example C01_ex :
  let t := TStruct [] [] [GF [65] true [97] [] (TPtr TString);
                          GF [66] true [98;44;111;109;105;116;101;109;112;116;121] [] (TInt I64);
                          GF [68] true [100] [] (TSlice (TMap TString (TInt I16)))] in
  let s := SRecord [([97], SUnion [SNull; SString]); ([98], SUnion [SNull; SLong LtNone]);
                    ([100], SArray (SMap (SLong LtNone)))] in
  let v := VStruct [VPtr (Some (VStr [104; 105])); VInt 0; VSlice [VMap [([120], VInt (-7))]; VMapNil]] in
  exists c d bs, build reg_std s (Some t) false = Some c /\ datum_of c s v = Some d /\ c_write c v = Some bs /\
    c_read 20 c (zero_of t) (bs ++ [9]) =
      Done (VStruct [VPtr (Some (VStr [104; 105])); VInt 0; VSlice [VMap [([120], VInt (-7))]; VMap []]]) [9].
Proof. cbv zeta. eexists. eexists. eexists. repeat split; vm_compute; reflexivity. Qed.
