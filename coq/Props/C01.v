(* C01 — Encode-then-read round trip preserves every record (codec level,
   and composed with the block and file framing of Props/C09.v and Props/C07.v
   in C01_through_container). *)
From Coq Require Import List ZArith.
Require Import Avro.Model.Base Avro.Model.Prim Avro.Model.Schema Avro.Model.GoType
               Avro.Model.Spec Avro.Model.Codec Avro.Model.Denote.
Require Import Avro.Proofs.Wire Avro.Proofs.BuildP Avro.Proofs.ReadP Avro.Proofs.WriteP Avro.Proofs.SpecP
               Avro.Proofs.RoundTrip Avro.Proofs.FloatConv.
Require Import Avro.Model.Container Avro.Model.Writer Avro.Proofs.ContainerP Avro.Proofs.FileP Avro.Proofs.EndToEnd.
Require Import Avro.Proofs.TimeP Avro.Proofs.CanonP.
Import ListNotations.
Open Scope Z_scope.

(* For every registry, schema, Go type and codec c built for them, every value v
   that denotes a datum d (of physically possible size), every destination and
   every following bytes: reading what Write produced returns exactly
   [apply_datum c dest d] — the datum-level image of v — consumes exactly the
   written bytes, and Skip consumes the same. *)
Theorem C01_write_then_read : forall reg s t om c v d bs fuel rest dest v',
  build reg s t om = Some c -> datum_of c s v = Some d -> phys_ok s d ->
  c_write c v = Some bs -> (3 * dmax d + 1 <= fuel)%nat ->
  apply_datum c dest d = Some v' ->
  c_read fuel c dest (bs ++ rest) = Done v' rest /\ c_skip fuel c (bs ++ rest) = Done tt rest.
Proof. exact write_then_read. Qed.
Print Assumptions C01_write_then_read.

(* records written one after the other (a block payload) are read back one after the other *)
Theorem C01_sequence : forall reg s t om c fuel (vds : list (gval * datum * bytes * gval)) dest rest,
  build reg s t om = Some c ->
  Forall (fun x => match x with (v, d, bs, v') =>
            datum_of c s v = Some d /\ phys_ok s d /\ c_write c v = Some bs /\
            (3 * dmax d + 1 <= fuel)%nat /\ apply_datum c dest d = Some v' end) vds ->
  (fix go (l : list (gval * datum * bytes * gval)) (input : bytes) {struct l} : Prop :=
     match l with
     | [] => input = rest
     | (_, _, _, v') :: l' => exists r, c_read fuel c dest input = Done v' r /\ go l' r
     end) vds (concat (map (fun x => snd (fst x)) vds) ++ rest).
Proof.
  intros reg s t om c fuel vds dest rest Hb HF. induction HF as [|[[[v d] bs] v'] l Hx _ IH]; [reflexivity|].
  destruct Hx as (Hd & Hp & Hw & Hf & Ha). cbn [map concat fst snd]. rewrite <- app_assoc.
  eexists. split; [|exact IH].
  eapply (proj1 (write_then_read _ _ _ _ _ _ _ _ _ _ _ _ Hb Hd Hp Hw Hf Ha)).
Qed.
Print Assumptions C01_sequence.

(* normalisations at the leaves: what reading back a written leaf value gives *)
Theorem C01_float32_in_double_field : forall b, 0 <= b < 4294967296 ->
  f32_is_nan b = false -> narrow64 (widen32 b) = b.
Proof. exact narrow_widen. Qed.
Print Assumptions C01_float32_in_double_field.

(* Through the container file.  For any history of Encode/Flush calls closed by
   a flush, in which every record is what codec c writes for some value (whose
   datum is physical and has an image v' in the destination), under any
   compressor with a matching decompressor and any block size: reading the file
   recovers the header as written and delivers exactly as many records as were
   appended, in order, with success; and each record's bytes decode to that
   record's image whatever follows them in the block (C01_record_value). *)
Theorem C01_through_container : forall reg s t om c, build reg s t om = Some c ->
  forall fuel dest compress decompress, (forall x, decompress (compress x) = Some x) ->
  forall sync, len sync = 16 ->
  forall schema_json codec_name size ops bfuel,
  len schema_json < two63 -> len codec_name < two63 ->
  Forall (fun r => exists v', written s c fuel dest r v') (recs_of ops) ->
  Forall (group_small compress) (fst (blocks_spec size [] (ops ++ [OpFlush]))) ->
  (length (fst (blocks_spec size [] (ops ++ [OpFlush]))) < bfuel)%nat ->
  exists body,
    read_header (concat (file_chunks compress schema_json codec_name sync size (ops ++ [OpFlush])))
      = Some ({| h_meta := written_meta schema_json codec_name; h_sync := sync |}, body) /\
    read_blocks decompress (rr c fuel dest) (fun _ => None) bfuel sync 0 body = (length (recs_of ops), FOk).
Proof. exact file_values_roundtrip. Qed.
Print Assumptions C01_through_container.

Theorem C01_record_value : forall reg s t om c, build reg s t om = Some c ->
  forall fuel dest r v', written s c fuel dest r v' ->
  rec_decodes (rr c fuel dest) r /\ forall rest, rv c fuel dest (r ++ rest) = Some v'.
Proof. exact written_decodes. Qed.
Print Assumptions C01_record_value.

(* "Decoding returns the original value".  [canon c dest v] (Proofs/CanonP.v)
   says, codec by codec, that v is in the form a decode into destination dest
   produces: integers fit their Go width, a float32 widened into a double field
   is not a NaN, maps are non-nil, whatever the codec omits equals the
   destination's own value, null.* wrappers are valid, times are within what the
   text / unit carries (years 0000..9999 and whole-minute zones for strings;
   whole units, UTC, for longs; midnights for dates), struct fields the schema
   does not cover equal the destination's.  For such v reading back what Write
   produced yields v itself, and the input is consumed exactly. *)
Theorem C01_returns_original_value : forall reg s t om c v d bs fuel rest dest,
  build reg s t om = Some c -> datum_of c s v = Some d -> phys_ok s d ->
  c_write c v = Some bs -> (3 * dmax d + 1 <= fuel)%nat ->
  canon c dest v ->
  c_read fuel c dest (bs ++ rest) = Done v rest.
Proof.
  intros reg s t om c v d bs fuel rest dest Hb Hd Hp Hw Hf Hc.
  exact (proj1 (write_then_read _ _ _ _ _ _ _ _ fuel rest dest v Hb Hd Hp Hw Hf (roundtrip_identity c s dest v d Hc Hd))).
Qed.
Print Assumptions C01_returns_original_value.

(* and outside [canon], the documented normalisations: a nil map reads back
   empty; an omitted value reads back as the destination's own (zero) value; a
   time under a long schema is floored to the unit, in UTC; a NaN stays a NaN *)
Theorem C01_normalisations :
  (forall vc vz om vsch dest, dest = VMapNil \/ dest = VMap [] ->
     exists d, datum_of (CMap vc vz om) (SMap vsch) VMapNil = Some d /\
               apply_datum (CMap vc vz om) dest d = Some (VMap [])) /\
  (forall c nn x1 x2 dest v, c_omit c v = true ->
     exists d, datum_of (CUnionOne c nn) (SUnion [x1; x2]) v = Some d /\
               apply_datum (CUnionOne c nn) dest d = Some dest) /\
  (forall mult t s d, unit_ok mult -> tv_wf t -> int64_ok (instant_ns t / mult) ->
     datum_of (CTimeLong mult) s (VTime t) = Some d ->
     exists t', forall dest, apply_datum (CTimeLong mult) dest d = Some (VTime t') /\
                             t' = time_of_units mult (instant_ns t / mult)) /\
  (forall om x d dest, 0 <= x < 4294967296 -> f32_is_nan x = true ->
     datum_of (CF32Double om) SDouble (VF32 x) = Some d ->
     exists y, apply_datum (CF32Double om) dest d = Some (VF32 y) /\ f32_is_nan y = true).
Proof. exact (conj norm_nil_map (conj norm_omitted (conj norm_time_long norm_nan))). Qed.
Print Assumptions C01_normalisations.

Example C01_ex :
  let t := TStruct [] [] [GF [65] true [97] [] (TPtr TString);
                          GF [66] true [98;44;111;109;105;116;101;109;112;116;121] [] (TInt I64);
                          GF [68] true [100] [] (TSlice (TMap TString (TInt I16)))] in
  let s := SRecord [([97], SUnion [SNull; SString]); ([98], SUnion [SNull; SLong LtNone]);
                    ([100], SArray (SMap (SLong LtNone)))] in
  let v := VStruct [VPtr (Some (VStr [104; 105])); VInt 0; VSlice [VMap [([120], VInt (-7))]; VMapNil]] in
  exists c d bs, build reg_std s (Some t) false = Some c /\ datum_of c s v = Some d /\ c_write c v = Some bs /\
    c_read 20 c (zero_of t) (bs ++ [9]) =
      Done (VStruct [VPtr (Some (VStr [104; 105])); VInt 0; VSlice [VMap [([120], VInt (-7))]; VMap []]]) [9].
Proof. cbv zeta. eexists. eexists. eexists. repeat split; vm_compute; reflexivity. Qed.

(* non-vacuity of [canon]: a record with a non-nil pointer, an omitted int, a
   slice of maps and a nil pointer under a nullable union is canonical for the
   codec built for it, against the zero destination *)
Example C01_canon_ex :
  let t := TStruct [] [] [GF [65] true [97] [] (TPtr TString);
                          GF [66] true [98;44;111;109;105;116;101;109;112;116;121] [] (TInt I64);
                          GF [68] true [100] [] (TSlice (TMap TString (TInt I16)));
                          GF [69] true [101] [] (TPtr (TInt I32))] in
  let s := SRecord [([97], SUnion [SNull; SString]); ([98], SUnion [SNull; SLong LtNone]);
                    ([100], SArray (SMap (SLong LtNone))); ([101], SUnion [SNull; SLong LtNone])] in
  let v := VStruct [VPtr (Some (VStr [104; 105])); VInt 0; VSlice [VMap [([120], VInt (-7))]; VMap []]; VPtr None] in
  exists c, build reg_std s (Some t) false = Some c /\ canon c (zero_of t) v.
Proof.
  cbv zeta. eexists. split; [vm_compute; reflexivity|].
  apply canon_record_iff. cbn. repeat split; auto.
  all: try (repeat constructor; cbn; intuition congruence).
  all: try (intros k Hk; destruct k as [|[|[|[|k]]]]; try (exfalso; apply Hk; cbn; tauto); reflexivity).
Qed.

(* ---- the whole pipeline in one statement ----------------------------------------------
   NewEncoderFor[T] generates the schema from the Go type, marshals it into the header and
   builds its codec from it; ReadFile reads the header, PARSES the schema text and builds its
   own codec from the parsed schema for the same type.  For every struct type for which the
   encoder exists, every Encode/Flush history closed by a flush, block size and compressor with
   an inverse: the reader recovers the codec name and sync marker, the schema it parses is the
   schema that was generated (schema generation yields normal values, and parse . print is the
   identity on those: C14), so it decodes with the very codec the records were written with,
   and delivers exactly the appended records, each decoding to its value's image.
   [text]/[untext] stand for the JSON library's tree <-> bytes layer. *)
From Coq Require Import String.
Require Import Avro.Model.SchemaGen Avro.Model.Json Avro.Corr.Codec Avro.Proofs.PipelineP.
Local Open Scope string_scope.
Theorem C01_whole_pipeline : forall (text : json -> bytes) (untext : bytes -> option json),
  (forall j, json_text_ok j = true -> untext (text j) = Some j) ->
  forall compress decompress, (forall x, decompress (compress x) = Some x) ->
  forall sync, len sync = 16 ->
  forall t g sj c, encoder_for text t = Some (g, sj, c) ->
  forall codec_name size ops bfuel fuel,
  len sj < two63 -> len codec_name < two63 ->
  Forall (fun r => exists v', written (classify g) c fuel (zero_of (top_type t)) r v') (recs_of ops) ->
  Forall (group_small compress) (fst (blocks_spec size [] (ops ++ [OpFlush]))) ->
  (length (fst (blocks_spec size [] (ops ++ [OpFlush]))) < bfuel)%nat ->
  exists h body c',
    read_header (concat (file_chunks compress sj codec_name sync size (ops ++ [OpFlush]))) = Some (h, body) /\
    meta_get (h_meta h) (b "avro.codec") = Some codec_name /\ h_sync h = sync /\
    reader_codec untext h t = Some c' /\ c' = c /\
    read_blocks decompress (rr c' fuel (zero_of (top_type t))) (fun _ => None) bfuel sync 0 body
      = (length (recs_of ops), FOk).
Proof. exact whole_pipeline. Qed.
Print Assumptions C01_whole_pipeline.

(* non-vacuity: the encoder exists for a struct with a pointer, an omitempty integer, a slice of
   maps and a wrapper-typed field, whatever the JSON text layer is *)
Example C01_pipeline_ex : forall text : json -> bytes,
  let t := TStruct (b "T") (b "main")
             [GF (b "A") true (b "a") [] (TPtr TString);
              GF (b "B") true (b "b,omitempty") [] (TInt I64);
              GF (b "D") true (b "d") [] (TSlice (TMap TString (TInt I16)));
              GF (b "W") true [] [] (TWrap WTime)] in
  exists g c, encoder_for text t = Some (g, text (marshal g), c).
Proof.
  intros text. cbv zeta.
  match goal with |- context [encoder_for _ ?t] =>
    let g := eval vm_compute in (schema_for_type sreg_std t) in
    match g with
    | Some ?g0 =>
      let c := eval vm_compute in (build_top g0 t) in
      match c with Some ?c0 => exists g0, c0; apply encoder_for_defined; vm_compute; reflexivity end
    end
  end.
Qed.
