(* C11 — Decoded values are fully visible to the garbage collector.  PARTIAL.

   What is proved here is the part of the property that is logic: the decoder
   allocates every object with a type whose pointer bitmap (and size) equals that of
   the type the enclosing Go value uses the memory as, and every pointer the decoder
   stores lands in a word that bitmap marks as a pointer.  Model/GcTyping.v lists the
   allocation sites; [alloc_type] is what each codec's New hands to the allocator.

   What is NOT modelled, and is exercised by harness/c11.go under forced collections
   instead: the collector, write barriers, stack maps, the uintptr arithmetic of
   ResourceBank.Alloc / arrayCodec.Read between allocation and use, and the layout of
   the stack-allocated [mapiter] struct against the runtime's iterator
   (MapCodec.Write).  That a store at a byte offset listed by [ptr_offsets] is the
   word [ptrmap] flags (offsets are multiples of 8 inside the object) is a property of
   Go's layout; [ptrmap] is compared with the runtime's own type bitmaps by the
   correspondence check (Corr/Gc.v, KPtrmap), as is [alloc_type] with the arenas the
   real decoder leaves in its bank (KAllocs). *)
From Coq Require Import List ZArith Lia Bool.
Require Import Avro.Model.Base Avro.Model.Prim Avro.Model.Schema Avro.Model.GoType
               Avro.Model.Codec Avro.Model.Layout Avro.Model.GcTyping.
Require Import Avro.Proofs.LayoutP Avro.Proofs.GcTypingP.
Import ListNotations.
Open Scope Z_scope.

(* For every schema, Go type and registry in which the library's wrapper codecs are
   registered for their own types only (user codecs may be registered for anything,
   provided their New delegates to the codec they wrap): if buildCodec returns a
   codec c for t, then at every position of the codec tree
     - behind every pointer, the object PointerCodec.Read obtains from the pointee
       codec's New has the size and pointer bitmap of the pointee type
       -- pointer to []T: a sliceHeader viewed as a []T; pointer to map: a map variable;
       pointer to pointer: an unsafe.Pointer viewed as a pointer; pointer to [N]byte: N
       bytes; pointer to struct: the struct; ... --,
     - in every map, the temporary MapCodec.Read obtains from the value codec's New
       (or from Alloc(value type) when that is nil) and hands to mapassign has the
       size and bitmap of the value type (maps of maps, maps of slices, maps of
       pointers, maps of structs, maps of wrappers),
     - each codec's own pointer stores are pointer words of the type at its position,
   and what c's own New allocates is scanned as t. *)
Theorem C11_alloc_typed : forall reg, reg_sane reg ->
  forall s t om c, build reg s (Some t) om = Some c ->
    gc_typed mapnew_now c t /\ alloc_ok mapnew_now c t.
Proof. exact build_gc_typed. Qed.
Print Assumptions C11_alloc_typed.

(* hence: every pointer-carrying word Read stores into the object it is handed --
   through record fields at their offsets, union branches and custom codecs -- is a
   pointer word of that object's type *)
Theorem C11_stores_scanned : forall reg, reg_sane reg ->
  forall s t om c, build reg s (Some t) om = Some c ->
    Forall (fun o => In o (ptr_offsets t)) (obj_stores c t 0).
Proof. exact build_stores_scanned. Qed.
Print Assumptions C11_stores_scanned.

(* layout: the pointer words of a struct are its fields' pointer words at the field
   offsets; those of an array (a slice's backing store of n items) are the item's,
   repeated at the item stride *)
Theorem C11_struct_words : forall n p gfs j gf o,
  nth_error gfs j = Some gf -> In o (ptr_offsets (gf_type gf)) ->
  In (nth j (field_offsets gfs 0) 0 + o) (ptr_offsets (TStruct n p gfs)).
Proof. exact struct_ptr_words. Qed.
Print Assumptions C11_struct_words.

Theorem C11_array_words : forall n e i o, 0 <= i < n -> In o (ptr_offsets e) ->
  In (i * sizeof e + o) (ptr_offsets (TArray n e)).
Proof. exact array_ptr_words. Qed.
Print Assumptions C11_array_words.

(* defined types and their underlying types are scanned alike *)
Theorem C11_named_same : forall t, same_gc (underlying t) t.
Proof. intros t. apply same_gc_under. apply same_gc_refl. Qed.
Print Assumptions C11_named_same.

(* New of the nullable-union codecs and of custom codecs is the wrapped codec's New *)
Theorem C11_union_new : forall t mn c nn om,
  alloc_type mn (CUnionOne c nn) t = alloc_type mn c t /\
  alloc_type mn (CUnionStr om nn) t = Some TString /\
  alloc_type mn (CCustom nn c) t = alloc_type mn c t.
Proof. exact union_new. Qed.
Print Assumptions C11_union_new.

(* Why commit c9c3b89 was needed.  Before it, MapCodec.New returned
   reflect.MakeMap(rtype).Pointer(): the runtime's map object, which MapCodec.Read
   then used as if it were a map VARIABLE -- it read the first word (the element
   count, 0) as a nil map and stored the pointer of a fresh map into it.  With that
   New ([mapnew_old]) the theorem is false: for struct{F *map[string]int64} and for
   struct{F map[string]map[string]int64} the codec that buildCodec returns is not
   gc_typed, because a 48-byte object whose first word is a scalar is used as an
   8-byte object whose only word is a pointer.  The collector never sees the map.
   (Classifier key of the driver, should it come back: map-new-header.) *)
Theorem C11_map_new_regression :
  (exists c, build reg_std rg_schema (Some rg_ptr_map) false = Some c /\
             gc_typed mapnew_now c rg_ptr_map /\ ~ gc_typed mapnew_old c rg_ptr_map) /\
  (exists c, build reg_std rg_schema2 (Some rg_map_map) false = Some c /\
             gc_typed mapnew_now c rg_map_map /\ ~ gc_typed mapnew_old c rg_map_map) /\
  nth 0 (ptrmap rg_map) false = true /\ nth 0 (ptrmap (mapnew_old rg_map)) true = false /\
  sizeof (mapnew_old rg_map) = 48 /\ sizeof rg_map = 8.
Proof. exact map_new_old_refuted. Qed.
Print Assumptions C11_map_new_regression.

(* ---- non-vacuity ------------------------------------------------------------ *)

(* the bitmap table *)
Example C11_bitmaps :
  ptrmap TString = [true; false] /\ ptrmap (TSlice TBool) = [true; false; false] /\
  ptrmap (TMap TString TBool) = [true] /\ ptrmap (TPtr TBool) = [true] /\ ptrmap TUnsafePtr = [true] /\
  ptrmap TChan = [true] /\ ptrmap TFunc = [true] /\ ptrmap TIface = [false; true] /\
  ptrmap (TWrap WTime) = [false; false; true] /\ ptrmap (TWrap WNullInt) = [false; false] /\
  ptrmap (TWrap WNullString) = [true; false; false] /\ ptrmap (TWrap WNullTime) = [false; false; true; false] /\
  ptrmap (TWrap WNullBool) = [false] /\ ptrmap (TInt I16) = [false] /\
  ptrmap slice_header = [true; false; false] /\
  ptrmap (TArray 4 (TInt U8)) = [false] /\ ptrmap (TArray 9 (TInt U8)) = [false; false] /\
  ptrmap (TArray 2 (TStruct [] [] [GF [65] true [] [] (TInt I16); GF [66] true [] [] TString; GF [67] true [] [] TBool]))
    = [false; true; false; false; false; true; false; false].
Proof. vm_compute. repeat split; reflexivity. Qed.

(* the iterator struct the library puts on its stack is at least as large as what go1.24's
   mapiterinit / mapiternext write, with pointer words wherever they store pointers (an
   example about two type descriptions; the iteration protocol is not modelled) *)
Example C11_mapiter_compatible :
  sizeof linkname_iter_type <= sizeof mapiter_type /\
  ptrmap linkname_iter_type = firstn 4 (ptrmap mapiter_type) /\
  ptrmap mapiter_type = [true; true; true; true; true; true; true; true; false; false; false; false].
Proof. vm_compute. repeat split; try reflexivity. discriminate. Qed.

(* a target with the notable shapes: slices and maps behind pointers, a map of maps,
   a map of slices, a map of pointers, a pointer to a fixed array, a slice of
   pointers, a double pointer *)
Definition ex_fields : list gfield :=
  [ GF [65] true [97] [] (TPtr (TSlice TString));
    GF [66] true [98] [] (TPtr (TMap TString (TInt I64)));
    GF [67] true [99] [] (TMap TString (TMap TString TString));
    GF [68] true [100] [] (TMap TString (TSlice (TInt I64)));
    GF [69] true [101] [] (TMap TString (TPtr TString));
    GF [70] true [102] [] (TPtr (TArray 5 (TInt U8)));
    GF [71] true [103] [] (TSlice (TPtr (TInt I32)));
    GF [72] true [104] [] (TPtr (TPtr TFloat64)) ].
Definition ex_type : gtype := TStruct [] [] ex_fields.
Definition ex_schema : schema :=
  SRecord [ ([97], SArray SString); ([98], SMap (SLong LtNone)); ([99], SMap (SMap SString));
            ([100], SMap (SArray (SLong LtNone))); ([101], SMap (SUnion [SNull; SString]));
            ([102], SUnion [SNull; SFixed 5]); ([103], SArray (SUnion [SNull; SInt false]));
            ([104], SUnion [SNull; SDouble]) ].

Example C11_ex :
  exists c, build reg_std ex_schema (Some ex_type) false = Some c /\
    gc_typed mapnew_now c ex_type /\
    obj_stores c ex_type 0 = [0; 8; 16; 24; 32; 40; 48; 72] /\
    ptrmap ex_type = [true; true; true; true; true; true; true; false; false; true] /\
    bank_sites c ex_type =
      [ slice_header; TMap TString (TInt I64); TInt I64; TMap TString TString; TString; slice_header;
        TUnsafePtr; TString; TArray 5 (TInt U8); TInt I32; TUnsafePtr; TFloat64 ].
Proof.
  eexists. split; [vm_compute; reflexivity|]. split.
  - apply (C11_alloc_typed reg_std reg_std_sane ex_schema ex_type false). vm_compute. reflexivity.
  - vm_compute. repeat split; reflexivity.
Qed.
