(* C19 — Logical date and timestamp types decode to the instant the spec defines.
   Statements only; [Print Assumptions] under each; non-vacuity examples.
   Model: the CDate / CTimeLong cases of c_read / c_write (Model/Codec.v), which
   describe DateCodec and LongCodec of /repo/time/time.go after fix: commits
   c505d19, aa1e58c, 35bfff8.  A time value is TV unix_seconds nanoseconds offset. *)
From Coq Require Import List ZArith Lia.
Require Import Avro.Model.Base Avro.Model.Prim Avro.Model.Schema Avro.Model.GoType Avro.Model.Time Avro.Model.Codec.
Require Import Avro.Proofs.TimeP.
Import ListNotations.
Open Scope Z_scope.

(* date: every int32 day count n decodes to midnight UTC, n days from the epoch
   (negative n included) *)
Theorem C19_date_read : forall fuel dest n rest,
  int_fits 32 n = true ->
  c_read fuel CDate dest (int_write n ++ rest) = Done (VTime (TV (86400 * n) 0 0)) rest.
Proof. exact date_read. Qed.
Print Assumptions C19_date_read.

(* long with unit mult nanoseconds: every int64 l whose instant l*mult is
   representable in int64 nanoseconds decodes to exactly l*mult ns since the
   epoch: seconds = floor, nanoseconds = remainder in [0, 1e9), zone UTC *)
Theorem C19_long_read : forall fuel dest mult l rest,
  int64_ok l -> int64_ok (l * mult) ->
  c_read fuel (CTimeLong mult) dest (int_write l ++ rest) =
  Done (VTime (TV (l * mult / 1000000000) ((l * mult) mod 1000000000) 0)) rest.
Proof. exact long_read. Qed.
Print Assumptions C19_long_read.

(* the unit is the one of the schema's logical type: plain long = 1 ns,
   timestamp-micros = 1000 ns, timestamp-millis = 1000000 ns; date = CDate *)
Theorem C19_schema_units : forall lt inner,
  apply_builder (BWrap WTime) (SLong lt) inner = Some (CTimeLong (lt_unit lt)) /\
  apply_builder (BWrap WTime) (SInt true) inner = Some CDate /\
  lt_unit LtNone = 1 /\ lt_unit LtMicros = 1000 /\ lt_unit LtMillis = 1000000.
Proof. intros lt inner. split; [apply time_codec_long|]. repeat split. Qed.
Print Assumptions C19_schema_units.

(* writing then reading, at the resolution of the type.  "In range" means: the
   instant floored to the unit is representable in int64 nanoseconds
   (int64_ok (instant_ns t / mult * mult)); pre-1970 instants have negative
   instant_ns and are floored, not truncated. *)
Theorem C19_long_write_read : forall fuel dest mult t rest,
  unit_ok mult -> tv_wf t -> int64_ok (instant_ns t / mult * mult) ->
  exists bs, c_write (CTimeLong mult) (VTime t) = Some bs /\
    bs = int_write (instant_ns t / mult) /\
    c_read fuel (CTimeLong mult) dest (bs ++ rest) =
      Done (VTime (time_of_ns (instant_ns t / mult * mult))) rest.
Proof. exact long_write_read. Qed.
Print Assumptions C19_long_write_read.

(* date: "in range" means the floored day count fits int32; the stored integer is
   floor(seconds / 86400) (Z division floors), and it reads back as that midnight *)
Theorem C19_date_write_read : forall fuel dest s n off rest,
  int_fits 32 (s / 86400) = true ->
  exists bs, c_write CDate (VTime (TV s n off)) = Some bs /\
    bs = int_write (s / 86400) /\
    c_read fuel CDate dest (bs ++ rest) = Done (VTime (TV (86400 * (s / 86400)) 0 0)) rest.
Proof. exact date_write_read. Qed.
Print Assumptions C19_date_write_read.

(* the other direction: the decoded time is encoded as the integer it came from *)
Theorem C19_date_read_write : forall n, int_fits 32 n = true ->
  c_write CDate (VTime (TV (86400 * n) 0 0)) = Some (int_write n).
Proof. exact date_read_write. Qed.
Print Assumptions C19_date_read_write.

Theorem C19_long_read_write : forall mult l, unit_ok mult -> int64_ok l -> int64_ok (l * mult) ->
  c_write (CTimeLong mult) (VTime (time_of_ns (l * mult))) = Some (int_write l).
Proof. exact long_read_write. Qed.
Print Assumptions C19_long_read_write.

(* timestamp-millis and timestamp-micros over the whole range of the stored
   long (beyond the instants int64 nanoseconds can hold): every int64 decodes
   to the instant l * unit exactly, is written back as l, and every time whose
   floored unit count fits a long is stored as that count and decodes to it *)
Theorem C19_timestamp_whole_range : forall mult, ts_unit mult ->
  (forall fuel dest l rest, int64_ok l ->
     c_read fuel (CTimeLong mult) dest (int_write l ++ rest) = Done (VTime (time_of_units mult l)) rest) /\
  (forall l, tv_wf (time_of_units mult l) /\ instant_ns (time_of_units mult l) = l * mult) /\
  (forall l, int64_ok l -> c_write (CTimeLong mult) (VTime (time_of_units mult l)) = Some (int_write l)) /\
  (forall fuel dest t rest, tv_wf t -> int64_ok (instant_ns t / mult) ->
     exists bs, c_write (CTimeLong mult) (VTime t) = Some bs /\ bs = int_write (instant_ns t / mult) /\
       c_read fuel (CTimeLong mult) dest (bs ++ rest) = Done (VTime (time_of_units mult (instant_ns t / mult))) rest).
Proof.
  intros mult Hu. refine (conj _ (conj _ (conj _ _))).
  - intros. apply long_read_wide. assumption.
  - intros. apply time_of_units_wf. exact Hu.
  - intros. apply long_read_write_wide; assumption.
  - intros. apply long_write_read_wide; assumption.
Qed.
Print Assumptions C19_timestamp_whole_range.

(* non-vacuity *)
Example C19_ex_read :
  c_read 0 CDate VBad (int_write (-1)) = Done (VTime (TV (-86400) 0 0)) [] /\
  c_read 0 CDate VBad (int_write (-2147483648)) = Done (VTime (TV (-185542587187200) 0 0)) [] /\
  c_read 0 CDate VBad (int_write 2147483648) = Err /\
  c_read 0 (CTimeLong 1000000) VBad (int_write (-1)) = Done (VTime (TV (-1) 999000000 0)) [] /\
  c_read 0 (CTimeLong 1000) VBad (int_write (-1500001)) = Done (VTime (TV (-2) 499999000 0)) [] /\
  c_read 0 (CTimeLong 1) VBad (int_write (-9223372036854775808)) = Done (VTime (TV (-9223372037) 145224192 0)) [].
Proof. repeat split; vm_compute; reflexivity. Qed.
Example C19_ex_write :
  (* 1969-12-31T23:59:59.9999995Z *)
  c_write CDate (VTime (TV (-1) 999999500 0)) = Some (int_write (-1)) /\
  c_write (CTimeLong 1000000) (VTime (TV (-1) 999999500 0)) = Some (int_write (-1)) /\
  c_write (CTimeLong 1000) (VTime (TV (-1) 999999500 0)) = Some (int_write (-1)) /\
  c_write (CTimeLong 1) (VTime (TV (-1) 999999500 0)) = Some (int_write (-500)) /\
  unit_ok 1000 /\ tv_wf (TV (-1) 999999500 0) /\ int64_ok (instant_ns (TV (-1) 999999500 0) / 1000 * 1000).
Proof. unfold unit_ok, tv_wf, int64_ok, two63. repeat split; try lia; vm_compute; try reflexivity; auto; discriminate. Qed.
