(* C04 — Projection: fields the target struct lacks are skipped without side
   effects; skipping any value consumes exactly the bytes decoding it would. *)
From Coq Require Import List ZArith.
Require Import Avro.Model.Base Avro.Model.Prim Avro.Model.Schema Avro.Model.GoType
               Avro.Model.Spec Avro.Model.Codec Avro.Model.Denote.
Require Import Avro.Proofs.Wire Avro.Proofs.BuildP Avro.Proofs.ReadP Avro.Proofs.ProjectP.
Require Import Avro.Proofs.LayoutP Avro.Proofs.ProjectSimP Avro.Proofs.ProjectBuildP.
Import ListNotations.
Open Scope Z_scope.

(* For every registry, schema, Go type (or none: a field the struct lacks),
   and every byte string the strict reference decoder accepts as an encoding of
   some datum — any block structure, sized or unsized — the codec the library
   builds skips to exactly the position where the encoding ends. *)
Theorem C04_skip_exact : forall reg s t om c fuel bs d r,
  build reg s t om = Some c -> sd fuel s bs = Done d r -> c_skip fuel c bs = Done tt r.
Proof. intros reg s t om c fuel bs d r Hb Hs. eapply skip_exact; [eapply build_wire; exact Hb|exact Hs]. Qed.
Print Assumptions C04_skip_exact.

(* ... and that is the position where decoding ends: Skip and Read consume the same bytes. *)
Theorem C04_skip_equals_read : forall reg s t om c fuel bs d r dest v,
  build reg s t om = Some c -> sd fuel s bs = Done d r -> apply_datum c dest d = Some v ->
  c_read fuel c dest bs = Done v r /\ c_skip fuel c bs = Done tt r.
Proof.
  intros reg s t om c fuel bs d r dest v Hb Hs Ha. pose proof (build_wire _ _ _ _ _ Hb) as W. split.
  - eapply read_complete; eauto.
  - eapply skip_exact; eauto.
Qed.
Print Assumptions C04_skip_equals_read.

(* Projection, at the level of the decoded datum (R lifts it to bytes): take the
   record codec for a full target and the one for the same target with some
   fields removed ([keep j = false]: schema fields that targeted struct field j
   are now skipped).  Decoding the same record into the same initial struct:
   every kept field gets exactly the value it gets in the full target, and every
   removed field keeps its initial (zero) value. *)
Theorem C04_projection_drop : forall keep fs ds vs0 vsA',
  apply_fields fs ds vs0 = Some vsA' ->
  exists vsB', apply_fields (map (drop_target keep) fs) ds vs0 = Some vsB' /\
    length vsB' = length vs0 /\
    (forall j, keep j = true -> nth j vsB' VBad = nth j vsA' VBad) /\
    (forall j, keep j = false -> nth j vsB' VBad = nth j vs0 VBad).
Proof. intros keep fs ds vs0 vsA' H. eapply (projection_drop keep fs ds vs0 vs0 vs0 vsA'); auto. Qed.
Print Assumptions C04_projection_drop.

(* fields added to the target (no schema field targets them) are left as they were *)
Theorem C04_added_fields_untouched : forall fs ds vs vs' j,
  (forall c, ~ In (c, Some j) fs) -> apply_fields fs ds vs = Some vs' -> nth j vs' VBad = nth j vs VBad.
Proof. exact untargeted_unchanged. Qed.
Print Assumptions C04_added_fields_untouched.

(* Projection at any nesting depth, through the codec builder.

   [tsub strict tB tA] (Proofs/ProjectBuildP.v): tB is tA with struct fields —
   selected by their record name — deleted or reordered, at any depth behind
   pointers, slices, map values and defined types; with [strict = false] fields
   may also have been added.  Fields present on both sides keep their omitempty
   flag and have related types.  [sok s]: record field names are distinct (as
   Avro requires) and unions are of the nullable two-branch form.
   [vproj cB cA vB vA] (Proofs/ProjectSimP.v): every field that has a target
   on both sides holds related values, recursively; equality at leaves.

   For any sane registry, schema in scope, related target types, and datum:
   if the full target decodes the datum (into a zero value), then
   - with fields only deleted / reordered the projected target decodes it too, and
   - whenever the other target decodes it, every field that remains holds the
     same value as in the full decode, at every depth. *)
Theorem C04_projection_any_depth : forall strict reg s tB tA om cA cB d vA,
  reg_sane reg -> sok s -> tsub strict tB tA ->
  build reg s (Some tA) om = Some cA -> build reg s (Some tB) om = Some cB ->
  apply_datum cA (zero_of tA) d = Some vA ->
  (strict = true -> exists vB, apply_datum cB (zero_of tB) d = Some vB) /\
  (forall vB, apply_datum cB (zero_of tB) d = Some vB -> vproj cB cA vB vA).
Proof. exact projection_any_depth. Qed.
Print Assumptions C04_projection_any_depth.

(* ... and on the bytes (composition with R): for every byte string the reference
   decoder accepts as datum d, whatever block structure the writer chose, if the
   full target decodes d then the projected target (fields deleted / reordered
   only) reads the same bytes successfully, stops at the same byte, and every field
   that remains holds the same value as in the full decode *)
Theorem C04_projection_on_bytes : forall reg s tB tA om cA cB fuel bs d r vA,
  reg_sane reg -> sok s -> tsub true tB tA ->
  build reg s (Some tA) om = Some cA -> build reg s (Some tB) om = Some cB ->
  sd fuel s bs = Done d r -> apply_datum cA (zero_of tA) d = Some vA ->
  c_read fuel cA (zero_of tA) bs = Done vA r /\
  exists vB, c_read fuel cB (zero_of tB) bs = Done vB r /\ vproj cB cA vB vA.
Proof.
  intros reg s tB tA om cA cB fuel bs d r vA Hreg Hok Hs HA HB Hsd Ha.
  destruct (projection_any_depth true reg s tB tA om cA cB d vA Hreg Hok Hs HA HB Ha) as [Hex Hag].
  destruct (Hex eq_refl) as [vB Hb]. split.
  - eapply read_complete; [eapply build_wire; exact HA|exact Hsd|exact Ha].
  - exists vB. split; [|apply Hag; exact Hb].
    eapply read_complete; [eapply build_wire; exact HB|exact Hsd|exact Hb].
Qed.
Print Assumptions C04_projection_on_bytes.

(* the two halves it is made of: the builder yields related codec trees and
   related zero destinations; related trees decode to related values from any
   related destinations (not only zero ones) *)
Theorem C04_builder_yields_related_trees : forall strict reg, reg_sane reg -> forall s, sok s ->
  forall tB tA om cA cB, tsub strict tB tA ->
  build reg s (Some tA) om = Some cA -> build reg s (Some tB) om = Some cB ->
  cproj strict cB cA /\ vproj cB cA (zero_of tB) (zero_of tA).
Proof. intros strict reg Hreg s Hok. exact (build_proj strict reg Hreg s Hok). Qed.
Print Assumptions C04_builder_yields_related_trees.

Theorem C04_related_trees_decode_alike : forall strict cA cB destB destA d vA,
  cproj strict cB cA -> vproj cB cA destB destA -> apply_datum cA destA d = Some vA ->
  (strict = true -> exists vB, apply_datum cB destB d = Some vB) /\
  (forall vB, apply_datum cB destB d = Some vB -> vproj cB cA vB vA).
Proof. intros strict cA cB. exact (project_sim strict cA cB). Qed.
Print Assumptions C04_related_trees_decode_alike.

(* the relation is reflexive, and holds between struct types whose same-named fields are related *)
Theorem C04_tsub_refl : forall strict t, tsub strict t t.
Proof. exact tsub_refl. Qed.
Print Assumptions C04_tsub_refl.

Theorem C04_tsub_by_field_names : forall strict nB pB fsB nA pA fsA,
  (forall fB fA, In fB fsB -> In fA fsA -> name_for_field fB = name_for_field fA ->
     omit_empty fB = omit_empty fA /\ tsub strict (gf_type fB) (gf_type fA)) ->
  (strict = true -> forall fB, In fB fsB -> name_for_field fB <> dash ->
     exists fA, In fA fsA /\ name_for_field fA = name_for_field fB) ->
  tsub strict (TStruct nB pB fsB) (TStruct nA pA fsA).
Proof. exact ts_struct_pairs. Qed.
Print Assumptions C04_tsub_by_field_names.

(* non-vacuity: a record with a size-prefixed multi-block array followed by a
   further field, decoded, projected onto a struct lacking the array, and skipped *)
Example C04_ex :
  let s := SRecord [([97], SArray (SLong LtNone)); ([98], SString)] in
  let bs := [3; 4; 2; 4; 2; 6; 0; 2; 120; 9] in   (* block of 2 with byte size 2, block of 1, end; "x"; tail 9 *)
  let t := TStruct [] [] [GF [66] true [98] [] TString] in
  sd 50 s bs = Done (DRecord [DArray [DLong 1; DLong 2; DLong 3]; DString [120]]) [9] /\
  (exists c, build reg_std s (Some t) false = Some c /\
             c_read 50 c (zero_of t) bs = Done (VStruct [VStr [120]]) [9] /\
             c_skip 50 c bs = Done tt [9]).
Proof. cbv zeta. split; [vm_compute; reflexivity|]. eexists. split; [vm_compute; reflexivity|]. split; vm_compute; reflexivity. Qed.

(* non-vacuity of the any-depth statement: the types of [tsub_example] (a field
   deleted, the others reordered, and a field deleted inside the slice's element
   struct), one schema, one datum: both codecs build, both decodes succeed, and the
   results are what the relation says *)
Example C04_depth_ex :
  let inner_full := TStruct [73] [] [GF [88] true [120] [] (TInt I64); GF [89] true [121] [] TString] in
  let inner_less := TStruct [74] [] [GF [89] true [121] [] TString] in
  let tA := TStruct [65] [] [GF [65] true [97] [] (TPtr TString); GF [66] true [98] [] (TInt I64);
                             GF [68] true [100] [] (TSlice inner_full)] in
  let tB := TStruct [66] [] [GF [68] true [100] [] (TSlice inner_less); GF [65] true [97] [] (TPtr TString)] in
  let s := SRecord [([97], SUnion [SNull; SString]); ([98], SLong LtNone);
                    ([100], SArray (SRecord [([120], SLong LtNone); ([121], SString)]))] in
  let d := DRecord [DUnion 1 (DString [104; 105]); DLong 7; DArray [DRecord [DLong 1; DString [112]]; DRecord [DLong 2; DString [113]]]] in
  tsub true tB tA /\ sok s /\
  exists cA cB, build reg_std s (Some tA) false = Some cA /\ build reg_std s (Some tB) false = Some cB /\
    apply_datum cA (zero_of tA) d =
      Some (VStruct [VPtr (Some (VStr [104; 105])); VInt 7; VSlice [VStruct [VInt 1; VStr [112]]; VStruct [VInt 2; VStr [113]]]]) /\
    apply_datum cB (zero_of tB) d =
      Some (VStruct [VSlice [VStruct [VStr [112]]; VStruct [VStr [113]]]; VPtr (Some (VStr [104; 105]))]).
Proof.
  cbv zeta. split; [exact tsub_example|]. split.
  - apply sok_record; [repeat constructor; cbn; intuition congruence|].
    apply Forall_cons; [|apply Forall_cons; [|apply Forall_cons; [|apply Forall_nil]]]; cbn [snd].
    + apply sok_null_first. apply sok_leaf. exact I.
    + apply sok_leaf. exact I.
    + apply sok_array. apply sok_record; [repeat constructor; cbn; intuition congruence|].
      apply Forall_cons; [|apply Forall_cons; [|apply Forall_nil]]; cbn [snd]; apply sok_leaf; exact I.
  - eexists. eexists. repeat split; vm_compute; reflexivity.
Qed.
